import OpusProofs.EndToEnd
/-
  Cross-property composition (C02 clause "decoding the packets, with this decoder at any output rate and
  channel count, returns exactly that many samples per packet"), at the level the models reach:

      encoder skeleton (C02/C05)  →  bytes  →  [opus_packet_pad / opus_packet_unpad (C07)]  →
      packet parser (C06)  →  decoder skeleton (C01)

  Encoder side: `Opus.EncSkel.encodeNative s fuzz frame_size out_data_bytes oe` with a success return
  (`ok = true`: the state is within `stOk`, the frame size is legal, and the ENCODER-SIDE ORACLE CONTRACTS
  hold — the inner SILK/CELT encoders return byte counts within the budget they were given, see
  OpusProps/C05.lean) and `entryCheck = none`.  The packet is `pktBytes hdr frames size`:
  the header the skeleton wrote, ANY frame contents of the recorded lengths (bytes), zero padding.
  Decoder side: `Opus.DecSkel.decodeNative od (some bytes) len pcm frame_size 0 false sc r` from ANY run
  whose state satisfies `DecInv` (any output rate in {8,12,16,24,48} kHz, 1 or 2 channels, any history),
  for every DECODER-SIDE ORACLE within `OracleOk` (the inner SILK/CELT decoders return the frame sizes
  their contracts prescribe, C01), with room for `frame_size · Fs_dec / Fs_enc` samples per channel.
  No other hypothesis: in particular nothing is assumed about the bytes inside the frames.

  The multistream version is composed separately, in OpusProps/EndToEndMs.lean
  (`ms_encode_decode_duration`, `ms_encode_decode_duration_contract`): C10 `ms_encode_packet_structure` gives
  `msPacketValidate out n Fs = .ok frame_size`, and C01 `msDecodeFull_duration` / OpusProofs/DecSkelMsDur.lean
  `msDecodeFull_duration_spec` supply the decoder-side lemma that was missing when this file was first written
  ("if the validation pass reports `k ≤ frame_size` then `msDecodeFull` returns exactly `k`").
-/
namespace OpusProps.EndToEnd
open Opus Opus.EncSkel Opus.EncSkel.Proofs Opus.DecSkel Opus.EndToEnd

/-- **encode_decode_duration.**  Every packet the encoder skeleton returns for `frame_size` samples at
    `Fs_enc` is exactly `ret` bytes long (`1 ≤ ret ≤ out_data_bytes`), and the decoder skeleton — at any
    of the five output rates, either channel count, from any state within `DecInv`, for every DSP oracle
    within its contracts — returns exactly `frame_size · Fs_dec / Fs_enc` on those `ret` bytes (never an
    error), a positive number, and `OPUS_GET_LAST_PACKET_DURATION` then reports the same. -/
theorem encode_decode_duration (s : St) (fuzz : Bool) (fsz out : Int) (oe : NatOr) (hfs : FsOk s.fs)
    (he : entryCheck s fsz out = none) (hok : (encodeNative s fuzz fsz out oe).ok = true)
    (frames : List Bytes) (hfl : frames.map List.length = (encodeNative s fuzz fsz out oe).pkt.lens)
    (hfb : ∀ f ∈ frames, BytesOk f)
    (od : Oracle) (hod : OracleOk od) (r : Run) (hinv : DecInv r.st) (hlog : r.log = [])
    (pcm : Ptr) (frame_size : Int) (sc : Bool) (hfit : fsz * r.st.Fs / s.fs ≤ frame_size)
    (hbuf : pcm.buf = .pcm) (hroom : 0 ≤ pcm.off ∧ pcm.off + frame_size * r.st.channels ≤ pcm.cap) :
    let res := encodeNative s fuzz fsz out oe
    let bs := pktBytes res.pkt.hdr frames res.pkt.size
    ((bs.length : Int) = res.ret ∧ 1 ≤ res.ret ∧ res.ret ≤ out) ∧
    (decodeNative od (some bs) bs.length pcm frame_size 0 false sc r).ret = .ret (fsz * r.st.Fs / s.fs) ∧
    (decodeNative od (some bs) bs.length pcm frame_size 0 false sc r).run.st.last_packet_duration = fsz * r.st.Fs / s.fs ∧
    0 < fsz * r.st.Fs / s.fs := by
  intro res bs
  obtain ⟨P, hv, hf, hs, hz, hdur, hlen, hlo, hhi⟩ := Enc.encoder_packet s fuzz fsz out oe he hok frames hfl
  have hd := decode_same_frames s.fs fsz hfs P P hv hv rfl rfl hdur (by rw [hf]; exact hfb) hz od hod r hinv hlog
    pcm frame_size sc hfit hbuf hroom
  have e : bs = FramingSpec.serialize false P := hs.symm
  rw [e]
  exact ⟨⟨hlen, hlo, hhi⟩, hd.1, hd.2.1, hd.2.2.2⟩

/-- **encode_decode_duration_padded.**  The same after `opus_packet_pad` to ANY `new_len ≥ ret`: padding
    succeeds (the encoder's own padding is all zero, hence free of extensions), the result is exactly
    `new_len` bytes, and the decoder returns the same `frame_size · Fs_dec / Fs_enc`. -/
theorem encode_decode_duration_padded (s : St) (fuzz : Bool) (fsz out : Int) (oe : NatOr) (hfs : FsOk s.fs)
    (he : entryCheck s fsz out = none) (hok : (encodeNative s fuzz fsz out oe).ok = true)
    (frames : List Bytes) (hfl : frames.map List.length = (encodeNative s fuzz fsz out oe).pkt.lens)
    (hfb : ∀ f ∈ frames, BytesOk f) (newLen : Int) (hnew : (encodeNative s fuzz fsz out oe).ret ≤ newLen)
    (od : Oracle) (hod : OracleOk od) (r : Run) (hinv : DecInv r.st) (hlog : r.log = [])
    (pcm : Ptr) (frame_size : Int) (sc : Bool) (hfit : fsz * r.st.Fs / s.fs ≤ frame_size)
    (hbuf : pcm.buf = .pcm) (hroom : 0 ≤ pcm.off ∧ pcm.off + frame_size * r.st.channels ≤ pcm.cap) :
    let res := encodeNative s fuzz fsz out oe
    ∃ y, Repack.packetPad (pktBytes res.pkt.hdr frames res.pkt.size) newLen = .ok y ∧ (y.length : Int) = newLen ∧
      (decodeNative od (some y) y.length pcm frame_size 0 false sc r).ret = .ret (fsz * r.st.Fs / s.fs) ∧
      (decodeNative od (some y) y.length pcm frame_size 0 false sc r).run.st.last_packet_duration = fsz * r.st.Fs / s.fs := by
  intro res
  obtain ⟨P, hv, hf, hs, hz, hdur, hlen, _, _⟩ := Enc.encoder_packet s fuzz fsz out oe he hok frames hfl
  obtain ⟨q, hvq, hpad, hql, hqf, hqt, hqz⟩ := pad_valid P hv hz newLen (by rw [hlen]; exact hnew)
  have hd := decode_same_frames s.fs fsz hfs P q hv hvq hqf hqt hdur (by rw [hf]; exact hfb) hqz od hod r hinv hlog
    pcm frame_size sc hfit hbuf hroom
  have e : pktBytes res.pkt.hdr frames res.pkt.size = FramingSpec.serialize false P := hs.symm
  rw [e]
  exact ⟨_, hpad, hql, hd.1, hd.2.1⟩

/-- **encode_decode_duration_unpadded.**  … and after `opus_packet_unpad`: it succeeds, the result is
    not longer than the packet, and decodes to the same `frame_size · Fs_dec / Fs_enc`. -/
theorem encode_decode_duration_unpadded (s : St) (fuzz : Bool) (fsz out : Int) (oe : NatOr) (hfs : FsOk s.fs)
    (he : entryCheck s fsz out = none) (hok : (encodeNative s fuzz fsz out oe).ok = true)
    (frames : List Bytes) (hfl : frames.map List.length = (encodeNative s fuzz fsz out oe).pkt.lens)
    (hfb : ∀ f ∈ frames, BytesOk f)
    (od : Oracle) (hod : OracleOk od) (r : Run) (hinv : DecInv r.st) (hlog : r.log = [])
    (pcm : Ptr) (frame_size : Int) (sc : Bool) (hfit : fsz * r.st.Fs / s.fs ≤ frame_size)
    (hbuf : pcm.buf = .pcm) (hroom : 0 ≤ pcm.off ∧ pcm.off + frame_size * r.st.channels ≤ pcm.cap) :
    let res := encodeNative s fuzz fsz out oe
    ∃ y, Repack.packetUnpad (pktBytes res.pkt.hdr frames res.pkt.size) = .ok y ∧ (y.length : Int) ≤ res.ret ∧
      (decodeNative od (some y) y.length pcm frame_size 0 false sc r).ret = .ret (fsz * r.st.Fs / s.fs) ∧
      (decodeNative od (some y) y.length pcm frame_size 0 false sc r).run.st.last_packet_duration = fsz * r.st.Fs / s.fs := by
  intro res
  obtain ⟨P, hv, hf, hs, hz, hdur, hlen, _, _⟩ := Enc.encoder_packet s fuzz fsz out oe he hok frames hfl
  obtain ⟨q, hvq, hun, hql, hqf, hqt, hqz⟩ := unpad_valid P hv
  have hd := decode_same_frames s.fs fsz hfs P q hv hvq hqf hqt hdur (by rw [hf]; exact hfb) hqz od hod r hinv hlog
    pcm frame_size sc hfit hbuf hroom
  have e : pktBytes res.pkt.hdr frames res.pkt.size = FramingSpec.serialize false P := hs.symm
  rw [e]
  refine ⟨_, hun, ?_, hd.1, hd.2.1⟩
  have : (res.ret : Int) = ((FramingSpec.serialize false P).length : Int) := hlen.symm
  rw [this]; exact Int.ofNat_le.mpr hql

/-! ### Non-vacuity -/

/-- 20 ms CELT: 48 kHz stereo, 64 kb/s CBR (C02's `exSt`), one 159-byte frame, TOC 0xFC, 160 bytes. -/
example : entryCheck OpusProps.C02.exSt 960 4000 = none ∧
    (encodeNative OpusProps.C02.exSt false 960 4000 (OpusProps.C02.exOr 159)).ok = true ∧
    (encodeNative OpusProps.C02.exSt false 960 4000 (OpusProps.C02.exOr 159)).pkt =
      { tocCfg := 252, lens := [159], size := 160, hdr := [252] } ∧
    (encodeNative OpusProps.C02.exSt false 960 4000 (OpusProps.C02.exOr 159)).ret = 160 := by decide +kernel

/-- 60 ms SILK wideband (forced SILK), 16 kHz mono, 64 kb/s CBR: one 141-byte frame padded to 480 bytes — a code-3
    packet (`5B 41 FF 51`: TOC config 11 + code 3, one frame + padding flag, 255+81 → 335 padding bytes). -/
def exSilkSt : St :=
  { OpusProps.C02.exSt with fs := 16000, channels := 1, streamChannels := 1, prevChannels := 1, userForcedMode := 1000 }
def exSilkFr (n : Int) : FrameOr :=
  { OpusProps.C02.exFr 0 with nBytes := n, isr := 16000, tellA := 8 * n, tellB := 8 * n, tellC := 8 * n, tellD := 8 * n,
                              tellE := 8 * n, silkBitRateIn := 24000 }
def exSilkOr (n : Int) : NatOr :=
  { OpusProps.C02.exOr 0 with aValid := 0, frames := [exSilkFr n, exSilkFr n, exSilkFr n] }

example : stOk exSilkSt = true ∧ entryCheck exSilkSt 960 4000 = none ∧
    (encodeNative exSilkSt false 960 4000 (exSilkOr 100)).ok = true ∧
    (encodeNative exSilkSt false 960 4000 (exSilkOr 100)).pkt =
      { tocCfg := 88, lens := [141], size := 480, hdr := [91, 65, 255, 81] } := by decide +kernel

/-- the decoder side: a 48 kHz stereo decoder right after init, C01's example oracle; the 60 ms packet
    of the 16 kHz encoder is 2880 samples there (960·48000/16000), the 20 ms CELT packet 960. -/
example : ∃ st, init 48000 2 = some st ∧ DecInv st ∧ OracleOk exOracle ∧
    (960 : Int) * st.Fs / 16000 = 2880 ∧ (960 : Int) * st.Fs / 48000 = 960 :=
  ⟨_, rfl, init_inv (fs := 48000) (ch := 2) rfl, exOracle_ok, by decide, by decide⟩
/-- all hypotheses together: the 20 ms CELT packet (any 159 frame bytes, here all 7) decoded by a fresh
    48 kHz stereo decoder into a 960-sample stereo buffer returns 960; by a fresh 16 kHz mono decoder, 320. -/
example : ∀ st, init 48000 2 = some st →
    (decodeNative exOracle (some (pktBytes [252] [List.replicate 159 7] 160)) (pktBytes [252] [List.replicate 159 7] 160).length
        ⟨.pcm, 0, 1920⟩ 960 0 false false { st := st, k := 0, log := [] }).ret = .ret 960 := by
  intro st hst
  have h := encode_decode_duration OpusProps.C02.exSt false 960 4000 (OpusProps.C02.exOr 159) (by unfold FsOk; decide)
    (by decide +kernel) (by decide +kernel) [List.replicate 159 7] (by decide +kernel) (by decide +kernel)
    exOracle exOracle_ok { st := st, k := 0, log := [] } (init_inv hst) rfl ⟨.pcm, 0, 1920⟩ 960 false
    (by cases hst; decide) rfl (by cases hst; decide)
  have hp : (encodeNative OpusProps.C02.exSt false 960 4000 (OpusProps.C02.exOr 159)).pkt =
      { tocCfg := 252, lens := [159], size := 160, hdr := [252] } := by decide +kernel
  simp only [hp] at h
  have hv : (960 : Int) * st.Fs / OpusProps.C02.exSt.fs = 960 := by cases hst; decide
  rw [hv] at h
  exact h.2.1
example : FsOk OpusProps.C02.exSt.fs ∧ FsOk exSilkSt.fs := ⟨by unfold FsOk; decide, by unfold FsOk; decide⟩
/-- the padded 60 ms packet parses to one 141-byte frame, 60 ms, and padding to 600 bytes keeps that -/
example : Framing.parseImpl false (pktBytes [91, 65, 255, 81] [List.replicate 141 7] 480) =
    .ok ⟨91, 1, [141], 4, 335, 480⟩ := by decide +kernel

end OpusProps.EndToEnd
