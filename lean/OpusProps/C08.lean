import OpusModel.RangeCoder
namespace OpusProps.C08
open Opus Opus.RangeCoder
/-- placeholder while the proofs are being written -/
theorem init_rng (buf : List Nat) (n : Nat) : (encInit buf n).rng = 2147483648 := rfl
end OpusProps.C08
