import OpusProofs.RangeCoderRoundTrip
import OpusProofs.RangeCoderStageA2
import OpusProofs.RangeCoderBudget
import OpusProofs.RangeCoderPatchRun
import OpusProofs.RangeCoderLockstep3
import OpusProofs.RangeCoderFlags
import OpusProofs.RangeCoderCodes
import OpusProofs.SilkSymsEncRoundTrip
import OpusProofs.OpusFrameSilk
import OpusProofs.OpusFrameRed
import OpusProofs.OpusFrameLockstepExample
/-
  Property C08 — "Range coder: the decoder inverts the encoder symbol for symbol, within budget".

  Model:  `Opus.RangeCoder`  (OpusModel/RangeCoder.lean: transcription of celt/entenc.c, celt/entdec.c,
          celt/entcode.c/.h; one `Ctx` mirroring `struct ec_ctx`; `Op` = one call with its arguments;
          `encOp`/`decOp` the encoder / mirrored decoder call; `encodeAll` = `ec_enc_init`, the calls,
          `ec_enc_done`).
  Every theorem quantifies over ALL operation lists (no length bound), ALL buffer contents and sizes.

  Vocabulary (OpusProofs/RangeCoder*.lean):
    `RngOk c`          2^23 < c.rng ≤ 2^31
    `Op.Legal`         documented parameter domain of one call (ft ≤ 2^16, logp 1..15, 1..25 raw bits, …)
    `Op.LegalAt c op`  `Op.Legal`, plus for `ec_enc_shrink` its assert and "only shrinks"; false for
                       `ec_enc_patch_initial_bits` (patch-style streams: `LegalAtP n`, `LegalRunP n`)
    `LegalRun c ops`   every operation of the list is `LegalAt` the state it is applied to
    `LegalRunP n c ops` the same, additionally allowing `ec_enc_patch_initial_bits(v, n)` with `v < 2^n`
    `lastPatch fl ops` the value last patched by `ops` (`fl` if none)
    `MatchAll ops xs`  the decoder's return values `xs` are, one by one, the values `ops` encoded
                       (`ec_decode`/`ec_decode_bin`: a cumulative frequency inside the symbol's `[fl, fh)`)
    `DecAll B S e d B` invariant D: decoder `d` reading the `S`-byte stream `B` mirrors encoder `e`
                       (same rng, same nbits_total, val = top − code, same raw-bit position, error 0)
    `ShrinksOk c ops`  every `ec_enc_shrink` of the list satisfies its assert and does not grow the buffer

  On the hypothesis `nbitsTotal < 4294967296` of the round-trip theorems: the C field `nbits_total` is an
  `int`; an execution in which it reaches 2^31 has signed overflow, i.e. undefined behaviour, and is
  outside any statement about the C code.  The model keeps the counter as an unbounded natural number,
  and the theorems only need it below 2^32 (so that the `opus_uint32` counter `ext` of buffered 0xFF
  bytes cannot wrap).  The hypothesis therefore only says "the C type's range was respected"; for
  buffers up to 5·10^8 bytes it follows from `tell ≤ 8·storage` (see `done_within_budget`).
-/
namespace OpusProps.C08
open Opus Opus.RangeCoder

/-! ## Stage A — range invariant and bit accounting (independent of buffer space and errors) -/

/-- "rng stays in (2^23, 2^31]": a fresh encoder is normalised and every legal encoder call keeps
    the range normalised, whatever the buffer state and the error flag. -/
theorem rng_normalised (buf : List Nat) (size : Nat) (c : Enc) (op : Op) (hr : RngOk c) (hl : op.Legal) :
    RngOk (encInit buf size) ∧ RngOk (encOp c op) :=
  ⟨encInit_rngOk buf size, (encOp_stageA c op hr hl).1⟩

example : RngOk (encOp (encInit [0, 0, 0, 0] 4) (.encode 65535 65536 65536)) ∧
    (Op.encode 65535 65536 65536).Legal := by decide +kernel

/-- "the fractional count upper-bounds the whole count consistently": for every normalised range and
    every `nbits_total` an `int` can hold after `<<3`, `8·ec_tell − 7 ≤ ec_tell_frac ≤ 8·ec_tell`,
    i.e. `ec_tell = ⌈ec_tell_frac / 8⌉`. -/
theorem tell_frac_bounds (c : Ctx) (hr : RngOk c) (hn : 33 ≤ c.nbitsTotal) (hn2 : c.nbitsTotal < 536870912) :
    8 * tell c - 7 ≤ (tellFrac c : Int) ∧ (tellFrac c : Int) ≤ 8 * tell c :=
  tellFrac_bounds c hr hn hn2

example : RngOk (encInit [] 0) ∧ tell (encInit [] 0) = 1 ∧ tellFrac (encInit [] 0) = 8 := by decide +kernel

/-- "exhaustively for the fractional-bit formula over every range value class": the table-driven
    `ec_tell_frac` that is compiled (`#if 1`) equals the reference definition by iterated squaring
    (`#else` branch) for every value of the 16 leading bits of `rng` — 2^15 classes, each evaluated in
    the kernel — hence for every `rng ≥ 2^15`. -/
theorem tell_frac_formula (c : Ctx) (hr : 32768 ≤ c.rng) :
    (∀ r, 32768 ≤ r → r < 65536 → fracTable r = fracSquare r) ∧
    tellFrac c = sub32 (u32 (c.nbitsTotal * 8)) (ilog c.rng * 8 + fracSquare (c.rng / 2 ^ (ilog c.rng - 16))) :=
  ⟨fun _ h1 h2 => (frac_facts h1 h2).1, tellFrac_formula c hr⟩

/-- "the fractional count never decreases" (and neither does the whole count): one legal encoder call
    never lowers `ec_tell` or `ec_tell_frac`. -/
theorem tell_monotone (c : Enc) (op : Op) (hr : RngOk c) (hl : op.Legal) (hn : 33 ≤ c.nbitsTotal)
    (hn2 : (encOp c op).nbitsTotal < 536870912) :
    tell c ≤ tell (encOp c op) ∧ tellFrac c ≤ tellFrac (encOp c op) :=
  encOp_tell_mono c op hr hl hn hn2

example : tellFrac (encInit [0, 0] 2) < tellFrac (encOp (encInit [0, 0] 2) (.bitLogp 1 3)) := by decide +kernel

/-- "After every operation encoder and decoder report the same whole and fractional bit usage and the
    same range", in the form "given equal symbols" (no assumption on the buffer or on the encoder's
    error flag): if the decoder state has the encoder's `rng` and `nbits_total` and the decoder call
    returns the value the operation encoded, both sides agree again after the call on `rng`,
    `nbits_total`, `ec_tell` and `ec_tell_frac`.  For `ec_dec_uint` (which reports an out-of-range value
    only through its error flag) the decoder's `val` must be an `opus_uint32` and its error flag clear
    before and after the call. -/
theorem lockstep_symbols (e : Enc) (d : Dec) (op : Op) (hr : RngOk e) (h1 : d.rng = e.rng)
    (h2 : d.nbitsTotal = e.nbitsTotal) (hl : op.Legal)
    (hu : (∀ v ft, op ≠ .uint v ft) ∨ (d.val < 4294967296 ∧ d.error = 0 ∧ (decOp d op).2.error = 0))
    (hm : op.Matches (decOp d op).1) :
    (decOp d op).2.rng = (encOp e op).rng ∧ (decOp d op).2.nbitsTotal = (encOp e op).nbitsTotal ∧
    tell (decOp d op).2 = tell (encOp e op) ∧ tellFrac (decOp d op).2 = tellFrac (encOp e op) :=
  lockstep_symbols_all e d op hr h1 h2 hl hu hm

example : (Op.icdf 1 [3, 1, 0] 2).Legal ∧
    (Op.icdf 1 [3, 1, 0] 2).Matches (decOp (decInit [160, 0, 0, 0] 4) (.icdf 1 [3, 1, 0] 2)).1 ∧
    (decInit [160, 0, 0, 0] 4).rng = (encInit [0, 0, 0, 0] 4).rng := by decide +kernel

/-! ## Stages B and C — the decoder inverts the encoder -/

/-
  The round-trip clause of the property is stated as two theorems:
    `decode_encode`          every operation list without `ec_enc_patch_initial_bits`
    `decode_encode_patched`  patch-style lists (first operation `ec_encode_bin(fl, fl+1, n)`, then any
                             operations and any number of `ec_enc_patch_initial_bits(v, n)`)
  A patch in a stream whose first `n` bits were not coded with probability `2^-n` has no defined
  decoded meaning (entenc.h) and is not part of the round trip; such streams are still covered by
  `outside_untouched` and by the state-by-state correspondence run.
-/

/-- "if the encoder reports no error then decoding the buffer with the same sequence of calls returns
    exactly the encoded values": for every list of operations — frequency-table symbols, power-of-two
    tables, inverse-CDF symbols (8- and 16-bit tables), log-probability bits, uniform integers up to
    2^32−1, raw bits, buffer shrinking, in any interleaving — each legal where it is applied, written
    into a buffer of any size with any initial content: if `ec_enc_done` leaves `error = 0` (and
    `nbits_total`, a C `int`, stayed below 2^32), then decoding the first `storage` bytes with the
    same calls returns exactly the encoded values and the decoder's error flag stays clear. -/
theorem decode_encode (buf : List Nat) (size : Nat) (ops : List Op) (hs : size ≤ buf.length)
    (hb : BytesOk buf) (hl : LegalRun (encInit buf size) ops)
    (hn : (encodeAll buf size ops).nbitsTotal < 4294967296)
    (herr : (encodeAll buf size ops).error = 0) :
    MatchAll ops (decRun (decInit ((encodeAll buf size ops).buf.take (encodeAll buf size ops).storage)
      (encodeAll buf size ops).storage) ops).1 ∧
    (decRun (decInit ((encodeAll buf size ops).buf.take (encodeAll buf size ops).storage)
      (encodeAll buf size ops).storage) ops).2.error = 0 :=
  ⟨(decode_encode_all buf size ops hs hb hl hn herr).1, (decode_encode_all buf size ops hs hb hl hn herr).2.err⟩

/-- A 40-operation stream in an 11-byte buffer: symbols of every kind interleaved with raw bits,
    a 26-bit uniform integer and a shrink from 12 to 11 bytes. -/
def exampleOps : List Op :=
  [.bitLogp 1 1, .encode 3 5 10, .bits 5 3, .icdf 1 [3, 1, 0] 2, .encodeBin 7 8 4, .bitLogp 0 15,
   .uint 41234567 50000000, .icdf16 2 [40000, 20000, 5, 0] 16, .bits 1 1, .encode 0 65535 65536,
   .bitLogp 1 2, .bitLogp 0 2, .encode 9 10 10, .shrink 11, .bits 2 2, .uint 1 2, .uint 1 3,
   .encodeBin 0 1 1, .icdf 0 [1, 0] 1, .bitLogp 0 1, .encode 1 2 3, .encode 2 3 3, .bits 0 1,
   .encodeBin 3 4 2, .bitLogp 1 4, .uint 0 3, .icdf 2 [3, 1, 0] 2, .encode 5 6 7, .bits 1 1,
   .bitLogp 0 3, .encode 0 2 4, .uint 7 9, .encodeBin 1 2 1, .bits 3 2, .bitLogp 0 1, .icdf 1 [1, 0] 1,
   .encode 1 3 4, .bitLogp 1 1, .uint 2 4, .bits 1 1]

example : exampleOps.length = 40 ∧ LegalRun (encInit (List.replicate 12 170) 12) exampleOps ∧
    (encodeAll (List.replicate 12 170) 12 exampleOps).error = 0 ∧
    (encodeAll (List.replicate 12 170) 12 exampleOps).storage = 11 ∧
    (encodeAll (List.replicate 12 170) 12 exampleOps).nbitsTotal < 4294967296 := by decide +kernel

/-- "After every operation encoder and decoder report the same whole and fractional bit usage and the
    same range": under the hypotheses of `decode_encode`, after every prefix `pre` of the
    operations the decoder (run on the finished buffer) and the encoder (at the time it had coded
    `pre`) have the same `rng` and the same `nbits_total`, hence the same `ec_tell` and `ec_tell_frac`;
    the decoder has returned the values of `pre` and its `val` is `top − code` (invariant D). -/
theorem lockstep_rng (buf : List Nat) (size : Nat) (pre suf : List Op) (hs : size ≤ buf.length)
    (hb : BytesOk buf) (hl : LegalRun (encInit buf size) (pre ++ suf))
    (hn : (encodeAll buf size (pre ++ suf)).nbitsTotal < 4294967296)
    (herr : (encodeAll buf size (pre ++ suf)).error = 0) :
    let e := encRun (encInit buf size) pre
    let d := (decRun (decInit ((encodeAll buf size (pre ++ suf)).buf.take
      (encodeAll buf size (pre ++ suf)).storage) (encodeAll buf size (pre ++ suf)).storage) pre).2
    d.rng = e.rng ∧ d.nbitsTotal = e.nbitsTotal ∧ tell d = tell e ∧ tellFrac d = tellFrac e ∧ RngOk d ∧
    DecAll ((encodeAll buf size (pre ++ suf)).buf.take (encodeAll buf size (pre ++ suf)).storage)
      (encodeAll buf size (pre ++ suf)).storage e d
      ((encodeAll buf size (pre ++ suf)).buf.take (encodeAll buf size (pre ++ suf)).storage) := by
  intro e d
  have h := (decode_encode_prefix buf size pre suf hs hb hl hn herr).2
  have hr : RngOk e := by
    have hl1 := (legalRun_append pre suf _ hl).1
    have herrP : e.error = 0 := by
      apply Classical.byContradiction; intro hne
      have h2 := encRun_error_mono suf _ hne
      rw [← encRun_append] at h2
      exact encDone_error_mono _ h2 herr
    have hnP : e.nbitsTotal < 4294967296 := by
      have h1 := encRun_nbits_mono suf e
      rw [← encRun_append] at h1
      have h2 := encDone_nbitsTotal (encRun (encInit buf size) (pre ++ suf))
      unfold encodeAll at hn
      omega
    have ri := (run_back pre _ (runInv_encInit buf size hs hb) hl1 hnP herrP).2.1
    exact ⟨ri.inv.rng_lo, ri.inv.rng_hi⟩
  obtain ⟨t1, t2⟩ := tell_eq_of_rn h.rc.rng_eq h.rc.nbits_eq
  exact ⟨h.rc.rng_eq, h.rc.nbits_eq, t1, t2, by unfold RngOk; rw [h.rc.rng_eq]; exact hr, h⟩

example : LegalRun (encInit (List.replicate 12 170) 12) (exampleOps.take 17 ++ exampleOps.drop 17) ∧
    (encodeAll (List.replicate 12 170) 12 (exampleOps.take 17 ++ exampleOps.drop 17)).error = 0 := by
  decide +kernel

/-- "initial-bit patching": a patch-style stream — first operation `ec_encode_bin(fl, fl+1, n)` with
    `1 ≤ n ≤ 8`, then any legal operations interleaved with any number of
    `ec_enc_patch_initial_bits(v, n)` — written into a buffer of any size: if `ec_enc_done` leaves
    `error = 0`, the decoder's first `ec_decode_bin(n)` returns the LAST patched value `w`
    (`lastPatch`; `fl` if nothing was patched), and after `ec_dec_update(w, w+1, 2^n)` every other
    operation decodes to exactly the encoded value; the error flag stays clear and the decoder ends
    in lock-step with the encoder (same `rng`, same `nbits_total`). -/
theorem decode_encode_patched (buf : List Nat) (size n fl : Nat) (rest : List Op) (hs : size ≤ buf.length)
    (hb : BytesOk buf) (hn1 : 1 ≤ n) (hn8 : n ≤ 8) (hfl : fl < 2 ^ n)
    (hl : LegalRunP n (encOp (encInit buf size) (.encodeBin fl (fl + 1) n)) rest)
    (hnb : (encodeAll buf size (.encodeBin fl (fl + 1) n :: rest)).nbitsTotal < 4294967296)
    (herr : (encodeAll buf size (.encodeBin fl (fl + 1) n :: rest)).error = 0) :
    let e := encodeAll buf size (.encodeBin fl (fl + 1) n :: rest)
    let w := lastPatch fl rest
    let r := decRun (decInit (e.buf.take e.storage) e.storage) (.encodeBin w (w + 1) n :: rest)
    MatchAll (.encodeBin w (w + 1) n :: rest) r.1 ∧ r.1.head? = some w ∧ r.2.error = 0 ∧
    r.2.rng = (encRun (encInit buf size) (.encodeBin fl (fl + 1) n :: rest)).rng ∧
    r.2.nbitsTotal = (encRun (encInit buf size) (.encodeBin fl (fl + 1) n :: rest)).nbitsTotal := by
  intro e w r
  have h := decode_encode_patched_all buf size n fl rest hs hb hn1 hn8 hfl hl hnb herr
  refine ⟨h.1, ?_, h.2.err, h.2.rc.rng_eq, h.2.rc.nbits_eq⟩
  have hm := h.1
  show (decRun _ (.encodeBin w (w + 1) n :: rest)).1.head? = some w
  simp only [decRun] at hm ⊢
  simp only [List.head?_cons]
  have := hm.1
  simp only [Op.Matches] at this
  congr 1
  exact Nat.le_antisymm (Nat.lt_succ_iff.mp this.2) this.1

/-- A patch-style stream: one flag bit coded as `0`, other symbols, then the flag is patched to `1`
    (and once more to `0` and back). -/
def examplePatched : List Op :=
  [.bitLogp 1 3, .uint 77 1000, .bits 9 4, .patchInitial 1 2, .icdf 1 [3, 1, 0] 2, .patchInitial 0 2,
   .encode 2 3 5, .patchInitial 3 2, .bits 1 1]

example : LegalRunP 2 (encOp (encInit (List.replicate 6 255) 6) (.encodeBin 2 3 2)) examplePatched ∧
    (encodeAll (List.replicate 6 255) 6 (.encodeBin 2 3 2 :: examplePatched)).error = 0 ∧
    0 < (encodeAll (List.replicate 6 255) 6 (.encodeBin 2 3 2 :: examplePatched)).storage ∧
    lastPatch 2 examplePatched = 3 := by decide +kernel

/-- The SILK header flags (silk/enc_API.c:346-351 and 527-539, silk/dec_API.c:226-234).  The encoder's
    first call is the placeholder `ec_enc_icdf(0, {256 - (256 >> k), 0}, 8)` with
    `k = (nFramesPerPacket + 1) * nChannelsInternal ∈ 1..8`; the VAD/LBRR flags are written later with
    `ec_enc_patch_initial_bits(flags, k)`.  The decoder does NOT mirror these calls: it reads `k`
    single bits with `ec_dec_bit_logp(·, 1)`.  Theorem: for any legal continuation `rest` (with any
    number of patches), if `ec_enc_done` leaves `error = 0`, the decoder's `k` bit reads return the bits
    of the last patched `flags` value most significant first (`bitsOps`; zeros if never patched), every
    operation of `rest` then decodes to the encoded value, the decoder's error flag stays clear and it
    ends with the encoder's `rng` and `nbits_total`.  (Subsumes C09's `lbrr_flag_position`, which is the
    statement about the decoder alone.) -/
theorem silk_flags_roundtrip (buf : List Nat) (size k : Nat) (rest : List Op) (hs : size ≤ buf.length)
    (hb : BytesOk buf) (hk1 : 1 ≤ k) (hk8 : k ≤ 8)
    (hl : LegalRunP k (encOp (encInit buf size) (.icdf 0 (flagTable k) 8)) rest)
    (hnb : (encodeAll buf size (.icdf 0 (flagTable k) 8 :: rest)).nbitsTotal < 4294967296)
    (herr : (encodeAll buf size (.icdf 0 (flagTable k) 8 :: rest)).error = 0) :
    let e := encodeAll buf size (.icdf 0 (flagTable k) 8 :: rest)
    let r := decRun (decInit (e.buf.take e.storage) e.storage) (bitsOps (lastPatch 0 rest) k ++ rest)
    MatchAll (bitsOps (lastPatch 0 rest) k ++ rest) r.1 ∧ r.2.error = 0 ∧
    r.2.rng = (encRun (encInit buf size) (.icdf 0 (flagTable k) 8 :: rest)).rng ∧
    r.2.nbitsTotal = (encRun (encInit buf size) (.icdf 0 (flagTable k) 8 :: rest)).nbitsTotal := by
  intro e r
  have h := decode_encode_flags_all buf size k rest hs hb hk1 hk8 hl hnb herr
  exact ⟨h.1, h.2.err, h.2.rc.rng_eq, h.2.rc.nbits_eq⟩

/-- Mono, two frames per packet: `k = 3`; the flags `VAD0 VAD1 LBRR = 1 0 1` are patched in at the end. -/
def exampleSilk : List Op :=
  [.icdf 2 [200, 100, 50, 0] 8, .uint 12 100, .bitLogp 1 2, .encode 3 4 9, .patchInitial 5 3]

example : LegalRunP 3 (encOp (encInit (List.replicate 8 0) 8) (.icdf 0 (flagTable 3) 8)) exampleSilk ∧
    (encodeAll (List.replicate 8 0) 8 (.icdf 0 (flagTable 3) 8 :: exampleSilk)).error = 0 ∧
    bitsOps (lastPatch 0 exampleSilk) 3 = [.bitLogp 1 1, .bitLogp 0 1, .bitLogp 1 1] ∧
    (decRun (decInit ((encodeAll (List.replicate 8 0) 8 (.icdf 0 (flagTable 3) 8 :: exampleSilk)).buf.take 8) 8)
      (bitsOps 5 3 ++ exampleSilk)).1 = [1, 0, 1, 2, 12, 1, 3, 0] := by decide +kernel

/-! ## Composition with C17 — the Laplace code and the PVQ code through the real range coder

  `Code` (OpusModel/RangeCoderCodes.lean) is one coding step of the CELT layer: a plain range-coder call,
  `ec_laplace_encode(&value, fs, decay)` (= `ec_encode_bin(fl, fl+fs, 15)` with C17's interval), or
  `encode_pulses(y, N, K)` (= `ec_enc_uint(icwrs(y), V(N,K))`).  `decCode` is the decoder side
  (`ec_laplace_decode`, `decode_pulses`), whose calls depend on what the range decoder returns.
  `Code.Ok`: the Laplace pair satisfies C17's `LaplaceOk` (every pair of `e_prob_model` does), the
  pulse vector has `N ≥ 2`, `K = Σ|y_j|` pulses and `(N, K)` is reachable from the pulse cache (C17
  `Reach`).  `LegalCodes`: every step is `Ok` and every plain call is `LegalAt` its state. -/

/-- "decoder inverts encoder" for the two codes the CELT layer is built from: for every list of coding
    steps (Laplace symbols with any usable parameter pair, PVQ codewords of any reachable `(N, K)`, any
    other range-coder calls, in any interleaving), written into a buffer of any size: no `celt_assert`
    of laplace.c / cwrs.c fires on the encoder side, the steps are a legal run of range-coder calls,
    and if `ec_enc_done` reports no error then the decoder side does not assert either and returns the
    encoder's written-back (clamped) Laplace values, exactly the encoded pulse vectors and the encoded
    symbols; its error flag stays clear and it ends with the encoder's `rng` and `nbits_total`. -/
theorem laplace_pvq_roundtrip (buf : List Nat) (size : Nat) (cs : List Code) (hs : size ≤ buf.length)
    (hb : BytesOk buf) (hl : LegalCodes (encInit buf size) cs) :
    ∃ ops, codesOps cs = .ok ops ∧ encodeCodes buf size cs = .ok (encodeAll buf size ops) ∧
      LegalRun (encInit buf size) ops ∧
      ((encodeAll buf size ops).nbitsTotal < 4294967296 → (encodeAll buf size ops).error = 0 →
        ∃ vals d, decCodes (decInit ((encodeAll buf size ops).buf.take (encodeAll buf size ops).storage)
            (encodeAll buf size ops).storage) cs = .ok (vals, d) ∧
          MatchAllC cs vals ∧ d.error = 0 ∧ d.rng = (encRun (encInit buf size) ops).rng ∧
          d.nbitsTotal = (encRun (encInit buf size) ops).nbitsTotal) := by
  obtain ⟨ops, h1, h2, h3, h4⟩ := codes_roundtrip_all buf size cs hs hb hl
  refine ⟨ops, h1, h2, h3, fun hn herr => ?_⟩
  obtain ⟨vals, d, g1, g2, g3⟩ := h4 hn herr
  exact ⟨vals, d, g1, g2, g3.err, g3.rc.rng_eq, g3.rc.nbits_eq⟩

/-- A coarse-energy value, three raw bits, a 4-dimensional 2-pulse vector, and a Laplace value far
    outside the range (the encoder clamps 20000 to 30). -/
def exampleCodes : List Code :=
  [.laplace (-3) 9216 8128, .op (.bits 5 3), .pulses [0, 1, -1, 0] 2, .laplace 20000 9216 8128]

example : LegalCodes (encInit (List.replicate 10 0) 10) exampleCodes := by
  have e1 : (Code.laplace (-3) 9216 8128).encOps = .ok [.encodeBin 26948 28407 15] := by decide +kernel
  have e3 : (Code.pulses [0, 1, -1, 0] 2).encOps = .ok [.uint 11 32] := by decide +kernel
  have hr : OpusProofs.CwrsCache.Reach 4 2 (Opus.Gen.CeltTables.cacheBits.getD 125 0) :=
    ⟨3, 0, 123, 2, by decide, by decide, by decide, by decide, by decide, by decide, by decide, rfl⟩
  refine ⟨by show OpusProofs.Laplace.LaplaceOk 9216 8128 = true; decide +kernel, trivial, fun ops h => ?_⟩
  rw [e1] at h; injection h with h; subst h
  refine ⟨trivial, by decide +kernel, fun ops h => ?_⟩
  simp only [Code.encOps] at h; injection h with h; subst h
  refine ⟨⟨by decide, by decide, _, hr⟩, trivial, fun ops h => ?_⟩
  rw [e3] at h; injection h with h; subst h
  exact ⟨by show OpusProofs.Laplace.LaplaceOk 9216 8128 = true; decide +kernel, trivial, fun _ _ => trivial⟩

example : (do
      let e ← encodeCodes (List.replicate 10 0) 10 exampleCodes
      let r ← decCodes (decInit (e.buf.take e.storage) e.storage) exampleCodes
      pure (e.error, r.1) : Res (Int × List CodeVal)) =
    .ok (0, [.lap (-3), .sym 5, .vec [0, 1, -1, 0], .lap 30]) := by decide +kernel

/-! ## Stage D — budget and memory -/

/-- "If the bit usage reported at the end does not exceed 8 x buffer size, finishing the stream cannot
    fail": for every legal operation list (as in `decode_encode`) and every buffer (up to
    5·10^8 bytes, so that `nbits_total` cannot overflow), if `ec_tell` before `ec_enc_done` is at most
    `8 * storage` (the storage left by the last `ec_enc_shrink`), then no write of the whole run failed
    and `ec_enc_done` leaves `error = 0`. -/
theorem done_within_budget (buf : List Nat) (size : Nat) (ops : List Op) (hs : size ≤ buf.length)
    (hb : BytesOk buf) (hl : LegalRun (encInit buf size) ops) (hsz : size ≤ 500000000)
    (hfit : tell (encRun (encInit buf size) ops) ≤ 8 * ((encRun (encInit buf size) ops).storage : Int)) :
    (encodeAll buf size ops).error = 0 :=
  done_within_budget_size buf size ops hs hb hl hsz hfit

example : tell (encRun (encInit (List.replicate 12 170) 12) exampleOps) = 86 ∧
    (encRun (encInit (List.replicate 12 170) 12) exampleOps).storage = 11 := by decide +kernel

/-- "bytes outside the buffer are untouched": for EVERY operation list (any parameters, legal or not,
    `ec_enc_patch_initial_bits` included; only each `ec_enc_shrink` must satisfy its own assert
    `offs + end_offs ≤ size` and not grow the buffer), whatever errors occur, the physical buffer
    keeps its length and every byte at an index `≥ size` is unchanged after the calls and after
    `ec_enc_done`; `storage` never exceeds the initial size and the write cursors stay inside it. -/
theorem outside_untouched (buf : List Nat) (size : Nat) (ops : List Op) (hs : size ≤ buf.length)
    (hk : ShrinksOk (encInit buf size) ops) :
    (encRun (encInit buf size) ops).buf.length = buf.length ∧
    (encRun (encInit buf size) ops).buf.drop size = buf.drop size ∧
    (encodeAll buf size ops).buf.length = buf.length ∧
    (encodeAll buf size ops).buf.drop size = buf.drop size ∧
    (encodeAll buf size ops).storage ≤ size ∧
    (encodeAll buf size ops).offs + (encodeAll buf size ops).endOffs ≤ (encodeAll buf size ops).storage := by
  have f1 := encRun_frame ops (encInit buf size) (frame_encInit buf size hs) hk
  have f2 := encDone_frame _ f1
  exact ⟨f1.len, f1.out, f2.len, f2.out, f2.sto, f2.cur⟩

example : ShrinksOk (encInit (List.replicate 12 170) 12) (exampleOps ++ [.patchInitial 1 1, .encode 7 3 0]) := by
  decide +kernel

/-- The range-coder contracts the encoder skeletons of C02/C05 assume for their `ec_tell` readings
    (OpusModel/EncSkel/Frame.lean, "Contracts on the oracle values"): `ec_tell ≥ 1`, and `= 1` on a fresh
    encoder; `ec_enc_bit_logp(·, logp)` raises `ec_tell` by at most `logp` (12 and 1 in opus_encoder.c),
    `ec_enc_uint(·, 256)` by at most 8; `ec_enc_done` leaves `rng` and `nbits_total`, hence `ec_tell` and
    `ec_tell_frac`, unchanged. -/
theorem tell_contracts (buf : List Nat) (size : Nat) (c : Enc) (hr : RngOk c) (hn : 33 ≤ c.nbitsTotal)
    (v logp u : Nat) (h1 : 1 ≤ logp) (h2 : logp ≤ 15) (hu : u < 256) :
    tell (encInit buf size) = 1 ∧ 1 ≤ tell c ∧
    tell (encOp c (.bitLogp v logp)) ≤ tell c + logp ∧ tell (encOp c (.uint u 256)) ≤ tell c + 8 ∧
    (encDone c).rng = c.rng ∧ (encDone c).nbitsTotal = c.nbitsTotal ∧
    tell (encDone c) = tell c ∧ tellFrac (encDone c) = tellFrac c := by
  obtain ⟨b1, b2⟩ := tell_step_bounds c hr v logp h1 h2 u hu
  obtain ⟨t1, t2⟩ := tell_eq_of_rn (encDone_rng c) (encDone_nbitsTotal c)
  have hil := ilog_le_32 hr
  refine ⟨by show (33 : Int) - ((ilog 2147483648 : Nat) : Int) = 1; decide +kernel, ?_, b1, b2, encDone_rng c, encDone_nbitsTotal c, t1, t2⟩
  unfold tell; omega

/-- "`8·(offs+end_offs)+1 ≤ ec_tell` and `offs+end_offs ≤ storage` at any time" (the contract behind the
    `celt_assert(offs+end_offs<=size)` of `ec_enc_shrink(&enc, (ec_tell+7)>>3)`): after every legal run
    that has not raised the error flag, the bytes written from both ends — and even all range-coder
    digits, pending ones included — number strictly less than `ec_tell/8`, so shrinking the buffer to
    `(ec_tell+7)>>3` bytes (or anything larger) always satisfies the assert. -/
theorem bytes_below_tell (buf : List Nat) (size : Nat) (ops : List Op) (hs : size ≤ buf.length)
    (hb : BytesOk buf) (hl : LegalRun (encInit buf size) ops)
    (hn : (encRun (encInit buf size) ops).nbitsTotal < 4294967296)
    (herr : (encRun (encInit buf size) ops).error = 0) :
    let e := encRun (encInit buf size) ops
    8 * ((e.offs : Int) + e.endOffs) + 1 ≤ tell e ∧ (e.offs : Int) + e.endOffs ≤ (tell e + 7) / 8 ∧
    e.offs + e.endOffs ≤ e.storage ∧ e.storage ≤ size := by
  intro e
  obtain ⟨ac, ri⟩ := acct_run ops _ (runInv_encInit buf size hs hb) (acct_encInit buf size) hl hn herr
  obtain ⟨_, h2⟩ := bytes_lt_tell e ri ac
  have fr := encRun_frame ops (encInit buf size) (frame_encInit buf size hs) (shrinksOk_of_legalRun ops _ hl)
  exact ⟨h2, by omega, fr.cur, fr.sto⟩

example : (encRun (encInit (List.replicate 12 170) 12) exampleOps).offs = 5 ∧
    (encRun (encInit (List.replicate 12 170) 12) exampleOps).endOffs = 0 ∧
    tell (encRun (encInit (List.replicate 12 170) 12) exampleOps) = 86 := by decide +kernel

/-! ## Composition with C03: the SILK symbol layer, encoder against decoder -/

open Opus.SilkSyms Opus.SilkSymsEnc Opus.SilkSymsEncProofs in
/-- "What `silk_encode_indices` + `silk_encode_pulses` write, `silk_decode_indices` + `silk_decode_pulses`
    read back" — one mono packet of one SILK frame without LBRR data, through the real range coder.
    Encoder model: `OpusModel/SilkSymsEnc.lean` (`encodeMonoFrame` = header placeholder,
    `silk_encode_indices`, `silk_encode_pulses` with rate-level search, down-scaling, shell coder, LSBs and
    signs, then `ec_enc_patch_initial_bits(VAD<<1, 2)`), as a list of range-coder operations.
    Decoder model: C03's `silkDecodeCall` (`OpusModel/SilkSyms.lean`), untouched.
    For EVERY internal rate, 10 or 20 ms, every index assignment in the encoder's domain (`IxOk`: the
    `silk_assert`s of encode_indices.c, the VAD flag equal to `signalType ≠ 0`, unused members at the value
    the decoder reports) and every `opus_int8` pulse vector with |p| ≤ 127 (`PulsesOk`), any buffer: if
    `ec_enc_done` leaves `error = 0`, the decoder run on the produced bytes reports exactly the VAD/LBRR flags,
    the indices and the pulses that were encoded (`monoEvents`: `pulsesView` is the rate level, block sums,
    shift counts, amplitudes and signed pulses the encoder computed), its error flag is clear and it ends
    with the encoder's `rng` and `ec_tell`.  Whatever the decoder state `st` before the packet. -/
theorem silk_syms_roundtrip_frame (buf : List Nat) (size : Nat) (rate : Rate) (nbSubfr vad : Nat) (ix : Indices)
    (pulses : List Int) (ops : List Op) (st : SilkSt) (hs : size ≤ buf.length) (hb : BytesOk buf)
    (hnb : nbSubfr = 2 ∨ nbSubfr = 4) (hv : vad ≤ 1) (hix : IxOk rate nbSubfr (decide (vad ≠ 0)) 0 ix)
    (hp : PulsesOk (frameLength rate nbSubfr) pulses) (hops : encodeMonoFrame rate nbSubfr vad ix pulses = .ok ops)
    (hn : (encodeAll buf size ops).nbitsTotal < 4294967296) (herr : (encodeAll buf size ops).error = 0) :
    let e := encodeAll buf size ops
    let r := silkDecodeCall (monoCfg rate nbSubfr) true st (decInit (e.buf.take e.storage) e.storage)
    r.1 = monoEvents rate nbSubfr vad ix pulses (encRun (encInit buf size) ops).rng (tell (encRun (encInit buf size) ops)) ∧
    r.2.2.error = 0 ∧ r.2.2.rng = (encRun (encInit buf size) ops).rng ∧
    r.2.2.nbitsTotal = (encRun (encInit buf size) ops).nbitsTotal :=
  silk_syms_roundtrip_frame_all buf size rate nbSubfr vad ix pulses ops st hs hb hnb hv hix hp hops hn herr

/-- NB, 10 ms, voiced: all index kinds, an extension residual at either end, a block that needs two
    right-shifts (escape chain + LSBs), blocks without pulses, both signs. -/
def exampleIx : Opus.SilkSyms.Indices :=
  { signalType := 2, quantOffsetType := 1, gains := [37, 5], nlsf0 := 17, nlsfRes := [0, 3, -10, 10, 4, -4, 1, 0, -1, 2], interp := 4, lagIndex := 100, contourIndex := 2, perIndex := 1, ltp := [15, 0], ltpScale := 2, seed := 3 }

def examplePulses : List Int :=
  [0, 1, 0, -1, 2, 0, 0, 0, 0, 0, 0, 0, 0, 0, 0, 1] ++ List.replicate 16 0 ++
  [40, -3, 0, 0, 1, 0, 0, 0, 0, 0, -7, 0, 0, 0, 0, 0] ++ List.replicate 16 0 ++
  [0, 0, 0, 0, 0, 0, 0, -1, 0, 0, 0, 0, 0, 0, 0, 0]

open Opus.SilkSyms Opus.SilkSymsEnc in
example : IxOk .nb 2 (decide (1 ≠ 0)) 0 exampleIx ∧ PulsesOk (frameLength .nb 2) examplePulses :=
  ⟨⟨by decide, by decide, by decide, by decide, by decide, by decide, by decide, by decide, by decide, by decide,
    by decide, by decide, by decide, by decide, by decide, by decide, by decide⟩, ⟨by decide, by decide⟩⟩

open Opus.SilkSyms Opus.SilkSymsEnc Opus.SilkSymsEncProofs in
example : ∃ ops, encodeMonoFrame .nb 2 1 exampleIx examplePulses = .ok ops ∧ ops.length = 113 ∧
    (encodeAll (List.replicate 40 0) 40 ops).error = 0 ∧
    (silkDecodeCall (monoCfg .nb 2) true {} (decInit ((encodeAll (List.replicate 40 0) 40 ops).buf.take
      (encodeAll (List.replicate 40 0) 40 ops).storage) (encodeAll (List.replicate 40 0) 40 ops).storage)).1.length = 4 := by
  refine ⟨(match encodeMonoFrame .nb 2 1 exampleIx examplePulses with | .ok o => o | _ => []), ?_⟩
  decide +kernel

open Opus.SilkSyms Opus.SilkSymsEnc Opus.SilkSymsEncProofs in
/-- "What the SILK payload writer writes, `silk_Decode` reads back" — a WHOLE payload: mono or stereo, 1-3 frames
    of 10 or 20 ms, with or without LBRR data, through the real range coder.
    Encoder model: `packetOps` (OpusModel/SilkSymsEnc.lean, transcribing enc_API.c:344-397, 437-539): header
    placeholder, LBRR-flags symbols, the LBRR frames of the previous packet (stereo: predictor and, if the side
    channel has no LBRR frame, mid-only flag; conditional coding after a present LBRR frame), then per frame the
    stereo predictor, the mid-only flag where the side VAD flag is clear, the mid frame and — unless mid-only — the
    side frame, with `condCoding` INDEPENDENT for the first frame, INDEPENDENT_NO_LTP_SCALING for a side frame
    after a mid-only frame, CONDITIONAL otherwise and the `ec_prevSignalType`/`ec_prevLagIndex` memory threaded
    through LBRR and regular frames; finally `ec_enc_patch_initial_bits` with the VAD/LBRR flag bits.
    Decoder model: C03's `silkCalls` (normal decoding: the LBRR data is read and dropped), untouched.
    For EVERY input in the encoder's domain (`PacketOk`: flags are flags, every coded frame satisfies `IxOk` with
    the VAD flag the header carries and `PulsesOk`, stereo indices in the domain of `silk_stereo_encode_pred`, a
    mid-only flag only where the side VAD flag is clear), any buffer and ANY decoder history `st`: if `ec_enc_done`
    leaves `error = 0`, the decoder run on the produced bytes reports exactly `packetEvs` — the header flags of both
    channels, every LBRR frame's and every regular frame's indices (with the `condCoding` and the memory the
    decoder handed over) and pulses, every predictor and mid-only flag, in order, and for every call the `rng` and
    `ec_tell` the ENCODER had when it had written that call (`prefixOps`) — its error flag is clear, and it ends
    with the encoder's final `rng` and `nbits_total`.  (`silk_syms_roundtrip_frame` is the special case mono,
    one frame, no LBRR.  FEC decoding — `lostFlag = 2`, which reads only the LBRR frames — is not covered.) -/
theorem silk_syms_roundtrip (buf : List Nat) (size : Nat) (cfg : Cfg) (pk : PacketIn) (st : SilkSt)
    (hs : size ≤ buf.length) (hb : BytesOk buf) (hok : PacketOk cfg pk)
    (hn : (encodeAll buf size (packetOps cfg pk)).nbitsTotal < 4294967296)
    (herr : (encodeAll buf size (packetOps cfg pk)).error = 0) :
    let e := encodeAll buf size (packetOps cfg pk)
    let r := silkCalls cfg cfg.nfpp true st (decInit (e.buf.take e.storage) e.storage)
    r.1 = packetEvs cfg pk (fun j => ((encRun (encInit buf size) (prefixOps cfg pk j)).rng,
      tell (encRun (encInit buf size) (prefixOps cfg pk j)))) ∧
    r.2.2.error = 0 ∧ r.2.2.rng = (encRun (encInit buf size) (packetOps cfg pk)).rng ∧
    r.2.2.nbitsTotal = (encRun (encInit buf size) (packetOps cfg pk)).nbitsTotal :=
  silk_syms_roundtrip_all buf size cfg pk st hs hb hok hn herr

/-- NB, 10 ms, stereo, two frames per packet.  LBRR data: mid frame 0 and 1 (the second coded conditionally),
    side frame 1 only (so frame 0 carries an LBRR mid-only flag).  Regular frames: frame 0 mid-only (side VAD 0),
    frame 1 with a side frame coded INDEPENDENT_NO_LTP_SCALING; the mid frame 1 conditionally with a delta lag. -/
def exampleCfg : Opus.SilkSyms.Cfg := { rate := .nb, nCh := 2, nfpp := 2, nbSubfr := 2, lostFlag := 0 }

def exampleIxOf (sig cc lag seed : Nat) : Opus.SilkSyms.Indices :=
  { signalType := sig, quantOffsetType := seed % 2, gains := [if cc = 2 then 30 else 50, 5], nlsf0 := 17 + seed, nlsfRes := [0, 3, -10, 10, 4, -4, 1, 0, -1, 2], interp := 4, lagIndex := if sig = 2 then lag else 0, contourIndex := if sig = 2 then 2 else 0, perIndex := if sig = 2 then 1 else 0, ltp := if sig = 2 then [15, 0] else [], ltpScale := if sig = 2 ∧ cc = 0 then 2 else 0, seed := seed % 4 }

def examplePulsesOf (k : Nat) : List Int :=
  (List.range 80).map (fun (i : Nat) => if (i + k) % 13 = 0 then ((i : Int) % 7 - 3) * (if i < 16 then 9 else 1) else 0)

def examplePacket : Opus.SilkSymsEnc.PacketIn :=
  { ch0 := { vad := [1, 1], lbrrFlags := [1, 1], lbrr := [⟨exampleIxOf 2 0 100 1, examplePulsesOf 1⟩, ⟨exampleIxOf 2 2 105 2, examplePulsesOf 2⟩], frames := [⟨exampleIxOf 2 0 90 3, examplePulsesOf 3⟩, ⟨exampleIxOf 2 2 93 0, examplePulsesOf 4⟩], prev := {} },
    ch1 := { vad := [0, 1], lbrrFlags := [0, 1], lbrr := [default, ⟨exampleIxOf 1 0 0 1, examplePulsesOf 5⟩], frames := [default, ⟨exampleIxOf 2 1 40 1, examplePulsesOf 7⟩], prev := {} },
    predIx := [[1, 2, 3, 2, 4, 1], [0, 0, 4, 2, 1, 0]], midOnly := [1, 0], lbrrPredIx := [[2, 1, 0, 0, 3, 4], [1, 1, 1, 1, 1, 1]], lbrrMidOnly := [1, 0] }

open Opus.SilkSyms Opus.SilkSymsEnc Opus.SilkSymsEncProofs in
example : PacketOk exampleCfg examplePacket :=
  ⟨by decide, by decide, by decide, by decide, by decide +kernel, by decide +kernel, by decide +kernel,
   by decide +kernel, by decide +kernel, by decide +kernel⟩

open Opus.SilkSyms Opus.SilkSymsEnc Opus.SilkSymsEncProofs in
example : (packetOps exampleCfg examplePacket).length = 496 ∧
    (encodeAll (List.replicate 200 0) 200 (packetOps exampleCfg examplePacket)).error = 0 ∧
    (silkCalls exampleCfg 2 true {} (decInit ((encodeAll (List.replicate 200 0) 200 (packetOps exampleCfg examplePacket)).buf.take
      (encodeAll (List.replicate 200 0) 200 (packetOps exampleCfg examplePacket)).storage)
      (encodeAll (List.replicate 200 0) 200 (packetOps exampleCfg examplePacket)).storage)).1.length = 22 := by
  decide +kernel

/-! ## Frame-level lock step: encoder `rangeFinal` = decoder final range -/

open Opus.SilkSyms Opus.SilkSymsEnc Opus.SilkSymsEncProofs Opus.OpusFrameEnc Opus.OpusFrameProofs in
/-- C02's clause "ends each packet with a range-coder final state identical to the one the encoder reports", at
    the symbol level, for a SILK-only Opus frame without redundancy.
    Encoder model: `silkOnlyFrame` (OpusModel/OpusFrameEnc.lean; opus_encoder.c:1871, 2271-2275, 2421, 2446-2467):
    `ec_enc_init(data+1, max_data_bytes-1)`, the SILK payload (`packetOps`), `ret = (ec_tell+7)>>3`, `ec_enc_done`,
    `rangeFinal = enc.rng`, and the trailing-zero strip `while(ret>2&&data[ret]==0)ret--`; the frame handed to the
    packet layer is the first `ret` bytes.  Decoder model: C03's `decodeOpusFrame` (SILK layer + redundancy parse),
    untouched, run on exactly those bytes with the mode / bandwidth / channel count / duration of the TOC.
    For every NB/MB/WB bandwidth, 10/20/40/60 ms, every `PacketOk` input, any caller buffer content and any decoder
    history: on the encoder's normal path (`ec_tell ≤ 8·(max_data_bytes−1)`, i.e. not the "SILK busted its target"
    fallback; `ec_enc_done` without error) the decoder infers NO redundancy from the frame length, reports exactly
    what was encoded (`packetEvs`), its error flag is clear, and its final range `dec.rng` — what
    `OPUS_GET_FINAL_RANGE` returns — equals the encoder's `rangeFinal`.
    What makes the cut and the strip harmless is proved, not assumed: without raw bits `ec_enc_done` writes only
    zeros from byte `(ec_tell+7)>>3` on (`encDone_zero_tail`: `ec_tell` is a conservative count), and the decoder
    reads zeros beyond the end of its buffer (`contains_trunc`). -/
theorem opus_frame_lockstep_silk (buf : List Nat) (maxData bandwidth nCh ms10 : Nat) (pk : PacketIn) (st : SilkSt)
    (hbw : bandwidth = 1101 ∨ bandwidth = 1102 ∨ bandwidth = 1103)
    (hms : ms10 = 100 ∨ ms10 = 200 ∨ ms10 = 400 ∨ ms10 = 600)
    (hs : maxData - 1 ≤ buf.length) (hb : BytesOk buf) (hok : PacketOk (silkCfg bandwidth nCh ms10) pk)
    (hn : (encodeAll buf (maxData - 1) (packetOps (silkCfg bandwidth nCh ms10) pk)).nbitsTotal < 4294967296)
    (herr : (encodeAll buf (maxData - 1) (packetOps (silkCfg bandwidth nCh ms10) pk)).error = 0)
    (hfit : tell (encRun (encInit buf (maxData - 1)) (packetOps (silkCfg bandwidth nCh ms10) pk)) ≤
      8 * ((maxData - 1 : Nat) : Int)) :
    ∃ o, decodeOpusFrame 1000 bandwidth nCh ms10 false st
        (silkOnlyFrame buf maxData (silkCfg bandwidth nCh ms10) pk).payload = .ok o ∧
      o.redundancy = 0 ∧ o.dec.error = 0 ∧
      o.dec.rng = (silkOnlyFrame buf maxData (silkCfg bandwidth nCh ms10) pk).rangeFinal ∧
      (silkOnlyFrame buf maxData (silkCfg bandwidth nCh ms10) pk).rangeFinal =
        (encRun (encInit buf (maxData - 1)) (packetOps (silkCfg bandwidth nCh ms10) pk)).rng ∧
      o.evs = packetEvs (silkCfg bandwidth nCh ms10) pk (fun j =>
        ((encRun (encInit buf (maxData - 1)) (prefixOps (silkCfg bandwidth nCh ms10) pk j)).rng,
         tell (encRun (encInit buf (maxData - 1)) (prefixOps (silkCfg bandwidth nCh ms10) pk j)))) :=
  opus_frame_lockstep_silk_all buf maxData bandwidth nCh ms10 pk st hbw hms hs hb hok hn herr hfit

/-- NB mono 10 ms frame from `exampleIx` / `examplePulses`, budget 101 bytes, caller buffer full of 0xAA. -/
def exampleMonoPacket : Opus.SilkSymsEnc.PacketIn :=
  { ch0 := { vad := [1], lbrrFlags := [0], lbrr := [], frames := [⟨exampleIx, examplePulses⟩], prev := {} },
    ch1 := default, predIx := [], midOnly := [], lbrrPredIx := [], lbrrMidOnly := [] }

open Opus.SilkSyms Opus.SilkSymsEnc Opus.SilkSymsEncProofs Opus.OpusFrameEnc in
example : PacketOk (silkCfg 1101 1 100) exampleMonoPacket :=
  ⟨by decide, by decide, by decide, by decide, by decide +kernel, by decide +kernel, by decide +kernel,
   by decide +kernel, by decide +kernel, by decide +kernel⟩

open Opus.SilkSyms Opus.SilkSymsEnc Opus.OpusFrameEnc in
example : (encodeAll (List.replicate 100 170) 100 (packetOps (silkCfg 1101 1 100) exampleMonoPacket)).error = 0 ∧
    tell (encRun (encInit (List.replicate 100 170) 100) (packetOps (silkCfg 1101 1 100) exampleMonoPacket)) = 247 ∧
    (silkOnlyFrame (List.replicate 100 170) 101 (silkCfg 1101 1 100) exampleMonoPacket).payload.length = 31 ∧
    (match decodeOpusFrame 1000 1101 1 100 false {} (silkOnlyFrame (List.replicate 100 170) 101 (silkCfg 1101 1 100) exampleMonoPacket).payload with
     | .ok o => decide (o.dec.rng = (silkOnlyFrame (List.replicate 100 170) 101 (silkCfg 1101 1 100) exampleMonoPacket).rangeFinal ∧ o.redundancy = 0)
     | _ => false) = true := by
  decide +kernel

open Opus.SilkSyms Opus.SilkSymsEnc Opus.SilkSymsEncProofs Opus.OpusFrameEnc Opus.OpusFrameProofs in
/-- Frame-level lock step for a SILK-only frame WITH redundancy (mode transition: a separately coded 5 ms CELT
    frame of `R.length` bytes follows the main part; opus_encoder.c:2239-2263, 2271-2275, 2306-2320 / 2399-2413, 2421).
    Encoder model `silkRedFrame`: SILK payload, `ec_enc_bit_logp(celt_to_silk, 1)`, `ret = (ec_tell+7)>>3`, `ec_enc_done`,
    frame = first `ret` bytes (no strip) ++ `R`, `rangeFinal = enc.rng ^ rr`.  Decoder: C03's `decodeOpusFrame` on the whole
    frame — its range decoder is initialised on `ret + R.length` bytes, so it READS INTO the redundancy bytes while decoding the
    SILK part; that this is harmless is proved (`encDone_contains_ext`: every stream that starts with the bytes `ec_enc_done`
    wrote has its code value in the final interval) — then `decRangeFinal` (opus_decoder.c:558-616, 670-673).
    Conclusion: the decoder infers redundancy from the length, reads `celt_to_silk` back, computes `redundancy_bytes = R.length`,
    reports the encoded SILK events, is in lock step with the encoder (`dec.rng = enc.rng`, error 0), and its final range
    `dec.rng ^ redundant_rng` equals the encoder's `rangeFinal`.
    Hypotheses that remain: the DSP decisions (`PacketIn`, `celt_to_silk`); `hgate`, the decoder's length test
    `ec_tell_after_SILK + 17 ≤ 8·len` — C02 `redundancy_mirror_silk` derives it from the encoder's own test and its
    `redundancy_bytes` clamp; `hfit`/`herr`, the encoder's normal path; and `hred : CeltFrameRT`, the round trip of the
    redundancy CELT frame as far as the final range is concerned (C17's `celt_frame_roundtrip` is to discharge it). -/
theorem opus_frame_lockstep_silk_red (buf : List Nat) (maxData bandwidth nCh ms10 spf48 : Nat) (pk : PacketIn) (st : SilkSt)
    (c2s : Nat) (R : Bytes) (rr : Nat)
    (hbw : bandwidth = 1101 ∨ bandwidth = 1102 ∨ bandwidth = 1103)
    (hms : ms10 = 100 ∨ ms10 = 200 ∨ ms10 = 400 ∨ ms10 = 600)
    (hs : maxData - 1 ≤ buf.length) (hb : BytesOk buf) (hok : PacketOk (silkCfg bandwidth nCh ms10) pk)
    (hc2s : c2s ≤ 1) (hR : BytesOk R)
    (hn : (encodeAll buf (maxData - 1) (packetOps (silkCfg bandwidth nCh ms10) pk ++ redSigOps false true 1 c2s R.length)).nbitsTotal < 4294967296)
    (herr : (encodeAll buf (maxData - 1) (packetOps (silkCfg bandwidth nCh ms10) pk ++ redSigOps false true 1 c2s R.length)).error = 0)
    (hfit : tell (encRun (encInit buf (maxData - 1)) (packetOps (silkCfg bandwidth nCh ms10) pk ++ redSigOps false true 1 c2s R.length)) ≤
      8 * ((maxData - 1 : Nat) : Int))
    (hgate : tell (encRun (encInit buf (maxData - 1)) (packetOps (silkCfg bandwidth nCh ms10) pk)) + 17 ≤
      8 * (((tell (encRun (encInit buf (maxData - 1)) (packetOps (silkCfg bandwidth nCh ms10) pk ++ redSigOps false true 1 c2s R.length)) + 7) / 8) +
        (R.length : Int)))
    (hred : CeltFrameRT { start := 0, end_ := Opus.CeltSyms.endBandOf bandwidth, C := nCh, LM := 1 } R.length (decInit R R.length) rr) :
    ∃ o, decodeOpusFrame 1000 bandwidth nCh ms10 false st
        (silkRedFrame buf maxData (silkCfg bandwidth nCh ms10) pk c2s R rr).payload = .ok o ∧
      o.redundancy = 1 ∧ o.celtToSilk = c2s ∧ o.redundancyBytes = R.length ∧ o.dec.error = 0 ∧
      o.dec.rng = (encRun (encInit buf (maxData - 1)) (packetOps (silkCfg bandwidth nCh ms10) pk ++ redSigOps false true 1 c2s R.length)).rng ∧
      o.evs = packetEvs (silkCfg bandwidth nCh ms10) pk (fun j =>
        ((encRun (encInit buf (maxData - 1)) (prefixOps (silkCfg bandwidth nCh ms10) pk j)).rng,
         tell (encRun (encInit buf (maxData - 1)) (prefixOps (silkCfg bandwidth nCh ms10) pk j)))) ∧
      decRangeFinal 1000 bandwidth nCh spf48 (silkRedFrame buf maxData (silkCfg bandwidth nCh ms10) pk c2s R rr).payload o =
        .ok (silkRedFrame buf maxData (silkCfg bandwidth nCh ms10) pk c2s R rr).rangeFinal :=
  opus_frame_lockstep_silk_red_all buf maxData bandwidth nCh ms10 spf48 pk st c2s R rr hbw hms hs hb hok hc2s hR hn herr hfit hgate hred

/-- A 3-byte redundancy frame that C03's CELT decoder model accepts, and its final range. -/
def exampleRed : List Nat := [10, 200, 33]

open Opus.OpusFrameEnc in
example : CeltFrameRT { start := 0, end_ := Opus.CeltSyms.endBandOf 1101, C := 1, LM := 1 } exampleRed.length
    (decInit exampleRed exampleRed.length) 56531000 := by
  have h1 : (match Opus.CeltBands.celtFrame { start := 0, end_ := Opus.CeltSyms.endBandOf 1101, C := 1, LM := 1 } exampleRed.length
      (decInit exampleRed exampleRed.length) with | .ok cf => cf.fin.c.rng | _ => 0) = 56531000 := by decide +kernel
  unfold CeltFrameRT
  generalize Opus.CeltBands.celtFrame { start := 0, end_ := Opus.CeltSyms.endBandOf 1101, C := 1, LM := 1 } exampleRed.length
      (decInit exampleRed exampleRed.length) = r at h1
  cases r with
  | ok cf => exact ⟨cf, rfl, h1⟩
  | err e => simp at h1
  | oob => simp at h1
  | abort => simp at h1

open Opus.SilkSyms Opus.SilkSymsEnc Opus.OpusFrameEnc in
example : (encodeAll (List.replicate 100 170) 100 (packetOps (silkCfg 1101 1 100) exampleMonoPacket ++ redSigOps false true 1 0 3)).error = 0 ∧
    tell (encRun (encInit (List.replicate 100 170) 100) (packetOps (silkCfg 1101 1 100) exampleMonoPacket ++ redSigOps false true 1 0 3)) = 248 ∧
    (247 : Int) + 17 ≤ 8 * ((248 + 7) / 8 + 3) ∧
    (silkRedFrame (List.replicate 100 170) 101 (silkCfg 1101 1 100) exampleMonoPacket 0 exampleRed 56531000).payload.length = 34 ∧
    (match decodeOpusFrame 1000 1101 1 100 false {} (silkRedFrame (List.replicate 100 170) 101 (silkCfg 1101 1 100) exampleMonoPacket 0 exampleRed 56531000).payload with
     | .ok o => (match decRangeFinal 1000 1101 1 480 (silkRedFrame (List.replicate 100 170) 101 (silkCfg 1101 1 100) exampleMonoPacket 0 exampleRed 56531000).payload o with
                 | .ok r => decide (r = (silkRedFrame (List.replicate 100 170) 101 (silkCfg 1101 1 100) exampleMonoPacket 0 exampleRed 56531000).rangeFinal ∧ o.redundancy = 1 ∧ o.redundancyBytes = 3)
                 | _ => false)
     | _ => false) = true := by
  decide +kernel

open Opus.SilkSyms Opus.SilkSymsEnc Opus.SilkSymsEncProofs Opus.OpusFrameEnc Opus.OpusFrameProofs in
/-- `opus_frame_lockstep_silk_red` with NO CELT hypothesis left: the redundancy frame is the packet `w.bytes` that C17's
    CELT encoder model `encFrame` (header, allocation, fine energy, band data, finalisation) produces on a coder of its own
    from the CELT decisions `s0.ds`, `redundant_rng` is that model's final `rng`; `CeltFrameRT` is discharged by C17's
    `celt_frame_roundtrip` (`OwnCoderFrame` bundles its hypotheses for `P0 = []`: a non-silent frame, no coder error, the
    final length is the budgeted size or leaves the VBR margin, tapset and stereo decisions in range).  So for a SILK-only
    frame with redundancy, "the decoder ends the packet with the final range the encoder reports" holds at the symbol level
    end to end: SILK symbols (this property and C03's model), `celt_to_silk`, and every CELT symbol of the redundancy frame
    (C17), `rangeFinal = enc.rng ^ redundant_rng` on both sides.  The remaining hypotheses are the DSP decisions (inputs),
    the encoder's normal path (`herr`, `hfit`) and the length contract `hgate` (C02 `redundancy_mirror_silk`). -/
theorem opus_frame_lockstep_silk_red_celt (buf : List Nat) (maxData bandwidth nCh ms10 spf48 : Nat) (pk : PacketIn)
    (st : SilkSt) (c2s : Nat) (w : OpusProofs.CeltHdr.World) (ccfg : Opus.CeltSymsEnc.EncCfg) (s0 : Opus.CeltSymsEnc.St)
    (fr : Opus.CeltBandsEnc.EncFrame)
    (hbw : bandwidth = 1101 ∨ bandwidth = 1102 ∨ bandwidth = 1103)
    (hms : ms10 = 100 ∨ ms10 = 200 ∨ ms10 = 400 ∨ ms10 = 600)
    (hs : maxData - 1 ≤ buf.length) (hb : BytesOk buf) (hok : PacketOk (silkCfg bandwidth nCh ms10) pk)
    (hc2s : c2s ≤ 1) (hown : OwnCoderFrame w ccfg s0 fr)
    (hcc : ccfg.start = 0 ∧ ccfg.end_ = Opus.CeltSyms.endBandOf bandwidth ∧ ccfg.C = nCh ∧ ccfg.LM = 1)
    (hn : (encodeAll buf (maxData - 1) (packetOps (silkCfg bandwidth nCh ms10) pk ++ redSigOps false true 1 c2s w.bytes.length)).nbitsTotal < 4294967296)
    (herr : (encodeAll buf (maxData - 1) (packetOps (silkCfg bandwidth nCh ms10) pk ++ redSigOps false true 1 c2s w.bytes.length)).error = 0)
    (hfit : tell (encRun (encInit buf (maxData - 1)) (packetOps (silkCfg bandwidth nCh ms10) pk ++ redSigOps false true 1 c2s w.bytes.length)) ≤
      8 * ((maxData - 1 : Nat) : Int))
    (hgate : tell (encRun (encInit buf (maxData - 1)) (packetOps (silkCfg bandwidth nCh ms10) pk)) + 17 ≤
      8 * (((tell (encRun (encInit buf (maxData - 1)) (packetOps (silkCfg bandwidth nCh ms10) pk ++ redSigOps false true 1 c2s w.bytes.length)) + 7) / 8) +
        (w.bytes.length : Int))) :
    ∃ o, decodeOpusFrame 1000 bandwidth nCh ms10 false st
        (silkRedFrame buf maxData (silkCfg bandwidth nCh ms10) pk c2s w.bytes fr.fin.rng).payload = .ok o ∧
      o.redundancy = 1 ∧ o.celtToSilk = c2s ∧ o.redundancyBytes = w.bytes.length ∧ o.dec.error = 0 ∧
      o.dec.rng = (encRun (encInit buf (maxData - 1)) (packetOps (silkCfg bandwidth nCh ms10) pk ++ redSigOps false true 1 c2s w.bytes.length)).rng ∧
      o.evs = packetEvs (silkCfg bandwidth nCh ms10) pk (fun j =>
        ((encRun (encInit buf (maxData - 1)) (prefixOps (silkCfg bandwidth nCh ms10) pk j)).rng,
         tell (encRun (encInit buf (maxData - 1)) (prefixOps (silkCfg bandwidth nCh ms10) pk j)))) ∧
      decRangeFinal 1000 bandwidth nCh spf48 (silkRedFrame buf maxData (silkCfg bandwidth nCh ms10) pk c2s w.bytes fr.fin.rng).payload o =
        .ok (silkRedFrame buf maxData (silkCfg bandwidth nCh ms10) pk c2s w.bytes fr.fin.rng).rangeFinal :=
  opus_frame_lockstep_silk_red_celt_all buf maxData bandwidth nCh ms10 spf48 pk st c2s w ccfg s0 fr hbw hms hs hb hok hc2s hown hcc
    hn herr hfit hgate

open Opus.SilkSyms Opus.SilkSymsEnc Opus.OpusFrameEnc Opus.OpusFrameProofs Opus.OpusFrameProofs.Example in
/-- a 24-byte mono narrowband redundancy frame of 72 coder calls from C17's encoder model behind the example SILK packet:
    all hypotheses hold (`PacketOk` of the packet: above) -/
example : (∃ fr, OwnCoderFrame worldR cfgR s0R fr ∧ fr.fin.rng = 1642388224 ∧ fr.ops.length = 72 ∧ tell fr.fin = 192) ∧
    (cfgR.start = 0 ∧ cfgR.end_ = Opus.CeltSyms.endBandOf 1101 ∧ cfgR.C = 1 ∧ cfgR.LM = 1) ∧
    worldR.bytes.length = 24 ∧
    (encodeAll (List.replicate 100 170) 100 (packetOps (silkCfg 1101 1 100) exampleMonoPacket ++ redSigOps false true 1 1 24)).error = 0 ∧
    tell (encRun (encInit (List.replicate 100 170) 100) (packetOps (silkCfg 1101 1 100) exampleMonoPacket ++ redSigOps false true 1 1 24)) = 248 ∧
    (247 : Int) + 17 ≤ 8 * ((248 + 7) / 8 + 24) :=
  ⟨ownR, by decide +kernel, by decide +kernel, by decide +kernel, by decide +kernel, by decide⟩

open Opus.SilkSyms Opus.SilkSymsEnc Opus.SilkSymsEncProofs Opus.OpusFrameEnc Opus.OpusFrameProofs in
/-- Frame-level lock step for a HYBRID frame: SILK part, redundancy signalling and CELT part share one range coder
    (opus_encoder.c:2239-2292, 2365-2378, 2421).  Encoder model `hybridFrame`: `packetOps`, then — if the encoder's budget
    test `gate` passed — `ec_enc_bit_logp(redundancy, 12)` and with redundancy `ec_enc_bit_logp(celt_to_silk, 1)`,
    `ec_enc_uint(redundancy_bytes-2, 256)`; `ec_enc_shrink(nb_compr_bytes)`; the CELT encoder's operations `celtOps` (an
    input: whatever `celt_encode_with_ec` does on the shared coder, its own shrink included) and its `ec_enc_done`; the frame
    is the main part followed by the redundancy bytes `R`; `rangeFinal = enc.rng ^ rr`.
    Decoder: C03's `decodeOpusFrame` (SILK part + redundancy parse) on the whole frame.  Proved: it reports the encoded
    SILK events, parses `(redundancy, celt_to_silk, redundancy_bytes)` as signalled, sets `len` / `dec.storage` to the length
    of the main part, and hands over to the CELT decoder IN LOCK STEP with the encoder behind the signalling (`dec.rng`,
    `ec_tell` equal, error flag clear) — prefix `P0 = packetOps ++ redSigOps` in the sense of C17's header theorem.
    From there the CELT layers enter as hypotheses `CeltFrameRT` (main part on the shared coder, from the handed-over
    state; redundancy frame on its own coder): with them `decRangeFinal = rangeFinal`.
    Remaining hypotheses besides those: DSP decisions as inputs; legality of the CELT operations (`hsuf`); `hgate`
    (decoder's length test ⇔ encoder's budget test) and `hsane` (`ec_tell ≤ 8·len` after the signalling) — the two
    contracts C02's `redundancy_mirror_hybrid_partial` isolates; a non-empty main part; `ec_enc_done` without error. -/
theorem opus_frame_lockstep_hybrid (buf : List Nat) (maxData bandwidth nCh ms10 spf48 : Nat) (pk : PacketIn) (st : SilkSt)
    (gate : Bool) (red c2s : Nat) (celtOps : List Op) (R : Bytes) (rr : Nat)
    (hms : ms10 = 100 ∨ ms10 = 200)
    (hs : maxData - 1 ≤ buf.length) (hb : BytesOk buf) (hok : PacketOk (hybridCfg nCh ms10) pk)
    (hred : red ≤ 1) (hc2s : c2s ≤ 1) (hR : BytesOk R)
    (hrb : red ≠ 0 → 2 ≤ R.length ∧ R.length ≤ 257) (hR0 : ¬ (gate = true ∧ red ≠ 0) → R = [])
    (hsuf : LegalRun (encRun (encInit buf (maxData - 1)) (packetOps (hybridCfg nCh ms10) pk ++ redSigOps true gate red c2s R.length))
      (Op.shrink (maxData - 1 - R.length) :: celtOps))
    (hn : (encodeAll buf (maxData - 1) (hybridOps maxData (hybridCfg nCh ms10) pk gate red c2s R.length celtOps)).nbitsTotal < 4294967296)
    (herr : (encodeAll buf (maxData - 1) (hybridOps maxData (hybridCfg nCh ms10) pk gate red c2s R.length celtOps)).error = 0)
    (hgate : (tell (encRun (encInit buf (maxData - 1)) (packetOps (hybridCfg nCh ms10) pk)) + 17 + 20 ≤
        8 * (((encodeAll buf (maxData - 1) (hybridOps maxData (hybridCfg nCh ms10) pk gate red c2s R.length celtOps)).storage + R.length : Nat) : Int)) ↔
      gate = true)
    (hsane : tell (encRun (encInit buf (maxData - 1)) (packetOps (hybridCfg nCh ms10) pk ++ redSigOps true gate red c2s R.length)) ≤
      8 * (((encodeAll buf (maxData - 1) (hybridOps maxData (hybridCfg nCh ms10) pk gate red c2s R.length celtOps)).storage : Nat) : Int))
    (hmainpos : 0 < (encodeAll buf (maxData - 1) (hybridOps maxData (hybridCfg nCh ms10) pk gate red c2s R.length celtOps)).storage) :
    ∃ o, decodeOpusFrame 1001 bandwidth nCh ms10 false st
        (hybridFrame buf maxData (hybridCfg nCh ms10) pk gate red c2s celtOps R rr).payload = .ok o ∧
      o.redundancy = (if gate = true ∧ red ≠ 0 then 1 else 0) ∧
      o.celtToSilk = (if gate = true ∧ red ≠ 0 then c2s else 0) ∧ o.redundancyBytes = R.length ∧
      o.len = ((encodeAll buf (maxData - 1) (hybridOps maxData (hybridCfg nCh ms10) pk gate red c2s R.length celtOps)).storage : Int) ∧
      o.evs = packetEvs (hybridCfg nCh ms10) pk (fun j =>
        ((encRun (encInit buf (maxData - 1)) (prefixOps (hybridCfg nCh ms10) pk j)).rng,
         tell (encRun (encInit buf (maxData - 1)) (prefixOps (hybridCfg nCh ms10) pk j)))) ∧
      o.dec.error = 0 ∧
      o.dec.rng = (encRun (encInit buf (maxData - 1)) (packetOps (hybridCfg nCh ms10) pk ++ redSigOps true gate red c2s R.length)).rng ∧
      tell o.dec = tell (encRun (encInit buf (maxData - 1)) (packetOps (hybridCfg nCh ms10) pk ++ redSigOps true gate red c2s R.length)) ∧
      o.dec.storage = (encodeAll buf (maxData - 1) (hybridOps maxData (hybridCfg nCh ms10) pk gate red c2s R.length celtOps)).storage ∧
      (CeltFrameRT { start := 17, end_ := Opus.CeltSyms.endBandOf bandwidth, C := nCh, LM := Opus.CeltSyms.lmOf spf48 } o.len.toNat o.dec
          (encodeAll buf (maxData - 1) (hybridOps maxData (hybridCfg nCh ms10) pk gate red c2s R.length celtOps)).rng →
        (gate = true ∧ red ≠ 0 →
          CeltFrameRT { start := 0, end_ := Opus.CeltSyms.endBandOf bandwidth, C := nCh, LM := 1 } R.length (decInit R R.length) rr) →
        (¬ (gate = true ∧ red ≠ 0) → rr = 0) →
        decRangeFinal 1001 bandwidth nCh spf48 (hybridFrame buf maxData (hybridCfg nCh ms10) pk gate red c2s celtOps R rr).payload o =
          .ok (hybridFrame buf maxData (hybridCfg nCh ms10) pk gate red c2s celtOps R rr).rangeFinal) :=
  opus_frame_lockstep_hybrid_all buf maxData bandwidth nCh ms10 spf48 pk st gate red c2s celtOps R rr hms hs hb hok hred hc2s hR
    hrb hR0 hsuf hn herr hgate hsane hmainpos

/-- WB mono 10 ms SILK part of a hybrid frame (unvoiced, a few pulses). -/
def exampleHybPacket : Opus.SilkSymsEnc.PacketIn :=
  { ch0 := { vad := [1], lbrrFlags := [0], lbrr := [], frames := [⟨{ signalType := 1, quantOffsetType := 0, gains := [30, 5], nlsf0 := 3, nlsfRes := [0, 1, -1, 0, 2, 0, 0, -2, 0, 0, 1, 0, 0, 0, -1, 0], interp := 4, lagIndex := 0, contourIndex := 0, perIndex := 0, ltp := [], ltpScale := 0, seed := 2 }, (List.range 160).map (fun (i : Nat) => if i % 17 = 0 then 1 else if i % 29 = 0 then -2 else 0)⟩], prev := {} },
    ch1 := default, predIx := [], midOnly := [], lbrrPredIx := [], lbrrMidOnly := [] }

open Opus.SilkSyms Opus.SilkSymsEnc Opus.SilkSymsEncProofs Opus.OpusFrameEnc in
example : PacketOk (hybridCfg 1 100) exampleHybPacket :=
  ⟨by decide, by decide, by decide, by decide, by decide +kernel, by decide +kernel, by decide +kernel,
   by decide +kernel, by decide +kernel, by decide +kernel⟩

/-- The hypotheses of `opus_frame_lockstep_hybrid` on a concrete frame: budget 61 bytes, redundancy flag 0, and a
    stand-in for the CELT part that uses both ends of the buffer (a symbol and three raw bits). -/
example :
    LegalRun (encRun (encInit (List.replicate 60 170) 60) (Opus.SilkSymsEnc.packetOps (Opus.OpusFrameEnc.hybridCfg 1 100) exampleHybPacket ++
        Opus.OpusFrameEnc.redSigOps true true 0 0 0)) (Op.shrink (60 - 0) :: [.bitLogp 0 15, .bits 5 3]) ∧
    (encodeAll (List.replicate 60 170) 60 (Opus.OpusFrameEnc.hybridOps 61 (Opus.OpusFrameEnc.hybridCfg 1 100) exampleHybPacket true 0 0 0 [.bitLogp 0 15, .bits 5 3])).error = 0 ∧
    (encodeAll (List.replicate 60 170) 60 (Opus.OpusFrameEnc.hybridOps 61 (Opus.OpusFrameEnc.hybridCfg 1 100) exampleHybPacket true 0 0 0 [.bitLogp 0 15, .bits 5 3])).storage = 60 ∧
    tell (encRun (encInit (List.replicate 60 170) 60) (Opus.SilkSymsEnc.packetOps (Opus.OpusFrameEnc.hybridCfg 1 100) exampleHybPacket)) + 17 + 20 ≤ 8 * 60 ∧
    (match Opus.SilkSyms.decodeOpusFrame 1001 1104 1 100 false {}
        (Opus.OpusFrameEnc.hybridFrame (List.replicate 60 170) 61 (Opus.OpusFrameEnc.hybridCfg 1 100) exampleHybPacket true 0 0 [.bitLogp 0 15, .bits 5 3] [] 0).payload with
     | .ok o => decide (o.redundancy = 0 ∧ o.len = 60 ∧ o.dec.rng =
         (encRun (encInit (List.replicate 60 170) 60) (Opus.SilkSymsEnc.packetOps (Opus.OpusFrameEnc.hybridCfg 1 100) exampleHybPacket ++
           Opus.OpusFrameEnc.redSigOps true true 0 0 0)).rng)
     | _ => false) = true := by
  decide +kernel

/-! ## Patching is coding the true bits; the frame-level capstone -/

open Opus.RangeCoder in
/-- **`ec_enc_patch_initial_bits` versus coding the bits in the first place.**  A stream whose first `k ≤ 7` bits are
    coded as a placeholder (symbol 0 of `2^k` equiprobable ones: what `silk_Encode` does for its VAD / LBRR flags),
    followed by range-coded operations `body`, the patch of those bits to `w`, and ANY legal continuation `suf`
    (raw bits, `ec_enc_uint`, `ec_enc_shrink` included), is — after `ec_enc_done`, field for field: bytes, `rng`, `nbits_total`,
    storage, error flag — the stream obtained by coding the `k` bits of `w` one by one first (`bitsOps w k`), then `body`,
    then `suf`.  Before `ec_enc_done` the two coders agree up to the representation of a pending first digit 0xFF (`canon`:
    `rem = 255` versus one more `ext`; the patch can create the former, `ec_enc_carry_out` only the latter), and the
    second run is a legal run in the sense of the round-trip theorems (no patch in it).  The proof is a simulation:
    `twin k w c` is the state of the second coder when the first is in `c` — the top `k` bits of the first output digit,
    wherever that digit currently lives (`val`, `rem`, `buf[0]`), hold `w` instead of 0 — and the cell invariant of
    `decode_encode_patched` is what keeps the low bits from carrying into them.  Consequence used below: the main coder of
    a hybrid Opus frame, which patches the SILK flags, can be replaced by a patch-free run with the same output. -/
theorem patched_equals_true_bits (buf : List Nat) (size k w : Nat) (body suf : List Op) (hs : size ≤ buf.length)
    (hb : BytesOk buf) (hk1 : 1 ≤ k) (hk7 : k ≤ 7) (hw : w < 2 ^ k) (hbody : ∀ op ∈ body, op.isPrim = true ∧ op.Legal)
    (hsuf : LegalRun (encRun (encInit buf size) (.icdf 0 (flagTable k) 8 :: (body ++ [.patchInitial w k]))) suf)
    (hn : (encRun (encInit buf size) (.icdf 0 (flagTable k) 8 :: (body ++ [.patchInitial w k] ++ suf))).nbitsTotal < 4294967296)
    (herr : (encRun (encInit buf size) (.icdf 0 (flagTable k) 8 :: (body ++ [.patchInitial w k] ++ suf))).error = 0) :
    canon (encRun (encInit buf size) (.icdf 0 (flagTable k) 8 :: (body ++ [.patchInitial w k] ++ suf))) =
      canon (encRun (encInit buf size) (bitsOps w k ++ body ++ suf)) ∧
    RunInv (encRun (encInit buf size) (bitsOps w k ++ body ++ suf)) ∧
    LegalRun (encInit buf size) (bitsOps w k ++ body ++ suf) ∧
    encodeAll buf size (.icdf 0 (flagTable k) 8 :: (body ++ [.patchInitial w k] ++ suf)) =
      encodeAll buf size (bitsOps w k ++ body ++ suf) :=
  patched_eq_bits buf size k w body suf hs hb hk1 hk7 hw hbody hsuf hn herr

open Opus.RangeCoder in
/-- a 4-bit flag word 0b1011 patched behind three symbols, then a symbol, 5 raw bits and a `ec_enc_uint`: the two op lists
    give the same 12 finished bytes (and the hypotheses hold) -/
example : (∀ op ∈ [Op.icdf 1 [200, 100, 0] 8, .encodeBin 3 4 3, .bitLogp 1 2], op.isPrim = true ∧ op.Legal) ∧
    LegalRun (encRun (encInit (List.replicate 12 7) 12)
      (.icdf 0 (flagTable 4) 8 :: ([Op.icdf 1 [200, 100, 0] 8, .encodeBin 3 4 3, .bitLogp 1 2] ++ [.patchInitial 11 4])))
      [.icdf 2 [200, 100, 0] 8, .bits 21 5, .uint 1000 70000] ∧
    (encodeAll (List.replicate 12 7) 12 (.icdf 0 (flagTable 4) 8 :: ([Op.icdf 1 [200, 100, 0] 8, .encodeBin 3 4 3, .bitLogp 1 2] ++
      [.patchInitial 11 4] ++ [.icdf 2 [200, 100, 0] 8, .bits 21 5, .uint 1000 70000]))).error = 0 ∧
    encodeAll (List.replicate 12 7) 12 (.icdf 0 (flagTable 4) 8 :: ([Op.icdf 1 [200, 100, 0] 8, .encodeBin 3 4 3, .bitLogp 1 2] ++
      [.patchInitial 11 4] ++ [.icdf 2 [200, 100, 0] 8, .bits 21 5, .uint 1000 70000])) =
    encodeAll (List.replicate 12 7) 12 (bitsOps 11 4 ++ [Op.icdf 1 [200, 100, 0] 8, .encodeBin 3 4 3, .bitLogp 1 2] ++
      [.icdf 2 [200, 100, 0] 8, .bits 21 5, .uint 1000 70000]) := by
  decide +kernel

open Opus.RangeCoder in
/-- the corner the `canon` in the statement is about: flags 0b1111 and eight more one-bits make the first byte 0xFF; after
    the patch the first coder holds it as `rem = 255, ext = 0`, the second as `rem = -1, ext = 1`; the finished streams are
    equal (`ff f2 00 … 03`) -/
example :
    ((encRun (encInit (List.replicate 8 7) 8) (.icdf 0 (flagTable 4) 8 :: ([Op.encodeBin 15 16 4, .encodeBin 15 16 4] ++ [.patchInitial 15 4]))).rem,
     (encRun (encInit (List.replicate 8 7) 8) (.icdf 0 (flagTable 4) 8 :: ([Op.encodeBin 15 16 4, .encodeBin 15 16 4] ++ [.patchInitial 15 4]))).ext,
     (encRun (encInit (List.replicate 8 7) 8) (bitsOps 15 4 ++ [Op.encodeBin 15 16 4, .encodeBin 15 16 4])).rem,
     (encRun (encInit (List.replicate 8 7) 8) (bitsOps 15 4 ++ [Op.encodeBin 15 16 4, .encodeBin 15 16 4])).ext) = (255, 0, -1, 1) ∧
    encodeAll (List.replicate 8 7) 8 (.icdf 0 (flagTable 4) 8 :: ([Op.encodeBin 15 16 4, .encodeBin 15 16 4] ++ [.patchInitial 15 4] ++
      [.bits 3 2, .encodeBin 1 2 3])) =
    encodeAll (List.replicate 8 7) 8 (bitsOps 15 4 ++ [Op.encodeBin 15 16 4, .encodeBin 15 16 4] ++ [.bits 3 2, .encodeBin 1 2 3]) ∧
    (encodeAll (List.replicate 8 7) 8 (bitsOps 15 4 ++ [Op.encodeBin 15 16 4, .encodeBin 15 16 4] ++ [.bits 3 2, .encodeBin 1 2 3])).buf =
      [255, 242, 0, 0, 0, 0, 0, 3] := by
  decide +kernel

open Opus.SilkSyms Opus.SilkSymsEnc Opus.SilkSymsEncProofs Opus.OpusFrameEnc Opus.OpusFrameProofs in
/-- `opus_frame_lockstep_hybrid` WITHOUT redundancy and with NO CELT hypothesis left: the CELT part of the frame is what
    C17's encoder model `encFrame` (header, allocation, fine energy, band data, anti-collapse, finalisation) writes on the
    shared coder behind the SILK part, the redundancy flag 0 (if the encoder's budget test `gate` passed) and the
    `ec_enc_shrink`; `CeltFrameRT` is discharged by C17's `celt_frame_roundtrip` with the prefix `P0 = hybridP0` — the legal,
    patch-free form of the SILK prefix that `patched_equals_true_bits` provides (C17's `World` is a legal run).
    `HybridCelt` bundles C17's hypotheses (non-silent frame, final length = budgeted size or the VBR `min_allowed` margin,
    room for the first symbol, tapset and stereo decisions in range); the CELT encoder model starts in the state of the legal
    run behind `P0`, which equals the patched coder's state except possibly for the representation of a pending 0xFF first
    byte.  Residual hypotheses besides: DSP decisions (SILK `PacketIn`, CELT `s0.ds`) as inputs, legality of the run,
    `nbits_total < 2^29` (the bound of C17's `World`; a C `int` shifted left by 3), `ec_enc_done` without error, `hgate` (the
    decoder's length test ⇔ the encoder's budget test: C02 `redundancy_mirror_hybrid_partial`), a non-empty frame. -/
theorem opus_frame_lockstep_hybrid_celt (buf : List Nat) (maxData bandwidth nCh ms10 spf48 : Nat) (pk : PacketIn)
    (st : SilkSt) (gate : Bool) (ccfg : Opus.CeltSymsEnc.EncCfg) (s0 : Opus.CeltSymsEnc.St) (fr : Opus.CeltBandsEnc.EncFrame)
    (hms : ms10 = 100 ∨ ms10 = 200)
    (hs : maxData - 1 ≤ buf.length) (hb : BytesOk buf) (hok : PacketOk (hybridCfg nCh ms10) pk)
    (hsuf : LegalRun (encRun (encInit buf (maxData - 1)) (packetOps (hybridCfg nCh ms10) pk ++ redSigOps true gate 0 0 0))
      (Op.shrink (maxData - 1 - 0) :: fr.ops))
    (hn29 : (encodeAll buf (maxData - 1) (hybridOps maxData (hybridCfg nCh ms10) pk gate 0 0 0 fr.ops)).nbitsTotal < 536870912)
    (herr : (encodeAll buf (maxData - 1) (hybridOps maxData (hybridCfg nCh ms10) pk gate 0 0 0 fr.ops)).error = 0)
    (hgate : (tell (encRun (encInit buf (maxData - 1)) (packetOps (hybridCfg nCh ms10) pk)) + 17 + 20 ≤
        8 * (((encodeAll buf (maxData - 1) (hybridOps maxData (hybridCfg nCh ms10) pk gate 0 0 0 fr.ops)).storage : Nat) : Int)) ↔
      gate = true)
    (hmainpos : 0 < (encodeAll buf (maxData - 1) (hybridOps maxData (hybridCfg nCh ms10) pk gate 0 0 0 fr.ops)).storage)
    (hcelt : HybridCelt buf maxData (hybridCfg nCh ms10) pk gate ccfg s0 fr)
    (hcc : ccfg.start = 17 ∧ ccfg.end_ = Opus.CeltSyms.endBandOf bandwidth ∧ ccfg.C = nCh ∧ ccfg.LM = Opus.CeltSyms.lmOf spf48) :
    ∃ o, decodeOpusFrame 1001 bandwidth nCh ms10 false st
        (hybridFrame buf maxData (hybridCfg nCh ms10) pk gate 0 0 fr.ops [] 0).payload = .ok o ∧
      o.redundancy = 0 ∧
      o.evs = packetEvs (hybridCfg nCh ms10) pk (fun j =>
        ((encRun (encInit buf (maxData - 1)) (prefixOps (hybridCfg nCh ms10) pk j)).rng,
         tell (encRun (encInit buf (maxData - 1)) (prefixOps (hybridCfg nCh ms10) pk j)))) ∧
      decRangeFinal 1001 bandwidth nCh spf48 (hybridFrame buf maxData (hybridCfg nCh ms10) pk gate 0 0 fr.ops [] 0).payload o =
        .ok (hybridFrame buf maxData (hybridCfg nCh ms10) pk gate 0 0 fr.ops [] 0).rangeFinal :=
  opus_frame_lockstep_hybrid_celt_all buf maxData bandwidth nCh ms10 spf48 pk st gate ccfg s0 fr hms hs hb hok hsuf hn29 herr hgate
    hmainpos hcelt hcc

open Opus.OpusFrameEnc Opus.OpusFrameProofs Opus.OpusFrameProofs.Example in
/-- an SWB mono 10 ms hybrid frame of 60 bytes: WB SILK part, redundancy flag 0, CELT bands 17-18 from C17's encoder model
    (33 coder calls): it is a case of `OpusFrameCase` — every hypothesis above evaluated in the kernel -/
example : ∃ fr, Opus.CeltBandsEnc.encFrame cfgH s0H = .ok fr ∧ fr.ops.length = 33 ∧
    OpusFrameCase 1104 1 100 480 1001 (hybridFrame bufH 61 (hybridCfg 1 100) hybPacket true 0 0 fr.ops [] 0) := caseHybrid

open Opus.OpusFrameEnc Opus.OpusFrameProofs in
/-- **Frame-level lock step for CELT-only frames**: the frame is the packet C17's encoder model `encFrame` produces on its
    own coder (`OwnCoderFrame`: C17's hypotheses with empty prefix; `w.all = fr.ops`: nothing but `ec_enc_done` follows);
    C03's `celtFrame` from band 0 on the finished bytes ends with the encoder's final range. -/
theorem opus_frame_lockstep_celt (bandwidth nCh spf48 : Nat) (w : OpusProofs.CeltHdr.World) (ccfg : Opus.CeltSymsEnc.EncCfg)
    (s0 : Opus.CeltSymsEnc.St) (fr : Opus.CeltBandsEnc.EncFrame) (hown : OwnCoderFrame w ccfg s0 fr) (hall : w.all = fr.ops)
    (hcc : ccfg.start = 0 ∧ ccfg.end_ = Opus.CeltSyms.endBandOf bandwidth ∧ ccfg.C = nCh ∧ ccfg.LM = Opus.CeltSyms.lmOf spf48) :
    (celtOnlyFrame w.buf w.size w.all).payload = w.bytes ∧
    celtRangeFinal bandwidth nCh spf48 (celtOnlyFrame w.buf w.size w.all).payload =
      .ok (celtOnlyFrame w.buf w.size w.all).rangeFinal :=
  opus_frame_lockstep_celt_all bandwidth nCh spf48 w ccfg s0 fr hown hall hcc

open Opus.OpusFrameEnc Opus.OpusFrameProofs Opus.OpusFrameProofs.Example in
/-- C17's 24-byte 2.5 ms NB frame (75 coder calls) is a CELT-only case -/
example : ∃ fr, OpusFrameCase 1101 1 25 120 1002
      (celtOnlyFrame OpusProofs.CeltHdr.Example.worldF.buf OpusProofs.CeltHdr.Example.worldF.size OpusProofs.CeltHdr.Example.worldF.all) ∧
    Opus.CeltBandsEnc.encFrame OpusProofs.CeltHdr.Example.cfg OpusProofs.CeltHdr.Example.s0F = .ok fr ∧ fr.ops.length = 75 := caseCelt

open Opus.SilkSyms Opus.OpusFrameEnc Opus.OpusFrameProofs in
/-- **The frame-level lock step, all frame kinds** — C02's clause "the decoder ends each packet with a range-coder final
    state identical to the one the encoder reports", at the symbol level.  `OpusFrameCase bandwidth nCh ms10 spf48 mode f`
    (OpusProofs/OpusFrameLockstep.lean) says that `f` is the output (payload without TOC byte, `st->rangeFinal`) of the
    encoder model for one of:
    * `silk`     SILK-only without redundancy (`silkOnlyFrame`: SILK payload, `ret=(ec_tell+7)>>3`, trailing-zero strip);
    * `silkRed`  SILK-only with a 5 ms redundancy frame produced by C17's CELT encoder model on a coder of its own;
    * `hybrid`   hybrid without redundancy, CELT part from C17's encoder model on the shared coder;
    * `celt`     CELT-only, the frame of C17's encoder model;
    each with exactly the hypotheses of the corresponding theorem above.  Then, for ANY decoder history `st`, C03's decoder
    model (`frameRangeFinal`: `decodeOpusFrame` — SILK symbols, redundancy parse — then `celtFrame` for the CELT part and for
    the redundancy frame, XOR) returns the encoder's `rangeFinal`.
    Residual hypotheses, all inside `OpusFrameCase`: the DSP decisions are inputs (SILK `PacketIn` in `PacketOk`; CELT
    decision streams `s0.ds` for which `encFrame` returns `.ok`); CELT frames are NOT silent (C17 proves the header of silent
    frames only) ; the coder ends without error and `nbits_total < 2^32` (`< 2^29` where a C17 `World` is built); SILK frames
    fit their budget (`hfit`: otherwise the encoder sends the PLC byte); the length contracts `hgate` (C02's
    `redundancy_mirror_*`); for CELT parts the final length is the budgeted size or leaves the VBR `min_allowed` margin
    (C17's `hmargin`).  Not a case: hybrid frames WITH redundancy — there C03's decoder is initialised on main part ++
    redundancy bytes and may have read into the latter before `storage -= redundancy_bytes`, so its state is not the one
    C17's `World` (initialised on the main part) starts from; `opus_frame_lockstep_hybrid` covers them with the CELT main
    part as hypothesis `CeltFrameRT` — and one-byte / DTX frames (no range coder). -/
theorem opus_frame_lockstep {bandwidth nCh ms10 spf48 mode : Nat} {f : FrameEnc}
    (h : OpusFrameCase bandwidth nCh ms10 spf48 mode f) (st : SilkSt) :
    frameRangeFinal mode bandwidth nCh ms10 spf48 st f.payload = .ok f.rangeFinal :=
  opus_frame_lockstep_all h st

open Opus.SilkSyms Opus.OpusFrameEnc Opus.OpusFrameProofs Opus.OpusFrameProofs.Example in
/-- the four example frames (one per kind; all hypotheses kernel-evaluated in OpusProofs/OpusFrameLockstepExample.lean) -/
example : frameRangeFinal 1000 1101 1 100 480 {} (silkOnlyFrame bufS 101 (silkCfg 1101 1 100) monoPacket).payload =
    .ok (silkOnlyFrame bufS 101 (silkCfg 1101 1 100) monoPacket).rangeFinal := opus_frame_lockstep caseSilk {}

open Opus.SilkSyms Opus.OpusFrameEnc Opus.OpusFrameProofs Opus.OpusFrameProofs.Example in
example : ∃ fr, OwnCoderFrame worldR cfgR s0R fr ∧
    frameRangeFinal 1000 1101 1 100 480 {} (silkRedFrame bufS 101 (silkCfg 1101 1 100) monoPacket 1 worldR.bytes fr.fin.rng).payload =
      .ok (silkRedFrame bufS 101 (silkCfg 1101 1 100) monoPacket 1 worldR.bytes fr.fin.rng).rangeFinal := by
  obtain ⟨fr, h1, h2⟩ := caseSilkRed
  exact ⟨fr, h1, opus_frame_lockstep h2 {}⟩

end OpusProps.C08
