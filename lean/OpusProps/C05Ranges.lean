import OpusProofs.EncSkelRanges4
/-
  OpusProps.C05Ranges — property C05, slice `Ranges`: "no 32-bit overflow" in the integer budget arithmetic of the
  encoder.  The C05 skeleton computes with unbounded `Int`; the C code forms the same expressions in `int` /
  `opus_int32`.  Each theorem below says, for one C function / block: on the domain the API admits, EVERY intermediate
  value the C expression forms (the trace of `OpusModel/EncSkelRanges.lean`, file:line cited there, compared entry by
  entry with the C side by the tie `encskel ranges`) is representable in 32 bits — so the unbounded reading and the C
  reading coincide (no wrap, no signed-overflow UB) — and the trace ends in the value the skeleton uses.
-/
namespace OpusProps.C05Ranges
open Opus Opus.EncDecide Opus.EncSkel Opus.EncSkel.Proofs

/-- `user_bitrate_to_bitrate` (opus_encoder.c:686-695): for every state the ctl layer admits (`stOk`), every legal frame
    size (2.5..120 ms) and `max_data_bytes = IMIN(1276, out_data_bytes) ≥ 1`, all intermediates (`60*Fs`,
    `max_data_bytes*8*Fs`, …) fit `int`; the last trace entry is the model function, which lies in 1..4 083 200. -/
theorem user_bitrate_fits (s : St) (fsz m : Int) (h : stOk s = true) (hl : legalFrame s.fs fsz = true)
    (hm : 1 ≤ m ∧ m ≤ 1276) :
    (∀ x ∈ ubTrace s fsz m, Fits32 x) ∧ (ubTrace s fsz m).getLast? = some (userBitrateToBitrate s fsz m) ∧
    1 ≤ userBitrateToBitrate s fsz m ∧ userBitrateToBitrate s fsz m ≤ 4083200 :=
  ⟨(ubTrace_fits s fsz m h hl hm).1, by simp [ubTrace], (ubTrace_fits s fsz m h hl hm).2⟩

example : ∃ s : St, stOk s = true ∧ legalFrame s.fs 120 = true ∧ s.userBitrate = OPUS_BITRATE_MAX ∧
    userBitrateToBitrate s 120 1276 = 4083200 :=
  ⟨{ (default : St) with fs := 48000, channels := 2, userBitrate := OPUS_BITRATE_MAX, userForcedMode := OPUS_AUTO, userBandwidth := OPUS_AUTO, maxBandwidth := BW_FB, forceChannels := OPUS_AUTO, streamChannels := 2, bandwidth := BW_FB, mode := MODE_HYBRID },
   by decide, by decide, rfl, by decide⟩

/-- The CBR sizing block (opus_encoder.c:1253-1261: `frame_rate12`, `12*bitrate/8`, `cbr_bytes`,
    `cbr_bytes*frame_rate12*8/12`): for a bit-rate in 0..4 083 200 (what `user_bitrate_fits` guarantees) every
    intermediate fits; `0 ≤ cbr_bytes ≤ max_data_bytes` and the CBR bit-rate stays in 0..4 083 200. -/
theorem cbr_sizing_fits (fs fsz b m : Int)
    (hfs : fs = 8000 ∨ fs = 12000 ∨ fs = 16000 ∨ fs = 24000 ∨ fs = 48000) (hl : legalFrame fs fsz = true)
    (hb : 0 ≤ b ∧ b ≤ 4083200) (hm : 1 ≤ m ∧ m ≤ 1276) :
    (∀ x ∈ cbrTrace fs fsz b m, Fits32 x) ∧ 0 ≤ cbrBytes fs fsz b m ∧ cbrBytes fs fsz b m ≤ m ∧
    0 ≤ cbrBytes fs fsz b m * (12 * fs / fsz) * 8 / 12 ∧ cbrBytes fs fsz b m * (12 * fs / fsz) * 8 / 12 ≤ 4083200 :=
  cbrTrace_fits fs fsz b m hfs hl hb hm

example : legalFrame 48000 120 = true ∧ cbrBytes 48000 120 4083200 1276 = 1276 := by decide

/-- The trace of the CBR block cannot drift from the skeleton: its last entry is `sizeBudget`'s `bitrate_bps`, entries 8
    and 9 are `cbr_bytes` and the new `max_data_bytes`. -/
theorem cbr_sizing_is_model (s : St) (fsz out : Int) (hv : s.useVbr = 0) :
    let m := min 1276 out
    let t := cbrTrace s.fs fsz (userBitrateToBitrate s fsz m) m
    t.getLast? = some (sizeBudget s fsz out).bitrateBps ∧ t[8]? = some (sizeBudget s fsz out).cbr ∧
    t[9]? = some (sizeBudget s fsz out).maxDataBytes :=
  cbrTrace_model s fsz out hv

example : ∃ s : St, s.useVbr = 0 := ⟨default, rfl⟩

/-- The low-budget gate and `max_rate` (opus_encoder.c:1267-1268, :1338: `3*frame_rate*8`,
    `max_data_bytes*frame_rate`, `frame_rate*max_data_bytes*8`) fit for every budget of 1..1276 bytes. -/
theorem gate_maxrate_fits (fs fsz : Int) (b : SizeBudget)
    (hfs : fs = 8000 ∨ fs = 12000 ∨ fs = 16000 ∨ fs = 24000 ∨ fs = 48000) (hl : legalFrame fs fsz = true)
    (hm : 1 ≤ b.maxDataBytes ∧ b.maxDataBytes ≤ 1276) :
    ∀ x ∈ gateTrace fs fsz b, Fits32 x :=
  gateTrace_fits fs fsz b hfs hl hm

example : legalFrame 48000 120 = true ∧ gateTrace 48000 120 ⟨4083200, -1, 1276⟩ = [400, 1200, 9600, 510400, 4083200] := by
  decide

/-- `compute_equiv_rate` (opus_encoder.c:962-993): bit-rate 0..4 083 200, 1-2 channels, frame rate 8..400 Hz,
    complexity 0..10, loss 0..100 (the ctl ranges), any `vbr` / `mode`: every intermediate of all three mode branches
    fits; the last trace entry is the model function, within ±4 083 200. -/
theorem equiv_rate_fits (bitrate channels frameRate vbr mode complexity loss : Int)
    (hb : 0 ≤ bitrate ∧ bitrate ≤ 4083200) (hch : 1 ≤ channels ∧ channels ≤ 2)
    (hfr : 8 ≤ frameRate ∧ frameRate ≤ 400) (hcx : 0 ≤ complexity ∧ complexity ≤ 10)
    (hlo : 0 ≤ loss ∧ loss ≤ 100) :
    (∀ x ∈ erTrace bitrate channels frameRate vbr mode complexity loss, Fits32 x) ∧
    (erTrace bitrate channels frameRate vbr mode complexity loss).getLast? =
      some (computeEquivRate bitrate channels frameRate vbr mode complexity loss) ∧
    -4083200 ≤ computeEquivRate bitrate channels frameRate vbr mode complexity loss ∧
    computeEquivRate bitrate channels frameRate vbr mode complexity loss ≤ 4083200 :=
  ⟨(erTrace_fits bitrate channels frameRate vbr mode complexity loss hb hch hfr hcx hlo).1,
   erTrace_last bitrate channels frameRate vbr mode complexity loss,
   (erTrace_fits bitrate channels frameRate vbr mode complexity loss hb hch hfr hcx hlo).2⟩

example : computeEquivRate 4083200 2 400 0 MODE_SILK_ONLY 10 100 = 3102514 := by decide

/-- `compute_redundancy_bytes` (opus_encoder.c:1081-1107): budget 1..1276 bytes, bit-rate 0..4 083 200, frame rate 8..400,
    1-2 channels: every intermediate fits; the last trace entry is the model function, in 0..257. -/
theorem redundancy_bytes_fits (m br fr ch : Int) (hm : 1 ≤ m ∧ m ≤ 1276) (hb : 0 ≤ br ∧ br ≤ 4083200)
    (hfr : 8 ≤ fr ∧ fr ≤ 400) (hch : 1 ≤ ch ∧ ch ≤ 2) :
    (∀ x ∈ rbTrace m br fr ch, Fits32 x) ∧ (rbTrace m br fr ch).getLast? = some (computeRedundancyBytes m br fr ch) ∧
    0 ≤ computeRedundancyBytes m br fr ch ∧ computeRedundancyBytes m br fr ch ≤ 257 :=
  ⟨(rbTrace_fits m br fr ch hm hb hfr hch).1, rbTrace_last m br fr ch, (rbTrace_fits m br fr ch hm hb hfr hch).2⟩

example : computeRedundancyBytes 1276 4083200 50 2 = 257 := by decide

/-- `bytes_target` and `total_bitRate` (opus_encoder.c:1867 `st->bitrate_bps * frame_size / (st->Fs * 8)`, :1952
    `8 * bytes_target * frame_rate`) for the bit-rate the sizing stage leaves (`sizeBudget`, VBR or CBR, AUTO / MAX / explicit):
    every intermediate fits for every (sub)frame size `e` that is legal, at most the packet's frame size and at most 60 ms
    (what :1616-1641 hands to `opus_encode_frame_native`), any per-frame budget 1..1276 and redundancy 0..257.
    Needs `user_bitrate ≤ 300000·channels` — the clamp OPUS_SET_BITRATE really applies (opus_encoder.c:2690); the skeleton's
    `stOk` (750000·channels, definition in OpusModel/EncSkel/Native.lean, owner C05) is too weak, see
    `bytes_target_needs_ctl_clamp`. -/
theorem bytes_target_fits (s : St) (fsz out e m red : Int) (h : stOk s = true)
    (hu : s.userBitrate ≤ 300000 * s.channels) (hl : legalFrame s.fs fsz = true) (hle : legalFrame s.fs e = true)
    (he : e ≤ fsz ∧ e ≤ 3 * s.fs / 50) (hout : 1 ≤ out) (hm : 1 ≤ m ∧ m ≤ 1276) (hred : 0 ≤ red ∧ red ≤ 257) :
    (∀ x ∈ btTrace s.fs e (sizeBudget s fsz out).bitrateBps m red, Fits32 x) ∧
    -257 ≤ bytesTarget s.fs e (sizeBudget s fsz out).bitrateBps m red ∧
    bytesTarget s.fs e (sizeBudget s fsz out).bitrateBps m red ≤ 1275 := by
  have h' := h
  simp only [stOk, decide_eq_true_eq] at h'
  obtain ⟨hfs, -⟩ := h'
  obtain ⟨hpos, -, hc⟩ := legalFrame_cases s.fs e hfs hle
  obtain ⟨b0, -, b2⟩ := budget_rate_frame s fsz out e h hu hl hout ⟨hpos, he.1, by omega⟩
  exact btTrace_fits s.fs e _ m red (by omega) ⟨hpos, by omega⟩ ⟨b0, by omega⟩ hm hred

example : ∃ s : St, stOk s = true ∧ s.userBitrate = 300000 * s.channels ∧ legalFrame s.fs 2880 = true ∧
    (2880 : Int) ≤ 3 * s.fs / 50 ∧ (sizeBudget s 2880 4000).bitrateBps * 2880 = 1728000000 :=
  ⟨{ (default : St) with fs := 48000, channels := 2, useVbr := 1, userBitrate := 600000, userForcedMode := OPUS_AUTO, userBandwidth := OPUS_AUTO, maxBandwidth := BW_FB, forceChannels := OPUS_AUTO, streamChannels := 2, bandwidth := BW_FB, mode := MODE_SILK_ONLY },
   by decide, by decide, by decide, by decide, by decide⟩

/-- `max_len_sum` of the multi-frame path (opus_encoder.c:1616-1681: split tests, `enc_frame_size`, `nb_frames`,
    `max_header_bytes`, `nb_frames + repacketize_len - max_header_bytes`): every intermediate fits under the general condition
    `out_data_bytes + nb_frames ≤ INT_MAX` (1 ≤ nb_frames ≤ 6, cbr_bytes in -1..1276); the last entry is the skeleton's
    `maxLenSum`.  Without the condition it does not: `max_len_sum_overflows`. -/
theorem max_len_sum_fits (s : St) (fsz out cbr : Int) (hfs : 8000 ≤ s.fs ∧ s.fs ≤ 48000)
    (hnb : 1 ≤ (multiCtx s fsz out cbr).nbFrames ∧ (multiCtx s fsz out cbr).nbFrames ≤ 6)
    (hout : 1 ≤ out ∧ out + (multiCtx s fsz out cbr).nbFrames ≤ 2147483647) (hcbr : -1 ≤ cbr ∧ cbr ≤ 1276) :
    (∀ x ∈ mlTrace s fsz out cbr, Fits32 x) ∧
    (mlTrace s fsz out cbr).getLast? = some (multiCtx s fsz out cbr).maxLenSum :=
  ⟨mlTrace_fits s fsz out cbr hfs hnb hout hcbr, mlTrace_last s fsz out cbr⟩

/-- … in particular on the property's domain `out_data_bytes ≤ 4000`. -/
theorem max_len_sum_fits_4000 (s : St) (fsz out cbr : Int) (hfs : 8000 ≤ s.fs ∧ s.fs ≤ 48000)
    (hnb : 1 ≤ (multiCtx s fsz out cbr).nbFrames ∧ (multiCtx s fsz out cbr).nbFrames ≤ 6)
    (hout : 1 ≤ out ∧ out ≤ 4000) (hcbr : -1 ≤ cbr ∧ cbr ≤ 1276) :
    ∀ x ∈ mlTrace s fsz out cbr, Fits32 x :=
  mlTrace_fits s fsz out cbr hfs hnb ⟨hout.1, by omega⟩ hcbr

example : (multiCtx { (default : St) with fs := 48000, useVbr := 1, mode := MODE_CELT_ONLY } 5760 4000 (-1)).nbFrames = 6 := by
  decide

/-- `curr_max` of one sub-frame (opus_encoder.c:1709-1716: `3*bitrate_bps/(3*8*Fs/enc_frame_size)`,
    `max_len_sum/nb_frames`, `max_len_sum - tot_size`): fits for a bit-rate in 0..4 083 200, any `max_len_sum` in 0..INT_MAX and
    `0 ≤ tot_size ≤ max_len_sum`; the last entry is the skeleton's `currMax`, at most 1276. -/
theorem curr_max_fits (s : St) (c : MultiCtx) (tot : Int) (hfs : 8000 ≤ s.fs ∧ s.fs ≤ 48000)
    (hb : 0 ≤ s.bitrateBps ∧ s.bitrateBps ≤ 4083200) (he : 0 < c.encFs ∧ c.encFs ≤ s.fs)
    (hnb : 1 ≤ c.nbFrames) (hml : 0 ≤ c.maxLenSum ∧ c.maxLenSum ≤ 2147483647) (ht : 0 ≤ tot ∧ tot ≤ c.maxLenSum) :
    (∀ x ∈ cmTrace s c tot, Fits32 x) ∧ (cmTrace s c tot).getLast? = some (currMax s c tot) ∧ currMax s c tot ≤ 1276 :=
  ⟨(cmTrace_fits s c tot hfs hb he hnb hml ht).1, cmTrace_last s c tot, (cmTrace_fits s c tot hfs hb he hnb hml ht).2⟩

example : currMax { (default : St) with fs := 48000, bitrateBps := 4083200 } ⟨960, 6, 0, 2147483647⟩ 0 = 1276 := by decide

/-- `frame_size_select` (opus_encoder.c:768-791, after fix 212cbc41): for EVERY `int` frame_size and EVERY `int`
    variable_duration (Fs in 8000..48000) every value formed up to the first `return` fits — the products `400*new_size` …
    `25*new_size` are formed only below the guard `new_size > 6*Fs/50`; the last trace entry is the model function, -1..5760. -/
theorem frame_size_select_fits (f vd fs : Int) (hf : Fits32 f) (hvd : Fits32 vd) (hfs : 8000 ≤ fs ∧ fs ≤ 48000) :
    (∀ x ∈ fssTrace f vd fs, Fits32 x) ∧ (fssTrace f vd fs).getLast? = some (frameSizeSelect f vd fs) ∧
    -1 ≤ frameSizeSelect f vd fs ∧ frameSizeSelect f vd fs ≤ 5760 :=
  ⟨fssTrace_fits f vd fs hf hvd hfs, fssTrace_last f vd fs, fss_ret_fits f vd fs hfs⟩

example : Fits32 2147483647 ∧ frameSizeSelect 2147483647 FRAMESIZE_ARG 48000 = -1 ∧
    frameSizeSelect 2147483647 FRAMESIZE_120_MS 48000 = 5760 := by decide

/-- Multistream budget (opus_multistream_encoder.c:856-859 `smallest_packet`, :878-888 CBR clamp
    `3*rate_sum/(3*8*Fs/frame_size)`, :976-986 per-stream `curr_max` and `curr_max*(8*Fs/frame_size)`): 1..255 streams,
    bit-rate AUTO / MAX / 500..300000·255, `3*rate_sum ≤ INT_MAX` (C05.ms_rate_no_overflow), ANY max_data_bytes in
    1..INT_MAX, `0 ≤ tot_size ≤` clamped budget: every intermediate fits; the last entry is the skeleton's `msCurrMax`,
    at most MS_FRAME_TMP = 7662 (so the per-stream `opus_encode_native` never sees a huge out_data_bytes).
    The rate allocation itself (rate_allocation, after fix 69d56905, up to 255 channels) is C05.ms_rate_no_overflow. -/
theorem ms_budget_split_fits (vbr br rs nb fs fsz m tot s : Int) (hfs : 8000 ≤ fs ∧ fs ≤ 48000)
    (hz : 0 < fsz ∧ fsz ≤ fs ∧ fs ≤ 400 * fsz) (hnb : 1 ≤ nb ∧ nb ≤ 255) (hs : 0 ≤ s ∧ s < nb)
    (hbr : br = OPUS_AUTO ∨ br = OPUS_BITRATE_MAX ∨ (500 ≤ br ∧ br ≤ 76500000)) (hrs : 0 ≤ rs ∧ 3 * rs ≤ 2147483647)
    (hm : 1 ≤ m ∧ m ≤ 2147483647) (ht : 0 ≤ tot ∧ tot ≤ msMaxBytes vbr br rs nb fs fsz m) :
    (∀ x ∈ msTrace vbr br rs nb fs fsz m tot s, Fits32 x) ∧
    (msTrace vbr br rs nb fs fsz m tot s).getLast? = some (msCurrMax nb fs fsz (msMaxBytes vbr br rs nb fs fsz m) tot s) ∧
    msCurrMax nb fs fsz (msMaxBytes vbr br rs nb fs fsz m) tot s ≤ 7662 :=
  ⟨(msTrace_fits vbr br rs nb fs fsz m tot s hfs hz hnb hs hbr hrs hm ht).1, msTrace_last vbr br rs nb fs fsz m tot s,
   (msTrace_fits vbr br rs nb fs fsz m tot s hfs hz hnb hs hbr hrs hm ht).2⟩

example : msCurrMax 255 48000 120 (msMaxBytes 0 76500000 0 255 48000 120 2147483647) 0 254 = 7662 := by decide

/-- Sharpness of the domain (why `stOk`'s bound 750000·channels is NOT enough for `bytes_target`, opus_encoder.c:1867
    `st->bitrate_bps * frame_size`): a state inside `stOk` with 1 500 000 b/s and a 60 ms SILK frame at 48 kHz makes the product
    leave `int`.  The ctl layer really clamps to 300000·channels (opus_encoder.c:2690), for which 600000·2880 fits. -/
theorem bytes_target_needs_ctl_clamp :
    (∃ s : St, stOk s = true ∧ legalFrame s.fs 2880 = true ∧ ¬ Fits32 (s.userBitrate * 2880)) ∧
    Fits32 (300000 * 2 * 2880) := by
  refine ⟨⟨{ (default : St) with fs := 48000, channels := 2, userBitrate := 1500000, userForcedMode := OPUS_AUTO, userBandwidth := OPUS_AUTO, maxBandwidth := BW_FB, forceChannels := OPUS_AUTO, streamChannels := 2, bandwidth := BW_FB, mode := MODE_SILK_ONLY }, by decide, by decide, by decide⟩, by decide⟩

/-- FINDING (unchanged code): `max_len_sum = nb_frames + repacketize_len - max_header_bytes` (opus_encoder.c:1681) leaves `int`
    for an admitted call: VBR, 48 kHz, 40 ms in a non-SILK mode (2 frames), `out_data_bytes = INT_MAX` — the entry
    `nb_frames + repacketize_len` of `mlTrace` is 2^31+1.  (UBSan confirms on the real library; see the report.) -/
theorem max_len_sum_overflows :
    ∃ s : St, stOk s = true ∧ legalFrame s.fs 1920 = true ∧ isMulti s 1920 = true ∧
      ¬ (∀ x ∈ mlTrace s 1920 2147483647 (-1), Fits32 x) := by
  refine ⟨{ (default : St) with fs := 48000, channels := 2, useVbr := 1, userBitrate := 64000, userForcedMode := OPUS_AUTO, userBandwidth := OPUS_AUTO, maxBandwidth := BW_FB, forceChannels := OPUS_AUTO, streamChannels := 2, bandwidth := BW_FB, mode := MODE_CELT_ONLY }, by decide, by decide, by decide, ?_⟩
  intro h
  exact absurd (h 2147483649 (by decide)) (by decide)

end OpusProps.C05Ranges
