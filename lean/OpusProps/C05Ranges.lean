import OpusProofs.EncSkelRanges2
/-
  OpusProps.C05Ranges — property C05, slice `Ranges`: "no 32-bit overflow" in the integer budget arithmetic of the
  encoder.  The C05 skeleton computes with unbounded `Int`; the C code forms the same expressions in `int` /
  `opus_int32`.  Each theorem below says, for one C function / block: on the domain the API admits, EVERY intermediate
  value the C expression forms (the trace of `OpusModel/EncSkelRanges.lean`, file:line cited there, compared entry by
  entry with the C side by the tie `encskel ranges`) is representable in 32 bits — so the unbounded reading and the C
  reading coincide (no wrap, no signed-overflow UB) — and the trace ends in the value the skeleton uses.
-/
namespace OpusProps.C05Ranges
open Opus Opus.EncDecide Opus.EncSkel Opus.EncSkel.Proofs

/-- `user_bitrate_to_bitrate` (opus_encoder.c:686-695): for every state the ctl layer admits (`stOk`), every legal frame
    size (2.5..120 ms) and `max_data_bytes = IMIN(1276, out_data_bytes) ≥ 1`, all intermediates (`60*Fs`,
    `max_data_bytes*8*Fs`, …) fit `int`; the last trace entry is the model function, which lies in 1..4 083 200. -/
theorem user_bitrate_fits (s : St) (fsz m : Int) (h : stOk s = true) (hl : legalFrame s.fs fsz = true)
    (hm : 1 ≤ m ∧ m ≤ 1276) :
    (∀ x ∈ ubTrace s fsz m, Fits32 x) ∧ (ubTrace s fsz m).getLast? = some (userBitrateToBitrate s fsz m) ∧
    1 ≤ userBitrateToBitrate s fsz m ∧ userBitrateToBitrate s fsz m ≤ 4083200 :=
  ⟨(ubTrace_fits s fsz m h hl hm).1, by simp [ubTrace], (ubTrace_fits s fsz m h hl hm).2⟩

example : ∃ s : St, stOk s = true ∧ legalFrame s.fs 120 = true ∧ s.userBitrate = OPUS_BITRATE_MAX ∧
    userBitrateToBitrate s 120 1276 = 4083200 :=
  ⟨{ (default : St) with fs := 48000, channels := 2, userBitrate := OPUS_BITRATE_MAX, userForcedMode := OPUS_AUTO, userBandwidth := OPUS_AUTO, maxBandwidth := BW_FB, forceChannels := OPUS_AUTO, streamChannels := 2, bandwidth := BW_FB, mode := MODE_HYBRID },
   by decide, by decide, rfl, by decide⟩

/-- The CBR sizing block (opus_encoder.c:1253-1261: `frame_rate12`, `12*bitrate/8`, `cbr_bytes`,
    `cbr_bytes*frame_rate12*8/12`): for a bit-rate in 0..4 083 200 (what `user_bitrate_fits` guarantees) every
    intermediate fits; `0 ≤ cbr_bytes ≤ max_data_bytes` and the CBR bit-rate stays in 0..4 083 200. -/
theorem cbr_sizing_fits (fs fsz b m : Int)
    (hfs : fs = 8000 ∨ fs = 12000 ∨ fs = 16000 ∨ fs = 24000 ∨ fs = 48000) (hl : legalFrame fs fsz = true)
    (hb : 0 ≤ b ∧ b ≤ 4083200) (hm : 1 ≤ m ∧ m ≤ 1276) :
    (∀ x ∈ cbrTrace fs fsz b m, Fits32 x) ∧ 0 ≤ cbrBytes fs fsz b m ∧ cbrBytes fs fsz b m ≤ m ∧
    0 ≤ cbrBytes fs fsz b m * (12 * fs / fsz) * 8 / 12 ∧ cbrBytes fs fsz b m * (12 * fs / fsz) * 8 / 12 ≤ 4083200 :=
  cbrTrace_fits fs fsz b m hfs hl hb hm

example : legalFrame 48000 120 = true ∧ cbrBytes 48000 120 4083200 1276 = 1276 := by decide

/-- The trace of the CBR block cannot drift from the skeleton: its last entry is `sizeBudget`'s `bitrate_bps`, entries 8
    and 9 are `cbr_bytes` and the new `max_data_bytes`. -/
theorem cbr_sizing_is_model (s : St) (fsz out : Int) (hv : s.useVbr = 0) :
    let m := min 1276 out
    let t := cbrTrace s.fs fsz (userBitrateToBitrate s fsz m) m
    t.getLast? = some (sizeBudget s fsz out).bitrateBps ∧ t[8]? = some (sizeBudget s fsz out).cbr ∧
    t[9]? = some (sizeBudget s fsz out).maxDataBytes :=
  cbrTrace_model s fsz out hv

example : ∃ s : St, s.useVbr = 0 := ⟨default, rfl⟩

/-- The low-budget gate and `max_rate` (opus_encoder.c:1267-1268, :1338: `3*frame_rate*8`,
    `max_data_bytes*frame_rate`, `frame_rate*max_data_bytes*8`) fit for every budget of 1..1276 bytes. -/
theorem gate_maxrate_fits (fs fsz : Int) (b : SizeBudget)
    (hfs : fs = 8000 ∨ fs = 12000 ∨ fs = 16000 ∨ fs = 24000 ∨ fs = 48000) (hl : legalFrame fs fsz = true)
    (hm : 1 ≤ b.maxDataBytes ∧ b.maxDataBytes ≤ 1276) :
    ∀ x ∈ gateTrace fs fsz b, Fits32 x :=
  gateTrace_fits fs fsz b hfs hl hm

example : legalFrame 48000 120 = true ∧ gateTrace 48000 120 ⟨4083200, -1, 1276⟩ = [400, 1200, 9600, 510400, 4083200] := by
  decide

/-- `compute_equiv_rate` (opus_encoder.c:962-993): bit-rate 0..4 083 200, 1-2 channels, frame rate 8..400 Hz,
    complexity 0..10, loss 0..100 (the ctl ranges), any `vbr` / `mode`: every intermediate of all three mode branches
    fits; the last trace entry is the model function, within ±4 083 200. -/
theorem equiv_rate_fits (bitrate channels frameRate vbr mode complexity loss : Int)
    (hb : 0 ≤ bitrate ∧ bitrate ≤ 4083200) (hch : 1 ≤ channels ∧ channels ≤ 2)
    (hfr : 8 ≤ frameRate ∧ frameRate ≤ 400) (hcx : 0 ≤ complexity ∧ complexity ≤ 10)
    (hlo : 0 ≤ loss ∧ loss ≤ 100) :
    (∀ x ∈ erTrace bitrate channels frameRate vbr mode complexity loss, Fits32 x) ∧
    (erTrace bitrate channels frameRate vbr mode complexity loss).getLast? =
      some (computeEquivRate bitrate channels frameRate vbr mode complexity loss) ∧
    -4083200 ≤ computeEquivRate bitrate channels frameRate vbr mode complexity loss ∧
    computeEquivRate bitrate channels frameRate vbr mode complexity loss ≤ 4083200 :=
  ⟨(erTrace_fits bitrate channels frameRate vbr mode complexity loss hb hch hfr hcx hlo).1,
   erTrace_last bitrate channels frameRate vbr mode complexity loss,
   (erTrace_fits bitrate channels frameRate vbr mode complexity loss hb hch hfr hcx hlo).2⟩

example : computeEquivRate 4083200 2 400 0 MODE_SILK_ONLY 10 100 = 3102514 := by decide

/-- Sharpness of the domain (why `stOk`'s bound 750000·channels is NOT enough for `bytes_target`, opus_encoder.c:1867
    `st->bitrate_bps * frame_size`): a state inside `stOk` with 1 500 000 b/s and a 60 ms SILK frame at 48 kHz makes the product
    leave `int`.  The ctl layer really clamps to 300000·channels (opus_encoder.c:2690), for which 600000·2880 fits. -/
theorem bytes_target_needs_ctl_clamp :
    (∃ s : St, stOk s = true ∧ legalFrame s.fs 2880 = true ∧ ¬ Fits32 (s.userBitrate * 2880)) ∧
    Fits32 (300000 * 2 * 2880) := by
  refine ⟨⟨{ (default : St) with fs := 48000, channels := 2, userBitrate := 1500000, userForcedMode := OPUS_AUTO, userBandwidth := OPUS_AUTO, maxBandwidth := BW_FB, forceChannels := OPUS_AUTO, streamChannels := 2, bandwidth := BW_FB, mode := MODE_SILK_ONLY }, by decide, by decide, by decide⟩, by decide⟩

/-- FINDING (unchanged code): `max_len_sum = nb_frames + repacketize_len - max_header_bytes` (opus_encoder.c:1681) leaves `int`
    for an admitted call: VBR, 48 kHz, 40 ms in a non-SILK mode (2 frames), `out_data_bytes = INT_MAX` — the entry
    `nb_frames + repacketize_len` of `mlTrace` is 2^31+1.  (UBSan confirms on the real library; see the report.) -/
theorem max_len_sum_overflows :
    ∃ s : St, stOk s = true ∧ legalFrame s.fs 1920 = true ∧ isMulti s 1920 = true ∧
      ¬ (∀ x ∈ mlTrace s 1920 2147483647 (-1), Fits32 x) := by
  refine ⟨{ (default : St) with fs := 48000, channels := 2, useVbr := 1, userBitrate := 64000, userForcedMode := OPUS_AUTO, userBandwidth := OPUS_AUTO, maxBandwidth := BW_FB, forceChannels := OPUS_AUTO, streamChannels := 2, bandwidth := BW_FB, mode := MODE_CELT_ONLY }, by decide, by decide, by decide, ?_⟩
  intro h
  exact absurd (h 2147483649 (by decide)) (by decide)

end OpusProps.C05Ranges
