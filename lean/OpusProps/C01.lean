import OpusProofs.DecSkelApi
import OpusProofs.DecSkelMs
import OpusProofs.DecSkelMsFull
import OpusProofs.DecSkelRanges
import OpusProofs.DecSkelShift
import OpusProofs.CeltIdx
import OpusProofs.CeltIdxCalls
import OpusProofs.DecSkelMsDur
import OpusProofs.CeltCallees
/-
  Property C01 — "Decoding is total and memory-safe for arbitrary packets and call histories".

  Model:  `Opus.DecSkel`  — the CONTROL skeleton of src/opus_decoder.c (`opus_decode_native`,
          `opus_decode_frame`, the three format wrappers, reset / set-gain / init) on top of the C06
          parser model `Opus.Framing.parseImpl`.  The SILK / CELT synthesis and the range-decoder
          symbol calls are ORACLES; theorems quantify over ALL oracles within the contracts
          `OracleOk` (each contract is asserted on every explored call by harness/c01_decskel.c).
  Spec:   `Opus.DecSkel.Spec`  — `DecInv` (decoder invariant), `OracleOk`, `EvOk` / `EvGood`
          (a logged inner call has legal arguments and an extent inside its buffer), `RetOk`,
          `nativeRet` (the return value as a pure function of the arguments).

  A result `Out.ret v` means the call RETURNS `v`: `Out.abort` (a `celt_assert` of the skeleton fires)
  and `Out.hang` (a `do … while` loop makes no progress) are separate outcomes, so every theorem
  that concludes `… = .ret v` also states that no assertion is reachable and that all loops
  terminate.  All loops of the model are defined by well-founded recursion without fuel.
-/
namespace OpusProps.C01
open Opus Opus.Framing Opus.DecSkel

/-- A decoder state right after `opus_decoder_init` (any legal rate / channel count) satisfies the
    invariant. -/
theorem DecInv_init (fs ch : Int) (st : DecState) (h : init fs ch = some st) : DecInv st :=
  init_inv h

example : ∃ st, init 48000 2 = some st := ⟨_, rfl⟩
example : init 44100 2 = none := rfl

/-- "Any prior call": one call of any kind (decode through any of the three entry points or through
    `opus_decode_native` incl. self-delimited framing, loss, FEC, reset, set-gain; any arguments
    whatsoever) keeps the invariant, for every oracle behaviour within the contracts. -/
theorem DecInv_step (o : Oracle) (ho : OracleOk o) (st : DecState) (h : DecInv st) (c : Call) (hc : c.WF) :
    DecInv (stepCall o st c) :=
  stepCall_inv ho h c hc

example : OracleOk exOracle := exOracle_ok
example : (Call.decode .i16 (some [120, 1, 2, 3]) 4 960 0).WF := by intro bs h; cases h; decide
example : (Call.decode .f32 none 0 (-7) 5).WF := by intro bs h; cases h

/-- "All finite sequences of prior decode / loss / FEC / reset / gain calls on the same state":
    the invariant holds after every history from a freshly initialised decoder, whatever the DSP
    oracles answer within their contracts (a different oracle per call is allowed). -/
theorem decodeNative_history (os : Nat → Oracle) (hos : ∀ i, OracleOk (os i)) (fs ch : Int) (st0 : DecState)
    (hinit : init fs ch = some st0) (cs : List Call) (hcs : ∀ c ∈ cs, c.WF) :
    DecInv (runHistory os 0 st0 cs) :=
  runHistory_inv hos cs 0 st0 (init_inv hinit) hcs

example : ∀ c ∈ [Call.decode .i16 (some [120, 1, 2, 3]) 4 960 0, Call.reset, Call.gain 70000,
    Call.native none 0 5760 1 true false], c.WF := by
  intro c hc
  simp only [List.mem_cons, List.mem_nil_iff, or_false] at hc
  rcases hc with rfl | rfl | rfl | rfl
  · intro bs h; cases h; decide
  · trivial
  · trivial
  · intro bs h; cases h

/-- Return-value clause for `opus_decode_native`: for EVERY state satisfying the invariant (hence
    after every history), every packet or NULL, every `len`, `frame_size`, `decode_fec`,
    `self_delimited`, `soft_clip`, and every oracle behaviour within the contracts, the call
    returns (no `celt_assert` of the skeleton fires — `validate_opus_decoder`, :422, :538, :736,
    :773, :808 —, no loop spins) and the value is `OPUS_BAD_ARG`, `OPUS_BUFFER_TOO_SMALL`,
    `OPUS_INVALID_PACKET` or `n` with `0 < n ≤ frame_size`; never `OPUS_INTERNAL_ERROR`. -/
theorem decodeNative_ret (o : Oracle) (ho : OracleOk o) (r : Run) (hinv : DecInv r.st) (hlog : r.log = [])
    (data : Option Bytes) (hb : ∀ bs, data = some bs → BytesOk bs) (len : Int) (pcm : Ptr) (frame_size fec : Int)
    (sd sc : Bool) (hbuf : pcm.buf = .pcm) (hroom : 0 ≤ pcm.off ∧ pcm.off + frame_size * r.st.channels ≤ pcm.cap) :
    ∃ v, (decodeNative o data len pcm frame_size fec sd sc r).ret = .ret v ∧ RetOk frame_size v :=
  ⟨_, (decodeNative_spec ho ⟨hinv, rfl, rfl, by intro e he; rw [hlog] at he; cases he⟩ data hb len pcm frame_size fec sd sc
        hroom (ptrCap_of_pcm hbuf)).ret,
    nativeRet_retOk hinv.fs data hb len frame_size fec sd⟩

example : ∃ st, init 16000 1 = some st ∧ DecInv st := ⟨_, rfl, init_inv (fs := 16000) (ch := 1) rfl⟩

/-- The return value is the pure function `nativeRet` of the arguments and of the sampling rate:
    it depends neither on the decoder history nor on anything the SILK / CELT synthesis does. -/
theorem decodeNative_ret_pure (o : Oracle) (ho : OracleOk o) (r : Run) (hinv : DecInv r.st) (hlog : r.log = [])
    (data : Option Bytes) (hb : ∀ bs, data = some bs → BytesOk bs) (len : Int) (pcm : Ptr) (frame_size fec : Int)
    (sd sc : Bool) (hbuf : pcm.buf = .pcm) (hroom : 0 ≤ pcm.off ∧ pcm.off + frame_size * r.st.channels ≤ pcm.cap) :
    (decodeNative o data len pcm frame_size fec sd sc r).ret = .ret (nativeRet r.st data len frame_size fec sd) :=
  (decodeNative_spec ho ⟨hinv, rfl, rfl, by intro e he; rw [hlog] at he; cases he⟩ data hb len pcm frame_size fec sd sc
    hroom (ptrCap_of_pcm hbuf)).ret

/-- Non-vacuity: a hybrid fullband 20 ms code-0 packet decodes to 960 samples at 48 kHz, the same
    packet into a 959-sample buffer is OPUS_BUFFER_TOO_SMALL, a code-3 packet with zero frames is
    OPUS_INVALID_PACKET, 7 samples of concealment is OPUS_BAD_ARG. -/
example : ∀ st, init 48000 2 = some st → nativeRet st (some [120, 1, 2, 3]) 4 960 0 false = 960 := by
  intro st h; cases h; decide
example : ∀ st, init 48000 2 = some st → nativeRet st (some [120, 1, 2, 3]) 4 959 0 false = BUFFER_TOO_SMALL := by
  intro st h; cases h; decide
example : ∀ st, init 48000 2 = some st → nativeRet st (some [123, 0]) 2 960 0 false = INVALID_PACKET := by
  intro st h; cases h; decide
example : ∀ st, init 48000 2 = some st → nativeRet st none 0 7 0 false = BAD_ARG := by
  intro st h; cases h; decide

/-- Inner-call clause: every `silk_Decode` call the skeleton makes has
    `payloadSize_ms ∈ {10,20,40,60}`, `internalSampleRate ∈ {8000,12000,16000}`,
    `nChannelsInternal ∈ {1,2}` (the conditions under which dec_API.c:159-207 neither asserts nor
    fails); every `celt_decode_with_ec(_dred)` call has a frame size of 2.5/5/10/20 ms at the
    decoder rate and `0 ≤ len ≤ 1275` and is given at most the bytes of the frame being decoded
    (`len ≤ avail`); `ec_dec_init` gets `2 ≤ len ≤ 1275` bytes at a non-negative packet offset. -/
theorem decodeNative_oracle_args (o : Oracle) (ho : OracleOk o) (r : Run) (hinv : DecInv r.st) (hlog : r.log = [])
    (data : Option Bytes) (hb : ∀ bs, data = some bs → BytesOk bs) (len : Int) (pcm : Ptr) (frame_size fec : Int)
    (sd sc : Bool) (hbuf : pcm.buf = .pcm) (hroom : 0 ≤ pcm.off ∧ pcm.off + frame_size * r.st.channels ≤ pcm.cap) :
    ∀ e ∈ (decodeNative o data len pcm frame_size fec sd sc r).run.log, EvOk e :=
  fun e he => ((decodeNative_spec ho ⟨hinv, rfl, rfl, by intro e he; rw [hlog] at he; cases he⟩ data hb len pcm frame_size
    fec sd sc hroom (ptrCap_of_pcm hbuf)).good.log e he).1

/-- Write-extent clause: every PCM extent touched during the call — what `silk_Decode` and
    `celt_decode_with_ec` write (`nSamplesOut·channels`, `frame_size·channels`), every loop of the
    skeleton itself over a PCM buffer (zero fill, copies, cross-fades, gain) and the soft clip —
    lies inside the buffer it points into, and that buffer is either the caller's
    (`pcm.cap` samples, of which the call may use `frame_size·channels` from `pcm.off`) or a stack
    buffer of exactly the size `opus_decode_frame` allocates for it (`pcm_silk`: 10 ms,
    `pcm_transition_*` and `redundant_audio`: 5 ms, times `channels`). -/
theorem decodeNative_writes (o : Oracle) (ho : OracleOk o) (r : Run) (hinv : DecInv r.st) (hlog : r.log = [])
    (data : Option Bytes) (hb : ∀ bs, data = some bs → BytesOk bs) (len : Int) (pcm : Ptr) (frame_size fec : Int)
    (sd sc : Bool) (hbuf : pcm.buf = .pcm) (hroom : 0 ≤ pcm.off ∧ pcm.off + frame_size * r.st.channels ≤ pcm.cap) :
    ∀ e ∈ (decodeNative o data len pcm frame_size fec sd sc r).run.log, ∀ p n, e.extent? = some (p, n) →
      (0 ≤ p.off ∧ 0 ≤ n ∧ p.off + n ≤ p.cap) ∧ PtrCapOk r.st pcm.cap p :=
  fun e he _ _ hx => evGood_extent ((decodeNative_spec ho ⟨hinv, rfl, rfl, by intro e he; rw [hlog] at he; cases he⟩ data hb
    len pcm frame_size fec sd sc hroom (ptrCap_of_pcm hbuf)).good.log e he) hx

/-- Duration clause: valid framing (the C06 parser accepts: `parseImpl … = .ok p`), no FEC, and a
    buffer with room for `count · samples_per_frame` ⇒ that is what the call returns and what
    `OPUS_GET_LAST_PACKET_DURATION` reports afterwards. -/
theorem decodeNative_duration (o : Oracle) (ho : OracleOk o) (r : Run) (hinv : DecInv r.st) (hlog : r.log = [])
    (bs : Bytes) (hb : BytesOk bs) (hne : bs ≠ []) (pcm : Ptr) (frame_size : Int) (sd sc : Bool) (p : Parsed)
    (hparse : parseImpl sd bs = .ok p)
    (hfit : (p.count : Int) * (samplesPerFrame (bs.headD 0) r.st.Fs.toNat : Int) ≤ frame_size)
    (hbuf : pcm.buf = .pcm) (hroom : 0 ≤ pcm.off ∧ pcm.off + frame_size * r.st.channels ≤ pcm.cap) :
    (decodeNative o (some bs) bs.length pcm frame_size 0 sd sc r).ret =
        .ret ((p.count : Int) * (samplesPerFrame (bs.headD 0) r.st.Fs.toNat : Int)) ∧
    (decodeNative o (some bs) bs.length pcm frame_size 0 sd sc r).run.st.last_packet_duration =
        (p.count : Int) * (samplesPerFrame (bs.headD 0) r.st.Fs.toNat : Int) ∧
    0 < (p.count : Int) * (samplesPerFrame (bs.headD 0) r.st.Fs.toNat : Int) := by
  have h := decodeNative_spec ho ⟨hinv, rfl, rfl, by intro e he; rw [hlog] at he; cases he⟩ (some bs)
    (by intro b hb'; cases hb'; exact hb) bs.length pcm frame_size 0 sd sc hroom (ptrCap_of_pcm hbuf)
  have hlen : (bs.length : Int) ≠ 0 := by
    cases bs with
    | nil => exact absurd rfl hne
    | cons a t => simp only [List.length_cons]; omega
  have hval : nativeRet r.st (some bs) bs.length frame_size 0 sd =
      (p.count : Int) * (samplesPerFrame (bs.headD 0) r.st.Fs.toNat : Int) := by
    unfold nativeRet
    have h1 : ¬ ((0 : Int) < 0 ∨ (0 : Int) > 1) := by omega
    have h2 : ¬ (((0 : Int) ≠ 0 ∨ (bs.length : Int) = 0 ∨ (some bs).isNone = true) ∧ cmod frame_size (r.st.Fs / 400) ≠ 0) := by
      simp [hne]
    have h3 : ¬ ((bs.length : Int) = 0 ∨ (some bs).isNone = true) := by simp [hne]
    have h4 : ¬ (bs.length : Int) < 0 := by omega
    rw [if_neg h1, if_neg h2, if_neg h3, if_neg h4]
    simp only [Option.getD_some, Int.toNat_natCast, List.take_length, hparse]
    have h5 : ¬ (0 : Int) ≠ 0 := by simp
    rw [if_neg h5, if_neg (by omega)]
  rw [hval] at h
  have hpos : 0 < (p.count : Int) * (samplesPerFrame (bs.headD 0) r.st.Fs.toNat : Int) := by
    obtain ⟨_, hc1, _⟩ := OpusProps.C06.parse_in_bounds sd bs hb p hparse
    obtain ⟨htoc, hm0, _⟩ := toc_ok hinv.fs (headD_lt hb)
    obtain ⟨u, hu⟩ := units_of_fs hinv.fs
    have := tocOk_pfs htoc hu.u400 hm0
    have := hu.pos
    exact Int.mul_pos (by omega) (by omega)
  exact ⟨h.ret, h.lpd hpos, hpos⟩

example : parseImpl false [120, 1, 2, 3] = .ok ⟨120, 1, [3], 1, 0, 4⟩ := by decide

/-- Concealment / FEC duration clause (shared with C09): with no packet (`data = NULL` or `len = 0`),
    or with `decode_fec = 1` on a packet with valid framing, a positive `frame_size` that is a
    multiple of 2.5 ms is returned exactly and becomes the last packet duration. -/
theorem decodeNative_plc_duration (o : Oracle) (ho : OracleOk o) (r : Run) (hinv : DecInv r.st) (hlog : r.log = [])
    (data : Option Bytes) (hb : ∀ bs, data = some bs → BytesOk bs) (len : Int) (pcm : Ptr) (frame_size fec : Int)
    (sd sc : Bool) (hbuf : pcm.buf = .pcm) (hroom : 0 ≤ pcm.off ∧ pcm.off + frame_size * r.st.channels ≤ pcm.cap)
    (hfec : fec = 0 ∨ fec = 1) (hpos : 0 < frame_size) (hmul : frame_size % (r.st.Fs / 400) = 0)
    (hcase : (len = 0 ∨ data = none) ∨
      (fec = 1 ∧ 0 < len ∧ ∃ p, parseImpl sd ((data.getD []).take len.toNat) = .ok p)) :
    (decodeNative o data len pcm frame_size fec sd sc r).ret = .ret frame_size ∧
    (decodeNative o data len pcm frame_size fec sd sc r).run.st.last_packet_duration = frame_size := by
  have h := decodeNative_spec ho ⟨hinv, rfl, rfl, by intro e he; rw [hlog] at he; cases he⟩ data hb len pcm frame_size fec
    sd sc hroom (ptrCap_of_pcm hbuf)
  obtain ⟨u, hu⟩ := units_of_fs hinv.fs
  have hcm : cmod frame_size (r.st.Fs / 400) = 0 := by rw [cmod_nonneg (by omega)]; exact hmul
  have hplc : plcRet r.st frame_size = frame_size := by
    rcases plcRet_cases hu hcm with ⟨_, h2⟩ | ⟨h1, _⟩
    · exact h2
    · omega
  have hval : nativeRet r.st data len frame_size fec sd = frame_size := by
    unfold nativeRet
    have h1 : ¬ (fec < 0 ∨ fec > 1) := by omega
    have h2 : ¬ ((fec ≠ 0 ∨ len = 0 ∨ data.isNone = true) ∧ cmod frame_size (r.st.Fs / 400) ≠ 0) := by
      intro hh; exact hh.2 hcm
    rw [if_neg h1, if_neg h2]
    rcases hcase with hc | ⟨hf, hl, p, hp⟩
    · have h3 : len = 0 ∨ data.isNone = true := by
        rcases hc with h | h
        · exact Or.inl h
        · right; rw [h]; rfl
      rw [if_pos h3]; exact hplc
    · by_cases h3 : len = 0 ∨ data.isNone = true
      · rw [if_pos h3]; exact hplc
      · rw [if_neg h3, if_neg (by omega)]
        simp only [hp]
        rw [if_pos (by omega)]; exact hplc
  rw [hval] at h
  exact ⟨h.ret, h.lpd hpos⟩

example : (960 : Int) % (48000 / 400) = 0 := by decide

/-- Errors leave the decoder alone: when `opus_decode_native` returns a negative code, the decoder
    state (and the event log: nothing was called or written) is exactly what it was. -/
theorem decodeNative_error_leaves_state (o : Oracle) (ho : OracleOk o) (r : Run) (hinv : DecInv r.st) (hlog : r.log = [])
    (data : Option Bytes) (hb : ∀ bs, data = some bs → BytesOk bs) (len : Int) (pcm : Ptr) (frame_size fec : Int)
    (sd sc : Bool) (hbuf : pcm.buf = .pcm) (hroom : 0 ≤ pcm.off ∧ pcm.off + frame_size * r.st.channels ≤ pcm.cap)
    (herr : nativeRet r.st data len frame_size fec sd < 0) :
    (decodeNative o data len pcm frame_size fec sd sc r).run = r :=
  (decodeNative_spec ho ⟨hinv, rfl, rfl, by intro e he; rw [hlog] at he; cases he⟩ data hb len pcm frame_size fec sd sc
    hroom (ptrCap_of_pcm hbuf)).err herr

/-- The public entry points `opus_decode` / `opus_decode24` / `opus_decode_float` (any `frame_size`,
    including ≤ 0; no assumption on the caller's buffer beyond its documented size): the call
    returns a documented error or `0 < n ≤ frame_size`; the invariant is kept; every inner call is
    legal and every access lies inside a buffer of at most `frame_size·channels` samples (the
    caller's buffer for float, the stack buffer `out` for 16/24-bit) or the right scratch buffer;
    `last_packet_duration` is the sample count on success and the state is untouched on error. -/
theorem decodeApi_ret (o : Oracle) (ho : OracleOk o) (st : DecState) (hinv : DecInv st) (fmt : Fmt)
    (data : Option Bytes) (hb : ∀ bs, data = some bs → BytesOk bs) (len frame_size fec : Int) :
    ∃ v cap0, (decodeApi o fmt data len frame_size fec { st := st, k := 0, log := [] }).ret = .ret v ∧ RetOk frame_size v ∧
      cap0 ≤ max 0 frame_size * st.channels ∧
      DecInv (decodeApi o fmt data len frame_size fec { st := st, k := 0, log := [] }).run.st ∧
      (∀ e ∈ (decodeApi o fmt data len frame_size fec { st := st, k := 0, log := [] }).run.log, EvGood st cap0 e) ∧
      (0 < v → (decodeApi o fmt data len frame_size fec { st := st, k := 0, log := [] }).run.st.last_packet_duration = v) ∧
      (v < 0 → (decodeApi o fmt data len frame_size fec { st := st, k := 0, log := [] }).run = { st := st, k := 0, log := [] }) := by
  obtain ⟨v, cap0, h1, h2, h3, h4, h5, h6⟩ := decodeApi_spec ho hinv fmt data hb len frame_size fec
  exact ⟨v, cap0, h1, h2, h3, h4.inv, h4.log, h5, h6⟩

/-- Termination / recursion-depth clause.  `opus_decode_frame` calls itself (PLC chunk loop :334,
    transition concealment :376 / :514) only with `data = NULL` and at most 20 ms, and such a call
    never reaches its own recursive call: whatever stands for the inner call is irrelevant.  Hence
    the recursion depth is at most two and the model's two-layer unrolling (`nullFrame` over
    `nullFrameLeaf`, whose inner call is an unreachable stub) is exact.  The chunk loop itself
    (`plcLoop`) and the outer loops (`nativePlcLoop`, `silkLoop`) are accepted by Lean's
    termination checker by well-founded recursion on the remaining sample count — no fuel. -/
theorem plc_chunk_recursion_depth (o : Oracle) (i1 i2 : Ptr → Int → Run → Res') (pcm : Ptr) (n : Int) (r : Run)
    (hn : n ≤ F20 r.st) : nullFrameGen o i1 pcm n r = nullFrameGen o i2 pcm n r :=
  nullFrameGen_inner_irrel o i1 i2 pcm n r hn

example : ∀ st, init 48000 1 = some st → (960 : Int) ≤ F20 st := by intro st h; cases h; decide

/-- Multistream (P1): `opus_multistream_decode_native` with its per-stream `opus_decode_native` calls
    as contract-bound oracles — each returns a documented error or `0 < n ≤` the clamped
    `frame_size` (what `decodeNative_ret` proves of the single-stream skeleton) and reports the
    `packet_offset` the validation pass computed for its stream.  Then, for every packet, `len`,
    `frame_size` and stream count, the result is `OPUS_BAD_ARG`, `OPUS_BUFFER_TOO_SMALL`,
    `OPUS_INVALID_PACKET` or `0 < n ≤ frame_size`: the `OPUS_INTERNAL_ERROR` return of
    opus_multistream_decoder.c:247-251 is unreachable after a successful
    `opus_multistream_packet_validate`, and no stream is ever handed `len ≤ 0` with a packet. -/
theorem msDecode_ret (no : NativeOracle) (Fs : Int) (hFs : FsOk Fs) (nb : Nat) (bs : Bytes) (hb : BytesOk bs)
    (len frame_size : Int) (hlen : len ≤ bs.length)
    (hno : MsOracleOk no nb (msOffs nb (bs.take len.toNat)) (min frame_size (Fs / 25 * 3))) :
    RetOk frame_size (msDecode no Fs nb bs len frame_size).1 :=
  msDecode_retOk no Fs nb bs hb len frame_size hlen hno (by unfold FsOk at hFs; omega)

example : MsOracleOk (fun _ => (960, 4)) 1 (msOffs 1 ([120, 1, 2, 3].take (4 : Int).toNat)) (min 960 (48000 / 25 * 3)) :=
  { ret := fun s hs => by
      have : s = 0 := by omega
      subst this; right; right; right; decide
    po := fun s hs => by
      have : s = 0 := by omega
      subst this; decide }

/-- Multistream / projection, UNCONDITIONAL (the composition theorem): `opus_multistream_decode_native` with its REAL
    per-stream calls — stream `s` decoded by the single-stream skeleton `decodeNative` on its own state and DSP oracle,
    from the bytes left by the previous streams, self-delimited framing for all but the last stream, into `buf`
    (`2·frame_size` samples).  For every layout, every packet / `len` / `frame_size` / `decode_fec`, every stream state
    satisfying the decoder invariant and every oracle within the contracts: the call returns (no assertion, no hang)
    `OPUS_BAD_ARG`, `OPUS_BUFFER_TOO_SMALL`, `OPUS_INVALID_PACKET` or `0 < n ≤ frame_size` — the
    `OPUS_INTERNAL_ERROR` of :247-251 is unreachable — and every stream state satisfies the invariant afterwards (so
    this holds after every history of multistream calls).  `opus_projection_decode*` is this function with another
    `copy_channel_out` (opus_projection_decoder.c:239-264). -/
theorem msDecodeFull_ret (os : Nat → Oracle) (hos : ∀ s, OracleOk (os s)) (l : Layout.ChannelLayout) (Fs : Int) (hFs : FsOk Fs)
    (sts : List DecState) (hsts : ∀ st ∈ sts, DecInv st ∧ st.Fs = Fs) (hn : sts.length = l.nbStreams) (bs : Bytes)
    (hb : BytesOk bs) (len frame_size fec : Int) (hlen : len ≤ bs.length) (sc : Bool) :
    ∃ v, (msDecodeFull os l Fs sts bs len frame_size fec sc).ret = .ret v ∧ RetOk frame_size v ∧
      (msDecodeFull os l Fs sts bs len frame_size fec sc).sts.length = l.nbStreams ∧
      (∀ st ∈ (msDecodeFull os l Fs sts bs len frame_size fec sc).sts, DecInv st ∧ st.Fs = Fs) := by
  obtain ⟨v, h1, h2, h3, h4⟩ := msDecodeFull_spec hos l Fs hFs sts hsts hn bs hb len frame_size fec hlen sc
  exact ⟨v, h1, h2, h3, h4.sts⟩

example : ∃ st, init 48000 2 = some st ∧ ∀ x ∈ [st], DecInv x ∧ x.Fs = 48000 :=
  ⟨_, rfl, fun x hx => by simp only [List.mem_singleton] at hx; subst hx; exact ⟨init_inv (fs := 48000) (ch := 2) rfl, rfl⟩⟩

/-- Multistream / projection write extents.  (1) Every access logged by every per-stream call (SILK / CELT writes,
    the skeleton's own loops, soft clip) lies inside `buf` (`2·min(frame_size, 120 ms)` samples) or the scratch buffer
    allocated for it, and has legal inner-call arguments.  (2) Every `copy_channel_out` call addresses an output channel
    `< nb_channels` with `0 < count ≤ min(frame_size, 120 ms)`; hence for every sample index `i` below that count the
    plain copy-out writes `dst[i·nb_channels + chan]` inside the caller's `frame_size·nb_channels` samples, the
    projection copy-out (which writes a whole row `dst[i·nb_channels + row]`, `row < nb_channels`, and clears
    `count·nb_channels` samples) likewise, and the source read `buf[2·i (+1)]` / `buf[i]` lies inside `buf`. -/
theorem msDecode_writes (os : Nat → Oracle) (hos : ∀ s, OracleOk (os s)) (l : Layout.ChannelLayout) (Fs : Int) (hFs : FsOk Fs)
    (sts : List DecState) (hsts : ∀ st ∈ sts, DecInv st ∧ st.Fs = Fs) (hn : sts.length = l.nbStreams) (bs : Bytes)
    (hb : BytesOk bs) (len frame_size fec : Int) (hlen : len ≤ bs.length) (sc : Bool) :
    (∀ lg ∈ (msDecodeFull os l Fs sts bs len frame_size fec sc).logs, ∃ st0, DecInv st0 ∧ st0.Fs = Fs ∧
      ∀ e ∈ lg, EvOk e ∧ ∀ p n, e.extent? = some (p, n) →
        (0 ≤ p.off ∧ 0 ≤ n ∧ p.off + n ≤ p.cap) ∧ PtrCapOk st0 (2 * min frame_size (Fs / 25 * 3)) p) ∧
    (∀ c ∈ (msDecodeFull os l Fs sts bs len frame_size fec sc).copies,
      c.chan < l.nbChannels ∧ 0 < c.frameSize ∧ c.frameSize ≤ min frame_size (Fs / 25 * 3) ∧
      ∀ i : Int, 0 ≤ i → i < c.frameSize → ∀ row : Int, 0 ≤ row → row < (l.nbChannels : Int) →
        0 ≤ i * (l.nbChannels : Int) + row ∧ i * (l.nbChannels : Int) + row < frame_size * (l.nbChannels : Int) ∧
        2 * i + 1 < 2 * min frame_size (Fs / 25 * 3)) := by
  obtain ⟨v, _, _, _, h4⟩ := msDecodeFull_spec hos l Fs hFs sts hsts hn bs hb len frame_size fec hlen sc
  refine ⟨?_, ?_⟩
  · intro lg hlg
    obtain ⟨st0, a1, a2, a3⟩ := h4.logs lg hlg
    exact ⟨st0, a1, a2, fun e he => ⟨(a3 e he).1, fun p n hx => evGood_extent (a3 e he) hx⟩⟩
  · intro c hc
    obtain ⟨c1, c2, c3⟩ := h4.copies c hc
    refine ⟨c1, c2, c3, ?_⟩
    intro i hi0 hi row hr0 hr
    have := copy_index_bounds i c.frameSize (min frame_size (Fs / 25 * 3)) (l.nbChannels : Int) row ⟨hi0, hi⟩ c3 ⟨hr0, hr⟩
    have hle : min frame_size (Fs / 25 * 3) * (l.nbChannels : Int) ≤ frame_size * (l.nbChannels : Int) :=
      Int.mul_le_mul_of_nonneg_right (by omega) (by omega)
    exact ⟨this.1, by omega, this.2.2.2⟩

/-- The link to the tied skeleton: `msDecode` (the oracle-based multistream skeleton whose return value, per-stream
    call arguments and `buf` size are compared with the C code on every run), fed with the answers of the real
    per-stream calls, returns what the composed model returns and makes the same per-stream calls. -/
theorem msDecode_refines (os : Nat → Oracle) (l : Layout.ChannelLayout) (Fs : Int) (sts : List DecState)
    (hn : sts.length = l.nbStreams) (bs : Bytes) (len frame_size fec : Int) (sc : Bool) (v : Int)
    (hret : (msDecodeFull os l Fs sts bs len frame_size fec sc).ret = .ret v) :
    (msDecode (noOfRun os l fec sc (decide (len = 0)) (2 * min frame_size (Fs / 25 * 3)) sts 0 bs len (min frame_size (Fs / 25 * 3)))
        Fs l.nbStreams bs len frame_size).1 = v ∧
    (0 < frame_size →
      (msDecode (noOfRun os l fec sc (decide (len = 0)) (2 * min frame_size (Fs / 25 * 3)) sts 0 bs len (min frame_size (Fs / 25 * 3)))
        Fs l.nbStreams bs len frame_size).2.1 = (msDecodeFull os l Fs sts bs len frame_size fec sc).mscalls) :=
  msDecodeFull_refines os l Fs sts hn bs len frame_size fec sc v hret

/-- C `int` ranges.  The model computes with unbounded integers; on the domain the entry checks and the invariant
    guarantee — the caller's buffer of `frame_size·channels` samples exists (so that product is an `int`), `len` is an
    `opus_int32`, `DecInv`, the parser's bounds — every product / sum / difference formed by the skeleton fits 32 bits:
    (a) the rate-derived sizes and scratch-buffer sizes; (b) `pcm_count·channels`, `frame_size − pcm_count`,
    `channels·(frame_size − packet_frame_size)` of the concealment loop and the FEC branch; (c) `count·packet_frame_size`
    (≤ 48·2880), `nb_samples·channels`, frame sizes ≤ 1275 and frame offsets below the packet length;
    (d) `audiosize·channels`, `1000·audiosize/Fs`; (e) the redundancy arithmetic on `len ≤ 1275`; (f) the 16/24-bit
    wrappers' stack buffer for requests up to one second; (g) multistream `2·frame_size`, `2·nb_streams − 1`. -/
theorem int_ranges (st : DecState) (h : DecInv st) :
    (I32 (F20 st) ∧ I32 (st.Fs / 25 * 3) ∧ st.Fs / 25 * 3 ≤ 5760 ∧ 0 ≤ st.frame_size ∧ st.frame_size ≤ 2880 ∧
      I32 (F10 st * st.channels) ∧ I32 (F5 st * st.channels)) ∧
    (∀ frame_size done : Int, I32 (frame_size * st.channels) → 0 ≤ done → done ≤ frame_size →
      I32 (done * st.channels) ∧ I32 (frame_size - done) ∧ I32 (st.channels * (frame_size - done))) ∧
    (∀ (bs : Bytes) (sd : Bool) (p : Parsed) (frame_size : Int), BytesOk bs → (bs.length : Int) ≤ 2147483647 →
      parseImpl sd bs = .ok p → I32 (frame_size * st.channels) →
      (p.count : Int) * (samplesPerFrame (bs.headD 0) st.Fs.toNat : Int) ≤ 48 * 2880 ∧
      (∀ sz ∈ p.sizes, sz ≤ 1275) ∧ I32 ((p.payloadOffset : Int) + (sumN p.sizes : Int)) ∧ I32 (p.packetOffset : Int) ∧
      ((p.count : Int) * (samplesPerFrame (bs.headD 0) st.Fs.toNat : Int) ≤ frame_size → ∀ nb : Int, 0 ≤ nb →
        nb ≤ (p.count : Int) * (samplesPerFrame (bs.headD 0) st.Fs.toNat : Int) → I32 (nb * st.channels) ∧ I32 (frame_size - nb))) ∧
    (∀ audiosize : Int, 0 ≤ audiosize → audiosize ≤ 2880 →
      I32 (audiosize * st.channels) ∧ I32 (1000 * audiosize) ∧ I32 (cdiv (1000 * audiosize) st.Fs)) ∧
    (∀ len tell v : Int, 0 ≤ len ∧ len ≤ 1275 → 0 ≤ tell ∧ tell ≤ 1073741824 → 0 ≤ v ∧ v < 256 →
      I32 (tell + 17 + 20) ∧ I32 (8 * len) ∧ I32 (len - (tell + 7) / 8) ∧ I32 ((len - (v + 2)) * 8)) ∧
    (∀ frame_size : Int, 0 < frame_size → frame_size ≤ st.Fs → I32 (frame_size * st.channels)) ∧
    (∀ (frame_size : Int) (nb : Nat), 0 < frame_size → nb ≤ 255 →
      I32 (2 * min frame_size (st.Fs / 25 * 3)) ∧ I32 (2 * (nb : Int) - 1)) := by
  obtain ⟨a1, _, _, _, a5, a6, _, _, a9, a10, _, a12, a13⟩ := rate_sizes_i32 h
  refine ⟨⟨a1, a5, a6, a9, a10, a12, a13⟩, fun fs d hb h0 hle => native_offsets_i32 h fs d hb h0 hle, ?_, ?_, ?_, ?_, ?_⟩
  · intro bs sd p fs hb hl hp hbuf
    obtain ⟨_, b2, b3, b4, b5, b6⟩ := native_frames_i32 h bs hb hl sd p hp fs hbuf
    exact ⟨b2, b4, b5, b6, b3⟩
  · intro a h0 hle
    obtain ⟨c1, c2, _, c4⟩ := frame_sizes_i32 h a h0 hle
    exact ⟨c1, c2, c4⟩
  · intro len tell v hl ht hv
    obtain ⟨d1, d2, d3, d4, _⟩ := redundancy_i32 len tell v hl ht hv
    exact ⟨d1, d2, d3, d4⟩
  · intro fs h0 h1; exact (wrapper_alloc_i32 h fs h0 h1).1
  · intro fs nb h0 hnb
    obtain ⟨e1, _, e3⟩ := ms_sizes_i32 st.Fs fs nb h.fs h0 hnb
    exact ⟨e1, e3⟩

/-- The return value (and with it `last_packet_duration` on success) of `opus_decode_native` depends on the packet only
    through what the parser reports: two byte strings whose TOC bytes agree up to the two frame-count-code bits
    (`toc / 4`) and which have the same frame count — e.g. a packet and its padded / repacketised form (code 0/1/2 → code 3) — give the same `nativeRet` for the same `frame_size` / `decode_fec` / rate. -/
theorem nativeRet_depends_on_parse (st : DecState) (bs1 bs2 : Bytes) (sd1 sd2 : Bool) (p1 p2 : Parsed) (frame_size fec : Int)
    (h1 : parseImpl sd1 bs1 = .ok p1) (h2 : parseImpl sd2 bs2 = .ok p2) (htoc : bs1.headD 0 / 4 = bs2.headD 0 / 4)
    (hcount : p1.count = p2.count) :
    nativeRet st (some bs1) bs1.length frame_size fec sd1 = nativeRet st (some bs2) bs2.length frame_size fec sd2 := by
  have hne : ∀ (bs : Bytes) (sd : Bool) (p : Parsed), parseImpl sd bs = .ok p → bs ≠ [] := by
    intro bs sd p h hnil; subst hnil; simp [parseImpl] at h
  have hl1 : ¬ ((bs1.length : Int) = 0 ∨ (some bs1).isNone = true) := by
    have := hne bs1 sd1 p1 h1; simp [this]
  have hl2 : ¬ ((bs2.length : Int) = 0 ∨ (some bs2).isNone = true) := by
    have := hne bs2 sd2 p2 h2; simp [this]
  unfold nativeRet
  by_cases c1 : fec < 0 ∨ fec > 1
  · rw [if_pos c1, if_pos c1]
  rw [if_neg c1, if_neg c1]
  by_cases c2 : fec ≠ 0 ∧ cmod frame_size (st.Fs / 400) ≠ 0
  · rw [if_pos ⟨Or.inl c2.1, c2.2⟩, if_pos ⟨Or.inl c2.1, c2.2⟩]
  have d1 : ¬ ((fec ≠ 0 ∨ (bs1.length : Int) = 0 ∨ (some bs1).isNone = true) ∧ cmod frame_size (st.Fs / 400) ≠ 0) := by
    rintro ⟨h | h, hm⟩
    · exact c2 ⟨h, hm⟩
    · exact hl1 h
  have d2 : ¬ ((fec ≠ 0 ∨ (bs2.length : Int) = 0 ∨ (some bs2).isNone = true) ∧ cmod frame_size (st.Fs / 400) ≠ 0) := by
    rintro ⟨h | h, hm⟩
    · exact c2 ⟨h, hm⟩
    · exact hl2 h
  rw [if_neg d1, if_neg d2, if_neg hl1, if_neg hl2, if_neg (by omega), if_neg (by omega)]
  have hspf : samplesPerFrame (bs1.headD 0) st.Fs.toNat = samplesPerFrame (bs2.headD 0) st.Fs.toNat := by
    generalize bs1.headD 0 = t1 at htoc
    generalize bs2.headD 0 = t2 at htoc
    have e1 : t1 / 128 = t2 / 128 := by omega
    have e2 : t1 / 32 = t2 / 32 := by omega
    have e3 : t1 / 8 = t2 / 8 := by omega
    unfold samplesPerFrame
    rw [e1, e2, e3]
  simp only [Option.getD_some, Int.toNat_natCast, List.take_length, h1, h2, hspf, hcount]

/-- `opus_decode_native` depends on the packet only through what the parser reports (two-run simulation).  Two byte
    strings whose parses report the same frame sizes and count and whose TOC bytes agree up to the frame-count code
    (`toc / 4`) — a packet and its padded / unpadded / repacketised form — decoded from the same state with the same
    arguments, by DSP oracles that answer identically when the frame offset they are shown is shifted by
    `d = payloadOffset₂ − payloadOffset₁` ("the DSP reads the same frame bytes at a shifted address";
    `OracleShift`: `o2.celt k (a.shiftOff d) = o1.celt k a`, SILK / symbol oracles equal): the same return value, the
    same final decoder state and oracle-call counter, and the same inner-call / access log up to the shift of the logged
    packet offsets (`shiftRun d`: `ec_dec_init` offset and CELT data offset `+ d`; PCM pointers untouched).  Purely
    equational — no invariant, no contract; `packet_offset` itself of course differs. -/
theorem decodeNative_depends_on_parse (o1 o2 : Oracle) (bs1 bs2 : Bytes) (sd1 sd2 : Bool) (p1 p2 : Parsed)
    (hp1 : parseImpl sd1 bs1 = .ok p1) (hp2 : parseImpl sd2 bs2 = .ok p2) (hsizes : p1.sizes = p2.sizes)
    (hcount : p1.count = p2.count) (htoc : bs1.headD 0 / 4 = bs2.headD 0 / 4)
    (h : OracleShift o1 o2 ((p2.payloadOffset : Int) - (p1.payloadOffset : Int)))
    (pcm : Ptr) (frame_size fec : Int) (sc : Bool) (r : Run) :
    (decodeNative o2 (some bs2) bs2.length pcm frame_size fec sd2 sc
        (shiftRun ((p2.payloadOffset : Int) - (p1.payloadOffset : Int)) r)).ret =
      (decodeNative o1 (some bs1) bs1.length pcm frame_size fec sd1 sc r).ret ∧
    (decodeNative o2 (some bs2) bs2.length pcm frame_size fec sd2 sc
        (shiftRun ((p2.payloadOffset : Int) - (p1.payloadOffset : Int)) r)).run =
      shiftRun ((p2.payloadOffset : Int) - (p1.payloadOffset : Int)) (decodeNative o1 (some bs1) bs1.length pcm frame_size fec sd1 sc r).run :=
  decodeNative_shift bs1 bs2 sd1 sd2 p1 p2 hp1 hp2 hsizes hcount htoc h pcm frame_size fec sc r

/-- Non-vacuity: an oracle that does not look at offsets is shift-related to itself for every `d`; a code-0 packet and
    its code-3 padded form parse to the same frame list at payload offsets 1 and 3. -/
example (d : Int) : OracleShift exOracle exOracle d :=
  { silk := fun _ _ => rfl, celt := fun _ _ => rfl, bit := fun _ _ _ => rfl, uint := fun _ _ _ => rfl }
example : parseImpl false [120, 1, 2, 3] = .ok ⟨120, 1, [3], 1, 0, 4⟩ ∧
    parseImpl false [123, 65, 2, 1, 2, 3, 0, 0] = .ok ⟨123, 1, [3], 3, 2, 8⟩ ∧ (120 : Nat) / 4 = 123 / 4 := by decide

/-! ## Index-safety bridge for the CELT decoder interior (first milestone: state layout, buffer shift, post-filter)

  `OpusModel/CeltIdx.lean` transcribes index expressions of celt/celt_decoder.c and celt/celt.c by hand (file:line at
  each definition) — a trusted reading, supported by the tie `celtidx` (harness/c01_celtidx.c: calls recorded inside
  the real decoder, extents of the compiled `comb_filter` measured by NaN propagation).  Geometry constants
  (`DECODE_BUFFER_SIZE`, `MAX_PERIOD`, `COMBFILTER_MINPERIOD`, overlap, struct size / offset, element sizes) are
  regenerated from the tree on every run (`Gen.CeltIdxConsts`). -/

open Opus.CeltIdx Opus.Gen.CeltIdxConsts in
/-- **celt_state_layout.**  The arrays behind `struct OpusCustomDecoder` — `decode_mem[0..CC)`, `lpc`, `oldBandE`,
    `oldLogE`, `oldLogE2`, `backgroundLogE`, at the byte offsets celt_decoder.c:1024-1028 / :1065 computes — tile the
    allocation: each starts where the previous ends, the last ends inside `opus_custom_decoder_get_size` (:169-177;
    exactly the struct's tail padding before its end), every element of every channel buffer lies before `lpc`, and
    the size formula gives the values the library returned. -/
theorem celt_state_layout (CC : Int) :
    (memOff 0 = offMem ∧ (∀ c, memOff (c + 1) = memOff c + memLen * szSig) ∧ lpcOff CC = memOff CC ∧
      oldBandEOff CC = lpcOff CC + CC * CELT_LPC_ORDER * szVal16 ∧ oldLogEOff CC = oldBandEOff CC + 2 * nbEBands * szGlog ∧
      oldLogE2Off CC = oldLogEOff CC + 2 * nbEBands * szGlog ∧ backgroundOff CC = oldLogE2Off CC + 2 * nbEBands * szGlog ∧
      stateEnd CC = backgroundOff CC + 2 * nbEBands * szGlog ∧ stateEnd CC + (szStruct - offMem - szSig) = getSize CC) ∧
    stateEnd CC ≤ getSize CC ∧
    (∀ c i, 0 ≤ c ∧ c < CC → 0 ≤ i ∧ i < memLen →
      offMem ≤ memOff c + i * szSig ∧ memOff c + i * szSig + szSig ≤ lpcOff CC) ∧
    getSize 1 = getSize1 ∧ getSize 2 = getSize2 :=
  ⟨layout_tiles CC, stateEnd_le_getSize CC, fun _ _ hc hi => mem_elem_in_state hc hi, getSize_values⟩

open Opus.CeltIdx Opus.Gen.CeltIdxConsts in
/-- **celt_postfilter_indices_in_bounds.**  For every frame size `celt_decode_with_ec_dred` accepts
    (`N = 120·2^LM`, `LM ≤ 3`; the skeleton passes only these: `decodeNative_oracle_args`), every post-filter state the
    decoder can hold (`postfilter_period_old`, `postfilter_period` ∈ {0} ∪ [15, 1024), the set `VALIDATE_CELT_DECODER`
    asserts and `celt_postfilter_period_invariant` maintains), every decoded pitch in {0} ∪ [15, 1024) (C03
    `celtHdr_total_in_range`: [15, 1022]) and any gains / tapsets: every element either post-filter `comb_filter` call
    (:1295-1306) reads lies in `decode_mem[c][DECODE_BUFFER_SIZE−N−MAX_PERIOD−1 .. DECODE_BUFFER_SIZE)` and every
    element it writes in `decode_mem[c][DECODE_BUFFER_SIZE−N .. DECODE_BUFFER_SIZE)` — inside the channel's
    `DECODE_BUFFER_SIZE+overlap` elements (the lowest read index is `2048−960−1025 = 63 ≥ 0`). -/
theorem celt_postfilter_indices_in_bounds {N LM pOld pCur pNew : Int} (hf : LegalFrame N LM) (ho : PeriodOk pOld)
    (hc : PeriodOk pCur) (hn : PeriodOk pNew) (k : PfCall) (hk : k ∈ pfCalls N LM pOld pCur pNew) (g0z g1z gsame : Bool) :
    (k.read g0z g1z gsame).within memLen ∧ (k.write g0z g1z gsame).within memLen ∧
    (k.read g0z g1z gsame).sub (DECODE_BUFFER_SIZE - N - MAX_PERIOD - 1) (DECODE_BUFFER_SIZE - 1) ∧
    (k.write g0z g1z gsame).sub (DECODE_BUFFER_SIZE - N) (DECODE_BUFFER_SIZE - 1) := by
  have h := pfCalls_in_bounds hf ho hc hn k hk g0z g1z gsame
  have hN := legalFrame_cases hf
  have hD : (2048 : Int) = DECODE_BUFFER_SIZE := rfl
  have hM : (1024 : Int) = MAX_PERIOD := rfl
  have hv : (120 : Int) = overlap := rfl
  exact ⟨Ext.sub_within h.1 (by omega) (by unfold memLen; omega), Ext.sub_within h.2 (by omega) (by unfold memLen; omega), h.1, h.2⟩

open Opus.CeltIdx in
/-- Non-vacuity: a 20 ms frame with the extreme periods (old 1022, current 15, new 1022) makes two calls; with all
    gains non-zero the second reads `decode_mem[c][184 .. 2047]` and writes `[1208 .. 2047]`; the lowest index any
    legal combination reaches is 63 (N = 960, first call, period 1023). -/
example : pfCalls 960 3 1022 15 1022 = [⟨1088, 1022, 15, 120, 120⟩, ⟨1208, 15, 1022, 840, 120⟩] ∧
    (PfCall.read ⟨1208, 15, 1022, 840, 120⟩ false false false) = ⟨184, 2047⟩ ∧
    (PfCall.write ⟨1208, 15, 1022, 840, 120⟩ false false false) = ⟨1208, 2047⟩ ∧
    (PfCall.read ⟨1088, 1023, 15, 120, 120⟩ false false false) = ⟨63, 1207⟩ ∧
    LegalFrame 960 3 ∧ PeriodOk 1022 ∧ PeriodOk 0 := by decide

open Opus.CeltIdx Opus.Gen.CeltIdxConsts in
/-- **celt_decode_mem_shift_in_bounds.**  `OPUS_MOVE(decode_mem[c], decode_mem[c]+N, DECODE_BUFFER_SIZE−N+overlap)`
    (:1258-1260) reads and writes inside `decode_mem[c]`; its source ends exactly at the channel buffer's last element. -/
theorem celt_decode_mem_shift_in_bounds {N LM : Int} (hf : LegalFrame N LM) :
    (memMoveSrc N).within memLen ∧ (memMoveDst N).within memLen ∧ (memMoveSrc N).hi = memLen - 1 :=
  memMove_in_bounds hf

open Opus.CeltIdx in
/-- **celt_postfilter_period_invariant.**  The period pair the frame leaves in the state (:1308-1319) is again legal. -/
theorem celt_postfilter_period_invariant {LM pOld pCur pNew : Int} (hc : PeriodOk pCur) (hn : PeriodOk pNew) :
    PeriodOk (pfNext LM pOld pCur pNew).1 ∧ PeriodOk (pfNext LM pOld pCur pNew).2 :=
  pfNext_periodOk hc hn

/-! ## Index-safety bridge, second part: celt_synthesis, deemphasis, prefilter_and_fold, celt_decode_lost

  `OpusModel/CeltIdxCalls.lean`: the calls celt_decoder.c makes on its audio buffers (`Call`, compared with the calls
  recorded inside the real decoder: tie lines `celtcalls`), the extent contract of each callee (`Call.accs`; the compiled
  callees are run under the sanitizer on heap blocks holding exactly the contract's elements: tie lines `contract`) and
  the accesses of the loops written inline (hand transcription only).  `Frame.Legal`: `N = 120·2^LM`, `LM ≤ 3`, stream
  and decoder channel counts 1 / 2 in every combination, down-sampling factor 1, 2, 3, 4 or 6, one long or `2^LM` short
  blocks.  `Acc.ok f xl a`: access `a` lies inside its array, whose capacity (`Arr.cap`) is the `ALLOC` / declaration
  size in celt_decoder.c (`decode_mem[c]`: 2168, `lpc`: 24·CC, `freq`, `scratch`: N, `X`: C·N, `pcm`:
  frame_size·CC, `_exc`: 1048, `fir_tmp`: exc_length, `lp_pitch_buf`: 1024, `etmp`: 120, `lpc_mem`: 24, `ac`: 25). -/

open Opus.CeltIdx in
/-- **celt_synthesis_indices_in_bounds.**  For every legal frame, every access of `celt_synthesis` (:371-460) —
    `denormalise_bands` into `freq` (or, for a stereo stream into a mono decoder, into `out_syn[0]+overlap/2`), the parked
    copy of the spectrum in `out_syn[1]+overlap/2` for a mono stream into a stereo decoder, each `clt_mdct_backward`
    block (input `freq[b], freq[b+B], …`, output `out_syn[c]+NB·b .. +NB+overlap/2`, TDAC over the first `overlap`
    samples), the down-mix and the final saturation — lies inside its array; the highest element written is
    `decode_mem[c][DECODE_BUFFER_SIZE+overlap/2−1]`. -/
theorem celt_synthesis_indices_in_bounds {f : Frame} (hf : f.Legal) {a : Acc}
    (ha : a ∈ (synthCalls f).flatMap Call.accs ++ synthInline f) : a.ok f 0 :=
  synth_ok hf ha

open Opus.CeltIdx in
/-- **celt_deemphasis_indices_in_bounds.**  `deemphasis` (:277-369) with and without down-sampling and accumulation:
    reads `out_syn[c][0 .. N)`, writes `scratch[0 .. N)` and reads `scratch[j·downsample]`, `j < N/downsample`, writes
    (reads, when accumulating) `pcm[c + j·CC]` — all inside `scratch[N]` and the caller's `frame_size·CC` samples. -/
theorem celt_deemphasis_indices_in_bounds {f : Frame} (hf : f.Legal) (accum : Bool) {a : Acc}
    (ha : a ∈ deemphAccs f accum) : a.ok f 0 :=
  deemph_ok hf accum ha

open Opus.CeltIdx in
/-- **celt_prefilter_fold_indices_in_bounds.**  `prefilter_and_fold` (:507-541) for any post-filter periods the state can
    hold: `comb_filter(etmp, out_syn[c], T_old, T, overlap, …)` reads back at most 1025 samples before `out_syn[c]`
    (lowest index `2048−960−1025 = 63`) and writes `etmp[0 .. overlap)`; the fold writes `out_syn[c][0 .. overlap/2)`. -/
theorem celt_prefilter_fold_indices_in_bounds {f : Frame} (hf : f.Legal) {pOld pCur : Int} (ho : PeriodOk pOld)
    (hc : PeriodOk pCur) {a : Acc} (ha : a ∈ (foldCalls f pOld pCur).flatMap Call.accs ++ foldInline f) : a.ok f 0 :=
  fold_ok hf ho hc ha

open Opus.CeltIdx in
/-- **celt_plc_indices_in_bounds.**  `celt_decode_lost` (:596-962).
    Pitch-based concealment, for every pitch lag in `[PLC_PITCH_LAG_MIN, PLC_PITCH_LAG_MAX] = [100, 720]` (what
    `celt_plc_pitch_search` returns and `VALIDATE_CELT_DECODER` asserts), first or later lost frame: the pitch search
    (`pitch_downsample` over `decode_mem[c][0 .. 2048)` into `lp_pitch_buf[1024]`, `pitch_search` on
    `lp_pitch_buf+360` / `lp_pitch_buf` reaching exactly element 1023 / 973), per channel the excitation copy into
    `_exc[0 .. 1048)`, `_celt_autocorr`, `_celt_lpc` into `lpc[24c ..]`, `celt_fir` from `exc+1024−exc_length−24`
    (≥ `_exc[0]`) into `fir_tmp[exc_length]`, the decay measurement, the buffer shift, the extrapolation writing
    `buf[2048−N .. 2048+overlap)` from `exc[1024−pitch ..]` and reading `buf[2048−N−pitch ..]` (lowest index 368),
    `lpc_mem`, `celt_iir` in place over `N+overlap` samples and the energy check — all inside their arrays.
    Noise-based concealment (frame descriptor with `C = CC`, one long block): the shift, `prefilter_and_fold` when it is
    pending, and the synthesis. -/
theorem celt_plc_indices_in_bounds {f : Frame} (hf : f.Legal) :
    (∀ (pitch : Int) (first : Bool) (a : Acc), PitchOk pitch →
      a ∈ (plcPitchCalls f pitch first).flatMap Call.accs ++ (List.range f.CC.toNat).flatMap (plcPitchInlineCh f pitch) →
      a.ok f (excLen pitch)) ∧
    (f.C = f.CC → f.B = 1 → ∀ (fold : Bool) (pOld pCur : Int) (a : Acc), PeriodOk pOld → PeriodOk pCur →
      a ∈ (plcNoiseCalls f fold pOld pCur).flatMap Call.accs ++ (if fold then foldInline f else []) ++
        synthInline { f with C := f.CC, B := 1 } → a.ok f 0) :=
  ⟨fun _ first _ hp ha => plcPitch_ok hf hp first ha,
   fun hC hB fold _ _ _ ho hc ha => plcNoise_ok hf hC hB fold ho hc ha⟩

open Opus.CeltIdx in
/-- Non-vacuity: a 20 ms transient stereo frame at 8 kHz is legal and makes 2·(1+8) calls; the last MDCT block of a
    channel writes up to `decode_mem[c][2107]` (< 2168); a first lost 20 ms frame with pitch lag 100 filters
    `exc_length = 200` samples starting at `_exc[824]`, with lag 720 it starts at `_exc[0]`. -/
example : Frame.Legal ⟨960, 3, 2, 2, 6, 8⟩ ∧ (synthCalls ⟨960, 3, 2, 2, 6, 8⟩).length = 18 ∧
    (Call.mdct ⟨.freq, 7⟩ 8 ⟨.mem 1, 1928⟩ 120 120).accs.map (·.ext) = [⟨7, 959⟩, ⟨1988, 2107⟩, ⟨1928, 2047⟩, ⟨1928, 2047⟩] ∧
    PitchOk 100 ∧ PitchOk 720 ∧ excLen 100 = 200 ∧ excLen 720 = 1024 ∧
    ((plcPitchCallsCh ⟨960, 3, 1, 1, 1, 1⟩ 100 false 0).head?.map (fun c => c.accs.map (·.ext))) =
      some [⟨824, 1047⟩, ⟨0, 23⟩, ⟨0, 199⟩] ∧
    ((plcPitchCallsCh ⟨960, 3, 1, 1, 1, 1⟩ 720 false 0).head?.map (fun c => c.accs.map (·.ext))) =
      some [⟨0, 1047⟩, ⟨0, 23⟩, ⟨0, 1023⟩] := by decide

/-! ## Duration of a multistream decode -/

/-- **msDecodeFull_duration.**  A packet is present (`0 < len ≤` buffer), `decode_fec = 0`, the validation pass
    `opus_multistream_packet_validate` (C10's model `Opus.Layout.msPacketValidate`, for which C10 proves
    `ms_packet_structure`: the bytes are `n` serialised RFC-valid packets of `k` samples each) reports `k` samples on
    the first `len` bytes, and `0 < k ≤ frame_size`.  Then for every layout / mapping, every set of stream states
    satisfying the decoder invariant (hence after every history) and every DSP oracle behaviour within the contracts,
    `opus_multistream_decode_native` with the REAL per-stream calls returns exactly `k` — never an error —, and every
    stream's `last_packet_duration` is `k` afterwards.  (With it `OpusProps.EndToEndMs.ms_encode_decode_duration` composes
    C10's `ms_encode_packet_structure_skel` with this decoder.) -/
theorem msDecodeFull_duration (os : Nat → Oracle) (hos : ∀ s, OracleOk (os s)) (l : Layout.ChannelLayout) (hl : 1 ≤ l.nbStreams)
    (Fs : Int) (hFs : FsOk Fs) (sts : List DecState) (hsts : ∀ st ∈ sts, DecInv st ∧ st.Fs = Fs) (hn : sts.length = l.nbStreams)
    (bs : Bytes) (hb : BytesOk bs) (len frame_size : Int) (hlen : 0 < len ∧ len ≤ bs.length) (sc : Bool) (k : Nat)
    (hval : Layout.msPacketValidate (bs.take len.toNat) l.nbStreams Fs.toNat = .ok k) (hk : 0 < k ∧ (k : Int) ≤ frame_size) :
    (msDecodeFull os l Fs sts bs len frame_size 0 sc).ret = .ret (k : Int) ∧
    (msDecodeFull os l Fs sts bs len frame_size 0 sc).sts.length = l.nbStreams ∧
    ∀ st ∈ (msDecodeFull os l Fs sts bs len frame_size 0 sc).sts, st.last_packet_duration = (k : Int) :=
  msDecodeFull_duration_spec hos l hl Fs hFs sts hsts hn bs hb len frame_size hlen sc k hval hk

/-- Non-vacuity: two streams at 48 kHz, the packet `F8 02 07 07 | FC 09` (a self-delimited 20 ms CELT packet with one
    2-byte frame, then a standard-framing one) validates to 960 samples; with freshly initialised stream decoders and
    a 960-sample buffer the theorem applies: the call returns 960. -/
example : ∃ st1 st2, init 48000 2 = some st1 ∧ init 48000 1 = some st2 ∧
    (msDecodeFull (fun _ => exOracle) ⟨3, 2, 1, [0, 1, 2]⟩ 48000 [st1, st2] [0xF8, 2, 7, 7, 0xFC, 9] 6 960 0 false).ret = .ret 960 := by
  refine ⟨_, _, rfl, rfl, ?_⟩
  have h := msDecodeFull_duration (fun _ => exOracle) (fun _ => exOracle_ok) ⟨3, 2, 1, [0, 1, 2]⟩ (by decide) 48000 (by decide)
    [_, _] (fun x hx => by
      simp only [List.mem_cons, List.mem_nil_iff, or_false] at hx
      rcases hx with rfl | rfl
      · exact ⟨init_inv (fs := 48000) (ch := 2) rfl, rfl⟩
      · exact ⟨init_inv (fs := 48000) (ch := 1) rfl, rfl⟩) rfl
    [0xF8, 2, 7, 7, 0xFC, 9] (by decide) 6 960 (by decide) false 960 (by decide +kernel) (by decide)
  exact h.1

/-! ## Index-safety bridge, third part: callee contracts discharged from the callee code

  `OpusModel/CeltCallees.lean` lists, loop by loop, every element the C reference implementations of `celt_fir_c`,
  `celt_iir`, `_celt_autocorr` (with `celt_pitch_xcorr_c`, `xcorr_kernel_c`, `celt_inner_prod_c`), `_celt_lpc` and
  `pitch_downsample` (with `celt_fir5`) touch — argument arrays and local arrays (hand transcription, file:line cited).
  `InB B h`: hit `h` lies inside the bounds `B` gives for its array; an array with bounds `(1, 0)` must not be touched. -/

open Opus.CeltCallees in
/-- **celt_callee_contracts.**  For ALL argument values within the routines' own preconditions, every element touched
    lies inside the extent contract the bridge assumes for the routine (`Opus.CeltIdx.Call.accs`, see the examples below)
    and inside the routine's local arrays:
    `celt_fir_c`: `x[−ord .. N)`, `num[0 .. ord)`, `y[0 .. N)`, local `rnum[ord]` (`N ≥ 0`, `ord ≥ 3`);
    `celt_iir`: `x[0 .. N)`, `den[0 .. ord)`, `y[0 .. N)`, `mem[0 .. ord)`, locals `rden[ord]`, `y[N+ord]` (`3 ≤ ord ≤ N`);
    `_celt_autocorr`: `x[0 .. n)`, `ac[0 .. lag]`, `window[0 .. overlap)`, local `xx[n]` (`0 ≤ overlap ≤ n`, `lag ≥ 0`,
    `n − lag ≥ 3`);  `_celt_lpc`: `lpc[0 .. p)`, `ac[0 .. p]`;
    `pitch_downsample`: `x[c][0 .. len)` (second channel only for stereo), `x_lp[0 .. len/2)`, locals `ac[5]`, `lpc[4]`,
    `lpc2[5]` (`len ≥ 14`).  The SIMD variants chosen at run time are covered by the sanitizer probes of the tie. -/
theorem celt_callee_contracts :
    (∀ N ord : Int, 0 ≤ N → 3 ≤ ord → All (InB (firB N ord)) (firHits N ord)) ∧
    (∀ N ord : Int, 3 ≤ ord → ord ≤ N → All (InB (iirB N ord)) (iirHits N ord)) ∧
    (∀ overlap lag n : Int, 0 ≤ overlap ∧ overlap ≤ n → 0 ≤ lag → 3 ≤ n - lag →
      All (InB (acorrB overlap lag n)) (autocorrHits overlap lag n)) ∧
    (∀ p : Int, 0 ≤ p → All (InB (lpcB p)) (lpcHits p)) ∧
    (∀ (len : Int) (stereo : Bool), 14 ≤ len → All (InB (pdownB len stereo)) (pdownHits len stereo)) :=
  ⟨fir_in, iir_in, acorr_in, lpc_in, pdown_in⟩

open Opus.CeltCallees Opus.CeltIdx in
/-- The bounds above are the bridge's contracts (`Call.accs`), read off at pointer offset 0. -/
example (n ord : Int) :
    (Call.fir ⟨.exc, 0⟩ ⟨.lpc, 0⟩ ⟨.fir, 0⟩ n ord).accs.map (fun a => (a.ext.lo, a.ext.hi)) =
      [firB n ord .x, firB n ord .num, firB n ord .y] ∧
    (Call.iir ⟨.mem 0, 0⟩ ⟨.lpc, 0⟩ ⟨.mem 0, 0⟩ n ord ⟨.lpcMem, 0⟩).accs.map (fun a => (a.ext.lo, a.ext.hi)) =
      [iirB n ord .x, iirB n ord .num, iirB n ord .y, iirB n ord .mem, iirB n ord .mem] ∧
    (Call.acorr ⟨.exc, 0⟩ ⟨.ac, 0⟩ 120 ord n).accs.map (fun a => (a.ext.lo, a.ext.hi)) =
      [acorrB 120 ord n .x, acorrB 120 ord n .ac] ∧
    (Call.lpc ⟨.lpc, 0⟩ ⟨.ac, 0⟩ n).accs.map (fun a => (a.ext.lo, a.ext.hi)) = [lpcB n .lpc, lpcB n .ac] ∧
    (Call.pdown ⟨.mem 0, 0⟩ (some ⟨.mem 1, 0⟩) ⟨.lpbuf, 0⟩ n).accs.map (fun a => (a.ext.lo, a.ext.hi)) =
      [pdownB n true .x, pdownB n true .xlp, pdownB n true .xlp, pdownB n true .x1] := by
  simp [Call.accs, rd, wr, firB, iirB, acorrB, lpcB, pdownB]

open Opus.CeltCallees Opus.CeltIdx Opus.Gen.CeltIdxConsts in
/-- …and the arguments celt_decoder.c passes satisfy the preconditions: `celt_fir(…, exc_length ∈ [200, 1024], 24)`,
    `celt_iir(…, N+overlap ≥ 240, 24, …)`, `_celt_autocorr(exc, ac, window, 120, 24, 1024)`, `_celt_lpc(…, 24)`,
    `pitch_downsample(decode_mem, lp_pitch_buf, 2048, C)`. -/
theorem celt_callee_contracts_at_decoder_args (pitch : Int) (hp : PitchOk pitch) (N LM : Int) (hf : LegalFrame N LM)
    (stereo : Bool) :
    All (InB (firB (excLen pitch) CELT_LPC_ORDER)) (firHits (excLen pitch) CELT_LPC_ORDER) ∧
    All (InB (iirB (N + overlap) CELT_LPC_ORDER)) (iirHits (N + overlap) CELT_LPC_ORDER) ∧
    All (InB (acorrB overlap CELT_LPC_ORDER MAX_PERIOD)) (autocorrHits overlap CELT_LPC_ORDER MAX_PERIOD) ∧
    All (InB (lpcB CELT_LPC_ORDER)) (lpcHits CELT_LPC_ORDER) ∧
    All (InB (pdownB DECODE_BUFFER_SIZE stereo)) (pdownHits DECODE_BUFFER_SIZE stereo) := by
  have hN := legalFrame_cases hf
  have h24 : (24 : Int) = CELT_LPC_ORDER := rfl
  have hv : (120 : Int) = overlap := rfl
  have hM : (1024 : Int) = MAX_PERIOD := rfl
  have hD : (2048 : Int) = DECODE_BUFFER_SIZE := rfl
  have h100 : (100 : Int) = PLC_PITCH_LAG_MIN := rfl
  obtain ⟨hp0, hp1⟩ := hp
  exact ⟨fir_in _ _ (by unfold excLen; omega) (by omega), iir_in _ _ (by omega) (by omega),
    acorr_in _ _ _ ⟨by omega, by omega⟩ (by omega) (by omega), lpc_in _ (by omega), pdown_in _ _ (by omega)⟩

open Opus.CeltCallees in
/-- Non-vacuity / tightness: the models do reach the ends of their contracts — `celt_fir_c(…, N = 8, ord = 4)` touches
    `x[-4]` and `x[7]`, `celt_iir(…, 8, 4)` touches its local `y[11]` (size 12) and `_y[7]`, `_celt_autocorr(…, 0, 4, 12)`
    touches `x[11]` and `ac[4]`, `pitch_downsample(…, 16, stereo)` touches `x[1][15]` and `x_lp[7]`. -/
example : (firHits 8 4).any (fun h => h.arr == .x && h.idx == -4) = true ∧ (firHits 8 4).any (fun h => h.arr == .x && h.idx == 7) = true ∧
    (firHits 8 4).length = 46 ∧
    (iirHits 8 4).any (fun h => h.arr == .yloc && h.idx == 11) = true ∧ (iirHits 8 4).any (fun h => h.arr == .y && h.idx == 7) = true ∧
    (autocorrHits 0 4 12).any (fun h => h.arr == .x && h.idx == 11) = true ∧ (autocorrHits 0 4 12).any (fun h => h.arr == .ac && h.idx == 4) = true ∧
    (pdownHits 16 true).any (fun h => h.arr == .x1 && h.idx == 15) = true ∧ (pdownHits 16 true).any (fun h => h.arr == .xlp && h.idx == 7) = true := by
  decide

/-! ## Audit follow-ups: duration at the public entry points, tight write extents -/

/-- **decodeApi_duration.**  The duration clause for the public entry points `opus_decode` / `opus_decode24` /
    `opus_decode_float`: a packet with valid framing (`parseImpl false bs = .ok p`), no FEC, and a buffer with room for
    `count · samples_per_frame` samples per channel ⇒ that is what the call returns, through every entry point — the 16- and
    24-bit wrappers clamp `frame_size` to `opus_decoder_get_nb_samples` (:852-859), which is that same number — and what
    `OPUS_GET_LAST_PACKET_DURATION` reports afterwards. -/
theorem decodeApi_duration (o : Oracle) (ho : OracleOk o) (st : DecState) (hinv : DecInv st) (fmt : Fmt)
    (bs : Bytes) (hb : BytesOk bs) (hne : bs ≠ []) (frame_size : Int) (p : Parsed) (hparse : parseImpl false bs = .ok p)
    (hfit : (p.count : Int) * (samplesPerFrame (bs.headD 0) st.Fs.toNat : Int) ≤ frame_size) :
    (decodeApi o fmt (some bs) bs.length frame_size 0 { st := st, k := 0, log := [] }).ret =
        .ret ((p.count : Int) * (samplesPerFrame (bs.headD 0) st.Fs.toNat : Int)) ∧
    (decodeApi o fmt (some bs) bs.length frame_size 0 { st := st, k := 0, log := [] }).run.st.last_packet_duration =
        (p.count : Int) * (samplesPerFrame (bs.headD 0) st.Fs.toNat : Int) := by
  have hch := hinv.ch
  -- the native call with any buffer of at least the packet duration
  have native : ∀ (fsz : Int) (sc : Bool), (p.count : Int) * (samplesPerFrame (bs.headD 0) st.Fs.toNat : Int) ≤ fsz →
      (decodeNative o (some bs) bs.length { buf := .pcm, off := 0, cap := fsz * st.channels } fsz 0 false sc
          { st := st, k := 0, log := [] }).ret = .ret ((p.count : Int) * (samplesPerFrame (bs.headD 0) st.Fs.toNat : Int)) ∧
      (decodeNative o (some bs) bs.length { buf := .pcm, off := 0, cap := fsz * st.channels } fsz 0 false sc
          { st := st, k := 0, log := [] }).run.st.last_packet_duration =
        (p.count : Int) * (samplesPerFrame (bs.headD 0) st.Fs.toNat : Int) := by
    intro fsz sc hle
    have h := decodeNative_duration o ho { st := st, k := 0, log := [] } hinv rfl bs hb hne
      { buf := .pcm, off := 0, cap := fsz * st.channels } fsz false sc p hparse hle rfl (by simp)
    exact ⟨h.1, h.2.1⟩
  have hpos := (decodeNative_duration o ho { st := st, k := 0, log := [] } hinv rfl bs hb hne
      { buf := .pcm, off := 0, cap := frame_size * st.channels } frame_size false false p hparse hfit rfl (by simp)).2.2
  simp only at hpos
  have hlen : (0 : Int) < (bs.length : Int) := by
    cases bs with
    | nil => exact absurd rfl hne
    | cons a t => simp only [List.length_cons]; omega
  -- opus_decoder_get_nb_samples of the packet is the same number
  have hnb : nbSamples (bs.take ((bs.length : Int)).toNat) st.Fs = (p.count : Int) * (samplesPerFrame (bs.headD 0) st.Fs.toNat : Int) := by
    have hpo : p.packetOffset = bs.length := by
      obtain ⟨pk, rest, _, hbs, hr, hview⟩ := Opus.FramingProofs.parse_sound false bs hb p hparse
      have := hr rfl; subst this; subst hview
      rw [hbs]; simp [Opus.FramingSpec.view]
    have h1 := sub_nbSamples false bs hb p hparse st.Fs.toNat (rate_of_fsOk hinv.fs)
    rw [hpo] at h1
    unfold nbSamples
    simp only [Int.toNat_natCast, h1]
    exact Int.natCast_mul _ _
  unfold decodeApi
  rw [if_neg (by omega)]
  cases fmt with
  | f32 => exact native frame_size false hfit
  | i16 =>
    simp only [Option.isSome_some, true_and, Option.getD_some, hnb]
    rw [if_pos ⟨by omega, trivial⟩, if_pos hpos]
    simp only [if_neg (show ¬ ¬ (st.channels = 1 ∨ st.channels = 2) from fun h => h hch)]
    exact native _ _ (by omega)
  | i24 =>
    simp only [Option.isSome_some, true_and, Option.getD_some, hnb]
    rw [if_pos ⟨by omega, trivial⟩, if_pos hpos]
    simp only [if_neg (show ¬ ¬ (st.channels = 1 ∨ st.channels = 2) from fun h => h hch)]
    exact native _ _ (by omega)

example : parseImpl false [120, 1, 2, 3] = .ok ⟨120, 1, [3], 1, 0, 4⟩ ∧ ((1 : Nat) : Int) * (samplesPerFrame 120 48000 : Int) ≤ 960 := by
  decide

/-- **decodeNative_writes_tight.**  Every entry point hands `opus_decode_native` a buffer pointer with offset 0 and
    capacity exactly `frame_size·channels` (`decodeApi`, `stepCall`, `msStream`: the caller's buffer, the stack buffer
    `out`, half of the multistream `buf`).  For such a pointer every logged access that lies in that buffer satisfies
    `pcm.off ≤ p.off ∧ p.off + n ≤ pcm.off + frame_size·channels` — the bounds of `decodeNative_writes` are tight.  (For a
    pointer with `pcm.off > 0` or slack in `pcm.cap` only `0 ≤ p.off ∧ p.off + n ≤ pcm.cap` is proved: the skeleton's
    invariants do not track the distance to `pcm.off`; no entry point makes such a call.) -/
theorem decodeNative_writes_tight (o : Oracle) (ho : OracleOk o) (r : Run) (hinv : DecInv r.st) (hlog : r.log = [])
    (data : Option Bytes) (hb : ∀ bs, data = some bs → BytesOk bs) (len : Int) (pcm : Ptr) (frame_size fec : Int)
    (sd sc : Bool) (hbuf : pcm.buf = .pcm) (hoff : pcm.off = 0) (hcap : pcm.cap = frame_size * r.st.channels)
    (hfs : 0 ≤ frame_size) :
    ∀ e ∈ (decodeNative o data len pcm frame_size fec sd sc r).run.log, ∀ p n, e.extent? = some (p, n) → p.buf = .pcm →
      pcm.off ≤ p.off ∧ p.off + n ≤ pcm.off + frame_size * r.st.channels := by
  intro e he p n hx hp
  have hch := hinv.ch
  have h := decodeNative_writes o ho r hinv hlog data hb len pcm frame_size fec sd sc hbuf
    (by rw [hoff, hcap]; omega) e he p n hx
  obtain ⟨⟨h1, h2, h3⟩, hc⟩ := h
  have hpc : p.cap = pcm.cap := by unfold PtrCapOk at hc; rw [hp] at hc; exact hc
  rw [hoff]; rw [hpc, hcap] at h3
  exact ⟨h1, by omega⟩

end OpusProps.C01
