import OpusProofs.SilkPipeBasic
import OpusProofs.SilkPipeTotal
import OpusProofs.SilkPipeLen
import OpusProofs.SilkPipeInit
import OpusProofs.SilkPipeFrame
import OpusProofs.SilkCoreBridge
/-
  OpusProps.C03SilkPipe — property C03, slice SilkPipe: `Opus.SilkPipe.silkOnlyDecode`, ONE function from packet bytes to int16 PCM
  for SILK-only mono loss-free streams, tied sample for sample to the public `opus_decode` (harness/c03_silkpipe.c).
-/
namespace OpusProps.C03SilkPipe
open Opus Opus.SilkCore Opus.SilkPipe Opus.SilkCoreProofs Opus.SilkPipeProofs

/-- `silk_only_pipeline_is_composition`: the pipeline is literally parse ∘ symbols ∘ frameGood ∘ buffer ∘ resample.  (1) `silkOnlyDecode`
    is the TOC test, then `SilkSyms.decodePacket` (C03 stage 1), then `opusFrames` on its result; (2) `decodePacket` is the pre-check,
    `Framing.parseImpl` (C06) and the frame loop of the symbol layer over the parsed frame spans; (3) one `silk_Decode` call is
    `SilkCore.frameGood` (slice SilkCore) on the decoded indices and pulses, `monoBuffer`, `SilkResamp.resampler` (slice SilkResamp) —
    so every theorem of the parts applies to the corresponding stage. -/
theorem silk_only_pipeline_is_composition (apiHz nb : Nat) (S : PipeSt) (pkt : Bytes) (fr : Nat × SilkSyms.Indices × List Int) :
    (silkOnlyDecode apiHz S pkt =
      if !silkOnlyMono pkt then .err .unimplemented
      else match SilkSyms.decodePacket apiHz false false S.syms pkt with
        | .ok (some frs) => opusFrames S frs
        | .ok none => .err .unimplemented
        | .err e => .err e
        | .oob => .oob
        | .abort => .abort) ∧
    (SilkSyms.decodePacket apiHz false false S.syms pkt =
      if SilkSyms.packetPre apiHz false pkt then
        match Framing.parseImpl false pkt with
        | .ok p => SilkSyms.someRes (SilkSyms.framesLoop p.toc pkt false (SilkSyms.frameSpans p.payloadOffset p.sizes) S.syms)
        | .err e => .err e
        | .oob => .oob
        | .abort => .abort
      else .err .invalidPacket) ∧
    (silkFrameStep nb S fr =
      (frameGood { S.dec with nbSubfr := nb } (frameIn fr.1 fr.2.1 fr.2.2)).bind fun o =>
        (SilkResamp.resampler S.rs (monoBuffer S.sMid o.core.xq).2).bind fun r =>
          .ok ({ S with dec := o.st, sMid := (monoBuffer S.sMid o.core.xq).1, rs := r.1 }, r.2)) :=
  ⟨silkOnlyDecode_eq apiHz S pkt, decodePacket_eq apiHz S.syms pkt, silkFrameStep_eq nb S fr⟩

example : monoBuffer [7, 8] [1, 2, 3, 4] = ([3, 4], [8, 1, 2, 3]) := by decide

/-- A fresh decoder satisfies the combined invariant `PipeInv` (synthesis `StateOk`, resampler `Inv`, matching rates, two int16 samples
    in `sMid`), for every internal rate 8 / 12 / 16 kHz and every API rate 8 / 12 / 16 / 24 / 48 kHz. -/
theorem fresh_decoder_satisfies_invariant (fs api : Nat) (h : (fs, api) ∈ pipeConfigs) :
    ∃ S, initPipe fs api = .ok S ∧ PipeInv S ∧ S.dec.fsKHz = fs ∧ S.rs.cfg.fsOut * 1000 = api :=
  initPipe_inv fs api h

example : pipeConfigs.length = 15 ∧ (16, 48000) ∈ pipeConfigs := by decide

/-- `silk_only_pipeline_total`, PARTIAL: proved for the stages behind the symbol layer.  For EVERY state satisfying `PipeInv` and EVERY
    list of decoded frames `(condCoding, indices, pulses)` satisfying `FrameOk` (which is what `silk_decode_indices` delivers for every
    range-decoder state, `OpusProps.C03SilkCore.symbol_layer_delivers_frame_ok`, with `frame_length` pulses): synthesis → buffering →
    resampling of all frames is total, returns exactly `frame_count * frame_duration * Fs_API` samples (`5 * nb_subfr` ms each at
    `Fs_out_kHz`), all int16, preserves the invariant, the internal rate and the resampler configuration.
    MISSING for the full statement from bytes: that for every byte string the parser accepts as a SILK-only mono packet the event list of
    `SilkSyms.decodePacket` contains, per Opus frame, exactly `nFramesPerPacket` normally decoded `(indices, pulses)` pairs with
    `frame_length` pulses each, every pair produced by `decodeIndices` / `decodePulses` (a structural lemma about `framesOfEvs ∘ silkCalls`),
    and the lifting of this theorem over `opusFrames` / `runPackets` (list inductions of the same shape as the one proved here). -/
theorem silk_only_pipeline_total_partial (nb : Nat) (hnb : nb = 2 ∨ nb = 4) (frs : List (Nat × SilkSyms.Indices × List Int))
    (S : PipeSt) (hI : PipeInv S) (hf : ∀ fr ∈ frs, FrameOk S.dec.fsKHz nb (frameIn fr.1 fr.2.1 fr.2.2)) :
    ∃ S' pcm, silkFrames nb S frs = .ok (S', pcm) ∧ PipeInv S' ∧ S'.dec.fsKHz = S.dec.fsKHz ∧ S'.rs.cfg = S.rs.cfg ∧
      pcm.length = frs.length * ((5 * nb) * S.rs.cfg.fsOut) ∧ ∀ x ∈ pcm, -32768 ≤ x ∧ x ≤ 32767 :=
  silkFrames_total_ms nb hnb frs S hI hf

example : ∃ S, initPipe 16 48000 = .ok S ∧ PipeInv S :=
  (initPipe_inv 16 48000 (by decide)).imp fun _ h => ⟨h.1, h.2.1⟩

/-- One Opus frame of the class (`OpusFrameOk`: SILK, mono, normally decoded, no redundancy, the state's internal rate, 10 / 20 / 40 / 60 ms,
    every normally decoded `(indices, pulses)` pair of its event list satisfying `FrameOk`): `opusFrame` is total, returns
    `(number of SILK frames) * 5 * nb_subfr * Fs_out_kHz` int16 samples and preserves the invariant and the configuration. -/
theorem opus_frame_total (S : PipeSt) (off : Nat) (o : SilkSyms.FrameOut) (nb : Nat) (hI : PipeInv S) (h : OpusFrameOk S o nb) :
    ∃ S' pcm, opusFrame S (.silk off o) = .ok (S', pcm) ∧ PipeInv S' ∧ S'.dec.fsKHz = S.dec.fsKHz ∧ S'.rs.cfg = S.rs.cfg ∧
      pcm.length = (framesOfEvs o.evs).length * ((5 * nb) * S.rs.cfg.fsOut) ∧ ∀ x ∈ pcm, -32768 ≤ x ∧ x ≤ 32767 :=
  opusFrame_total S off o nb hI h

example : SilkSyms.packetShape 60 = .ok (3, 4) ∧ framesOfEvs [] = [] := by decide

/-- The record the pipeline feeds to the synthesis is the one of `OpusProps.C03SilkCore.symbol_layer_delivers_frame_ok`: for every
    range-decoder state the frame built from `decodeIndices`' output and `frame_length` pulses satisfies `FrameOk`. -/
theorem pipeline_frames_are_frame_ok (rate : SilkSyms.Rate) (nb : Nat) (hnb : nb = 2 ∨ nb = 4) (vadOrLbrr : Bool) (cc ps : Nat) (pl : Int)
    (c : RangeCoder.Dec) (ix : SilkSyms.Indices) (c' : RangeCoder.Dec)
    (h : SilkSyms.decodeIndices rate nb vadOrLbrr cc ps pl c = (ix, c')) (cond : Nat) (pulses : List Int)
    (hp : frameLen rate.kHz nb ≤ pulses.length) : FrameOk rate.kHz nb (frameIn cond ix pulses) :=
  frameOk_of_indicesOk (SilkSymsProofs.decodeIndices_ok rate nb (by omega) vadOrLbrr cc ps pl c ix c' h) hnb (cond : Int) pulses hp

example (c : RangeCoder.Dec) : ∃ ix c', SilkSyms.decodeIndices .nb 2 true 0 0 0 c = (ix, c') :=
  ⟨(SilkSyms.decodeIndices .nb 2 true 0 0 0 c).1, (SilkSyms.decodeIndices .nb 2 true 0 0 0 c).2, (Prod.eta _).symm⟩

end OpusProps.C03SilkPipe
