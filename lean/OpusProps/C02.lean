import OpusProofs.EncSkelToc
import OpusProofs.EncSkelParse
import OpusProofs.EncSkelWf
import OpusProofs.EncSkelRed
/-
  Property C02 — "Every encoded packet is valid and decodes in lock-step with the encoder".

  Model: the encoder skeleton `Opus.EncSkel.encodeNative` (see OpusProps/C05.lean for what is an oracle and
  what `ok`/`entryCheck` mean), `gen_toc` (`Opus.EncDecide.genToc`), and the packet parser
  `Opus.Framing.parseImpl` that property C06 proves sound and complete against RFC 6716 §3.
  The payload symbol layer (SILK/CELT) is not modelled: final-range equality and decoder sample counts are
  searched on the real library only (tools/props/C02.py, harness/c02_lockstep.c).
-/
namespace OpusProps.C02
open Opus Opus.EncSkel Opus.EncDecide Opus.EncSkel.Proofs

def exSt : St :=
  { fs := 48000, channels := 2, application := 2049, useVbr := 0, userBitrate := 64000, forceChannels := -1000,
    signalType := -1000, userBandwidth := -1000, maxBandwidth := 1105, userForcedMode := -1000, lfe := 0, useDtx := 0,
    fecConfig := 0, variableDuration := 5000, complexity := 9, lossPerc := 0, useInBandFEC := 0, energyMasking := 0,
    streamChannels := 2, mode := 1002, prevMode := 1002, prevChannels := 2, prevFramesize := 960, bandwidth := 1105,
    autoBandwidth := 1105, silkBwSwitch := 0, first := 0, voiceRatio := -1, detectedBandwidth := 0, nbNoActivity := 0,
    nonfinalFrame := 0, bitrateBps := 64000, toMono := 0, lbrrCoded := 0, allowBwSwitch := 0, inWBmode := 0,
    opusCanSwitch := 0, silkUseDtx := 0 }
def exFr (cm : Int) : FrameOr :=
  { aValid := 1, activity := 1, silkBitRateIn := 0, silkRet := 0, nBytes := 0, isr := 0, switchReady := 0, allowBw := 0,
    inWB := 0, tellA := 0, tellB := 0, tellC := 0, tellD := 1, tellE := 1000, stripTo := 0, celtRed1 := 0,
    celtMain := cm, celtRed2 := 0, used1 := 0, used2 := 0 }
def exOr (cm : Int) : NatOr :=
  { isSilence := 0, aValid := 1, aBandwidth := 20, vr0 := 10, vr1 := 10, vr2 := 10, modeVoice := 64000, modeMusic := 10000,
    rands := [], frames := [exFr cm, exFr cm, exFr cm] }

/-- Clause "returns a well-formed Opus packet whose announced duration equals the submitted frame
    size", ToC part: for EVERY legal (mode, frame duration, bandwidth) — SILK 10/20/40/60 ms NB/MB/WB,
    hybrid 10/20 ms SWB/FB, CELT 2.5/5/10/20 ms NB/WB/SWB/FB — both channel counts and all five
    sampling rates, the ToC byte `gen_toc` writes is a byte with code bits 00, and the packet helpers
    read back the mode, the bandwidth, the channel count and `samples_per_frame(Fs) = frame_size`. -/
theorem genToc_roundtrip : ∀ t ∈ tocLegal, ∀ ch ∈ [(1 : Int), 2], ∀ fs ∈ [(8000 : Nat), 12000, 16000, 24000, 48000],
    genToc t.1 t.2.1 t.2.2 ch < 256 ∧ genToc t.1 t.2.1 t.2.2 ch % 4 = 0 ∧
    (Framing.getMode (genToc t.1 t.2.1 t.2.2 ch) : Int) = t.1 ∧
    (Framing.getBandwidth (genToc t.1 t.2.1 t.2.2 ch) : Int) = t.2.2 ∧
    (Framing.getNbChannels (genToc t.1 t.2.1 t.2.2 ch) : Int) = ch ∧
    (Framing.samplesPerFrame (genToc t.1 t.2.1 t.2.2 ch) fs : Int) = spfOf fs t.2.1 :=
  genToc_roundtrip_all

example : (1001, 50, 1105) ∈ tocLegal ∧ genToc 1001 50 1105 2 = 124 ∧ spfOf 48000 50 = 960 := by decide +kernel

/-- Clause "at least two bytes of output space succeeds (one byte is refused only for 100 ms
    frames)", low-budget path: for EVERY sampling rate, frame duration, stale `st->mode` (incl. 0 before
    the first frame), stale `st->bandwidth` (incl. 0), channel count and `out_data_bytes ∈ {1,2,≥3}`:
    the entry check refuses with OPUS_BUFFER_TOO_SMALL exactly for one byte and 100 ms; otherwise the
    ToC-only packet written at :1313-1321 fits `out_data_bytes`, parses (C06 parser), consists of empty
    frames only and announces exactly `frame_size` samples. -/
theorem lowBudget_valid :
    ∀ fs ∈ [(8000 : Nat), 12000, 16000, 24000, 48000], ∀ k ∈ [(1 : Int), 2, 4, 8, 16, 24, 32, 40, 48],
    ∀ mode ∈ [(0 : Int), 1000, 1001, 1002], ∀ bw ∈ [(0 : Int), 1101, 1102, 1103, 1104, 1105], ∀ ch ∈ [(1 : Int), 2],
    ∀ out ∈ [(1 : Int), 2, 3],
      (entryCheck (lowSt fs mode bw ch) (fs / 400 * k) out = some OPUS_BUFFER_TOO_SMALL ↔ (out = 1 ∧ k = 40)) ∧
      (¬ (out = 1 ∧ k = 40) →
        parsesTo (lowHdr0 (lowSt fs mode bw ch) (fs / 400 * k) out) fs (fs / 400 * k) = true ∧
        (lowHdr0 (lowSt fs mode bw ch) (fs / 400 * k) out).length = (lowRet0 (lowSt fs mode bw ch) (fs / 400 * k) out).toNat ∧
        lowRet0 (lowSt fs mode bw ch) (fs / 400 * k) out ≤ out) :=
  lowBudget_valid_all

example : lowHdr0 (lowSt 48000 1002 1105 2) 4800 3 = [0xFF, 5] ∧ parsesTo [0xFF, 5] 48000 4800 = true := by decide +kernel

/-- Clause "no call ever fails with an internal error": for all oracle behaviours within the contracts,
    all settings/states within `stOk`, legal frame sizes and `out_data_bytes ≥ 1` (not 1 byte for
    100 ms), NONE of the compiled OPUS_INTERNAL_ERROR sites of `opus_encode_native` /
    `opus_encode_frame_native` (:1329, :1726, :1735, :1743, :2101, :2301, :2355, :2394, :2505) is
    reached, nor the OPUS_BUFFER_TOO_SMALL of :2439, nor any `celt_assert` of the skeleton (:2006, :2114,
    `ec_enc_shrink`): the call returns a length `1 ≤ ret ≤ out_data_bytes`.  (The contracts used:
    silk_Encode returns 0; celt_encode_with_ec succeeds when given ≥ 2 bytes — the theorem shows it is
    never given fewer; SILK keeps its internal rate inside one packet, so `opus_repacketizer_cat`
    accepts every sub-frame; range-coder occupancy ≤ ec_tell.) -/
theorem no_internal_error (s : St) (fuzz : Bool) (fsz out : Int) (o : NatOr)
    (he : entryCheck s fsz out = none) (hok : (encodeNative s fuzz fsz out o).ok = true) :
    (encodeNative s fuzz fsz out o).abort = false ∧ 1 ≤ (encodeNative s fuzz fsz out o).ret ∧
    (encodeNative s fuzz fsz out o).ret ≤ out ∧ (encodeNative s fuzz fsz out o).ret ≠ OPUS_INTERNAL_ERROR := by
  have h := encodeNative_post s fuzz fsz out o he hok
  have := h.retLo
  exact ⟨h.noAbort, h.retLo, h.retHi, by simp only [OPUS_INTERNAL_ERROR]; omega⟩

example : entryCheck (lowSt 48000 1002 1105 2) 960 100 = none := by decide +kernel

/-- Clause "returns a well-formed Opus packet", repacketised / padded packets: whatever the
    repacketiser contract `outRange` emits — the model of `opus_repacketizer_out_range_impl` as the
    encoder calls it for multi-frame packets (:1742) and, through `opus_packet_pad`, for every CBR
    packet (:2504, :1325) — i.e. codes 0/1/2/3, CBR or VBR, with or without padding: for ANY frame
    contents of the recorded lengths, `header ++ frames ++ zero padding` is accepted by the packet
    parser (the C06 model, proved sound and complete for RFC 6716), which reports exactly those frame
    sizes and the same ToC configuration and consumes exactly `size` bytes. -/
theorem repack_output_parses (cfg : Nat) (lens : List Nat) (maxlen : Nat) (pad : Bool) (r : OutRes) (frames : List Bytes)
    (hfl : frames.map List.length = lens) (h4 : cfg % 4 = 0) (hcfg : cfg < 256)
    (hall : ∀ l ∈ lens, l ≤ 1275) (hdur : FramingSpec.frameDur48 cfg * lens.length ≤ 5760)
    (h : outRange cfg lens maxlen pad = .ok r) :
    ∃ v, Framing.parseImpl false (pktBytes r.hdr frames r.size) = .ok v ∧ v.sizes = lens ∧
      v.count = lens.length ∧ v.toc / 4 * 4 = cfg ∧ v.packetOffset = (pktBytes r.hdr frames r.size).length :=
  outRange_parses cfg lens maxlen pad r frames hfl h4 hcfg hall hdur h

/-- three 20 ms CELT frames of 3, 0 and 300 bytes padded to 400 bytes (code 3, VBR, padding). -/
example : outRange 252 [3, 0, 300] 400 true = .ok { size := 400, hdr := [255, 195, 92, 3, 0] } ∧
    FramingSpec.frameDur48 252 * 3 ≤ 5760 := by decide +kernel

/-- Clause "returns a well-formed Opus packet whose announced duration equals the submitted frame
    size", at full strength: for all oracle behaviours within the contracts, all settings/states within
    `stOk`, all legal frame sizes and all `out_data_bytes` (not 1 byte for 100 ms), on EVERY return path
    (low-budget ToC-only packet, single frame VBR/CBR/DTX, repacketised multi-frame packet) and for ANY
    frame contents of the recorded lengths: the emitted bytes `header ++ frames ++ zero padding` are
    accepted by `opus_packet_parse_impl` (the C06 model, proved sound and complete for RFC 6716), which
    reports exactly those frame sizes, announces `count · samples_per_frame(Fs) = frame_size`, and consumes
    exactly `ret` bytes — the whole packet, with `1 ≤ ret ≤ out_data_bytes`. -/
theorem encode_wellformed (s : St) (fuzz : Bool) (fsz out : Int) (o : NatOr)
    (he : entryCheck s fsz out = none) (hok : (encodeNative s fuzz fsz out o).ok = true)
    (frames : List Bytes) (hfl : frames.map List.length = (encodeNative s fuzz fsz out o).pkt.lens) :
    (1 ≤ (encodeNative s fuzz fsz out o).ret ∧ (encodeNative s fuzz fsz out o).ret ≤ out) ∧
    ∃ v, Framing.parseImpl false
        (pktBytes (encodeNative s fuzz fsz out o).pkt.hdr frames (encodeNative s fuzz fsz out o).pkt.size) = .ok v ∧
      v.sizes = (encodeNative s fuzz fsz out o).pkt.lens ∧
      (v.count : Int) * Framing.samplesPerFrame v.toc s.fs.toNat = fsz ∧
      (v.packetOffset : Int) = (encodeNative s fuzz fsz out o).ret ∧
      (pktBytes (encodeNative s fuzz fsz out o).pkt.hdr frames (encodeNative s fuzz fsz out o).pkt.size).length =
        v.packetOffset :=
  have h := encodeNative_post s fuzz fsz out o he hok
  ⟨⟨h.retLo, h.retHi⟩, encode_parses s fuzz fsz out o he hok frames hfl⟩

/-- 64 kb/s CBR, 60 ms, 48 kHz stereo: three CELT frames, header FF 43 03 (code 3, CBR, padding). -/
example : (encodeNative OpusProps.C02.exSt false 2880 4000 (OpusProps.C02.exOr 158)).ok = true ∧
    (encodeNative OpusProps.C02.exSt false 2880 4000 (OpusProps.C02.exOr 158)).pkt.lens = [158, 158, 158] ∧
    (encodeNative OpusProps.C02.exSt false 2880 4000 (OpusProps.C02.exOr 158)).pkt.hdr = [255, 67, 3] := by
  decide +kernel

/-- `redundancy_mirror`, SILK-only mode, at full strength (P1): for the encoder skeleton's own signalling
    (`frRedSig` returned `redundancy = true`; the byte count it clamps at :2239-2240 comes from
    `compute_redundancy_bytes`, `mid_rb_ge`) and C08's lock-step of the single flag bit (the decoder reads
    `celt_to_silk` back at the same `ec_tell`, and `ec_tell` did not decrease), the decoder skeleton
    `parseRedundancy` (opus_decoder.c:471-499), on the frame of `⌈tellB/8⌉ + rb` bytes the encoder emits,
    recovers `(redundancy, celt_to_silk, redundancy_bytes) = (1, celt_to_silk, rb)` — with NO decoder-side
    hypothesis.  In particular the corner "redundancy_bytes = 2, the flag bit cost no whole bit, ec_tell ≡ 0
    (mod 8)", where the decoder's length test `ec_tell+17 ≤ 8·len` would miss what the encoder's budget test
    `ec_tell+17 ≤ 8·(max_data_bytes−1)` admitted, is arithmetically impossible (`silk_gate_agrees`):
    `redundancy_bytes = 2` forces `max_redundancy ≤ 2`, i.e. the budget is within 16 bits of the actual
    length, and then the encoder's test implies the decoder's.  And without redundancy the SILK-only frame
    ends with the coded bits (`len ≤ ⌈ec_tell/8⌉`), so the decoder reads none. -/
theorem redundancy_mirror_silk :
    (∀ (s : St) (fi : FrameIn) (e : FrameOr) (x : Mid) (o : DecSkel.Oracle) (r : DecSkel.Run) (c2s : Bool),
      1 ≤ s.streamChannels ∧ s.streamChannels ≤ 2 → frSilk fi (frPre s fi) e = .cont x →
      x.st.mode = MODE_SILK_ONLY → (frRedSig fi x e).1 = true → e.tellA ≤ e.tellB →
      o.bit r.k 1 e.tellA = (b2i c2s, e.tellB) →
      (DecSkel.parseRedundancy o DecSkel.MODE_SILK ((e.tellB + 7) / 8 + (frRedSig fi x e).2.1) e.tellA r).1 =
        { redundancy := 1, celt_to_silk := b2i c2s, bytes := (frRedSig fi x e).2.1, len := (e.tellB + 7) / 8,
          tell := e.tellB }) ∧
    (∀ (o : DecSkel.Oracle) (r : DecSkel.Run) (len tellA : Int), len ≤ (tellA + 7) / 8 →
      (DecSkel.parseRedundancy o DecSkel.MODE_SILK len tellA r).1 =
        { redundancy := 0, celt_to_silk := 0, bytes := 0, len := len, tell := tellA }) := by
  refine ⟨?_, fun o r len tellA h => redundancy_mirror_silk_none o r len tellA h⟩
  intro s fi e x o r c2s hch hx hmode hred hmono h1
  have hxr : x.redundancy = true := by
    unfold frRedSig at hred
    dsimp only at hred
    split at hred
    · rename_i hb; unfold readsB at hb; simp only [Bool.and_eq_true] at hb; exact hb.2
    · cases hred
  have h13 := mid_rb_ge s fi e x hch hx hxr
  exact redundancy_mirror_silk_full fi x e o r c2s hmode (by omega) hred hmono h1

/- FULL STATEMENT (design §7.C02 `redundancy_mirror`, hybrid mode): as above without decoder-side
   hypotheses.  Proved below (`redundancy_mirror_hybrid_partial`) under C08's lock-step of the three symbols
   plus exactly ONE extra contract, on `celt_encode_with_ec` in hybrid VBR mode (celt_encoder.c:2303-2318,
   `min_allowed`): the CELT part keeps the packet long enough for the decoder's gate and holds all coded
   bits, i.e. `ec_tell_before + 37 ≤ 8·(ret + redundancy_bytes)` and `ec_tell ≤ 8·ret`.  In hybrid CBR no
   contract is needed (`hybrid_cbr_gate`: CELT returns its whole budget, so the frame has
   `max_data_bytes − 1` bytes and the encoder's test is the decoder's). -/
theorem redundancy_mirror_hybrid_partial (o : DecSkel.Oracle) (r : DecSkel.Run) (len tellA tell1 tellB tellU rb : Int)
    (red c2s : Bool) (hgate : tellA + 17 + 20 ≤ 8 * len) (h1 : o.bit r.k 12 tellA = (b2i red, tell1))
    (h2 : red = true → o.bit r.tick.k 1 tell1 = (b2i c2s, tellB))
    (h3 : red = true → o.uint r.tick.tick.k 256 tellB = (rb - 2, tellU))
    (hsane : red = true → tellU ≤ (len - rb) * 8) :
    (DecSkel.parseRedundancy o DecSkel.MODE_HYBRID len tellA r).1 =
      { redundancy := b2i red, celt_to_silk := if red then b2i c2s else 0, bytes := if red then rb else 0,
        len := if red then len - rb else len, tell := if red then tellU else tell1 } :=
  redundancy_mirror_hybrid o r len tellA tell1 tellB tellU rb red c2s hgate h1 h2 h3 hsane

/-- the corner, concretely: budget 11 bytes, SILK part ends at bit 64 (≡ 0 mod 8), flag costs 0 bits:
    `max_redundancy = 10 − 8 = 2 ≥ …` cannot happen together with the encoder's gate `64+17 ≤ 80`;
    with the smallest budget that passes (12 bytes) three bytes of redundancy are available. -/
example : ¬ ((64 : Int) + 17 ≤ 8 * (11 - 1)) ∧ (64 : Int) + 17 ≤ 8 * (12 - 1) ∧
    min 257 (max 2 (min ((12 - 1) - (64 + 7) / 8) 13)) = (3 : Int) := by decide

/-- hybrid, 100-byte frame, SILK part ends at bit 200: flag, direction and byte count are read back. -/
example : (200 : Int) + 17 + 20 ≤ 8 * 100 ∧ (213 + 8 : Int) ≤ (100 - 30) * 8 := by decide

end OpusProps.C02
