import OpusProofs.EncSkelToc
import OpusProofs.EncSkelParse
import OpusProofs.EncSkelWf
import OpusProofs.EncSkelRed
import OpusProofs.EncSkelRedPayload
/-
  Property C02 — "Every encoded packet is valid and decodes in lock-step with the encoder".

  Model: the encoder skeleton `Opus.EncSkel.encodeNative` (see OpusProps/C05.lean for what is an oracle and
  what `ok`/`entryCheck` mean), `gen_toc` (`Opus.EncDecide.genToc`), and the packet parser
  `Opus.Framing.parseImpl` that property C06 proves sound and complete against RFC 6716 §3.
  The payload symbol layer (SILK/CELT) is not modelled: final-range equality and decoder sample counts are
  searched on the real library only (tools/props/C02.py, harness/c02_lockstep.c).
-/
namespace OpusProps.C02
open Opus Opus.EncSkel Opus.EncDecide Opus.EncSkel.Proofs

def exSt : St :=
  { fs := 48000, channels := 2, application := 2049, useVbr := 0, userBitrate := 64000, forceChannels := -1000,
    signalType := -1000, userBandwidth := -1000, maxBandwidth := 1105, userForcedMode := -1000, lfe := 0, useDtx := 0,
    fecConfig := 0, variableDuration := 5000, complexity := 9, lossPerc := 0, useInBandFEC := 0, energyMasking := 0,
    streamChannels := 2, mode := 1002, prevMode := 1002, prevChannels := 2, prevFramesize := 960, bandwidth := 1105,
    autoBandwidth := 1105, silkBwSwitch := 0, first := 0, voiceRatio := -1, detectedBandwidth := 0, nbNoActivity := 0,
    nonfinalFrame := 0, bitrateBps := 64000, toMono := 0, lbrrCoded := 0, allowBwSwitch := 0, inWBmode := 0,
    opusCanSwitch := 0, silkUseDtx := 0 }
def exFr (cm : Int) : FrameOr :=
  { aValid := 1, activity := 1, silkBitRateIn := 0, silkRet := 0, nBytes := 0, isr := 0, switchReady := 0, allowBw := 0,
    inWB := 0, tellA := 0, tellB := 0, tellC := 0, tellD := 1, tellE := 1000, stripTo := 0, celtRed1 := 0,
    celtMain := cm, celtRed2 := 0, used1 := 0, used2 := 0 }
def exOr (cm : Int) : NatOr :=
  { isSilence := 0, aValid := 1, aBandwidth := 20, vr0 := 10, vr1 := 10, vr2 := 10, modeVoice := 64000, modeMusic := 10000,
    rands := [], frames := [exFr cm, exFr cm, exFr cm] }

/-- Clause "returns a well-formed Opus packet whose announced duration equals the submitted frame
    size", ToC part: for EVERY legal (mode, frame duration, bandwidth) — SILK 10/20/40/60 ms NB/MB/WB,
    hybrid 10/20 ms SWB/FB, CELT 2.5/5/10/20 ms NB/WB/SWB/FB — both channel counts and all five
    sampling rates, the ToC byte `gen_toc` writes is a byte with code bits 00, and the packet helpers
    read back the mode, the bandwidth, the channel count and `samples_per_frame(Fs) = frame_size`. -/
theorem genToc_roundtrip : ∀ t ∈ tocLegal, ∀ ch ∈ [(1 : Int), 2], ∀ fs ∈ [(8000 : Nat), 12000, 16000, 24000, 48000],
    genToc t.1 t.2.1 t.2.2 ch < 256 ∧ genToc t.1 t.2.1 t.2.2 ch % 4 = 0 ∧
    (Framing.getMode (genToc t.1 t.2.1 t.2.2 ch) : Int) = t.1 ∧
    (Framing.getBandwidth (genToc t.1 t.2.1 t.2.2 ch) : Int) = t.2.2 ∧
    (Framing.getNbChannels (genToc t.1 t.2.1 t.2.2 ch) : Int) = ch ∧
    (Framing.samplesPerFrame (genToc t.1 t.2.1 t.2.2 ch) fs : Int) = spfOf fs t.2.1 :=
  genToc_roundtrip_all

example : (1001, 50, 1105) ∈ tocLegal ∧ genToc 1001 50 1105 2 = 124 ∧ spfOf 48000 50 = 960 := by decide +kernel

/-- Clause "at least two bytes of output space succeeds (one byte is refused only for 100 ms
    frames)", low-budget path: for EVERY sampling rate, frame duration, stale `st->mode` (incl. 0 before
    the first frame), stale `st->bandwidth` (incl. 0), channel count and `out_data_bytes ∈ {1,2,≥3}`:
    the entry check refuses with OPUS_BUFFER_TOO_SMALL exactly for one byte and 100 ms; otherwise the
    ToC-only packet written at :1313-1321 fits `out_data_bytes`, parses (C06 parser), consists of empty
    frames only and announces exactly `frame_size` samples. -/
theorem lowBudget_valid :
    ∀ fs ∈ [(8000 : Nat), 12000, 16000, 24000, 48000], ∀ k ∈ [(1 : Int), 2, 4, 8, 16, 24, 32, 40, 48],
    ∀ mode ∈ [(0 : Int), 1000, 1001, 1002], ∀ bw ∈ [(0 : Int), 1101, 1102, 1103, 1104, 1105], ∀ ch ∈ [(1 : Int), 2],
    ∀ out ∈ [(1 : Int), 2, 3],
      (entryCheck (lowSt fs mode bw ch) (fs / 400 * k) out = some OPUS_BUFFER_TOO_SMALL ↔ (out = 1 ∧ k = 40)) ∧
      (¬ (out = 1 ∧ k = 40) →
        parsesTo (lowHdr0 (lowSt fs mode bw ch) (fs / 400 * k) out) fs (fs / 400 * k) = true ∧
        (lowHdr0 (lowSt fs mode bw ch) (fs / 400 * k) out).length = (lowRet0 (lowSt fs mode bw ch) (fs / 400 * k) out).toNat ∧
        lowRet0 (lowSt fs mode bw ch) (fs / 400 * k) out ≤ out) :=
  lowBudget_valid_all

example : lowHdr0 (lowSt 48000 1002 1105 2) 4800 3 = [0xFF, 5] ∧ parsesTo [0xFF, 5] 48000 4800 = true := by decide +kernel

/-- Clause "no call ever fails with an internal error": for all oracle behaviours within the contracts,
    all settings/states within `stOk`, legal frame sizes and `out_data_bytes ≥ 1` (not 1 byte for
    100 ms), NONE of the compiled OPUS_INTERNAL_ERROR sites of `opus_encode_native` /
    `opus_encode_frame_native` (:1329, :1726, :1735, :1743, :2101, :2301, :2355, :2394, :2505) is
    reached, nor the OPUS_BUFFER_TOO_SMALL of :2439, nor any `celt_assert` of the skeleton (:2006, :2114,
    `ec_enc_shrink`): the call returns a length `1 ≤ ret ≤ out_data_bytes`.  (The contracts used:
    silk_Encode returns 0; celt_encode_with_ec succeeds when given ≥ 2 bytes — the theorem shows it is
    never given fewer; SILK keeps its internal rate inside one packet, so `opus_repacketizer_cat`
    accepts every sub-frame; range-coder occupancy ≤ ec_tell.) -/
theorem no_internal_error (s : St) (fuzz : Bool) (fsz out : Int) (o : NatOr)
    (he : entryCheck s fsz out = none) (hok : (encodeNative s fuzz fsz out o).ok = true) :
    (encodeNative s fuzz fsz out o).abort = false ∧ 1 ≤ (encodeNative s fuzz fsz out o).ret ∧
    (encodeNative s fuzz fsz out o).ret ≤ out ∧ (encodeNative s fuzz fsz out o).ret ≠ OPUS_INTERNAL_ERROR := by
  have h := encodeNative_post s fuzz fsz out o he hok
  have := h.retLo
  exact ⟨h.noAbort, h.retLo, h.retHi, by simp only [OPUS_INTERNAL_ERROR]; omega⟩

example : entryCheck (lowSt 48000 1002 1105 2) 960 100 = none := by decide +kernel

/-- Clause "returns a well-formed Opus packet", repacketised / padded packets: whatever the
    repacketiser contract `outRange` emits — the model of `opus_repacketizer_out_range_impl` as the
    encoder calls it for multi-frame packets (:1742) and, through `opus_packet_pad`, for every CBR
    packet (:2504, :1325) — i.e. codes 0/1/2/3, CBR or VBR, with or without padding: for ANY frame
    contents of the recorded lengths, `header ++ frames ++ zero padding` is accepted by the packet
    parser (the C06 model, proved sound and complete for RFC 6716), which reports exactly those frame
    sizes and the same ToC configuration and consumes exactly `size` bytes. -/
theorem repack_output_parses (cfg : Nat) (lens : List Nat) (maxlen : Nat) (pad : Bool) (r : OutRes) (frames : List Bytes)
    (hfl : frames.map List.length = lens) (h4 : cfg % 4 = 0) (hcfg : cfg < 256)
    (hall : ∀ l ∈ lens, l ≤ 1275) (hdur : FramingSpec.frameDur48 cfg * lens.length ≤ 5760)
    (h : outRange cfg lens maxlen pad = .ok r) :
    ∃ v, Framing.parseImpl false (pktBytes r.hdr frames r.size) = .ok v ∧ v.sizes = lens ∧
      v.count = lens.length ∧ v.toc / 4 * 4 = cfg ∧ v.packetOffset = (pktBytes r.hdr frames r.size).length :=
  outRange_parses cfg lens maxlen pad r frames hfl h4 hcfg hall hdur h

/-- three 20 ms CELT frames of 3, 0 and 300 bytes padded to 400 bytes (code 3, VBR, padding). -/
example : outRange 252 [3, 0, 300] 400 true = .ok { size := 400, hdr := [255, 195, 92, 3, 0] } ∧
    FramingSpec.frameDur48 252 * 3 ≤ 5760 := by decide +kernel

/-- Clause "returns a well-formed Opus packet whose announced duration equals the submitted frame
    size", at full strength: for all oracle behaviours within the contracts, all settings/states within
    `stOk`, all legal frame sizes and all `out_data_bytes` (not 1 byte for 100 ms), on EVERY return path
    (low-budget ToC-only packet, single frame VBR/CBR/DTX, repacketised multi-frame packet) and for ANY
    frame contents of the recorded lengths: the emitted bytes `header ++ frames ++ zero padding` are
    accepted by `opus_packet_parse_impl` (the C06 model, proved sound and complete for RFC 6716), which
    reports exactly those frame sizes, announces `count · samples_per_frame(Fs) = frame_size`, and consumes
    exactly `ret` bytes — the whole packet, with `1 ≤ ret ≤ out_data_bytes`. -/
theorem encode_wellformed (s : St) (fuzz : Bool) (fsz out : Int) (o : NatOr)
    (he : entryCheck s fsz out = none) (hok : (encodeNative s fuzz fsz out o).ok = true)
    (frames : List Bytes) (hfl : frames.map List.length = (encodeNative s fuzz fsz out o).pkt.lens) :
    (1 ≤ (encodeNative s fuzz fsz out o).ret ∧ (encodeNative s fuzz fsz out o).ret ≤ out) ∧
    ∃ v, Framing.parseImpl false
        (pktBytes (encodeNative s fuzz fsz out o).pkt.hdr frames (encodeNative s fuzz fsz out o).pkt.size) = .ok v ∧
      v.sizes = (encodeNative s fuzz fsz out o).pkt.lens ∧
      (v.count : Int) * Framing.samplesPerFrame v.toc s.fs.toNat = fsz ∧
      (v.packetOffset : Int) = (encodeNative s fuzz fsz out o).ret ∧
      (pktBytes (encodeNative s fuzz fsz out o).pkt.hdr frames (encodeNative s fuzz fsz out o).pkt.size).length =
        v.packetOffset :=
  have h := encodeNative_post s fuzz fsz out o he hok
  ⟨⟨h.retLo, h.retHi⟩, encode_parses s fuzz fsz out o he hok frames hfl⟩

/-- 64 kb/s CBR, 60 ms, 48 kHz stereo: three CELT frames, header FF 43 03 (code 3, CBR, padding). -/
example : (encodeNative OpusProps.C02.exSt false 2880 4000 (OpusProps.C02.exOr 158)).ok = true ∧
    (encodeNative OpusProps.C02.exSt false 2880 4000 (OpusProps.C02.exOr 158)).pkt.lens = [158, 158, 158] ∧
    (encodeNative OpusProps.C02.exSt false 2880 4000 (OpusProps.C02.exOr 158)).pkt.hdr = [255, 67, 3] := by
  decide +kernel

/-- `redundancy_mirror`, SILK-only mode, at full strength (P1).  Part 1: whenever the frame skeleton
    `frameNative s fi e` — under its oracle contracts `frameOk` — signalled redundancy in SILK-only mode
    (`frRedSig` returned `redundancy = true`) and returned a packet (`ret ≥ 1`, not the DTX return, range coder not
    busted), then (a) the frame it emits has exactly `⌈tellB/8⌉ + redundancy_bytes` payload bytes
    (`(frameNative s fi e).payload`, what reaches `opus_decode_frame` as `len`), and (b) given C08's lock-step of the
    single flag bit (the decoder reads `celt_to_silk` back at the same `ec_tell`), the decoder skeleton
    `parseRedundancy` (opus_decoder.c:471-499) run ON THAT PAYLOAD LENGTH recovers
    `(redundancy, celt_to_silk, redundancy_bytes) = (1, celt_to_silk, rb)` and the SILK part's length — with NO
    decoder-side hypothesis.  In particular the corner "redundancy_bytes = 2, the flag bit cost no whole bit, ec_tell ≡ 0
    (mod 8)", where the decoder's length test `ec_tell+17 ≤ 8·len` would miss what the encoder's budget test
    `ec_tell+17 ≤ 8·(max_data_bytes−1)` admitted, is arithmetically impossible (`silk_gate_agrees`; the byte count
    the clamp of :2239-2240 starts from is ≥ 13, `mid_rb_ge`).  Part 2: without redundancy the SILK-only frame ends
    with the coded bits (`len ≤ ⌈ec_tell/8⌉`), so the decoder reads none. -/
theorem redundancy_mirror_silk :
    (∀ (s : St) (fi : FrameIn) (e : FrameOr) (x : Mid) (o : DecSkel.Oracle) (r : DecSkel.Run) (c2s : Bool),
      1 ≤ s.streamChannels ∧ s.streamChannels ≤ 2 → frSilk fi (frPre s fi) e = .cont x →
      x.st.mode = MODE_SILK_ONLY → (frRedSig fi x e).1 = true → frameOk s fi e = true →
      (frameNative s fi e).dtx = false → 1 ≤ (frameNative s fi e).ret → e.tellE ≤ (fi.maxDataBytes - 1) * 8 →
      o.bit r.k 1 e.tellA = (b2i c2s, e.tellB) →
      (frameNative s fi e).payload = (e.tellB + 7) / 8 + (frRedSig fi x e).2.1 ∧
      (DecSkel.parseRedundancy o DecSkel.MODE_SILK (frameNative s fi e).payload e.tellA r).1 =
        { redundancy := 1, celt_to_silk := b2i c2s, bytes := (frRedSig fi x e).2.1, len := (e.tellB + 7) / 8,
          tell := e.tellB }) ∧
    (∀ (o : DecSkel.Oracle) (r : DecSkel.Run) (len tellA : Int), len ≤ (tellA + 7) / 8 →
      (DecSkel.parseRedundancy o DecSkel.MODE_SILK len tellA r).1 =
        { redundancy := 0, celt_to_silk := 0, bytes := 0, len := len, tell := tellA }) := by
  refine ⟨?_, fun o r len tellA h => redundancy_mirror_silk_none o r len tellA h⟩
  intro s fi e x o r c2s hch hx hmode hred hok hdtx hret hbust h1
  have hxr : x.redundancy = true := by
    unfold frRedSig at hred
    dsimp only at hred
    split at hred
    · rename_i hb; unfold readsB at hb; simp only [Bool.and_eq_true] at hb; exact hb.2
    · cases hred
  have h13 := mid_rb_ge s fi e x hch hx hxr
  have hmono := silk_red_mono s fi e x hx hmode hred hok
  have hpay := silk_red_payload s fi e x hx hmode hred hok hdtx hret hbust
  rw [hpay]
  exact ⟨rfl, redundancy_mirror_silk_full fi x e o r c2s hmode (by omega) hred hmono h1⟩

/-- `redundancy_mirror`, hybrid mode with VBR off.  Whenever the frame skeleton `frameNative s fi e` — under its oracle
    contracts `frameOk`, which include "with VBR off the main CELT call returns exactly its budget" (CBR with
    OPUS_BITRATE_MAX, opus_encoder.c:2176/:2327; monitored on every recorded call) — signalled redundancy in hybrid mode
    and returned a packet, then (a) the frame it emits has exactly `max_data_bytes − 1` payload bytes, so the
    decoder's gate `ec_tell+37 ≤ 8·len` IS the encoder's gate of :2220, and (b) given C08's lock-step of the three
    symbols (`bit_logp(1,12)` at `tellA`, `bit_logp(celt_to_silk,1)` ending at `tellB`, `uint(rb−2,256)` ending at
    `tellD`: the decoder reads them back at the same `ec_tell`s), `parseRedundancy` run ON THAT PAYLOAD LENGTH recovers
    `(1, celt_to_silk, redundancy_bytes)` and leaves `max_data_bytes − 1 − rb` bytes for the main frame — with NO
    decoder-side hypothesis (the decoder's sanity test `ec_tell ≤ 8·(len−rb)` follows from the encoder's `tellD ≤
    8·nb_compr_bytes`, which made the main CELT call run). -/
theorem redundancy_mirror_hybrid_cbr (s : St) (fi : FrameIn) (e : FrameOr) (x : Mid) (o : DecSkel.Oracle)
    (r : DecSkel.Run) (c2s : Bool) (tell1 : Int)
    (hx : frSilk fi (frPre s fi) e = .cont x) (hmode : x.st.mode = MODE_HYBRID) (hcbr : x.st.useVbr = 0)
    (hred : (frRedSig fi x e).1 = true) (hok : frameOk s fi e = true)
    (hdtx : (frameNative s fi e).dtx = false) (hret : 1 ≤ (frameNative s fi e).ret)
    (hbust : e.tellE ≤ (fi.maxDataBytes - 1) * 8)
    (h1 : o.bit r.k 12 e.tellA = (1, tell1))
    (h2 : o.bit r.tick.k 1 tell1 = (b2i c2s, e.tellB))
    (h3 : o.uint r.tick.tick.k 256 e.tellB = ((frRedSig fi x e).2.1 - 2, e.tellD)) :
    (frameNative s fi e).payload = fi.maxDataBytes - 1 ∧
    (DecSkel.parseRedundancy o DecSkel.MODE_HYBRID (frameNative s fi e).payload e.tellA r).1 =
      { redundancy := 1, celt_to_silk := b2i c2s, bytes := (frRedSig fi x e).2.1,
        len := fi.maxDataBytes - 1 - (frRedSig fi x e).2.1, tell := e.tellD } := by
  obtain ⟨hpay, hgate, -, -, htd⟩ := hybrid_cbr_payload s fi e x hx hmode hcbr hred hok hdtx hret hbust
  refine ⟨hpay, ?_⟩
  rw [hpay]
  have h := redundancy_mirror_hybrid o r (fi.maxDataBytes - 1) e.tellA tell1 e.tellB e.tellD (frRedSig fi x e).2.1 true c2s
    hgate (by simpa [b2i] using h1) (fun _ => h2) (fun _ => h3) (fun _ => by omega)
  simpa [b2i] using h

/- NOT PROVED (design §7.C02 `redundancy_mirror`, hybrid mode with VBR on): there the length of the frame depends on
   what `celt_encode_with_ec` returns in VBR mode; the decoder's gate needs CELT's `min_allowed` (celt_encoder.c:2303-2318:
   `ec_tell_before + 37 ≤ 8·(ret + redundancy_bytes)`) and its sanity test `ec_tell ≤ 8·ret`, neither of which is a contract
   of the skeleton.  What IS proved for that case is only the decoder side: -/

/-- Decoder side only (NO encoder in this statement): what `parseRedundancy` computes in hybrid mode when its own gate
    passes on a frame of `len` bytes and the three symbols it reads are `red`, `c2s`, `rb − 2`.  Used by
    `redundancy_mirror_hybrid_cbr`; for hybrid VBR the hypotheses `hgate` / `hsane` are not derived from the encoder. -/
theorem hybrid_redundancy_parse (o : DecSkel.Oracle) (r : DecSkel.Run) (len tellA tell1 tellB tellU rb : Int)
    (red c2s : Bool) (hgate : tellA + 17 + 20 ≤ 8 * len) (h1 : o.bit r.k 12 tellA = (b2i red, tell1))
    (h2 : red = true → o.bit r.tick.k 1 tell1 = (b2i c2s, tellB))
    (h3 : red = true → o.uint r.tick.tick.k 256 tellB = (rb - 2, tellU))
    (hsane : red = true → tellU ≤ (len - rb) * 8) :
    (DecSkel.parseRedundancy o DecSkel.MODE_HYBRID len tellA r).1 =
      { redundancy := b2i red, celt_to_silk := if red then b2i c2s else 0, bytes := if red then rb else 0,
        len := if red then len - rb else len, tell := if red then tellU else tell1 } :=
  redundancy_mirror_hybrid o r len tellA tell1 tellB tellU rb red c2s hgate h1 h2 h3 hsane

/-! non-vacuity of `redundancy_mirror_silk` part 1: 16 kHz mono, SILK-only after a CELT frame (`celt_to_silk`), 20 ms,
    23 kb/s, 200 bytes of space; SILK ends at bit 300, the flag costs one bit → 38 coded bytes + 30 redundancy bytes -/
def exSilkSt : St :=
  { fs := 16000, channels := 1, application := 2048, useVbr := 1, userBitrate := 23000, forceChannels := -1000,
    signalType := -1000, userBandwidth := -1000, maxBandwidth := 1103, userForcedMode := -1000, lfe := 0, useDtx := 0,
    fecConfig := 0, variableDuration := 5000, complexity := 9, lossPerc := 0, useInBandFEC := 0, energyMasking := 0,
    streamChannels := 1, mode := 1000, prevMode := 1002, prevChannels := 1, prevFramesize := 320, bandwidth := 1103,
    autoBandwidth := 1103, silkBwSwitch := 0, first := 0, voiceRatio := -1, detectedBandwidth := 0, nbNoActivity := 0,
    nonfinalFrame := 0, bitrateBps := 23000, toMono := 0, lbrrCoded := 0, allowBwSwitch := 0, inWBmode := 0,
    opusCanSwitch := 0, silkUseDtx := 0 }
def exSilkFi : FrameIn :=
  { frameSize := 320, maxDataBytes := 200, isSilence := 0, redundancy := true, celtToSilk := true, prefill := 1,
    equivRate := 23000, toCelt := false }
def exSilkOr : FrameOr :=
  { aValid := 1, activity := 1, silkBitRateIn := 0, silkRet := 0, nBytes := 38, isr := 16000, switchReady := 0, allowBw := 0,
    inWB := 1, tellA := 300, tellB := 301, tellC := 301, tellD := 301, tellE := 301, stripTo := 38, celtRed1 := 30,
    celtMain := 0, celtRed2 := 0, used1 := 0, used2 := 0 }
example : (match frSilk exSilkFi (frPre exSilkSt exSilkFi) exSilkOr with
      | .cont x => decide (x.st.mode = MODE_SILK_ONLY ∧ frRedSig exSilkFi x exSilkOr = (true, 30, x.st))
      | .done _ => false) = true ∧
    frameOk exSilkSt exSilkFi exSilkOr = true ∧
    (frameNative exSilkSt exSilkFi exSilkOr).dtx = false ∧ (frameNative exSilkSt exSilkFi exSilkOr).ret = 69 ∧
    (frameNative exSilkSt exSilkFi exSilkOr).payload = (301 + 7) / 8 + 30 ∧
    exSilkOr.tellE ≤ (exSilkFi.maxDataBytes - 1) * 8 := by
  decide +kernel

/-! non-vacuity of `redundancy_mirror_hybrid_cbr`: 48 kHz mono hybrid FB, 64 kb/s CBR, 20 ms, 160 bytes, last hybrid frame
    before CELT-only (`to_celt`): SILK ends at bit 200, the three symbols end at bit 221, 36 redundancy bytes, CELT
    returns its whole budget 159 − 36 = 123 → payload 159 = max_data_bytes − 1 -/
def exHybSt : St :=
  { fs := 48000, channels := 1, application := 2049, useVbr := 0, userBitrate := 64000, forceChannels := -1000,
    signalType := -1000, userBandwidth := -1000, maxBandwidth := 1105, userForcedMode := -1000, lfe := 0, useDtx := 0,
    fecConfig := 0, variableDuration := 5000, complexity := 9, lossPerc := 0, useInBandFEC := 0, energyMasking := 0,
    streamChannels := 1, mode := 1001, prevMode := 1001, prevChannels := 1, prevFramesize := 960, bandwidth := 1105,
    autoBandwidth := 1105, silkBwSwitch := 0, first := 0, voiceRatio := -1, detectedBandwidth := 0, nbNoActivity := 0,
    nonfinalFrame := 0, bitrateBps := 64000, toMono := 0, lbrrCoded := 0, allowBwSwitch := 0, inWBmode := 0,
    opusCanSwitch := 0, silkUseDtx := 0 }
def exHybFi : FrameIn :=
  { frameSize := 960, maxDataBytes := 160, isSilence := 0, redundancy := true, celtToSilk := false, prefill := 0,
    equivRate := 64000, toCelt := true }
def exHybOr : FrameOr :=
  { aValid := 1, activity := 1, silkBitRateIn := 0, silkRet := 0, nBytes := 25, isr := 16000, switchReady := 0, allowBw := 0,
    inWB := 1, tellA := 200, tellB := 213, tellC := 0, tellD := 221, tellE := 1200, stripTo := 0, celtRed1 := 0,
    celtMain := 123, celtRed2 := 36, used1 := 27, used2 := 100 }
example : (match frSilk exHybFi (frPre exHybSt exHybFi) exHybOr with
      | .cont x => decide (x.st.mode = MODE_HYBRID ∧ x.st.useVbr = 0 ∧ frRedSig exHybFi x exHybOr = (true, 36, x.st))
      | .done _ => false) = true ∧
    frameOk exHybSt exHybFi exHybOr = true ∧
    (frameNative exHybSt exHybFi exHybOr).dtx = false ∧ (frameNative exHybSt exHybFi exHybOr).ret = 160 ∧
    (frameNative exHybSt exHybFi exHybOr).payload = 159 ∧ exHybOr.tellE ≤ (exHybFi.maxDataBytes - 1) * 8 := by
  decide +kernel

/-- the corner, concretely: budget 11 bytes, SILK part ends at bit 64 (≡ 0 mod 8), flag costs 0 bits:
    `max_redundancy = 10 − 8 = 2 ≥ …` cannot happen together with the encoder's gate `64+17 ≤ 80`;
    with the smallest budget that passes (12 bytes) three bytes of redundancy are available. -/
example : ¬ ((64 : Int) + 17 ≤ 8 * (11 - 1)) ∧ (64 : Int) + 17 ≤ 8 * (12 - 1) ∧
    min 257 (max 2 (min ((12 - 1) - (64 + 7) / 8) 13)) = (3 : Int) := by decide

/-- hybrid, 100-byte frame, SILK part ends at bit 200: flag, direction and byte count are read back. -/
example : (200 : Int) + 17 + 20 ≤ 8 * 100 ∧ (213 + 8 : Int) ≤ (100 - 30) * 8 := by decide

end OpusProps.C02
