import OpusProofs.EncSkelToc
import OpusProofs.EncSkelParse
/-
  Property C02 — "Every encoded packet is valid and decodes in lock-step with the encoder".

  Model: the encoder skeleton `Opus.EncSkel.encodeNative` (see OpusProps/C05.lean for what is an oracle and
  what `ok`/`entryCheck` mean), `gen_toc` (`Opus.EncDecide.genToc`), and the packet parser
  `Opus.Framing.parseImpl` that property C06 proves sound and complete against RFC 6716 §3.
  The payload symbol layer (SILK/CELT) is not modelled: final-range equality and decoder sample counts are
  searched on the real library only (tools/props/C02.py, harness/c02_lockstep.c).
-/
namespace OpusProps.C02
open Opus Opus.EncSkel Opus.EncDecide Opus.EncSkel.Proofs

/-- Clause "returns a well-formed Opus packet whose announced duration equals the submitted frame
    size", ToC part: for EVERY legal (mode, frame duration, bandwidth) — SILK 10/20/40/60 ms NB/MB/WB,
    hybrid 10/20 ms SWB/FB, CELT 2.5/5/10/20 ms NB/WB/SWB/FB — both channel counts and all five
    sampling rates, the ToC byte `gen_toc` writes is a byte with code bits 00, and the packet helpers
    read back the mode, the bandwidth, the channel count and `samples_per_frame(Fs) = frame_size`. -/
theorem genToc_roundtrip : ∀ t ∈ tocLegal, ∀ ch ∈ [(1 : Int), 2], ∀ fs ∈ [(8000 : Nat), 12000, 16000, 24000, 48000],
    genToc t.1 t.2.1 t.2.2 ch < 256 ∧ genToc t.1 t.2.1 t.2.2 ch % 4 = 0 ∧
    (Framing.getMode (genToc t.1 t.2.1 t.2.2 ch) : Int) = t.1 ∧
    (Framing.getBandwidth (genToc t.1 t.2.1 t.2.2 ch) : Int) = t.2.2 ∧
    (Framing.getNbChannels (genToc t.1 t.2.1 t.2.2 ch) : Int) = ch ∧
    (Framing.samplesPerFrame (genToc t.1 t.2.1 t.2.2 ch) fs : Int) = spfOf fs t.2.1 :=
  genToc_roundtrip_all

example : (1001, 50, 1105) ∈ tocLegal ∧ genToc 1001 50 1105 2 = 124 ∧ spfOf 48000 50 = 960 := by decide +kernel

/-- Clause "at least two bytes of output space succeeds (one byte is refused only for 100 ms
    frames)", low-budget path: for EVERY sampling rate, frame duration, stale `st->mode` (incl. 0 before
    the first frame), stale `st->bandwidth` (incl. 0), channel count and `out_data_bytes ∈ {1,2,≥3}`:
    the entry check refuses with OPUS_BUFFER_TOO_SMALL exactly for one byte and 100 ms; otherwise the
    ToC-only packet written at :1313-1321 fits `out_data_bytes`, parses (C06 parser), consists of empty
    frames only and announces exactly `frame_size` samples. -/
theorem lowBudget_valid :
    ∀ fs ∈ [(8000 : Nat), 12000, 16000, 24000, 48000], ∀ k ∈ [(1 : Int), 2, 4, 8, 16, 24, 32, 40, 48],
    ∀ mode ∈ [(0 : Int), 1000, 1001, 1002], ∀ bw ∈ [(0 : Int), 1101, 1102, 1103, 1104, 1105], ∀ ch ∈ [(1 : Int), 2],
    ∀ out ∈ [(1 : Int), 2, 3],
      (entryCheck (lowSt fs mode bw ch) (fs / 400 * k) out = some OPUS_BUFFER_TOO_SMALL ↔ (out = 1 ∧ k = 40)) ∧
      (¬ (out = 1 ∧ k = 40) →
        parsesTo (lowHdr0 (lowSt fs mode bw ch) (fs / 400 * k) out) fs (fs / 400 * k) = true ∧
        (lowHdr0 (lowSt fs mode bw ch) (fs / 400 * k) out).length = (lowRet0 (lowSt fs mode bw ch) (fs / 400 * k) out).toNat ∧
        lowRet0 (lowSt fs mode bw ch) (fs / 400 * k) out ≤ out) :=
  lowBudget_valid_all

example : lowHdr0 (lowSt 48000 1002 1105 2) 4800 3 = [0xFF, 5] ∧ parsesTo [0xFF, 5] 48000 4800 = true := by decide +kernel

/-- Clause "no call ever fails with an internal error": for all oracle behaviours within the contracts,
    all settings/states within `stOk`, legal frame sizes and `out_data_bytes ≥ 1` (not 1 byte for
    100 ms), NONE of the compiled OPUS_INTERNAL_ERROR sites of `opus_encode_native` /
    `opus_encode_frame_native` (:1329, :1726, :1735, :1743, :2101, :2301, :2355, :2394, :2505) is
    reached, nor the OPUS_BUFFER_TOO_SMALL of :2439, nor any `celt_assert` of the skeleton (:2006, :2114,
    `ec_enc_shrink`): the call returns a length `1 ≤ ret ≤ out_data_bytes`.  (The contracts used:
    silk_Encode returns 0; celt_encode_with_ec succeeds when given ≥ 2 bytes — the theorem shows it is
    never given fewer; SILK keeps its internal rate inside one packet, so `opus_repacketizer_cat`
    accepts every sub-frame; range-coder occupancy ≤ ec_tell.) -/
theorem no_internal_error (s : St) (fuzz : Bool) (fsz out : Int) (o : NatOr)
    (he : entryCheck s fsz out = none) (hok : (encodeNative s fuzz fsz out o).ok = true) :
    (encodeNative s fuzz fsz out o).abort = false ∧ 1 ≤ (encodeNative s fuzz fsz out o).ret ∧
    (encodeNative s fuzz fsz out o).ret ≤ out ∧ (encodeNative s fuzz fsz out o).ret ≠ OPUS_INTERNAL_ERROR := by
  have h := encodeNative_post s fuzz fsz out o he hok
  have := h.retLo
  exact ⟨h.noAbort, h.retLo, h.retHi, by simp only [OPUS_INTERNAL_ERROR]; omega⟩

example : entryCheck (lowSt 48000 1002 1105 2) 960 100 = none := by decide +kernel

/-- Clause "returns a well-formed Opus packet", repacketised / padded packets: whatever the
    repacketiser contract `outRange` emits — the model of `opus_repacketizer_out_range_impl` as the
    encoder calls it for multi-frame packets (:1742) and, through `opus_packet_pad`, for every CBR
    packet (:2504, :1325) — i.e. codes 0/1/2/3, CBR or VBR, with or without padding: for ANY frame
    contents of the recorded lengths, `header ++ frames ++ zero padding` is accepted by the packet
    parser (the C06 model, proved sound and complete for RFC 6716), which reports exactly those frame
    sizes and the same ToC configuration and consumes exactly `size` bytes. -/
theorem repack_output_parses (cfg : Nat) (lens : List Nat) (maxlen : Nat) (pad : Bool) (r : OutRes) (frames : List Bytes)
    (hfl : frames.map List.length = lens) (h4 : cfg % 4 = 0) (hcfg : cfg < 256)
    (hall : ∀ l ∈ lens, l ≤ 1275) (hdur : FramingSpec.frameDur48 cfg * lens.length ≤ 5760)
    (h : outRange cfg lens maxlen pad = .ok r) :
    ∃ v, Framing.parseImpl false (pktBytes r.hdr frames r.size) = .ok v ∧ v.sizes = lens ∧
      v.count = lens.length ∧ v.toc / 4 * 4 = cfg ∧ v.packetOffset = (pktBytes r.hdr frames r.size).length :=
  outRange_parses cfg lens maxlen pad r frames hfl h4 hcfg hall hdur h

/-- three 20 ms CELT frames of 3, 0 and 300 bytes padded to 400 bytes (code 3, VBR, padding). -/
example : outRange 252 [3, 0, 300] 400 true = .ok { size := 400, hdr := [255, 195, 92, 3, 0] } ∧
    FramingSpec.frameDur48 252 * 3 ≤ 5760 := by decide +kernel

/- FULL STATEMENT (design §7.C02 `encode_wellformed`), not yet proved in full:
     under the contracts every success return `r` of the skeleton has `1 ≤ r ≤ out_data_bytes` and the
     emitted bytes (`pkt.hdr ++ frames ++ zero padding` for ANY frame contents of the lengths `pkt.lens`)
     satisfy `parseImpl false … = .ok v` with `v.sizes = pkt.lens` and `v.count · spf(Fs) = frame_size`.
   Proved below (`encode_wellformed_partial`): the return range on every path, and the parse for the
   code-0 structure `ToC ++ payload` that every VBR single-frame return and every DTX return has
   (`FramePost.vbr`, `FramePost.dtx1`: `hdr = [toc]`, `ret = payload + 1`).
   and `repack_output_parses` above: every header the repacketiser contract emits parses back to the
   frame list.
   Missing (bookkeeping between the two): (1) carrying `pkt.hdr = (outRange …).hdr` / `pkt.lens` through
   the four return paths of `encodeNative` so that `repack_output_parses` applies to `pkt` itself;
   (2) the duration equation `count · samples_per_frame(toc) = frame_size` along the decision chain
   (needs `mode ≠ CELT → frame_size ≥ Fs/100` through `decide'`, then `genToc_roundtrip`).
   Both are covered on the implementation by the tie (header bytes and frame lengths compared exactly)
   and by the search (`opus_packet_parse` + `opus_packet_get_nb_samples` on every packet). -/
theorem encode_wellformed_partial (s : St) (fuzz : Bool) (fsz out : Int) (o : NatOr)
    (he : entryCheck s fsz out = none) (hok : (encodeNative s fuzz fsz out o).ok = true) :
    (1 ≤ (encodeNative s fuzz fsz out o).ret ∧ (encodeNative s fuzz fsz out o).ret ≤ out) ∧
    (∀ (toc : Nat) (payload : Bytes), toc % 4 = 0 → payload.length ≤ 1275 →
      Framing.parseImpl false ([toc] ++ payload) =
        .ok { toc, count := 1, sizes := [payload.length], payloadOffset := 1, padLen := 0,
              packetOffset := payload.length + 1 }) := by
  have h := encodeNative_post s fuzz fsz out o he hok
  exact ⟨⟨h.retLo, h.retHi⟩, fun toc payload h4 hl => parse_code0 toc payload h4 hl⟩

end OpusProps.C02
