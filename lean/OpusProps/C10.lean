import OpusProofs.LayoutSurround
import OpusProofs.LayoutRoute
import OpusProofs.LayoutMs
import OpusProofs.MatrixDemix
import OpusProofs.MsEncode
import OpusProofs.ProjectionImport
import OpusProofs.ProjectionCreate
import OpusProofs.MsEncodeSkel
import OpusProofs.LayoutIdentity
import OpusProofs.ProjectionInt24
import OpusProofs.LayoutIsqrt
/-
  Property C10 — "Multistream and projection equal per-stream coding plus the channel mapping".

  Model:  `Opus.Layout`  (src/opus_multistream.c, opus_multistream_decoder.c, opus_multistream_encoder.c,
                          opus_projection_encoder.c: layout validation, channel lookup, creation argument
                          checks, surround / ambisonics / projection layout construction, multistream packet
                          validation, the decode routing loop over opaque per-stream decoders)
          `Opus.Matrix`  (src/mapping_matrix.c: the ten regenerated Q15 matrices, int16 multiply paths)
  Spec:   `Opus.LayoutSpec` (RFC 7845 §5.1.1, RFC 8486 §3, RFC 6716 App. B), `Opus.FramingSpec` (C06).

  The per-stream encoders and decoders are opaque: `routing` holds for every answer they may give.
  That the streams inside a real multistream decoder evolve exactly like stand-alone decoders, and
  that the multistream *encoder* emits self-delimited packets of equal duration, is established on
  the implementation by the S4 search (tools/props/C10.py), not here.
-/
namespace OpusProps.C10
open Opus Opus.Layout Opus.LayoutSpec Opus.FramingSpec Opus.Matrix

/-- **Layout validation is the RFC 7845 §5.1.1 validity predicate.**  `validate_layout` accepts exactly
    the layouts whose decoded-channel count fits a byte and whose every mapping byte is an index below
    `streams + coupled` or 255; `validate_encoder_layout` accepts exactly those in which every stream
    is fed (both sides of a coupled stream).  For every layout, including duplicates and 255. -/
theorem validate_spec (l : ChannelLayout) :
    (validateLayout l = true ↔
      l.nbStreams + l.nbCoupled ≤ 255 ∧
      ∀ m ∈ l.mapping.take l.nbChannels, m < l.nbStreams + l.nbCoupled ∨ m = 255) ∧
    (validateEncoderLayout l = true ↔
      ∀ s, s < l.nbStreams →
        (s < l.nbCoupled → s * 2 ∈ l.mapping.take l.nbChannels ∧ s * 2 + 1 ∈ l.mapping.take l.nbChannels) ∧
        (¬ s < l.nbCoupled → s + l.nbCoupled ∈ l.mapping.take l.nbChannels)) :=
  ⟨validateLayout_iff l, validateEncoderLayout_iff l⟩

example : validateLayout ⟨4, 2, 1, [2, 255, 0, 0]⟩ = true ∧ validateEncoderLayout ⟨4, 2, 1, [2, 255, 0, 0]⟩ = false ∧
    validateLayout ⟨2, 1, 0, [0, 1]⟩ = false := by decide

/-- **Invalid layouts are rejected at creation.**  The multistream decoder is created exactly when
    `1 ≤ channels ≤ 255`, `1 ≤ streams`, `0 ≤ coupled ≤ streams`, `streams + coupled ≤ 255`, the layout
    is valid and the rate is supported; the encoder additionally needs `streams + coupled ≤ channels` and
    every stream fed.  `create` and `init` agree.  Every refusal is `OPUS_BAD_ARG`; the only other
    outcome is the API-contract violation of a mapping array shorter than `channels`. -/
theorem create_rejects (innerOk : Bool) (ch st co : Int) (m : List Nat) :
    (∀ l, decoderCreate innerOk ch st co m = .ok l ↔
      DecArgsOk ch st co ∧ ch.toNat ≤ m.length ∧ LayoutValid (storedLayout ch st co m) ∧ innerOk = true ∧
      l = storedLayout ch st co m) ∧
    (∀ e, encoderCreate innerOk ch st co m = .ok e ↔
      EncArgsOk ch st co ∧ ch.toNat ≤ m.length ∧ LayoutValid (storedLayout ch st co m) ∧
      EncoderLayoutValid (storedLayout ch st co m) ∧ innerOk = true ∧
      e = { layout := storedLayout ch st co m, lfeStream := -1, mappingType := .none }) ∧
    decoderCreate innerOk ch st co m = decoderInit innerOk ch st co m ∧
    encoderCreate innerOk ch st co m = encoderInit innerOk ch st co m ∧
    ((∃ l, decoderCreate innerOk ch st co m = .ok l) ∨ decoderCreate innerOk ch st co m = .err .badArg ∨
      (decoderCreate innerOk ch st co m = .oob ∧ m.length < ch.toNat)) ∧
    ((∃ e, encoderCreate innerOk ch st co m = .ok e) ∨ encoderCreate innerOk ch st co m = .err .badArg ∨
      (encoderCreate innerOk ch st co m = .oob ∧ m.length < ch.toNat)) := by
  refine ⟨fun l => ?_, fun e => ?_, decoderCreate_eq _ _ _ _ _, encoderCreate_eq _ _ _ _ _, ?_, ?_⟩
  · rw [decoderCreate_eq]; exact decoderInit_ok_iff _ _ _ _ _ _
  · rw [encoderCreate_eq, encoderInit, encoderInitImpl_ok_iff]
    constructor
    · rintro ⟨a, b, c, d, _, f, g⟩; exact ⟨a, b, c, d, f, g⟩
    · rintro ⟨a, b, c, d, f, g⟩; exact ⟨a, b, c, d, (fun h => by cases h), f, g⟩
  · rw [decoderCreate_eq]
    rcases decoderInit_cases innerOk ch st co m with h | h | h
    · exact Or.inl h
    · exact Or.inr (Or.inl h)
    · exact Or.inr (Or.inr ⟨h.1, h.2.2⟩)
  · rw [encoderCreate_eq, encoderInit]
    rcases encoderInitImpl_cases innerOk ch st co m .none (-1) with h | h | h
    · exact Or.inl h
    · exact Or.inr (Or.inl h)
    · exact Or.inr (Or.inr ⟨h.1, h.2.2⟩)

example : decoderCreate true 4 2 1 [2, 255, 0, 0] = .ok ⟨4, 2, 1, [2, 255, 0, 0]⟩ ∧
    decoderCreate true 2 1 0 [0, 1] = .err .badArg ∧ decoderCreate true 2 200 56 [0, 1] = .err .badArg ∧
    encoderCreate true 4 2 1 [2, 255, 0, 0] = .err .badArg ∧
    encoderCreate true 3 2 1 [2, 1, 0] = .ok ⟨⟨3, 2, 1, [2, 1, 0]⟩, -1, .none⟩ := by decide

/-- **Decoding routes every stream to the channels its mapping designates.**  For every decoder that
    creation accepted, every packet / PLC call and *every* behaviour of the per-stream decoders
    (`rets`: their return values and consumed lengths; their PCM is arbitrary): if
    `opus_multistream_decode_native` returns a positive sample count then
    * each output channel `c` receives **exactly one** `copy_channel_out` call,
    * whose source is the left / right side of coupled stream `mapping[c]/2` when
      `mapping[c] < 2·coupled`, mono stream `mapping[c] − coupled` otherwise, and `NULL` (zeros)
      iff `mapping[c] = 255`,
    * with the sample count that stream's decoder returned (the final frame size for muted channels),
    * no call targets a channel outside `0 .. channels-1`, and every stream decoder returned `> 0`. -/
theorem routing (innerOk : Bool) (ch st co : Int) (m : List Nat) (l : ChannelLayout)
    (hcreate : decoderCreate innerOk ch st co m = .ok l)
    (fsRate : Nat) (frameSize len : Int) (validate : Res Nat) (rets : List StreamRet)
    (hrets : rets.length = l.nbStreams) (r : Routed)
    (hdec : decodeNative l fsRate frameSize len validate rets = .ok r) (hpos : r.ret > 0) :
    (∀ c, c < l.nbChannels →
      r.calls.filter (fun k => k.chan = c) =
        [{ chan := c, src := expectedSrc l c, frameSize := srcFrame rets r.ret (expectedSrc l c) }] ∧
      (expectedSrc l c = .zero ↔ l.mapping[c]? = some 255) ∧
      (expectedSrc l c).streamLt l.nbStreams) ∧
    (∀ k ∈ r.calls, k.chan < l.nbChannels) ∧ (∀ s ∈ rets, s.ret > 0) := by
  rw [decoderCreate_eq] at hcreate
  obtain ⟨hv, hcs, hmap, _, _⟩ := decoderInit_layout_facts innerOk ch st co m l hcreate
  obtain ⟨fs0, hr⟩ := decodeNative_success l fsRate frameSize len validate rets r hdec hpos
  have htake : rets.take l.nbStreams = rets := List.take_of_length_le (by omega)
  rw [htake] at hr
  subst hr
  refine ⟨fun c hc => ⟨routing_calls l _ rets len fs0 hv hcs hmap hrets hpos c hc,
      expectedSrc_zero_iff l c hc hmap, expectedSrc_in_range l hv hcs hmap c hc⟩,
    routing_in_range l _ rets len fs0 hpos, ?_⟩
  have := (routeLoop_success l _ rets 0 len fs0 [] hpos).2.2
  exact this

/-- **…bit for bit the samples of the mapped stream, exact silence for 255.**  When every stream
    decoder returns the common duration `n` (which `opus_multistream_packet_validate` established for the
    packet), the call returns `n` and output channel `c` is written once, with the first `n` samples
    of the stand-alone output `pcm` of its designated stream and side — `n` zeros for a muted channel. -/
theorem routing_pcm {α} [OfNat α 0] (pcm : Src → List α)
    (innerOk : Bool) (ch st co : Int) (m : List Nat) (l : ChannelLayout)
    (hcreate : decoderCreate innerOk ch st co m = .ok l)
    (fsRate : Nat) (frameSize len : Int) (validate : Res Nat) (rets : List StreamRet)
    (hrets : rets.length = l.nbStreams) (n : Int) (hn : ∀ s ∈ rets, s.ret = n) (r : Routed)
    (hdec : decodeNative l fsRate frameSize len validate rets = .ok r) (hpos : r.ret > 0) :
    r.ret = n ∧ ∀ c, c < l.nbChannels →
      channelWrites pcm r.calls c = [srcSamples pcm n (expectedSrc l c)] ∧
      (l.mapping[c]? = some 255 → srcSamples pcm n (expectedSrc l c) = List.replicate n.toNat 0) := by
  have hR := routing innerOk ch st co m l hcreate fsRate frameSize len validate rets hrets r hdec hpos
  rw [decoderCreate_eq] at hcreate
  obtain ⟨_, _, hmap, _, hst⟩ := decoderInit_layout_facts innerOk ch st co m l hcreate
  obtain ⟨fs0, hr⟩ := decodeNative_success l fsRate frameSize len validate rets r hdec hpos
  have htake : rets.take l.nbStreams = rets := List.take_of_length_le (by omega)
  rw [htake] at hr
  have hne : rets ≠ [] := by intro h; rw [h] at hrets; simp at hrets; omega
  have hret : r.ret = n := by
    rw [hr] at hpos ⊢
    rw [(routeLoop_success l _ rets 0 len fs0 [] hpos).2.1]
    exact finalFs_const rets n fs0 hne hn
  refine ⟨hret, fun c hc => ?_⟩
  obtain ⟨hcalls, hzero, hlt⟩ := hR.1 c hc
  constructor
  · rw [channelWrites_of_calls pcm r.calls c _ hcalls]
    simp only
    rw [hret, srcFrame_const rets n hn _ (by rw [hrets]; exact hlt)]
  · intro h255
    rw [(hzero).2 h255]; rfl

example : (decodeNative ⟨4, 2, 1, [2, 255, 0, 0]⟩ 48000 960 10 (.ok 960) [⟨960, 5⟩, ⟨960, 5⟩]) =
    .ok ⟨960, [⟨2, .left 0, 960⟩, ⟨3, .left 0, 960⟩, ⟨0, .mono 1, 960⟩, ⟨1, .zero, 960⟩]⟩ := by
  simp [decodeNative, routeLoop, streamCalls_eq, scanAll, mutedCalls, ChannelLayout.chans]

/-- **Surround and ambisonics encoders use the layouts the RFCs prescribe, for every channel count.**
    For every mapping family in {0, 1, 2, 255} and every channel count 1..255 (`SurroundSpec`): if RFC
    7845 §5.1.1 / RFC 8486 §3.1 define a layout for that count (`rfcLayout`), then
    `opus_multistream_surround_encoder_init` and `_create` succeed and report exactly that
    `(streams, coupled, mapping)`, store it as the encoder's layout (LFE stream and mapping type set), both
    validators accept it, and the generic multistream encoder and decoder accept it; if they define
    none, both entry points refuse.  Channel counts outside 1..255 are `OPUS_BAD_ARG`, other families
    `OPUS_UNIMPLEMENTED`. -/
theorem surround_layout_valid :
    (∀ family : Int, family = 0 ∨ family = 1 ∨ family = 2 ∨ family = 255 →
      ∀ ch : Nat, 1 ≤ ch → ch ≤ 255 → SurroundSpec family ch) ∧
    (∀ (innerOk : Bool) (channels family : Int), channels < 1 ∨ channels > 255 →
      surroundInit innerOk channels family = .err .badArg ∧ surroundCreate innerOk channels family = .err .badArg) ∧
    (∀ (innerOk : Bool) (channels family : Int), 1 ≤ channels ∧ channels ≤ 255 →
      family ≠ 0 ∧ family ≠ 1 ∧ family ≠ 2 ∧ family ≠ 255 →
      surroundInit innerOk channels family = .err .unimplemented ∧
      surroundCreate innerOk channels family = .err .unimplemented) :=
  ⟨surroundSpec_all, surround_out_of_range, surround_unknown_family⟩

example : rfcLayout 1 6 = some (4, 2, [0, 4, 1, 2, 3, 5]) ∧ rfcLayout 2 11 = some (10, 1, [2, 3, 4, 5, 6, 7, 8, 9, 10, 0, 1]) ∧
    rfcLayout 255 3 = some (3, 0, [0, 1, 2]) ∧ rfcLayout 0 3 = none ∧ rfcLayout 2 5 = none := by decide
example : surroundCreate true 6 1 =
    .ok (⟨4, 2, [0, 4, 1, 2, 3, 5], 3⟩, ⟨⟨6, 4, 2, [0, 4, 1, 2, 3, 5]⟩, 3, .surround⟩) := by decide

/-- **Family 1 is RFC 7845 §5.1.1.2.**  For 1..8 channels the regenerated `vorbis_mappings` table equals
    the published literal, and each entry meets what the RFC's loudspeaker order demands
    (`Family1Ok`): the mapping is a permutation of the decoded channels with `streams + coupled =
    channels`, each left/right loudspeaker pair is the two sides of one coupled stream, and the LFE
    is the last, uncoupled, stream. -/
theorem family1_is_rfc7845 : ∀ ch ∈ List.range 9, 1 ≤ ch →
    some ((vorbisEntry ch).1, (vorbisEntry ch).2.1, (vorbisEntry ch).2.2.take ch) = family1Literal ch ∧
    Family1Ok ch (vorbisEntry ch).1 (vorbisEntry ch).2.1 ((vorbisEntry ch).2.2.take ch) = true :=
  fun ch h h1 => ⟨vorbis_is_literal ch h h1, vorbis_family1Ok ch h h1⟩

example : Family1Ok 6 4 2 [0, 4, 1, 2, 3, 5] = true ∧ Family1Ok 6 4 2 [0, 4, 2, 1, 3, 5] = false ∧
    Family1Ok 6 4 2 [0, 5, 1, 2, 3, 4] = false := by decide

/-- **Ambisonics channel counts (RFC 8486 §3.1).**  `validate_ambisonics` accepts `ch` — for every
    integer `ch` — exactly when `ch = (n+1)² + 2j` for an order `n ≤ 14` and `j ∈ {0,1}`, and then
    reports `(n+1)² + j` streams of which `j` coupled. -/
theorem ambisonics_counts (ch : Int) (s c : Nat) :
    validateAmbisonics ch = some (s, c) ↔
      ∃ n j : Nat, n ≤ 14 ∧ j ≤ 1 ∧ ch = ((n + 1) * (n + 1) + 2 * j : Nat) ∧ s = (n + 1) * (n + 1) + j ∧ c = j := by
  rw [validateAmbisonics_eq]
  constructor
  · intro h
    split at h
    · cases h
    · rename_i h1
      unfold ambiExpected at h
      cases hq : ambiOrder ch.toNat with
      | none => rw [hq] at h; cases h
      | some nj =>
        rw [hq] at h
        obtain ⟨n, j⟩ := nj
        simp only [Option.map_some, Option.some.injEq, Prod.mk.injEq] at h
        obtain ⟨hn, hj⟩ := ambiOrder_bounds _ n j hq
        have := (ambiOrder_iff _ n j hn hj).1 hq
        exact ⟨n, j, hn, hj, by omega, h.1.symm, h.2.symm⟩
  · rintro ⟨n, j, hn, hj, rfl, rfl, rfl⟩
    have hp : 1 ≤ (n + 1) * (n + 1) := Nat.mul_pos (by omega) (by omega)
    rw [if_neg (by omega), Int.toNat_natCast]
    unfold ambiExpected
    rw [(ambiOrder_iff _ n _ hn hj).2 rfl]; rfl

example : validateAmbisonics 11 = some (10, 1) ∧ validateAmbisonics 227 = some (226, 1) ∧
    validateAmbisonics 5 = none ∧ validateAmbisonics 228 = none ∧ validateAmbisonics 0 = none := by decide

/-- **Projection (family 3) layouts.**  For every channel count 1..255: when `ch = (n+1)² + 2j` with
    order `1 ≤ n ≤ 5`, `opus_projection_ambisonics_encoder_init/_create` succeed with
    `(ch+1)/2` streams, `ch/2` coupled and the identity mapping, the built-in matrices are large enough,
    and the multistream decoder accepts the layout; every other count, every other family and every
    channel count outside 1..255 is refused. -/
theorem projection_layout_valid :
    (∀ ch ∈ List.range 256, 1 ≤ ch → projectionCheck ch = true) ∧
    (∀ (innerOk : Bool) (channels family : Int), family ≠ 3 ∨ channels < 1 ∨ channels > 227 →
      projectionInit builtinDims innerOk channels family = .err .badArg ∧
      projectionCreate builtinDims innerOk channels family = .err .allocFail) :=
  ⟨projectionCheck_all, fun innerOk channels family h => projection_out_of_domain _ innerOk channels family h⟩

example : family3 11 = some (6, 5, List.range 11) ∧ family3 3 = none ∧ family3 49 = none := by decide

/-- **The demixing matrix inverts the mixing matrix up to the stated gain.**  For each of the five
    built-in orders, with and without the non-diegetic pair, `P = D·M` over ℤ on the cells the encoder
    uses / exports (Q15·Q15 = Q30) and `g` the demixing gain in Q8 dB:
    `|P[i][j]·10^(g/5120) − δᵢⱼ·2³⁰| ≤ 3·10⁻⁴·2³⁰` for all `i, j`, with the exact real `10^(g/5120)`. -/
theorem demix_inverts_mix (o ch : Nat)
    (hoc : (o, ch) ∈ [(2, 6), (2, 4), (3, 11), (3, 9), (4, 18), (4, 16), (5, 27), (5, 25), (6, 38), (6, 36)])
    (i j : Nat) (hi : i < ch) (hj : j < ch) :
    |(entry (product o ch) i j : ℝ) * (10 : ℝ) ^ (((demixGain o : Int) : ℝ) / 5120) -
        (if i = j then (2 : ℝ) ^ 30 else 0)| ≤ 3 / 10000 * (2 : ℝ) ^ 30 :=
  demix_inverts_mix_real o ch hoc i j hi hj

example : demixGain 3 = 3050 ∧ demixGain 2 = 0 ∧ entry (product 2 6) 0 0 = 1073719812 ∧
    entry (product 2 6) 2 0 = 22012 ∧ entry (product 3 11) 0 0 = 272343708 := by decide +kernel

/-- **The projection decoder's own copy of the demixing matrix.**  The little-endian int16 coding the
    encoder exports with `OPUS_PROJECTION_GET_DEMIXING_MATRIX` is inverted by the byte parsing of
    `opus_projection_decoder_init` for every int16 value; and for each built-in order (with / without the
    non-diegetic pair) `opus_projection_decoder_create`, given the exported `2·ch·ch` bytes and the
    encoder's `(ch+1)/2` streams / `ch/2` coupled streams, succeeds with the identity layout and a
    `ch × ch` matrix whose cells are the restricted built-in demixing matrix — so the product formed with
    the decoder's copy is exactly the `product o ch` of `demix_inverts_mix`. -/
theorem import_export_demix :
    (∀ v : Int, InInt16 v → Projection.importCell (Projection.exportCell v).1 (Projection.exportCell v).2 = v) ∧
    (∀ o ch, (o, ch) ∈ [(2, 6), (2, 4), (3, 11), (3, 9), (4, 18), (4, 16), (5, 27), (5, 25), (6, 38), (6, 36)] →
      ∃ d mx bytes pd, demixing o = some d ∧ mixing o = some mx ∧ exportDemixing d ch ch = .ok bytes ∧
        bytes.length = 2 * ch * ch ∧
        Projection.decoderCreate true ch ((ch + 1) / 2 : Nat) (ch / 2 : Nat) bytes (2 * ch * ch : Nat) = .ok pd ∧
        pd.matrix.rows = ch ∧ pd.matrix.cols = ch ∧ subCols pd.matrix ch ch = subCols d ch ch ∧
        pd.layout = ⟨ch, (ch + 1) / 2, ch / 2, List.range ch⟩ ∧
        productCols pd.matrix mx ch ch = product o ch) :=
  ⟨Projection.importCell_exportCell, Projection.import_export⟩

/-- **Projection decoder creation rejects exactly the documented argument classes** (the code as repaired by
    `fix:` commit 31272f65).  `opus_projection_decoder_init` succeeds iff `1 ≤ channels ≤ 255`,
    `1 ≤ streams`, `0 ≤ coupled ≤ streams`, `streams + coupled ≤ 255`, the announced size is
    `2·(streams+coupled)·channels ≤ 65004` (and the buffer holds that many bytes), there are at least
    `channels` coded channels (identity mapping valid) and the rate is supported; it then stores the parsed
    cells as a `channels × (streams+coupled)` matrix with gain 0 and the identity layout.  Every refusal is
    `OPUS_BAD_ARG` (`create`: or `OPUS_ALLOC_FAIL`), it never aborts — in particular the scratch array
    always has a positive length — and reads past the matrix only if the caller's buffer is shorter than
    the size it announced.  `create` succeeds exactly when `init` does, with the same state. -/
theorem projdec_create_rejects (innerOk : Bool) (ch st co : Int) (dm : Bytes) (size : Int) :
    (Projection.decoderInit innerOk ch st co dm size ≠ .abort ∧
     (Projection.decoderInit innerOk ch st co dm size = .oob →
       DecArgsOk ch st co ∧ (st + co) * ch * 2 = size ∧ (dm.length : Int) < size) ∧
     (∀ e, Projection.decoderInit innerOk ch st co dm size = .err e → e = .badArg) ∧
     (∀ pd, Projection.decoderInit innerOk ch st co dm size = .ok pd ↔
       DecArgsOk ch st co ∧ (st + co) * ch * 2 = size ∧ size ≤ dm.length ∧ size ≤ 65004 ∧ ch ≤ st + co ∧
       innerOk = true ∧ ∃ cells, Projection.importCells dm ((st + co) * ch).toNat = .ok cells ∧
         pd = { matrix := { rows := ch.toNat, cols := (st + co).toNat, gain := 0, data := cells },
                layout := storedLayout ch st co (List.range ch.toNat) })) ∧
    (Projection.decoderCreate innerOk ch st co dm size ≠ .abort ∧
     (∀ e, Projection.decoderCreate innerOk ch st co dm size = .err e → e = .badArg ∨ e = .allocFail) ∧
     (∀ pd, Projection.decoderInit innerOk ch st co dm size = .ok pd →
       Projection.decoderCreate innerOk ch st co dm size = .ok pd) ∧
     (∀ pd, Projection.decoderCreate innerOk ch st co dm size = .ok pd →
       Projection.decoderInit innerOk ch st co dm size = .ok pd)) :=
  ⟨Projection.decoderInit_outcomes innerOk ch st co dm size, Projection.decoderCreate_outcomes innerOk ch st co dm size⟩

/-- zero channels / zero coded channels with a matching size of 0 — the inputs that used to reach a
    zero-length scratch array — are now plain `OPUS_BAD_ARG` -/
example : Projection.decoderInit true 0 1 0 [] 0 = .err .badArg ∧ Projection.decoderInit true 1 1 (-1) [] 0 = .err .badArg ∧
    Projection.decoderCreate true 1 1 0 [0, 64] 2 = .ok ⟨⟨1, 1, 0, [16384]⟩, ⟨1, 1, 0, [0]⟩⟩ := by decide

example : Projection.exportCell (-23170) = (0x7E, 0xA5) ∧ Projection.importCell 0x7E 0xA5 = -23170 ∧
    Projection.decoderCreate true 4 2 2 [0, 64] 32 = .oob ∧
    Projection.decoderCreate true 4 2 2 [0, 64] 30 = .err .badArg := by decide

/-- **`isqrt32` is the integer square root** on its whole domain (every `1 ≤ n < 2³²`), not just on the
    channel counts: `r² ≤ n < (r+1)²`. -/
theorem isqrt32_correct (n : Nat) (h1 : 1 ≤ n) (h2 : n < 2 ^ 32) :
    isqrt32 n * isqrt32 n ≤ n ∧ n < (isqrt32 n + 1) * (isqrt32 n + 1) :=
  Layout.isqrt32_correct n h1 h2

example : isqrt32 227 = 15 ∧ isqrt32 4294967295 = 65535 ∧ isqrt32 4294836225 = 65535 ∧ isqrt32 4294836224 = 65534 := by
  decide +kernel

/-- **Ambisonics (family 2) channels keep their identity.**  For every channel count for which RFC 8486
    defines a family-2 layout (the one `surround_layout_valid` shows the encoder builds): every channel `k`
    is coded (not muted), and the stream side the decoder writes to output channel `k` is the one the
    encoder filled from input channel `k` (C04's `encoderInput`).  Complements C04
    `surround_channel_identity` (families 0/1/255). -/
theorem ambisonics_channel_identity (ch : Nat) (e : Nat × Nat × List Nat) (he : rfcLayout 2 ch = some e)
    (k : Nat) (hk : k < ch) :
    expectedSrc (layoutOf ch e) k ≠ .zero ∧
    DelayChannels.encoderInput (layoutOf ch e) (expectedSrc (layoutOf ch e) k) = (k : Int) := by
  have h := ambiIdentity_all ch
  unfold ambiIdentity at h
  rw [he] at h
  simp only [List.all_eq_true, List.mem_range, Bool.and_eq_true, decide_eq_true_eq] at h
  exact h k hk

example : rfcLayout 2 6 = some (5, 1, [2, 3, 4, 5, 0, 1]) ∧
    expectedSrc (layoutOf 6 (5, 1, [2, 3, 4, 5, 0, 1])) 4 = .left 0 ∧
    DelayChannels.encoderInput (layoutOf 6 (5, 1, [2, 3, 4, 5, 0, 1])) (.left 0) = 4 := by decide

/-- **Projection (family 3): mixing then demixing is the identity up to the stated gain, channel by
    channel.**  For each built-in order (with / without the non-diegetic pair): the projection decoder
    created from the encoder's exported matrix holds `pd`; the multistream layer between the two matrices
    uses the identity mapping, so decoded channel `c` is exactly coded channel `c` (C04's `encoderInput`,
    no channel muted); and the transfer from input channel `j` to output channel `i` — demixing cells of the
    decoder's own copy times the encoder's mixing cells, Q30 — scaled by the exported gain is within
    `3·10⁻⁴` of `δᵢⱼ`: channels keep their identity and level.  (`demix_inverts_mix` ∘
    `import_export_demix` ∘ identity layout.) -/
theorem projection_mix_demix_identity (o ch : Nat)
    (hoc : (o, ch) ∈ [(2, 6), (2, 4), (3, 11), (3, 9), (4, 18), (4, 16), (5, 27), (5, 25), (6, 38), (6, 36)]) :
    ∃ d mx bytes pd, demixing o = some d ∧ mixing o = some mx ∧ exportDemixing d ch ch = .ok bytes ∧
      Projection.decoderCreate true ch ((ch + 1) / 2 : Nat) (ch / 2 : Nat) bytes (2 * ch * ch : Nat) = .ok pd ∧
      (∀ c, c < ch → DelayChannels.encoderInput pd.layout (expectedSrc pd.layout c) = (c : Int) ∧
        expectedSrc pd.layout c ≠ .zero) ∧
      ∀ i j, i < ch → j < ch →
        |(entry (productCols pd.matrix mx ch ch) i j : ℝ) * (10 : ℝ) ^ (((d.gain : Int) : ℝ) / 5120) -
            (if i = j then (2 : ℝ) ^ 30 else 0)| ≤ 3 / 10000 * (2 : ℝ) ^ 30 := by
  obtain ⟨d, mx, bytes, pd, hd, hmx, hex, _, hcr, _, _, _, hlay, hprod⟩ := Projection.import_export o ch hoc
  have hch : ch ≤ 255 := by
    simp only [List.mem_cons, Prod.mk.injEq, List.not_mem_nil, or_false] at hoc; omega
  refine ⟨d, mx, bytes, pd, hd, hmx, hex, hcr, fun c hc => ?_, fun i j hi hj => ?_⟩
  · rw [hlay]; exact identity_mapping_identity ch _ _ c hch hc
  · rw [hprod]
    have hg : demixGain o = d.gain := by simp [demixGain, hd]
    rw [← hg]
    exact demix_inverts_mix o ch hoc i j hi hj

/-- **A multistream packet is one self-delimited packet per stream, the last in standard framing, all of
    equal duration.**  For every byte string, stream count `n ≥ 1` and API rate:
    `opus_multistream_packet_validate` returns `k` samples exactly when the bytes are
    `serialize true p₁ ++ … ++ serialize true p₍ₙ₋₁₎ ++ serialize false pₙ` for RFC-valid packets
    (C06 `Valid`) that all last `k` samples; and on every input it reads only the packet. -/
theorem ms_packet_structure (bs : Bytes) (hb : BytesOk bs) (n fs k : Nat) (hn : 1 ≤ n) (hfs : Rate fs) :
    (msPacketValidate bs n fs = .ok k ↔
      ∃ ps : List Packet, ps.length = n ∧ (∀ p ∈ ps, Valid p) ∧ bs = msSerialize ps ∧
        ∀ p ∈ ps, duration fs p = k) ∧
    (msPacketValidate bs n fs = .ok k → 2 * n - 1 ≤ bs.length) ∧
    msPacketValidate bs n fs ≠ .oob ∧ msPacketValidate bs n fs ≠ .abort := by
  have hnf := validateLoop_nofault fs n true 0 bs
  refine ⟨⟨fun h => ?_, ?_⟩, fun h => ?_, ?_, ?_⟩
  · rcases validateLoop_sound fs n true 0 bs k hb h with ⟨h0, _⟩ | ⟨_, ps, hlen, hval, hser, hdur, _⟩
    · omega
    · refine ⟨ps, hlen, hval, hser, fun p hp => ?_⟩
      have h1 := hdur p hp
      rw [getNbSamples_serialize false p (hval p hp) fs hfs] at h1
      cases h1; rfl
  · rintro ⟨ps, hlen, hval, hser, hdur⟩
    have hne : ps ≠ [] := by intro h; rw [h] at hlen; simp at hlen; omega
    have := validateLoop_complete fs hfs ps true 0 k hne hval hdur (fun h => by cases h)
    rw [hlen, ← hser] at this
    exact this
  · rcases validateLoop_sound fs n true 0 bs k hb h with ⟨h0, _⟩ | ⟨_, ps, hlen, hval, hser, _, _⟩
    · omega
    · have hne : ps ≠ [] := by intro h; rw [h] at hlen; simp at hlen; omega
      have := msSerialize_length_ge ps hne hval
      rw [hser, ← hlen]; exact this
  · intro h; unfold msPacketValidate at h; rw [h] at hnf; cases hnf
  · intro h; unfold msPacketValidate at h; rw [h] at hnf; cases hnf

example : msPacketValidate ([0xF8, 2, 7, 7] ++ [0xFC, 9]) 2 48000 = .ok 960 ∧
    msPacketValidate ([0xF8, 2, 7, 7] ++ [0xF4, 9]) 2 48000 = .err .invalidPacket := by decide +kernel
example : msSerialize [⟨0xF8, [[7, 7]], false, none⟩, ⟨0xFC, [[9]], false, none⟩] = [0xF8, 2, 7, 7, 0xFC, 9] := by
  decide +kernel

/-- **The multistream encoder emits such packets.**  The stream loop of `opus_multistream_encode_native`
    (per stream: `opus_encode_native` into `tmp_data` with budget `curr_max`, `opus_repacketizer_init` /
    `_cat` / `_out_range_impl` with `self_delimited = (s ≠ nb_streams−1)` and `pad = !vbr` on the last
    stream) for EVERY per-stream encoder behaviour within the contract `EncContract` (C02: a success is a
    valid standard-framing packet of the common `frame_size`, at most `curr_max` bytes; C07: its padding
    carries no extensions) and every stream count, rate, `max_data_bytes`, VBR/CBR setting:
    whenever the call succeeds, the bytes written are `serialize true p₁ ++ … ++ serialize false pₙ` for
    valid packets that all last `frame_size`, they fit `max_data_bytes` (exactly the clamped size in
    CBR), and `opus_multistream_packet_validate` accepts them with that duration; and the unchecked
    return value of `opus_repacketizer_out_range_impl` is never negative (the budget arithmetic of
    `curr_max` always leaves room for the self-delimiting length). -/
theorem ms_encode_packet_structure (n : Nat) (hn : 1 ≤ n) (fs frameSize : Nat) (hfs : Rate fs) (vbr : Bool)
    (bitrate : Option Int) (maxData : Int) (enc : Nat → Int → Res Bytes)
    (hc : MsEncode.EncContract fs frameSize enc) (ht : MsEncode.EncTotal enc) :
    (∀ out, MsEncode.encodeNative n fs frameSize vbr bitrate maxData enc = .ok out →
      ∃ ps : List Packet, ps.length = n ∧ (∀ p ∈ ps, Valid p) ∧ (∀ p ∈ ps, duration fs p = frameSize) ∧
        out = msSerialize ps ∧ (out.length : Int) ≤ maxData ∧
        (vbr = false → (out.length : Int) =
          MsEncode.cbrClamp n (decide (fs / frameSize = 10)) vbr fs frameSize bitrate maxData) ∧
        msPacketValidate out n fs = .ok frameSize) ∧
    MsEncode.encodeNative n fs frameSize vbr bitrate maxData enc ≠ .abort ∧
    MsEncode.encodeNative n fs frameSize vbr bitrate maxData enc ≠ .oob := by
  unfold MsEncode.encodeNative
  simp only
  split
  · exact ⟨fun out h => (by cases h), (by intro h; cases h), (by intro h; cases h)⟩
  · obtain ⟨h1, h2, h3⟩ := MsEncode.loop_spec n fs frameSize (decide (fs / frameSize = 10)) vbr
      (MsEncode.cbrClamp n (decide (fs / frameSize = 10)) vbr fs frameSize bitrate maxData) enc hc ht
      n 0 [] 0 (by omega) (by omega) rfl (fun _ h => by cases h) (fun _ h => by cases h) rfl
    refine ⟨fun out h => ?_, h2, h3⟩
    obtain ⟨ps, hlen, hval, hdur, hser, hle, hcbr⟩ := h1 out h
    have hne : ps ≠ [] := by intro h; rw [h] at hlen; simp at hlen; omega
    have hv := validateLoop_complete fs hfs ps true 0 frameSize hne hval hdur (fun h => by cases h)
    rw [hlen, ← hser] at hv
    exact ⟨ps, hlen, hval, hdur, hser, Int.le_trans hle (MsEncode.cbrClamp_le _ _ _ _ _ _ _), hcbr, hv⟩

/-- **…with the single-stream encoder skeleton in every stream.**  `ms_encode_packet_structure` with each
    stream's `opus_encode_native` instantiated by the encoder skeleton of C02/C05
    (`Opus.EncSkel.encodeNative` on an arbitrary per-stream state `sts s`, all at rate `fs`): the
    skeleton's success returns meet `EncContract` — a valid packet of the common `frame_size`
    (`encode_wellformed`), at most `curr_max` bytes (`ret_le_out`), padded with zeros only — so the
    multistream output has the proved structure for ALL inner SILK/CELT/analysis oracle answers `ors`
    within the skeleton's own contracts (`SkelOk`: `(encodeNative …).ok`) and ALL frame payloads `frs` of
    the recorded lengths.  No assumption about the per-stream encoder is left other than those inner
    contracts. -/
theorem ms_encode_packet_structure_skel (n : Nat) (hn : 1 ≤ n) (fs : Nat) (hfs : Rate fs) (fsz : Int)
    (vbr : Bool) (bitrate : Option Int) (maxData : Int)
    (sts : Nat → EncSkel.St) (hfsAll : ∀ s, (sts s).fs = (fs : Int)) (fuzz : Bool)
    (ors : Nat → Int → EncSkel.NatOr) (frs : Nat → Int → List Bytes)
    (hok : MsEncode.SkelOk sts fuzz fsz ors frs) :
    (∀ out, MsEncode.encodeNative n fs fsz.toNat vbr bitrate maxData (MsEncode.skelEnc sts fuzz fsz ors frs) = .ok out →
      ∃ ps : List Packet, ps.length = n ∧ (∀ p ∈ ps, Valid p) ∧ (∀ p ∈ ps, duration fs p = fsz.toNat) ∧
        out = msSerialize ps ∧ (out.length : Int) ≤ maxData ∧
        (vbr = false → (out.length : Int) =
          MsEncode.cbrClamp n (decide (fs / fsz.toNat = 10)) vbr fs fsz.toNat bitrate maxData) ∧
        msPacketValidate out n fs = .ok fsz.toNat) ∧
    MsEncode.encodeNative n fs fsz.toNat vbr bitrate maxData (MsEncode.skelEnc sts fuzz fsz ors frs) ≠ .abort ∧
    MsEncode.encodeNative n fs fsz.toNat vbr bitrate maxData (MsEncode.skelEnc sts fuzz fsz ors frs) ≠ .oob :=
  ms_encode_packet_structure n hn fs fsz.toNat hfs vbr bitrate maxData _
    (MsEncode.skelEnc_contract sts fuzz fsz ors frs fs hfsAll hok) (MsEncode.skelEnc_total sts fuzz fsz ors frs)

/-- `SkelOk` is inhabited — constant per-stream state (48 kHz mono VBR at 500 b/s, where every 20 ms call takes the
    skeleton's low-budget path so that `ok` holds for ALL `curr_max`), the inner oracle a function of
    `curr_max` — and with it the two-stream call succeeds, so the conclusion is not vacuous either -/
example : MsEncode.SkelOk (fun _ => MsEncode.lowSt) false 960 (fun _ cm => MsEncode.lowOr cm)
    (fun _ cm => if cm ≤ 0 then [] else [[]]) := MsEncode.lowSkelOk
example : ∃ out, MsEncode.encodeNative 2 48000 960 true none 100
    (MsEncode.skelEnc (fun _ => MsEncode.lowSt) false 960 (fun _ cm => MsEncode.lowOr cm)
      (fun _ cm => if cm ≤ 0 then [] else [[]])) = .ok out := MsEncode.lowExample_ok

/-- the skeleton really returns multi-frame padded packets inside these hypotheses (the state and oracle of
    C02's example: 64 kb/s CBR, 60 ms, 48 kHz stereo → three CELT frames of 158 bytes, header `FF 43 03`) -/
def exSkelSt : EncSkel.St :=
  { fs := 48000, channels := 2, application := 2049, useVbr := 0, userBitrate := 64000, forceChannels := -1000,
    signalType := -1000, userBandwidth := -1000, maxBandwidth := 1105, userForcedMode := -1000, lfe := 0, useDtx := 0,
    fecConfig := 0, variableDuration := 5000, complexity := 9, lossPerc := 0, useInBandFEC := 0, energyMasking := 0,
    streamChannels := 2, mode := 1002, prevMode := 1002, prevChannels := 2, prevFramesize := 960, bandwidth := 1105,
    autoBandwidth := 1105, silkBwSwitch := 0, first := 0, voiceRatio := -1, detectedBandwidth := 0, nbNoActivity := 0,
    nonfinalFrame := 0, bitrateBps := 64000, toMono := 0, lbrrCoded := 0, allowBwSwitch := 0, inWBmode := 0,
    opusCanSwitch := 0, silkUseDtx := 0 }
def exSkelFr : EncSkel.FrameOr :=
  { aValid := 1, activity := 1, silkBitRateIn := 0, silkRet := 0, nBytes := 0, isr := 0, switchReady := 0, allowBw := 0,
    inWB := 0, tellA := 0, tellB := 0, tellC := 0, tellD := 1, tellE := 1000, stripTo := 0, celtRed1 := 0,
    celtMain := 158, celtRed2 := 0, used1 := 0, used2 := 0 }
def exSkelOr : EncSkel.NatOr :=
  { isSilence := 0, aValid := 1, aBandwidth := 20, vr0 := 10, vr1 := 10, vr2 := 10, modeVoice := 64000, modeMusic := 10000,
    rands := [], frames := [exSkelFr, exSkelFr, exSkelFr] }
example : (EncSkel.encodeNative exSkelSt false 2880 4000 exSkelOr).ok = true ∧
    (EncSkel.encodeNative exSkelSt false 2880 4000 exSkelOr).pkt.hdr = [255, 67, 3] ∧
    (EncSkel.encodeNative exSkelSt false 2880 4000 exSkelOr).pkt.lens = [158, 158, 158] := by
  decide +kernel

/-- the contract is satisfiable: a per-stream encoder that always emits the 20 ms CELT packet `F8 07 07`
    when it has room (the model is executed on such oracles by the `msenc` correspondence suite) -/
example : MsEncode.EncContract 48000 960
      (fun _ cm => if 3 ≤ cm then .ok (serialize false ⟨0xF8, [[7, 7]], false, none⟩) else .err .bufferTooSmall) ∧
    MsEncode.EncTotal (fun _ cm => if 3 ≤ cm then .ok (serialize false ⟨0xF8, [[7, 7]], false, none⟩) else .err .bufferTooSmall) := by
  have hv : Valid ⟨0xF8, [[7, 7]], false, none⟩ :=
    { toc_byte := by decide
      frame_max := by intro f hf; simp only [List.mem_singleton] at hf; subst hf; decide
      code0 := fun _ => ⟨rfl, rfl, rfl⟩
      code1 := fun h => absurd h (by decide)
      code2 := fun h => absurd h (by decide)
      code3 := fun h => absurd h (by decide)
      pad_ok := fun pd h => by cases h }
  constructor
  · intro s cm pk h
    dsimp only at h
    split at h
    · cases h
      exact ⟨_, hv, RepackProofs.count_nil 1 (by decide), rfl, by decide, by simpa [serialize, header, lenFields, Packet.code, Packet.lens, padBytes] using (by assumption : 3 ≤ cm)⟩
    · cases h
  · intro s cm; constructor <;> intro h <;> dsimp only at h <;> split at h <;> cases h

/-- **The int16 output path of the mapping matrices saturates** (the code as repaired by `fix:` commit
    a7a5d7f2): whatever the float input and the matrix, every sample `multiply_channel_out_short` leaves
    in an int16 buffer is an int16 value, and the buffer keeps its length. -/
theorem matrix_short_saturates (mx : MappingMatrix) (input : List (Int × Int)) (inputRow inputRows : Nat)
    (output : List Int) (outputRows frameSize : Nat) (out' : List Int)
    (hin : ∀ x ∈ output, InInt16 x)
    (h : multiplyChannelOutShort mx input inputRow inputRows output outputRows frameSize = .ok out') :
    (∀ x ∈ out', InInt16 x) ∧ out'.length = output.length := by
  unfold multiplyChannelOutShort at h
  split at h
  · cases h
  · exact outShortLoop_range mx input inputRow inputRows outputRows frameSize 0 output out' hin h

/-- a saturating row: accumulator 30000 plus 1.0 (→ 32767) through a cell of 32767/32768 would be 62766 and is
    stored as 32767; and the negative side -/
example : multiplyChannelOutShort ⟨1, 1, 0, [32767]⟩ [(1, 0)] 0 1 [30000] 1 1 = .ok [32767] ∧
    multiplyChannelOutShort ⟨2, 1, 0, [-32768, 16384]⟩ [(1, 0)] 0 1 [-30000, 5] 2 1 = .ok [-32768, 16389] := by decide
example : ∀ x ∈ [(30000 : Int)], InInt16 x := by
  intro x hx; simp only [List.mem_singleton] at hx; subst hx; exact ⟨by decide, by decide⟩

/-- **What the 24-bit output path computes** (`mapping_matrix_multiply_channel_out_int24`; the model
    `Projection.outInt24Rows` applies `step24` per cell, and the `mixout24` correspondence suite ties it to
    the code incl. at the int32 limits).  One accumulation `output += (cell·sample + 16384) >> 15` converts
    a 64-bit sum back to `opus_int32` *without* saturation; it is nevertheless the exact integer whenever the
    accumulator has headroom (`|o| ≤ B`, `|sample| ≤ S`, `B + S + 1 ≤ 2³¹−1`); in particular accumulating, from
    a cleared buffer, the contributions of up to 255 input rows of 24-bit samples (`|sample| ≤ 2²³`, i.e.
    decoded floats within ±1.0) through any Q15 cells never wraps and gives exactly `Σ ⌊(c·s + 2¹⁴)/2¹⁵⌋`,
    of magnitude at most `255·(2²³+1)`. -/
theorem matrix_int24_exact :
    (∀ o c s S B : Int, InInt16 c → (-S ≤ s ∧ s ≤ S) → (-B ≤ o ∧ o ≤ B) → B + S + 1 ≤ 2147483647 →
      Projection.step24 o c s = o + (c * s + 16384) / 32768 ∧
      -(B + S + 1) ≤ Projection.step24 o c s ∧ Projection.step24 o c s ≤ B + S + 1) ∧
    (∀ l : List (Int × Int), l.length ≤ 255 → (∀ cs ∈ l, InInt16 cs.1 ∧ -8388608 ≤ cs.2 ∧ cs.2 ≤ 8388608) →
      Projection.acc24 0 l = Projection.sum24 l ∧
      -(255 * 8388609) ≤ Projection.acc24 0 l ∧ Projection.acc24 0 l ≤ 255 * 8388609) := by
  refine ⟨fun o c s S B hc hs ho hr => Projection.step24_exact o c s S B hc hs ho hr, fun l hlen hl => ?_⟩
  have hL : (l.length : Int) * (8388608 + 1) ≤ 255 * 8388609 := by
    have : (l.length : Int) ≤ 255 := by omega
    omega
  have hnn : 0 ≤ (l.length : Int) * (8388608 + 1) := Int.mul_nonneg (by omega) (by omega)
  obtain ⟨h1, h2, h3⟩ := Projection.acc24_exact 8388608 (by omega) l 0 0 hl ⟨by omega, by omega⟩ (by omega)
  exact ⟨by omega, by omega, by omega⟩

/-- without headroom the step wraps (no saturation), and in range it is the Q15 product -/
example : Projection.step24 2147483647 32767 8388608 = -2139095297 ∧ Projection.step24 100 16384 8388608 = 4194404 ∧
    Projection.res2int24 (3, -1) = 12582912 ∧ Projection.res2int24 (1, 9) = -2147483648 := by decide

end OpusProps.C10
