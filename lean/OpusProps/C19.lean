import OpusProofs.SoftClipField
import Mathlib.Algebra.Order.Field.Rat
/-
  Property C19 — "Soft clipping and decoder gain post-processing obey their contracts".

  Model:  `Opus.SoftClip` (OpusModel/SoftClip.lean): `opus_pcm_soft_clip` (src/opus.c:36-137) written once,
          generically over the operations it performs on samples (`ClipOps α`: + - * / neg fabs < <= int→float and
          the constants 0 1 2 2.4e-7f), same loops / operation order as the C text; `OPUS_SET_GAIN` and the
          gain multiplication of `opus_decode_frame` (src/opus_decoder.c:646-660, 1077-1086).
  The binary32 instantiation of these very definitions is compared bit for bit with the real function by
  the correspondence suite `softclip`.  Theorems marked "any arithmetic" hold for EVERY `ClipOps` instance
  (so also for the binary32 one); the others are over an arbitrary linearly ordered field `F`
  (exact arithmetic: ℚ, ℝ) with an arbitrary boost constant `eps`.
-/
namespace OpusProps.C19
open Opus Opus.SoftClip

/-- **degenerate_noop** (any arithmetic).  `C < 1`, `N < 1`, a null sample pointer or a null memory
    pointer: the call returns without touching either buffer. -/
theorem degenerate_noop {α : Type} [ClipOps α] (xNull memNull : Bool) (x mem : Array α) (N C : Int)
    (h : C < 1 ∨ N < 1 ∨ xNull = true ∨ memNull = true) :
    softClip xNull memNull x mem N C = .ok (x, mem) :=
  softClip_degenerate xNull memNull x mem N C h

example : ((0 : Int) < 1 ∨ (5 : Int) < 1 ∨ false = true ∨ false = true) := Or.inl (by decide)

/-- **channel_independent** (any arithmetic).  On buffers of the declared size (`N·C` samples, `C`
    memories, `N, C ≥ 1`) the call succeeds, and for every channel `c` the samples and the memory it
    leaves for that channel are exactly those of the 1-channel call on the de-interleaved samples of
    channel `c` with that channel's memory: no channel sees another channel's data or state. -/
theorem channel_independent {α : Type} [ClipOps α] (x mem : Array α) (N C : Nat) (hN : 1 ≤ N) (hC : 1 ≤ C)
    (hsz : x.size = N * C) (hm : mem.size = C) :
    ∃ y m', softClip false false x mem (N : Int) (C : Int) = .ok (y, m') ∧ y.size = N * C ∧ m'.size = C ∧
      ∀ c, c < C → softClip false false (chan x C c N) #[mem.getD c ClipOps.zero] (N : Int) 1 =
        .ok (chan y C c N, #[m'.getD c ClipOps.zero]) :=
  softClip_channel x mem N C hN hC hsz hm

example : ∃ (x mem : Array ℚ), x.size = 3 * 2 ∧ mem.size = 2 := ⟨#[1, -2, 3/2, 0, -1/2, 5], #[0, 1/8], rfl, rfl⟩

/-- **passthrough_any_arith** (any arithmetic).  If every sample satisfies the four facts the C code
    tests on an in-range sample (`Pass v`: not `v > 1`, not `v < -1`, `MAX16(-2, MIN16(2, v)) = v`,
    `v*0 >= 0` — true of every non-NaN binary32 with `|v| ≤ 1`, and of every field element with `|v| ≤ 1`)
    and the memory is cleared, output and memory are the input, unchanged. -/
theorem passthrough_any_arith {α : Type} [ClipOps α] (x mem : Array α) (N C : Nat) (hsz : x.size = N * C)
    (hm : mem.size = C) (hmem : ∀ c, c < C → mem.getD c ClipOps.zero = ClipOps.zero)
    (h : ∀ j, j < N * C → Pass (x.getD j ClipOps.zero)) :
    softClip false false x mem (N : Int) (C : Int) = .ok (x, mem) :=
  softClip_pass x mem N C hsz hm hmem h

/-- **passthrough** (ordered field).  All `|x[j]| ≤ 1` and cleared memory: output = input, memory stays 0. -/
theorem passthrough {F : Type} [Field F] [LinearOrder F] [IsStrictOrderedRing F] (eps : F)
    (x mem : Array F) (N C : Nat) (hsz : x.size = N * C) (hm : mem.size = C)
    (hmem : ∀ c, c < C → mem.getD c 0 = 0) (h : ∀ j, j < N * C → |x.getD j 0| ≤ 1) :
    @softClip F (fieldOps eps) false false x mem (N : Int) (C : Int) = .ok (x, mem) :=
  softClip_pass_field eps x mem N C hsz hm hmem h

example : ∀ j, j < 2 * 2 → |(#[1, -1, 1/3, 0] : Array ℚ).getD j 0| ≤ 1 := by
  intro j hj
  have : j = 0 ∨ j = 1 ∨ j = 2 ∨ j = 3 := by omega
  rcases this with rfl | rfl | rfl | rfl <;> norm_num

/-- **bounded_sign_excursion_partial** (ordered field; P1).  The non-linearity the code applies to an
    excursion — `v ↦ v + a·v·v` with `a = (maxval-1)/maxval²`, boosted by `a += a·eps` for any
    `0 ≤ eps ≤ 1` (the code's 2.4e-7), negated when the excursion is positive — maps every sample of
    the excursion (`|v| ≤ maxval`, `1 < maxval ≤ 2` thanks to the ±2 pre-saturation, on the same side of
    zero as the detected sample `xi`) into [-1, 1] and keeps its sign.
    PARTIAL: the full statements `∀ input, every output sample of opus_pcm_soft_clip is in [-1,1]` and
    `… has the sign of its input` additionally need (a) the continuation of the previous frame's curve
    (opus.c:60-65), (b) the frame-start ramp (explicitly clamped to ±1 by the code), (c) the invariant of
    the loop over excursions; these are not proved (searched on the implementation, S4). -/
theorem bounded_sign_excursion_partial {F : Type} [Field F] [LinearOrder F] [IsStrictOrderedRing F]
    (eps maxval xi v : F) (he0 : 0 ≤ eps) (he1 : eps ≤ 1) (hm1 : 1 < maxval) (hm2 : maxval ≤ 2)
    (hxi : xi ≠ 0) (hside : 0 ≤ xi * v) (hv : |v| ≤ maxval) :
    |@nl F (fieldOps eps) (@coefA F (fieldOps eps) maxval xi) v| ≤ 1 ∧
    0 ≤ v * @nl F (fieldOps eps) (@coefA F (fieldOps eps) maxval xi) v :=
  excursion_map_bounded eps maxval xi v he0 he1 hm1 hm2 hxi hside hv

example : (0 : ℚ) ≤ 1/4194304 ∧ (1/4194304 : ℚ) ≤ 1 ∧ (1 : ℚ) < 3/2 ∧ (3/2 : ℚ) ≤ 2 ∧ (3/2 : ℚ) ≠ 0 ∧
    (0 : ℚ) ≤ 3/2 * (5/4) ∧ |(5/4 : ℚ)| ≤ 3/2 := by norm_num

/-- **gain_frame_condition**.  The decoder gain touches nothing but the sample values: the return value
    (sample count), `rangeFinal` and the number of samples are those of the gain-0 decode; gain 0 leaves
    the samples alone; a non-zero gain multiplies each sample by the one factor `gainOf g`. -/
theorem gain_frame_condition {α : Type} [ClipOps α] (gainOf : Int → α) (g : Int) (f : FrameOut α) :
    (applyGain gainOf g f).ret = f.ret ∧ (applyGain gainOf g f).rangeFinal = f.rangeFinal ∧
    (applyGain gainOf g f).pcm.size = f.pcm.size ∧
    (g = 0 → applyGain gainOf g f = f) ∧
    (g ≠ 0 → ∀ i, i < f.pcm.size → (applyGain gainOf g f).pcm[i]? = f.pcm[i]?.map (· * gainOf g)) := by
  unfold applyGain
  by_cases hg : g = 0
  · simp [hg]
  · simp [hg]

example : (@applyGain ℚ (fieldOps 0) (fun _ => (2 : ℚ)) 5 (@FrameOut.mk ℚ #[1, 3] 2 77)).pcm.size = 2 := by
  simp [applyGain]

/-- **gain_ctl_range**.  `OPUS_SET_GAIN(v)` is accepted exactly for `-32768 ≤ v ≤ 32767` and then stores
    `v`; otherwise it answers `OPUS_BAD_ARG` and the stored gain is unchanged. -/
theorem gain_ctl_range (cur v : Int) :
    ((-32768 ≤ v ∧ v ≤ 32767) → setGain cur v = (.ok 0, v)) ∧
    (¬ (-32768 ≤ v ∧ v ≤ 32767) → setGain cur v = (.err .badArg, cur)) := by
  unfold setGain
  constructor
  · intro h; rw [if_neg (by omega)]
  · intro h; rw [if_pos (by omega)]

example : setGain 7 32767 = (.ok 0, 32767) ∧ setGain 7 32768 = (.err .badArg, 7) := by decide

end OpusProps.C19
