import OpusProofs.SoftClipFull
import OpusProofs.SoftClipRound
import OpusProofs.GainIndep
import OpusProofs.PcmSpec
import Mathlib.Algebra.Order.Field.Rat
/-
  Property C19 — "Soft clipping and decoder gain post-processing obey their contracts".

  Model:  `Opus.SoftClip` (OpusModel/SoftClip.lean): `opus_pcm_soft_clip` (src/opus.c:36-137) written once,
          generically over the operations it performs on samples (`ClipOps α`: + - * / neg fabs < <= int→float and
          the constants 0 1 2 2.4e-7f), same loops / operation order as the C text; `OPUS_SET_GAIN` and the
          gain multiplication of `opus_decode_frame` (src/opus_decoder.c:646-660, 1077-1086).
  The binary32 instantiation of these very definitions is compared bit for bit with the real function by
  the correspondence suite `softclip`.  Theorems marked "any arithmetic" hold for EVERY `ClipOps` instance
  (so also for the binary32 one); the others are over an arbitrary linearly ordered field `F`
  (exact arithmetic: ℚ, ℝ) with an arbitrary boost constant `eps`.
-/
namespace OpusProps.C19
open Opus Opus.SoftClip

/-- **degenerate_noop** (any arithmetic).  `C < 1`, `N < 1`, a null sample pointer or a null memory
    pointer: the call returns without touching either buffer. -/
theorem degenerate_noop {α : Type} [ClipOps α] (xNull memNull : Bool) (x mem : Array α) (N C : Int)
    (h : C < 1 ∨ N < 1 ∨ xNull = true ∨ memNull = true) :
    softClip xNull memNull x mem N C = .ok (x, mem) :=
  softClip_degenerate xNull memNull x mem N C h

example : ((0 : Int) < 1 ∨ (5 : Int) < 1 ∨ false = true ∨ false = true) := Or.inl (by decide)

/-- **channel_independent** (any arithmetic).  On buffers of the declared size (`N·C` samples, `C`
    memories, `N, C ≥ 1`) the call succeeds, and for every channel `c` the samples and the memory it
    leaves for that channel are exactly those of the 1-channel call on the de-interleaved samples of
    channel `c` with that channel's memory: no channel sees another channel's data or state. -/
theorem channel_independent {α : Type} [ClipOps α] (x mem : Array α) (N C : Nat) (hN : 1 ≤ N) (hC : 1 ≤ C)
    (hsz : x.size = N * C) (hm : mem.size = C) :
    ∃ y m', softClip false false x mem (N : Int) (C : Int) = .ok (y, m') ∧ y.size = N * C ∧ m'.size = C ∧
      ∀ c, c < C → softClip false false (chan x C c N) #[mem.getD c ClipOps.zero] (N : Int) 1 =
        .ok (chan y C c N, #[m'.getD c ClipOps.zero]) :=
  softClip_channel x mem N C hN hC hsz hm

example : ∃ (x mem : Array ℚ), x.size = 3 * 2 ∧ mem.size = 2 := ⟨#[1, -2, 3/2, 0, -1/2, 5], #[0, 1/8], rfl, rfl⟩

/-- **passthrough_any_arith** (any arithmetic).  If every sample satisfies the four facts the C code
    tests on an in-range sample (`Pass v`: not `v > 1`, not `v < -1`, `MAX16(-2, MIN16(2, v)) = v`,
    `v*0 >= 0` — true of every non-NaN binary32 with `|v| ≤ 1`, and of every field element with `|v| ≤ 1`)
    and the memory is cleared, output and memory are the input, unchanged. -/
theorem passthrough_any_arith {α : Type} [ClipOps α] (x mem : Array α) (N C : Nat) (hsz : x.size = N * C)
    (hm : mem.size = C) (hmem : ∀ c, c < C → mem.getD c ClipOps.zero = ClipOps.zero)
    (h : ∀ j, j < N * C → Pass (x.getD j ClipOps.zero)) :
    softClip false false x mem (N : Int) (C : Int) = .ok (x, mem) :=
  softClip_pass x mem N C hsz hm hmem h

/-- `Pass` is satisfiable: over ℚ every sample with `|v| ≤ 1` passes (for the binary32 instantiation `Pass v` for
    non-NaN `|v| ≤ 1` is IEEE-754 semantics of `<`, `*0` and `>= 0`; Lean cannot prove it about `Float32`, there the
    pass-through clause rests on the bit-exact tie and on the strict S4 predicate) -/
example : @Pass ℚ (fieldOps 0) (3 / 4) ∧ @Pass ℚ (fieldOps 0) (-1) :=
  ⟨pass_of_abs_le_one 0 _ (by norm_num), pass_of_abs_le_one 0 _ (by norm_num)⟩

/-- **passthrough** (ordered field).  All `|x[j]| ≤ 1` and cleared memory: output = input, memory stays 0. -/
theorem passthrough {F : Type} [Field F] [LinearOrder F] [IsStrictOrderedRing F] (eps : F)
    (x mem : Array F) (N C : Nat) (hsz : x.size = N * C) (hm : mem.size = C)
    (hmem : ∀ c, c < C → mem.getD c 0 = 0) (h : ∀ j, j < N * C → |x.getD j 0| ≤ 1) :
    @softClip F (fieldOps eps) false false x mem (N : Int) (C : Int) = .ok (x, mem) :=
  softClip_pass_field eps x mem N C hsz hm hmem h

example : ∀ j, j < 2 * 2 → |(#[1, -1, 1/3, 0] : Array ℚ).getD j 0| ≤ 1 := by
  intro j hj
  have : j = 0 ∨ j = 1 ∨ j = 2 ∨ j = 3 := by omega
  rcases this with rfl | rfl | rfl | rfl <;> norm_num

/-- **bounded_sign_preserved** (ordered field; whole call, any channel count).  For every buffer of the
    declared size, every boost constant `0 ≤ eps < 1` (the code's is 2.4e-7) and memories within
    `(1+eps)/4` (zero-initialised memory is; the bound is re-established by every call, so it holds along any
    sequence of frames sharing the memory): the call succeeds, every output sample lies in [-1, 1], no
    sample changes sign (a positive input stays positive, a negative one negative — strict), and the
    memories left behind are again within `(1+eps)/4`.  Covers the ±2 pre-saturation, the continuation of
    the previous frame's curve, every excursion with its boosted coefficient, the start-of-frame ramp
    (`offset = delta*(peak_pos-1-i)`, exactly 0 at the peak) and the loop over excursions. -/
theorem bounded_sign_preserved {F : Type} [Field F] [LinearOrder F] [IsStrictOrderedRing F] (eps : F)
    (he0 : 0 ≤ eps) (he1 : eps < 1) (x mem : Array F) (N C : Nat) (hN : 1 ≤ N) (hC : 1 ≤ C)
    (hsz : x.size = N * C) (hm : mem.size = C) (hmem : ∀ c, c < C → |mem.getD c 0| ≤ (1 + eps) / 4) :
    ∃ y m', @softClip F (fieldOps eps) false false x mem (N : Int) (C : Int) = .ok (y, m') ∧
      y.size = N * C ∧ m'.size = C ∧
      (∀ j, j < N * C → |y.getD j 0| ≤ 1 ∧ (0 < x.getD j 0 → 0 < y.getD j 0) ∧ (x.getD j 0 < 0 → y.getD j 0 < 0)) ∧
      (∀ c, c < C → |m'.getD c 0| ≤ (1 + eps) / 4) :=
  softClip_bound eps he0 he1 x mem N C hN hC hsz hm hmem

example : (0 : ℚ) ≤ 1/4194304 ∧ (1/4194304 : ℚ) < 1 ∧ (#[3/2, -3, 1/2, 100, -1/7, 0] : Array ℚ).size = 3 * 2 ∧
    (#[0, 1/8] : Array ℚ).size = 2 ∧ ∀ c, c < 2 → |(#[0, 1/8] : Array ℚ).getD c 0| ≤ (1 + 1/4194304) / 4 := by
  refine ⟨by norm_num, by norm_num, rfl, rfl, fun c hc => ?_⟩
  have : c = 0 ∨ c = 1 := by omega
  rcases this with rfl | rfl <;> norm_num

/-- **bounded** (ordered field).  Every output sample of `opus_pcm_soft_clip` lies in [-1, 1]. -/
theorem bounded {F : Type} [Field F] [LinearOrder F] [IsStrictOrderedRing F] (eps : F)
    (he0 : 0 ≤ eps) (he1 : eps < 1) (x mem : Array F) (N C : Nat) (hN : 1 ≤ N) (hC : 1 ≤ C)
    (hsz : x.size = N * C) (hm : mem.size = C) (hmem : ∀ c, c < C → |mem.getD c 0| ≤ (1 + eps) / 4) :
    ∃ y m', @softClip F (fieldOps eps) false false x mem (N : Int) (C : Int) = .ok (y, m') ∧
      ∀ j, j < N * C → |y.getD j 0| ≤ 1 := by
  obtain ⟨y, m', h1, _, _, h4, _⟩ := softClip_bound eps he0 he1 x mem N C hN hC hsz hm hmem
  exact ⟨y, m', h1, fun j hj => (h4 j hj).1⟩

/-- **sign_preserved** (ordered field).  No output sample has the opposite sign of its input. -/
theorem sign_preserved {F : Type} [Field F] [LinearOrder F] [IsStrictOrderedRing F] (eps : F)
    (he0 : 0 ≤ eps) (he1 : eps < 1) (x mem : Array F) (N C : Nat) (hN : 1 ≤ N) (hC : 1 ≤ C)
    (hsz : x.size = N * C) (hm : mem.size = C) (hmem : ∀ c, c < C → |mem.getD c 0| ≤ (1 + eps) / 4) :
    ∃ y m', @softClip F (fieldOps eps) false false x mem (N : Int) (C : Int) = .ok (y, m') ∧
      ∀ j, j < N * C → (0 < x.getD j 0 → 0 < y.getD j 0) ∧ (x.getD j 0 < 0 → y.getD j 0 < 0) := by
  obtain ⟨y, m', h1, _, _, h4, _⟩ := softClip_bound eps he0 he1 x mem N C hN hC hsz hm hmem
  exact ⟨y, m', h1, fun j hj => (h4 j hj).2⟩

/-- **ramp_term_exact** (ordered field).  The start-of-frame ramp adds `delta·(peak-1-j)` to sample `j` and
    clamps to ±1; at the last ramp sample `j = peak-1` the added term is exactly 0 (the former residue of the
    repeated subtraction `offset -= delta` cannot occur). -/
theorem ramp_term_exact {F : Type} [Field F] [LinearOrder F] [IsStrictOrderedRing F] (eps : F)
    (x : Array F) (delta : F) (i peak : Nat) :
    (∀ j, (@rampLoop F (fieldOps eps) x 1 0 delta i peak).getD j 0 =
      if i ≤ j ∧ j < peak ∧ j < x.size then clamp1 (x.getD j 0 + delta * ((peak - 1 - j : Nat) : F)) else x.getD j 0) ∧
    (1 ≤ peak → i ≤ peak - 1 → peak - 1 < x.size →
      (@rampLoop F (fieldOps eps) x 1 0 delta i peak).getD (peak - 1) 0 = clamp1 (x.getD (peak - 1) 0)) := by
  obtain ⟨_, h⟩ := rampLoop_spec eps x delta i peak
  refine ⟨h, fun h1 h2 h3 => ?_⟩
  have := h (peak - 1)
  rw [if_pos ⟨h2, by omega, h3⟩, Nat.sub_self, Nat.cast_zero, mul_zero, add_zero] at this
  exact this

/-- **bounded_rounded_stdmodel** (the binary32 gap, excursion map).  Standard model of rounded arithmetic:
    each of the six inner operations `p = m*m; a0 = (m-1)/p; e = a0*epsf; a' = a0 + e; t1 = a'*x; t2 = t1*x`
    returns its exact result times `(1+δᵢ)`, `|δᵢ| ≤ u` (`m-1` is exact for `1 < m ≤ 2`; the model is valid when no
    intermediate underflows, which holds for `x ≥ 1`; for `x ≤ 1` the result is ≤ x ≤ 1 anyway because `t2 ≥ 0`).
    If the boost exceeds four units of round-off, `4u ≤ epsf(1-u)(1-3u)`, then for every peak `1 < m ≤ 2` and every
    sample `0 ≤ x ≤ m` the exact difference `x - t2` that the last operation rounds lies in `[0, 1 + (m-1)u]`;
    hence any monotone final rounding that sends `[0, 1+u]` into `[0, 1]` (round-to-nearest-even does: `1+u` is
    the midpoint above 1 and 1 is even) gives a result in `[0, 1]`.  This is the precise content of the source
    comment "slightly boost a by 2^-22 … just enough": with `epsf = 0` the same computation allows `1 + 5(m-1)u`.
    The expression `t2` is linked to the transcription by `bounded_rounded_excursion`.
    NOT covered: a proof that IEEE binary32 operations satisfy the standard model (taken from the literature),
    and the continuation / ramp steps in rounded arithmetic (the ramp is clamped explicitly; the continuation
    feeds the excursion search again); searched on the implementation (S4 incl. the directed `boost` sweep). -/
theorem bounded_rounded_stdmodel {F : Type} [Field F] [LinearOrder F] [IsStrictOrderedRing F]
    (rnd : F → F) (u epsf : F) (hr1 : ∀ y, y ≤ 1 + u → rnd y ≤ 1) (hr0 : ∀ y, 0 ≤ y → 0 ≤ rnd y)
    (m x d1 d2 d3 d4 d5 d6 : F) (hu0 : 0 < u) (hu1 : u ≤ 1 / 16)
    (heps : 4 * u ≤ epsf * (1 - u) * (1 - 3 * u)) (heps0 : 0 ≤ epsf) (heps1 : epsf ≤ 1 / 16)
    (h1 : |d1| ≤ u) (h2 : |d2| ≤ u) (h3 : |d3| ≤ u) (h4 : |d4| ≤ u) (h5 : |d5| ≤ u) (h6 : |d6| ≤ u)
    (hm1 : 1 < m) (hm2 : m ≤ 2) (hx0 : 0 ≤ x) (hxm : x ≤ m) :
    let t2 := ((((m - 1) / (m * m * (1 + d1)) * (1 + d2)) + ((m - 1) / (m * m * (1 + d1)) * (1 + d2)) * epsf * (1 + d4)) *
          (1 + d3) * x * (1 + d5)) * x * (1 + d6)
    0 ≤ x - t2 ∧ x - t2 ≤ 1 + (m - 1) * u ∧ 0 ≤ rnd (x - t2) ∧ rnd (x - t2) ≤ 1 := by
  intro t2
  have lo := rounded_excursion_lower u epsf m x d1 d2 d3 d4 d5 d6 hu0 hu1 heps0 heps1 h1 h2 h3 h4 h5 h6 hm1 hm2 hx0 hxm
  have up := rounded_excursion_upper u epsf m x d1 d2 d3 d4 d5 d6 hu0 hu1 heps (by linarith) h1 h2 h3 h4 h5 h6 hm1 hm2 hx0 hxm
  refine ⟨lo, up, hr0 _ lo, hr1 _ ?_⟩
  have : (m - 1) * u ≤ 1 * u := mul_le_mul_of_nonneg_right (by linarith) (le_of_lt hu0)
  linarith

/-- **bounded_rounded_excursion** (link of `bounded_rounded_stdmodel` to the transcription).  Instantiate the
    generic transcription with ROUNDED arithmetic (`roundedOps R epsf`: + - * / return exact·(1+δ), |δ| ≤ u; negation,
    comparisons, constants exact).  For a positive excursion with peak `1 < m ≤ 2` (`m - 1` computed exactly:
    Sterbenz) and a sample `0 ≤ x ≤ m`, what the excursion branch of `opus_pcm_soft_clip` computes,
    `nl (coefA m xi) x`, is `y·(1+δ)` with `0 ≤ y ≤ 1 + (m-1)u` and `|δ| ≤ u`: the pre-rounding value of the last
    addition is inside the enclosure, so a correctly rounded (monotone, `rnd(1+u) ≤ 1`) last addition gives ≤ 1.
    (The negative excursion is the mirror image; not stated separately.) -/
theorem bounded_rounded_excursion {F : Type} [Field F] [LinearOrder F] [IsStrictOrderedRing F] {u : F}
    (R : RoundedArith F u) (epsf m xi x : F) (hu0 : 0 < u) (hu1 : u ≤ 1 / 16)
    (heps : 4 * u ≤ epsf * (1 - u) * (1 - 3 * u)) (heps0 : 0 ≤ epsf) (heps1 : epsf ≤ 1 / 16)
    (hxi : 0 < xi) (hsub : R.rsub m 1 = m - 1) (hm1 : 1 < m) (hm2 : m ≤ 2) (hx0 : 0 ≤ x) (hxm : x ≤ m) :
    ∃ y d : F, |d| ≤ u ∧ 0 ≤ y ∧ y ≤ 1 + (m - 1) * u ∧
      @nl F (roundedOps R epsf) (@coefA F (roundedOps R epsf) m xi) x = y * (1 + d) := by
  obtain ⟨d1, d2, d3, d4, d5, d6, d7, h1, h2, h3, h4, h5, h6, h7, e⟩ := nl_coefA_rounded R epsf m xi x hxi hsub
  exact ⟨_, d7, h7,
    rounded_excursion_lower u epsf m x d1 d2 d3 d4 d5 d6 hu0 hu1 heps0 heps1 h1 h2 h3 h4 h5 h6 hm1 hm2 hx0 hxm,
    rounded_excursion_upper u epsf m x d1 d2 d3 d4 d5 d6 hu0 hu1 heps (by linarith) h1 h2 h3 h4 h5 h6 hm1 hm2 hx0 hxm, e⟩

/-- exact arithmetic is a rounded arithmetic (δ = 0): the hypotheses are satisfiable -/
example : ∃ R : RoundedArith ℚ (1 / 2 ^ 24), R.rsub (3 / 2) 1 = 3 / 2 - 1 :=
  ⟨{ radd := (· + ·), rsub := (· - ·), rmul := (· * ·), rdiv := (· / ·),
     add_spec := fun a b => ⟨0, by norm_num, by ring⟩, mul_spec := fun a b => ⟨0, by norm_num, by ring⟩,
     div_spec := fun a b => ⟨0, by norm_num, by ring⟩ }, rfl⟩

/-- the code's constants: u = 2^-24 and `2.4e-7f` = 0x3480D959 = 8444249·2^-45 satisfy the hypotheses
    (the boost is 4.0265 units of round-off; 4 + 16u would already do) -/
example : (0 : ℚ) < 1 / 2 ^ 24 ∧ (1 : ℚ) / 2 ^ 24 ≤ 1 / 16 ∧
    4 * ((1 : ℚ) / 2 ^ 24) ≤ (8444249 / 2 ^ 45) * (1 - 1 / 2 ^ 24) * (1 - 3 * (1 / 2 ^ 24)) ∧
    (0 : ℚ) ≤ 8444249 / 2 ^ 45 ∧ (8444249 : ℚ) / 2 ^ 45 ≤ 1 / 16 := by norm_num

/-- **gain_frame_condition** (decoder skeleton `OpusModel/DecSkel.lean`, C01 — tied to the code by C01's
    correspondence suite, in which the gain pass is the event `G<n>@<ptr>` = `.acc 11`).  `gz r` is the run `r`
    with `decode_gain` set to 0 and the gain-pass events erased from its event log.  For `opus_decode_native` —
    every path: argument checks, concealment, FEC, all frames of a packet, mode transitions, soft clip — two runs
    that differ only in `decode_gain` (and in gain-pass events already logged) give the same return value, the
    same `*packet_offset`, the same final state except `decode_gain`, the same oracle-call counter (hence the
    same list of SILK / CELT / range-decoder calls with the same arguments) and the same event log up to
    gain-pass events: the gain touches nothing but the gain pass. -/
theorem gain_frame_condition (o : DecSkel.Oracle) (data : Option Bytes) (len : Int) (pcm : DecSkel.Ptr)
    (frame_size fec : Int) (sd sc : Bool) (r1 r2 : DecSkel.Run) (h : DecSkel.gz r1 = DecSkel.gz r2) :
    (DecSkel.decodeNative o data len pcm frame_size fec sd sc r1).ret =
      (DecSkel.decodeNative o data len pcm frame_size fec sd sc r2).ret ∧
    (DecSkel.decodeNative o data len pcm frame_size fec sd sc r1).packetOffset =
      (DecSkel.decodeNative o data len pcm frame_size fec sd sc r2).packetOffset ∧
    DecSkel.gz (DecSkel.decodeNative o data len pcm frame_size fec sd sc r1).run =
      DecSkel.gz (DecSkel.decodeNative o data len pcm frame_size fec sd sc r2).run := by
  obtain ⟨a1, a2, a3⟩ := DecSkel.decodeNative_gz o data len pcm frame_size fec sd sc r1
  obtain ⟨b1, b2, b3⟩ := DecSkel.decodeNative_gz o data len pcm frame_size fec sd sc r2
  rw [h] at a1 a2 a3
  exact ⟨a1.symm.trans b1, a2.symm.trans b2, a3.symm.trans b3⟩

/-- two runs that differ only in the gain (here 0 and 5120 = +20 dB) satisfy the hypothesis -/
example (r : DecSkel.Run) :
    DecSkel.gz r = DecSkel.gz (r.setSt { r.st with decode_gain := 5120 }) := rfl

/-- **gain_transition_calls_gain0** (skeleton).  The recursive concealment call for a mode transition is made
    through `DecSkel.gain0Call` (src/opus_decoder.c:375-380 / :517-522 since 7e7e38ec): the inner frame runs on the
    caller's run with only `decode_gain` replaced by 0, log and oracle counter are handed through, and the caller
    gets its own gain back; with gain 0 the inner frame's gain pass does nothing (`gain_pass_event`), so the gain is
    applied once, by the outer frame, to the cross-faded signal. -/
theorem gain_transition_calls_gain0 (trans : DecSkel.Ptr → Int → DecSkel.Run → DecSkel.Res') (b : DecSkel.Body)
    (p : DecSkel.Ptr) (n : Int) (r : DecSkel.Run) :
    DecSkel.transCall trans b r =
      DecSkel.bindRun (DecSkel.gain0Call trans (DecSkel.transBuf r.st) (min (DecSkel.F5 r.st) b.audiosize) r)
        (fun _ r' => (.ret (), r')) ∧
    (DecSkel.gain0Call trans p n r).1 = (trans p n (r.setSt { r.st with decode_gain := 0 })).1 ∧
    (DecSkel.gain0Call trans p n r).2.log = (trans p n (r.setSt { r.st with decode_gain := 0 })).2.log ∧
    (DecSkel.gain0Call trans p n r).2.k = (trans p n (r.setSt { r.st with decode_gain := 0 })).2.k ∧
    (DecSkel.gain0Call trans p n r).2.st.decode_gain = r.st.decode_gain :=
  ⟨rfl, DecSkel.gain0Call_inner trans p n r⟩

example : (DecSkel.gain0Call (fun _ n r => (.ret n, r)) ⟨.trans, 0, 240⟩ 120
    ⟨{ Fs := 48000, channels := 1, dc := ⟨1, 0, 48000, 0, 0⟩, decode_gain := 256, stream_channels := 1, bandwidth := 0,
       mode := 0, prev_mode := 0, frame_size := 120, prev_redundancy := 0, last_packet_duration := 0 }, 0, []⟩).2.st.decode_gain = 256 := rfl

/-- **gain_pass_event** (skeleton).  The gain pass of a frame (`stepGain`, the last step before the state
    update) changes neither state nor call counter; with gain 0 it does nothing at all; with a non-zero gain it
    is exactly one pass over `audiosize*channels` samples of the frame's own buffer. -/
theorem gain_pass_event (b : DecSkel.Body) (r : DecSkel.Run) :
    (DecSkel.stepGain b r).st = r.st ∧ (DecSkel.stepGain b r).k = r.k ∧
    (r.st.decode_gain = 0 → DecSkel.stepGain b r = r) ∧
    (r.st.decode_gain ≠ 0 →
      (DecSkel.stepGain b r).log = .acc 11 b.pcm (b.audiosize * r.st.channels) :: r.log) := by
  unfold DecSkel.stepGain
  by_cases h : r.st.decode_gain ≠ 0
  · rw [if_pos h]; exact ⟨rfl, rfl, fun h0 => absurd h0 h, fun _ => rfl⟩
  · rw [if_neg h]; exact ⟨rfl, rfl, fun _ => rfl, fun h1 => absurd h1 h⟩

/-- **integer_output_saturates** ("integer output saturates rather than wraps", gain clause): after the gain the
    16-bit output goes through `FLOAT2INT16`, which never leaves [-32768, 32767] whatever the scaled sample is
    (property C13, `sat16_range`; tied by C13's `pcm-out` / `pcm-f2i16` suites). -/
theorem integer_output_saturates (b : Nat) (hb : b < 2 ^ 32) :
    -32768 ≤ Pcm.float2Int16 b ∧ Pcm.float2Int16 b ≤ 32767 := by
  rw [Pcm.float2Int16_spec hb]; exact Pcm.out16Spec_range b

example : Pcm.float2Int16 0x43410000 = 32767 ∧ Pcm.float2Int16 0xC3410000 = -32768 := by decide

/-- **gain_ctl_range**.  `OPUS_SET_GAIN(v)` is accepted exactly for `-32768 ≤ v ≤ 32767` and then stores
    `v`; otherwise it answers `OPUS_BAD_ARG` and the stored gain is unchanged. -/
theorem gain_ctl_range (cur v : Int) :
    ((-32768 ≤ v ∧ v ≤ 32767) → setGain cur v = (.ok 0, v)) ∧
    (¬ (-32768 ≤ v ∧ v ≤ 32767) → setGain cur v = (.err .badArg, cur)) := by
  unfold setGain
  constructor
  · intro h; rw [if_neg (by omega)]
  · intro h; rw [if_pos (by omega)]

example : setGain 7 32767 = (.ok 0, 32767) ∧ setGain 7 32768 = (.err .badArg, 7) := by decide

end OpusProps.C19
