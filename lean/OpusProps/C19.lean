import OpusProofs.SoftClipFull
import OpusProofs.SoftClipRound
import OpusProofs.GainSkel
import Mathlib.Algebra.Order.Field.Rat
/-
  Property C19 — "Soft clipping and decoder gain post-processing obey their contracts".

  Model:  `Opus.SoftClip` (OpusModel/SoftClip.lean): `opus_pcm_soft_clip` (src/opus.c:36-137) written once,
          generically over the operations it performs on samples (`ClipOps α`: + - * / neg fabs < <= int→float and
          the constants 0 1 2 2.4e-7f), same loops / operation order as the C text; `OPUS_SET_GAIN` and the
          gain multiplication of `opus_decode_frame` (src/opus_decoder.c:646-660, 1077-1086).
  The binary32 instantiation of these very definitions is compared bit for bit with the real function by
  the correspondence suite `softclip`.  Theorems marked "any arithmetic" hold for EVERY `ClipOps` instance
  (so also for the binary32 one); the others are over an arbitrary linearly ordered field `F`
  (exact arithmetic: ℚ, ℝ) with an arbitrary boost constant `eps`.
-/
namespace OpusProps.C19
open Opus Opus.SoftClip

/-- **degenerate_noop** (any arithmetic).  `C < 1`, `N < 1`, a null sample pointer or a null memory
    pointer: the call returns without touching either buffer. -/
theorem degenerate_noop {α : Type} [ClipOps α] (xNull memNull : Bool) (x mem : Array α) (N C : Int)
    (h : C < 1 ∨ N < 1 ∨ xNull = true ∨ memNull = true) :
    softClip xNull memNull x mem N C = .ok (x, mem) :=
  softClip_degenerate xNull memNull x mem N C h

example : ((0 : Int) < 1 ∨ (5 : Int) < 1 ∨ false = true ∨ false = true) := Or.inl (by decide)

/-- **channel_independent** (any arithmetic).  On buffers of the declared size (`N·C` samples, `C`
    memories, `N, C ≥ 1`) the call succeeds, and for every channel `c` the samples and the memory it
    leaves for that channel are exactly those of the 1-channel call on the de-interleaved samples of
    channel `c` with that channel's memory: no channel sees another channel's data or state. -/
theorem channel_independent {α : Type} [ClipOps α] (x mem : Array α) (N C : Nat) (hN : 1 ≤ N) (hC : 1 ≤ C)
    (hsz : x.size = N * C) (hm : mem.size = C) :
    ∃ y m', softClip false false x mem (N : Int) (C : Int) = .ok (y, m') ∧ y.size = N * C ∧ m'.size = C ∧
      ∀ c, c < C → softClip false false (chan x C c N) #[mem.getD c ClipOps.zero] (N : Int) 1 =
        .ok (chan y C c N, #[m'.getD c ClipOps.zero]) :=
  softClip_channel x mem N C hN hC hsz hm

example : ∃ (x mem : Array ℚ), x.size = 3 * 2 ∧ mem.size = 2 := ⟨#[1, -2, 3/2, 0, -1/2, 5], #[0, 1/8], rfl, rfl⟩

/-- **passthrough_any_arith** (any arithmetic).  If every sample satisfies the four facts the C code
    tests on an in-range sample (`Pass v`: not `v > 1`, not `v < -1`, `MAX16(-2, MIN16(2, v)) = v`,
    `v*0 >= 0` — true of every non-NaN binary32 with `|v| ≤ 1`, and of every field element with `|v| ≤ 1`)
    and the memory is cleared, output and memory are the input, unchanged. -/
theorem passthrough_any_arith {α : Type} [ClipOps α] (x mem : Array α) (N C : Nat) (hsz : x.size = N * C)
    (hm : mem.size = C) (hmem : ∀ c, c < C → mem.getD c ClipOps.zero = ClipOps.zero)
    (h : ∀ j, j < N * C → Pass (x.getD j ClipOps.zero)) :
    softClip false false x mem (N : Int) (C : Int) = .ok (x, mem) :=
  softClip_pass x mem N C hsz hm hmem h

/-- **passthrough** (ordered field).  All `|x[j]| ≤ 1` and cleared memory: output = input, memory stays 0. -/
theorem passthrough {F : Type} [Field F] [LinearOrder F] [IsStrictOrderedRing F] (eps : F)
    (x mem : Array F) (N C : Nat) (hsz : x.size = N * C) (hm : mem.size = C)
    (hmem : ∀ c, c < C → mem.getD c 0 = 0) (h : ∀ j, j < N * C → |x.getD j 0| ≤ 1) :
    @softClip F (fieldOps eps) false false x mem (N : Int) (C : Int) = .ok (x, mem) :=
  softClip_pass_field eps x mem N C hsz hm hmem h

example : ∀ j, j < 2 * 2 → |(#[1, -1, 1/3, 0] : Array ℚ).getD j 0| ≤ 1 := by
  intro j hj
  have : j = 0 ∨ j = 1 ∨ j = 2 ∨ j = 3 := by omega
  rcases this with rfl | rfl | rfl | rfl <;> norm_num

/-- **bounded_sign_preserved** (ordered field; whole call, any channel count).  For every buffer of the
    declared size, every boost constant `0 ≤ eps < 1` (the code's is 2.4e-7) and memories within
    `(1+eps)/4` (zero-initialised memory is; the bound is re-established by every call, so it holds along any
    sequence of frames sharing the memory): the call succeeds, every output sample lies in [-1, 1], no
    sample changes sign (a positive input stays positive, a negative one negative — strict), and the
    memories left behind are again within `(1+eps)/4`.  Covers the ±2 pre-saturation, the continuation of
    the previous frame's curve, every excursion with its boosted coefficient, the start-of-frame ramp
    (`offset = delta*(peak_pos-1-i)`, exactly 0 at the peak) and the loop over excursions. -/
theorem bounded_sign_preserved {F : Type} [Field F] [LinearOrder F] [IsStrictOrderedRing F] (eps : F)
    (he0 : 0 ≤ eps) (he1 : eps < 1) (x mem : Array F) (N C : Nat) (hN : 1 ≤ N) (hC : 1 ≤ C)
    (hsz : x.size = N * C) (hm : mem.size = C) (hmem : ∀ c, c < C → |mem.getD c 0| ≤ (1 + eps) / 4) :
    ∃ y m', @softClip F (fieldOps eps) false false x mem (N : Int) (C : Int) = .ok (y, m') ∧
      y.size = N * C ∧ m'.size = C ∧
      (∀ j, j < N * C → |y.getD j 0| ≤ 1 ∧ (0 < x.getD j 0 → 0 < y.getD j 0) ∧ (x.getD j 0 < 0 → y.getD j 0 < 0)) ∧
      (∀ c, c < C → |m'.getD c 0| ≤ (1 + eps) / 4) :=
  softClip_bound eps he0 he1 x mem N C hN hC hsz hm hmem

example : (0 : ℚ) ≤ 1/4194304 ∧ (1/4194304 : ℚ) < 1 ∧ (#[3/2, -3, 1/2, 100, -1/7, 0] : Array ℚ).size = 3 * 2 ∧
    (#[0, 1/8] : Array ℚ).size = 2 ∧ ∀ c, c < 2 → |(#[0, 1/8] : Array ℚ).getD c 0| ≤ (1 + 1/4194304) / 4 := by
  refine ⟨by norm_num, by norm_num, rfl, rfl, fun c hc => ?_⟩
  have : c = 0 ∨ c = 1 := by omega
  rcases this with rfl | rfl <;> norm_num

/-- **bounded** (ordered field).  Every output sample of `opus_pcm_soft_clip` lies in [-1, 1]. -/
theorem bounded {F : Type} [Field F] [LinearOrder F] [IsStrictOrderedRing F] (eps : F)
    (he0 : 0 ≤ eps) (he1 : eps < 1) (x mem : Array F) (N C : Nat) (hN : 1 ≤ N) (hC : 1 ≤ C)
    (hsz : x.size = N * C) (hm : mem.size = C) (hmem : ∀ c, c < C → |mem.getD c 0| ≤ (1 + eps) / 4) :
    ∃ y m', @softClip F (fieldOps eps) false false x mem (N : Int) (C : Int) = .ok (y, m') ∧
      ∀ j, j < N * C → |y.getD j 0| ≤ 1 := by
  obtain ⟨y, m', h1, _, _, h4, _⟩ := softClip_bound eps he0 he1 x mem N C hN hC hsz hm hmem
  exact ⟨y, m', h1, fun j hj => (h4 j hj).1⟩

/-- **sign_preserved** (ordered field).  No output sample has the opposite sign of its input. -/
theorem sign_preserved {F : Type} [Field F] [LinearOrder F] [IsStrictOrderedRing F] (eps : F)
    (he0 : 0 ≤ eps) (he1 : eps < 1) (x mem : Array F) (N C : Nat) (hN : 1 ≤ N) (hC : 1 ≤ C)
    (hsz : x.size = N * C) (hm : mem.size = C) (hmem : ∀ c, c < C → |mem.getD c 0| ≤ (1 + eps) / 4) :
    ∃ y m', @softClip F (fieldOps eps) false false x mem (N : Int) (C : Int) = .ok (y, m') ∧
      ∀ j, j < N * C → (0 < x.getD j 0 → 0 < y.getD j 0) ∧ (x.getD j 0 < 0 → y.getD j 0 < 0) := by
  obtain ⟨y, m', h1, _, _, h4, _⟩ := softClip_bound eps he0 he1 x mem N C hN hC hsz hm hmem
  exact ⟨y, m', h1, fun j hj => (h4 j hj).2⟩

/-- **ramp_term_exact** (ordered field).  The start-of-frame ramp adds `delta·(peak-1-j)` to sample `j` and
    clamps to ±1; at the last ramp sample `j = peak-1` the added term is exactly 0 (the former residue of the
    repeated subtraction `offset -= delta` cannot occur). -/
theorem ramp_term_exact {F : Type} [Field F] [LinearOrder F] [IsStrictOrderedRing F] (eps : F)
    (x : Array F) (delta : F) (i peak : Nat) :
    (∀ j, (@rampLoop F (fieldOps eps) x 1 0 delta i peak).getD j 0 =
      if i ≤ j ∧ j < peak ∧ j < x.size then clamp1 (x.getD j 0 + delta * ((peak - 1 - j : Nat) : F)) else x.getD j 0) ∧
    (1 ≤ peak → i ≤ peak - 1 → peak - 1 < x.size →
      (@rampLoop F (fieldOps eps) x 1 0 delta i peak).getD (peak - 1) 0 = clamp1 (x.getD (peak - 1) 0)) := by
  obtain ⟨_, h⟩ := rampLoop_spec eps x delta i peak
  refine ⟨h, fun h1 h2 h3 => ?_⟩
  have := h (peak - 1)
  rw [if_pos ⟨h2, by omega, h3⟩, Nat.sub_self, Nat.cast_zero, mul_zero, add_zero] at this
  exact this

/-- **bounded_rounded_stdmodel** (the binary32 gap, excursion map).  Standard model of rounded arithmetic:
    each of the six inner operations `p = m*m; a0 = (m-1)/p; e = a0*epsf; a' = a0 + e; t1 = a'*x; t2 = t1*x`
    returns its exact result times `(1+δᵢ)`, `|δᵢ| ≤ u` (`m-1` is exact for `1 < m ≤ 2`; the model is valid when no
    intermediate underflows, which holds for `x ≥ 1`; for `x ≤ 1` the result is ≤ x ≤ 1 anyway because `t2 ≥ 0`).
    If the boost exceeds four units of round-off, `4u ≤ epsf(1-u)(1-3u)`, then for every peak `1 < m ≤ 2` and every
    sample `0 ≤ x ≤ m` the exact difference `x - t2` that the last operation rounds lies in `[0, 1 + (m-1)u]`;
    hence any monotone final rounding that sends `[0, 1+u]` into `[0, 1]` (round-to-nearest-even does: `1+u` is
    the midpoint above 1 and 1 is even) gives a result in `[0, 1]`.  This is the precise content of the source
    comment "slightly boost a by 2^-22 … just enough": with `epsf = 0` the same computation allows `1 + 5(m-1)u`.
    NOT covered: a proof that IEEE binary32 operations satisfy the standard model (taken from the literature),
    and the continuation / ramp steps in rounded arithmetic (the ramp is clamped explicitly; the continuation
    feeds the excursion search again); searched on the implementation (S4 incl. the directed `boost` sweep). -/
theorem bounded_rounded_stdmodel {F : Type} [Field F] [LinearOrder F] [IsStrictOrderedRing F]
    (rnd : F → F) (u epsf : F) (hr1 : ∀ y, y ≤ 1 + u → rnd y ≤ 1) (hr0 : ∀ y, 0 ≤ y → 0 ≤ rnd y)
    (m x d1 d2 d3 d4 d5 d6 : F) (hu0 : 0 < u) (hu1 : u ≤ 1 / 16)
    (heps : 4 * u ≤ epsf * (1 - u) * (1 - 3 * u)) (heps0 : 0 ≤ epsf) (heps1 : epsf ≤ 1 / 16)
    (h1 : |d1| ≤ u) (h2 : |d2| ≤ u) (h3 : |d3| ≤ u) (h4 : |d4| ≤ u) (h5 : |d5| ≤ u) (h6 : |d6| ≤ u)
    (hm1 : 1 < m) (hm2 : m ≤ 2) (hx0 : 0 ≤ x) (hxm : x ≤ m) :
    let t2 := ((((m - 1) / (m * m * (1 + d1)) * (1 + d2)) + ((m - 1) / (m * m * (1 + d1)) * (1 + d2)) * epsf * (1 + d4)) *
          (1 + d3) * x * (1 + d5)) * x * (1 + d6)
    0 ≤ x - t2 ∧ x - t2 ≤ 1 + (m - 1) * u ∧ 0 ≤ rnd (x - t2) ∧ rnd (x - t2) ≤ 1 := by
  intro t2
  have lo := rounded_excursion_lower u epsf m x d1 d2 d3 d4 d5 d6 hu0 hu1 heps0 heps1 h1 h2 h3 h4 h5 h6 hm1 hm2 hx0 hxm
  have up := rounded_excursion_upper u epsf m x d1 d2 d3 d4 d5 d6 hu0 hu1 heps (by linarith) h1 h2 h3 h4 h5 h6 hm1 hm2 hx0 hxm
  refine ⟨lo, up, hr0 _ lo, hr1 _ ?_⟩
  have : (m - 1) * u ≤ 1 * u := mul_le_mul_of_nonneg_right (by linarith) (le_of_lt hu0)
  linarith

/-- the code's constants: u = 2^-24 and `2.4e-7f` = 0x3480D959 = 8444249·2^-45 satisfy the hypotheses
    (the boost is 4.0265 units of round-off; 4 + 16u would already do) -/
example : (0 : ℚ) < 1 / 2 ^ 24 ∧ (1 : ℚ) / 2 ^ 24 ≤ 1 / 16 ∧
    4 * ((1 : ℚ) / 2 ^ 24) ≤ (8444249 / 2 ^ 45) * (1 - 1 / 2 ^ 24) * (1 - 3 * (1 / 2 ^ 24)) ∧
    (0 : ℚ) ≤ 8444249 / 2 ^ 45 ∧ (8444249 : ℚ) / 2 ^ 45 ≤ 1 / 16 := by norm_num

/-- **gain_frame_condition**.  The decoder gain touches nothing but the sample values: the return value
    (sample count), `rangeFinal` and the number of samples are those of the gain-0 decode; gain 0 leaves
    the samples alone; a non-zero gain multiplies each sample by the one factor `gainOf g`. -/
theorem gain_frame_condition {α : Type} [ClipOps α] (gainOf : Int → α) (g : Int) (f : FrameOut α) :
    (applyGain gainOf g f).ret = f.ret ∧ (applyGain gainOf g f).rangeFinal = f.rangeFinal ∧
    (applyGain gainOf g f).pcm.size = f.pcm.size ∧
    (g = 0 → applyGain gainOf g f = f) ∧
    (g ≠ 0 → ∀ i, i < f.pcm.size → (applyGain gainOf g f).pcm[i]? = f.pcm[i]?.map (· * gainOf g)) := by
  unfold applyGain
  by_cases hg : g = 0
  · simp [hg]
  · simp [hg]

example : (@applyGain ℚ (fieldOps 0) (fun _ => (2 : ℚ)) 5 (@FrameOut.mk ℚ #[1, 3] 2 77)).pcm.size = 2 := by
  simp [applyGain]

/-- **gain_transition_calls_gain0** (decoder skeleton `OpusModel/DecSkel.lean`, call structure of
    `opus_decode_frame`).  The recursive concealment call made for a mode transition (`withGain0 inner`, what
    the code does since fix 7e7e38ec) runs the inner frame on the caller's run with `decode_gain` replaced by 0
    and nothing else changed, and hands back a run whose `decode_gain` is the caller's again (log and call
    counter are the inner call's): the inner frame's own gain pass is skipped (`gain_pass_event`), the gain is
    applied once, by the outer frame, to the cross-faded signal. -/
theorem gain_transition_calls_gain0 (inner : DecSkel.Ptr → Int → DecSkel.Run → DecSkel.Res') (p : DecSkel.Ptr)
    (n : Int) (r : DecSkel.Run) :
    (GainSkel.withGain0 inner p n r).1 = (inner p n (r.setSt { r.st with decode_gain := 0 })).1 ∧
    (r.setSt { r.st with decode_gain := 0 }).st.decode_gain = 0 ∧
    (r.setSt { r.st with decode_gain := 0 }).log = r.log ∧ (r.setSt { r.st with decode_gain := 0 }).k = r.k ∧
    (GainSkel.withGain0 inner p n r).2.st.decode_gain = r.st.decode_gain ∧
    (GainSkel.withGain0 inner p n r).2.log = (inner p n (r.setSt { r.st with decode_gain := 0 })).2.log :=
  ⟨rfl, rfl, rfl, rfl, rfl, rfl⟩

/-- **gain_pass_event** (skeleton).  The gain pass of a frame (`stepGain`, the last step before the state
    update) changes neither state nor call counter; with gain 0 it does nothing at all; with a non-zero gain it
    is exactly one pass over `audiosize*channels` samples of the frame's own buffer. -/
theorem gain_pass_event (b : DecSkel.Body) (r : DecSkel.Run) :
    (DecSkel.stepGain b r).st = r.st ∧ (DecSkel.stepGain b r).k = r.k ∧
    (r.st.decode_gain = 0 → DecSkel.stepGain b r = r) ∧
    (r.st.decode_gain ≠ 0 →
      (DecSkel.stepGain b r).log = .acc 11 b.pcm (b.audiosize * r.st.channels) :: r.log) :=
  GainSkel.stepGain_event b r

/-- **gain_frame_condition_skeleton** (skeleton, with C01's contracts).  The frame as the code is now
    (`frameBodyG`: `DecSkel.frameBody` with the gain-clearing transition call) satisfies everything C01 proves of
    `frameBody`: under the oracle contracts it returns `audiosize`, keeps the decoder invariant and every access
    in bounds, and leaves `decode_gain` — like rate, channel count, mode, … (`FrameRel`) — unchanged; the
    gain-clearing call meets the contract of the transition call (`TransOk`) whenever the plain call does.
    NOT proved: that the frame's return value, final state and the non-gain events are literally the same
    function of the inputs for gain `g` and gain 0 (needs a pass over every stage of the 700-line skeleton);
    `DecSkel.transCall` itself (C01's file) still passes the caller's gain to the inner call. -/
theorem gain_frame_condition_skeleton {o : DecSkel.Oracle} (ho : DecSkel.OracleOk o) {st0 : DecSkel.DecState}
    {cap0 : Int} {inner : DecSkel.Ptr → Int → DecSkel.Run → DecSkel.Res'} {b : DecSkel.Body} {r : DecSkel.Run} {u : Int}
    (hg : DecSkel.Good st0 cap0 r) (hu : DecSkel.Units r.st u) (hb : DecSkel.BodyOk r.st u b)
    (hroom : b.pcm.room (b.audiosize * r.st.channels)) (hcap : DecSkel.PtrCapOk st0 cap0 b.pcm)
    (htr : b.data.isSome → DecSkel.TransOk st0 cap0 u inner) :
    (∃ r', GainSkel.frameBodyG o inner b r = (.ret b.audiosize, r') ∧ DecSkel.Good st0 cap0 r' ∧
      DecSkel.FrameRel r.st r'.st ∧ r'.st.prev_mode = b.mode) ∧
    (DecSkel.TransOk st0 cap0 u inner → DecSkel.TransOk st0 cap0 u (GainSkel.withGain0 inner)) :=
  ⟨GainSkel.frameBodyG_spec ho hg hu hb hroom hcap htr, GainSkel.withGain0_transOk⟩

/-- the contract of the transition call is satisfiable (a call that returns at once); the remaining
    hypotheses are those of C01's `frameBody_spec` (non-vacuity: OpusProps/C01.lean) -/
example (st0 : DecSkel.DecState) (cap0 u : Int) : DecSkel.TransOk st0 cap0 u (fun _ n r => (.ret n, r)) :=
  fun r n hg _ _ => ⟨n, r, rfl, hg, DecSkel.FrameRel.refl _⟩

/-- **gain_ctl_range**.  `OPUS_SET_GAIN(v)` is accepted exactly for `-32768 ≤ v ≤ 32767` and then stores
    `v`; otherwise it answers `OPUS_BAD_ARG` and the stored gain is unchanged. -/
theorem gain_ctl_range (cur v : Int) :
    ((-32768 ≤ v ∧ v ≤ 32767) → setGain cur v = (.ok 0, v)) ∧
    (¬ (-32768 ≤ v ∧ v ≤ 32767) → setGain cur v = (.err .badArg, cur)) := by
  unfold setGain
  constructor
  · intro h; rw [if_neg (by omega)]
  · intro h; rw [if_pos (by omega)]

example : setGain 7 32767 = (.ok 0, 32767) ∧ setGain 7 32768 = (.err .badArg, 7) := by decide

end OpusProps.C19
