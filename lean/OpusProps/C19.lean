import OpusProofs.SoftClipFull
import Mathlib.Algebra.Order.Field.Rat
/-
  Property C19 — "Soft clipping and decoder gain post-processing obey their contracts".

  Model:  `Opus.SoftClip` (OpusModel/SoftClip.lean): `opus_pcm_soft_clip` (src/opus.c:36-137) written once,
          generically over the operations it performs on samples (`ClipOps α`: + - * / neg fabs < <= int→float and
          the constants 0 1 2 2.4e-7f), same loops / operation order as the C text; `OPUS_SET_GAIN` and the
          gain multiplication of `opus_decode_frame` (src/opus_decoder.c:646-660, 1077-1086).
  The binary32 instantiation of these very definitions is compared bit for bit with the real function by
  the correspondence suite `softclip`.  Theorems marked "any arithmetic" hold for EVERY `ClipOps` instance
  (so also for the binary32 one); the others are over an arbitrary linearly ordered field `F`
  (exact arithmetic: ℚ, ℝ) with an arbitrary boost constant `eps`.
-/
namespace OpusProps.C19
open Opus Opus.SoftClip

/-- **degenerate_noop** (any arithmetic).  `C < 1`, `N < 1`, a null sample pointer or a null memory
    pointer: the call returns without touching either buffer. -/
theorem degenerate_noop {α : Type} [ClipOps α] (xNull memNull : Bool) (x mem : Array α) (N C : Int)
    (h : C < 1 ∨ N < 1 ∨ xNull = true ∨ memNull = true) :
    softClip xNull memNull x mem N C = .ok (x, mem) :=
  softClip_degenerate xNull memNull x mem N C h

example : ((0 : Int) < 1 ∨ (5 : Int) < 1 ∨ false = true ∨ false = true) := Or.inl (by decide)

/-- **channel_independent** (any arithmetic).  On buffers of the declared size (`N·C` samples, `C`
    memories, `N, C ≥ 1`) the call succeeds, and for every channel `c` the samples and the memory it
    leaves for that channel are exactly those of the 1-channel call on the de-interleaved samples of
    channel `c` with that channel's memory: no channel sees another channel's data or state. -/
theorem channel_independent {α : Type} [ClipOps α] (x mem : Array α) (N C : Nat) (hN : 1 ≤ N) (hC : 1 ≤ C)
    (hsz : x.size = N * C) (hm : mem.size = C) :
    ∃ y m', softClip false false x mem (N : Int) (C : Int) = .ok (y, m') ∧ y.size = N * C ∧ m'.size = C ∧
      ∀ c, c < C → softClip false false (chan x C c N) #[mem.getD c ClipOps.zero] (N : Int) 1 =
        .ok (chan y C c N, #[m'.getD c ClipOps.zero]) :=
  softClip_channel x mem N C hN hC hsz hm

example : ∃ (x mem : Array ℚ), x.size = 3 * 2 ∧ mem.size = 2 := ⟨#[1, -2, 3/2, 0, -1/2, 5], #[0, 1/8], rfl, rfl⟩

/-- **passthrough_any_arith** (any arithmetic).  If every sample satisfies the four facts the C code
    tests on an in-range sample (`Pass v`: not `v > 1`, not `v < -1`, `MAX16(-2, MIN16(2, v)) = v`,
    `v*0 >= 0` — true of every non-NaN binary32 with `|v| ≤ 1`, and of every field element with `|v| ≤ 1`)
    and the memory is cleared, output and memory are the input, unchanged. -/
theorem passthrough_any_arith {α : Type} [ClipOps α] (x mem : Array α) (N C : Nat) (hsz : x.size = N * C)
    (hm : mem.size = C) (hmem : ∀ c, c < C → mem.getD c ClipOps.zero = ClipOps.zero)
    (h : ∀ j, j < N * C → Pass (x.getD j ClipOps.zero)) :
    softClip false false x mem (N : Int) (C : Int) = .ok (x, mem) :=
  softClip_pass x mem N C hsz hm hmem h

/-- **passthrough** (ordered field).  All `|x[j]| ≤ 1` and cleared memory: output = input, memory stays 0. -/
theorem passthrough {F : Type} [Field F] [LinearOrder F] [IsStrictOrderedRing F] (eps : F)
    (x mem : Array F) (N C : Nat) (hsz : x.size = N * C) (hm : mem.size = C)
    (hmem : ∀ c, c < C → mem.getD c 0 = 0) (h : ∀ j, j < N * C → |x.getD j 0| ≤ 1) :
    @softClip F (fieldOps eps) false false x mem (N : Int) (C : Int) = .ok (x, mem) :=
  softClip_pass_field eps x mem N C hsz hm hmem h

example : ∀ j, j < 2 * 2 → |(#[1, -1, 1/3, 0] : Array ℚ).getD j 0| ≤ 1 := by
  intro j hj
  have : j = 0 ∨ j = 1 ∨ j = 2 ∨ j = 3 := by omega
  rcases this with rfl | rfl | rfl | rfl <;> norm_num

/-- **bounded_sign_preserved** (ordered field; whole call, any channel count).  For every buffer of the
    declared size, every boost constant `0 ≤ eps < 1` (the code's is 2.4e-7) and memories within
    `(1+eps)/4` (zero-initialised memory is; the bound is re-established by every call, so it holds along any
    sequence of frames sharing the memory): the call succeeds, every output sample lies in [-1, 1], no
    sample changes sign (a positive input stays positive, a negative one negative — strict), and the
    memories left behind are again within `(1+eps)/4`.  Covers the ±2 pre-saturation, the continuation of
    the previous frame's curve, every excursion with its boosted coefficient, the start-of-frame ramp
    (`offset = delta*(peak_pos-1-i)`, exactly 0 at the peak) and the loop over excursions. -/
theorem bounded_sign_preserved {F : Type} [Field F] [LinearOrder F] [IsStrictOrderedRing F] (eps : F)
    (he0 : 0 ≤ eps) (he1 : eps < 1) (x mem : Array F) (N C : Nat) (hN : 1 ≤ N) (hC : 1 ≤ C)
    (hsz : x.size = N * C) (hm : mem.size = C) (hmem : ∀ c, c < C → |mem.getD c 0| ≤ (1 + eps) / 4) :
    ∃ y m', @softClip F (fieldOps eps) false false x mem (N : Int) (C : Int) = .ok (y, m') ∧
      y.size = N * C ∧ m'.size = C ∧
      (∀ j, j < N * C → |y.getD j 0| ≤ 1 ∧ (0 < x.getD j 0 → 0 < y.getD j 0) ∧ (x.getD j 0 < 0 → y.getD j 0 < 0)) ∧
      (∀ c, c < C → |m'.getD c 0| ≤ (1 + eps) / 4) :=
  softClip_bound eps he0 he1 x mem N C hN hC hsz hm hmem

example : (0 : ℚ) ≤ 1/4194304 ∧ (1/4194304 : ℚ) < 1 ∧ (#[3/2, -3, 1/2, 100, -1/7, 0] : Array ℚ).size = 3 * 2 ∧
    (#[0, 1/8] : Array ℚ).size = 2 ∧ ∀ c, c < 2 → |(#[0, 1/8] : Array ℚ).getD c 0| ≤ (1 + 1/4194304) / 4 := by
  refine ⟨by norm_num, by norm_num, rfl, rfl, fun c hc => ?_⟩
  have : c = 0 ∨ c = 1 := by omega
  rcases this with rfl | rfl <;> norm_num

/-- **bounded** (ordered field).  Every output sample of `opus_pcm_soft_clip` lies in [-1, 1]. -/
theorem bounded {F : Type} [Field F] [LinearOrder F] [IsStrictOrderedRing F] (eps : F)
    (he0 : 0 ≤ eps) (he1 : eps < 1) (x mem : Array F) (N C : Nat) (hN : 1 ≤ N) (hC : 1 ≤ C)
    (hsz : x.size = N * C) (hm : mem.size = C) (hmem : ∀ c, c < C → |mem.getD c 0| ≤ (1 + eps) / 4) :
    ∃ y m', @softClip F (fieldOps eps) false false x mem (N : Int) (C : Int) = .ok (y, m') ∧
      ∀ j, j < N * C → |y.getD j 0| ≤ 1 := by
  obtain ⟨y, m', h1, _, _, h4, _⟩ := softClip_bound eps he0 he1 x mem N C hN hC hsz hm hmem
  exact ⟨y, m', h1, fun j hj => (h4 j hj).1⟩

/-- **sign_preserved** (ordered field).  No output sample has the opposite sign of its input. -/
theorem sign_preserved {F : Type} [Field F] [LinearOrder F] [IsStrictOrderedRing F] (eps : F)
    (he0 : 0 ≤ eps) (he1 : eps < 1) (x mem : Array F) (N C : Nat) (hN : 1 ≤ N) (hC : 1 ≤ C)
    (hsz : x.size = N * C) (hm : mem.size = C) (hmem : ∀ c, c < C → |mem.getD c 0| ≤ (1 + eps) / 4) :
    ∃ y m', @softClip F (fieldOps eps) false false x mem (N : Int) (C : Int) = .ok (y, m') ∧
      ∀ j, j < N * C → (0 < x.getD j 0 → 0 < y.getD j 0) ∧ (x.getD j 0 < 0 → y.getD j 0 < 0) := by
  obtain ⟨y, m', h1, _, _, h4, _⟩ := softClip_bound eps he0 he1 x mem N C hN hC hsz hm hmem
  exact ⟨y, m', h1, fun j hj => (h4 j hj).2⟩

/-- **ramp_term_exact** (ordered field).  The start-of-frame ramp adds `delta·(peak-1-j)` to sample `j` and
    clamps to ±1; at the last ramp sample `j = peak-1` the added term is exactly 0 (the former residue of the
    repeated subtraction `offset -= delta` cannot occur). -/
theorem ramp_term_exact {F : Type} [Field F] [LinearOrder F] [IsStrictOrderedRing F] (eps : F)
    (x : Array F) (delta : F) (i peak : Nat) :
    (∀ j, (@rampLoop F (fieldOps eps) x 1 0 delta i peak).getD j 0 =
      if i ≤ j ∧ j < peak ∧ j < x.size then clamp1 (x.getD j 0 + delta * ((peak - 1 - j : Nat) : F)) else x.getD j 0) ∧
    (1 ≤ peak → i ≤ peak - 1 → peak - 1 < x.size →
      (@rampLoop F (fieldOps eps) x 1 0 delta i peak).getD (peak - 1) 0 = clamp1 (x.getD (peak - 1) 0)) := by
  obtain ⟨_, h⟩ := rampLoop_spec eps x delta i peak
  refine ⟨h, fun h1 h2 h3 => ?_⟩
  have := h (peak - 1)
  rw [if_pos ⟨h2, by omega, h3⟩, Nat.sub_self, Nat.cast_zero, mul_zero, add_zero] at this
  exact this

/-- **gain_frame_condition**.  The decoder gain touches nothing but the sample values: the return value
    (sample count), `rangeFinal` and the number of samples are those of the gain-0 decode; gain 0 leaves
    the samples alone; a non-zero gain multiplies each sample by the one factor `gainOf g`. -/
theorem gain_frame_condition {α : Type} [ClipOps α] (gainOf : Int → α) (g : Int) (f : FrameOut α) :
    (applyGain gainOf g f).ret = f.ret ∧ (applyGain gainOf g f).rangeFinal = f.rangeFinal ∧
    (applyGain gainOf g f).pcm.size = f.pcm.size ∧
    (g = 0 → applyGain gainOf g f = f) ∧
    (g ≠ 0 → ∀ i, i < f.pcm.size → (applyGain gainOf g f).pcm[i]? = f.pcm[i]?.map (· * gainOf g)) := by
  unfold applyGain
  by_cases hg : g = 0
  · simp [hg]
  · simp [hg]

example : (@applyGain ℚ (fieldOps 0) (fun _ => (2 : ℚ)) 5 (@FrameOut.mk ℚ #[1, 3] 2 77)).pcm.size = 2 := by
  simp [applyGain]

/-- **gain_ctl_range**.  `OPUS_SET_GAIN(v)` is accepted exactly for `-32768 ≤ v ≤ 32767` and then stores
    `v`; otherwise it answers `OPUS_BAD_ARG` and the stored gain is unchanged. -/
theorem gain_ctl_range (cur v : Int) :
    ((-32768 ≤ v ∧ v ≤ 32767) → setGain cur v = (.ok 0, v)) ∧
    (¬ (-32768 ≤ v ∧ v ≤ 32767) → setGain cur v = (.err .badArg, cur)) := by
  unfold setGain
  constructor
  · intro h; rw [if_neg (by omega)]
  · intro h; rw [if_pos (by omega)]

example : setGain 7 32767 = (.ok 0, 32767) ∧ setGain 7 32768 = (.err .badArg, 7) := by decide

end OpusProps.C19
