import OpusProofs.DecSkelLoss
import OpusProps.C01
import OpusProofs.SilkPlcGains
import OpusProofs.LbrrFlag
/-
  Property C09 — "Packet loss: PLC and FEC return the requested audio, stay bounded, and recover".

  What is proved here (the CONTROL and INTEGER parts of the property):
    * duration:   a concealment (NULL packet) or FEC request returns exactly the requested duration
                  when it is a positive multiple of 2.5 ms and OPUS_BAD_ARG otherwise; through all
                  three public entry points; for every decoder state satisfying the C01 invariant
                  (hence after every loss pattern) and every DSP behaviour within the oracle contracts.
    * chunking:   a request is cut into chunks the layers accept (CELT: 2.5/5/10/20 ms; SILK: 10/20 ms
                  frames, of which 2.5-10 ms may be kept), tiling the request exactly.
    * FEC shape:  FEC = concealment of `frame_size − packet_frame_size` + ONE LBRR frame at the end of
                  the buffer, or plain concealment when :761 says no LBRR data can be used.
    * LBRR flag:  the bit `opus_packet_has_lbrr` tests is the bit a fresh range decoder hands to
                  `silk_Decode` as the LBRR flag.
    * gains:      the SILK concealment attenuation constants (regenerated from silk/PLC.c on every run)
                  are < 1.0 in Q15, so LTP taps and the random-excitation scale shrink per lost frame.
    * CELT `loss_duration` saturates at 10000 and is reset by a decoded frame.
  What is NOT provable in this setting (float DSP; searched on the implementation only, see
  tools/props/C09.py): level bound of the concealed SIGNAL, its decay, re-convergence, FEC vs. PLC
  accuracy.

  Model: `Opus.DecSkel` (as for C01), `Opus.SilkPlcGains`, `Opus.RangeCoder` (decoder side only).
-/
namespace OpusProps.C09
open Opus Opus.Framing Opus.DecSkel

/-- Duration clause, public entry points (`opus_decode` / `opus_decode24` / `opus_decode_float`):
    for every state satisfying the decoder invariant — in particular after ANY pattern of lost and
    received packets — a NULL-packet (or `len = 0`) request, or a `decode_fec = 1` request on a packet
    with valid framing, for a positive multiple of 2.5 ms returns exactly that many samples, sets
    the last-packet-duration to it and keeps the invariant. -/
theorem plc_duration (o : Oracle) (ho : OracleOk o) (st : DecState) (hinv : DecInv st) (fmt : Fmt)
    (data : Option Bytes) (hb : ∀ bs, data = some bs → BytesOk bs) (len frame_size fec : Int)
    (hfec : fec = 0 ∨ fec = 1) (hpos : 0 < frame_size) (hmul : frame_size % (st.Fs / 400) = 0)
    (hcase : (len = 0 ∨ data = none) ∨
      (fec = 1 ∧ 0 < len ∧ ∃ p, parseImpl false ((data.getD []).take len.toNat) = .ok p)) :
    (decodeApi o fmt data len frame_size fec { st := st, k := 0, log := [] }).ret = .ret frame_size ∧
    (decodeApi o fmt data len frame_size fec { st := st, k := 0, log := [] }).run.st.last_packet_duration = frame_size ∧
    DecInv (decodeApi o fmt data len frame_size fec { st := st, k := 0, log := [] }).run.st := by
  have hloss : data = none ∨ len ≤ 0 ∨ fec ≠ 0 := by
    rcases hcase with (h | h) | ⟨h, _, _⟩
    · exact Or.inr (Or.inl (by omega))
    · exact Or.inl h
    · exact Or.inr (Or.inr (by omega))
  obtain ⟨sc, heq⟩ := decodeApi_loss_eq (o := o) fmt data len frame_size fec { st := st, k := 0, log := [] } hpos hinv.ch hloss
  rw [heq]
  have h1 := OpusProps.C01.decodeNative_plc_duration o ho { st := st, k := 0, log := [] } hinv rfl data hb len
    { buf := .pcm, off := 0, cap := frame_size * st.channels } frame_size fec false sc rfl (by simp) hfec hpos hmul hcase
  have h2 := decodeNative_spec ho (good_fresh hinv (frame_size * st.channels)) data hb len
    { buf := .pcm, off := 0, cap := frame_size * st.channels } frame_size fec false sc (by simp) (callerBuf_cap st _)
  exact ⟨h1.1, h1.2, h2.good.inv⟩

example : (Opus.DecSkel.Call.decode .i16 none 0 2880 0).WF := by intro bs h; cases h
example : (2880 : Int) % (48000 / 400) = 0 := by decide

/-- … and a request that is NOT a multiple of 2.5 ms is refused with OPUS_BAD_ARG, leaving the
    decoder untouched. -/
theorem plc_not_multiple (o : Oracle) (ho : OracleOk o) (st : DecState) (hinv : DecInv st) (fmt : Fmt)
    (data : Option Bytes) (hb : ∀ bs, data = some bs → BytesOk bs) (len frame_size fec : Int)
    (hfec : fec = 0 ∨ fec = 1) (hpos : 0 < frame_size) (hmul : frame_size % (st.Fs / 400) ≠ 0)
    (hcase : len = 0 ∨ data = none ∨ fec = 1) :
    (decodeApi o fmt data len frame_size fec { st := st, k := 0, log := [] }).ret = .ret BAD_ARG ∧
    (decodeApi o fmt data len frame_size fec { st := st, k := 0, log := [] }).run = { st := st, k := 0, log := [] } := by
  have hloss : data = none ∨ len ≤ 0 ∨ fec ≠ 0 := by
    rcases hcase with h | h | h
    · exact Or.inr (Or.inl (by omega))
    · exact Or.inl h
    · exact Or.inr (Or.inr (by omega))
  obtain ⟨sc, heq⟩ := decodeApi_loss_eq (o := o) fmt data len frame_size fec { st := st, k := 0, log := [] } hpos hinv.ch hloss
  rw [heq]
  have h2 := decodeNative_spec ho (good_fresh hinv (frame_size * st.channels)) data hb len
    { buf := .pcm, off := 0, cap := frame_size * st.channels } frame_size fec false sc (by simp) (callerBuf_cap st _)
  have hval : nativeRet st data len frame_size fec false = BAD_ARG := by
    unfold nativeRet
    rw [if_neg (by omega)]
    have hc : (fec ≠ 0 ∨ len = 0 ∨ data.isNone = true) ∧ cmod frame_size (st.Fs / 400) ≠ 0 := by
      refine ⟨?_, ?_⟩
      · rcases hcase with h | h | h
        · exact Or.inr (Or.inl h)
        · right; right; rw [h]; rfl
        · exact Or.inl (by omega)
      · rw [cmod_nonneg (by omega)]; exact hmul
    rw [if_pos hc]
  rw [hval] at h2
  exact ⟨h2.ret, h2.err (by decide)⟩

example : (1000 : Int) % (48000 / 400) ≠ 0 := by decide

/-- Chunking clause.  `opus_decode_frame(NULL, …)` for any multiple `k·2.5 ms` (after the clamps of
    :300/:306) returns a positive multiple `v ≤` the request — the caller's loop (:728-735) then
    advances by exactly `v` — and all inner calls it logs are legal (`EvGood`: every CELT call has a
    frame size of 2.5/5/10/20 ms, every SILK call `payloadSize_ms ∈ {10,20,40,60}`, every extent is
    inside its buffer).  For a request of at most 20 ms after a packet has been decoded the chunk
    is 2.5, 5, 7.5, 10 or 20 ms, 7.5 ms only when the SILK-only layer conceals (it produces 10 ms
    and keeps 7.5); a longer request is cut by the chunk loop (:333-342) into calls of at most
    20 ms and returned in full; a request equal to a packet duration is returned in full. -/
theorem plc_chunking (o : Oracle) (ho : OracleOk o) (st0 : DecState) (cap0 : Int) (r : Run) (hg : Good st0 cap0 r)
    (u : Int) (hu : Units r.st u) (k : Nat) (hk : 1 ≤ k) (pcm : Ptr)
    (hroom : pcm.room ((k : Int) * u * r.st.channels)) (hcap : PtrCapOk st0 cap0 pcm) :
    ∃ v r', nullAfterClamp o (nullFrameLeaf o) 0 pcm ((k : Int) * u) r = (.ret v, r') ∧ Good st0 cap0 r' ∧
      0 < v ∧ v ≤ (k : Int) * u ∧ (∃ j : Nat, v = j * u) ∧
      (((k : Int) * u = u ∨ (k : Int) * u = 2 * u ∨ (k : Int) * u = 4 * u ∨ 8 * u ≤ (k : Int) * u) → v = (k : Int) * u) ∧
      (k ≤ 8 → (if r.st.prev_redundancy ≠ 0 then MODE_CELT else r.st.prev_mode) ≠ 0 →
        (v = u ∨ v = 2 * u ∨ v = 3 * u ∨ v = 4 * u ∨ v = 8 * u) ∧
        ((if r.st.prev_redundancy ≠ 0 then MODE_CELT else r.st.prev_mode) ≠ MODE_SILK → v ≠ 3 * u)) := by
  obtain ⟨v, r', e, g, _, h1, h2, h3, h4⟩ := nullAfterClamp_spec ho (len := 0) k hg hu rfl hk (by omega) hroom hcap
  refine ⟨v, r', e, g, h1, h2, h3, h4, ?_⟩
  intro h8 hm
  have hfs : Upto8 u ((k : Int) * u) := by
    unfold Upto8
    have hk8 : k = 1 ∨ k = 2 ∨ k = 3 ∨ k = 4 ∨ k = 5 ∨ k = 6 ∨ k = 7 ∨ k = 8 := by omega
    rcases hk8 with h | h | h | h | h | h | h | h <;> subst h <;> simp
  obtain ⟨v', r'', e', _, _, _, _, _, h5⟩ := nullAfterClamp_small ho (inner := nullFrameLeaf o) (len := 0) hg hu hfs (by omega) hroom hcap
  rw [e] at e'
  have : v = v' := by injection e' with e1 _; injection e1
  subst this
  exact h5 hm

/-- FEC degrades to concealment exactly as :756-762 say: when the request is shorter than one frame
    of the packet, or the packet is CELT-only, or the previous packet was CELT-only, the FEC call
    and the NULL-packet call have the same return value and the same run (state, inner calls,
    buffer accesses) — "otherwise behaves like concealment". -/
theorem fec_degrades_to_plc (o : Oracle) (bs : Bytes) (len : Int) (pcm : Ptr) (frame_size : Int) (sd sc : Bool) (r : Run)
    (p : Parsed) (hlen : 0 < len) (hp : parseImpl sd (bs.take len.toNat) = .ok p)
    (hcond : frame_size < (samplesPerFrame ((bs.take len.toNat).headD 0) r.st.Fs.toNat : Int) ∨
      ((getMode ((bs.take len.toNat).headD 0) : Nat) : Int) = MODE_CELT ∨ r.st.mode = MODE_CELT) :
    (decodeNative o (some bs) len pcm frame_size 1 sd sc r).ret = (decodeNative o none 0 pcm frame_size 0 sd sc r).ret ∧
    (decodeNative o (some bs) len pcm frame_size 1 sd sc r).run = (decodeNative o none 0 pcm frame_size 0 sd sc r).run :=
  fec_degrades_eq o bs len pcm frame_size sd sc r p hlen hp hcond

example : ((getMode 252 : Nat) : Int) = MODE_CELT := by decide

/-- FEC call shape (:763-788): when LBRR data can be used, the branch conceals exactly
    `frame_size − packet_frame_size` samples at the start of the buffer (one recursive
    `opus_decode_native(NULL)`; nothing when the difference is 0), then updates the TOC state and
    makes ONE `opus_decode_frame(data, size[0], pcm + channels·(frame_size − packet_frame_size),
    packet_frame_size, decode_fec = 1)`, and returns `frame_size` with `last_packet_duration =
    frame_size`; `celt_assert(ret==frame_size-packet_frame_size)` (:773) holds. -/
theorem fec_call_shape (o : Oracle) (ho : OracleOk o) (st0 : DecState) (cap0 : Int) (pcm : Ptr) (frame_size : Int)
    (toc : Nat) (off0 sz0 : Int) (r : Run) (u : Int) (hg : Good st0 cap0 r) (hu : Units r.st u) (ht : toc < 256)
    (hmul : cmod frame_size (r.st.Fs / 400) = 0) (hoff : 0 ≤ off0) (hsz : 0 ≤ sz0 ∧ sz0 ≤ 1275)
    (hroom : 0 ≤ pcm.off ∧ pcm.off + frame_size * r.st.channels ≤ pcm.cap) (hcap : PtrCapOk st0 cap0 pcm)
    (hcond : ¬ (frame_size < ((samplesPerFrame toc r.st.Fs.toNat : Nat) : Int) ∨ ((getMode toc : Nat) : Int) = MODE_CELT ∨
      r.st.mode = MODE_CELT)) :
    ∃ (r1 : Run) (v : Int) (r3 : Run),
      ((frame_size - ((samplesPerFrame toc r.st.Fs.toNat : Nat) : Int) = 0 ∧ r1 = r) ∨
       (0 < frame_size - ((samplesPerFrame toc r.st.Fs.toNat : Nat) : Int) ∧
        nativePlc o pcm (frame_size - ((samplesPerFrame toc r.st.Fs.toNat : Nat) : Int)) r =
          (.ret (frame_size - ((samplesPerFrame toc r.st.Fs.toNat : Nat) : Int)), r1))) ∧
      decodeFrame o (some off0) sz0 (pcm.add (r.st.channels * (frame_size - ((samplesPerFrame toc r.st.Fs.toNat : Nat) : Int))))
        ((samplesPerFrame toc r.st.Fs.toNat : Nat) : Int) 1
        (r1.setSt (setToc r1.st ((getMode toc : Nat) : Int) ((getBandwidth toc : Nat) : Int)
          ((samplesPerFrame toc r.st.Fs.toNat : Nat) : Int) ((getNbChannels toc : Nat) : Int))) = (.ret v, r3) ∧
      0 < v ∧
      nativeFec o pcm frame_size ((samplesPerFrame toc r.st.Fs.toNat : Nat) : Int) ((getMode toc : Nat) : Int)
        ((getBandwidth toc : Nat) : Int) ((getNbChannels toc : Nat) : Int) off0 sz0 r =
        (.ret frame_size, r3.setSt { r3.st with last_packet_duration := frame_size }) :=
  nativeFec_shape ho hg hu ht hmul hoff hsz hroom hcap hcond

/-- … and inside that one frame the SILK layer is asked for the LBRR data (`lost_flag = 2`), no
    redundancy is parsed, and the CELT layer gets no data (it conceals its band). -/
theorem fec_frame_layers (o : Oracle) (b : Body) (off : Int) (hd : b.data = some off) (hf : b.fec ≠ 0) (tell : Int)
    (r : Run) (st : DecState) (red : Red) :
    silkLost b = 2 ∧ (redStage o b tell r).1.redundancy = 0 ∧ (redStage o b tell r).2 = r ∧
    (mainArgs st b red).dataOff = none :=
  Opus.DecSkel.fec_frame_layers o b off hd hf tell r st red

/-- LBRR flag position.  On a frame with first byte `b0`, a freshly initialised range decoder
    returns for its first eight `ec_dec_bit_logp(·, 1)` calls the bits `7, 6, …, 0` of `b0`.
    `silk_Decode` (dec_API.c:229-234) reads, per channel, `nFramesPerPacket` VAD flags and then the
    LBRR flag: for `n ∈ {1,2,3}` SILK frames per packet the mid/mono LBRR flag is decoded bit number
    `n` (= bit `7−n` of `b0`) and the side channel's is decoded bit number `2n+1` (= bit `6−2n`) —
    exactly the bits `opus_packet_has_lbrr` tests (opus_decoder.c:1222-1227, `Framing.hasLbrr`). -/
theorem lbrr_flag_position (frame : Bytes) (hb : BytesOk frame) (hne : 0 < frame.length) (n : Nat)
    (hn : n = 1 ∨ n = 2 ∨ n = 3) :
    (LbrrFlag.firstBits (RangeCoder.decInit frame frame.length) 8).getD n 0 = frame.getD 0 0 / 2 ^ (7 - n) % 2 ∧
    (LbrrFlag.firstBits (RangeCoder.decInit frame frame.length) 8).getD (2 * n + 1) 0 = frame.getD 0 0 / 2 ^ (6 - 2 * n) % 2 := by
  rw [LbrrFlag.firstBits_eq frame frame.length hb hne]
  rcases hn with rfl | rfl | rfl <;> simp

example : BytesOk [0x4B, 1, 2] ∧ 0 < [0x4B, 1, 2].length := by decide

/-- SILK concealment gains (silk/PLC.c:268-298, 352-357) on the constants regenerated from the
    source: every attenuation constant is a Q15 factor strictly between 0 and 1; hence, for a loss
    in progress (`lossCnt ≥ 1`), after each concealed frame every LTP tap `B_Q14[j]` has not grown in
    magnitude and every positive tap has strictly shrunk, and the random-excitation scale
    `rand_scale_Q14` has not grown and has strictly shrunk while positive ("falls under sustained
    loss", for the gain scalars). -/
theorem plc_gains_contract :
    ((∀ g ∈ Gen.PlcConsts.HARM_ATT_Q15, 0 < g ∧ g < 32768) ∧ (∀ g ∈ Gen.PlcConsts.PLC_RAND_ATTENUATE_V_Q15, 0 < g ∧ g < 32768) ∧
      (∀ g ∈ Gen.PlcConsts.PLC_RAND_ATTENUATE_UV_Q15, 0 < g ∧ g < 32768)) ∧
    (∀ (lossCnt : Int) (voiced : Bool) (nbSubfr : Nat) (B : List Int) (rs plt ig : Int), 1 ≤ lossCnt → 0 < nbSubfr →
      0 ≤ rs ∧ rs ≤ 32767 →
      (∃ h : Int → Int, (∀ b, SilkPlcGains.I16 b → SilkPlcGains.I16 (h b) ∧ SilkPlcGains.mag (h b) ≤ SilkPlcGains.mag b ∧
          (0 < b → h b < b)) ∧ (SilkPlcGains.conceal lossCnt voiced nbSubfr B rs plt ig).1 = B.map h) ∧
      0 ≤ (SilkPlcGains.conceal lossCnt voiced nbSubfr B rs plt ig).2 ∧
      (SilkPlcGains.conceal lossCnt voiced nbSubfr B rs plt ig).2 ≤ rs ∧
      (0 < rs → (SilkPlcGains.conceal lossCnt voiced nbSubfr B rs plt ig).2 < rs)) := by
  obtain ⟨_, _, _, _, h1, h2, h3⟩ := SilkPlcGains.att_tables_lt_one
  exact ⟨⟨h1, h2, h3⟩, fun lossCnt voiced nbSubfr B rs plt ig hl hn hrs =>
    SilkPlcGains.conceal_shrinks lossCnt hl voiced nbSubfr hn B rs plt ig hrs⟩

example : SilkPlcGains.I16 11469 ∧ (0 : Int) ≤ 16384 ∧ (16384 : Int) ≤ 32767 := by unfold SilkPlcGains.I16; decide

/-- First lost frame (`lossCnt = 0`): the taps shrink in the same way, and the unvoiced
    random-excitation gain (PLC.c:289-297) is still a Q15 factor not above the table value. -/
theorem plc_gains_first_frame (voiced : Bool) (nbSubfr : Nat) (hn : 0 < nbSubfr) (B : List Int) (rs plt ig : Int) :
    (∃ h : Int → Int, (∀ b, SilkPlcGains.I16 b → SilkPlcGains.I16 (h b) ∧ SilkPlcGains.mag (h b) ≤ SilkPlcGains.mag b ∧
        (0 < b → h b < b)) ∧ (SilkPlcGains.conceal 0 voiced nbSubfr B rs plt ig).1 = B.map h) ∧
    (0 ≤ SilkPlcGains.randGainUnvoiced ig (SilkPlcGains.randGain0 0 false) ∧
      SilkPlcGains.randGainUnvoiced ig (SilkPlcGains.randGain0 0 false) ≤ SilkPlcGains.randGain0 0 false ∧
      SilkPlcGains.randGain0 0 false < 32768) :=
  ⟨SilkPlcGains.conceal_first_taps voiced nbSubfr hn B rs plt ig,
   (SilkPlcGains.randGainUnvoiced_range ig _ (SilkPlcGains.randGain0_range 0 false)).1,
   (SilkPlcGains.randGainUnvoiced_range ig _ (SilkPlcGains.randGain0_range 0 false)).2,
   (SilkPlcGains.randGain0_range 0 false).2⟩

/-- CELT `loss_duration` (celt_decoder.c:957, :1354; constants observed on the built decoder on
    every run): over any history of concealed frames (2.5–20 ms) and decoded frames the counter
    stays in `[0, 10000]`; a concealed frame never decreases it and strictly increases it below the
    cap (by `2^LM`); a decoded frame resets it to 0 whatever came before. -/
theorem loss_duration_saturates :
    (∀ (frames : List (Option Nat)) (ld : Int), 0 ≤ ld ∧ ld ≤ 10000 → (∀ f ∈ frames, ∀ lm, f = some lm → lm < 4) →
      0 ≤ SilkPlcGains.celtLossRun ld frames ∧ SilkPlcGains.celtLossRun ld frames ≤ 10000) ∧
    (∀ (ld : Int) (lm : Nat), lm < 4 → 0 ≤ ld ∧ ld ≤ 10000 →
      ld ≤ SilkPlcGains.celtLossStep ld lm ∧ (ld < 10000 → ld < SilkPlcGains.celtLossStep ld lm) ∧
      SilkPlcGains.celtLossStep ld lm = min 10000 (ld + 2 ^ lm)) ∧
    (∀ (frames : List (Option Nat)) (ld : Int), SilkPlcGains.celtLossRun ld (frames ++ [none]) = 0) := by
  refine ⟨SilkPlcGains.celtLossRun_bounded, ?_, ?_⟩
  · intro ld lm hlm h
    obtain ⟨h1, _, h3, h4⟩ := SilkPlcGains.celtLossStep_spec ld lm hlm h
    exact ⟨h1, h3, h4⟩
  · intro frames ld
    rw [SilkPlcGains.celtLossRun_append]
    rfl

example : SilkPlcGains.celtLossRun 9990 [some 3, some 0, some 3, none, some 2] = 4 := by decide

/-- Which concealment a lost CELT frame gets (celt_decoder.c:639, :691, :1098, :1552; the threshold
    and the `skip_plc` values are observed on the built decoder on every run).
    (1) A lost frame is concealed by the pitch-based PLC iff `loss_duration < 40` (fewer than 100 ms
        concealed so far), the start band is 0 (CELT-only mode) and `skip_plc` is clear; otherwise by
        the noise PLC — "noise PLC from 40 on", and always in hybrid mode.
    (2) Over a whole loss burst in CELT-only mode starting with `skip_plc` clear, frame `j` gets the
        pitch PLC exactly while the loss duration accumulated before it is below 40.
    (3) Noise concealment is sticky: it sets `skip_plc`, which forces noise concealment for further
        losses and survives one decoded frame after a loss; two consecutive decoded frames clear it;
        init / reset set it (no pitch PLC before two packets have been decoded). -/
theorem plc_kind :
    (∀ (s : SilkPlcGains.CeltPlc) (start : Int),
      (SilkPlcGains.celtLostKind s start = .pitch ↔ s.ld < 40 ∧ start = 0 ∧ s.skip = false) ∧
      (SilkPlcGains.celtLostKind s start = .noise ↔ 40 ≤ s.ld ∨ start ≠ 0 ∨ s.skip = true)) ∧
    (∀ (lms : List Nat) (s : SilkPlcGains.CeltPlc), (∀ lm ∈ lms, lm < 4) → 0 ≤ s.ld ∧ s.ld ≤ 10000 →
      (s.skip = true → 40 ≤ s.ld) →
      (SilkPlcGains.celtPlcRun s (lms.map (fun lm => SilkPlcGains.CeltEv.lost lm 0))).2 = SilkPlcGains.burstKinds s.ld lms) ∧
    (∀ (s : SilkPlcGains.CeltPlc) (start : Int) (lm : Nat),
      (SilkPlcGains.celtLostKind s start = .noise → (SilkPlcGains.celtLost s start lm).skip = true) ∧
      (s.skip = true → SilkPlcGains.celtLostKind s start = .noise) ∧
      (s.skip = true → s.ld ≠ 0 → (SilkPlcGains.celtGood s lm).skip = true)) ∧
    (∀ (s : SilkPlcGains.CeltPlc) (a b : Nat), a < 4 → (SilkPlcGains.celtGood (SilkPlcGains.celtGood s a) b).skip = false) ∧
    SilkPlcGains.celtReset.skip = true :=
  ⟨fun s start => ⟨SilkPlcGains.celtLostKind_pitch_iff s start, SilkPlcGains.celtLostKind_noise_iff s start⟩,
   SilkPlcGains.celt_burst_kinds,
   SilkPlcGains.celt_skip_sticky,
   fun s a b ha => (SilkPlcGains.celt_two_good s a b ha).1,
   rfl⟩

/-- Non-vacuity: after two decoded frames, a burst of 20 ms CELT frames gets five pitch-concealed frames
    (loss durations 0, 8, …, 32) and noise from the sixth on; after one decoded frame the next loss is
    still noise, after two it is pitch again. -/
example : (SilkPlcGains.celtPlcRun SilkPlcGains.celtReset
    [.good 3, .good 3, .lost 3 0, .lost 3 0, .lost 3 0, .lost 3 0, .lost 3 0, .lost 3 0, .lost 3 0,
     .good 3, .lost 3 0, .good 3, .good 3, .lost 3 0]).2 =
    [.pitch, .pitch, .pitch, .pitch, .pitch, .noise, .noise, .noise, .pitch] := by decide


/-! ## Audit follow-ups -/

/-- SILK / hybrid TOCs announce 10, 20, 40 or 60 ms frames: `opus_packet_has_lbrr`'s `nb_frames` is 1, 2 or 3. -/
theorem lbrr_nb_frames : ∀ toc ∈ List.range 256, getMode toc ≠ MODE_CELT_ONLY →
    (if samplesPerFrame toc 48000 > 960 then samplesPerFrame toc 48000 / 960 else 1) ∈ [1, 2, 3] := by decide +kernel

/-- **lbrr_flag_is_has_lbrr.**  `opus_packet_has_lbrr` (C06's model `Framing.hasLbrr`) returns exactly the flag(s) the
    SILK layer decodes.  For a SILK-only or hybrid packet with valid framing whose first frame is not empty: let
    `frame0` be the bytes of the first frame, `bits` the first eight `ec_dec_bit_logp(·, 1)` results of a range decoder
    freshly initialised on it (`ec_dec_init(frame0, size[0])`, as `opus_decode_frame` does), and `n` the number of SILK
    frames per packet; then `hasLbrr` is `bits[n]` (the mid / mono LBRR flag, decoded after the `n` VAD flags) for a mono
    packet and `bits[n] ∨ bits[2n+1]` (mid or side LBRR flag) for a stereo one. -/
theorem lbrr_flag_is_has_lbrr (toc : Nat) (rest : Bytes) (hb : BytesOk (toc :: rest)) (hmode : getMode toc ≠ MODE_CELT_ONLY)
    (r : Parsed) (hp : parseImpl false (toc :: rest) = .ok r) (s0 : Nat) (ss : List Nat) (hs : r.sizes = s0 :: ss)
    (h0 : 0 < s0) (f0 : Nat) (fr : Bytes) (hd : (toc :: rest).drop r.payloadOffset = f0 :: fr) :
    hasLbrr (toc :: rest) = .ok
      (if getNbChannels toc = 2 then
        (if (LbrrFlag.firstBits (RangeCoder.decInit (((toc :: rest).drop r.payloadOffset).take s0) s0) 8).getD
              (if samplesPerFrame toc 48000 > 960 then samplesPerFrame toc 48000 / 960 else 1) 0 ≠ 0 ∨
            (LbrrFlag.firstBits (RangeCoder.decInit (((toc :: rest).drop r.payloadOffset).take s0) s0) 8).getD
              (2 * (if samplesPerFrame toc 48000 > 960 then samplesPerFrame toc 48000 / 960 else 1) + 1) 0 ≠ 0 then 1 else 0)
       else
        (LbrrFlag.firstBits (RangeCoder.decInit (((toc :: rest).drop r.payloadOffset).take s0) s0) 8).getD
          (if samplesPerFrame toc 48000 > 960 then samplesPerFrame toc 48000 / 960 else 1) 0) := by
  have htoc : toc < 256 := hb toc (by simp)
  have hn := lbrr_nb_frames toc (List.mem_range.mpr htoc) hmode
  generalize hnd : (if samplesPerFrame toc 48000 > 960 then samplesPerFrame toc 48000 / 960 else 1) = n at hn ⊢
  have hn3 : n = 1 ∨ n = 2 ∨ n = 3 := by simpa using hn
  -- the first frame as a byte string of its own
  have hfr : ((toc :: rest).drop r.payloadOffset).take s0 = f0 :: fr.take (s0 - 1) := by
    rw [hd]; cases s0 with
    | zero => omega
    | succ k => simp
  have hbf : BytesOk (f0 :: fr.take (s0 - 1)) := by
    intro x hx
    have : x ∈ (toc :: rest).drop r.payloadOffset := by
      rw [hd]; rcases List.mem_cons.mp hx with h | h
      · rw [h]; simp
      · exact List.mem_cons_of_mem _ (List.mem_of_mem_take h)
    exact hb x (List.mem_of_mem_drop this)
  rw [hfr, LbrrFlag.firstBits_eq (f0 :: fr.take (s0 - 1)) s0 hbf h0]
  have hg : (f0 :: fr.take (s0 - 1)).getD 0 0 = f0 := rfl
  rw [hg]
  unfold hasLbrr
  simp only [if_neg hmode, hnd, hp, hs, hd]
  rw [if_neg (by omega)]
  rcases hn3 with rfl | rfl | rfl <;> simp <;> split <;> rfl

/-- Non-vacuity: a stereo SILK wide-band 20 ms packet `4C | 58 01 02` (code 0): `n = 1`, first frame byte `0x58 = 0101 1000`:
    VAD mid 0, LBRR mid 1 → the flag is 1. -/
example : parseImpl false [0x4C, 0x58, 1, 2] = .ok ⟨0x4C, 1, [3], 1, 0, 4⟩ ∧ getMode 0x4C ≠ MODE_CELT_ONLY ∧
    hasLbrr [0x4C, 0x58, 1, 2] = .ok 1 ∧ getNbChannels 0x4C = 2 := by decide

/-- Non-vacuity of `plc_chunking`: a freshly initialised 48 kHz stereo decoder (`2.5 ms = 120` samples) and a request of
    `8·120` samples into a 1920-sample buffer satisfy its hypotheses; the chunk call returns all 960 samples. -/
example : ∃ st, init 48000 2 = some st ∧ ∃ v r', nullAfterClamp exOracle (nullFrameLeaf exOracle) 0 ⟨.pcm, 0, 1920⟩ ((8 : Nat) * 120)
    { st := st, k := 0, log := [] } = (.ret v, r') ∧ v = (8 : Nat) * 120 := by
  refine ⟨_, rfl, ?_⟩
  have hinv : DecInv _ := init_inv (fs := 48000) (ch := 2) rfl
  obtain ⟨u, hu⟩ := units_of_fs hinv.fs
  have hu120 : u = 120 := by have := hu.u400; simpa [init] using this.symm
  subst hu120
  obtain ⟨v, r', h1, _, _, _, _, h6, _⟩ := plc_chunking exOracle exOracle_ok _ 1920 _ (good_fresh hinv 1920) 120 hu 8 (by omega)
    ⟨.pcm, 0, 1920⟩ (by simp [Ptr.room]) (callerBuf_cap _ _)
  exact ⟨v, r', h1, h6 (by omega)⟩

/-- Non-vacuity of `fec_call_shape`: the same decoder, a SILK wide-band 20 ms TOC (`0x48`, 960 samples per frame) and an FEC
    request of 1920 samples satisfy its hypotheses (not CELT-only, previous mode not CELT-only, request ≥ one frame). -/
example : ∃ st, init 48000 2 = some st ∧ ∃ r3, nativeFec exOracle ⟨.pcm, 0, 3840⟩ 1920 ((samplesPerFrame 0x48 48000 : Nat) : Int)
    ((getMode 0x48 : Nat) : Int) ((getBandwidth 0x48 : Nat) : Int) ((getNbChannels 0x48 : Nat) : Int) 1 10
    { st := st, k := 0, log := [] } = (.ret 1920, r3) := by
  refine ⟨_, rfl, ?_⟩
  have hinv : DecInv _ := init_inv (fs := 48000) (ch := 2) rfl
  obtain ⟨u, hu⟩ := units_of_fs hinv.fs
  obtain ⟨r1, v, r3, _, _, _, h4⟩ := fec_call_shape exOracle exOracle_ok _ 3840 ⟨.pcm, 0, 3840⟩ 1920 0x48 1 10 _ u
    (good_fresh hinv 3840) hu (by decide) (by decide) (by omega) (by omega) (by simp) (callerBuf_cap _ _) (by decide)
  exact ⟨_, h4⟩

end OpusProps.C09
