/-
  C09, slice CeltBg — the weight a received CELT frame gets in the background-noise estimate after a loss burst is capped.
  Clause of C09: "output ... falls well below the pre-loss level under sustained loss", for EVERY loss pattern: the floor the
  noise concealment decays to (`backgroundLogE`) may rise by at most 160 x 0.001 (log2 units, about 1 dB) per received frame,
  however long the preceding burst was.  The float DSP around it is searched (tools/props/C09.py, rebound sessions).
-/
import OpusProofs.CeltLossBackground

namespace OpusProps.C09CeltBg
open Opus

/-- For every loss history (any sequence of concealed frames of 2.5–20 ms and decoded frames, from any counter value) and every
    size of the frame that is received next, the per-received-frame background increase factor `min(160, loss_duration + M)`
    (celt_decoder.c, `max_background_increase`; cap, step and a probe table regenerated from the compiled decoder) is at most 160;
    it is monotone in the loss duration, equals `loss_duration + 2^LM` while that is ≤ 160, and the model agrees with the compiled
    decoder on every regenerated probe. -/
theorem background_increase_capped :
    (∀ (frames : List (Option Nat)) (ld0 : Int) (LM : Nat),
      CeltLossBackground.bgIncrease (SilkPlcGains.celtLossRun ld0 frames) LM ≤ 160) ∧
    (∀ (a b : Int) (LM : Nat), a ≤ b → CeltLossBackground.bgIncrease a LM ≤ CeltLossBackground.bgIncrease b LM) ∧
    (∀ (ld : Int) (LM : Nat), LM < 4 → ld + 2 ^ LM ≤ 160 → CeltLossBackground.bgIncrease ld LM = ld + 2 ^ LM) ∧
    Gen.CeltBgConsts.celtBgProbes.all (fun p => CeltLossBackground.bgIncrease p.1 p.2.1 == p.2.2) = true :=
  ⟨fun frames ld0 LM => CeltLossBackground.bgIncrease_le _ LM,
   CeltLossBackground.bgIncrease_mono,
   fun ld LM hlm h => by
     have : Gen.CeltBgConsts.celtBgStep.getD LM 0 = 2 ^ LM := by
       match LM, hlm with
       | 0, _ => rfl
       | 1, _ => rfl
       | 2, _ => rfl
       | 3, _ => rfl
     rw [← this] at h ⊢; exact CeltLossBackground.bgIncrease_below ld LM h,
   CeltLossBackground.probes_ok⟩

/-- Non-vacuity: a burst that saturates the counter at 10000 (here from 9990) followed by a received 20 ms frame gives the factor 160, a frame after
    60 ms of loss gives 24 + 8. -/
example : CeltLossBackground.bgIncrease (SilkPlcGains.celtLossRun 9990 [some 3, some 3, some 0]) 3 = 160 := by decide
example : CeltLossBackground.bgIncrease (SilkPlcGains.celtLossRun 0 [some 3, some 3, some 3]) 3 = 32 := by decide

end OpusProps.C09CeltBg
