import OpusModel.SilkStereo
import OpusProofs.SilkStereoTab
import OpusProofs.SilkStereoMain
import OpusProofs.SilkStereoAgree
import OpusProofs.SilkStereoSym
import OpusProofs.SilkStereoLoops
import OpusProofs.SilkStereoEnc
import OpusProofs.SilkStereoEncInv
/-
  OpusProps.C18Stereo — property C18 (SILK side information dequantises to stable, in-range parameters), slice Stereo:
  the mid/side predictor side information (silk/stereo_quant_pred.c, stereo_encode_pred.c, stereo_decode_pred.c).
-/
namespace OpusProps.C18Stereo
open Opus Opus.SilkParams Opus.SilkStereo OpusProofs.SilkStereoQuant OpusProofs.SilkStereoMain OpusProofs.SilkStereoAgree

/-- The defined domain of one predictor handed to `silk_stereo_quant_pred`: every `opus_int32` except the top 13 365
    values (`silk_int32_MAX - 13364 ..`), i.e. `[-2^31, 2^31 - 1 - 13365]`. -/
def Dom (p : Int) : Prop := -2147483648 ≤ p ∧ p ≤ 2147470282

/-- Table facts over the whole regenerated `silk_stereo_pred_quant_Q13`: 16 entries, strictly increasing, symmetric
    (`tab[15-i] = -tab[i]`), all `opus_int16`; the 75 levels `low + step*(2j+1)` are strictly increasing from -13364 to
    13362, neighbours at most 736 apart, mirror images of each other up to the step's rounding remainder (0..9). -/
theorem table_facts :
    tab.length = 16 ∧ OpusProofs.SilkStereoTab.strictIncr tab = true ∧
    (List.range 16).all (fun i => tab.getD (15 - i) 0 == - tab.getD i 0) = true ∧
    tab.all (fun v => decide (-32768 ≤ v ∧ v ≤ 32767)) = true ∧
    levels.length = 75 ∧ OpusProofs.SilkStereoTab.strictIncr levels = true ∧
    levels.head? = some (-13364) ∧ levels.getLast? = some 13362 ∧
    OpusProofs.SilkStereoTab.gapsLe 736 levels = true ∧
    (List.range 75).all (fun k => decide (0 ≤ -(levels.getD k 0) - levels.getD (74 - k) 0 ∧
      -(levels.getD k 0) - levels.getD (74 - k) 0 ≤ 9)) = true :=
  ⟨OpusProofs.SilkStereoTab.tab_length.1, OpusProofs.SilkStereoTab.tab_strictIncr, OpusProofs.SilkStereoTab.tab_symmetric,
   OpusProofs.SilkStereoTab.tab_int16, OpusProofs.SilkStereoTab.levels_length.1, OpusProofs.SilkStereoTab.levels_strictIncr,
   OpusProofs.SilkStereoTab.levels_ends.1, OpusProofs.SilkStereoTab.levels_ends.2, OpusProofs.SilkStereoTab.levels_gaps,
   OpusProofs.SilkStereoTab.levels_mirror⟩

example : tab.getD 0 0 = -13732 ∧ tab.getD 15 0 = 13732 ∧ levels.getD 37 0 = 0 := by decide +kernel

/-- TERMINATION WITH INDICES IN RANGE.  For every predictor pair of the defined domain and whatever `ix` holds on entry,
    `silk_stereo_quant_pred` terminates without undefined behaviour with `ix[n][0] ∈ [0,2]`, `ix[n][1] ∈ [0,5)`,
    `ix[n][2] ∈ [0,4]`; hence the joint symbol is in `[0,25)`, no `celt_assert` of `silk_stereo_encode_pred` fires and each
    of the five symbols lies inside its iCDF table (sizes 25, 3, 5, 3, 5). -/
theorem quant_indices_in_range (p0 p1 : Int) (ixIn : List Int) (h0 : Dom p0) (h1 : Dom p1) :
    ∃ out a0 b0 c0 a1 b1 c1, quantPred p0 p1 ixIn = some out ∧ out.ix = [a0, b0, c0, a1, b1, c1] ∧
      (0 ≤ a0 ∧ a0 ≤ 2) ∧ (0 ≤ b0 ∧ b0 < (subSteps : Int)) ∧ (0 ≤ c0 ∧ c0 ≤ 4) ∧
      (0 ≤ a1 ∧ a1 ≤ 2) ∧ (0 ≤ b1 ∧ b1 < (subSteps : Int)) ∧ (0 ≤ c1 ∧ c1 ≤ 4) ∧
      (0 ≤ 5 * c0 + c1 ∧ 5 * c0 + c1 < 25) ∧
      encodeSyms out.ix = .ok [(5 * c0 + c1, 25), (a0, 3), (b0, 5), (a1, 3), (b1, 5)] ∧
      Gen.SilkStereoTabs.predJointIcdf.length = 25 ∧ Gen.SilkStereoTabs.uniform3Icdf.length = 3 ∧
      Gen.SilkStereoTabs.uniform5Icdf.length = 5 := by
  obtain ⟨r0, hr0, r1, hr1, hq, -, -⟩ := quantPred_total p0 p1 ixIn h0.1 h0.2 h1.1 h1.2
  have s0 := post_spec hr0
  have s1 := post_spec hr1
  have hs : (subSteps : Int) = 5 := by decide +kernel
  refine ⟨_, _, _, _, _, _, _, hq, rfl, ⟨s0.1, s0.2.1⟩, ⟨s0.2.2.1, by omega⟩, ⟨s0.2.2.2.2.1, s0.2.2.2.2.2.1⟩,
    ⟨s1.1, s1.2.1⟩, ⟨s1.2.2.1, by omega⟩, ⟨s1.2.2.2.2.1, s1.2.2.2.2.2.1⟩, ⟨by omega, by omega⟩,
    encodeSyms_ok ⟨s0.1, s0.2.1⟩ ⟨s0.2.2.1, s0.2.2.2.1⟩ ⟨s0.2.2.2.2.1, s0.2.2.2.2.2.1⟩ ⟨s1.1, s1.2.1⟩ ⟨s1.2.2.1, s1.2.2.2.1⟩
      ⟨s1.2.2.2.2.1, s1.2.2.2.2.2.1⟩, by decide +kernel, by decide +kernel, by decide +kernel⟩

example : Dom 0 ∧ Dom (-2147483648) ∧ Dom 2147470282 ∧
    quantPred 4000 (-2147483648) [85, 85, 85, 85, 85, 85] = some { pred0 := 17339, pred1 := -13364, ix := [0, 2, 3, 0, 0, 0] } := by
  refine ⟨by unfold Dom; omega, by unfold Dom; omega, by unfold Dom; omega, by decide +kernel⟩

/-- ENCODER / DECODER AGREEMENT.  `silk_stereo_decode_pred` applied to the indices the encoder produced (joint symbol
    `5*ix[0][2] + ix[1][2]`) returns exactly the pair the encoder keeps in `pred_Q13` — both entries, including the
    `pred_Q13[0] -= pred_Q13[1]` step — so both sides run the same MS<->LR predictor. -/
theorem enc_dec_agree (p0 p1 : Int) (ixIn : List Int) (h0 : Dom p0) (h1 : Dom p1) :
    ∃ out, quantPred p0 p1 ixIn = some out ∧ decodeOfIx out.ix = .ok (out.pred0, out.pred1) := by
  obtain ⟨r0, hr0, r1, hr1, hq, -, -⟩ := quantPred_total p0 p1 ixIn h0.1 h0.2 h1.1 h1.2
  exact ⟨_, hq, decodeOfIx_ok hr0 hr1⟩

example : decodeOfIx [0, 2, 3, 0, 0, 0] = .ok (17339, -13364) := by decide +kernel

/-- NEAREST-POINT SEARCH.  The quantised predictors (`pred_Q13[0] + pred_Q13[1]` undoes the final subtraction) are levels
    of the grid, and no level `low_i + step_i*(2j+1)`, `i < 15`, `j < 5`, is nearer to the input. -/
theorem quant_nearest (p0 p1 : Int) (ixIn : List Int) (h0 : Dom p0) (h1 : Dom p1) :
    ∃ out, quantPred p0 p1 ixIn = some out ∧ (out.pred0 + out.pred1) ∈ levels ∧ out.pred1 ∈ levels ∧
      ∀ i j : Nat, i < 15 → j < 5 →
        sabs (p0 - (out.pred0 + out.pred1)) ≤ sabs (p0 - level i j) ∧ sabs (p1 - out.pred1) ≤ sabs (p1 - level i j) := by
  obtain ⟨r0, hr0, r1, hr1, hq, hn0, hn1⟩ := quantPred_total p0 p1 ixIn h0.1 h0.2 h1.1 h1.2
  have e : lv r0 - lv r1 + lv r1 = lv r0 := by omega
  refine ⟨_, hq, ?_, ?_, ?_⟩
  · show lv r0 - lv r1 + lv r1 ∈ levels
    rw [e]; exact List.mem_map.mpr ⟨r0, hr0, rfl⟩
  · exact List.mem_map.mpr ⟨r1, hr1, rfl⟩
  · intro i j hi hj
    have hm : (i, j) ∈ visitOrder := by
      simp only [visitOrder, List.mem_flatMap, List.mem_map, List.mem_range]
      exact ⟨i, by have := OpusProofs.SilkStereoTab.tab_length.2.1; omega, j, by have := OpusProofs.SilkStereoTab.tab_length.2.2.1; omega, rfl⟩
    show sabs (p0 - (lv r0 - lv r1 + lv r1)) ≤ _ ∧ _
    rw [e]
    exact ⟨hn0 (i, j) hm, hn1 (i, j) hm⟩

example : level 0 0 = -13364 ∧ level 14 4 = 13362 ∧ level 7 2 = 0 := by decide +kernel

/-- ERROR BOUND AND SATURATION.  For an input inside the span `[-13364, 13362]` of the levels the quantisation error is at
    most 368 (= the largest `step_Q13`, half of the largest sub-step 736); inputs at or below / above the span map to the
    end levels. -/
theorem quant_error_bound (p0 p1 : Int) (ixIn : List Int) (h0 : Dom p0) (h1 : Dom p1) :
    ∃ out, quantPred p0 p1 ixIn = some out ∧
      (-13364 ≤ p0 → p0 ≤ 13362 → sabs (p0 - (out.pred0 + out.pred1)) ≤ 368) ∧
      (-13364 ≤ p1 → p1 ≤ 13362 → sabs (p1 - out.pred1) ≤ 368) ∧
      (p0 ≤ -13364 → out.pred0 + out.pred1 = -13364) ∧ (13362 ≤ p0 → out.pred0 + out.pred1 = 13362) ∧
      (p1 ≤ -13364 → out.pred1 = -13364) ∧ (13362 ≤ p1 → out.pred1 = 13362) := by
  obtain ⟨r0, hr0, r1, hr1, hq, hn0, hn1⟩ := quantPred_total p0 p1 ixIn h0.1 h0.2 h1.1 h1.2
  have e : lv r0 - lv r1 + lv r1 = lv r0 := by omega
  have c0 := nearest_conseq p0 hr0 hn0
  have c1 := nearest_conseq p1 hr1 hn1
  refine ⟨_, hq, ?_, c1.1, ?_, ?_, c1.2.1, c1.2.2⟩
  · show _ → _ → sabs (p0 - (lv r0 - lv r1 + lv r1)) ≤ 368
    rw [e]; exact c0.1
  · show _ → lv r0 - lv r1 + lv r1 = -13364
    rw [e]; exact c0.2.1
  · show _ → lv r0 - lv r1 + lv r1 = 13362
    rw [e]; exact c0.2.2

example : quantPred 184 (-2147483648) [0, 0, 0, 0, 0, 0] = some { pred0 := 13692, pred1 := -13364, ix := [1, 3, 2, 0, 0, 0] } ∧
    quantPred 2147470282 13362 [0, 0, 0, 0, 0, 0] = some { pred0 := 0, pred1 := 13362, ix := [2, 4, 4, 2, 4, 4] } := by
  decide +kernel

/-- DEQUANTISED RANGE, for EVERY index tuple the symbol layer can decode (joint symbol `< 25`, `ix[n][0] < 3`,
    `ix[n][1] < 5`: the sizes of the three iCDF tables): `silk_stereo_decode_pred` reads inside
    `silk_stereo_pred_quant_Q13`, this model and the symbol layer's `stereoMk` (OpusModel/SilkSyms.lean) compute the same
    pair, `pred_Q13[1] ∈ [-13364, 13362]` and `pred_Q13[0] ∈ [-26726, 26726]`. -/
theorem dequant_in_range (n a0 b0 a1 b1 : Nat) (hn : n < 25) (ha0 : a0 < 3) (hb0 : b0 < 5) (ha1 : a1 < 3) (hb1 : b1 < 5) :
    decodePred n a0 b0 a1 b1 = .ok ((SilkSyms.stereoMk n a0 b0 a1 b1).pred0, (SilkSyms.stereoMk n a0 b0 a1 b1).pred1) ∧
      -26726 ≤ (SilkSyms.stereoMk n a0 b0 a1 b1).pred0 ∧ (SilkSyms.stereoMk n a0 b0 a1 b1).pred0 ≤ 26726 ∧
      -13364 ≤ (SilkSyms.stereoMk n a0 b0 a1 b1).pred1 ∧ (SilkSyms.stereoMk n a0 b0 a1 b1).pred1 ≤ 13362 :=
  symlayer_spec hn ha0 hb0 ha1 hb1

example : decodePred 4 0 0 2 4 = .ok (-26726, 13362) ∧ decodePred 20 2 4 0 0 = .ok (26726, -13364) := by decide +kernel

/-- … and for EVERY state of the range decoder (any packet bytes, any position): the symbol layer's
    `silk_stereo_decode_pred` returns symbols below the table sizes (the iCDF scan stops at the terminating 0), so the
    predictors it hands to `silk_stereo_MS_to_LR` are in range and equal this model's `decodePred` of those symbols. -/
theorem dequant_in_range_any_state (c : RangeCoder.Dec) :
    ∃ n a0 b0 a1 b1 : Nat, n < 25 ∧ a0 < 3 ∧ b0 < 5 ∧ a1 < 3 ∧ b1 < 5 ∧
      decodePred n a0 b0 a1 b1 = .ok ((SilkSyms.stereoDecodePred c).1.pred0, (SilkSyms.stereoDecodePred c).1.pred1) ∧
      -26726 ≤ (SilkSyms.stereoDecodePred c).1.pred0 ∧ (SilkSyms.stereoDecodePred c).1.pred0 ≤ 26726 ∧
      -13364 ≤ (SilkSyms.stereoDecodePred c).1.pred1 ∧ (SilkSyms.stereoDecodePred c).1.pred1 ≤ 13362 := by
  obtain ⟨n, a0, b0, a1, b1, hn, ha0, hb0, ha1, hb1, e⟩ := OpusProofs.SilkStereoSym.decode_any c
  rw [e]
  exact ⟨n, a0, b0, a1, b1, hn, ha0, hb0, ha1, hb1, symlayer_spec hn ha0 hb0 ha1 hb1⟩

example : (SilkSyms.stereoDecodePred (RangeCoder.decInit [0xf8, 0xd1, 0, 0] 4)).1.pred1 = 6350 := by decide +kernel

/-- `silk_stereo_decode_mid_only`: the decoded flag is 0 or 1 for every state of the range decoder (two-entry iCDF). -/
theorem mid_only_flag_binary (c : RangeCoder.Dec) : (SilkSyms.stereoDecodeMidOnly c).1 ≤ 1 :=
  OpusProofs.SilkStereoSym.mid_only_le c

example : (SilkSyms.stereoDecodeMidOnly (RangeCoder.decInit [0xff, 0xff, 0, 0] 4)).1 = 1 := by decide +kernel

/-! ## The encoder side that produces the pair (OpusModel/SilkStereoEnc.lean) -/

/-- ENCODER PREDICTORS ARE IN THE DOMAIN.  For every input — any results of the sample loops (`nrgx`, `nrgy`, `corr`,
    scales: any int16 signals and more), any smoothing state (`mid_side_amp_Q0`, `smth_width_Q14`, `width_prev_Q14`: no
    invariant needed), any bitrate, rate, speech activity, `toMono` — `silk_stereo_find_predictor` returns a value in
    `[-2^14, 2^14]` (its final `silk_LIMIT`), and the pair `silk_stereo_LR_to_MS` hands to `silk_stereo_quant_pred` in
    whichever of its five branches lies in `[-2^15, 2^15]` (width scaling by an arbitrary `opus_int16`
    `smth_width_Q14`), hence in `Dom`; with the smoothed width in its nominal range `[0, 2^14]` the scaling keeps
    `[-2^14, 2^14]`. -/
theorem encoder_pred_in_domain (x : LrIn) (lp hp : FindIn) :
    (∀ a b c d e f g h : Int, -16384 ≤ (findPredictor a b c d e f g h).pred ∧ (findPredictor a b c d e f g h).pred ≤ 16384) ∧
    (-32768 ≤ (lrToMs x lp hp).q0 ∧ (lrToMs x lp hp).q0 ≤ 32768) ∧
    (-32768 ≤ (lrToMs x lp hp).q1 ∧ (lrToMs x lp hp).q1 ≤ 32768) ∧
    Dom (lrToMs x lp hp).q0 ∧ Dom (lrToMs x lp hp).q1 ∧
    (∀ smth p : Int, 0 ≤ smth → smth ≤ 16384 → -16384 ≤ p → p ≤ 16384 →
      -16384 ≤ scalePred smth p ∧ scalePred smth p ≤ 16384) := by
  have h := OpusProofs.SilkStereoEnc.lrToMs_bounds x lp hp
  refine ⟨fun a b c d e f g h => OpusProofs.SilkStereoEnc.findPredictor_pred a b c d e f g h, h.1, h.2, ?_, ?_,
    fun smth p h1 h2 h3 h4 => OpusProofs.SilkStereoEnc.scalePred_bounds_nominal h1 h2 h3 h4⟩
  · unfold Dom; omega
  · unfold Dom; omega

example : (findPredictor 1000000 0 1000000 0 (-3000000) 0 0 655).pred = -16384 ∧
    (lrPreds { smth := 8000, widthPrev := 8000, totalRate := 20000, fsKHz := 16, is10ms := false, act := 200, toMono := false }
      (-16384) 3000 5000 9000).q0 = -8026 := by decide +kernel

/-- STATE INVARIANT AND NOMINAL BOUND.  With `state->smth_width_Q14` in `[0, 2^14]` on entry (0 after reset) and
    `prev_speech_act_Q8` in `[0, 255]`, `silk_stereo_LR_to_MS` leaves `smth_width_Q14` in `[0, 2^14]` again (whatever the
    signals, rates and the other state fields), and the pair handed to `silk_stereo_quant_pred` lies in `[-2^14, 2^14]`. -/
theorem encoder_width_invariant (x : LrIn) (lp hp : FindIn) (hs : 0 ≤ x.smth ∧ x.smth ≤ 16384) (ha : 0 ≤ x.act ∧ x.act ≤ 255) :
    (0 ≤ (lrToMs x lp hp).smth ∧ (lrToMs x lp hp).smth ≤ 16384) ∧
    (-16384 ≤ (lrToMs x lp hp).q0 ∧ (lrToMs x lp hp).q0 ≤ 16384) ∧
    (-16384 ≤ (lrToMs x lp hp).q1 ∧ (lrToMs x lp hp).q1 ≤ 16384) :=
  OpusProofs.SilkStereoEncInv.lrToMs_nominal x lp hp hs ha

example : (lrPreds { smth := 16384, widthPrev := 16384, totalRate := 64000, fsKHz := 16, is10ms := false, act := 255, toMono := false }
    16384 100 (-16384) 100).q0 = 16384 := by decide +kernel

/-- COMPOSED: EVERY call of `silk_stereo_quant_pred` the encoder makes (any signals, state, rate, whatever `ix` holds)
    terminates without undefined behaviour, writes only symbols inside their iCDF tables (no `celt_assert`), and the decoder
    rebuilds exactly the pair the encoder keeps. -/
theorem encoder_stereo_symbols_valid (x : LrIn) (lp hp : FindIn) (ixIn : List Int) :
    ∃ out syms, quantPred (lrToMs x lp hp).q0 (lrToMs x lp hp).q1 ixIn = some out ∧
      encodeSyms out.ix = .ok syms ∧ syms.length = 5 ∧ (∀ s ∈ syms, 0 ≤ s.1 ∧ s.1 < (s.2 : Int)) ∧
      decodeOfIx out.ix = .ok (out.pred0, out.pred1) := by
  have hd := encoder_pred_in_domain x lp hp
  obtain ⟨out, a0, b0, c0, a1, b1, c1, hq, -, h1, h2, h3, h4, h5, h6, h7, hs, -⟩ :=
    quant_indices_in_range _ _ ixIn hd.2.2.2.1 hd.2.2.2.2.1
  obtain ⟨out', hq', hdec⟩ := enc_dec_agree _ _ ixIn hd.2.2.2.1 hd.2.2.2.2.1
  have e : out' = out := by rw [hq] at hq'; exact (Option.some.inj hq').symm
  subst e
  have hss : (subSteps : Int) = 5 := by decide +kernel
  refine ⟨out', _, hq, hs, rfl, ?_, hdec⟩
  intro s hs'
  simp only [List.mem_cons, List.mem_nil_iff, or_false] at hs'
  rcases hs' with rfl | rfl | rfl | rfl | rfl <;> (constructor <;> simp only [] <;> omega)

/-- `silk_stereo_encode_mid_only` -> `ec_enc_done` -> `silk_stereo_decode_mid_only` (the symbol layer's reader) on a fresh
    range coder gives the flag back, for both flag values. -/
theorem mid_only_round_trip : ∀ flag : Nat, flag ≤ 1 →
    (SilkSyms.stereoDecodeMidOnly (RangeCoder.decInit (RangeCoder.encDone (RangeCoder.encIcdf
      (RangeCoder.encInit [0, 0, 0, 0] 4) (encodeMidOnlySym flag).1.toNat (encodeMidOnlySym flag).2 8)).buf 4)).1 = flag := by
  intro flag h
  have : flag = 0 ∨ flag = 1 := by omega
  rcases this with rfl | rfl <;> decide +kernel

example : (encodeMidOnlySym 1).2 = [64, 0] := by decide +kernel

/-- TRANSCRIPTION.  The search written statement for statement with its two nested `for` loops and the `goto done`
    (OpusModel/SilkStereoLoops.lean) is the scan over the visiting order that `quantOne` — hence every theorem above — uses. -/
theorem nested_loops_are_scan (pred qIn a b : Int) : quantOneLoops pred qIn a b = quantOne pred qIn a b :=
  OpusProofs.SilkStereoLoops.quantOneLoops_eq pred qIn a b

example : quantOneLoops 4000 0 85 85 = some { q := 3975, ix0 := 0, ix1 := 2, ix2 := 3 } := by decide +kernel

/-- THE DOMAIN IS EXACT (finding about the code, outside what the encoder produces).  For `pred_Q13[n] = 2147470283`
    (`silk_int32_MAX - 13364`) there is no overflow but the first level's error equals `silk_int32_MAX`, so `goto done` is
    taken at once: `ix[n][0]`, `ix[n][1]` keep whatever they held and `quant_pred_Q13` is 0 / the other predictor's level;
    for every larger input `pred_Q13[n] - lvl_Q13` overflows `opus_int32` (undefined behaviour). -/
theorem domain_exact (qIn a b : Int) :
    quantOne 2147470283 qIn a b =
      some { q := qIn, ix0 := wrap8 (a - wrap8 (Int.tdiv a 3) * 3), ix1 := b, ix2 := wrap8 (Int.tdiv a 3) } ∧
    ∀ pred, 2147470283 < pred → quantOne pred qIn a b = none :=
  ⟨quantOne_unset qIn a b, fun pred h => quantOne_overflow pred qIn a b h⟩

example : quantPred 2147470283 100 [85, 85, 85, 85, 85, 85] = some { pred0 := 0, pred1 := 0, ix := [1, 85, 28, 1, 2, 2] } := by
  decide +kernel

end OpusProps.C18Stereo
