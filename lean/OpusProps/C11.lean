import OpusProofs.CtlSurround
import OpusProofs.CtlMsEncode
import OpusProofs.CtlRanges
import OpusProofs.SilkBw
import OpusProofs.CtlMsExtra
import OpusProofs.EncSkelCtl
import OpusProofs.EncDecideHonour
import OpusModel.Gen.CtlConsts
/-
  Property C11 — "Settings are validated, read back, and honoured in the bitstream".

  Models (all tied to /repo by suites `ctl-*`, harness/c11_ctl.c):
    Opus.Ctl.encCtl / decCtl / msEncCtl / msDecCtl / projEncCtl, encCreate …   (OpusModel/Ctl.lean)
        opus_encoder_ctl, opus_decoder_ctl, opus_multistream_{en,de}coder_ctl, opus_projection_*_ctl, *_create
    Opus.EncDecide.frameSizeSelect / genToc / chain / step                      (OpusModel/EncDecide.lean)
        frame_size_select, gen_toc, opus_encode_native :1154-1761 seen from the TOC byte
  Legal values (`EncLegal`, `DecLegal`, `MsEncArgsLegal`) are written down from include/opus_defines.h,
  independently of the models.  Everything the decision chain takes from DSP code is an `Oracle`
  field; the honour theorems hold for ALL oracle values with the right C types (`OracleOk`).

  Two read-back deviations of the code are recorded as known findings, not stated as theorems:
  encoder OPUS_GET_BANDWIDTH returns the running bandwidth (C11-get-bandwidth-running; see
  `bandwidth_reported_after_frame`) and multistream OPUS_GET_BITRATE the last allocation
  (C11-ms-get-bitrate-allocated).
-/
namespace OpusProps.C11
open Opus Opus.Ctl Opus.EncDecide Opus.Framing

/-! ## 0. The constants of the model are the constants of the headers -/

/-- Request numbers, sentinels, enumerations and error codes used by the model equal the values
    `tools/extract/CtlConsts.c` prints from include/opus_defines.h, src/opus_private.h, celt/celt.h of
    the CURRENT tree (regenerated on every run). -/
theorem constants_agree :
    EncSetK.all.map (·.id) = Gen.CtlConsts.encSetIds ∧ EncGetK.all.map (·.id) = Gen.CtlConsts.encGetIds ∧
    DecSetK.all.map (·.id) = Gen.CtlConsts.decSetIds ∧ DecGetK.all.map (·.id) = Gen.CtlConsts.decGetIds ∧
    OPUS_RESET_STATE = Gen.CtlConsts.resetState ∧ OPUS_SET_ENERGY_MASK_REQUEST = Gen.CtlConsts.setEnergyMask ∧
    CELT_GET_MODE_REQUEST = Gen.CtlConsts.celtGetMode ∧
    OPUS_MULTISTREAM_GET_ENCODER_STATE_REQUEST = Gen.CtlConsts.msGetEncoderState ∧
    OPUS_MULTISTREAM_GET_DECODER_STATE_REQUEST = Gen.CtlConsts.msGetDecoderState ∧
    OPUS_AUTO = Gen.CtlConsts.opusAuto ∧ OPUS_BITRATE_MAX = Gen.CtlConsts.opusBitrateMax ∧
    [BW_NB, BW_MB, BW_WB, BW_SWB, BW_FB] = Gen.CtlConsts.bandwidths ∧
    [EncDecide.MODE_SILK_ONLY, EncDecide.MODE_HYBRID, EncDecide.MODE_CELT_ONLY] = Gen.CtlConsts.modes ∧
    [APP_VOIP, APP_AUDIO, APP_RESTRICTED_LOWDELAY] = Gen.CtlConsts.applications ∧
    Gen.CtlConsts.signals = [3001, 3002] ∧
    Gen.CtlConsts.frameDurations = [5000, 5001, 5002, 5003, 5004, 5005, 5006, 5007, 5008, 5009] ∧
    (0 : Int) :: [Err.badArg, .bufferTooSmall, .internalError, .invalidPacket, .unimplemented, .invalidState, .allocFail].map
      Err.code = Gen.CtlConsts.errorCodes := by decide +kernel

/-! ## 1. Legal value ⇒ applied and read back -/

/-- **set_get** (encoder).  A documented-legal value is accepted with OPUS_OK, and the matching
    getter then reports it — the bit-rate after its documented clamping to [500, 300000·channels]
    and AUTO/MAX resolution (`readBack`).  Holds in EVERY state `s`, so after any history.
    Three setters have no getter that reads them back (`readGetter k = none`: OPUS_SET_BANDWIDTH — see
    `bandwidth_reported_after_frame` —, OPUS_SET_FORCE_MODE and OPUS_SET_LFE, which have no GET request);
    for them the stored field is stated: these are the fields `honour_bandwidth` (`userBandwidth`) and
    the mode decision (`userForcedMode`, `lfe`) read. -/
theorem set_get (s : EncSt) (k : EncSetK) (v : Int) (h : EncLegal s k v) :
    ∃ s', encCtl s (.set k v) = (s', .ok) ∧
      (∀ g, readGetter k = some g → encCtl s' (.get g true) = (s', .okv (readBack s k v))) ∧
      (k = .bandwidth → s'.userBandwidth = v) ∧ (k = .forceMode → s'.userForcedMode = v) ∧ (k = .lfe → s'.lfe = v) := by
  obtain ⟨s', h1, h2⟩ := encCtl_set_ok s k v h
  have h3 := encSet_stored s s' k v h1
  refine ⟨s', h2, fun g hg => ?_, h3.1, h3.2.1, fun hk => (h3.2.2 hk).1⟩
  rw [encCtl_get, encSet_readBack s s' k v g h1 hg]

/-- **set_get** (decoder): OPUS_SET_GAIN / COMPLEXITY / PHASE_INVERSION_DISABLED. -/
theorem set_get_decoder (s : DecSt) (k : DecSetK) (v : Int) (h : DecLegal k v) :
    ∃ s', decCtl s (.set k v) = (s', .ok) ∧ decCtl s' (.get (decReadGetter k) true) = (s', .okv v) :=
  decCtl_set_get s k v h

/-- **set_get** (multistream / surround / projection encoder): a fanned-out setter that is legal
    for the streams returns OPUS_OK, reaches EVERY stream, and every stream's getter reports it:
    stream by stream (list equality, so stream i is compared with stream i) the values the getters
    report afterwards are the read-back values of the streams before; and for the three setters
    without a getter every stream stores the value. -/
theorem set_get_multistream (s : MsEncSt) (k : EncSetK) (v : Int) (hk : msEncFwdSet k = true)
    (hr : ¬ (k = .forceChannels ∧ v = 2 ∧ s.nbCoupled < s.nbStreams))
    (hleg : ∀ e ∈ s.streams, EncLegal e k v) :
    (msEncCtl s (.set k v)).2.code = 0 ∧
    (msEncCtl s (.set k v)).1 = { s with streams := s.streams.map (fun e => (encCtl e (.set k v)).1) } ∧
    (∀ g, readGetter k = some g →
      (msEncCtl s (.set k v)).1.streams.map (fun e' => encGetVal e' g) = s.streams.map (fun e => readBack e k v)) ∧
    (∀ e' ∈ (msEncCtl s (.set k v)).1.streams,
      (k = .bandwidth → e'.userBandwidth = v) ∧ (k = .forceMode → e'.userForcedMode = v) ∧ (k = .lfe → e'.lfe = v)) :=
  ⟨(msEncCtl_set_all k v hk hr hleg).1, (msEncCtl_set_all k v hk hr hleg).2.1,
   (msEncCtl_set_map k v hk hr hleg).1, (msEncCtl_set_map k v hk hr hleg).2⟩

/-- **set_get** (multistream / projection decoder): OPUS_SET_GAIN and
    OPUS_SET_PHASE_INVERSION_DISABLED — the two setters `opus_multistream_decoder_ctl` accepts — with a
    legal value return OPUS_OK, reach EVERY stream decoder, each stream's getter reports the value, and
    so does the multistream getter (answered by the first stream).  OPUS_SET_COMPLEXITY is not
    forwarded: OPUS_UNIMPLEMENTED, state unchanged. -/
theorem set_get_ms_decoder (s : MsDecSt) (k : DecSetK) (v : Int) (h : DecLegal k v) :
    (msDecFwdSet k = true ↔ k = .gain ∨ k = .phaseInversionDisabled) ∧
    (msDecFwdSet k = true →
      (msDecCtl s (.set k v)).2.code = 0 ∧
      (msDecCtl s (.set k v)).1 = { s with streams := s.streams.map (fun d => (decCtl d (.set k v)).1) } ∧
      (∀ d' ∈ (msDecCtl s (.set k v)).1.streams, decCtl d' (.get (decReadGetter k) true) = (d', .okv v)) ∧
      (s.streams ≠ [] →
        msDecCtl (msDecCtl s (.set k v)).1 (.get (decReadGetter k) true) = ((msDecCtl s (.set k v)).1, .okv v))) ∧
    (msDecFwdSet k = false → msDecCtl s (.set k v) = (s, .err .unimplemented)) :=
  ⟨by cases k <;> simp [msDecFwdSet], fun hk => msDecCtl_set_get s k v hk h,
   fun hk => by cases k <;> simp only [msDecFwdSet, reduceCtorEq] at hk <;> rfl⟩

/-- OPUS_GET_BANDWIDTH is the one getter that does not read its setter back (known finding
    C11-get-bandwidth-running): it reports the bandwidth decided for the last normally coded frame,
    and that never exceeds the forced (else the maximum) bandwidth nor Nyquist, MDCT MB↦WB aside. -/
theorem bandwidth_reported_after_frame (s : EncSt) (hs : DInv s.toDSt) (o : Oracle) (ho : OracleOk o) (f b : Int) :
    let s' := (stepNormal s.toDSt o f b).1
    encGetVal { s with toDSt := s' } .bandwidth = (chain s.toDSt o f b).bandwidth ∧
    (chain s.toDSt o f b).bandwidth ≤ bwLimit s.toDSt (chain s.toDSt o f b).mode := by
  refine ⟨?_, ?_⟩
  · unfold stepNormal encGetVal; simp only []; split <;> rfl
  · have := bwOf_le hs ho f b
    rw [← chain_mode, ← chain_bandwidth] at this; exact this

/-! ## 2. Illegal value / null pointer / unknown request ⇒ documented error, state identical -/

/-- **reject_unchanged** (encoder), both directions: a request fails iff it is an illegal value, a
    null result pointer or an unknown request number; the error is OPUS_BAD_ARG resp.
    OPUS_UNIMPLEMENTED; the state — every setting and every hidden field — is identical. -/
theorem reject_unchanged (s : EncSt) (r : EncReq) :
    ((encCtl s r).2.code ≠ 0 →
      (encCtl s r).1 = s ∧
      (((encCtl s r).2 = .err .badArg ∧
          ((∃ k v, r = .set k v ∧ ¬ EncLegal s k v) ∨ (∃ k, r = .get k false) ∨ r = .celtGetMode false)) ∨
       ((encCtl s r).2 = .err .unimplemented ∧ ∃ id, r = .unknown id))) ∧
    (∀ k v, ¬ EncLegal s k v → encCtl s (.set k v) = (s, .err .badArg)) ∧
    (∀ k, encCtl s (.get k false) = (s, .err .badArg)) ∧
    (∀ id, encCtl s (.unknown id) = (s, .err .unimplemented)) :=
  ⟨encCtl_error_unchanged s r, fun k v h => encCtl_set_reject s k v h, fun _ => rfl, fun _ => rfl⟩

/-- OPUS_SET_APPLICATION is refused once a frame has been coded (unless it re-states the
    current application). -/
theorem application_locked_after_first_frame (s : EncSt) (v : Int) (hfirst : s.first = false) (hv : v ≠ s.application) :
    encCtl s (.set .application v) = (s, .err .badArg) :=
  encCtl_set_reject s .application v (fun h => hv (h.2 hfirst))

/-- **reject_unchanged** (decoder). -/
theorem reject_unchanged_decoder (s : DecSt) (r : DecReq) (h : (decCtl s r).2.code ≠ 0) :
    (decCtl s r).1 = s ∧
    (((decCtl s r).2 = .err .badArg ∧ ((∃ k v, r = .set k v ∧ ¬ DecLegal k v) ∨ ∃ k, r = .get k false)) ∨
     ((decCtl s r).2 = .err .unimplemented ∧ ∃ id, r = .unknown id)) :=
  decCtl_error_unchanged s r h

/-- **reject_unchanged** (multistream / surround / projection encoder): whatever request fails —
    including a fanned-out setter that some stream refuses — no stream and no multistream field
    has changed (true of the code since the repairs a0f32f9c of OPUS_SET_FORCE_CHANNELS and 9ffbe457
    of OPUS_SET_APPLICATION, whose fan-out now rolls back; unconditional in the streams' `first`
    flags).  `MsInv` (per-stream `EncInv`, coupled streams first) holds after creation and is kept
    by every request and every encode call (`ctl_inv_multistream`, `ms_encode_keeps_inv`). -/
theorem reject_unchanged_multistream (s : MsEncSt) (hi : MsInv s) (r : MsEncReq) (h : (msEncCtl s r).2.code ≠ 0) :
    (msEncCtl s r).1 = s :=
  msEncCtl_error_unchanged hi r h

/-- **reject_unchanged** (multistream / projection decoder). -/
theorem reject_unchanged_ms_decoder (s : MsDecSt) (r : MsDecReq) (h : (msDecCtl s r).2.code ≠ 0) :
    (msDecCtl s r).1 = s :=
  msDecCtl_error_unchanged s r h

/-! ## 3. Range invariant over all histories -/

/-- **ctl_inv**.  After ANY sequence of ctl requests (legal, illegal, unknown, reset) interleaved
    with `opus_encode` calls, starting from a successful create, every stored setting is a value its
    setter admits (`CtlInv`: `user_bitrate_bps ∈ {AUTO, MAX} ∪ [500, 300000·channels]`, …) and the
    running state of the decision chain is in range (`DInv`).  THIS form takes the encode calls as
    OBSERVED: `encRunOk` asks of every encode event the monitored contract `encodeContract = none`, whose
    `obsRange` part lists exactly the ranges of the adopted fields — so for encode events the invariant
    is assumed here, and checked on the real encoder after every call by suite `ctl-rand`.  The forms
    that assume nothing of an encode call are `ctl_inv_model` (encode = `EncDecide.step`) and
    `ctl_inv_skeleton` (encode = the C05 skeleton `encodeNative`). -/
theorem ctl_inv (fs ch app : Int) (s0 : EncSt) (hc : encCreate fs ch app true = .ok s0)
    (evs : List EncEv) (hok : encRunOk s0 evs) : CtlInv (encRun s0 evs) ∧ DInv (encRun s0 evs).toDSt := by
  have hargs : encArgsOk fs ch app = true := by
    cases h : encArgsOk fs ch app with
    | true => rfl
    | false => rw [(encCreate_spec fs ch app true).1 h] at hc; cases hc
  rw [(encCreate_spec fs ch app true).2.2 hargs rfl] at hc
  cases hc
  exact encRun_inv (encInit_inv hargs) evs hok

/-- **ctl_inv_model**: the invariant WITHOUT a contract on encode calls.  Histories from a
    successful create of any ctl requests and encode calls, an encode call being the model
    `EncDecide.step` of opus_encode_native's decision chain run with ANY values of the DSP-dependent
    inputs that have their C types' ranges (`OracleOk`: channel/mode/bandwidth decisions are 1..2 /
    SILK-or-CELT / NB..FB), any frame size and any buffer size; the three encoder-object fields the
    SILK / analysis code writes and `step` does not compute take any values in their ranges
    (`FreeRange`: voice_ratio ∈ [−1,100], silk_mode.maxInternalSampleRate ∈ {8000,12000,16000},
    useCBR ∈ {0,1} — the residual, exactly).  Then `CtlInv ∧ DInv` holds after every history, and no
    encode event changes a user setting. -/
theorem ctl_inv_model (fs ch app : Int) (s0 : EncSt) (hc : encCreate fs ch app true = .ok s0)
    (evs : List StepEv) (hok : ∀ e ∈ evs, StepEvOk e) :
    (CtlInv (stepRun s0 evs) ∧ DInv (stepRun s0 evs).toDSt) ∧
    (∀ (s : EncSt) (o : Oracle) (f b : Int) (x : Free), settingsOf (stepEncode s o f b x) = settingsOf s) := by
  have hargs : encArgsOk fs ch app = true := by
    cases h : encArgsOk fs ch app with
    | true => rfl
    | false => rw [(encCreate_spec fs ch app true).1 h] at hc; cases hc
  rw [(encCreate_spec fs ch app true).2.2 hargs rfl] at hc
  cases hc
  exact ⟨stepRun_inv (encInit_inv hargs) evs hok, stepEncode_settings⟩

/-- **ctl_inv_skeleton**: the same over the encoder SKELETON of property C05 (`EncSkel.encodeNative`,
    the model of the whole of opus_encode_native tied to the real encoder by C05's suites): along
    every history `Reach e s` — create, any `encCtl` requests, any encode calls with any arguments and
    any oracle values, the ctl state `e` taking over the skeleton's post-state fields (`ObsOf`) and any
    in-range values for the fields the skeleton does not model (`FreeOk`) — `CtlInv ∧ DInv` holds, the
    skeleton state refines the ctl state, and each encode call satisfies the `obsRange` part of the
    monitored contract.  (Proved by the C05 owner in OpusProofs/EncSkelCtl.lean on top of `encCtl_inv`.) -/
theorem ctl_inv_skeleton :
    (∀ (e : EncSt) (s : EncSkel.St), EncSkel.Proofs.Reach e s →
        (CtlInv e ∧ DInv e.toDSt) ∧ EncSkel.Proofs.Refines e s) ∧
    (∀ (e : EncSt) (s : EncSkel.St) (fuzz : Bool) (fsz out : Int) (orc : EncSkel.NatOr) (o : EncObs),
        (CtlInv e ∧ DInv e.toDSt) → EncSkel.Proofs.Refines e s →
        EncSkel.Proofs.ObsOf (EncSkel.encodeNative s fuzz fsz out orc).st o → EncSkel.Proofs.FreeOk e o →
        obsRange e o = none ∧ (CtlInv (encAdopt e o) ∧ DInv (encAdopt e o).toDSt) ∧
        settingsOf (encAdopt e o) = settingsOf e) :=
  ⟨fun e s h => ⟨(EncSkel.Proofs.reach_inv h).1, (EncSkel.Proofs.reach_inv h).2.1⟩,
   fun e s fuzz fsz out orc o hi hr ho hf => by
     have h := EncSkel.Proofs.encode_keeps_inv e s fuzz fsz out orc o hi hr ho hf
     refine ⟨h.1, h.2.1, ?_⟩
     have hfc : o.forceChannels = e.forceChannels := by
       have := h.2.2.1.forceChannels
       have h2 := ho.forceChannels
       have h3 := (EncSkel.Proofs.encodeNative_stOk s fuzz fsz out orc (EncSkel.Proofs.stOk_of_encInv e s hi hr)).2.1
       unfold EncSkel.Proofs.Conf at h3
       rw [h2, h3.2.2.2.2.2.1, hr.forceChannels]
     simp only [settingsOf, encAdopt, hfc]⟩

/-- **ctl_inv**, stronger clause: an `opus_encode` call never changes a user setting — only a ctl
    can (true of the code since the repair 34e4f763 of the multi-frame `force_channels = 1` store).
    Both views of an encode call: the monitored adopt view of `ctl_inv`, and the `step` model. -/
theorem encode_never_changes_settings :
    (∀ (s : EncSt) (f b ret : Int) (o : EncObs) (fmt : Nat), encodeContract s f b ret o fmt = none →
        settingsOf (encAdopt s o) = settingsOf s) ∧
    (∀ (s : DSt) (o : Oracle) (f b : Int),
        let s' := (step s o f b).1
        s'.fs = s.fs ∧ s'.channels = s.channels ∧ s'.application = s.application ∧ s'.userBitrate = s.userBitrate ∧
        s'.useVbr = s.useVbr ∧ s'.forceChannels = s.forceChannels ∧ s'.maxBandwidth = s.maxBandwidth ∧
        s'.userBandwidth = s.userBandwidth ∧ s'.userForcedMode = s.userForcedMode ∧ s'.lfe = s.lfe) :=
  ⟨fun _ _ _ _ _ _ h => encAdopt_settings h, step_settings⟩

/-- **ctl_inv** (decoder): gain, complexity and phase-inversion settings stay in range under any
    request and any decode call. -/
theorem ctl_inv_decoder (fs ch : Int) (h : decArgsOk fs ch = true) :
    DecInv (decInit fs ch) ∧ (∀ s r, DecInv s → DecInv (decCtl s r).1) ∧ (∀ s o, DecInv s → DecInv (decAdopt s o)) :=
  ⟨decInit_inv h, fun _ r hi => decCtl_inv hi r, fun _ o hi => decAdopt_inv hi o⟩

/-- **ctl_inv** (multistream encoder): `MsInv` (every stream satisfies `CtlInv ∧ DInv`, coupled
    streams first) holds after creation and after any request. -/
theorem ctl_inv_multistream :
    (∀ fs channels streams coupled mapping app sur amb lfe s,
        msEncInit fs channels streams coupled mapping app sur amb lfe = .ok s → MsInv s) ∧
    (∀ s r, MsInv s → MsInv (msEncCtl s r).1) :=
  ⟨fun _ _ _ _ _ _ _ _ _ _ h => msEncInit_inv h, fun _ r hi => msEncCtl_inv hi r⟩

/-- **ms_encode_keeps_inv**.  A multistream encode call keeps `MsInv`: the per-stream settings it
    writes (rate allocation → OPUS_SET_BITRATE, surround → OPUS_SET_BANDWIDTH / FORCE_MODE /
    FORCE_CHANNELS / ENERGY_MASK, ambisonics → FORCE_MODE, CBR last-stream bit-rate) go through
    `opus_encoder_ctl` and therefore stay legal for ALL values of the rate/bandwidth oracles, the
    streams keep their layout — given the monitored contract `msEncodeContract` (each stream's
    encode call stays in the `obsRange` ranges).  So `MsInv` holds after ANY ctl/encode history
    from create, and with it `reject_unchanged_multistream`. -/
theorem ms_encode_keeps_inv :
    (∀ (s : MsEncSt) (f b : Int) (o : MsOracle), MsInv s → msEncodeContract s f b o = true → MsInv (msEncode s f b o)) ∧
    (∀ fs channels streams coupled mapping app sur amb lfe s0 (evs : List MsEv),
        msEncInit fs channels streams coupled mapping app sur amb lfe = .ok s0 → msRunOk s0 evs → MsInv (msRun s0 evs)) :=
  ⟨fun _ f b o hi hc => msEncode_inv hi f b o hc,
   fun _ _ _ _ _ _ _ _ _ _ evs h hok => msRun_inv (msEncInit_inv h) evs hok⟩

/-! ## 4. Creation -/

/-- **create_rejects**.  `opus_encoder_create` / `opus_decoder_create` succeed exactly for
    Fs ∈ {8000, 12000, 16000, 24000, 48000}, 1–2 channels and the three applications; anything else
    is OPUS_BAD_ARG; a failed allocation is OPUS_ALLOC_FAIL (never an object). -/
theorem create_rejects (fs ch app : Int) (allocOk : Bool) :
    (encArgsOk fs ch app = true ↔
      (fs = 8000 ∨ fs = 12000 ∨ fs = 16000 ∨ fs = 24000 ∨ fs = 48000) ∧ (ch = 1 ∨ ch = 2) ∧
      (app = 2048 ∨ app = 2049 ∨ app = 2051)) ∧
    (encArgsOk fs ch app = false → encCreate fs ch app allocOk = .err .badArg) ∧
    (encArgsOk fs ch app = true → allocOk = false → encCreate fs ch app allocOk = .err .allocFail) ∧
    (encArgsOk fs ch app = true → allocOk = true → encCreate fs ch app allocOk = .ok (encInit fs ch app)) ∧
    (decArgsOk fs ch = true ↔ (fs = 8000 ∨ fs = 12000 ∨ fs = 16000 ∨ fs = 24000 ∨ fs = 48000) ∧ (ch = 1 ∨ ch = 2)) ∧
    (decArgsOk fs ch = false → decCreate fs ch allocOk = .err .badArg) ∧
    (decArgsOk fs ch = true → allocOk = false → decCreate fs ch allocOk = .err .allocFail) ∧
    (decArgsOk fs ch = true → allocOk = true → decCreate fs ch allocOk = .ok (decInit fs ch)) :=
  ⟨encArgsOk_iff fs ch app, (encCreate_spec fs ch app allocOk).1, (encCreate_spec fs ch app allocOk).2.1,
   (encCreate_spec fs ch app allocOk).2.2, decArgsOk_iff fs ch, (decCreate_spec fs ch allocOk).1,
   (decCreate_spec fs ch allocOk).2.1, (decCreate_spec fs ch allocOk).2.2⟩

/-- **create_rejects** (multistream encoder / decoder): success iff the counts, the mapping, the
    rate and (encoder) the application are legal and the allocation succeeds — both directions for
    both objects; otherwise OPUS_BAD_ARG or OPUS_ALLOC_FAIL, never an object. -/
theorem create_rejects_multistream (fs channels streams coupled : Int) (mapping : List Nat) (app : Int) (allocOk : Bool) :
    (¬ MsEncArgsLegal fs channels streams coupled mapping app →
        msEncCreate fs channels streams coupled mapping app allocOk = .err .badArg ∨
        (msEncArgsOk channels streams coupled = true ∧ allocOk = false ∧
         msEncCreate fs channels streams coupled mapping app allocOk = .err .allocFail)) ∧
    (MsEncArgsLegal fs channels streams coupled mapping app → allocOk = false →
        msEncCreate fs channels streams coupled mapping app allocOk = .err .allocFail) ∧
    (MsEncArgsLegal fs channels streams coupled mapping app → allocOk = true →
        ∃ s, msEncCreate fs channels streams coupled mapping app allocOk = .ok s) ∧
    (let legal := 1 ≤ channels ∧ channels ≤ 255 ∧ 1 ≤ streams ∧ 0 ≤ coupled ∧ coupled ≤ streams ∧ streams + coupled ≤ 255 ∧
                  validateLayout channels streams coupled mapping = true ∧
                  (fs = 8000 ∨ fs = 12000 ∨ fs = 16000 ∨ fs = 24000 ∨ fs = 48000)
     (legal → allocOk = true → ∃ s, msDecCreate fs channels streams coupled mapping allocOk = .ok s) ∧
     (¬ legal → msDecCreate fs channels streams coupled mapping allocOk = .err .badArg ∨
                msDecCreate fs channels streams coupled mapping allocOk = .err .allocFail) ∧
     (allocOk = false → ∀ s, msDecCreate fs channels streams coupled mapping allocOk ≠ .ok s)) :=
  ⟨(msEncCreate_spec fs channels streams coupled mapping app allocOk).1,
   (msEncCreate_spec fs channels streams coupled mapping app allocOk).2.1,
   (msEncCreate_spec fs channels streams coupled mapping app allocOk).2.2,
   msDecCreate_spec fs channels streams coupled mapping allocOk⟩

/-- **create_rejects** (surround encoder, mapping families 0/1/2/255).  For every Int argument:
    channels outside 1..255 → OPUS_BAD_ARG; a (family, channels) pair for which no layout is defined
    (`surroundLegalB`: family 0 with 1–2, family 1 with 1–8, family 255 with 1–255 channels, family 2
    with n² or n²+2 ≤ 227 channels; any other family) → OPUS_UNIMPLEMENTED; failed allocation →
    OPUS_ALLOC_FAIL; unsupported rate or application → OPUS_BAD_ARG; otherwise an encoder whose
    reported (streams, coupled, mapping) is the family's layout.  (That these layouts are the RFC
    7845 / RFC 8486 ones is C10 `surround_layout_valid`.) -/
theorem create_rejects_surround (fs ch fam app : Int) (allocOk : Bool) :
    (ch < 1 ∨ ch > 255 → msSurroundCreate fs ch fam app allocOk = .err .badArg) ∧
    (1 ≤ ch ∧ ch ≤ 255 → surroundLegalB ch.toNat fam = false →
        msSurroundCreate fs ch fam app allocOk = .err .unimplemented) ∧
    (1 ≤ ch ∧ ch ≤ 255 → surroundLegalB ch.toNat fam = true → allocOk = false →
        msSurroundCreate fs ch fam app allocOk = .err .allocFail) ∧
    (1 ≤ ch ∧ ch ≤ 255 → surroundLegalB ch.toNat fam = true → allocOk = true → (validFs fs && validApp app) = false →
        msSurroundCreate fs ch fam app allocOk = .err .badArg) ∧
    (1 ≤ ch ∧ ch ≤ 255 → surroundLegalB ch.toNat fam = true → allocOk = true → (validFs fs && validApp app) = true →
        ∃ s st cp mp, msSurroundCreate fs ch fam app allocOk = .ok (s, st, cp, mp) ∧
          surroundLayout ch fam = .ok (st, cp, mp) ∧ s.streams = msStreams fs st cp app (if fam = 1 ∧ ch ≥ 6 then st - 1 else -1)) :=
  msSurroundCreate_spec fs ch fam app allocOk

/-- **create_rejects** (projection / ambisonics encoder, family 3).  Success exactly for family 3,
    4/6/9/11/16/18/25/27/36/38 channels (orders 1–5, with or without the non-diegetic pair), a legal
    rate and application and a successful allocation, with (ch+1)/2 streams of which ch/2 coupled;
    any other family or channel count is reported as OPUS_ALLOC_FAIL (`_get_size` returns 0), as is
    a failed allocation; an unsupported rate or application is OPUS_BAD_ARG. -/
theorem create_rejects_projection (fs ch fam app : Int) (allocOk : Bool) :
    let legal := fam = 3 ∧ 0 ≤ ch ∧ projLegalB ch.toNat = true
    (¬ legal → projEncCreate fs ch fam app allocOk = .err .allocFail) ∧
    (legal → allocOk = false → projEncCreate fs ch fam app allocOk = .err .allocFail) ∧
    (legal → allocOk = true → (validFs fs && validApp app) = false → projEncCreate fs ch fam app allocOk = .err .badArg) ∧
    (legal → allocOk = true → (validFs fs && validApp app) = true →
        ∃ s, projEncCreate fs ch fam app allocOk = .ok (s, (ch + 1) / 2, ch / 2) ∧
          s.ms.streams = msStreams fs ((ch + 1) / 2) (ch / 2) app (-1) ∧ s.ms.nbChannels = ch) :=
  projEncCreate_spec fs ch fam app allocOk

/-- **set_get** (projection encoder): every multistream request behaves as on the multistream
    encoder inside (so `set_get_multistream` applies), and the three projection getters report the
    demixing-matrix size `channels·(streams+coupled)·2` and gain without touching the state. -/
theorem set_get_projection (s : ProjEncSt) :
    (∀ r, (projEncCtl s (.ms r)).1.ms = (msEncCtl s.ms r).1 ∧ (projEncCtl s (.ms r)).2 = (msEncCtl s.ms r).2 ∧
          (projEncCtl s (.ms r)).1.demixGain = s.demixGain) ∧
    projEncCtl s (.demixSize true) = (s, .okv (s.ms.nbChannels * (s.ms.nbStreams + s.ms.nbCoupled) * 2)) ∧
    projEncCtl s (.demixGain true) = (s, .okv s.demixGain) ∧
    projEncCtl s (.demixMatrix true ((s.ms.nbStreams + s.ms.nbCoupled) * s.ms.nbChannels * 2)) = (s, .ok) :=
  ⟨fun _ => ⟨rfl, rfl, rfl⟩, (projEncCtl_demix s).1, (projEncCtl_demix s).2.1, (projEncCtl_demix s).2.2.2.2.2.2⟩

/-- **reject_unchanged** (projection encoder): a failing request — NULL pointer, wrong matrix size,
    or any failing multistream request — leaves the whole object unchanged; and `MsInv` is kept. -/
theorem reject_unchanged_projection (s : ProjEncSt) (hi : MsInv s.ms) (r : ProjEncReq) :
    ((projEncCtl s r).2.code ≠ 0 → (projEncCtl s r).1 = s) ∧ MsInv (projEncCtl s r).1.ms ∧
    projEncCtl s (.demixSize false) = (s, .err .badArg) ∧ projEncCtl s (.demixGain false) = (s, .err .badArg) ∧
    (∀ size, projEncCtl s (.demixMatrix false size) = (s, .err .badArg)) ∧
    (∀ size, size ≠ (s.ms.nbStreams + s.ms.nbCoupled) * s.ms.nbChannels * 2 →
        projEncCtl s (.demixMatrix true size) = (s, .err .badArg)) :=
  ⟨projEncCtl_error_unchanged hi r, projEncCtl_inv hi r, (projEncCtl_demix s).2.2.1, (projEncCtl_demix s).2.2.2.1,
   (projEncCtl_demix s).2.2.2.2.1, (projEncCtl_demix s).2.2.2.2.2.1⟩

/-! ## 5. Settings bind the packet (for ALL values of the DSP-dependent inputs)

  `s` is any state satisfying `DInv` — by `ctl_inv` every state reachable by a ctl/encode history.
  `f` is the frame size `frame_size_select` returned; `b` = `out_data_bytes`. -/

/-- `frame_size_select`: with OPUS_FRAMESIZE_ARG the caller's frame size is used (and must be one of
    the nine Opus durations); a fixed OPUS_FRAMESIZE_x_MS selects exactly that duration. -/
theorem frame_size_select_spec (frameSize vd fs r : Int) (hfs : fs ∈ rates)
    (h : frameSizeSelect frameSize vd fs = r) (hr : r ≠ -1) :
    r ∈ apiSizes fs ∧ r ≤ frameSize ∧ r ≤ 6 * fs / 50 ∧ (vd = 5000 → r = frameSize) ∧
    (5001 ≤ vd ∧ vd ≤ 5009 → 400 * r = fs * durNum vd) := by
  obtain ⟨h1, h2⟩ := frameSizeSelect_legal frameSize vd fs r h hr
  exact ⟨apiSizes_of_eq hfs h1, h2, frameSizeSelect_le frameSize vd fs r h hr,
         fun hv => frameSizeSelect_arg frameSize fs r (by subst hv; exact h) hr,
         fun hv => (frameSizeSelect_fixed frameSize vd fs r hfs hv h hr).1⟩

/-- **int_ranges**: on the legal domain the C `int` arithmetic of the ctl layer and of the budget
    computation never overflows, so the unbounded-`Int` model computes what the C code computes:
    the bit-rate clamps; `user_bitrate_to_bitrate` (OPUS_GET_BITRATE, AUTO/MAX resolution) for
    `frame_size` 0 or any Opus frame size; every intermediate of :1249-1334 (CBR byte budget,
    `max_rate`) for any positive `int` buffer size; `frame_size_select` for EVERY `int` frame_size
    (unconditional since fix 212cbc41); OPUS_GET_LOOKAHEAD and the demixing-matrix size. -/
theorem int_ranges (s : DSt) (hfs : s.fs ∈ rates) (hch : s.channels = 1 ∨ s.channels = 2)
    (hbr : s.userBitrate = -1000 ∨ s.userBitrate = -1 ∨ (500 ≤ s.userBitrate ∧ s.userBitrate ≤ 300000 * s.channels)) :
    (I32 (300000 * s.channels) ∧ ∀ n : Int, 1 ≤ n ∧ n ≤ 255 → I32 (300000 * n) ∧ I32 (500 * n)) ∧
    (∀ frameSize maxDataBytes : Int, frameSize = 0 ∨ frameSize ∈ apiSizes s.fs → 0 ≤ maxDataBytes ∧ maxDataBytes ≤ 1276 →
        (∀ x ∈ bitrateIntermediates s frameSize maxDataBytes, I32 x) ∧
        0 ≤ userBitrateToBitrate s frameSize maxDataBytes ∧ userBitrateToBitrate s frameSize maxDataBytes ≤ 4083200) ∧
    (∀ f out : Int, f ∈ apiSizes s.fs → 0 < out ∧ out ≤ 2147483647 → ∀ x ∈ budgetIntermediates s f out, I32 x) ∧
    (∀ frameSize vd : Int, 5000 ≤ vd ∧ vd ≤ 5009 → I32 frameSize →
        let n := fssNew frameSize vd s.fs
        I32 n ∧ I32 ((vd - 5001 - 2) * s.fs) ∧ I32 (6 * s.fs) ∧
        (s.fs / 400 ≤ frameSize → n ≤ frameSize → n ≤ 6 * s.fs / 50 →
          I32 (400 * n) ∧ I32 (200 * n) ∧ I32 (100 * n) ∧ I32 (50 * n) ∧ I32 (25 * n))) ∧
    (∀ nc ns cp : Int, 1 ≤ nc ∧ nc ≤ 255 → 0 ≤ ns ∧ 0 ≤ cp ∧ ns + cp ≤ 255 →
        I32 (s.fs / 400 + s.fs / 250) ∧ I32 (nc * (ns + cp)) ∧ I32 (nc * (ns + cp) * 2)) :=
  ⟨⟨(bitrate_clamp_no_overflow s.channels 1 hch (by omega)).1,
     fun n hn => ⟨(bitrate_clamp_no_overflow s.channels n hch hn).2.1, (bitrate_clamp_no_overflow s.channels n hch hn).2.2⟩⟩,
   fun frameSize m hf hm => user_bitrate_no_overflow s hfs hch hbr frameSize m hf hm,
   fun f out hf ho => budget_no_overflow s hfs hch hbr f out hf ho,
   fun frameSize vd hvd hf => frame_size_select_no_overflow frameSize vd s.fs hfs hvd hf,
   fun nc ns cp h1 h2 => getter_arith_no_overflow s.fs nc ns cp hfs h1 h2⟩

/-- **honour_duration**.  Every packet an accepted `opus_encode` call produces — normal path or
    the tiny-budget "PLC frame" path — holds frames that add up to exactly the selected duration. -/
theorem honour_duration (s : DSt) (hs : DInv s) (o : Oracle) (ho : OracleOk o) (frameSize vd b : Int)
    (hsel : frameSizeSelect frameSize vd s.fs ≠ -1)
    (hentry : entryError s (frameSizeSelect frameSize vd s.fs) b = none) :
    let f := frameSizeSelect frameSize vd s.fs
    let p := (step s o f b).2
    (p.frames : Int) * (samplesPerFrame p.toc s.fs.toNat : Int) = f :=
  step_duration hs ho b (frame_size_select_spec frameSize vd s.fs _ hs.fs rfl hsel).1 hentry

/-- **honour_channels** (settings in force).  On the normal path: a mono encoder codes mono; forced
    stereo codes stereo; forced mono codes mono once `MonoNow` holds (always, except for the single
    frame right after a mid-stream switch, see `honour_channels_midstream`). -/
theorem honour_channels (s : DSt) (hs : DInv s) (o : Oracle) (ho : OracleOk o) (f b : Int) (hf : f ∈ apiSizes s.fs) :
    let toc := (stepNormal s o f b).2.toc
    (s.channels = 1 → getNbChannels toc = 1) ∧
    (s.channels = 2 → s.forceChannels = 2 → getNbChannels toc = 2) ∧
    (s.channels = 2 → s.forceChannels = 1 → MonoNow s → getNbChannels toc = 1) ∧
    (s.channels = 2 → s.forceChannels = 1 → s.first = true → s.prevChannels = 0 → getNbChannels toc = 1) := by
  intro toc
  have hch := stepNormal_channels hs ho b hf
  refine ⟨fun h1 => ?_, fun h2 hf2 => ?_, fun h2 hf1 hm => ?_, fun h2 hf1 _ hp => ?_⟩
  · show getNbChannels (stepNormal s o f b).2.toc = 1
    rw [hch, chain_mono_encoder hs h1]; rfl
  · show getNbChannels (stepNormal s o f b).2.toc = 2
    rw [hch, chain_forced_stereo h2 hf2]; rfl
  · show getNbChannels (stepNormal s o f b).2.toc = 1
    rw [hch, (chain_mono_of_monoNow h2 hf1 hm).1]; rfl
  · show getNbChannels (stepNormal s o f b).2.toc = 1
    rw [hch, (chain_mono_of_monoNow h2 hf1 (Or.inl (by omega))).1]; rfl

/-- **honour_channels** (mid-stream change).  After OPUS_SET_FORCE_CHANNELS(1) in ANY state, at
    most the next normally coded packet is still stereo (the `toMono` delay); from the second one
    on every packet is mono, whether or not SILK turns frames into DTX packets in between
    (true of the code since the repair 88264869).  "Within three packets" with room to spare. -/
theorem honour_channels_midstream (s : DSt) (hs : DInv s) (hc : s.channels = 2) (hforce : s.forceChannels = 1)
    (o1 : Oracle) (ho1 : OracleOk o1) (f1 b1 : Int)
    (rest : List (Oracle × Int × Int)) (hrest : ∀ x ∈ rest, OracleOk x.1 ∧ x.2.1 ∈ apiSizes s.fs) :
    let s1 := (stepNormal s o1 f1 b1).1
    ∀ (pre : List (Oracle × Int × Int)) (x : Oracle × Int × Int) (post : List (Oracle × Int × Int)),
      rest = pre ++ x :: post →
      let sk := pre.foldl (fun st y => (stepNormal st y.1 y.2.1 y.2.2).1) s1
      getNbChannels (stepNormal sk x.1 x.2.1 x.2.2).2.toc = 1 := by
  intro s1 pre x post hsplit
  -- invariant carried along the run
  have key : ∀ (l : List (Oracle × Int × Int)) (st : DSt),
      (∀ y ∈ l, OracleOk y.1) → DInv st → st.channels = 2 → st.forceChannels = 1 → MonoNow st → st.fs = s.fs →
      let sk := l.foldl (fun st y => (stepNormal st y.1 y.2.1 y.2.2).1) st
      DInv sk ∧ sk.channels = 2 ∧ sk.forceChannels = 1 ∧ MonoNow sk ∧ sk.fs = s.fs := by
    intro l
    induction l with
    | nil => intro st _ h1 h2 h3 h4 h5; exact ⟨h1, h2, h3, h4, h5⟩
    | cons y ys ih =>
      intro st hl h1 h2 h3 h4 h5
      have hk := stepNormal_monoNow_keep (o := y.1) (f := y.2.1) (b := y.2.2) h2 h3 h4
      have hinv := stepNormal_inv h1 (hl y List.mem_cons_self) y.2.1 y.2.2
      have hch' : (stepNormal st y.1 y.2.1 y.2.2).1.channels = 2 := by
        unfold stepNormal; simp only []; split <;> exact h2
      have hfs' : (stepNormal st y.1 y.2.1 y.2.2).1.fs = s.fs := by
        unfold stepNormal; simp only []; split <;> exact h5
      exact ih _ (fun z hz => hl z (List.mem_cons_of_mem _ hz)) hinv hch' hk.2 hk.1 hfs'
  have h1 := stepNormal_monoNow' (o := o1) (f := f1) (b := b1) hc hforce
  have hinv1 := stepNormal_inv hs ho1 f1 b1
  have hch1 : s1.channels = 2 := by
    show (stepNormal s o1 f1 b1).1.channels = 2
    unfold stepNormal; simp only []; split <;> exact hc
  have hfs1 : s1.fs = s.fs := by
    show (stepNormal s o1 f1 b1).1.fs = s.fs
    unfold stepNormal; simp only []; split <;> rfl
  have hpre : ∀ y ∈ pre, OracleOk y.1 := fun y hy => (hrest y (by rw [hsplit]; simp [hy])).1
  obtain ⟨k1, k2, k3, k4, k5⟩ := key pre s1 hpre hinv1 hch1 h1.2 h1.1 hfs1
  have hx := hrest x (by rw [hsplit]; simp)
  intro sk
  have hf : x.2.1 ∈ apiSizes sk.fs := by rw [k5]; exact hx.2
  rw [stepNormal_channels k1 hx.1 x.2.2 hf, (chain_mono_of_monoNow k2 k3 k4).1]; rfl

/-- **honour_bandwidth**.  For all DSP inputs the TOC bandwidth of a normally coded packet is at
    most `lim` = the forced bandwidth (else the maximum bandwidth) capped by the Nyquist bandwidth of
    the input rate — with exactly one exception: the MDCT layer, which has no medium band, codes a
    medium-band limit as wideband (CELT-only packet, `lim` = MB, then WB; `bwLimit` is that function).
    For hybrid and CELT-only packets nothing else is assumed.  For SILK-ONLY packets the TOC signals
    SILK's internal rate, here the oracle field `o.silkBandwidth`, and this form ASSUMES of it the
    contract `SilkBwContract` (SILK reports no more than Opus asked for; monitored by suite
    `ctl-honour`); `honour_bandwidth_silk` below replaces that assumption by the model of SILK's rate
    control. -/
theorem honour_bandwidth (s : DSt) (hs : DInv s) (o : Oracle) (ho : OracleOk o) (f b : Int) (hf : f ∈ apiSizes s.fs)
    (hsilk : SilkBwContract s o f b) :
    let toc := (stepNormal s o f b).2.toc
    let lim := min (if s.userBandwidth ≠ -1000 then s.userBandwidth else s.maxBandwidth) (nyquistBw s.fs)
    (getBandwidth toc : Int) ≤ bwLimit s (getMode toc) ∧
    (bwLimit s (getMode toc) = lim ∨ ((getMode toc : Int) = 1002 ∧ lim = 1102 ∧ bwLimit s (getMode toc) = 1103)) ∧
    (1101 ≤ lim ∧ lim ≤ 1105) := by
  intro toc lim
  have h1 := hs.maxBw; have h2 := hs.userBw
  have h3 : nyquistBw s.fs = 1101 ∨ nyquistBw s.fs = 1102 ∨ nyquistBw s.fs = 1103 ∨ nyquistBw s.fs = 1104 ∨ nyquistBw s.fs = 1105 := by
    unfold nyquistBw; consts; repeat' split
    all_goals omega
  refine ⟨stepNormal_bw_le hs ho b hf hsilk, ?_, ?_⟩
  · show bwLimit s (getMode toc) = lim ∨ _
    unfold bwLimit; consts
    simp only [lim]
    grind
  · simp only [lim]; split <;> omega

/-! ### SILK's internal rate (the oracle behind the TOC bandwidth of SILK-only packets)

  `Opus.SilkBw.controlBw` transcribes `silk_control_audio_bandwidth`; `runBw` runs it over a history
  of one channel: between two calls any number of coded frames (the transition filter advances), a
  prefill reset (with or without the variable-LP state) or a re-initialisation; per call ANY
  `allow_bandwidth_switch` / `opusCanSwitch` — these come from signal-dependent code. -/

/-- **silk_rate_inv.**  Over every such history, with inputs that pass `check_control_input`: every
    call returns 8, 12 or 16 kHz; the returned rate is within that call's [minInternalSampleRate,
    maxInternalSampleRate] IMMEDIATELY (also on the first call after the maximum was lowered) and not
    above the API rate; and if every call asked for at most `D` (min = 8 kHz, or max ≤ D as in hybrid)
    every returned rate is at most `D` — the desired rate itself is followed with a delay (next two
    theorems), an upper bound on all requests is never exceeded. -/
theorem silk_rate_inv :
    (∀ (s : SilkBw.BwSt) (i : SilkBw.BwIn), SilkBw.BwInv s → SilkBw.BwInOk i → i.minFs ≤ i.apiFs →
        ((SilkBw.controlBw s i).fsKHz = 8 ∨ (SilkBw.controlBw s i).fsKHz = 12 ∨ (SilkBw.controlBw s i).fsKHz = 16) ∧
        SilkBw.BwInv (SilkBw.afterCall (SilkBw.controlBw s i)) ∧
        (SilkBw.controlBw s i).fsKHz * 1000 ≤ i.maxFs ∧ i.minFs ≤ (SilkBw.controlBw s i).fsKHz * 1000 ∧
        (i.desired ≤ i.apiFs → (SilkBw.controlBw s i).fsKHz * 1000 ≤ i.apiFs)) ∧
    (∀ (D : Int), 0 ≤ D → ∀ (evs : List (SilkBw.Gap × SilkBw.BwIn)) (s : SilkBw.BwSt), SilkBw.BwInv s →
        s.fsKHz * 1000 ≤ D ∧ s.savedFsKHz * 1000 ≤ D →
        (∀ e ∈ evs, SilkBw.BwInOk e.2 ∧ e.2.minFs ≤ e.2.apiFs ∧ e.2.desired ≤ D ∧ (e.2.minFs = 8000 ∨ e.2.maxFs ≤ D)) →
        SilkBw.BwInv (SilkBw.runBw s evs).1 ∧
        (∀ k ∈ (SilkBw.runBw s evs).2, (k = 8 ∨ k = 12 ∨ k = 16) ∧ k * 1000 ≤ D) ∧
        (SilkBw.runBw s evs).2.length = evs.length) :=
  ⟨fun s i hs hi hmin => ⟨(SilkBw.controlBw_inv hs hi).1, (SilkBw.controlBw_inv hs hi).2, SilkBw.controlBw_range hs hi hmin⟩,
   fun D hD evs s hs h0 hall => by
     obtain ⟨a, _, c, d⟩ := SilkBw.runBw_spec D hD evs s hs h0 hall
     exact ⟨a, c, d⟩⟩

/-- **silk_rate_constant.**  With the same request on every call (and desired ≤ API rate, as Opus
    guarantees by its Nyquist clamp) the rate IS the desired one from the first call after
    initialisation on, and stays: nothing to switch. -/
theorem silk_rate_constant (s : SilkBw.BwSt) (i : SilkBw.BwIn) (hs : SilkBw.BwInv s) (hi : SilkBw.BwInOk i)
    (hapi : i.desired ≤ i.apiFs) (h : (s.fsKHz = 0 ∧ s.savedFsKHz = 0) ∨ s.fsKHz * 1000 = i.desired) :
    (SilkBw.controlBw s i).fsKHz * 1000 = i.desired :=
  SilkBw.controlBw_const hs hi hapi h

/-- **silk_rate_down_switch.**  A LOWER request is not followed at once.  While a switch is allowed
    (`allow_bandwidth_switch`) the call keeps the rate and runs the transition filter down: mode −2,
    whose counter — at most 256 — loses 2 per coded frame, so after at most 128 coded frames a call
    reports `switchReady`; once Opus hands that back as `opusCanSwitch` the rate drops one step
    (16 → 12 → 8 kHz) in that very call.  While `allow_bandwidth_switch` is false (speech activity
    high, a DSP decision) nothing moves: that is the residual of the "settings constant since the first
    frame" restriction. -/
theorem silk_rate_down_switch (s : SilkBw.BwSt) (i : SilkBw.BwIn) (hs : SilkBw.BwInv s) (hi : SilkBw.BwInOk i)
    (hfs : s.fsKHz ≠ 0)
    (hin : s.fsKHz * 1000 ≤ i.apiFs ∧ s.fsKHz * 1000 ≤ i.maxFs ∧ i.minFs ≤ s.fsKHz * 1000)
    (hdown : i.desired < s.fsKHz * 1000) :
    (i.allow = true → i.can = false →
      (SilkBw.controlBw s i).fsKHz = s.fsKHz ∧
      (((SilkBw.controlBw s i).st.mode = -2 ∧ (SilkBw.controlBw s i).ready = false ∧ 0 < (SilkBw.controlBw s i).st.tfn) ∨
       ((SilkBw.controlBw s i).ready = true ∧ (SilkBw.controlBw s i).st.tfn ≤ 0))) ∧
    (∀ (n : Nat) (t : SilkBw.BwSt), t.mode = -2 → 0 ≤ t.tfn ∧ t.tfn ≤ 256 →
      (SilkBw.lpSteps n t).tfn = max 0 (t.tfn - 2 * n) ∧ (SilkBw.lpSteps n t).mode = -2) ∧
    (i.can = true →
      (SilkBw.controlBw s i).fsKHz = (if s.fsKHz = 16 then 12 else 8) ∧ (SilkBw.controlBw s i).st.mode = 0 ∧
      (SilkBw.controlBw s i).fsKHz < s.fsKHz) :=
  ⟨fun ha hc => ⟨(SilkBw.down_progress hs hi hfs hin hdown ha hc).1, (SilkBw.down_progress hs hi hfs hin hdown ha hc).2.1⟩,
   fun n t hm ht => SilkBw.lpSteps_down n t hm ht,
   fun hc => SilkBw.down_switch hs hi hfs hin hdown hc⟩

/-- **honour_bandwidth_silk** — `honour_bandwidth` for SILK-only packets WITHOUT the oracle contract.
    Take any history of one SILK channel since `silk_InitEncoder` in which every SILK / hybrid frame was
    coded with a chain bandwidth `bw ≤ L`, `bw ≤ Nyquist(Fs)` (under settings constant since the first
    frame that is what `honour_bandwidth` proves of EVERY frame's chain bandwidth, with
    `L = bwLimit s 1000`), Opus handing SILK the control inputs of opus_encoder.c:2013-2045
    (`opusSilkIn`), with any switch permissions and any gaps.  Then the rate `k` of every call — hence
    the TOC bandwidth `bwOfKHz k` a SILK-only packet signals — is at most `L`; and plugged into the
    encoder step as `o.silkBandwidth`, the packet's TOC bandwidth is within `bwLimit`. -/
theorem honour_bandwidth_silk (apiFs L : Int)
    (hapi : apiFs = 8000 ∨ apiFs = 12000 ∨ apiFs = 16000 ∨ apiFs = 24000 ∨ apiFs = 48000) (hL : 1101 ≤ L)
    (calls : List (SilkBw.Gap × (Int × Int × Int × Int × Bool × Bool)))
    (hcalls : ∀ c ∈ calls, (c.2.1 = 1000 ∨ (c.2.1 = 1001 ∧ 1104 ≤ c.2.2.1 ∧ 24000 ≤ apiFs)) ∧
        (1101 ≤ c.2.2.1 ∧ c.2.2.1 ≤ L) ∧ c.2.2.1 ≤ nyquistBw apiFs) :
    let evs := calls.map fun c => (c.1, SilkBw.opusSilkIn apiFs c.2.1 c.2.2.1 c.2.2.2.1 c.2.2.2.2.1 c.2.2.2.2.2.1 c.2.2.2.2.2.2)
    (∀ k ∈ (SilkBw.runBw SilkBw.bwInit evs).2, (k = 8 ∨ k = 12 ∨ k = 16) ∧ SilkBw.bwOfKHz k ≤ L ∧
        1101 ≤ SilkBw.bwOfKHz k ∧ SilkBw.bwOfKHz k ≤ 1103) ∧
    (∀ (s : DSt) (hs : DInv s) (o : Oracle) (ho : OracleOk o) (f b : Int) (hf : f ∈ apiSizes s.fs),
        L = bwLimit s 1000 → (∃ k ∈ (SilkBw.runBw SilkBw.bwInit evs).2, o.silkBandwidth = SilkBw.bwOfKHz k) →
        (getBandwidth (stepNormal s o f b).2.toc : Int) ≤ bwLimit s (getMode (stepNormal s o f b).2.toc)) := by
  intro evs
  have hD : (0 : Int) ≤ SilkBw.rateOfBw L := by have := SilkBw.rateOfBw_cases L; omega
  have hall : ∀ e ∈ evs, SilkBw.BwInOk e.2 ∧ e.2.minFs ≤ e.2.apiFs ∧ e.2.desired ≤ SilkBw.rateOfBw L ∧
      (e.2.minFs = 8000 ∨ e.2.maxFs ≤ SilkBw.rateOfBw L) := by
    intro e he
    simp only [evs, List.mem_map] at he
    obtain ⟨c, hc, rfl⟩ := he
    obtain ⟨hm, hb, hn⟩ := hcalls c hc
    have := SilkBw.opusSilkIn_ok apiFs c.2.1 c.2.2.1 c.2.2.2.1 c.2.2.2.2.1 c.2.2.2.2.2.1 c.2.2.2.2.2.2 L hapi hm hb hn _ rfl
    exact ⟨this.1, this.2.1, this.2.2.1, this.2.2.2.1⟩
  have hrun := SilkBw.runBw_spec (SilkBw.rateOfBw L) hD evs SilkBw.bwInit
    ⟨Or.inl rfl, Or.inl rfl, Or.inr (Or.inl rfl), by decide⟩ (by simp only [SilkBw.bwInit]; omega) hall
  have hk : ∀ k ∈ (SilkBw.runBw SilkBw.bwInit evs).2, (k = 8 ∨ k = 12 ∨ k = 16) ∧ SilkBw.bwOfKHz k ≤ L ∧
      1101 ≤ SilkBw.bwOfKHz k ∧ SilkBw.bwOfKHz k ≤ 1103 := by
    intro k hk
    obtain ⟨h8, hle⟩ := hrun.2.2.1 k hk
    exact ⟨h8, SilkBw.bwOfKHz_le h8 hL hle⟩
  refine ⟨hk, ?_⟩
  intro s hs o ho f b hf hLs ⟨k, hkm, hko⟩
  apply stepNormal_bw_le' hs ho b hf
  intro _
  rw [hko, ← hLs]; exact (hk k hkm).2.1

/-- **lowdelay_celt_only**.  With OPUS_APPLICATION_RESTRICTED_LOWDELAY every normally coded
    packet uses the MDCT layer alone.  (`DInv.lowdelay`, part of the invariant of `ctl_inv`, says no
    SILK/hybrid frame can precede: the application can only be changed before the first frame.) -/
theorem lowdelay_celt_only (s : DSt) (hs : DInv s) (o : Oracle) (ho : OracleOk o) (f b : Int) (hf : f ∈ apiSizes s.fs)
    (happ : s.application = 2051) : (getMode (stepNormal s o f b).2.toc : Int) = 1002 := by
  rw [stepNormal_mode hs ho b hf]
  exact (chain_lowdelay_celt b happ (hs.lowdelay happ)).1

/-- **short_frames_celt_only**.  `frame_size < Fs/100` (2.5 and 5 ms) ⇒ MDCT layer alone, whatever
    the application, the forced mode, the previous mode and the signal. -/
theorem short_frames_celt_only (s : DSt) (hs : DInv s) (o : Oracle) (ho : OracleOk o) (f b : Int) (hf : f ∈ apiSizes s.fs)
    (hshort : f < s.fs / 100) : (getMode (stepNormal s o f b).2.toc : Int) = 1002 := by
  rw [stepNormal_mode hs ho b hf]
  exact chain_short_celt b hshort

/-- The decision state stays inside `DInv` across encode calls (the step case of `ctl_inv_model`). -/
theorem encode_keeps_inv (s : DSt) (hs : DInv s) (o : Oracle) (ho : OracleOk o) (f b : Int) : DInv (step s o f b).1 :=
  step_inv hs ho f b

/-! ## Non-vacuity: concrete states, requests and frames -/

def exEnc : EncSt := encInit 48000 2 2049
def exOracle : Oracle :=
  { autoChannels := 2, autoMode := 1002, allowBwSwitch := false, autoBandwidth := 1105, detected := 0,
    fecBandwidth := 0, silkBandwidth := 0, completion := 1 }

example : encCreate 48000 2 2049 true = .ok exEnc := by decide +kernel
example : EncLegal exEnc .bitrate 700000 ∧ readBack exEnc .bitrate 700000 = 600000 := by decide +kernel
/-- SET_BITRATE(700000) on a stereo encoder is accepted and GET_BITRATE then returns 600000. -/
example : ∃ s', encCtl exEnc (.set .bitrate 700000) = (s', .ok) ∧ encCtl s' (.get .bitrate true) = (s', .okv 600000) :=
  (set_get exEnc .bitrate 700000 (by decide +kernel)).imp fun _ h => ⟨h.1, h.2.1 .bitrate rfl⟩
example : ¬ EncLegal exEnc .forceChannels 3 ∧ (encCtl exEnc (.set .forceChannels 3)).2 = .err .badArg := by decide +kernel
example : (encCtl exEnc (.unknown 4050)).2 = .err .unimplemented := rfl
example : DecLegal .gain (-32768) ∧ ¬ DecLegal .gain 32768 := by unfold DecLegal; decide
/-- A history with a legal setter, an illegal one, and an encode call that meets the contract. -/
def exObs : EncObs :=
  { first := false, bandwidth := 1105, prevFramesize := 960, rangeFinal := 12345, voiceRatio := -1,
    forceChannels := -1000, maxInternalSampleRate := 16000, useCBR := 0, silkUseDTX := 0, prevMode := 1002,
    silkInDtx := 0, noActivityQ1 := 0, streamChannels := 2, mode := 1002, prevChannels := 2, toMono := 0,
    celtEnergyMask := false }
example : encRunOk exEnc [.ctl (.set .complexity 5), .ctl (.set .complexity 11), .encode 960 1276 120 exObs 2] := by
  refine ⟨trivial, trivial, ?_, trivial⟩
  decide +kernel
example : OracleOk exOracle := ⟨by decide, by decide, by decide, by decide⟩
example : DInv exEnc.toDSt := (encInit_inv (by decide +kernel)).2
/-- 20 ms at 48 kHz, full budget: a CELT-only fullband stereo 20 ms packet (TOC 0xFC). -/
example : (step exEnc.toDSt exOracle 960 1276).2 = { toc := 0xFC, frames := 1, lowBudget := false } := by decide +kernel
/-- 2 bytes of budget: the low-budget path, still 20 ms. -/
example : (step exEnc.toDSt exOracle 960 2).2.lowBudget = true ∧ frameSizeSelect 960 5000 48000 = 960 := by decide +kernel
/-- the oversized frame sizes that used to overflow `400*new_size` are refused -/
example : frameSizeSelect 5368710 5000 48000 = -1 ∧ frameSizeSelect 268435576 5000 48000 = -1 ∧
    frameSizeSelect 2147483647 5000 48000 = -1 ∧ frameSizeSelect 5760 5000 48000 = 5760 := by decide +kernel
/-- forced mono after a stereo frame: one delayed stereo packet, then mono. -/
def exAfterStereo : DSt := { (step exEnc.toDSt { exOracle with autoMode := 1000 } 960 1276).1 with forceChannels := 1 }
example : getNbChannels (stepNormal exAfterStereo { exOracle with autoMode := 1000 } 960 1276).2.toc = 2 ∧
          getNbChannels (stepNormal (stepNormal exAfterStereo { exOracle with autoMode := 1000 } 960 1276).1
                            { exOracle with autoMode := 1000 } 960 1276).2.toc = 1 := by decide +kernel
example : SilkBwContract exEnc.toDSt exOracle 960 1276 := by unfold SilkBwContract; decide +kernel
/-- SILK's rate over a history: init, a wideband request (→ 16 kHz at once), a narrowband request that
    is allowed but not yet taken (16 kHz, transition started), 128 frames later `switchReady`, then
    with `opusCanSwitch` one step down to 12 kHz; a maximum of 8 kHz is obeyed immediately. -/
example :
    let i16 := SilkBw.opusSilkIn 48000 1000 1103 50 1276 true false
    let i8 := SilkBw.opusSilkIn 48000 1000 1101 50 1276 true false
    let i8c := SilkBw.opusSilkIn 48000 1000 1101 50 1276 true true
    let iLow := SilkBw.opusSilkIn 48000 1000 1103 50 10 false false
    (SilkBw.runBw SilkBw.bwInit [(.frames 0, i16), (.frames 1, i8), (.frames 128, i8), (.frames 0, i8c), (.frames 1, iLow)]).2 =
      [16, 16, 16, 12, 8] ∧
    (SilkBw.controlBw (SilkBw.lpSteps 128 (SilkBw.afterCall (SilkBw.controlBw (SilkBw.afterCall (SilkBw.controlBw SilkBw.bwInit i16)) i8))) i8).ready = true := by
  decide +kernel
example : MsEncArgsLegal 48000 3 2 1 [0, 1, 2] 2049 := by unfold MsEncArgsLegal; decide +kernel
/-- A created 2-stream encoder (one coupled, one mono): SET_COMPLEXITY(7) is read back from both
    streams, SET_BANDWIDTH(1103) is stored in both, and `set_get_multistream` applies to it. -/
example : (match msEncCreate 48000 3 2 1 [0, 1, 2] 2049 true with
    | .ok s =>
      decide (msEncFwdSet .complexity = true) && decide (s.streams.length = 2) &&
      decide ((msEncCtl s (.set .complexity 7)).1.streams.map (fun e => encGetVal e .complexity) = [7, 7]) &&
      decide (s.streams.map (fun e => readBack e .complexity 7) = [7, 7]) &&
      decide ((msEncCtl s (.set .bandwidth 1103)).1.streams.map (fun (e : EncSt) => e.userBandwidth) = [1103, 1103])
    | _ => false) = true := by decide +kernel
/-- A created 2-stream decoder: SET_GAIN(-300) reaches both streams and GET_GAIN reports it;
    SET_COMPLEXITY is not a multistream decoder request. -/
example : (match msDecCreate 48000 3 2 1 [0, 1, 2] true with
    | .ok s =>
      decide ((msDecCtl s (.set .gain (-300))).1.streams.map (fun d => (decCtl d (.get .gain true)).2) = [.okv (-300), .okv (-300)]) &&
      decide ((msDecCtl (msDecCtl s (.set .gain (-300))).1 (.get .gain true)).2 = .okv (-300)) &&
      decide ((msDecCtl s (.set .complexity 5)).2 = .err .unimplemented)
    | _ => false) = true := by decide +kernel
/-- A history for `ctl_inv_model`: a setter, an encode call of the model, a refused setter. -/
example : ∀ e ∈ [StepEv.ctl (.set .bandwidth 1103), .encode exOracle 960 1276
      { voiceRatio := -1, maxInternalSampleRate := 16000, useCBR := 0, silkUseDTX := 0, silkInDtx := 0, noActivityQ1 := 0,
        rangeFinal := 7, celtEnergyMask := false }, .ctl (.set .application 2051)], StepEvOk e := by
  intro e he
  simp only [List.mem_cons, List.mem_nil_iff, or_false] at he
  rcases he with rfl | rfl | rfl
  · trivial
  · exact ⟨⟨by decide, by decide, by decide, by decide⟩, ⟨by decide, by decide, by decide⟩⟩
  · trivial
example : surroundLegalB 6 1 = true ∧ surroundLegalB 9 1 = false ∧ surroundLegalB 11 2 = true ∧ surroundLegalB 5 2 = false ∧
    surroundLayout 6 1 = .ok (4, 2, [0, 4, 1, 2, 3, 5]) ∧ projLegalB 11 = true ∧ projLegalB 5 = false := by decide +kernel
example : (match projEncCreate 48000 4 3 2049 true with | .ok (s, st, cp) => st == 2 && cp == 2 && s.demixGain == 0 | _ => false) = true ∧
    projEncCreate 48000 5 3 2049 true = .err .allocFail ∧ projEncCreate 44100 4 3 2049 true = .err .badArg := by decide +kernel
/-- The repaired multistream SET_APPLICATION: stream 0 before its first frame, stream 1 after it —
    refused (stream 1), and stream 0 is rolled back. -/
example : (match msEncCreate 8000 2 2 0 [0, 1] 2049 true with
    | .ok s =>
      let s1 := { s with streams := s.streams.mapIdx (fun i e => if i = 1 then { e with first := false } else e) }
      decide (msEncCtl s1 (.set .application 2051) = (s1, .err .badArg))
    | _ => false) = true := by decide +kernel
/-- The repaired multistream FORCE_CHANNELS(2): refused, nothing changed. -/
example : (match msEncCreate 48000 3 2 1 [0, 1, 2] 2049 true with
    | .ok s => decide (msEncCtl s (.set .forceChannels 2) = (s, .err .badArg))
    | _ => false) = true := by decide +kernel

end OpusProps.C11
