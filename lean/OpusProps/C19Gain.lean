import OpusProofs.GainPureHist
/-
  Property C19, slice `Gain` — "OPUS_SET_GAIN is a pure post-multiplication: decoding with gain g gives exactly the
  gain-0 output scaled by 10^(g/(20·256)), and changes nothing else (return values, final range, decoder state, later
  frames)".

  Model: C01's decoder skeleton (`OpusModel/DecSkel.lean`: opus_decode_frame / opus_decode_native / the three API
  wrappers / OPUS_RESET_STATE / OPUS_SET_GAIN; the gain pass of src/opus_decoder.c:654-668 is the logged event
  `.acc 11 pcm n`; tied to the code by C01's `decskel` correspondence suite).  `gz` / `zg` = forget `decode_gain` (and the
  gain-pass events); `gzCall` = the same call for the gain-0 twin (an accepted OPUS_SET_GAIN(v) becomes OPUS_SET_GAIN(0)).
  Sample semantics: `OpusProofs/GainPureSem.lean` (samples in any type with a multiplication; gain pass = `k * ·`).
-/
namespace OpusProps.C19Gain
open Opus Opus.DecSkel

/-- **gain_api_entry_points.**  One call of `opus_decode` / `opus_decode24` / `opus_decode_float` (any arguments: packet,
    lost packet `data = none`, FEC, bad arguments) on two runs that differ only in `decode_gain`: same return value (or
    abort), same `*packet_offset`, same final state except `decode_gain`, same oracle-call counter (so the SILK / CELT /
    range-decoder calls are the same calls with the same arguments) and same event log up to gain passes. -/
theorem gain_api_entry_points (o : Oracle) (fmt : Fmt) (data : Option Bytes) (len frame_size fec : Int) (r : Run) :
    (decodeApi o fmt data len frame_size fec (gz r)).ret = (decodeApi o fmt data len frame_size fec r).ret ∧
    (decodeApi o fmt data len frame_size fec (gz r)).packetOffset = (decodeApi o fmt data len frame_size fec r).packetOffset ∧
    (decodeApi o fmt data len frame_size fec (gz r)).run = gz (decodeApi o fmt data len frame_size fec r).run :=
  decodeApi_gz o fmt data len frame_size fec r

/-- a run with a non-zero gain and the run `gz` makes of it really differ -/
example (st : DecState) (h : st.decode_gain ≠ 0) : gz ⟨st, 0, []⟩ ≠ ⟨st, 0, []⟩ := by
  intro e; have := congrArg (fun r => r.st.decode_gain) e; exact h this.symm

/-- **gain_history_simulation.**  Whole call histories (`Call`: decode in any of the three formats, lost packets, FEC,
    raw `opus_decode_native` calls as the multistream decoder makes them, OPUS_RESET_STATE, OPUS_SET_GAIN — any number, any
    order, any arguments; `os i` = the DSP of call `i`): the gain-0 twin of the history (`zg st`, `gzCall`) observes, call
    by call, exactly the observations of the original with the gain passes erased from the event logs, and ends in the
    same state except `decode_gain`. -/
theorem gain_history_simulation (os : Nat → Oracle) (cs : List Call) (i : Nat) (st : DecState) :
    runCalls os i (zg st) (cs.map gzCall) = ((runCalls os i st cs).1.map gzObs, zg (runCalls os i st cs).2) :=
  runCalls_gz os cs i st

/-- `runCalls` is C01's history function with the observations added -/
example (os : Nat → Oracle) (cs : List Call) (i : Nat) (st : DecState) :
    (runCalls os i st cs).2 = runHistory os i st cs := runCalls_st os cs i st

/-- **gain_history_same_returns.**  Two histories that are the same up to the values of accepted OPUS_SET_GAIN calls, run
    from states that agree except for `decode_gain`: every call returns the same value (or aborts / hangs alike) and the
    same `*packet_offset`, logs the same non-gain events (same DSP calls, same arguments, same buffer accesses), and the
    final states agree in every field except `decode_gain` — in particular OPUS_GET_LAST_PACKET_DURATION, the
    mode / bandwidth / frame size of the last packet, `prev_mode` and `prev_redundancy` (so later frames take the same
    transition / redundancy / concealment paths). -/
theorem gain_history_same_returns (os : Nat → Oracle) (cs1 cs2 : List Call) (i : Nat) (st1 st2 : DecState)
    (hc : cs1.map gzCall = cs2.map gzCall) (hs : zg st1 = zg st2) :
    (runCalls os i st1 cs1).1.map (·.ret) = (runCalls os i st2 cs2).1.map (·.ret) ∧
    (runCalls os i st1 cs1).1.map (·.packetOffset) = (runCalls os i st2 cs2).1.map (·.packetOffset) ∧
    (runCalls os i st1 cs1).1.map (fun x => x.log.filter notGain) = (runCalls os i st2 cs2).1.map (fun x => x.log.filter notGain) ∧
    zg (runCalls os i st1 cs1).2 = zg (runCalls os i st2 cs2).2 ∧
    (runCalls os i st1 cs1).2.last_packet_duration = (runCalls os i st2 cs2).2.last_packet_duration := by
  have h1 := runCalls_gz os cs1 i st1
  have h2 := runCalls_gz os cs2 i st2
  rw [hc, hs] at h1
  have h := h1.symm.trans h2
  have ha : (runCalls os i st1 cs1).1.map gzObs = (runCalls os i st2 cs2).1.map gzObs := congrArg Prod.fst h
  have hb : zg (runCalls os i st1 cs1).2 = zg (runCalls os i st2 cs2).2 := congrArg Prod.snd h
  refine ⟨?_, ?_, ?_, hb, by simpa using congrArg DecState.last_packet_duration hb⟩
  · have := congrArg (List.map (·.ret)) ha
    simpa [List.map_map, Function.comp_def, gzObs] using this
  · have := congrArg (List.map (·.packetOffset)) ha
    simpa [List.map_map, Function.comp_def, gzObs] using this
  · have := congrArg (List.map (·.log)) ha
    simpa [List.map_map, Function.comp_def, gzObs] using this

/-- two histories that differ only in the gain they set: hypotheses satisfiable -/
example : [Call.gain 5120, .decode .f32 none 0 960 0, .reset, .gain (-300)].map gzCall =
    [Call.gain 0, .decode .f32 none 0 960 0, .reset, .gain 7].map gzCall := by simp [gzCall]

/-- **gain_pass_last_in_frame.**  In `opus_decode_frame` the gain pass is the last thing the frame logs: after the main
    CELT frame, both redundancy frames, the redundancy cross-fades and the transition cross-fade (`stepTransFade`), and
    before the state update (which logs nothing).  It is one pass over exactly `audiosize·channels` samples starting at
    the frame's own `pcm` pointer iff the gain is non-zero, and a frame whose CELT call succeeded returns `audiosize` — the
    number of samples per channel by which `opus_decode_native` advances `pcm` for the next frame. -/
theorem gain_pass_last_in_frame (o : Oracle) (b : Body) (red : Red) (tr : Bool) (r : Run) :
    let r5 := stepTransFade b tr (stepRedCopy b red (stepRedS2C o b red (stepMainCelt o b red (stepRedC2S o b red r)).2))
    (celtStage o b red tr r).2.log =
      (if r5.st.decode_gain ≠ 0 then [Ev.acc 11 b.pcm (b.audiosize * r5.st.channels)] else []) ++ r5.log ∧
    (0 ≤ (stepMainCelt o b red (stepRedC2S o b red r)).1 → (celtStage o b red tr r).1 = .ret b.audiosize) := by
  intro r5
  obtain ⟨h1, h2⟩ := celtStage_log o b red tr r
  refine ⟨?_, fun h => ?_⟩
  · rw [h1]; show (stepGain b r5).log = _
    unfold stepGain
    by_cases c : r5.st.decode_gain ≠ 0
    · rw [if_pos c, if_pos c]; rfl
    · rw [if_neg c, if_neg c]; rfl
  · rw [h2, if_neg (by omega)]

example : (0 : Int) ≤ 960 := by decide

/-- **gain_scaling_samplewise.**  Abstract sample semantics (`semLog`): samples in ANY type with a multiplication
    (commutative ring, ordered field, binary32 with its rounded product), gain pass = multiply the samples of its extent
    by the constant `k` — the float build has no saturation there (`SATURATE` is the identity, celt/arch.h) —, every other
    event = an arbitrary function `dsp` of the gain-free history and the memory with the footprint property `DspLocal`
    (writes only its logged extent; reads only that extent and the scratch buffers; it cannot read `decode_gain`).  For
    every event log `l` that satisfies the separation condition `gainSep` (every event logged after a gain pass touches
    none of its samples; gain passes lie in the caller's buffer) and every initial memory: the memory after `l` is,
    sample by sample, the memory after the gain-free log `l.filter notGain` multiplied by `k` on exactly the samples
    covered by a gain pass (each once) and identical everywhere else, scratch buffers included. -/
theorem gain_scaling_samplewise {α : Type} [Mul α] (k : α) (dsp : List Ev → Ev → Mem α → Mem α)
    (hd : DspLocal dsp) (m : Mem α) (l : List Ev) (hsep : gainSep l = true) (b : Buf) (i : Int) :
    semLog k dsp l m b i =
      if gained l b i then k * semLog k dsp (l.filter notGain) m b i else semLog k dsp (l.filter notGain) m b i :=
  semLog_scaled k dsp hd m l hsep b i

/-- a DSP semantics with the footprint property exists (here: every event writes 7 over its extent) -/
example : DspLocal (fun _ e (m : Mem Int) b i => if touches e b i then 7 else m b i) :=
  ⟨fun _ _ _ _ _ _ ht => by simp [ht], fun _ _ _ _ _ _ _ _ ht => by simp [ht]⟩

/-- **gain_log_separated.**  The separation condition is a THEOREM about the skeleton: for every decoder state that
    satisfies C01's invariant `DecInv` (true after every history from `opus_decoder_init`, C01 `decodeNative_history`),
    every DSP behaviour and every call that does not run the soft clipper (`noClip`: opus_decode_float, opus_decode24,
    the per-stream `opus_decode_native` calls of the multistream decoder, lost packets, FEC, any arguments), the event log
    of the call satisfies `gainSep`: each frame (and each concealment chunk) logs its events at or above its own `pcm`
    pointer, its gain pass is its last event and ends where the next frame begins; the inner frame of a mode transition
    runs with gain 0 on a scratch buffer.  Hence no sample is scaled twice and nothing computed after a gain pass reads a
    scaled sample. -/
theorem gain_log_separated (o : Oracle) (st : DecState) (hinv : DecInv st) (c : Call) (hc : noClip c = true) :
    gainSep (callObs o st c).1.log = true :=
  callObs_gainSep o st hinv c hc

/-- the hypotheses are satisfiable (a fresh 48 kHz stereo decoder; a float decode call), and the conclusion is not
    vacuous: the log of this call on a decoder with gain +1 dB has two gain passes, over [0,1920) and [1920,3840) -/
example : ∃ st, init 48000 2 = some st ∧ DecInv st ∧ noClip (.decode .f32 (some [249, 1, 2, 3, 4]) 5 1920 0) = true :=
  ⟨_, rfl, init_inv (fs := 48000) (ch := 2) rfl, rfl⟩

example : gained (callObs ⟨fun _ a => (0, silkSamples a, 1), fun _ a => a.frame_size, fun _ _ t => (0, t), fun _ _ t => (0, t)⟩
    { Fs := 48000, channels := 2, dc := ⟨2, 0, 48000, 0, 0⟩, decode_gain := 256, stream_channels := 2, bandwidth := 0,
      mode := 0, prev_mode := 0, frame_size := 120, prev_redundancy := 0, last_packet_duration := 0 }
    (.decode .f32 (some [249, 1, 2, 3, 4]) 5 1920 0)).1.log .pcm 3839 = true := by decide +kernel

/-- **gain_history_output_scaled.**  The whole clause for whole histories.  Take any history of calls (decode / lost
    packet / FEC through opus_decode, opus_decode24 or opus_decode_float, raw native calls as the multistream decoder makes
    them, resets, gain changes; any arguments, packet bytes < 256), DSP oracles within C01's contracts, a decoder state
    satisfying `DecInv`, any sample type with a multiplication, any constant `k` and any DSP sample semantics with the
    footprint property.  Call by call, the observation `x0` of the gain-0 twin is the observation `xg` of the history with
    the gain passes erased (same return value, same `*packet_offset`, same events otherwise), and for every call that does
    not run the soft clipper (`noClip`: everything except opus_decode / native calls with soft_clip) `ScaledObs` holds: the
    memory (caller's buffer and scratch buffers) after the call is the twin's memory with the samples covered by a gain
    pass multiplied by `k`, each once, and identical elsewhere:  pcm_g = k · pcm_0.
    (The soft clipper of `opus_decode` runs after all gain passes on the whole output, src/opus_decoder.c:823-828; the
    int16 result is then `FLOAT2INT16(softclip(k·pcm_0))`, C19 `integer_output_saturates`, searched in S4.) -/
theorem gain_history_output_scaled {α : Type} [Mul α] (k : α) (dsp : List Ev → Ev → Mem α → Mem α) (hd : DspLocal dsp)
    (os : Nat → Oracle) (hos : ∀ i, OracleOk (os i)) (cs : List Call) (i : Nat) (st : DecState) (hinv : DecInv st)
    (hcs : ∀ c ∈ cs, c.WF) :
    List.Forall₂ (fun (cx : Call × CallObs) (x0 : CallObs) => x0 = gzObs cx.2 ∧ (noClip cx.1 = true → ScaledObs k dsp cx.2 x0))
      (cs.zip (runCalls os i st cs).1) (runCalls os i (zg st) (cs.map gzCall)).1 :=
  runCalls_scaled_mixed k dsp hd os hos cs i st hinv hcs

example : OracleOk exOracle := exOracle_ok
example : ∀ c ∈ [Call.gain 256, .decode .f32 (some [249, 1, 2, 3, 4]) 5 1920 0, .decode .f32 none 0 960 0, .reset],
    c.WF ∧ noClip c = true := by
  intro c hc
  simp only [List.mem_cons, List.mem_nil_iff, or_false] at hc
  rcases hc with rfl | rfl | rfl | rfl
  · exact ⟨trivial, rfl⟩
  · exact ⟨fun bs h => (by injection h with h; subst h; decide), rfl⟩
  · exact ⟨fun bs h => (nomatch h), rfl⟩
  · exact ⟨trivial, rfl⟩

end OpusProps.C19Gain
