import OpusProofs.Interleave
/-
  C14 — "Independent codec instances do not interfere when used concurrently":
  any number of encoder, decoder, multistream and repacketizer objects may be used from different threads at
  the same time, one thread per object, with no data race and with every object producing exactly the output
  it produces when run alone.

  Shape of the argument (DESIGN.md §7.C14):
    (1) `interleave_eq_serial`  — for EVERY schedule (interleaving of the per-thread call lists, including
        creation, ctl, coding, destroy and whatever "first use" does) each object's final state and each
        thread's output list are those of the thread run alone — for any step function with the footprint
        "reads rodata + own object + arguments, writes own object + results";
    (2) the footprint premise is discharged on the binary: `no_writable_globals`, `config_threadsafe`,
        `imports_reentrant` are evaluated on the table regenerated from the freshly built libopus.a
        (OpusModel/Gen/Globals.lean), so a `static int cache`, a static scratch buffer, a lazily filled table, a
        TLS or COMMON symbol, the global pseudo-stack or a call to `rand()` makes this file fail to build.
  Not a Lean theorem: the C11 memory model (see tools/props/C14.py NOT_COVERED).
-/
namespace OpusProps.C14
open Opus.Interleave Opus.Gen.Globals

/-- Clause "every object producing exactly the output it produces when run alone", for all interleavings:
    for every step function, every initial memory, every family of per-thread scripts `P` and EVERY schedule `s`
    that is a merge of them, the final state of each object `t` and the output list of each thread `t` equal those
    of running `P t` alone on the initial state of `t`; the read-only data is unchanged. -/
theorem interleave_eq_serial {Ro St In Out : Type} (step : Ro → St → In → St × Out)
    (m : Mem Ro St) (P : Nat → List In) (s : List (Call In)) (hs : IsSchedule P s) (t : Nat) :
    (run step m s).1.objs t = (runAlone step m.ro (m.objs t) (P t)).1 ∧
    (run step m s).2 t = (runAlone step m.ro (m.objs t) (P t)).2 ∧
    (run step m s).1.ro = m.ro := by
  have h := run_eq_runAlone step m s t
  rw [hs t] at h
  exact ⟨h.1, h.2, run_ro step m s⟩

/-- Non-vacuity: a concrete two-thread system (object state = running sum, output = state before the call);
    all 6 merges of scripts [1,2] and [10,20] are schedules, and they are pairwise different orders. -/
example : ∀ s ∈ merges2 [1, 2] [10, 20],
    IsSchedule (fun t => if t = 0 then [1, 2] else if t = 1 then [10, 20] else []) s := by
  intro s hs t
  have hs' : s ∈ merges2 [1, 2] [10, 20] := hs
  simp only [merges2, List.map, List.mem_cons, List.cons_append, List.nil_append,
    List.mem_nil_iff, or_false] at hs'
  rcases hs' with h | h | h | h | h | h <;> subst h <;>
    (by_cases h0 : t = 0
     · subst h0; rfl
     · by_cases h1 : t = 1
       · subst h1; rfl
       · have e0 : ¬ 0 = t := fun e => h0 e.symm
         have e1 : ¬ 1 = t := fun e => h1 e.symm
         simp [project, h0, h1, e0, e1])
example : (merges2 [1, 2] [10, 20]).length = 6 := by simp [merges2]
example : ((run (fun (_ : Unit) (s i : Nat) => (s + i, s)) ⟨(), fun _ => 0⟩
            [⟨1, 10⟩, ⟨0, 1⟩, ⟨1, 20⟩, ⟨0, 2⟩]).2 1) = [0, 10] := by decide

/-- The same conclusion for an UNRESTRICTED global step function (one that is handed the whole memory), given the
    footprint premise `Local`: a call on object `o` depends only on rodata, `objs o` and its input and replaces only
    `objs o`.  This is the form in which the premise is checked on the binary. -/
theorem interleave_eq_serial_of_footprint {Ro St In Out : Type}
    (gstep : Ro → (Nat → St) → Nat → In → (Nat → St) × Out) (step : Ro → St → In → St × Out)
    (hl : Local gstep step) (m : Mem Ro St) (P : Nat → List In) (s : List (Call In))
    (hs : Merge P s) (t : Nat) :
    (grun gstep m s).1.objs t = (runAlone step m.ro (m.objs t) (P t)).1 ∧
    (grun gstep m s).2 t = (runAlone step m.ro (m.objs t) (P t)).2 ∧
    (grun gstep m s).1.ro = m.ro := by
  rw [grun_eq_run gstep step hl]
  exact interleave_eq_serial step m P s hs.isSchedule t

/-- Non-vacuity of the premise and necessity of (2): a step function with one writable shared cell (a cache filled
    on first use) is NOT local, and its outputs do depend on the schedule. -/
example : ¬ ∃ step : Unit → Nat → Nat → Nat × Nat, Local cacheStep step := cacheStep_not_local
example : Local (fun (_ : Unit) (objs : Nat → Nat) o (i : Nat) => (update objs o (objs o + i), objs o))
    (fun _ s i => (s + i, s)) := fun _ _ _ _ => rfl

/-- The two notions of "schedule" used above coincide (projection form ⇔ inductive merge). -/
theorem schedule_iff_merge {In : Type} (P : Nat → List In) (s : List (Call In)) :
    IsSchedule P s ↔ Merge P s :=
  ⟨isSchedule_merge, Merge.isSchedule⟩

/-- Clause "no data race … including first-use initialisation of shared read-only tables and CPU-feature
    detection", premise side: in the library built from the current tree every non-empty allocated section of every
    archive member is code, constants, unwind data or a relocated constant table (`.text*`, `.rodata*`, `.eh_frame`,
    `.data.rel.ro*`; no `W` flag outside `.data.rel.ro*`, no TLS), and every data symbol is an OBJECT in such a
    section — i.e. there is no non-empty `.data`, `.bss`, `.tbss`/`.tdata` or COMMON storage at all. -/
theorem no_writable_globals :
    (∀ e ∈ sections, sectionEntryOk e = true) ∧ (∀ e ∈ dataSymbols, symbolEntryOk e = true) :=
  ⟨sections_all_ok, dataSymbols_all_ok⟩

/-- Non-vacuity: the table really lists the build (≥ 100 members and sections, the RTCD dispatch table symbol
    is present and sits in `.data.rel.ro`), and the predicate does reject writable storage. -/
example : 100 ≤ memberCount ∧ 100 ≤ sections.length ∧ 50 ≤ dataSymbols.length ∧
    (dataSymbols.any (fun e => e.2.1 == "SILK_NSQ_IMPL" && e.2.2.2.2.1 == ".data.rel.ro")) = true := table_nonempty
example : sectionEntryOk ("x86cpu.c.o", ".bss", "WA", 4) = false := by decide +kernel
example : sectionEntryOk ("x86cpu.c.o", ".data", "WA", 4) = false := by decide +kernel
example : sectionEntryOk ("x86cpu.c.o", ".tbss", "WAT", 4) = false := by decide +kernel
example : symbolEntryOk ("x86cpu.c.o", "cache", "OBJECT", "LOCAL", ".bss", 4) = false := by decide +kernel
example : symbolEntryOk ("a.o", "buf", "COMMON", "GLOBAL", "COMMON", 64) = false := by decide +kernel

/-- Scratch memory is per call: `NONTHREADSAFE_PSEUDOSTACK` is undefined and `VAR_ARRAYS` or `USE_ALLOCA` is
    defined in the configuration the compiler sees (celt/stack_alloc.h), and the build is not a FUZZING build
    (which calls `rand()` in `opus_select_arch`). -/
theorem config_threadsafe : configThreadSafe configDefined = true := config_ok

example : configThreadSafe ["NONTHREADSAFE_PSEUDOSTACK"] = false := by decide +kernel
example : configThreadSafe ["VAR_ARRAYS", "FUZZING"] = false := by decide +kernel

/-- Everything the library imports from outside (libc, libm, compiler runtime) is on the list of re-entrant
    entry points: no `rand`, `strtok`, `localtime`, `setlocale`, … -/
theorem imports_reentrant : ∀ s ∈ imports, importOk s = true := imports_all_ok

example : importOk "rand" = false := by decide +kernel
example : imports ≠ [] := by decide +kernel

end OpusProps.C14
