import OpusProofs.ExtRepFinal
import OpusProofs.ExtRanges
/-
  Property C16 — "Packet extensions round-trip through generate, parse and repacketize".

  Model:  `Opus.Ext` (OpusModel/Ext.lean), a transcription of src/extensions.c:
          `next` (+ `repeatBody`/`repeatPhase`/`mainBody`/`mainLoop`) = opus_extension_iterator_next,
          `count`/`countExt`/`parse`/`parseExt`/`find`, and
          `generate dry len exts nb_frames pad` = opus_packet_extensions_generate (`dry`: data == NULL),
          written as `runOps dry len (genOps exts nb_frames).ops` (+ final padding): `genOps` emits the
          buffer checks and writes of the C function in program order, `runOps` executes them.
  Every theorem quantifies over ALL byte strings / ALL extension arrays (no bound on sizes).
-/
namespace OpusProps.C16
open Opus Opus.Ext Opus.ExtProofs

/-- **iter_safe.**  On ARBITRARY padding bytes `d` and for every iterator state a caller can reach
    (`init`, then any sequence of `next` / `reset` / `set_frame_max`), `opus_extension_iterator_next`
    returns normally — it reads no byte outside `d` (model outcome `.oob`), neither of its two
    `celt_assert`s (extensions.c:174, :192/:242) fires (`.abort`) — and an extension it reports has
    `3 ≤ id ≤ 127`, belongs to an existing frame and has its payload slice inside the buffer.
    NOTE: for `nbFrames > 48` (or a negative count) `Reach d nbFrames` is empty — `iterInit` is the model's
    `celt_assert(nb_frames >= 0 && nb_frames <= 48)` and aborts there — so the statement is vacuous for such
    `nbFrames`; harmless, the C function must not be called that way (its callers pass at most 48). -/
theorem iter_safe (d : Bytes) (hb : BytesOk d) (nbFrames : Nat) (it : Iter) (hr : Reach d nbFrames it) :
    ∃ it' s, next it = .ok (it', s) ∧
      ∀ e, s = .ext e →
        3 ≤ e.id ∧ e.id ≤ 127 ∧ e.frame < nbFrames ∧ 0 ≤ e.len ∧ (e.off : Int) + e.len ≤ d.length := by
  obtain ⟨hI, hlen, hnf, _⟩ := hr.inv hb
  obtain ⟨it', s, h1, _, h3, h4⟩ := next_inv hI
  refine ⟨it', s, h1, ?_⟩
  intro e he
  subst he
  have : ExtOk it' e := h4
  unfold ExtOk at this
  rw [h3.2.1, h3.2.2.1, hlen, hnf] at this
  exact ⟨this.1, this.2.1, this.2.2.1, this.2.2.2.1, this.2.2.2.2.1⟩

/-- **iter_safe (termination).**  `next` itself is a total function (its loops and its recursive call
    are defined by well-founded recursion, no fuel); and every caller loop
    `while (opus_extension_iterator_next(&it, …) > 0)` terminates on arbitrary bytes: the step relation
    "`next` reported an extension" is well-founded. -/
theorem iter_terminates : WellFounded (fun it' it : Iter => ∃ e, next it = .ok (it', .ext e)) := by
  have hwf : WellFounded (Prod.Lex (· < ·) (Prod.Lex (· < ·) (· < ·)) : Nat × Nat × Nat → Nat × Nat × Nat → Prop) :=
    (Prod.lex ⟨_, Nat.lt_wfRel.wf⟩ (Prod.lex ⟨_, Nat.lt_wfRel.wf⟩ ⟨_, Nat.lt_wfRel.wf⟩)).wf
  apply Subrelation.wf (r := InvImage _ Iter.mu) _ (InvImage.wf _ hwf)
  intro a b ⟨e, h⟩
  exact next_decreases h

/-- **count_parse_agree.**  On ARBITRARY bytes and any frame count ≤ 48, with `l` = the extensions
    that plain iteration yields and `s` its final return (`done` = 0 / `invalid` = OPUS_INVALID_PACKET):
    every reported extension is in bounds; `count` = `count_ext` total = Σ per-frame counts = |l|, the
    per-frame counts are the true ones; `parse` with enough room returns exactly `l` — or fails with
    INVALID_PACKET **iff** iteration ended in INVALID_PACKET — and with too little room returns
    BUFFER_TOO_SMALL. -/
theorem count_parse_agree (d : Bytes) (hb : BytesOk d) (nbFrames : Nat) (hnf : nbFrames ≤ 48) :
    ∃ (it : Iter) (l : List ExtRef) (s : Step),
      iterInit d d.length nbFrames = .ok it ∧ iterAll it = .ok (l, s) ∧ (s = .done ∨ s = .invalid) ∧
      (∀ e ∈ l, 3 ≤ e.id ∧ e.id ≤ 127 ∧ e.frame < nbFrames ∧ 0 ≤ e.len ∧ (e.off : Int) + e.len ≤ d.length) ∧
      count d d.length nbFrames = .ok l.length ∧
      countExt d d.length nbFrames = .ok (l.length, (List.range nbFrames).map (frameCount l)) ∧
      sumN ((List.range nbFrames).map (frameCount l)) = l.length ∧
      (∀ cap : Int, (l.length : Int) ≤ cap →
        parse d d.length cap nbFrames = if s = .done then .ok l else .err .invalidPacket) ∧
      (∀ cap : Int, 0 ≤ cap → cap < l.length → parse d d.length cap nbFrames = .err .bufferTooSmall) :=
  scan_agree d hb nbFrames hnf

/-- **find_spec.**  `opus_extension_iterator_find(iter, ext, id)` from any reachable state: with `l` the extensions
    plain iteration (`next` until it returns `≤ 0`) would report from this state on and `s` its final return value
    (`0` or `OPUS_INVALID_PACKET`), `find` returns the FIRST entry of `l` whose ID is `id` and leaves the iterator
    exactly where iteration would continue (the remaining entries `post` are what `next` reports afterwards); if no
    entry has that ID it returns `s`.  It always returns normally (no out-of-bounds read, no assertion: the state
    stays reachable, so `iter_safe` applies to every `next` it performs) and terminates (`find` is total, its
    recursion is the well-founded step relation of `iter_terminates`). -/
theorem find_spec (d : Bytes) (hb : BytesOk d) (nbFrames : Nat) (it : Iter) (hr : Reach d nbFrames it) (id : Int) :
    ∃ l s, iterAll it = .ok (l, s) ∧ (s = .done ∨ s = .invalid) ∧
      (∀ pre e post, l = pre ++ e :: post → (∀ x ∈ pre, (x.id : Int) ≠ id) → (e.id : Int) = id →
        ∃ it', find it id = .ok (it', .ext e) ∧ Reach d nbFrames it' ∧ iterAll it' = .ok (post, s)) ∧
      ((∀ x ∈ l, (x.id : Int) ≠ id) → ∃ it', find it id = .ok (it', s) ∧ Reach d nbFrames it') := by
  obtain ⟨l, s, h1, h2, _⟩ := iterAll_inv it (hr.inv hb).1
  obtain ⟨h3, h4⟩ := find_iterAll (Reach d nbFrames) (fun _ _ _ hp hn => .next hp hn) id it l s h1 hr
  exact ⟨l, s, h1, h2, h3, h4⟩

/-- **count_parse_agree (frame order).**  `parse_ext`, given the per-frame counts that `count_ext`
    reports and room for all extensions, returns the stable sort by frame of what `parse` returns
    (`sortByFrame l n` = the extensions of frame 0 in bitstream order, then those of frame 1, …), every
    slot filled — or INVALID_PACKET iff iteration ends in INVALID_PACKET; its assertion
    `idx < nb_frames_cum[ext.frame+1]` (extensions.c:401) never fires. -/
theorem parse_ext_stable_sort (d : Bytes) (hb : BytesOk d) (nbFrames : Nat) (hnf : nbFrames ≤ 48) :
    ∃ (it : Iter) (l : List ExtRef) (s : Step) (counts : List Nat),
      iterInit d d.length nbFrames = .ok it ∧ iterAll it = .ok (l, s) ∧
      countExt d d.length nbFrames = .ok (l.length, counts) ∧
      ∀ cap : Int, (l.length : Int) ≤ cap →
        parseExt d d.length cap (counts.map Int.ofNat) nbFrames =
          if s = .done then .ok ((sortByFrame l nbFrames).map some) else .err .invalidPacket := by
  obtain ⟨it, l, s, hit, hall, _, hext, _, hcx, _, _, _⟩ := scan_agree d hb nbFrames hnf
  refine ⟨it, l, s, _, hit, hall, hcx, ?_⟩
  intro cap hcap
  have := parseExt_sorted d nbFrames hnf it l s hit hall (fun e he => (hext e he).2.2.1) cap hcap
  rw [List.map_map]
  exact this

/-- **generate_size (dry run = written size).**  For every extension array whose payload pointers
    supply `len` bytes, every `len`, `nb_frames`, `pad`: the dry run (`data == NULL`) returns exactly
    what the writing run returns — the same size, or the same error. -/
theorem generate_dry_eq_written (len : Int) (exts : Array Ext) (nbFrames : Int) (pad : Bool) (hE : ExtsOk exts) :
    generateDry len exts nbFrames pad = resSize (generate false len exts nbFrames pad) :=
  ExtProofs.generate_dry_eq_written len exts nbFrames pad hE

/-- **generate_size (exact size suffices, smaller refused).**  If an unpadded run (dry or not, any
    `len`) returns `out`, then a buffer of exactly `out.size` bytes succeeds in both modes, with or
    without the padding request, and yields the same bytes; every smaller buffer is refused with
    `OPUS_BUFFER_TOO_SMALL`. -/
theorem generate_exact_and_smaller (dry : Bool) (len : Int) (exts : Array Ext) (nbFrames : Int) (out : Array Nat)
    (hE : ExtsOk exts) (h : generate dry len exts nbFrames false = .ok out) :
    (∀ dry' pad', ∃ out', generate dry' out.size exts nbFrames pad' = .ok out' ∧ out'.size = out.size ∧
        (dry' = dry → out' = out)) ∧
    (∀ (m : Int) dry' pad', 0 ≤ m → m < out.size → generate dry' m exts nbFrames pad' = .err .bufferTooSmall) :=
  ExtProofs.generate_exact_and_smaller hE h

/-- **generate_size (no write outside the buffer).**  Whatever the outcome (success,
    BUFFER_TOO_SMALL, BAD_ARG …), the write log of the run — the buffer at the moment the function
    stops — never exceeds `len` bytes, i.e. nothing is written at an index `≥ len`; and a returned
    buffer (padded or not) has at most `len` bytes. -/
theorem generate_within (dry : Bool) (len : Int) (exts : Array Ext) (nbFrames : Nat) (pad : Bool)
    (hE : ExtsOk exts) (hl : 0 ≤ len) :
    ((runOpsLog dry len (genOps exts nbFrames).ops #[]).size : Int) ≤ len ∧
    (∀ out, runOps dry len (genOps exts nbFrames).ops #[] = .ok out →
        runOpsLog dry len (genOps exts nbFrames).ops #[] = out) ∧
    (∀ out, generate dry len exts nbFrames pad = .ok out → (out.size : Int) ≤ len) :=
  ⟨generate_log_within dry len exts nbFrames hE hl, fun out h => runOpsLog_ok dry len _ _ out h,
   fun _ h => generate_size_le hE h⟩

/-- **generate_size (argument validation).**  More than 48 frames, or any extension with an ID outside
    3..127 or a frame index outside `0..nb_frames-1`, gives `OPUS_BAD_ARG` and no buffer action at all;
    conversely a successful call implies all IDs and frame indices are valid. -/
theorem generate_bad_arg (dry : Bool) (len : Int) (exts : Array Ext) (nbFrames : Int) (pad : Bool)
    (hl : 0 ≤ len) (hn0 : 0 ≤ nbFrames) :
    ((48 < nbFrames ∨ ∃ (j : Nat) (e : Ext), exts[j]? = some e ∧ BadIdFrame nbFrames e) →
      generate dry len exts nbFrames pad = .err .badArg ∧
      (nbFrames ≤ 48 → (genOps exts nbFrames.toNat).ops = [])) ∧
    (∀ out, generate dry len exts nbFrames pad = .ok out →
      nbFrames ≤ 48 ∧ ∀ (j : Nat) (e : Ext), exts[j]? = some e →
        0 ≤ e.frame ∧ e.frame < max nbFrames 0 ∧ 3 ≤ e.id ∧ e.id ≤ 127) :=
  ⟨generate_badArg dry len exts nbFrames pad hl hn0, fun _ h => generate_ok_valid h⟩

/-- **generate_size (argument validation, payload length).**  IDs and frame indices valid, `nb_frames ≤ 48`,
    but SOME extension — anywhere in the array, also one that the generator would emit inside a repeat
    block — has an inadmissible payload length (`LenOk` fails: `len < 0`, or a short ID 3..31 with `len > 1`).
    Then `generate` never succeeds: it returns `OPUS_BAD_ARG`, unless one of the buffer checks executed on the
    way to that extension fails first, which gives `OPUS_BUFFER_TOO_SMALL` exactly as in C (the checks and
    writes of the C function are the list `(genOps exts nbF).ops`; `needsPass` = "every check passes").  When
    the buffer passes those checks (in particular for any `len` at least `req …`, the largest offset a check
    asks for) the result is exactly `OPUS_BAD_ARG`.  What was written before the error stays inside the
    buffer: the write log of the run has at most `len` bytes. -/
theorem generate_bad_len (dry : Bool) (len : Int) (exts : Array Ext) (nbF : Nat) (pad : Bool) (hl : 0 ≤ len)
    (hnf : nbF ≤ 48) (hv : AllIF exts nbF) (hD : ExtsOk exts)
    (hB : ∃ (j : Nat) (e : Ext), exts[j]? = some e ∧ ¬ LenOk e) :
    generate dry len exts nbF pad =
      (if needsPass len 0 (genOps exts nbF).ops then .err .badArg else .err .bufferTooSmall) ∧
    (req (genOps exts nbF).ops ≤ len → generate dry len exts nbF pad = .err .badArg) ∧
    (∀ out, generate dry len exts nbF pad ≠ .ok out) ∧
    ((runOpsLog dry len (genOps exts nbF).ops #[]).size : Int) ≤ len := by
  obtain ⟨h1, h2⟩ := generate_badLen dry len exts nbF pad hl hnf hv hD hB
  refine ⟨h1, h2, ?_, generate_log_within dry len exts nbF hD hl⟩
  intro out ho
  rw [h1] at ho
  split at ho <;> cases ho

/-- **generate_parse (full round trip, repeat mechanism included).**  For EVERY array of valid extensions
    (IDs 3..127, frames < nb_frames ≤ 48, short IDs with 0–1 payload bytes, long IDs with any payload, any
    array order, any repeat-eligible pattern) and every sufficiently large buffer: `generate` succeeds;
    `parse` on the bytes it wrote succeeds and returns exactly one entry per extension; and, frame by
    frame, the entries are the extensions of that frame in their original order with identical IDs,
    lengths and payload bytes (`normExt e` = `e` with its payload cut to `len` bytes).
    `serAll` (OpusProofs/ExtRepSpec.lean) is the list-level description of what the generator writes:
    per frame the longest repeatable prefix, the indicator `04`/`05`, the repeated payloads of all later
    frames (last long one without length bytes when `L = 0`), the rest of the frame. -/
theorem generate_parse (exts : Array Ext) (nbF : Nat) (hnf : nbF ≤ 48) (hv : AllValid exts nbF) (len : Int)
    (hlen : ((serAll exts.size (queues exts nbF) 0 0).length : Int) ≤ len) (cap : Int) (hcap : (exts.size : Int) ≤ cap) :
    let bs := serAll exts.size (queues exts nbF) 0 0
    generate false len exts nbF false = .ok bs.toArray ∧
    ∃ refs, parse bs bs.length cap nbF = .ok refs ∧ refs.length = exts.size ∧
      refs.map (ExtRef.toExt bs) = (expAll (queues exts nbF)).map normExt ∧
      ∀ g, (refs.filter (fun r => r.frame = g)).map (ExtRef.toExt bs) = (allOf exts g).map normExt :=
  generate_parse_full exts nbF hnf hv len hlen cap hcap

/-- **generate_parse (with the padding request).**  With `pad = 1` the generator fills the buffer: the
    extension block is preceded by `01` padding bytes up to `len`; for every number `k` of such bytes (also
    what the repacketizer's padding path produces) the reader skips them — including when it replays a
    repeat block whose source region starts at the first padding byte — and reports the same extensions. -/
theorem generate_parse_padded (exts : Array Ext) (nbF : Nat) (hnf : nbF ≤ 48) (hnf0 : 0 < nbF) (hv : AllValid exts nbF) :
    (∀ len : Int, ((serAll exts.size (queues exts nbF) 0 0).length : Int) ≤ len →
      generate false len exts nbF true =
        .ok (List.replicate (len.toNat - (serAll exts.size (queues exts nbF) 0 0).length) 1 ++
              serAll exts.size (queues exts nbF) 0 0).toArray) ∧
    (∀ (k : Nat) (cap : Int), (exts.size : Int) ≤ cap →
      let x := List.replicate k 1 ++ serAll exts.size (queues exts nbF) 0 0
      ∃ refs, parse x x.length cap nbF = .ok refs ∧ refs.length = exts.size ∧
        refs.map (ExtRef.toExt x) = (expAll (queues exts nbF)).map normExt ∧
        ∀ g, (refs.filter (fun r => r.frame = g)).map (ExtRef.toExt x) = (allOf exts g).map normExt) :=
  ⟨fun len hlen => generate_padded exts nbF hnf hv len hlen, fun k cap hcap => parse_padded_full exts nbF hnf hnf0 hv k cap hcap⟩

/-- **generate_parse (through `parse_ext`).**  On the generated bytes `count_ext` reports the number of
    extensions, and `parse_ext` with its per-frame counts returns all of them sorted by frame, in the
    original per-frame order (`sortedFrom exts nbF 0` = stable sort of the array by frame), with
    identical payloads. -/
theorem generate_parse_ext (exts : Array Ext) (nbF : Nat) (hnf : nbF ≤ 48) (hv : AllValid exts nbF) (len : Int)
    (hlen : ((serAll exts.size (queues exts nbF) 0 0).length : Int) ≤ len) (cap : Int) (hcap : (exts.size : Int) ≤ cap) :
    let bs := serAll exts.size (queues exts nbF) 0 0
    generate false len exts nbF false = .ok bs.toArray ∧
    ∃ (counts : List Nat) (out : List ExtRef), countExt bs bs.length nbF = .ok (exts.size, counts) ∧
      parseExt bs bs.length cap (counts.map Int.ofNat) nbF = .ok (out.map some) ∧
      out.map (ExtRef.toExt bs) = (sortedFrom exts nbF 0).map normExt :=
  generate_parse_ext_full exts nbF hnf hv len hlen cap hcap

/-- **fixed_point.**  parse ∘ generate ∘ parse = parse: whatever bytes `x` parse successfully, generating
    from the parsed extensions and parsing the result gives, frame by frame and in order, extensions with
    the same IDs, lengths and payload bytes as the first parse. -/
theorem fixed_point (x : Bytes) (hb : BytesOk x) (nbF : Nat) (hnf : nbF ≤ 48) (cap0 : Int) (hcap0 : 0 ≤ cap0)
    (l : List ExtRef) (hp : parse x x.length cap0 nbF = .ok l) (len : Int) (cap : Int) (hcap : (l.length : Int) ≤ cap) :
    let exts := (l.map (ExtRef.toExt x)).toArray
    let bs := serAll exts.size (queues exts nbF) 0 0
    (bs.length : Int) ≤ len →
    generate false len exts nbF false = .ok bs.toArray ∧
    ∃ refs, parse bs bs.length cap nbF = .ok refs ∧ refs.length = l.length ∧
      ∀ g, (refs.filter (fun r => r.frame = g)).map (ExtRef.toExt bs) = (l.filter (fun r => r.frame = g)).map (ExtRef.toExt x) :=
  parse_generate_parse x hb nbF hnf cap0 hcap0 l hp len cap hcap

/-- **Reader ∘ canonical writer.**  Independently of the generator model: for every frame-ordered list
    of valid extensions, iterating/parsing its canonical serialisation (`serBytes`: separators `02` /
    `03 k`, short and long forms, 255-lacing, final `L = 0`) returns the list itself. -/
theorem parse_canonical (l : List Ext) (nbF : Nat) (hnf : nbF ≤ 48) (hv : ∀ e ∈ l, ValidExt nbF e)
    (hs : FrameSorted 0 l) (cap : Int) (hcap : (l.length : Int) ≤ cap) :
    parse (serBytes 0 l) (serBytes 0 l).length cap nbF = .ok (serRefs 0 0 l) ∧
    (serRefs 0 0 l).map (ExtRef.toExt (serBytes 0 l)) = l.map normExt :=
  parse_ser l nbF hnf hv hs cap hcap

/-- **int_ranges (iterator).**  The model computes with unbounded integers; for `len < 2^31` bytes of padding the C
    code's `opus_int32`/`int` arithmetic agrees with it:
    (1) in every state a caller can reach (`init`, then any `next`/`reset`/`set_frame_max`) all integer fields of
        `OpusExtensionIterator` — `len`, `curr_len ≥ -1`, `repeat_len`, `src_len`, `trailing_short_len` — and the
        pointer differences `curr_data - data`, `curr_data0 - repeat_data ≥ 0` lie in `opus_int32`;
        `nb_frames, repeat_frame ≤ 48`, `curr_frame ≤ 302`;
    (2) in the lacing loop of `skip_extension_payload`, called with any `len0 ≤ INT32_MAX`, after every pass
        `len ∈ [-255, len0]`, `1 ≤ header_size ≤ 2^23`, `0 ≤ bytes ≤ 2139095040` (`lacingTrace` lists these
        triples; its last entry is what the model's `lacing` returns). -/
theorem int_ranges_iter (d : Bytes) (hb : BytesOk d) (hl : (d.length : Int) ≤ 2147483647) (nbFrames : Nat) :
    (∀ it, Reach d nbFrames it →
      InI32 it.len ∧ InI32 it.currLen ∧ -1 ≤ it.currLen ∧ InI32 it.repeatLen ∧ InI32 it.srcLen ∧ InI32 it.tsl ∧
      InI32 it.currData ∧ InI32 ((it.currData : Int) - it.repeatData) ∧ 0 ≤ (it.currData : Int) - it.repeatData ∧
      it.nbFrames ≤ 48 ∧ it.repeatFrame ≤ 48 ∧ it.currFrame ≤ 302) ∧
    (∀ (p : Nat) (len0 : Int), len0 ≤ 2147483647 → ∀ t ∈ lacingTrace d.toArray p len0 0 0,
      -255 ≤ t.1 ∧ t.1 ≤ len0 ∧ 1 ≤ t.2.2 ∧ t.2.2 ≤ 8388608 ∧ t.2.1 ≤ 2139095040 ∧
      InI32 t.1 ∧ InI32 t.2.1 ∧ InI32 t.2.2) ∧
    (∀ (p : Nat) (len0 : Int) (p' : Nat) (len' : Int) (bytes' hs' : Nat),
      lacing d.toArray p len0 0 0 = .ok (some (p', len', bytes', hs')) →
      (len', bytes', hs') ∈ lacingTrace d.toArray p len0 0 0) := by
  have hbb : ∀ (i x : Nat), d.toArray[i]? = some x → x < 256 := by
    intro i x hx
    simp only [List.getElem?_toArray] at hx
    exact hb x (List.mem_of_getElem? hx)
  refine ⟨fun it hr => ?_, fun p len0 h0 => lacing_ranges d.toArray hbb p len0 h0,
    fun p len0 _ _ _ _ h => lacing_mem_trace _ _ _ _ _ h⟩
  obtain ⟨h1, h2, h3, h4, h5, h6, h7, h8, h9, h10⟩ := hr.ranges hb hl
  have := (hr.box hb).num
  unfold BoxN at this
  exact ⟨h1, h2, by omega, h3, h4, h5, h6, h7, h8, h9, h10⟩

/-- **int_ranges (count).**  The `int count` of `count` / `count_ext` / `parse` / `parse_ext` (and every
    `nb_frame_exts[]`, `nb_frames_cum[]` entry, which are partial sums of it) is the length of the list `l` of
    `count_parse_agree`; it is at most `nb_frames · len`.  So it fits an `int` whenever `nb_frames · len < 2^31`
    (always for `len ≤ 44 739 242`, i.e. any packet below 42 MB).  The bound is reached up to one byte
    (`int_ranges_count_tight`): for `len ≥ 2^31/48` a crafted padding makes `count` exceed `INT_MAX` — signed
    overflow in `opus_packet_extensions_count` / `_count_ext` (in `parse` the capacity test `count == *nb_extensions`
    stops the loop first). -/
theorem int_ranges_count (d : Bytes) (hb : BytesOk d) (nbFrames : Nat) (it : Iter) (l : List ExtRef) (s : Step)
    (hinit : iterInit d d.length nbFrames = .ok it) (hall : iterAll it = .ok (l, s)) :
    (l.length : Int) ≤ nbFrames * d.length ∧
    ((nbFrames : Int) * d.length ≤ 2147483647 → InI32 l.length ∧ ∀ f, InI32 (frameCount l f)) := by
  have h := iterAll_count_le d hb nbFrames hinit hall
  refine ⟨h, fun hle => ?_⟩
  have hfc : ∀ f, frameCount l f ≤ l.length := by
    intro f; unfold frameCount; exact List.length_filter_le _ _
  unfold InI32
  refine ⟨by omega, fun f => ?_⟩
  have := hfc f
  omega

/-- `k` one-byte extensions (`06` = ID 3, no payload) followed by "repeat these extensions" (`04`): `48·k`
    extensions from `k + 1` bytes (here `k = 3`: 144 extensions from 4 bytes). -/
theorem int_ranges_count_tight : ∃ refs, parse [6, 6, 6, 4] 4 144 48 = .ok refs ∧ refs.length = 144 := by
  let exMany : Array Ext :=
    ((List.range 48).flatMap (fun (f : Nat) => List.replicate 3 ({ id := 3, frame := (f : Int), data := [], len := 0 } : Ext))).toArray
  obtain ⟨_, refs, h1, h2, _⟩ := generate_parse exMany 48 (by decide) (allValid_of_all _ _ (by decide +kernel)) 4
    (by decide +kernel) 144 (by decide +kernel)
  have e : serAll exMany.size (queues exMany 48) 0 0 = [6, 6, 6, 4] := by decide +kernel
  rw [e] at h1
  exact ⟨refs, h1, h2⟩

/-- **int_ranges (generate).**  For `len ≤ INT32_MAX`:
    (1) the position never leaves `[0, len]` (the run's write log has at most `len` bytes and a successful call
        returns at most `len`), so every `len - pos`, every `pos + k` after a passed check `len - pos < k` and the
        final `padding = len - pos`, `pos += padding` are in `opus_int32`: the RETURN VALUE IS EXACT for every
        `len < 2^31` — a list whose total size exceeds the buffer is refused by one of the checks, the total is
        never formed as a sum;
    (2) the only request that can itself overflow is `length_bytes + ext->len` of a long extension: exact for
        `ext->len ≤ 2139095039`, `2^31 + 1` at `ext->len = 2139095040` (needs a 2 GB payload);
    (3) the ID byte is a byte value for admissible lengths; for a short ID with an inadmissible `ext->len`
        (rejected two lines later) the `int` sum `2·id + len` wraps only for `ext->len > 2147483585`;
    (4) `nb_repeated = repeat_count·(nb_frames − (f+1))` and `written + nb_repeated` are at most `nb_extensions`.
    Not in the model: the write-only variable `trailing_short_len` of `generate` (`+= extensions[i].len` on
    unvalidated lengths, see NOT_COVERED). -/
theorem int_ranges_generate :
    (∀ (dry : Bool) (len : Int) (exts : Array Ext) (nbFrames : Nat) (pad : Bool), ExtsOk exts → 0 ≤ len → len ≤ 2147483647 →
      InI32 ((runOpsLog dry len (genOps exts nbFrames).ops #[]).size) ∧
      ((runOpsLog dry len (genOps exts nbFrames).ops #[]).size : Int) ≤ len ∧
      ∀ out, generate dry len exts nbFrames pad = .ok out → InI32 out.size ∧ (out.size : Int) ≤ len) ∧
    (∀ len pos k : Int, len ≤ 2147483647 → 0 ≤ pos → pos ≤ len → 0 ≤ k → ¬ (len - pos < k) →
      InI32 (len - pos) ∧ 0 ≤ len - pos ∧ InI32 (pos + k) ∧ 0 ≤ pos + k ∧ pos + k ≤ len ∧ InI32 (pos + (len - pos))) ∧
    (∀ n : Int, 0 ≤ n → n ≤ 2139095039 →
      InI32 (n / 255) ∧ InI32 (1 + n / 255) ∧ InI32 (1 + n / 255 + n) ∧ 0 ≤ n % 255 ∧ n % 255 < 255) ∧
    ¬ InI32 (1 + (2139095040 : Int) / 255 + 2139095040) ∧
    (∀ id l : Int, 3 ≤ id → id ≤ 127 →
      (0 ≤ l → l ≤ 1 → 0 ≤ 2 * id + l ∧ 2 * id + l ≤ 255) ∧ (id ≤ 31 → InI32 l → l ≤ 2147483585 → InI32 (2 * id + l))) ∧
    (∀ (a : List Ext) (later : List (List Ext)) (w n : Nat), w + a.length + total later = n →
      blockR a later ≤ a.length ∧ blockR a later * later.length ≤ n ∧
      w + blockR a later + blockR a later * later.length ≤ n) := by
  refine ⟨fun dry len exts nbFrames pad hE h0 hl => ?_, fun len pos k hl hp hpl hk hpass => gen_pos_ranges len pos k hl hp hpl hk hpass,
    fun n h0 h1 => gen_long_ranges n h0 h1, gen_long_tight, fun id l h3 h127 => gen_idbyte_ranges id l h3 h127,
    fun a later w n h => repeat_count_le a later w n h⟩
  have h1 := generate_log_within dry len exts nbFrames hE h0
  refine ⟨by unfold InI32; omega, h1, fun out ho => ?_⟩
  have := generate_size_le hE ho
  exact ⟨by unfold InI32; omega, this⟩

/-! ### Non-vacuity: concrete inputs satisfy the hypotheses -/

/-- Padding with a repeat indicator (frame 0: short ext id 5 with payload, long ext id 40; `04` =
    "repeat these extensions", L=0; then the payloads for frame 1). -/
def exPad : Bytes := [11, 7, 81, 2, 1, 2, 4, 9, 3, 4, 5]
example : BytesOk exPad := by decide
example : ∃ it, Reach exPad 2 it ∧ it.currLen = 11 := ⟨_, .init rfl, rfl⟩
/-- … and so are the states after a call of `next`. -/
example : ∃ it s, Reach exPad 2 it ∧ Reach exPad 2 (iterSetFrameMax (iterReset it) 1) ∧
    (∀ e, s = Step.ext e → e.frame < 2) := by
  obtain ⟨it', s, h, hs⟩ := iter_safe exPad (by decide) 2 _ (.init rfl)
  exact ⟨it', s, .next (.init rfl) h, .setFrameMax 1 (.reset (.next (.init rfl) h)) (by decide),
    fun e he => (hs e he).2.2.1⟩

/-- Unsorted frames, a short and a long extension per frame (repeat-eligible), 260-byte payload. -/
def exExts : Array Ext :=
  #[{ id := 5, frame := 0, data := [7], len := 1 }, { id := 5, frame := 1, data := [9], len := 1 },
    { id := 40, frame := 1, data := [1, 2, 3], len := 3 }, { id := 40, frame := 0, data := List.replicate 260 6, len := 260 }]
example : ExtsOk exExts := extsOk_of_all _ (by decide +kernel)
example : resSize (generate true 1000 exExts 2 false) = .ok 270 := by decide +kernel
example : resSize (generate false 270 exExts 2 true) = .ok 270 := by decide +kernel
example : generate false 269 exExts 2 false = .err .bufferTooSmall := by decide +kernel
example : BadIdFrame 2 { id := 2, frame := 0, data := [], len := 0 } := by unfold BadIdFrame; decide

/-- An inadmissible length in a position the generator would emit inside a repeat block (frame 1 repeats the
    long extension of frame 0), and one on a short ID in the first frame. -/
def exBadRep : Array Ext :=
  #[{ id := 40, frame := 0, data := [1], len := 1 }, { id := 40, frame := 1, data := [], len := -1 }]
def exBadShort : Array Ext :=
  #[{ id := 5, frame := 1, data := [1], len := 1 }, { id := 5, frame := 0, data := [1, 2], len := 2 }]
example : AllIF exBadRep 2 ∧ ExtsOk exBadRep ∧ ∃ (j : Nat) (e : Ext), exBadRep[j]? = some e ∧ ¬ LenOk e :=
  ⟨allIF_of_all _ _ (by decide +kernel), extsOk_of_all _ (by decide +kernel), 1, _, rfl, by decide⟩
example : AllIF exBadShort 2 ∧ ExtsOk exBadShort ∧ ∃ (j : Nat) (e : Ext), exBadShort[j]? = some e ∧ ¬ LenOk e :=
  ⟨allIF_of_all _ _ (by decide +kernel), extsOk_of_all _ (by decide +kernel), 1, _, rfl, by decide⟩
example : generate true 100 exBadRep 2 false = .err .badArg := by decide +kernel
example : generate false 100 exBadShort 2 true = .err .badArg := by decide +kernel
example : req (genOps exBadRep 2).ops = 4 := by decide +kernel
example : generate false 3 exBadRep 2 false = .err .bufferTooSmall := by decide +kernel
example : generate false 4 exBadRep 2 false = .err .badArg := by decide +kernel

/-- Unsorted frames, three frames with the last one empty (so nothing is repeat-eligible), a 300-byte
    payload (two lacing bytes) and a long extension in last position (`L = 0` form). -/
def exExts2 : Array Ext :=
  #[{ id := 40, frame := 1, data := List.replicate 300 9, len := 300 }, { id := 5, frame := 0, data := [7], len := 1 },
    { id := 5, frame := 1, data := [], len := 0 }, { id := 100, frame := 1, data := [1, 2, 3], len := 3 }]
example : AllValid exExts2 3 := allValid_of_all _ _ (by decide +kernel)
example : (sortedFrom exExts2 3 0).map (·.id) = [5, 40, 5, 100] := by decide +kernel
/-- `exExts` (above) is repeat-eligible: the generator writes a repeat block for it, and it is valid. -/
example : AllValid exExts 2 := allValid_of_all _ _ (by decide +kernel)
example : blockR (allOf exExts 0) [allOf exExts 1] = 2 := by decide +kernel
example : (serAll exExts.size (queues exExts 2) 0 0).length = 270 := by decide +kernel
/-- hypotheses of `fixed_point`: bytes that parse (shown through the round trip itself). -/
example : ∃ l, parse (serAll exExts.size (queues exExts 2) 0 0) (serAll exExts.size (queues exExts 2) 0 0).length 10 2 = .ok l ∧
    l.length = exExts.size := by
  obtain ⟨_, refs, h1, h2, _⟩ := generate_parse exExts 2 (by decide) (allValid_of_all _ _ (by decide +kernel)) 1000 (by decide +kernel) 10 (by decide +kernel)
  exact ⟨refs, h1, h2⟩

/-- hypotheses of `find_spec`: a reachable state on `exPad` (any ID may be asked for). -/
example : ∃ it l s, Reach exPad 2 it ∧ iterAll it = .ok (l, s) ∧
    ((∀ x ∈ l, (x.id : Int) ≠ 99) → ∃ it', find it 99 = .ok (it', s)) := by
  obtain ⟨it, hit⟩ : ∃ it, iterInit exPad exPad.length 2 = .ok it := ⟨_, rfl⟩
  obtain ⟨l, s, h1, _, _, h4⟩ := find_spec exPad (by decide) 2 it (.init hit) 99
  exact ⟨it, l, s, .init hit, h1, fun h => by obtain ⟨it', h5, _⟩ := h4 h; exact ⟨it', h5⟩⟩

/-- hypotheses of the `int_ranges_*` theorems. -/
example : BytesOk exPad ∧ (exPad.length : Int) ≤ 2147483647 := by decide
example : lacingTrace #[255, 3, 0] 0 300 0 0 = [(44, 255, 1), (40, 258, 2)] := by decide +kernel
example : ∃ it l s, iterInit exPad exPad.length 2 = .ok it ∧ iterAll it = .ok (l, s) ∧
    (l.length : Int) ≤ (2 : Nat) * exPad.length := by
  obtain ⟨it, l, s, h1, h2, _⟩ := count_parse_agree exPad (by decide) 2 (by decide)
  exact ⟨it, l, s, h1, h2, (int_ranges_count exPad (by decide) 2 it l s h1 h2).1⟩
example : blockR (allOf exExts 0) [allOf exExts 1] * 1 ≤ 4 :=
  (int_ranges_generate.2.2.2.2.2 (allOf exExts 0) [allOf exExts 1] 0 4 (by decide +kernel)).2.1

end OpusProps.C16
