import OpusModel.Delay
import OpusModel.Gen.Window
import OpusProofs.Delay
import OpusProofs.MdctTdac
import OpusProofs.MdctWindow
import OpusProofs.DelayChannels
import OpusProofs.MdctAlgoInv
import OpusProps.C10
/-
  C04 — "Encode then decode reproduces the input at the reported delay".

  PARTIAL.  What is stated and proved here (kernel-checked):
    * the *reported delay* clause: OPUS_GET_LOOKAHEAD = Fs/400 (+ Fs/250 unless RESTRICTED_LOWDELAY), for every
      accepted (Fs, channels, application), over every history of set-application / encode / reset operations;
      it is exactly 2.5 ms / 6.5 ms at every API rate; it decomposes into the CELT overlap at the API rate plus the
      encoder's delay buffer; the model reproduces the struct fields and ctl answers regenerated from the code;
    * the *channel identity* clause at the multistream routing layer: the channel the encoder feeds into a stream
      side and the channel the decoder writes that stream side to are the same channel (no swap), for every layout,
      and for every channel of the surround layouts (regenerated Vorbis table);
    * the *algorithm* of celt/mdct.c: clt_mdct_forward_c (window + fold, pre-rotation, N/4-point complex DFT,
      post-rotation) written over ℝ equals `scale ·` the textbook MDCT of the windowed block, clt_mdct_backward_c equals
      the textbook IMDCT with windowed overlap-add, and forward → backward on consecutive frames returns the input,
      for every N divisible by 4 and every overlap divisible by 4 up to N/2 (the FFT taken as the DFT it computes);
    * the *exact mathematics* underneath "the output matches the input" for the CELT transform layer: the
      regenerated window is power-complementary to 2⁻²³, and MDCT → IMDCT → windowed overlap-add of consecutive
      blocks returns the input (time-domain alias cancellation), exactly for a Princen–Bradley window and to
      within M/2·2⁻²³·|x| for the table the code uses, in exact (real) arithmetic.

  What is NOT proved (searched on the implementation only, see tools/props/C04.py NOT_COVERED): every quantitative
  fidelity clause — SNR and per-band energy after quantisation, the measured delay of the real encoder+decoder
  (incl. the SILK resamplers' ±0.1 ms), channel identity/level through the real codecs, float rounding.

  Full statement (not a theorem of this file):
    ∀ configuration c (Fs, channels, application, frame duration, bitrate ≥ floor(c), complexity, VBR/CBR),
    ∀ signal x from the generator families, with y = decode(encode_c(x)) and d = lookahead(c):
      SNR(y[· + d], x) ≥ snr_min(c) ∧ ∀ band b, |E_b(y) − E_b(x)| ≤ tol_b(c) ∧ channels keep identity, sign, level.
-/
namespace OpusProps.C04
open Opus Opus.Delay Opus.MdctR Opus.MdctWindow Opus.MdctAlgo Opus.Gen.Window Opus.Layout Opus.DelayChannels

/-- Clause "delayed by exactly the lookahead the encoder reports" — the report itself: on any successfully
    created encoder OPUS_GET_LOOKAHEAD answers `Fs/400 + (0 if RESTRICTED_LOWDELAY else Fs/250)`,
    independent of the channel count. -/
theorem lookahead_eq (fs ch : Nat) (app : Int) (st : Enc) (h : init fs ch app = .ok st) :
    getLookahead st = lookahead fs app := by
  have := getLookahead_of_inv (init_inv h)
  obtain ⟨a, _, c, _⟩ := init_fields h
  rw [this, a, c]

example : ∃ st, init 48000 2 APP_AUDIO = .ok st ∧ getLookahead st = 312 := ⟨_, rfl, rfl⟩
example : ∃ st, init 16000 1 APP_RESTRICTED_LOWDELAY = .ok st ∧ getLookahead st = 40 := ⟨_, rfl, rfl⟩

/-- The encoder exists exactly for the documented arguments (else OPUS_BAD_ARG), so `lookahead_eq` covers every
    encoder that can be created: 5 rates × 2 channel counts × 3 applications. -/
theorem encoder_exists_iff (fs ch : Nat) (app : Int) :
    (∃ st, init fs ch app = .ok st) ↔ (validFs fs = true ∧ (ch = 1 ∨ ch = 2) ∧ validApp app = true) :=
  init_ok_iff fs ch app

example : init 44100 2 APP_AUDIO = .err .badArg := rfl

/-- The reported delay over a whole session: after any sequence of OPUS_SET_APPLICATION (accepted or rejected),
    encode calls and OPUS_RESET_STATE, the look-ahead is still the closed form of the rate the encoder was
    created with and its *current* application. -/
theorem lookahead_any_history (fs ch : Nat) (app : Int) (st : Enc) (h : init fs ch app = .ok st) (ops : List Op) :
    getLookahead (run st ops) = lookahead fs (run st ops).application := by
  rw [getLookahead_of_inv (run_inv (init_inv h) ops), run_fs, (init_fields h).1]

example : ∃ st, init 48000 2 APP_AUDIO = .ok st ∧
    getLookahead (run st [.setApp APP_RESTRICTED_LOWDELAY, .encode, .setApp APP_VOIP, .reset]) = 120 := ⟨_, rfl, rfl⟩

/-- Mid-stream stability: once the first frame has been encoded, no accepted OPUS_SET_APPLICATION changes the
    reported look-ahead (a change of application is refused), so the delay a client compensates stays valid. -/
theorem lookahead_fixed_after_first_frame (st st' : Enc) (v : Int) (hf : st.first = false)
    (h : setApplication st v = .ok st') : getLookahead st' = getLookahead st :=
  setApplication_after_first hf h

example : ∃ st, init 8000 1 APP_VOIP = .ok st ∧ (afterEncode st).first = false ∧
    setApplication (afterEncode st) APP_RESTRICTED_LOWDELAY = .err .badArg ∧
    (setApplication (afterEncode st) APP_VOIP).isOk = true := ⟨_, rfl, rfl, rfl, rfl⟩

/-- The look-ahead in time units is exact: 2.5 ms in RESTRICTED_LOWDELAY, 6.5 ms otherwise, with no integer
    rounding at any of the five API rates (so "delay off by 1 ms" is a 48-sample discrepancy at 48 kHz). -/
theorem lookahead_exact_ms (fs : Nat) (h : validFs fs = true) (app : Int) :
    lookahead fs app * 2000 = fs * (if app = APP_RESTRICTED_LOWDELAY then 5 else 13) :=
  lookahead_ms h app

example : lookahead 12000 APP_AUDIO * 2000 = 12000 * 13 := rfl

/-- Where the delay comes from: the CELT MDCT overlap (regenerated `overlap`, scaled to the API rate) plus the
    `total_buffer` samples the encoder holds back in `delay_buffer` (src/opus_encoder.c:1805-1809). -/
theorem lookahead_is_overlap_plus_buffer (fs ch : Nat) (app : Int) (st : Enc) (h : init fs ch app = .ok st) :
    getLookahead st = celtOverlapAtFs fs + totalBuffer st := by
  rw [lookahead_decomp (init_inv h), (init_fields h).1]

example : celtOverlapAtFs 24000 = 60 := rfl

/-- Tie of the model to the code at build time: for every (Fs, application) the model's answer equals what
    OPUS_GET_LOOKAHEAD returned on a real encoder when `Gen/Window.lean` was regenerated from the current tree. -/
theorem lookahead_table_matches_code :
    lookaheadTable = allFs.flatMap fun fs => allApps.map fun app =>
      (fs, app, ((init fs 1 app).bind fun st => Res.ok (getLookahead st : Int)) |> fun r =>
        match r with | .ok v => v | _ => -1) :=
  table_matches_code

/-- Tie of `init` to the code at build time: `delay_compensation` and `encoder_buffer` of real encoders
    (read from the struct by the extractor) are the values the model's `init` produces. -/
theorem init_fields_match_code :
    ∀ e ∈ encInit, ∀ ch ∈ [1, 2], ∀ app ∈ allApps,
      (init e.1 ch app).isOk = true ∧
      ∀ st, init e.1 ch app = .ok st → st.delayCompensation = e.2.1 ∧ st.encoderBuffer = e.2.2 :=
  init_matches_code

/-- Princen–Bradley condition on the table the code uses: for the regenerated `window120` (exact values of the
    IEEE single literals), `|w[i]² + w[overlap−1−i]² − 1| ≤ 2⁻²³` for all `i` (2⁻²⁴ does not hold). -/
theorem window_power_complementary (i : ℕ) (hi : i < overlap) :
    |windowR i ^ 2 + windowR (overlap - 1 - i) ^ 2 - 1| ≤ 1 / 2 ^ 23 :=
  window_pc_real i hi

example : overlap = 120 ∧ windowME.length = 120 := ⟨rfl, by decide⟩

/-- `windowR` really is the table: `windowR i = m·2^e` for the (m, e) pair the extractor printed for entry `i`. -/
theorem window_is_table (i : ℕ) (hi : i < overlap) :
    windowR i = ((windowME.getD i (0, 0)).1 : ℝ) * (2 : ℝ) ^ ((windowME.getD i (0, 0)).2) :=
  num_spec i hi

/-- The window is a cross-fade: strictly increasing from a positive first value to at most 1 — no sign flip and no
    gain above unity can come from the table. -/
theorem window_monotone :
    (∀ i, i < overlap - 1 → windowR i < windowR (i + 1)) ∧ 0 < windowR 0 ∧ windowR (overlap - 1) ≤ 1 :=
  ⟨window_increasing, window_range.1, window_range.2⟩

/-- Alias form of IMDCT∘MDCT (the orthogonality of the MDCT kernels): a 2M block comes back as itself minus its
    time-reversed first half / plus its time-reversed second half, scaled by M/2. -/
theorem mdct_alias_form (M : ℕ) (x : ℕ → ℝ) (n : ℕ) :
    (n < M → imdct M (mdct M x) n = (M : ℝ) / 2 * (x n - x (M - 1 - n))) ∧
    (M ≤ n → n < 2 * M → imdct M (mdct M x) n = (M : ℝ) / 2 * (x n + x (3 * M - 1 - n))) :=
  ⟨imdct_mdct_lo M x n, imdct_mdct_hi M x n⟩

/-- Time-domain alias cancellation (clause "the output matches the input", transform layer, exact arithmetic):
    with a symmetric window satisfying Princen–Bradley, overlap-adding the windowed IMDCT of the windowed MDCT
    of consecutive blocks (hop M) returns the input signal, up to the normalisation factor M/2, at every
    sample of every frame after the first. -/
theorem mdct_tdac (M : ℕ) (w x : ℕ → ℝ) (hsym : ∀ n, n < 2 * M → w (2 * M - 1 - n) = w n)
    (hpb : ∀ n, n < M → w n ^ 2 + w (n + M) ^ 2 = 1) (t n : ℕ) (hn : n < M) :
    wola M w x ((t + 1) * M) n + wola M w x (t * M) (n + M) = (M : ℝ) / 2 * x ((t + 1) * M + n) :=
  tdac M w x hsym hpb t n hn

/-- Non-vacuity of `mdct_tdac`: the rectangular-cross-fade window `w n = √½` satisfies both hypotheses for
    every M. -/
example (M : ℕ) : ∃ w : ℕ → ℝ, (∀ n, n < 2 * M → w (2 * M - 1 - n) = w n) ∧
    (∀ n, n < M → w n ^ 2 + w (n + M) ^ 2 = 1) :=
  ⟨fun _ => Real.sqrt (1 / 2), fun _ _ => rfl, fun _ _ => by
    have : Real.sqrt (1 / 2) ^ 2 = 1 / 2 := Real.sq_sqrt (by norm_num)
    simp only [this]; norm_num⟩

/-- TDAC for the window the code uses: for every CELT frame size M (≥ overlap, same parity: 120, 240, 480, 960)
    the low-overlap window built from the regenerated table reconstructs every sample with error at most
    M/2 · 2⁻²³ · |x| (relative 2⁻²³ ≈ 1.2e-7, i.e. −138 dB) in exact arithmetic. -/
theorem celt_window_tdac (M : ℕ) (hov : overlap ≤ M) (hpar : 2 ∣ (M - overlap)) (x : ℕ → ℝ) (t n : ℕ) (hn : n < M) :
    |wola M (extWindow M overlap windowR) x ((t + 1) * M) n + wola M (extWindow M overlap windowR) x (t * M) (n + M)
        - (M : ℝ) / 2 * x ((t + 1) * M + n)|
      ≤ (M : ℝ) / 2 * (1 / 2 ^ 23) * |x ((t + 1) * M + n)| :=
  celt_tdac M hov hpar x t n hn

example : ∀ M ∈ [120, 240, 480, 960], overlap ≤ M ∧ 2 ∣ (M - overlap) := by decide

/-- Clause "channels keep their identity (left stays left, no swap)", multistream routing layer, decoder after
    encoder: output channel `c` is written (C10 `routing`: from `expectedSrc l c`) with the stream side that the
    encoder filled from input channel `c` itself (`get_left/right/mono_channel(layout, s, -1)`,
    src/opus_multistream_encoder.c:942-943, 961) — for every layout and every channel whose mapping byte is not
    255 (muted) and is not a repetition of an earlier channel's byte (a repeated byte is a *copy* of that earlier
    channel by RFC 7845 §5.1.1, so identity cannot hold for it). -/
theorem channel_identity (l : ChannelLayout) (c v : Nat) (hc : c < l.nbChannels)
    (hv : l.mapping[c]? = some v) (h255 : v ≠ 255) (hfirst : ∀ j, j < c → l.mapping[j]? ≠ some v) :
    encoderInput l (expectedSrc l c) = (c : Int) :=
  encoderInput_expectedSrc l c v hc hv h255 hfirst

/-- Non-vacuity: 5.1 (Vorbis order FL C FR RL RR LFE, mapping 0 4 1 2 3 5, 4 streams, 2 coupled): output FR (channel 2)
    is the right side of stream 0, which the encoder fills from input channel 2. -/
example : expectedSrc ⟨6, 4, 2, [0, 4, 1, 2, 3, 5]⟩ 2 = .right 0 ∧
    encoderInput ⟨6, 4, 2, [0, 4, 1, 2, 3, 5]⟩ (.right 0) = 2 := by decide

/-- The same clause, encoder after decoder: whichever channel `c` the encoder takes a stream side from, the decoder
    writes that very stream side to channel `c` — for every stream side of every layout that satisfies the size
    conditions both validators enforce (`coupled ≤ streams`, `streams + coupled ≤ 255`).  So no stream side can come
    back on a different channel than it was taken from. -/
theorem stream_side_identity (l : ChannelLayout) (src : Src) (hs : IsStreamSide l src)
    (hcs : l.nbCoupled ≤ l.nbStreams) (h255 : l.nbStreams + l.nbCoupled ≤ 255)
    (c : Int) (hc : encoderInput l src = c) (hne : c ≠ -1) :
    0 ≤ c ∧ c.toNat < l.nbChannels ∧ expectedSrc l c.toNat = src :=
  expectedSrc_encoderInput l src hs hcs h255 c hc hne

example : IsStreamSide ⟨6, 4, 2, [0, 4, 1, 2, 3, 5]⟩ (.mono 3) ∧
    encoderInput ⟨6, 4, 2, [0, 4, 1, 2, 3, 5]⟩ (.mono 3) = 5 := ⟨⟨by decide, by decide⟩, by decide⟩

/-- For the layouts `opus_multistream_surround_encoder_create` builds — family 0 (mono, stereo), family 1 (all eight
    Vorbis layouts, table regenerated from src/opus_multistream_encoder.c) and family 255 (every channel count up to
    255) — *every* channel is routed back to itself. -/
theorem surround_channel_identity :
    ((∀ ch ∈ [1, 2], surroundIdentity ch 0 = true) ∧
     (∀ ch ∈ [1, 2, 3, 4, 5, 6, 7, 8], surroundIdentity ch 1 = true) ∧
     (∀ ch ∈ [1, 2, 3, 5, 8, 16, 32], surroundIdentity ch 255 = true)) ∧
    (∀ ch c : Nat, ch ≤ 255 → c < ch →
      encoderInput ⟨ch, ch, 0, List.range ch⟩ (expectedSrc ⟨ch, ch, 0, List.range ch⟩ c) = (c : Int)) :=
  ⟨surround_identity, fun ch c hch hc => family255_identity ch c hch hc⟩

example : surroundLayout 6 1 = .ok ⟨4, 2, [0, 4, 1, 2, 3, 5], 3⟩ := by decide

/-- Clause "channels keep their identity" end to end through the multistream layer (composition of the routing
    theorem of property C10, `OpusProps.C10.routing_pcm`, with `channel_identity`): for **every** multistream encoder
    and decoder created with the same `(channels, streams, coupled, mapping)`, the two hold the same layout, and for
    every decode call that succeeds with the per-stream decoders returning the common duration `n` (whatever PCM
    `pcm` they produce), output channel `c` is written exactly once, with the first `n` decoded samples of the
    stream side that the encoder filled from **input channel `c`** — for every channel whose mapping byte is not 255
    and does not repeat an earlier byte.  What remains outside is only the per-stream codec itself. -/
theorem channel_identity_pcm {α} [OfNat α 0] (pcm : Src → List α)
    (okE okD : Bool) (ch st co : Int) (m : List Nat) (enc : MSEncoder) (l : ChannelLayout)
    (henc : encoderCreate okE ch st co m = .ok enc) (hdec : decoderCreate okD ch st co m = .ok l)
    (fsRate : Nat) (frameSize len : Int) (validate : Res Nat) (rets : List StreamRet)
    (hrets : rets.length = l.nbStreams) (n : Int) (hn : ∀ s ∈ rets, s.ret = n) (r : Routed)
    (hd : decodeNative l fsRate frameSize len validate rets = .ok r) (hpos : r.ret > 0) :
    enc.layout = l ∧ r.ret = n ∧
    ∀ c v, c < l.nbChannels → l.mapping[c]? = some v → v ≠ 255 → (∀ j, j < c → l.mapping[j]? ≠ some v) →
      channelWrites pcm r.calls c = [srcSamples pcm n (expectedSrc l c)] ∧
      encoderInput enc.layout (expectedSrc l c) = (c : Int) := by
  have hl : enc.layout = l := by
    rw [encoderCreate_eq] at henc
    rw [decoderCreate_eq] at hdec
    have h1 := ((encoderInitImpl_ok_iff okE ch st co m .none (-1) enc).1 henc).2.2.2.2.2.2
    have h2 := ((decoderInit_ok_iff okD ch st co m l).1 hdec).2.2.2.2
    rw [h1, h2]
  obtain ⟨hret, hw⟩ := OpusProps.C10.routing_pcm pcm okD ch st co m l hdec fsRate frameSize len validate rets hrets n hn r hd hpos
  refine ⟨hl, hret, fun c v hc hv h255 hfirst => ⟨(hw c hc).1, ?_⟩⟩
  rw [hl]
  exact encoderInput_expectedSrc l c v hc hv h255 hfirst

/-- Non-vacuity: a 5.1 encoder and decoder with the RFC 7845 layout are both created, with the same layout. -/
example : encoderCreate true 6 4 2 [0, 4, 1, 2, 3, 5] = .ok ⟨⟨6, 4, 2, [0, 4, 1, 2, 3, 5]⟩, -1, .none⟩ ∧
    decoderCreate true 6 4 2 [0, 4, 1, 2, 3, 5] = .ok ⟨6, 4, 2, [0, 4, 1, 2, 3, 5]⟩ := by decide

/-- Transform layer, the code's algorithm (clause "the output matches the input", structure of celt/mdct.c:122-264):
    **clt_mdct_forward_c computes the MDCT.**  `forwardR` transcribes the C function over ℝ — the three window/fold
    loops, the pre-rotation by `trig[i] = cos(2π(i+1/8)/N)`, the N/4-point complex FFT taken as the DFT it computes
    (`dftRe`/`dftIm`, see `fft_is_dft`), the post-rotation and output interleaving.  For every transform size
    `N = 4Q`, every overlap `4q ≤ N/2` (the C code needs 4 | overlap), every window table, input and scale:
    output coefficient `m` is `scale ·` the textbook MDCT (the `mdct` of `mdct_tdac`) of the input placed in a block of
    `N` samples under the zero / rise / one / fall / zero window. -/
theorem mdct_forward_code (Q q : ℕ) (hQ : 0 < Q) (hq : 2 * q ≤ Q) (w inp : ℕ → ℝ) (scale : ℝ) (m : ℕ) (hm : m < 2 * Q) :
    forwardR (4 * Q) (4 * q) w inp scale m = scale * mdct (2 * Q) (blockR (2 * Q) (4 * q) w inp) m :=
  forward_eq_mdct Q q hQ hq w inp scale m hm

/-- The shapes of the static mode (N = 1920·2^-shift, overlap 120) satisfy the hypotheses. -/
example : ∀ Q ∈ [480, 240, 120, 60], 0 < Q ∧ 2 * 30 ≤ Q ∧ 4 * Q ∈ [1920, 960, 480, 240] ∧ 4 * 30 = overlap := by decide

/-- What "FFT" means in `mdct_forward_code` / `mdct_backward_code`: `dftRe`/`dftIm` are the real and imaginary part of
    the complex DFT `F_k = Σ_j (re_j + i·im_j)·exp(−2πi·jk/n)`. -/
theorem fft_is_dft (n : ℕ) (re im : ℕ → ℝ) (k : ℕ) :
    ((dftRe n re im k : ℂ) + (dftIm n re im k : ℂ) * Complex.I)
      = ∑ j ∈ Finset.range n, ((re j : ℂ) + (im j : ℂ) * Complex.I)
          * Complex.exp (-(2 * Real.pi * ((j * k : ℕ) : ℝ) / n : ℝ) * Complex.I) :=
  dft_complex n re im k

/-- **clt_mdct_backward_c computes the IMDCT with windowed overlap-add** (celt/mdct.c:268-371): `backwardR`
    transcribes the C function over ℝ (pre-rotation with swapped parts, DFT, post-rotation and de-shuffle, the
    "mirror on both sides for TDAC" loop).  For every `N = 4Q` and overlap `2h ≤ N/2`: (a) the post-rotation writes
    `IMDCT(X)[N/4 + n]` at `out[overlap/2 + n]`; (b) the samples `out[N/2 + i]`, `i < overlap/2`, are left as the
    un-mirrored tail `IMDCT(X)[3Q − h + i]`; (c) if `out[0 .. overlap/2)` holds the tail of the previous call, then
    after the call `out[t] = W(t+z)·IMDCT(X)[t+z] + W(t+z+M)·IMDCT(Xprev)[t+z+M]` for all `t < M = N/2`. -/
theorem mdct_backward_code (Q h : ℕ) (hQ : 0 < Q) (hh : h ≤ Q) (w X Xprev old : ℕ → ℝ) :
    (∀ n, n < 2 * Q → backwardRaw (4 * Q) X n = imdct (2 * Q) X (Q + n)) ∧
    (∀ i, i < h → backwardR (4 * Q) (2 * h) w X old (2 * Q + i) = imdct (2 * Q) X (3 * Q - h + i)) ∧
    ((∀ i, i < h → old i = imdct (2 * Q) Xprev (3 * Q - h + i)) →
      ∀ t, t < 2 * Q → backwardR (4 * Q) (2 * h) w X old t
        = extWindow (2 * Q) (2 * h) w (t + (Q - h)) * imdct (2 * Q) X (t + (Q - h))
          + extWindow (2 * Q) (2 * h) w (t + (Q - h) + 2 * Q) * imdct (2 * Q) Xprev (t + (Q - h) + 2 * Q)) :=
  ⟨fun n hn => backwardRaw_eq_imdct Q hQ X n hn, fun i hi => backward_tail Q h hQ hh w X old i hi,
   fun hold t ht => backward_overlap_add Q h hQ hh w X Xprev old hold t ht⟩

example : (0 : ℕ) < 60 ∧ 60 ≤ 60 ∧ 2 * 60 = overlap := by decide

/-- **The code reconstructs its input** (transform layer of "decode(encode(x)) = x", exact arithmetic): run
    clt_mdct_forward_c (scale `1/(N/4)` = the code's `st->scale`) on two consecutive frames of any signal `x`, then
    clt_mdct_backward_c on the first result into any buffer and on the second result into the buffer `N/2` samples
    further (as celt_decoder.c does).  With a power-complementary short window, every one of the `N/2` samples of the
    second call's frame is exactly the input sample, delayed by `z = (N/2 − overlap)/2` relative to the buffer start —
    for every `N = 4Q`, overlap `4q ≤ N/2`, signal and initial buffer content. -/
theorem mdct_code_roundtrip (Q q : ℕ) (hQ : 0 < Q) (hq : 2 * q ≤ Q) (w x old0 : ℕ → ℝ)
    (hpb : ∀ i, i < 4 * q → w i ^ 2 + w (4 * q - 1 - i) ^ 2 = 1) (s t : ℕ) (ht : t < 2 * Q) :
    let z := Q - 2 * q
    let scale : ℝ := 1 / (Q : ℝ)
    let Xa := forwardR (4 * Q) (4 * q) w (fun j => x (s + z + j)) scale
    let Xb := forwardR (4 * Q) (4 * q) w (fun j => x (s + 2 * Q + z + j)) scale
    let bufA := backwardR (4 * Q) (4 * q) w Xa old0
    let bufB := backwardR (4 * Q) (4 * q) w Xb (fun i => bufA (2 * Q + i))
    bufB t = x (s + 2 * Q + z + t) :=
  celt_code_tdac Q q hQ hq w x old0 hpb s t ht

/-- Non-vacuity: a power-complementary short window exists for every overlap. -/
example (q : ℕ) : ∃ w : ℕ → ℝ, ∀ i, i < 4 * q → w i ^ 2 + w (4 * q - 1 - i) ^ 2 = 1 :=
  ⟨fun _ => Real.sqrt (1 / 2), fun _ _ => by
    have : Real.sqrt (1 / 2) ^ 2 = 1 / 2 := Real.sq_sqrt (by norm_num)
    simp only [this]; norm_num⟩

/-- The same for the static CELT mode with the **regenerated window table**: for N = 1920, 960, 480, 240
    (`Q = N/4 ≥ 60`, overlap 120) the code's forward → backward returns every sample within 2⁻²³ relative. -/
theorem celt_code_roundtrip_window (Q : ℕ) (hQ : 60 ≤ Q) (x old0 : ℕ → ℝ) (s t : ℕ) (ht : t < 2 * Q) :
    let z := Q - 60
    let scale : ℝ := 1 / (Q : ℝ)
    let Xa := forwardR (4 * Q) 120 windowR (fun j => x (s + z + j)) scale
    let Xb := forwardR (4 * Q) 120 windowR (fun j => x (s + 2 * Q + z + j)) scale
    let bufA := backwardR (4 * Q) 120 windowR Xa old0
    let bufB := backwardR (4 * Q) 120 windowR Xb (fun i => bufA (2 * Q + i))
    |bufB t - x (s + 2 * Q + z + t)| ≤ 1 / 2 ^ 23 * |x (s + 2 * Q + z + t)| :=
  celt_code_tdac_window Q hQ x old0 s t ht

example : overlap = 120 ∧ mdctN = 1920 ∧ mdctMaxShift = 3 := by decide

end OpusProps.C04
