import OpusProofs.DecSkelMsDur
import OpusProps.C10
/-
  OpusProps.EndToEndMs — multistream encode → decode duration (owner: C01).

  Composition of C10's `ms_encode_packet_structure_skel` (the multistream encoder with the single-stream encoder
  skeleton in every stream produces `n` serialised valid packets of the common `frame_size`, which
  `opus_multistream_packet_validate` accepts with that duration; imported read-only) with C01's
  `msDecodeFull_duration_spec` (the multistream decoder with the real per-stream decoder skeleton returns exactly the
  validated duration and sets every stream's `last_packet_duration` to it).
-/
namespace OpusProps.EndToEndMs
open Opus Opus.Framing Opus.DecSkel Opus.LayoutSpec

/-- **ms_encode_decode_duration_contract.**  The composition for ANY per-stream encoder within C10's contract
    (`MsEncode.EncContract`: a success is a valid standard-framing packet of the common `frame_size`, at most `curr_max`
    bytes, padding without extensions; `EncTotal`: no fault): whatever packet `out` the multistream encoder returns, the
    multistream decoder with `n` streams at the same rate — decoder invariant, any layout, any DSP oracle behaviour within
    the decoder contracts — given `out` with `decode_fec = 0` and room for `frame_size ≥ fsz` samples per channel returns
    exactly `fsz` and every stream reports `fsz` as its last packet duration. -/
theorem ms_encode_decode_duration_contract (n : Nat) (hn : 1 ≤ n) (fs : Nat) (hfs : Rate fs) (fsz : Nat) (hpos : 0 < fsz)
    (vbr : Bool) (bitrate : Option Int) (maxData : Int) (enc : Nat → Int → Res Bytes)
    (hc : MsEncode.EncContract fs fsz enc) (ht : MsEncode.EncTotal enc) (out : Bytes)
    (henc : MsEncode.encodeNative n fs fsz vbr bitrate maxData enc = .ok out) (hbytes : BytesOk out)
    (os : Nat → Oracle) (hos : ∀ s, OracleOk (os s)) (l : Layout.ChannelLayout) (hl : l.nbStreams = n)
    (dsts : List DecState) (hdsts : ∀ st ∈ dsts, DecInv st ∧ st.Fs = (fs : Int)) (hdn : dsts.length = n)
    (frame_size : Int) (hroom : (fsz : Int) ≤ frame_size) (sc : Bool) :
    (msDecodeFull os l fs dsts out out.length frame_size 0 sc).ret = .ret (fsz : Int) ∧
    (msDecodeFull os l fs dsts out out.length frame_size 0 sc).sts.length = n ∧
    ∀ st ∈ (msDecodeFull os l fs dsts out out.length frame_size 0 sc).sts, st.last_packet_duration = (fsz : Int) := by
  obtain ⟨ps, hlen, hval, _, hser, _, _, hv⟩ :=
    (OpusProps.C10.ms_encode_packet_structure n hn fs fsz hfs vbr bitrate maxData enc hc ht).1 out henc
  have hFs : FsOk (fs : Int) := by unfold Rate at hfs; unfold FsOk; omega
  have hne : ps ≠ [] := by intro h; rw [h] at hlen; simp at hlen; omega
  have hge := Layout.msSerialize_length_ge ps hne hval
  rw [← hser, hlen] at hge
  have hlenpos : (0 : Int) < (out.length : Int) := by omega
  have h := msDecodeFull_duration_spec hos l (by omega) (fs : Int) hFs dsts hdsts (by omega) out hbytes (out.length : Int) frame_size
    ⟨hlenpos, Int.le_refl _⟩ sc fsz
    (by simp only [Int.toNat_natCast, List.take_length]; rw [hl]; exact hv) ⟨hpos, hroom⟩
  rw [hl] at h
  exact h

/-- **ms_encode_decode_duration.**  …with the single-stream encoder skeleton of C02/C05 in every stream (C10's
    `ms_encode_packet_structure_skel`): any per-stream encoder states at rate `fs`, any inner SILK / CELT / analysis oracle
    answers within the skeleton's contracts (`SkelOk`), any frame payloads.  `BytesOk out` (every element of the packet is a
    byte) is an hypothesis: C10's encoder model does not constrain the payload bytes; `Opus.DecSkel.msSerialize_bytesOk`
    gives it from `out = msSerialize ps` when the frame and padding bytes are bytes. -/
theorem ms_encode_decode_duration (n : Nat) (hn : 1 ≤ n) (fs : Nat) (hfs : Rate fs) (fsz : Int) (hpos : 0 < fsz)
    (vbr : Bool) (bitrate : Option Int) (maxData : Int)
    (ests : Nat → EncSkel.St) (hfsAll : ∀ s, (ests s).fs = (fs : Int)) (fuzz : Bool)
    (ors : Nat → Int → EncSkel.NatOr) (frs : Nat → Int → List Bytes) (hok : MsEncode.SkelOk ests fuzz fsz ors frs)
    (out : Bytes)
    (henc : MsEncode.encodeNative n fs fsz.toNat vbr bitrate maxData (MsEncode.skelEnc ests fuzz fsz ors frs) = .ok out)
    (hbytes : BytesOk out)
    (os : Nat → Oracle) (hos : ∀ s, OracleOk (os s)) (l : Layout.ChannelLayout) (hl : l.nbStreams = n)
    (dsts : List DecState) (hdsts : ∀ st ∈ dsts, DecInv st ∧ st.Fs = (fs : Int)) (hdn : dsts.length = n)
    (frame_size : Int) (hroom : fsz ≤ frame_size) (sc : Bool) :
    (msDecodeFull os l fs dsts out out.length frame_size 0 sc).ret = .ret fsz ∧
    (msDecodeFull os l fs dsts out out.length frame_size 0 sc).sts.length = n ∧
    ∀ st ∈ (msDecodeFull os l fs dsts out out.length frame_size 0 sc).sts, st.last_packet_duration = fsz := by
  have hk : (fsz.toNat : Int) = fsz := by omega
  have h := ms_encode_decode_duration_contract n hn fs hfs fsz.toNat (by omega) vbr bitrate maxData _
    (MsEncode.skelEnc_contract ests fuzz fsz ors frs fs hfsAll hok) (MsEncode.skelEnc_total ests fuzz fsz ors frs) out henc hbytes
    os hos l hl dsts hdsts hdn frame_size (by omega) sc
  rw [hk] at h
  exact h

/-- Non-vacuity of the composition: two streams at 48 kHz, a per-stream encoder that emits the 20 ms CELT packet
    `F8 07 07` whenever it has room (C10's example encoder) meets `EncContract 48000 960` and `EncTotal`; VBR, 100 bytes;
    the decoder side is instantiated with freshly initialised stereo + mono stream decoders and three output channels.
    All hypotheses of `ms_encode_decode_duration_contract` are discharged except the equation
    `encodeNative … = .ok out` itself: C10's executable model of the multistream encoder (repacketizer with arrays) does not
    reduce in the kernel, `#eval` gives `out = F8 02 07 07 F8 07 07` (and C10's `msenc` correspondence suite runs the model
    on such encoders); the second example decodes exactly that byte string.  The skeleton version additionally needs
    `SkelOk`, which quantifies over every `curr_max`; C10 instantiates the skeleton for one budget
    (`OpusProps.C10.exSkelOr`). -/
example (out : Bytes)
    (henc : MsEncode.encodeNative 2 48000 960 true none 100
      (fun _ cm => if 3 ≤ cm then .ok (Opus.FramingSpec.serialize false ⟨0xF8, [[7, 7]], false, none⟩) else .err .bufferTooSmall) = .ok out)
    (hbytes : BytesOk out) :
    ∃ st1 st2, init 48000 2 = some st1 ∧ init 48000 1 = some st2 ∧
      (msDecodeFull (fun _ => exOracle) ⟨3, 2, 1, [0, 1, 2]⟩ 48000 [st1, st2] out out.length 960 0 false).ret = .ret 960 := by
  have hv : Opus.FramingSpec.Valid ⟨0xF8, [[7, 7]], false, none⟩ :=
    { toc_byte := by decide
      frame_max := by intro f hf; simp only [List.mem_singleton] at hf; subst hf; decide
      code0 := fun _ => ⟨rfl, rfl, rfl⟩
      code1 := fun h => absurd h (by decide)
      code2 := fun h => absurd h (by decide)
      code3 := fun h => absurd h (by decide)
      pad_ok := fun pd h => by cases h }
  have hc : MsEncode.EncContract 48000 960
      (fun _ cm => if 3 ≤ cm then .ok (Opus.FramingSpec.serialize false ⟨0xF8, [[7, 7]], false, none⟩) else .err .bufferTooSmall) := by
    intro s cm pk h
    dsimp only at h
    split at h
    · cases h
      exact ⟨_, hv, RepackProofs.count_nil 1 (by decide), rfl, by decide,
        by simpa [Opus.FramingSpec.serialize, Opus.FramingSpec.header, Opus.FramingSpec.lenFields, Opus.FramingSpec.Packet.code,
          Opus.FramingSpec.Packet.lens, Opus.FramingSpec.padBytes] using (by assumption : 3 ≤ cm)⟩
    · cases h
  have ht : MsEncode.EncTotal
      (fun _ cm => if 3 ≤ cm then .ok (Opus.FramingSpec.serialize false ⟨0xF8, [[7, 7]], false, none⟩) else .err .bufferTooSmall) := by
    intro s cm; constructor <;> intro h <;> dsimp only at h <;> split at h <;> cases h
  refine ⟨_, _, rfl, rfl, ?_⟩
  have h := ms_encode_decode_duration_contract 2 (by decide) 48000 (by unfold Rate; decide) 960 (by decide) true none 100 _ hc ht _ henc
    hbytes (fun _ => exOracle) (fun _ => exOracle_ok) ⟨3, 2, 1, [0, 1, 2]⟩ rfl [_, _]
    (fun x hx => by
      simp only [List.mem_cons, List.mem_nil_iff, or_false] at hx
      rcases hx with rfl | rfl
      · exact ⟨init_inv (fs := 48000) (ch := 2) rfl, rfl⟩
      · exact ⟨init_inv (fs := 48000) (ch := 1) rfl, rfl⟩) rfl 960 (by decide) false
  exact h.1

/-- …and the packet that encoder produces, `F8 02 07 07 | F8 07 07`, validates to 960 samples and decodes to 960. -/
example : Layout.msPacketValidate [0xF8, 2, 7, 7, 0xF8, 7, 7] 2 48000 = .ok 960 ∧
    ∃ st1 st2, init 48000 2 = some st1 ∧ init 48000 1 = some st2 ∧
      (msDecodeFull (fun _ => exOracle) ⟨3, 2, 1, [0, 1, 2]⟩ 48000 [st1, st2] [0xF8, 2, 7, 7, 0xF8, 7, 7] 7 960 0 false).ret = .ret 960 := by
  refine ⟨by decide +kernel, _, _, rfl, rfl, ?_⟩
  exact (msDecodeFull_duration_spec (fun _ => exOracle_ok) ⟨3, 2, 1, [0, 1, 2]⟩ (by decide) 48000 (by decide) [_, _]
    (fun x hx => by
      simp only [List.mem_cons, List.mem_nil_iff, or_false] at hx
      rcases hx with rfl | rfl
      · exact ⟨init_inv (fs := 48000) (ch := 2) rfl, rfl⟩
      · exact ⟨init_inv (fs := 48000) (ch := 1) rfl, rfl⟩) rfl
    [0xF8, 2, 7, 7, 0xF8, 7, 7] (by decide) 7 960 (by decide) false 960 (by decide +kernel) (by decide)).1

end OpusProps.EndToEndMs
