import OpusProofs.DecSkelMsDur
import OpusProps.C10
/-
  OpusProps.EndToEndMs — multistream encode → decode duration (owner: C01).

  Composition of C10's `ms_encode_packet_structure_skel` (the multistream encoder with the single-stream encoder
  skeleton in every stream produces `n` serialised valid packets of the common `frame_size`, which
  `opus_multistream_packet_validate` accepts with that duration; imported read-only) with C01's
  `msDecodeFull_duration_spec` (the multistream decoder with the real per-stream decoder skeleton returns exactly the
  validated duration and sets every stream's `last_packet_duration` to it).
-/
namespace OpusProps.EndToEndMs
open Opus Opus.Framing Opus.DecSkel Opus.LayoutSpec

/-- **ms_encode_decode_duration.**  Whatever the multistream encoder (`n ≥ 1` streams at API rate `fs`, frame size
    `fsz > 0`, any CBR / VBR / bitrate setting, any per-stream encoder states, any inner SILK / CELT / analysis oracle
    answers within the encoder skeleton's contracts, any frame payloads) returns as a packet `out`, the multistream
    decoder with `n` streams at the same rate — per-stream decoder states satisfying the decoder invariant, any channel
    layout / mapping, any DSP oracle behaviour within the decoder contracts — given that packet with `decode_fec = 0` and
    a buffer of `frame_size ≥ fsz` samples per channel, returns exactly `fsz` (never an error), and every stream decoder
    reports `fsz` as its last packet duration.  `BytesOk out` (every element of the packet is a byte) is an hypothesis:
    C10's encoder model does not constrain the payload bytes; `Opus.DecSkel.msSerialize_bytesOk` gives it from
    `out = msSerialize ps` when the frame and padding bytes are bytes. -/
theorem ms_encode_decode_duration (n : Nat) (hn : 1 ≤ n) (fs : Nat) (hfs : Rate fs) (fsz : Int) (hpos : 0 < fsz)
    (vbr : Bool) (bitrate : Option Int) (maxData : Int)
    (ests : Nat → EncSkel.St) (hfsAll : ∀ s, (ests s).fs = (fs : Int)) (fuzz : Bool)
    (ors : Nat → Int → EncSkel.NatOr) (frs : Nat → Int → List Bytes) (hok : MsEncode.SkelOk ests fuzz fsz ors frs)
    (out : Bytes)
    (henc : MsEncode.encodeNative n fs fsz.toNat vbr bitrate maxData (MsEncode.skelEnc ests fuzz fsz ors frs) = .ok out)
    (hbytes : BytesOk out)
    (os : Nat → Oracle) (hos : ∀ s, OracleOk (os s)) (l : Layout.ChannelLayout) (hl : l.nbStreams = n)
    (dsts : List DecState) (hdsts : ∀ st ∈ dsts, DecInv st ∧ st.Fs = (fs : Int)) (hdn : dsts.length = n)
    (frame_size : Int) (hroom : fsz ≤ frame_size) (sc : Bool) :
    (msDecodeFull os l fs dsts out out.length frame_size 0 sc).ret = .ret fsz ∧
    (msDecodeFull os l fs dsts out out.length frame_size 0 sc).sts.length = n ∧
    ∀ st ∈ (msDecodeFull os l fs dsts out out.length frame_size 0 sc).sts, st.last_packet_duration = fsz := by
  obtain ⟨ps, hlen, hval, _, hser, _, _, hv⟩ :=
    (OpusProps.C10.ms_encode_packet_structure_skel n hn fs hfs fsz vbr bitrate maxData ests hfsAll fuzz ors frs hok).1 out henc
  have hFs : FsOk (fs : Int) := by unfold Rate at hfs; unfold FsOk; omega
  have hne : ps ≠ [] := by intro h; rw [h] at hlen; simp at hlen; omega
  have hge := Layout.msSerialize_length_ge ps hne hval
  rw [← hser, hlen] at hge
  have hk : (fsz.toNat : Int) = fsz := by omega
  have hlenpos : (0 : Int) < (out.length : Int) := by omega
  have h := msDecodeFull_duration_spec hos l (by omega) (fs : Int) hFs dsts hdsts (by omega) out hbytes (out.length : Int) frame_size
    ⟨hlenpos, Int.le_refl _⟩ sc fsz.toNat
    (by simp only [Int.toNat_natCast, List.take_length]; rw [hl]; exact hv) ⟨by omega, by omega⟩
  rw [hk, hl] at h
  exact h

end OpusProps.EndToEndMs
