import OpusModel.Framing
namespace OpusProps.C06
open Opus Opus.Framing
theorem placeholder : parseImpl false [] = .err .invalidPacket := rfl
end OpusProps.C06
