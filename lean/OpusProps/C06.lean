import OpusProofs.FramingSafe
import OpusProofs.FramingRange
/-
  Property C06 — "Packet parser accepts exactly RFC 6716 framing and reports the true frames".

  Model:  `Opus.Framing.parseImpl`   (transcription of `opus_packet_parse_impl`, src/opus.c:194-353)
  Spec:   `Opus.FramingSpec`         (`Packet`, `serialize`, `Valid`, `view`: RFC 6716 §3 + App. B)
  Every theorem below quantifies over ALL byte strings / ALL packets, in BOTH framings
  (`sd = false`: standard, `sd = true`: self-delimited).
-/
namespace OpusProps.C06
open Opus Opus.Framing Opus.FramingSpec Opus.FramingProofs

/-- Completeness ("if" direction): every packet satisfying the RFC framing rules R1–R7, written out
    as the RFC prescribes, is accepted, and the reported TOC, frame count, frame sizes, payload
    offset, padding length and consumed length are exactly those of the packet.  In self-delimited
    framing any bytes may follow (the next stream's packet). -/
theorem parse_complete (sd : Bool) (p : Packet) (hv : Valid p) (rest : Bytes)
    (hrest : sd = false → rest = []) :
    parseImpl sd (serialize sd p ++ rest) = .ok (view sd p) :=
  FramingProofs.parse_complete sd p hv rest hrest

/-- Soundness ("only if" direction): whatever byte string is accepted is the serialisation of an
    RFC-valid packet (followed by unconsumed bytes only in the self-delimited framing), and what
    the parser reports is that packet's view. -/
theorem parse_sound (sd : Bool) (bs : Bytes) (hb : BytesOk bs) (r : Parsed)
    (h : parseImpl sd bs = .ok r) :
    ∃ p rest, Valid p ∧ bs = serialize sd p ++ rest ∧ (sd = false → rest = []) ∧ r = view sd p :=
  FramingProofs.parse_sound sd bs hb r h

/-- Accepted **iff** RFC-valid (standard framing), as one statement. -/
theorem parse_accepts_iff (bs : Bytes) (hb : BytesOk bs) :
    (∃ r, parseImpl false bs = .ok r) ↔ (∃ p, Valid p ∧ bs = serialize false p) := by
  constructor
  · rintro ⟨r, h⟩
    obtain ⟨p, rest, hv, hbs, hr, _⟩ := FramingProofs.parse_sound false bs hb r h
    exact ⟨p, hv, by rw [hbs, hr rfl]; simp⟩
  · rintro ⟨p, hv, hbs⟩
    exact ⟨view false p, by
      have := FramingProofs.parse_complete false p hv [] (fun _ => rfl)
      simpa [hbs] using this⟩

/-- Accepted **iff** it starts with an RFC-valid self-delimited packet (Appendix B framing). -/
theorem parse_accepts_iff_sd (bs : Bytes) (hb : BytesOk bs) :
    (∃ r, parseImpl true bs = .ok r) ↔ (∃ p rest, Valid p ∧ bs = serialize true p ++ rest) := by
  constructor
  · rintro ⟨r, h⟩
    obtain ⟨p, rest, hv, hbs, _, _⟩ := FramingProofs.parse_sound true bs hb r h
    exact ⟨p, rest, hv, hbs⟩
  · rintro ⟨p, rest, hv, hbs⟩
    exact ⟨view true p, by
      have := FramingProofs.parse_complete true p hv rest (fun h => by cases h)
      rw [hbs]; exact this⟩

/-- Everything reported lies inside the input: at most 48 frames, each at most 1275 bytes, the
    frames and the padding end at the reported consumed length, which does not exceed the input. -/
theorem parse_in_bounds (sd : Bool) (bs : Bytes) (hb : BytesOk bs) (r : Parsed)
    (h : parseImpl sd bs = .ok r) :
    r.count = r.sizes.length ∧ 1 ≤ r.count ∧ r.count ≤ 48 ∧ (∀ s ∈ r.sizes, s ≤ 1275) ∧
    r.padOffset + r.padLen = r.packetOffset ∧ r.packetOffset ≤ bs.length ∧
    (sd = false → r.packetOffset = bs.length) := by
  obtain ⟨p, rest, hv, hbs, hr, hview⟩ := FramingProofs.parse_sound sd bs hb r h
  subst hview
  have hF : sumN p.lens = p.frames.flatten.length := sumN_map_length _
  have hlen : (serialize sd p).length = (header sd p).length + p.frames.flatten.length + (padBytes p).length := by
    simp [serialize]; omega
  have hcnt : 1 ≤ p.frames.length ∧ p.frames.length ≤ 48 := by
    have h4 : p.toc % 4 < 4 := Nat.mod_lt _ (by decide)
    have hcases : p.code = 0 ∨ p.code = 1 ∨ p.code = 2 ∨ p.code = 3 := by unfold Packet.code; omega
    rcases hcases with hc | hc | hc | hc
    · have := (hv.code0 hc).1; omega
    · have := (hv.code1 hc).1; omega
    · have := (hv.code2 hc).1; omega
    · obtain ⟨h1, h2, _⟩ := hv.code3 hc
      have hge := frameDur48_ge p.toc (List.mem_range.mpr hv.toc_byte)
      refine ⟨h1, ?_⟩
      apply Decidable.byContradiction; intro hgt
      have : 120 * 49 ≤ frameDur48 p.toc * p.frames.length := Nat.mul_le_mul hge (by omega)
      omega
  refine ⟨by simp [view, Packet.lens], hcnt.1, hcnt.2, ?_, ?_, ?_, ?_⟩
  · intro s hs
    simp [view, Packet.lens] at hs
    obtain ⟨f, hf, hfl⟩ := hs
    rw [← hfl]; exact hv.frame_max f hf
  · simp only [view, Parsed.padOffset]; rw [hF, hlen]
  · simp only [view]; rw [hbs]; simp
  · intro hsd; simp only [view]; rw [hbs, hr hsd]; simp

/-- "Reads only the packet": on EVERY byte string, in both framings, the parser never needs a byte
    outside the supplied buffer and trips no assertion. -/
theorem parse_reads_only_packet (sd : Bool) (bs : Bytes) :
    parseImpl sd bs ≠ .oob ∧ parseImpl sd bs ≠ .abort := by
  have := parseImpl_nofault sd bs
  constructor <;> intro h <;> rw [h] at this <;> simp [fault] at this

/-- Failures are `OPUS_INVALID_PACKET` (or `OPUS_BAD_ARG` for a negative length), never anything else. -/
theorem parse_err_kind (sd : Bool) (bs : Bytes) (len : Int) (e : Err)
    (h : parseImplLen sd bs len = .err e) : e = .invalidPacket ∨ (e = .badArg ∧ len < 0) := by
  unfold parseImplLen at h
  split at h
  · rename_i hl; simp at h; exact Or.inr ⟨h.symm, hl⟩
  · left
    generalize bs.take len.toNat = b at h
    exact FramingProofs.parseImpl_err_invalid sd b e h

/-- `encode_size` (used by the repacketizer and the encoder) writes the RFC length coding. -/
theorem encodeSize_eq_spec (n : Nat) : encodeSize n = encLen n := rfl

/-- The TOC helpers agree with the spec's reading of the TOC for every TOC byte:
    frame duration (Table 2), channel count, and the three modes partition the configs. -/
theorem helpers_agree : ∀ toc ∈ List.range 256,
    samplesPerFrame toc 48000 = frameDur48 toc ∧
    getNbChannels toc = (if toc / 4 % 2 = 1 then 2 else 1) ∧
    (getMode toc = MODE_SILK_ONLY ↔ toc / 8 % 32 < 12) ∧
    (getMode toc = MODE_HYBRID ↔ 12 ≤ toc / 8 % 32 ∧ toc / 8 % 32 < 16) ∧
    (getMode toc = MODE_CELT_ONLY ↔ 16 ≤ toc / 8 % 32) ∧
    1101 ≤ getBandwidth toc ∧ getBandwidth toc ≤ 1105 ∧
    (∀ fs ∈ [8000, 12000, 16000, 24000, 48000], samplesPerFrame toc fs * (48000 / fs) = samplesPerFrame toc 48000) := by
  decide +kernel

/-- On every accepted packet the frame-count helper reports the parser's frame count. -/
theorem nb_frames_agrees (bs : Bytes) (hb : BytesOk bs) (r : Parsed) (h : parseImpl false bs = .ok r) :
    getNbFrames bs = .ok r.count :=
  FramingProofs.getNbFrames_agrees bs hb r h

/-- The LBRR-flag helper (as repaired by the `fix:` commit 718d801e) reads only the packet, for every
    byte string.  For the code before the repair this statement is false: `hasLbrr [0x08]` had to
    read `frames[0][0]` of an empty frame. -/
theorem has_lbrr_reads_only_packet (bs : Bytes) (hb : BytesOk bs) :
    hasLbrr bs ≠ .oob ∧ hasLbrr bs ≠ .abort := by
  have := FramingProofs.hasLbrr_nofault bs hb
  constructor <;> intro h <;> rw [h] at this <;> simp [fault] at this

/-! ### Non-vacuity: concrete packets satisfy the hypotheses -/

/-- A 3-frame code-3 VBR packet (CELT 20 ms) with a two-link padding chain is `Valid`. -/
def exPad : Pad := { n255 := 1, last := 2, bytes := List.replicate 256 0 }
def exPacket : Packet :=
  { toc := 0xFB, frames := [[1, 2, 3], [], List.replicate 300 7], vbr := true, pad := some exPad }

example : parseImpl false (serialize false exPacket) = .ok (view false exPacket) := by decide +kernel
example : parseImpl true (serialize true exPacket ++ [9, 9]) = .ok (view true exPacket) := by decide +kernel
example : (view true exPacket).sizes = [3, 0, 300] ∧ (view true exPacket).padLen = 256 := by decide +kernel
/-- and a rejected one: code 1 with an odd payload. -/
example : parseImpl false [0x01, 1, 2, 3] = .err .invalidPacket := by decide +kernel


/-! ### `int_ranges`: the unbounded `Int` arithmetic of the model hides no C overflow -/

/-- `int_ranges`, 32-bit half.  For EVERY packet of fewer than 2^31 bytes (every `len` the
    `opus_int32` parameter can hold), in both framings, on every path — accepted or rejected early —
    every `int` / `opus_int32` value that `opus_packet_parse_impl` computes fits 32 bits:
    `implTrace sd bs` lists them in program order (`framesize`, `len--`, `len&1`, `len/2`, each
    `len -= bytes`, `len - size[0]`, `framesize*count`, in the padding loop `len--`, `len -= tmp`,
    `pad += tmp`, in the VBR loop `bytes + size[i]` and `last_size -= …`, `len/count`,
    `last_size*count`, `size[count-1]*count`, `bytes + size[count-1]`, `data - data0`, every
    `data += size[i]`, `pad + (data - data0)`).  The tight spots: `len - 1 - tmp ≥ -254` and
    `pad ≤ 254·(len + 254)/255 < 2^31` in the padding loop (invariant `255·pad ≤ 254·(len₀ - len)`). -/
theorem int_ranges (sd : Bool) (bs : Bytes) (hb : BytesOk bs) (hl : bs.length ≤ 2147483647) :
    ∀ v ∈ implTrace sd bs, FramingProofs.I32 v :=
  implTrace_range sd bs hb hl

example : implTrace false [0xFB, 0xC3, 2, 1, 0, 9, 9, 9, 9, 0, 0] =
    [960, 10, 2880, 9, 8, 6, 2, 1, 5, 2, 4, 0, 4, 1, 3, 5, 5, 6, 6, 9, 2, 11] ∧
    implTrace true [0x03, 0x42, 255, 3, 2, 7, 7, 8, 8] = [480, 8, 960, 7, 6, -248, 254] := by decide +kernel

/-- `int_ranges`, `opus_int16` half.  Whenever the parse SUCCEEDS, every explicit `(opus_int16)`
    store into `size[]` is lossless: the cast operands (`castStores`: `last_size` at src/opus.c:232,
    :299-300, :330) lie in `[0, 1275]`; all other stores into `size[]` are made by `parse_size`, whose
    stored value is always -1 or at most 1275, or copy an `opus_int16`. -/
theorem int16_stores_lossless (sd : Bool) (bs : Bytes) (hb : BytesOk bs) (r : Parsed)
    (h : parseImpl sd bs = .ok r) :
    (∀ v ∈ castStores sd bs, 0 ≤ v ∧ v ≤ 1275) ∧
    (∀ data len bytes sz, BytesOk data → parseSize data len = .ok (bytes, sz) → -1 ≤ sz ∧ sz ≤ 1275) :=
  ⟨castStores_lossless sd bs hb r h,
   fun data len bytes sz hd hp => ⟨(parseSize_range data hd len bytes sz hp).1, (parseSize_range data hd len bytes sz hp).2.1⟩⟩

example : castStores false [0xFB, 0x03, 1, 2, 3, 4, 5, 6] = [2, 2, 2] ∧
    parseImpl false [0xFB, 0x03, 1, 2, 3, 4, 5, 6] =
      .ok { toc := 0xFB, count := 3, sizes := [2, 2, 2], payloadOffset := 2, padLen := 0, packetOffset := 8 } := by
  decide +kernel

/-- What is stored on the failure paths that return early.  The stores of src/opus.c:232 (code 1) and
    :299-300 (code-3 CBR) happen BEFORE `last_size > 1275` is tested, so for a huge packet `size[i]`
    receives the low 16 bits of `last_size` (up to `len/2`); whenever a cast operand does not fit
    `opus_int16` the function returns OPUS_INVALID_PACKET (so the truncated `size[]` contents are never
    reported as a success) — the C comment "If last_size doesn't fit in size[0], we'll catch it later"
    holds.  On all other early returns `size[]` holds only values written by `parse_size` (-1 for a
    failed length field) or nothing. -/
theorem int16_truncated_store_rejected (sd : Bool) (bs : Bytes) (hb : BytesOk bs) (v : Int)
    (hv : v ∈ castStores sd bs) (hbig : ¬ FramingProofs.I16 v) : parseImpl sd bs = .err .invalidPacket :=
  castStores_truncated_rejected sd bs hb v hv hbig

/- a 70001-byte code-1 packet: `size[0]` receives `(opus_int16)35000 = -30536`, the call fails -/
example (data : Bytes) (h : data.length = 70000) :
    castStores false (1 :: data) = [35000] ∧ ¬ FramingProofs.I16 35000 ∧
    parseImpl false (1 :: data) = .err .invalidPacket := by
  refine ⟨?_, by decide, ?_⟩
  · simp [castStores, parseHdr, h]
  · simp [parseImpl, parseHdr, finish, h]

end OpusProps.C06
