import OpusProofs.FramingSafe
import OpusProofs.FramingRange
import OpusProofs.FramingHelpers
import OpusProofs.FramingTraceEq
/-
  Property C06 — "Packet parser accepts exactly RFC 6716 framing and reports the true frames".

  Model:  `Opus.Framing.parseImpl`   (transcription of `opus_packet_parse_impl`, src/opus.c:194-353)
  Spec:   `Opus.FramingSpec`         (`Packet`, `serialize`, `Valid`, `view`: RFC 6716 §3 + App. B)
  Every theorem below quantifies over ALL byte strings / ALL packets, in BOTH framings
  (`sd = false`: standard, `sd = true`: self-delimited).
-/
namespace OpusProps.C06
open Opus Opus.Framing Opus.FramingSpec Opus.FramingProofs

/-- Completeness ("if" direction): every packet satisfying the RFC framing rules R1–R7, written out
    as the RFC prescribes, is accepted, and the reported TOC, frame count, frame sizes, payload
    offset, padding length and consumed length are exactly those of the packet.  In self-delimited
    framing any bytes may follow (the next stream's packet). -/
theorem parse_complete (sd : Bool) (p : Packet) (hv : Valid p) (rest : Bytes)
    (hrest : sd = false → rest = []) :
    parseImpl sd (serialize sd p ++ rest) = .ok (view sd p) :=
  FramingProofs.parse_complete sd p hv rest hrest

/-- Soundness ("only if" direction): whatever byte string is accepted is the serialisation of an
    RFC-valid packet (followed by unconsumed bytes only in the self-delimited framing), and what
    the parser reports is that packet's view. -/
theorem parse_sound (sd : Bool) (bs : Bytes) (hb : BytesOk bs) (r : Parsed)
    (h : parseImpl sd bs = .ok r) :
    ∃ p rest, Valid p ∧ bs = serialize sd p ++ rest ∧ (sd = false → rest = []) ∧ r = view sd p :=
  FramingProofs.parse_sound sd bs hb r h

/-- Accepted **iff** RFC-valid (standard framing), as one statement. -/
theorem parse_accepts_iff (bs : Bytes) (hb : BytesOk bs) :
    (∃ r, parseImpl false bs = .ok r) ↔ (∃ p, Valid p ∧ bs = serialize false p) := by
  constructor
  · rintro ⟨r, h⟩
    obtain ⟨p, rest, hv, hbs, hr, _⟩ := FramingProofs.parse_sound false bs hb r h
    exact ⟨p, hv, by rw [hbs, hr rfl]; simp⟩
  · rintro ⟨p, hv, hbs⟩
    exact ⟨view false p, by
      have := FramingProofs.parse_complete false p hv [] (fun _ => rfl)
      simpa [hbs] using this⟩

/-- Accepted **iff** it starts with an RFC-valid self-delimited packet (Appendix B framing). -/
theorem parse_accepts_iff_sd (bs : Bytes) (hb : BytesOk bs) :
    (∃ r, parseImpl true bs = .ok r) ↔ (∃ p rest, Valid p ∧ bs = serialize true p ++ rest) := by
  constructor
  · rintro ⟨r, h⟩
    obtain ⟨p, rest, hv, hbs, _, _⟩ := FramingProofs.parse_sound true bs hb r h
    exact ⟨p, rest, hv, hbs⟩
  · rintro ⟨p, rest, hv, hbs⟩
    exact ⟨view true p, by
      have := FramingProofs.parse_complete true p hv rest (fun h => by cases h)
      rw [hbs]; exact this⟩

/-- Everything reported lies inside the input: at most 48 frames, each at most 1275 bytes, the
    frames and the padding end at the reported consumed length, which does not exceed the input. -/
theorem parse_in_bounds (sd : Bool) (bs : Bytes) (hb : BytesOk bs) (r : Parsed)
    (h : parseImpl sd bs = .ok r) :
    r.count = r.sizes.length ∧ 1 ≤ r.count ∧ r.count ≤ 48 ∧ (∀ s ∈ r.sizes, s ≤ 1275) ∧
    r.padOffset + r.padLen = r.packetOffset ∧ r.packetOffset ≤ bs.length ∧
    (sd = false → r.packetOffset = bs.length) := by
  obtain ⟨p, rest, hv, hbs, hr, hview⟩ := FramingProofs.parse_sound sd bs hb r h
  subst hview
  have hF : sumN p.lens = p.frames.flatten.length := sumN_map_length _
  have hlen : (serialize sd p).length = (header sd p).length + p.frames.flatten.length + (padBytes p).length := by
    simp [serialize]; omega
  have hcnt : 1 ≤ p.frames.length ∧ p.frames.length ≤ 48 := by
    have h4 : p.toc % 4 < 4 := Nat.mod_lt _ (by decide)
    have hcases : p.code = 0 ∨ p.code = 1 ∨ p.code = 2 ∨ p.code = 3 := by unfold Packet.code; omega
    rcases hcases with hc | hc | hc | hc
    · have := (hv.code0 hc).1; omega
    · have := (hv.code1 hc).1; omega
    · have := (hv.code2 hc).1; omega
    · obtain ⟨h1, h2, _⟩ := hv.code3 hc
      have hge := frameDur48_ge p.toc (List.mem_range.mpr hv.toc_byte)
      refine ⟨h1, ?_⟩
      apply Decidable.byContradiction; intro hgt
      have : 120 * 49 ≤ frameDur48 p.toc * p.frames.length := Nat.mul_le_mul hge (by omega)
      omega
  refine ⟨by simp [view, Packet.lens], hcnt.1, hcnt.2, ?_, ?_, ?_, ?_⟩
  · intro s hs
    simp [view, Packet.lens] at hs
    obtain ⟨f, hf, hfl⟩ := hs
    rw [← hfl]; exact hv.frame_max f hf
  · simp only [view, Parsed.padOffset]; rw [hF, hlen]
  · simp only [view]; rw [hbs]; simp
  · intro hsd; simp only [view]; rw [hbs, hr hsd]; simp

/-- "Reads only the packet": on EVERY byte string, in both framings, the parser never needs a byte
    outside the supplied buffer and trips no assertion. -/
theorem parse_reads_only_packet (sd : Bool) (bs : Bytes) :
    parseImpl sd bs ≠ .oob ∧ parseImpl sd bs ≠ .abort := by
  have := parseImpl_nofault sd bs
  constructor <;> intro h <;> rw [h] at this <;> simp [fault] at this

/-- Failures are `OPUS_INVALID_PACKET` (or `OPUS_BAD_ARG` for a negative length), never anything else. -/
theorem parse_err_kind (sd : Bool) (bs : Bytes) (len : Int) (e : Err)
    (h : parseImplLen sd bs len = .err e) : e = .invalidPacket ∨ (e = .badArg ∧ len < 0) := by
  unfold parseImplLen at h
  split at h
  · rename_i hl; simp at h; exact Or.inr ⟨h.symm, hl⟩
  · left
    generalize bs.take len.toNat = b at h
    exact FramingProofs.parseImpl_err_invalid sd b e h

/-- `encode_size` (used by the repacketizer and the encoder) is, definition for definition, the length coding
    `encLen` that the spec's `serialize` uses (kept for the importers of this name; it carries no RFC content by
    itself — that is `encode_size_roundtrip`). -/
theorem encodeSize_eq_spec (n : Nat) : encodeSize n = encLen n := rfl

/-- RFC 6716 §3.2.1 frame length coding, as content: for every frame length `0 ≤ n ≤ 1275`, `encode_size` writes one
    byte `n` when `n < 252`, otherwise two bytes `b0 ∈ [252, 255]`, `b1 ≤ 255` with `n = 4·b1 + b0`; and `parse_size`
    reads exactly `n` (and the number of bytes written) back, whatever follows. -/
theorem encode_size_roundtrip (n : Nat) (hn : n ≤ 1275) (tail : Bytes) (len : Int)
    (hl : ((encodeSize n).length : Int) ≤ len) :
    parseSize (encodeSize n ++ tail) len = .ok (((encodeSize n).length : Int), (n : Int)) ∧
    (n < 252 → encodeSize n = [n]) ∧
    (252 ≤ n → ∃ b0 b1, encodeSize n = [b0, b1] ∧ 252 ≤ b0 ∧ b0 ≤ 255 ∧ b1 ≤ 255 ∧ n = 4 * b1 + b0) := by
  refine ⟨FramingProofs.parseSize_encLen n hn tail len hl, ?_, ?_⟩
  · intro h; unfold encodeSize; rw [if_pos h]
  · intro h
    refine ⟨252 + n % 4, (n - (252 + n % 4)) / 4, ?_, by omega, by omega, by omega, by omega⟩
    unfold encodeSize; rw [if_neg (by omega)]

example : encodeSize 1275 = [255, 255] ∧ encodeSize 252 = [252, 0] ∧ encodeSize 251 = [251] ∧
    parseSize (encodeSize 1275 ++ [7]) 2 = .ok (2, 1275) := by decide +kernel

/-- The TOC helpers agree with the spec's reading of the TOC for every TOC byte:
    frame duration (Table 2), channel count, and the three modes partition the configs. -/
theorem helpers_agree : ∀ toc ∈ List.range 256,
    samplesPerFrame toc 48000 = frameDur48 toc ∧
    getNbChannels toc = (if toc / 4 % 2 = 1 then 2 else 1) ∧
    (getMode toc = MODE_SILK_ONLY ↔ toc / 8 % 32 < 12) ∧
    (getMode toc = MODE_HYBRID ↔ 12 ≤ toc / 8 % 32 ∧ toc / 8 % 32 < 16) ∧
    (getMode toc = MODE_CELT_ONLY ↔ 16 ≤ toc / 8 % 32) ∧
    1101 ≤ getBandwidth toc ∧ getBandwidth toc ≤ 1105 ∧
    (∀ fs ∈ [8000, 12000, 16000, 24000, 48000], samplesPerFrame toc fs * (48000 / fs) = samplesPerFrame toc 48000) := by
  decide +kernel

/-- RFC 6716 Table 2, written out: for configuration number 0..31 (the top five bits of the TOC byte) the mode
    (1000 SILK-only, 1001 hybrid, 1002 CELT-only — the values of MODE_* in src/opus_private.h), the audio bandwidth
    (OPUS_BANDWIDTH_NARROWBAND 1101, MEDIUMBAND 1102, WIDEBAND 1103, SUPERWIDEBAND 1104, FULLBAND 1105) and the frame
    duration in samples at 48 kHz (120 = 2.5 ms, 240 = 5 ms, 480 = 10 ms, 960 = 20 ms, 1920 = 40 ms, 2880 = 60 ms). -/
def table2 : List (Nat × Nat × Nat) :=
  [
   (1000, 1101, 480), (1000, 1101, 960), (1000, 1101, 1920), (1000, 1101, 2880),
   (1000, 1102, 480), (1000, 1102, 960), (1000, 1102, 1920), (1000, 1102, 2880),
   (1000, 1103, 480), (1000, 1103, 960), (1000, 1103, 1920), (1000, 1103, 2880),
   (1001, 1104, 480), (1001, 1104, 960), (1001, 1105, 480), (1001, 1105, 960),
   (1002, 1101, 120), (1002, 1101, 240), (1002, 1101, 480), (1002, 1101, 960),
   (1002, 1103, 120), (1002, 1103, 240), (1002, 1103, 480), (1002, 1103, 960),
   (1002, 1104, 120), (1002, 1104, 240), (1002, 1104, 480), (1002, 1104, 960),
   (1002, 1105, 120), (1002, 1105, 240), (1002, 1105, 480), (1002, 1105, 960)
  ]

/-- `opus_packet_get_mode`, `opus_packet_get_bandwidth` and `opus_packet_get_samples_per_frame` return, for every
    TOC byte, exactly the Table-2 row of its configuration number; the spec's `frameDur48` is that column too. -/
theorem toc_helpers_table2 : ∀ toc ∈ List.range 256,
    (getMode toc, getBandwidth toc, samplesPerFrame toc 48000) = table2.getD (toc / 8) (0, 0, 0) ∧
    frameDur48 toc = (table2.getD (toc / 8) (0, 0, 0)).2.2 := by
  decide +kernel

example : table2.length = 32 ∧ table2.getD (0x78 / 8) (0, 0, 0) = (1001, 1105, 960) := by decide

/-- The frame-count helper on EVERY byte string (RFC 6716 §3.2): no bytes → OPUS_BAD_ARG; code 0 → 1 frame; codes 1 and
    2 → 2 frames; code 3 → the 6-bit field `M` of the frame-count byte, or OPUS_INVALID_PACKET when that byte is
    missing.  (For a code-3 packet the helper returns `M` as coded — also 0 or a count exceeding 120 ms, which
    `opus_packet_parse` rejects; `nb_frames_agrees_any` relates it to the parser on accepted packets.) -/
theorem nb_frames_spec :
    getNbFrames [] = .err .badArg ∧
    (∀ toc rest, toc % 4 = 0 → getNbFrames (toc :: rest) = .ok 1) ∧
    (∀ toc rest, toc % 4 = 1 ∨ toc % 4 = 2 → getNbFrames (toc :: rest) = .ok 2) ∧
    (∀ toc, toc % 4 = 3 → getNbFrames [toc] = .err .invalidPacket) ∧
    (∀ toc b1 rest, toc % 4 = 3 → getNbFrames (toc :: b1 :: rest) = .ok (b1 % 64)) := by
  refine ⟨rfl, ?_, ?_, ?_, ?_⟩
  · intro toc rest h; simp [getNbFrames, h]
  · intro toc rest h; unfold getNbFrames; rcases h with h | h <;> simp [h]
  · intro toc h; simp [getNbFrames, h]
  · intro toc b1 rest h; simp [getNbFrames, h]

/-- On every packet the parser accepts — standard OR self-delimited framing — the frame-count helper reports the
    parser's frame count. -/
theorem nb_frames_agrees_any (sd : Bool) (bs : Bytes) (hb : BytesOk bs) (r : Parsed) (h : parseImpl sd bs = .ok r) :
    getNbFrames bs = .ok r.count :=
  FramingProofs.getNbFrames_agrees_any sd bs hb r h

/-- `opus_packet_get_nb_samples` on every accepted packet (either framing) and each API rate: it returns
    `count · samples_per_frame(toc, Fs)`, which scaled to 48 kHz is `count · frame duration` ≤ 5760 (120 ms). -/
theorem nb_samples_of_parse (sd : Bool) (bs : Bytes) (hb : BytesOk bs) (r : Parsed)
    (h : parseImpl sd bs = .ok r) (fs : Nat) (hfs : fs ∈ [8000, 12000, 16000, 24000, 48000]) :
    getNbSamples bs fs = .ok (r.count * samplesPerFrame r.toc fs) ∧
    r.count * samplesPerFrame r.toc fs * (48000 / fs) = r.count * frameDur48 r.toc ∧
    r.count * frameDur48 r.toc ≤ 5760 :=
  FramingProofs.getNbSamples_of_parse sd bs hb r h fs hfs

/-- … and on ANY byte string whose frame-count helper succeeds with `c`: OPUS_INVALID_PACKET **iff** the packet
    would hold more than 120 ms of audio (`c · frame duration > 5760` samples at 48 kHz), otherwise
    `c · samples_per_frame`. -/
theorem nb_samples_invalid_iff (toc : Nat) (rest : Bytes) (htoc : toc < 256) (c : Nat) (fs : Nat)
    (hfs : fs ∈ [8000, 12000, 16000, 24000, 48000]) (hc : getNbFrames (toc :: rest) = .ok c) :
    (getNbSamples (toc :: rest) fs = .err .invalidPacket ↔ 5760 < c * frameDur48 toc) ∧
    (c * frameDur48 toc ≤ 5760 → getNbSamples (toc :: rest) fs = .ok (c * samplesPerFrame toc fs)) :=
  FramingProofs.getNbSamples_cases toc rest htoc c fs hfs hc

example : getNbSamples [0xFB, 0x03, 1, 2, 3] 16000 = .ok 960 ∧ getNbSamples [0x1B, 0x03] 48000 = .err .invalidPacket ∧
    getNbFrames [0x1B, 0x03] = .ok 3 ∧ frameDur48 0x1B = 2880 := by decide +kernel

/-- The VALUE of `opus_packet_has_lbrr` on every accepted packet: 0 for CELT-only configurations and for an empty
    first frame; otherwise it is read from the first byte `f0` of the first frame: with `n` = number of 20 ms SILK
    frames per Opus frame (1 for 10/20 ms, 2 for 40 ms, 3 for 60 ms), bit `7 − n` of `f0` for mono, and for stereo
    that bit or-ed with bit `6 − 2n` — the positions right after the `n` VAD flags of the mid and of the side channel
    in the SILK header (RFC 6716 §4.2.3-4.2.4; C09 `lbrr_flag_position` shows these are the bits the range decoder
    hands to `silk_Decode`). -/
theorem has_lbrr_value (bs : Bytes) (hb : BytesOk bs) (r : Parsed) (h : parseImpl false bs = .ok r) :
    (16 ≤ r.toc / 8 % 32 → hasLbrr bs = .ok 0) ∧
    (r.toc / 8 % 32 < 16 →
      ∃ s0 ss, r.sizes = s0 :: ss ∧
        (s0 = 0 → hasLbrr bs = .ok 0) ∧
        (0 < s0 → ∃ f0, bs[r.payloadOffset]? = some f0 ∧
          hasLbrr bs = .ok (
            if r.toc / 4 % 2 = 1 then
              (if f0 / 2 ^ (7 - FramingProofs.lbrrSilkFrames r.toc) % 2 ≠ 0 ∨
                  f0 / 2 ^ (6 - 2 * FramingProofs.lbrrSilkFrames r.toc) % 2 ≠ 0 then 1 else 0)
            else f0 / 2 ^ (7 - FramingProofs.lbrrSilkFrames r.toc) % 2))) :=
  FramingProofs.hasLbrr_value bs hb r h

/-- … and on a SILK / hybrid packet the parser rejects, the helper returns the parser's error. -/
theorem has_lbrr_err (toc : Nat) (data : Bytes) (htoc : toc < 256) (hm : toc / 8 % 32 < 16) (e : Err)
    (h : parseImpl false (toc :: data) = .err e) : hasLbrr (toc :: data) = .err e :=
  FramingProofs.hasLbrr_err toc data htoc hm e h

/- 20 ms mono SILK: LBRR flag = bit 6; 60 ms stereo: bits 4 (mid) and 0 (side); an empty first frame; a CELT packet -/
example : hasLbrr [0x08, 0x40] = .ok 1 ∧ hasLbrr [0x08, 0xBF] = .ok 0 ∧
    FramingProofs.lbrrSilkFrames 0x1C = 3 ∧ hasLbrr [0x1C, 0x01] = .ok 1 ∧ hasLbrr [0x1C, 0x10] = .ok 1 ∧
    hasLbrr [0x1C, 0xEE] = .ok 0 ∧ hasLbrr [0x08] = .ok 0 ∧ hasLbrr [0x80, 0xFF] = .ok 0 ∧
    hasLbrr [0x09, 1, 2, 3] = .err .invalidPacket := by decide +kernel

/-- On every accepted packet the frame-count helper reports the parser's frame count. -/
theorem nb_frames_agrees (bs : Bytes) (hb : BytesOk bs) (r : Parsed) (h : parseImpl false bs = .ok r) :
    getNbFrames bs = .ok r.count :=
  FramingProofs.getNbFrames_agrees bs hb r h

/-- The LBRR-flag helper (as repaired by the `fix:` commit 718d801e) reads only the packet, for every
    byte string.  For the code before the repair this statement is false: `hasLbrr [0x08]` had to
    read `frames[0][0]` of an empty frame. -/
theorem has_lbrr_reads_only_packet (bs : Bytes) (hb : BytesOk bs) :
    hasLbrr bs ≠ .oob ∧ hasLbrr bs ≠ .abort := by
  have := FramingProofs.hasLbrr_nofault bs hb
  constructor <;> intro h <;> rw [h] at this <;> simp [fault] at this

/-! ### Non-vacuity: concrete packets satisfy the hypotheses -/

/-- A 3-frame code-3 VBR packet (CELT 20 ms) with a two-link padding chain is `Valid`. -/
def exPad : Pad := { n255 := 1, last := 2, bytes := List.replicate 256 0 }
def exPacket : Packet :=
  { toc := 0xFB, frames := [[1, 2, 3], [], List.replicate 300 7], vbr := true, pad := some exPad }

example : parseImpl false (serialize false exPacket) = .ok (view false exPacket) := by decide +kernel
example : parseImpl true (serialize true exPacket ++ [9, 9]) = .ok (view true exPacket) := by decide +kernel
example : (view true exPacket).sizes = [3, 0, 300] ∧ (view true exPacket).padLen = 256 := by decide +kernel
/- One packet per frame-count code, each shown `Valid` and parsed in both framings. -/
/-- code 0: one SILK-WB 20 ms frame. -/
def exCode0 : Packet := { toc := 0x48, frames := [[1, 2, 3, 4, 5]], vbr := false, pad := none }
/-- code 1: two equal-size CELT-FB 20 ms frames, stereo. -/
def exCode1 : Packet := { toc := 0xFD, frames := [[1, 2, 3], [4, 5, 6]], vbr := false, pad := none }
/-- code 2: two frames of different size, the first with a two-byte length (300 = 4·12 + 252). -/
def exCode2 : Packet := { toc := 0x7A, frames := [List.replicate 300 9, [7]], vbr := false, pad := none }
/-- code 3, CBR, no padding: three equal frames. -/
def exCode3Cbr : Packet := { toc := 0xFB, frames := [[1, 2], [3, 4], [5, 6]], vbr := false, pad := none }
/-- code 3, VBR, 48 CELT 2.5 ms frames (the maximum: 48 · 120 = 5760 samples = 120 ms) of lengths 0..47, with a
    two-link padding chain (255, 3: 254 + 3 = 257 padding bytes). -/
def exPad48 : Pad := { n255 := 1, last := 3, bytes := List.replicate 257 0 }
def exCode3Vbr48 : Packet :=
  { toc := 0x83, frames := (List.range 48).map (fun i => List.replicate i (i + 1)), vbr := true, pad := some exPad48 }

example : Valid exCode0 :=
  { toc_byte := by decide, frame_max := by decide, code0 := fun _ => by decide, code1 := fun h => absurd h (by decide),
    code2 := fun h => absurd h (by decide), code3 := fun h => absurd h (by decide), pad_ok := fun _ h => by cases h }
example : Valid exCode1 :=
  { toc_byte := by decide, frame_max := by decide, code0 := fun h => absurd h (by decide),
    code1 := fun _ => ⟨by decide, rfl, rfl, by unfold allEq; decide⟩,
    code2 := fun h => absurd h (by decide), code3 := fun h => absurd h (by decide), pad_ok := fun _ h => by cases h }
example : Valid exCode2 :=
  { toc_byte := by decide, frame_max := by decide +kernel, code0 := fun h => absurd h (by decide),
    code1 := fun h => absurd h (by decide), code2 := fun _ => by decide, code3 := fun h => absurd h (by decide),
    pad_ok := fun _ h => by cases h }
example : Valid exCode3Cbr :=
  { toc_byte := by decide, frame_max := by decide, code0 := fun h => absurd h (by decide),
    code1 := fun h => absurd h (by decide), code2 := fun h => absurd h (by decide),
    code3 := fun _ => ⟨by decide, by decide, fun _ => by unfold allEq; decide⟩, pad_ok := fun _ h => by cases h }
example : Valid exCode3Vbr48 :=
  { toc_byte := by decide, frame_max := by decide +kernel, code0 := fun h => absurd h (by decide),
    code1 := fun h => absurd h (by decide), code2 := fun h => absurd h (by decide),
    code3 := fun _ => ⟨by decide +kernel, by decide +kernel, fun h => by cases h⟩,
    pad_ok := fun pd h => by cases h; decide +kernel }

example : parseImpl false (serialize false exCode0) = .ok (view false exCode0) ∧
    parseImpl true (serialize true exCode0 ++ [1]) = .ok (view true exCode0) ∧
    parseImpl false (serialize false exCode1) = .ok (view false exCode1) ∧
    parseImpl true (serialize true exCode1 ++ [1]) = .ok (view true exCode1) ∧
    parseImpl false (serialize false exCode2) = .ok (view false exCode2) ∧
    parseImpl true (serialize true exCode2 ++ [1]) = .ok (view true exCode2) ∧
    parseImpl false (serialize false exCode3Cbr) = .ok (view false exCode3Cbr) ∧
    parseImpl true (serialize true exCode3Cbr ++ [1]) = .ok (view true exCode3Cbr) := by decide +kernel
example : parseImpl false (serialize false exCode3Vbr48) = .ok (view false exCode3Vbr48) ∧
    parseImpl true (serialize true exCode3Vbr48 ++ [5, 5]) = .ok (view true exCode3Vbr48) ∧
    (view false exCode3Vbr48).count = 48 ∧ (view false exCode3Vbr48).padLen = 257 ∧
    (serialize false exCode3Vbr48).take 5 = [0x83, 0xF0, 255, 3, 0] ∧
    (view false exCode3Vbr48).packetOffset = 1 + 1 + 2 + 47 + 1128 + 257 := by decide +kernel
/- a 49th frame makes it exceed 120 ms: rejected -/
example : parseImpl false ([0x83, 0xB1] ++ List.replicate 48 0) = .err .invalidPacket := by decide +kernel

/-- and a rejected one: code 1 with an odd payload. -/
example : parseImpl false [0x01, 1, 2, 3] = .err .invalidPacket := by decide +kernel


/-! ### `int_ranges`: the unbounded `Int` arithmetic of the model hides no C overflow -/

/-- The trace lists `implTrace` / `castStores` of the `int_ranges` theorems below are not a look-alike computed on the
    side: `parseImplT` (OpusModel/FramingTrace.lean) is the parser written once more with every `int` / `opus_int32`
    intermediate bound by a `let`, used for the control flow and the result, and logged; its result IS `parseImpl`'s and
    its two logs ARE `implTrace` and `castStores`, for every input in both framings.  The driver evaluates the `parse`
    operation of the correspondence run through `parseImplT`, so the instrumented function is the one compared with
    `opus_packet_parse_impl` on every generated packet. -/
theorem instrumented_parser_is_parser (sd : Bool) (bs : Bytes) :
    (parseImplT sd bs).1 = parseImpl sd bs ∧
    (parseImplT sd bs).2.1 = implTrace sd bs ∧
    (parseImplT sd bs).2.2 = castStores sd bs :=
  FramingProofs.parseImplT_eq sd bs

/-- `int_ranges` stated on the instrumented parser itself: for every packet of fewer than 2^31 bytes every logged
    `int` / `opus_int32` intermediate fits 32 bits; on success every `(opus_int16)` cast operand lies in `[0, 1275]`;
    and a cast operand that does not fit `opus_int16` only occurs on a call that returns OPUS_INVALID_PACKET. -/
theorem int_ranges_of_parser (sd : Bool) (bs : Bytes) (hb : BytesOk bs) :
    (bs.length ≤ 2147483647 → ∀ v ∈ (parseImplT sd bs).2.1, FramingProofs.I32 v) ∧
    (∀ r, (parseImplT sd bs).1 = .ok r → ∀ v ∈ (parseImplT sd bs).2.2, 0 ≤ v ∧ v ≤ 1275) ∧
    (∀ v ∈ (parseImplT sd bs).2.2, ¬ FramingProofs.I16 v → (parseImplT sd bs).1 = .err .invalidPacket) := by
  obtain ⟨h1, h2, h3⟩ := FramingProofs.parseImplT_eq sd bs
  rw [h1, h2, h3]
  exact ⟨fun hl => implTrace_range sd bs hb hl, fun r hr => castStores_lossless sd bs hb r hr,
    fun v hv hbig => castStores_truncated_rejected sd bs hb v hv hbig⟩

example : parseImplT false [0xFB, 0xC3, 2, 1, 0, 9, 9, 9, 9, 0, 0] =
    (.ok { toc := 0xFB, count := 3, sizes := [1, 0, 3], payloadOffset := 5, padLen := 2, packetOffset := 11 },
     [960, 10, 2880, 9, 8, 6, 2, 1, 5, 2, 4, 0, 4, 1, 3, 5, 5, 6, 6, 9, 2, 11], [3]) := by decide +kernel

/-- `int_ranges`, 32-bit half.  For EVERY packet of fewer than 2^31 bytes (every `len` the
    `opus_int32` parameter can hold), in both framings, on every path — accepted or rejected early —
    every `int` / `opus_int32` value that `opus_packet_parse_impl` computes fits 32 bits:
    `implTrace sd bs` lists them in program order (`framesize`, `len--`, `len&1`, `len/2`, each
    `len -= bytes`, `len - size[0]`, `framesize*count`, in the padding loop `len--`, `len -= tmp`,
    `pad += tmp`, in the VBR loop `bytes + size[i]` and `last_size -= …`, `len/count`,
    `last_size*count`, `size[count-1]*count`, `bytes + size[count-1]`, `data - data0`, every
    `data += size[i]`, `pad + (data - data0)`).  The tight spots: `len - 1 - tmp ≥ -254` and
    `pad ≤ 254·(len + 254)/255 < 2^31` in the padding loop (invariant `255·pad ≤ 254·(len₀ - len)`). -/
theorem int_ranges (sd : Bool) (bs : Bytes) (hb : BytesOk bs) (hl : bs.length ≤ 2147483647) :
    ∀ v ∈ implTrace sd bs, FramingProofs.I32 v :=
  implTrace_range sd bs hb hl

example : implTrace false [0xFB, 0xC3, 2, 1, 0, 9, 9, 9, 9, 0, 0] =
    [960, 10, 2880, 9, 8, 6, 2, 1, 5, 2, 4, 0, 4, 1, 3, 5, 5, 6, 6, 9, 2, 11] ∧
    implTrace true [0x03, 0x42, 255, 3, 2, 7, 7, 8, 8] = [480, 8, 960, 7, 6, -248, 254] := by decide +kernel

/-- `int_ranges`, `opus_int16` half.  Whenever the parse SUCCEEDS, every explicit `(opus_int16)`
    store into `size[]` is lossless: the cast operands (`castStores`: `last_size` at src/opus.c:232,
    :299-300, :330) lie in `[0, 1275]`; all other stores into `size[]` are made by `parse_size`, whose
    stored value is always -1 or at most 1275, or copy an `opus_int16`. -/
theorem int16_stores_lossless (sd : Bool) (bs : Bytes) (hb : BytesOk bs) (r : Parsed)
    (h : parseImpl sd bs = .ok r) :
    (∀ v ∈ castStores sd bs, 0 ≤ v ∧ v ≤ 1275) ∧
    (∀ data len bytes sz, BytesOk data → parseSize data len = .ok (bytes, sz) → -1 ≤ sz ∧ sz ≤ 1275) :=
  ⟨castStores_lossless sd bs hb r h,
   fun data len bytes sz hd hp => ⟨(parseSize_range data hd len bytes sz hp).1, (parseSize_range data hd len bytes sz hp).2.1⟩⟩

example : castStores false [0xFB, 0x03, 1, 2, 3, 4, 5, 6] = [2, 2, 2] ∧
    parseImpl false [0xFB, 0x03, 1, 2, 3, 4, 5, 6] =
      .ok { toc := 0xFB, count := 3, sizes := [2, 2, 2], payloadOffset := 2, padLen := 0, packetOffset := 8 } := by
  decide +kernel

/-- What is stored on the failure paths that return early.  The stores of src/opus.c:232 (code 1) and
    :299-300 (code-3 CBR) happen BEFORE `last_size > 1275` is tested, so for a huge packet `size[i]`
    receives the low 16 bits of `last_size` (up to `len/2`); whenever a cast operand does not fit
    `opus_int16` the function returns OPUS_INVALID_PACKET (so the truncated `size[]` contents are never
    reported as a success) — the C comment "If last_size doesn't fit in size[0], we'll catch it later"
    holds.  On all other early returns `size[]` holds only values written by `parse_size` (-1 for a
    failed length field) or nothing. -/
theorem int16_truncated_store_rejected (sd : Bool) (bs : Bytes) (hb : BytesOk bs) (v : Int)
    (hv : v ∈ castStores sd bs) (hbig : ¬ FramingProofs.I16 v) : parseImpl sd bs = .err .invalidPacket :=
  castStores_truncated_rejected sd bs hb v hv hbig

/- a 70001-byte code-1 packet: `size[0]` receives `(opus_int16)35000 = -30536`, the call fails -/
example (data : Bytes) (h : data.length = 70000) :
    castStores false (1 :: data) = [35000] ∧ ¬ FramingProofs.I16 35000 ∧
    parseImpl false (1 :: data) = .err .invalidPacket := by
  refine ⟨?_, by decide, ?_⟩
  · simp [castStores, parseHdr, h]
  · simp [parseImpl, parseHdr, finish, h]

end OpusProps.C06
