import OpusProofs.RepackMs
import OpusProofs.RepackExtRound
import OpusProofs.RepackExtFull
import OpusProofs.RepackInPlace
import OpusProofs.RepackDecode
import OpusProofs.DecSkelShift
import OpusProofs.RepackRanges
import OpusProofs.RepackMsDecode
import OpusProofs.RepackMsLoop
import OpusProofs.ExtZero
/-
  Property C07 — "Repacketizer, pad and unpad preserve frames and always emit valid packets".

  Model:  `Opus.Repack`  (transcription of src/repacketizer.c: `cat`, `out`, `outRange`,
          `outRangeImpl`, `packetPad`, `packetUnpad`, …), using the parser model of C06.
  Spec:   `Opus.FramingSpec` (`Packet`, `serialize`, `Valid`) — the RFC 6716 serialiser of C06.
  Histories: `Reachable s` = `s` is the state after ANY finite sequence of
          init / cat (any byte string, valid or not) / out / out_range starting from `init`.
  Scope:  the extension-free case (`ExtFree s.pads`: every stored padding has
          `opus_packet_extensions_count = 0`, e.g. packets without padding; `exts = #[]`).
  "Parses back": with `Opus.Framing.parseImpl`, proved in C06 to accept exactly RFC 6716 framing.
-/
namespace OpusProps.C07
open Opus Opus.Framing Opus.FramingSpec Opus.Repack Opus.Ext Opus.RepackProofs Opus.ExtProofs Opus.DecSkel

/-- Clause "accepts a packet exactly when it is valid, configuration-compatible and keeps the total
    at or below 120 ms": in every reachable state, for every byte string. -/
theorem cat_accepts_iff (s : Rp) (hs : Reachable s) (bs : Bytes) (hb : BytesOk bs) :
    (cat s bs).2 = .ok () ↔
      ∃ r, parseImpl false bs = .ok r ∧ (s.nbFrames = 0 ∨ s.toc / 4 = bs.headD 0 / 4) ∧
        (s.nbFrames + r.count) * samplesPerFrame (if s.nbFrames = 0 then bs.headD 0 else s.toc) 8000 ≤ 960 :=
  catImpl_accepts_iff s (reachable_inv hs) bs hb false

/-- Clause "leaves its contents unchanged on rejection": the frames (hence `nb_frames`) and the stored
    paddings are untouched, a non-empty repacketizer is bit-for-bit unchanged (an empty one may have had
    `toc`/`framesize` overwritten, which the next `cat` overwrites again), and the error is
    `OPUS_INVALID_PACKET`. -/
theorem cat_reject_unchanged (s : Rp) (hs : Reachable s) (bs : Bytes) (hb : BytesOk bs)
    (h : (cat s bs).2 ≠ .ok ()) :
    (cat s bs).1.frames = s.frames ∧ (cat s bs).1.pads = s.pads ∧ (s.nbFrames ≠ 0 → (cat s bs).1 = s) ∧
    (cat s bs).2 = .err .invalidPacket :=
  ⟨(catImpl_reject s bs false h).1, (catImpl_reject s bs false h).2.1, (catImpl_reject s bs false h).2.2,
   catImpl_err s (reachable_inv hs) bs hb false h⟩

/-- An accepted `cat` appends exactly the frames of the packet (`bs` is the serialisation of a valid
    packet `p`), in order, and keeps the configuration bits. -/
theorem cat_ok_state (s : Rp) (bs : Bytes) (hb : BytesOk bs) (h : (cat s bs).2 = .ok ()) :
    ∃ p, Valid p ∧ bs = serialize false p ∧ (cat s bs).1.frames = s.frames ++ p.frames ∧
      (cat s bs).1.toc = (if s.nbFrames = 0 then p.toc else s.toc) := by
  obtain ⟨r, hr, hst⟩ := catImpl_ok_state s bs false h
  obtain ⟨p, hv, hbs, _, _, hfr⟩ := packet_of_parse bs hb r hr
  refine ⟨p, hv, hbs, ?_, ?_⟩
  · show (catImpl s bs false).1.frames = _
    rw [hst]; simp only [catNew, hfr, (withToc_frames s _).1]
  · show (catImpl s bs false).1.toc = _
    rw [hst]
    obtain ⟨t, ht⟩ := serialize_cons false p []
    simp only [List.append_nil] at ht
    simp only [catNew, withToc, hbs, ht, List.headD_cons]
    split <;> rfl

/-- `RepackInv` over all op sequences: at most 48 frames, every frame at most 1275 bytes, at most
    120 ms (`nb_frames · framesize ≤ 960` at 8 kHz), one padding entry per frame. -/
theorem repack_inv (s : Rp) (hs : Reachable s) :
    s.nbFrames ≤ 48 ∧ (∀ f ∈ s.frames, f.length ≤ 1275) ∧ s.nbFrames * s.framesize ≤ 960 ∧
    (s.nbFrames ≠ 0 → s.toc < 256 ∧ s.framesize = samplesPerFrame s.toc 8000) ∧ s.pads.length = s.nbFrames := by
  have hinv := reachable_inv hs
  refine ⟨hinv.nb_le, hinv.le, hinv.dur, ?_, hinv.pads_len⟩
  intro h
  have hne : s.frames ≠ [] := by intro h'; apply h; simp [Rp.nbFrames, h']
  exact ⟨hinv.toc_lt hne, hinv.fs hne⟩

/-- Clause "`b<0 ∨ b≥e ∨ e>nb → BAD_ARG`" (the call has no state output at all). -/
theorem out_bad_arg (s : Rp) (b e maxlen : Int) (sd pad : Bool) (exts : Array Ext)
    (h : b < 0 ∨ b ≥ e ∨ e > s.nbFrames) : outRangeImpl s b e maxlen sd pad exts = .err .badArg :=
  outRangeImpl_bad_arg s b e maxlen sd pad exts h

/-- "Refused cleanly": in the extension-free case the only outcomes of `out_range_impl` are a packet,
    `BAD_ARG` or `BUFFER_TOO_SMALL` — never an internal error, an assertion or an out-of-bounds access. -/
theorem out_no_other_failure (s : Rp) (hs : Reachable s) (hfree : ExtFree s.pads) (b e maxlen : Int) (sd pad : Bool) :
    (∃ bs, outRangeImpl s b e maxlen sd pad #[] = .ok bs) ∨ outRangeImpl s b e maxlen sd pad #[] = .err .badArg ∨
    outRangeImpl s b e maxlen sd pad #[] = .err .bufferTooSmall := by
  by_cases h : b < 0 ∨ b ≥ e ∨ e > s.nbFrames
  · exact Or.inr (Or.inl (outRangeImpl_bad_arg s b e maxlen sd pad #[] h))
  · have hb : b = (b.toNat : Int) := by omega
    have he : e = (e.toNat : Int) := by omega
    rw [hb, he, outRangeImpl_noext s b.toNat e.toNat (by omega) (by omega) hfree]
    split
    · exact Or.inr (Or.inr rfl)
    · exact Or.inl ⟨_, rfl⟩

/-- Clause "emits packets that parse back to precisely the selected frames, byte for byte and in order,
    with the original configuration bits; output never exceeds maxlen" (and has exactly `maxlen` bytes
    when padding): for every reachable state, range, `maxlen`, both framings (in the self-delimited
    framing whatever bytes follow). -/
theorem out_roundtrip (s : Rp) (hs : Reachable s) (hfree : ExtFree s.pads) (b e : Nat) (hb : b < e) (he : e ≤ s.nbFrames)
    (maxlen : Int) (sd pad : Bool) (bs : Bytes) (h : outRangeImpl s b e maxlen sd pad #[] = .ok bs)
    (rest : Bytes) (hrest : sd = false → rest = []) :
    ∃ r, parseImpl sd (bs ++ rest) = .ok r ∧
      slices (bs ++ rest) r.payloadOffset r.sizes = selFrames s b e ∧ r.count = e - b ∧
      r.toc / 4 = s.toc / 4 ∧ r.packetOffset = bs.length ∧
      (bs.length : Int) ≤ maxlen ∧ (pad = true → (bs.length : Int) = maxlen) := by
  obtain ⟨p, hv, hbs, hfr, htoc, hfit, hlen⟩ := outRangeImpl_ok s (reachable_inv hs) b e hb he hfree maxlen sd pad bs h
  obtain ⟨hparse, hsl⟩ := parse_serialize_frames sd p hv rest hrest
  subst hbs
  refine ⟨view sd p, hparse, by rw [hsl, hfr], ?_, htoc, rfl, ?_, ?_⟩
  · simp only [view]; rw [hfr]; exact (selFrames_ok s (reachable_inv hs) b e hb he).2
  · rw [hlen]; split <;> omega
  · intro hp; rw [hlen, if_pos hp]

/-- Clause "refused cleanly when maxlen is too small": `BUFFER_TOO_SMALL` exactly when the minimal size
    (`minSize`: code 0 / 1 / 2 / 3-CBR / 3-VBR as appropriate) exceeds `maxlen`; otherwise a packet of
    exactly the minimal size (exactly `maxlen` when padding) is produced. -/
theorem out_size (s : Rp) (hs : Reachable s) (hfree : ExtFree s.pads) (b e : Nat) (hb : b < e) (he : e ≤ s.nbFrames)
    (maxlen : Int) (sd pad : Bool) :
    (outRangeImpl s b e maxlen sd pad #[] = .err .bufferTooSmall ↔
       minSize sd ((selFrames s b e).map List.length) > maxlen) ∧
    (minSize sd ((selFrames s b e).map List.length) ≤ maxlen →
       ∃ bs, outRangeImpl s b e maxlen sd pad #[] = .ok bs ∧
         (bs.length : Int) = (if pad then maxlen else minSize sd ((selFrames s b e).map List.length))) := by
  have hne := (selFrames_ok s (reachable_inv hs) b e hb he).1.ne
  rw [outRangeImpl_noext s b e hb he hfree]
  constructor
  · constructor
    · intro h; split at h
      · assumption
      · simp at h
    · intro h; rw [if_pos h]
  · intro h
    rw [if_neg (by omega)]
    exact ⟨_, rfl, outPacket_len _ _ hne _ _ _ h⟩

/-- The size used is minimal: no RFC-valid packet holding the same frames is shorter. -/
theorem out_min_size_minimal (sd : Bool) (p : Packet) (hv : Valid p) :
    minSize sd (p.frames.map List.length) ≤ ((serialize sd p).length : Int) :=
  minSize_minimal sd p hv

/-- Clause "1277 bytes per selected frame always suffice" (`opus_repacketizer_out_range`). -/
theorem out_1277_suffices (s : Rp) (hs : Reachable s) (hfree : ExtFree s.pads) (b e : Nat) (hb : b < e) (he : e ≤ s.nbFrames)
    (maxlen : Int) (hm : 1277 * ((e : Int) - b) ≤ maxlen) :
    ∃ bs, outRange s b e maxlen = .ok bs := by
  obtain ⟨hok, hlen⟩ := selFrames_ok s (reachable_inv hs) b e hb he
  have h1 := minSize_le_1277 ((selFrames s b e).map List.length) (by simpa using hok.ne)
    (by intro x hx; simp only [List.mem_map] at hx; obtain ⟨f, hf, rfl⟩ := hx; exact hok.le f hf)
  simp only [List.length_map, hlen] at h1
  obtain ⟨bs, hbs, _⟩ := (out_size s hs hfree b e hb he maxlen false false).2 (by omega)
  exact ⟨bs, hbs⟩

/-- Clause "padding to any new length gives a packet of exactly that length with the same frames"
    and the same configuration bits: valid packet whose padding carries no extensions, `new_len ≥ len`. -/
theorem pad_spec (bs : Bytes) (hb : BytesOk bs) (r : Parsed) (h : parseImpl false bs = .ok r)
    (hfree : Ext.count ((bs.drop r.padOffset).take r.padLen) r.padLen r.count = .ok 0)
    (newLen : Int) (hge : (bs.length : Int) ≤ newLen) :
    ∃ o r', packetPad bs newLen = .ok o ∧ (o.length : Int) = newLen ∧ parseImpl false o = .ok r' ∧
      slices o r'.payloadOffset r'.sizes = slices bs r.payloadOffset r.sizes ∧ r'.toc / 4 = r.toc / 4 := by
  obtain ⟨p, hv, hbs, hview, hpad, hfr⟩ := packet_of_parse bs hb r h
  by_cases heq : (bs.length : Int) = newLen
  · refine ⟨bs, r, ?_, heq, h, rfl, rfl⟩
    rw [← heq]; apply pad_same
    rw [hbs]; obtain ⟨t, ht⟩ := serialize_cons false p []; simp at ht; rw [ht]; simp
  · have hpf : PadFree p := by
      unfold PadFree
      rw [← hpad]
      have : ((bs.drop r.padOffset).take r.padLen).length = r.padLen := by rw [hpad, hview]; rfl
      rw [this]
      have : p.frames.length = r.count := by rw [hview]; rfl
      rw [this]; exact hfree
    have hps := pad_serialize p hv hpf newLen (by rw [← hbs]; omega)
    have hok : FramesOk p.toc p.frames := ⟨hv.toc_byte, valid_ne p hv, hv.frame_max, valid_dur p hv⟩
    have hmin := minSize_minimal false p hv
    simp only [Packet.lens] at hmin
    rw [← hbs] at hmin hps
    have hv' := outPacket_valid p.toc p.frames hok newLen false true (by omega)
    have hl := outPacket_len p.toc p.frames hok.ne newLen false true (by omega)
    obtain ⟨hparse, hsl⟩ := parse_serialize_frames false _ hv' [] (fun _ => rfl)
    simp only [List.append_nil] at hparse hsl
    refine ⟨_, _, hps, by simpa using hl, hparse, ?_, ?_⟩
    · rw [hsl, hfr, outPacket_frames]
    · rw [hview]; exact outPacket_toc _ _ _ _ _

/-- `opus_packet_pad` refuses cleanly: `BAD_ARG` for `len < 1` or `new_len < len`, `INVALID_PACKET`
    for a byte string that is not a valid packet. -/
theorem pad_rejects (bs : Bytes) (hb : BytesOk bs) (newLen : Int) :
    ((bs.length < 1 ∨ newLen < bs.length) → packetPad bs newLen = .err .badArg) ∧
    (bs ≠ [] → (bs.length : Int) < newLen → (∀ r, parseImpl false bs ≠ .ok r) →
       packetPad bs newLen = .err .invalidPacket) :=
  ⟨pad_bad_arg bs newLen, fun hne hlt h => pad_invalid bs hb newLen hlt hne h⟩

/-- Clause "unpadding … never longer than its input", same frames and configuration bits, no padding
    left; an invalid packet is refused with `INVALID_PACKET`. -/
theorem unpad_spec (bs : Bytes) (hb : BytesOk bs) (hne : bs ≠ []) :
    (∀ r, parseImpl false bs = .ok r →
       ∃ o r', packetUnpad bs = .ok o ∧ 0 < o.length ∧ o.length ≤ bs.length ∧ parseImpl false o = .ok r' ∧
         slices o r'.payloadOffset r'.sizes = slices bs r.payloadOffset r.sizes ∧ r'.toc / 4 = r.toc / 4 ∧
         r'.padLen = 0 ∧ (o.length : Int) = minSize false r.sizes) ∧
    ((∀ r, parseImpl false bs ≠ .ok r) → packetUnpad bs = .err .invalidPacket) := by
  constructor
  · intro r h
    obtain ⟨p, hv, hbs, hview, hun⟩ := unpad_ok bs hb r h
    obtain ⟨_, _, _, _, _, hfr⟩ := packet_of_parse bs hb r h
    have hv' := canonPacket_valid p hv
    obtain ⟨l1, l2, l3⟩ := canonPacket_len p hv
    obtain ⟨hparse, hsl⟩ := parse_serialize_frames false _ hv' [] (fun _ => rfl)
    simp only [List.append_nil] at hparse hsl
    refine ⟨_, _, hun, l1, by rw [hbs]; exact l2, hparse, ?_, ?_, ?_, ?_⟩
    · rw [hsl]; unfold canonPacket; rw [outPacket_frames]
      obtain ⟨p2, _, hbs2, hview2, _, hfr2⟩ := packet_of_parse bs hb r h
      have : serialize false p = serialize false p2 := by rw [← hbs, ← hbs2]
      rw [hfr2]
      have hvv : view false p = view false p2 := by rw [← hview, ← hview2]
      -- same bytes, same view: same frames
      have h1 := (parse_serialize_frames false p hv [] (fun _ => rfl)).2
      have h2 := (parse_serialize_frames false p2 (by assumption) [] (fun _ => rfl)).2
      rw [this, hvv] at h1
      rw [← h1, ← h2]
    · rw [hview]; exact outPacket_toc _ _ _ _ _
    · simp only [view, canonPacket_nopad, List.length_nil]
    · rw [l3, hview]; rfl
  · exact unpad_invalid bs hb hne

/-- Clause "unpadding is canonical": the result depends only on the frames and the configuration bits
    — any two valid packets with the same frames and configuration unpad to the same bytes. -/
theorem unpad_canonical (p q : Packet) (hp : Valid p) (hq : Valid q) (hf : p.frames = q.frames)
    (ht : p.toc / 4 = q.toc / 4) :
    packetUnpad (serialize false p) = packetUnpad (serialize false q) := by
  rw [unpad_serialize p hp, unpad_serialize q hq, hf, canonPacket_congr _ _ _ ht]

/-- Clause "idempotent": `unpad (unpad x) = unpad x`. -/
theorem unpad_idempotent (bs : Bytes) (hb : BytesOk bs) (o : Bytes) (h : packetUnpad bs = .ok o) :
    packetUnpad o = .ok o := by
  by_cases hne : bs = []
  · subst hne; simp [packetUnpad] at h
  · cases hp : parseImpl false bs with
    | ok r =>
      obtain ⟨p, hv, _, _, hun⟩ := unpad_ok bs hb r hp
      rw [hun] at h; cases h
      rw [unpad_serialize _ (canonPacket_valid p hv), canonPacket_canon]
    | err e => rw [unpad_invalid bs hb hne (by intro r hr; rw [hp] at hr; cases hr)] at h; cases h
    | oob => rw [unpad_invalid bs hb hne (by intro r hr; rw [hp] at hr; cases hr)] at h; cases h
    | abort => rw [unpad_invalid bs hb hne (by intro r hr; rw [hp] at hr; cases hr)] at h; cases h

/-- Padding and then unpadding gives the same bytes as unpadding directly (pad adds nothing but
    removable padding). -/
theorem unpad_pad (bs : Bytes) (hb : BytesOk bs) (r : Parsed) (h : parseImpl false bs = .ok r)
    (hfree : Ext.count ((bs.drop r.padOffset).take r.padLen) r.padLen r.count = .ok 0)
    (newLen : Int) (hgt : (bs.length : Int) < newLen) (o : Bytes) (ho : packetPad bs newLen = .ok o) :
    packetUnpad o = packetUnpad bs := by
  obtain ⟨p, hv, hbs, hview, hpad, hfr⟩ := packet_of_parse bs hb r h
  have hpf : PadFree p := by
    unfold PadFree
    rw [← hpad]
    have : ((bs.drop r.padOffset).take r.padLen).length = r.padLen := by rw [hpad, hview]; rfl
    rw [this]
    have : p.frames.length = r.count := by rw [hview]; rfl
    rw [this]; exact hfree
  have hps := pad_serialize p hv hpf newLen (by rw [← hbs]; omega)
  rw [← hbs, ho] at hps; cases hps
  have hok : FramesOk p.toc p.frames := ⟨hv.toc_byte, valid_ne p hv, hv.frame_max, valid_dur p hv⟩
  have hmin := minSize_minimal false p hv
  simp only [Packet.lens] at hmin
  rw [← hbs] at hmin
  have hv' := outPacket_valid p.toc p.frames hok newLen false true (by omega)
  rw [unpad_serialize _ hv', hbs, unpad_serialize p hv, outPacket_frames]
  exact congrArg _ (congrArg _ (canonPacket_congr _ _ _ (outPacket_toc _ _ _ _ _)))

/-- Clause "the multistream variants do the same per stream" (unpad): a multistream packet is the
    concatenation of self-delimited valid packets and one standard packet (`msSerialize`); every stream is
    replaced by its canonical packet — same frames, same configuration bits, valid, never longer. -/
theorem ms_unpad_spec (ps : List Packet) (hne : ps ≠ []) (hv : ∀ p ∈ ps, Valid p) :
    msUnpad (msSerialize ps) ps.length = .ok (msSerialize (ps.map fun p => canonPacket p.toc p.frames)) ∧
    ∀ p ∈ ps, Valid (canonPacket p.toc p.frames) ∧ (canonPacket p.toc p.frames).frames = p.frames ∧
      (canonPacket p.toc p.frames).toc / 4 = p.toc / 4 ∧
      ∀ sd, (serialize sd (canonPacket p.toc p.frames)).length ≤ (serialize sd p).length := by
  refine ⟨msUnpad_serialize ps hne hv, ?_⟩
  intro p hp
  have hvp := hv p hp
  refine ⟨canonPacket_valid p hvp, outPacket_frames _ _ _ _ _, outPacket_toc _ _ _ _ _, ?_⟩
  intro sd
  have hmin := minSize_minimal sd p hvp
  have hl := outPacket_len p.toc p.frames (valid_ne p hvp) (serialize sd p).length sd false hmin
  rw [outPacket_nopad_sd] at hl
  simp only [Bool.false_eq_true, if_false] at hl
  simp only [Packet.lens] at hmin
  omega

/-- Clause "the multistream variants do the same per stream" (pad): all streams but the last are left
    byte-for-byte untouched; the last stream becomes a valid packet with the same frames and configuration
    bits, and the whole packet has exactly `new_len` bytes. -/
theorem ms_pad_spec (pre : List Packet) (last : Packet) (hv : ∀ p ∈ pre, Valid p) (hl : Valid last)
    (hfree : PadFree last) (newLen : Int) (hgt : ((msJoin pre last).length : Int) < newLen) :
    ∃ q, msPad (msJoin pre last) newLen (pre.length + 1 : Nat) = .ok (msJoin pre q) ∧ Valid q ∧
      q.frames = last.frames ∧ q.toc / 4 = last.toc / 4 ∧ ((msJoin pre q).length : Int) = newLen := by
  have hok : FramesOk last.toc last.frames := ⟨hl.toc_byte, valid_ne last hl, hl.frame_max, valid_dur last hl⟩
  have hmin := minSize_minimal false last hl
  simp only [Packet.lens] at hmin
  have hlen : (msJoin pre last).length = (pre.flatMap (serialize true)).length + (serialize false last).length := by
    simp [msJoin]
  refine ⟨_, msPad_serialize pre last hv hl hfree newLen hgt, outPacket_valid _ _ hok _ _ _ (by omega),
    outPacket_frames _ _ _ _ _, outPacket_toc _ _ _ _ _, ?_⟩
  have h2 := outPacket_len last.toc last.frames hok.ne
    ((serialize false last).length + (newLen - (msJoin pre last).length)) false true (by omega)
  simp only [if_true] at h2
  have h3 : (msJoin pre (outPacket last.toc last.frames
      ((serialize false last).length + (newLen - (msJoin pre last).length)) false true)).length =
      (pre.flatMap (serialize true)).length + (serialize false (outPacket last.toc last.frames
      ((serialize false last).length + (newLen - (msJoin pre last).length)) false true)).length := by
    simp [msJoin]
  rw [h3]
  push_cast
  rw [h2]
  omega

/-- Clause "packets carrying extensions are merged / split correctly" (extension carriage, code after
    fixes 374eedae and ff8edd7a) — FULL for every call without the `pad` flag, i.e. for
    `opus_repacketizer_out`, `opus_repacketizer_out_range` and the unpad paths; no restriction on the
    extension lists (the generator's "repeat these extensions" mechanism included, via C16's
    `generate_parse_full`).  In ANY reachable state, for every valid range, `maxlen`, framing and valid
    caller extensions `exts`, with `all` = `exts` followed by the gathered extensions (see
    `out_roundtrip_ext_norepeat` for the definition) non-empty: a successful output parses back to exactly
    the selected frames, and its padding region, read by C16's extension parser, yields one entry per
    element of `all`, and for EVERY output frame `g` the entries of frame `g` are exactly the extensions of
    `all` with frame `g`, in gathering order, with identical IDs, lengths and payload bytes. -/
theorem out_roundtrip_ext_nopad (s : Rp) (hs : Reachable s) (b e : Nat) (hb : b < e) (he : e ≤ s.nbFrames)
    (exts : Array Ext) (hvx : AllValid exts (e - b))
    (hpos : 0 < (exts ++ (gathered (s.pads.take e) 0 b e).toArray).size)
    (maxlen : Int) (sd : Bool) (bs : Bytes) (h : outRangeImpl s b e maxlen sd false exts = .ok bs)
    (rest : Bytes) (hrest : sd = false → rest = []) :
    ∃ r, parseImpl sd (bs ++ rest) = .ok r ∧
      slices (bs ++ rest) r.payloadOffset r.sizes = selFrames s b e ∧ r.count = e - b ∧
      r.toc / 4 = s.toc / 4 ∧ r.packetOffset = bs.length ∧ (bs.length : Int) ≤ maxlen ∧
      ∀ cap : Int, ((exts ++ (gathered (s.pads.take e) 0 b e).toArray).size : Int) ≤ cap →
        ∃ refs, Ext.parse (((bs ++ rest).drop r.padOffset).take r.padLen)
                  (((bs ++ rest).drop r.padOffset).take r.padLen).length cap ((e - b : Nat) : Int) = .ok refs ∧
          refs.length = (exts ++ (gathered (s.pads.take e) 0 b e).toArray).size ∧
          ∀ g, (refs.filter (fun x => x.frame = g)).map (ExtRef.toExt (((bs ++ rest).drop r.padOffset).take r.padLen)) =
            (allOf (exts ++ (gathered (s.pads.take e) 0 b e).toArray) g).map normExt := by
  obtain ⟨p, hv, hbs, hfr, htoc, hle, hpar⟩ :=
    outRangeImpl_ext_full s (reachable_inv hs) (reachable_padsOk hs) b e hb he exts hvx hpos maxlen sd bs h
  obtain ⟨hparse, hsl⟩ := parse_serialize_frames sd p hv rest hrest
  subst hbs
  refine ⟨view sd p, hparse, by rw [hsl, hfr], ?_, htoc, rfl, hle, ?_⟩
  · simp only [view]; rw [hfr]; exact (selFrames_ok s (reachable_inv hs) b e hb he).2
  · intro cap hcap
    rw [padding_of_serialize]
    exact hpar cap hcap

/-- **out_roundtrip_ext** — extension carriage at full strength (code after fixes 374eedae and ff8edd7a):
    ANY reachable state (stored paddings arbitrary: extension lists, malformed lists, plain padding), every
    valid range, `maxlen`, framing, with or without the `pad` flag, every array of valid caller extensions,
    no restriction on the resulting list (the generator's repeat mechanism included; built on C16's
    `generate_parse_full` / `parse_padded_full`).  With `all` = `exts` followed by the extensions gathered
    from the stored packets overlapping `[begin,end)` (`gathered`: parsed from each padding, nothing if it is
    not a well-formed list, renumbered `frame + i - begin`, kept iff in `[0,end-begin)`) non-empty: a
    successful output parses back to exactly the selected frames with the stored configuration bits, has
    at most `maxlen` bytes (exactly `maxlen` with `pad`), and its padding region, read by the extension
    parser of C16, yields one entry per element of `all`; for EVERY output frame `g` the entries of frame
    `g` are exactly the extensions of `all` with frame `g`, in gathering order, with identical IDs, lengths
    and payload bytes. -/
theorem out_roundtrip_ext (s : Rp) (hs : Reachable s) (b e : Nat) (hb : b < e) (he : e ≤ s.nbFrames)
    (exts : Array Ext) (hvx : AllValid exts (e - b))
    (hpos : 0 < (exts ++ (gathered (s.pads.take e) 0 b e).toArray).size)
    (maxlen : Int) (sd pad : Bool) (bs : Bytes) (h : outRangeImpl s b e maxlen sd pad exts = .ok bs)
    (rest : Bytes) (hrest : sd = false → rest = []) :
    ∃ r, parseImpl sd (bs ++ rest) = .ok r ∧
      slices (bs ++ rest) r.payloadOffset r.sizes = selFrames s b e ∧ r.count = e - b ∧
      r.toc / 4 = s.toc / 4 ∧ r.packetOffset = bs.length ∧ (bs.length : Int) ≤ maxlen ∧
      (pad = true → (bs.length : Int) = maxlen) ∧
      ∀ cap : Int, ((exts ++ (gathered (s.pads.take e) 0 b e).toArray).size : Int) ≤ cap →
        ∃ refs, Ext.parse (((bs ++ rest).drop r.padOffset).take r.padLen)
                  (((bs ++ rest).drop r.padOffset).take r.padLen).length cap ((e - b : Nat) : Int) = .ok refs ∧
          refs.length = (exts ++ (gathered (s.pads.take e) 0 b e).toArray).size ∧
          ∀ g, (refs.filter (fun x => x.frame = g)).map (ExtRef.toExt (((bs ++ rest).drop r.padOffset).take r.padLen)) =
            (allOf (exts ++ (gathered (s.pads.take e) 0 b e).toArray) g).map normExt := by
  obtain ⟨p, hv, hbs, hfr, htoc, hle, hpl, hpar⟩ :=
    outRangeImpl_ext_full_pad s (reachable_inv hs) (reachable_padsOk hs) b e hb he exts hvx hpos maxlen sd pad bs h
  obtain ⟨hparse, hsl⟩ := parse_serialize_frames sd p hv rest hrest
  subst hbs
  refine ⟨view sd p, hparse, by rw [hsl, hfr], ?_, htoc, rfl, hle, hpl, ?_⟩
  · simp only [view]; rw [hfr]; exact (selFrames_ok s (reachable_inv hs) b e hb he).2
  · intro cap hcap
    rw [padding_of_serialize]
    exact hpar cap hcap

/-- Extension carriage, sharper conclusion for lists on which the generator repeats nothing (this was the
    first proved instance; it is kept because it pins down the WHOLE parsed list and the exact padding bytes
    `0x01… ++ serBytes`, not only the per-frame sublists; nothing is missing relative to its own statement —
    the unrestricted theorem is `out_roundtrip_ext` above).
    In ANY reachable state (stored paddings arbitrary: extension lists, malformed lists, plain padding),
    for every valid range, `maxlen`, framing, `pad` flag and caller-supplied valid extensions `exts`:
    let `all` = `exts` followed by the extensions gathered from the stored packets that overlap
    `[begin,end)` — what `opus_packet_extensions_parse` reads from each padding (`padRefs`; nothing if the
    padding is not a well-formed extension list), renumbered `frame + i - begin` and kept iff that lies
    in `[0, end-begin)` (`gathered`).  If `all` is non-empty and in C16's `NoRepeat` class, a successful
    output parses back to exactly the selected frames (as in `out_roundtrip`), AND the padding region
    the parser reports, read by the extension parser of C16, yields exactly `all` stably sorted by frame
    (`sortedFrom`: frame 0's extensions in gathering order, then frame 1's, …) — same count, IDs, frame
    numbers, lengths and payload bytes. -/
theorem out_roundtrip_ext_norepeat (s : Rp) (hs : Reachable s) (b e : Nat) (hb : b < e) (he : e ≤ s.nbFrames)
    (exts : Array Ext) (hvx : AllValid exts (e - b))
    (hpos : 0 < (exts ++ (gathered (s.pads.take e) 0 b e).toArray).size)
    (hnr : NoRepeat (exts ++ (gathered (s.pads.take e) 0 b e).toArray) (e - b))
    (maxlen : Int) (sd pad : Bool) (bs : Bytes) (h : outRangeImpl s b e maxlen sd pad exts = .ok bs)
    (rest : Bytes) (hrest : sd = false → rest = []) :
    ∃ r, parseImpl sd (bs ++ rest) = .ok r ∧
      slices (bs ++ rest) r.payloadOffset r.sizes = selFrames s b e ∧ r.count = e - b ∧
      r.toc / 4 = s.toc / 4 ∧ r.packetOffset = bs.length ∧
      (bs.length : Int) ≤ maxlen ∧ (pad = true → (bs.length : Int) = maxlen) ∧
      ∀ cap : Int, ((exts ++ (gathered (s.pads.take e) 0 b e).toArray).size : Int) ≤ cap →
        ∃ refs, Ext.parse (((bs ++ rest).drop r.padOffset).take r.padLen)
                  (((bs ++ rest).drop r.padOffset).take r.padLen).length cap ((e - b : Nat) : Int) = .ok refs ∧
          refs.length = (exts ++ (gathered (s.pads.take e) 0 b e).toArray).size ∧
          refs.map (ExtRef.toExt (((bs ++ rest).drop r.padOffset).take r.padLen)) =
            (sortedFrom (exts ++ (gathered (s.pads.take e) 0 b e).toArray) (e - b) 0).map normExt := by
  obtain ⟨p, k, hv, hbs, hfr, htoc, hpb, hval, hle, hpl⟩ :=
    outRangeImpl_ext s (reachable_inv hs) (reachable_padsOk hs) b e hb he exts hvx hpos hnr maxlen sd pad bs h
  obtain ⟨hparse, hsl⟩ := parse_serialize_frames sd p hv rest hrest
  subst hbs
  refine ⟨view sd p, hparse, by rw [hsl, hfr], ?_, htoc, rfl, hle, hpl, ?_⟩
  · simp only [view]; rw [hfr]; exact (selFrames_ok s (reachable_inv hs) b e hb he).2
  · intro cap hcap
    rw [padding_of_serialize, hpb]
    have hn48 : e - b ≤ 48 := by have := (reachable_inv hs).nb_le; omega
    have hvs : ∀ x ∈ sortedFrom (exts ++ (gathered (s.pads.take e) 0 b e).toArray) (e - b) 0, ValidExt (e - b) x := by
      intro x hx
      obtain ⟨j, hj⟩ := List.mem_iff_getElem?.mp (mem_sortedFrom hx).1
      exact hval j x (by rw [← Array.getElem?_toList]; exact hj)
    have hsorted := frameSorted_sortedFrom (exts ++ (gathered (s.pads.take e) 0 b e).toArray) (e - b) (e - b) 0 0
      (by omega) (Nat.le_refl _)
    have hslen := sortedFrom_length _ (e - b) hval
    have hne : sortedFrom (exts ++ (gathered (s.pads.take e) 0 b e).toArray) (e - b) 0 ≠ [] := by
      intro h0; rw [h0, List.length_nil] at hslen; omega
    obtain ⟨h1, h2⟩ := parse_ones_ser k _ hne (e - b) hn48 (Nat.sub_pos_of_lt hb) hvs hsorted cap (by rw [hslen]; exact hcap)
    unfold extSer
    exact ⟨_, h1, by rw [serRefs_length, hslen], h2⟩

/-- Fix 374eedae (stored padding that is not an extension list): if every stored padding carries
    nothing — its extension count is 0, or it is not a well-formed extension list so that
    `opus_packet_extensions_parse` fails — the paddings are dropped and `out_range_impl` behaves exactly as in
    the extension-free case: `BUFFER_TOO_SMALL` iff the minimal size exceeds `maxlen`, otherwise the
    serialisation of the valid packet `outPacket` (so `out_roundtrip` / `out_size` hold verbatim; in
    particular never `OPUS_INTERNAL_ERROR`). -/
theorem out_malformed_padding_dropped (s : Rp) (hs : Reachable s) (b e : Nat) (hb : b < e) (he : e ≤ s.nbFrames)
    (hnil : ∀ pn ∈ s.pads, padRefs pn.1 pn.2 = []) (maxlen : Int) (sd pad : Bool) :
    outRangeImpl s b e maxlen sd pad #[] =
      (if minSize sd ((selFrames s b e).map List.length) > maxlen then .err .bufferTooSmall
       else .ok (serialize sd (outPacket s.toc (selFrames s b e) maxlen sd pad))) ∧
    (minSize sd ((selFrames s b e).map List.length) ≤ maxlen →
       Valid (outPacket s.toc (selFrames s b e) maxlen sd pad) ∧
       (outPacket s.toc (selFrames s b e) maxlen sd pad).frames = selFrames s b e) :=
  ⟨outRangeImpl_dropped s (reachable_padsOk hs) b e hb he hnil maxlen sd pad,
   fun hfit => ⟨outPacket_valid _ _ (selFrames_ok s (reachable_inv hs) b e hb he).1 _ _ _ hfit, outPacket_frames _ _ _ _ _⟩⟩

/-- In-place safety (P1), `opus_packet_unpad`: run on ONE byte array in the order of the C code — `cat`
    stores frame offsets into the buffer, `out_range_impl` writes the new header over the start of the same
    buffer and then moves the frames one by one with memmove (`OpusModel/RepackInPlace.lean`) — the first
    `ret` bytes are exactly the result of the pure model (which reads frames from private copies): no frame
    byte is overwritten before it is read; the buffer keeps its length (bytes past `ret` are stale). -/
theorem unpad_in_place (p : Packet) (hv : Valid p) :
    ∃ out X, packetUnpad (serialize false p) = .ok out ∧
      packetUnpadInPlace (serialize false p) = .ok (out ++ X, out.length) ∧
      (out ++ X).length = (serialize false p).length :=
  packetUnpadInPlace_eq p hv

/-- In-place safety, `opus_multistream_packet_unpad`: streams are unpadded front to back into the same
    buffer (write position ≤ read position); the result equals the pure model's, for every number of
    streams; later streams are read after earlier outputs were written and are never clobbered. -/
theorem ms_unpad_in_place (ps : List Packet) (hne : ps ≠ []) (hv : ∀ p ∈ ps, Valid p) :
    ∃ out X, msUnpad (msSerialize ps) ps.length = .ok out ∧
      msUnpadInPlace (msSerialize ps) ps.length = .ok (out ++ X, out.length) ∧
      (out ++ X).length = (msSerialize ps).length :=
  msUnpadInPlace_eq ps hne hv

/-- In-place safety, the heart of it: the frame-moving loop `OPUS_MOVE(ptr, frames[i], len[i])` on one
    buffer `A ++ G ++ F ++ R` (write position `|A|`, frames `F` lying back to back from `|A|+|G|`): every
    frame arrives intact, `A` and everything after the frames (`R`) is untouched.  (`opus_packet_pad` and
    `opus_multistream_packet_pad` copy the packet to a separate buffer first — repacketizer.c:359-363 — so
    for them source and destination never overlap and the pure model is exact.) -/
theorem move_frames_safe (sizes : List Nat) (A G F R : Bytes) (hF : F.length = sumN sizes) :
    ∃ X, X.length = G.length ∧
      moveFrames (A ++ G ++ F ++ R) A.length (frameSlots (A.length + G.length) sizes) = A ++ F ++ X ++ R :=
  moveFrames_spec sizes A G F R hF

/-- Clause "same decoded audio", packet-level facts: everything the decoder skeleton of C01 derives from
    the packet, except the ADDRESS of the frame data, is identical for a valid packet `x` and `pad x`: the
    same frame sizes in the same order, byte-identical frames, the same frame duration / mode / bandwidth /
    channel count (the TOC differs only in the two frame-count-code bits), and hence the same return value
    (number of samples, or error) and `last_packet_duration` of `opus_decode_native` in every decoder
    state, for every `frame_size` and `decode_fec`. -/
theorem pad_same_packet_inputs (bs : Bytes) (hb : BytesOk bs) (r : Parsed) (h : parseImpl false bs = .ok r)
    (hfree : Ext.count ((bs.drop r.padOffset).take r.padLen) r.padLen r.count = .ok 0)
    (newLen : Int) (hge : (bs.length : Int) ≤ newLen) :
    ∃ o r', packetPad bs newLen = .ok o ∧ parseImpl false o = .ok r' ∧ r'.sizes = r.sizes ∧
      slices o r'.payloadOffset r'.sizes = slices bs r.payloadOffset r.sizes ∧
      (∀ fs, samplesPerFrame (o.headD 0) fs = samplesPerFrame (bs.headD 0) fs) ∧
      getMode (o.headD 0) = getMode (bs.headD 0) ∧ getBandwidth (o.headD 0) = getBandwidth (bs.headD 0) ∧
      getNbChannels (o.headD 0) = getNbChannels (bs.headD 0) ∧
      (∀ (st : DecState) (frame_size fec : Int),
        nativeRet st (some o) o.length frame_size fec false = nativeRet st (some bs) bs.length frame_size fec false) ∧
      r'.count = r.count ∧ o.headD 0 / 4 = bs.headD 0 / 4 := by
  obtain ⟨o, r', hpad, _, hparse, hsl, htoc⟩ := pad_spec bs hb r h hfree newLen hge
  have hlen : ∀ (x : Bytes) (q : Parsed), BytesOk x → parseImpl false x = .ok q →
      q.sizes = (slices x q.payloadOffset q.sizes).map List.length ∧ q.toc = x.headD 0 ∧ q.count = q.sizes.length := by
    intro x q hx hq
    obtain ⟨p, hv, hxs, hview, _, hfr⟩ := packet_of_parse x hx q hq
    obtain ⟨t, ht⟩ := serialize_cons false p []
    simp only [List.append_nil] at ht
    rw [hfr, hview, hxs, ht]
    exact ⟨rfl, rfl, by simp [view, Packet.lens]⟩
  -- `o` is a byte string: it parses, so use the spec packet directly
  obtain ⟨p, hv, hbs, hview, _, hfr⟩ := packet_of_parse bs hb r h
  have hsz : r'.sizes = r.sizes ∧ r'.toc = o.headD 0 ∧ r'.count = r.count := by
    by_cases heq : (bs.length : Int) = newLen
    · have : packetPad bs newLen = .ok bs := by
        rw [← heq]; apply pad_same
        rw [hbs]; obtain ⟨t, ht⟩ := serialize_cons false p []; simp at ht; rw [ht]; simp
      rw [this] at hpad; cases hpad
      rw [h] at hparse; cases hparse
      exact ⟨rfl, (hlen bs r hb h).2.1, rfl⟩
    · have hpf : PadFree p := by
        unfold PadFree
        obtain ⟨_, _, _, hview2, hpad2, _⟩ := packet_of_parse bs hb r h
        have hpp : (bs.drop r.padOffset).take r.padLen = padBytes p := by
          rw [hview, hbs]; exact padding_of_serialize false p [] |> fun e => by simpa using e
        rw [← hpp]
        have : ((bs.drop r.padOffset).take r.padLen).length = r.padLen := by rw [hpp, hview]; rfl
        rw [this]
        have : p.frames.length = r.count := by rw [hview]; rfl
        rw [this]; exact hfree
      have hps := pad_serialize p hv hpf newLen (by rw [← hbs]; omega)
      rw [← hbs, hpad] at hps; cases hps
      have hok : FramesOk p.toc p.frames := ⟨hv.toc_byte, valid_ne p hv, hv.frame_max, valid_dur p hv⟩
      have hmin := minSize_minimal false p hv
      simp only [Packet.lens] at hmin
      rw [← hbs] at hmin
      have hv' := outPacket_valid p.toc p.frames hok newLen false true (by omega)
      have hpc := FramingProofs.parse_complete false _ hv' [] (fun _ => rfl)
      simp only [List.append_nil] at hpc
      rw [hpc] at hparse; cases hparse
      obtain ⟨t, ht⟩ := serialize_cons false (outPacket p.toc p.frames newLen false true) []
      simp only [List.append_nil] at ht
      refine ⟨?_, by rw [ht]; rfl, ?_⟩
      · simp only [view, Packet.lens, outPacket_frames]; rw [hview]; rfl
      · simp only [view, outPacket_frames]; rw [hview]; rfl
  have ht4 : o.headD 0 / 4 = bs.headD 0 / 4 := by
    rw [← hsz.2.1, htoc, (hlen bs r hb h).2.1]
  have hc := toc_helpers_congr _ _ ht4
  refine ⟨o, r', hpad, hparse, hsz.1, hsl, fun fs => (hc fs).1, (hc 0).2.1, (hc 0).2.2.1, (hc 0).2.2.2, ?_, hsz.2.2, ht4⟩
  intro st frame_size fec
  exact nativeRet_congr st o bs false false r' r frame_size fec hparse h ht4 hsz.2.2

/-- Clause "padding gives … the same decoded audio and final range" (`pad_same_decode`, with C01's decoder
    skeleton `Opus.DecSkel.decodeNative`, read-only): for a valid packet `x` (padding without extensions),
    `y = pad x`, and DSP oracles that behave the same when handed the same frame bytes at the shifted
    address (`OracleShift o1 o2 δ`, δ = difference of the two payload offsets — frames of `x` and `y` are
    byte-identical by `pad_spec`), `opus_decode_native` on `y` returns the same value and ends in the same
    run — same decoder state, same oracle-call counter, and the same log of inner calls (SILK, CELT,
    range-decoder init, PCM writes) once the frame offsets recorded in the log are shifted by δ — from every
    start run, for every `frame_size`, `decode_fec`, output pointer and soft-clip flag.  Hence the same audio
    and the same final range. -/
theorem pad_same_decode (bs : Bytes) (hb : BytesOk bs) (r : Parsed) (h : parseImpl false bs = .ok r)
    (hfree : Ext.count ((bs.drop r.padOffset).take r.padLen) r.padLen r.count = .ok 0)
    (newLen : Int) (hge : (bs.length : Int) ≤ newLen) :
    ∃ y r', packetPad bs newLen = .ok y ∧ parseImpl false y = .ok r' ∧
      ∀ (o1 o2 : Oracle), OracleShift o1 o2 ((r'.payloadOffset : Int) - (r.payloadOffset : Int)) →
      ∀ (pcm : Ptr) (frame_size fec : Int) (sc : Bool) (run : Run),
        (decodeNative o2 (some y) y.length pcm frame_size fec false sc
            (shiftRun ((r'.payloadOffset : Int) - (r.payloadOffset : Int)) run)).ret =
          (decodeNative o1 (some bs) bs.length pcm frame_size fec false sc run).ret ∧
        (decodeNative o2 (some y) y.length pcm frame_size fec false sc
            (shiftRun ((r'.payloadOffset : Int) - (r.payloadOffset : Int)) run)).run =
          shiftRun ((r'.payloadOffset : Int) - (r.payloadOffset : Int))
            (decodeNative o1 (some bs) bs.length pcm frame_size fec false sc run).run := by
  obtain ⟨y, r', hpad, hparse, hsz, _, _, _, _, _, _, hcount, htoc⟩ :=
    pad_same_packet_inputs bs hb r h hfree newLen hge
  refine ⟨y, r', hpad, hparse, ?_⟩
  intro o1 o2 hos pcm frame_size fec sc run
  exact decodeNative_shift bs y false false r r' h hparse hsz.symm hcount.symm htoc.symm hos pcm frame_size fec sc run

/-- `int_ranges` (extension-free paths): on every reachable state and valid range the sizes the code adds
    up lie in `[1, 61298]`; with `maxlen` any `opus_int32`, the padding arithmetic (`pad_amount`, `nb_255s`,
    the re-check `tot_size + nb_255s + 1 > maxlen` — which never fires —, the final length byte, the final
    `tot_size`) stays inside `opus_int32`; the 120 ms product in `cat` is at most 53280; every stored
    `len[i]` fits `opus_int16`.  So the unbounded-integer model and the 32-bit code agree there. -/
theorem int_ranges_noext (s : Rp) (hs : Reachable s) (b e : Nat) (hb : b < e) (he : e ≤ s.nbFrames) (sd : Bool)
    (maxlen : Int) (hm : I32 maxlen) :
    (1 ≤ minSize sd ((selFrames s b e).map List.length) ∧
     minSize sd ((selFrames s b e).map List.length) ≤
       tot3 ((selFrames s b e).map List.length) (sdSize sd (((selFrames s b e).map List.length).getLastD 0)) ∧
     tot3 ((selFrames s b e).map List.length) (sdSize sd (((selFrames s b e).map List.length).getLastD 0)) ≤ 61298) ∧
    (∀ tot : Int, 2 ≤ tot ∧ tot ≤ 61298 → tot ≤ maxlen →
       I32 (maxlen - tot) ∧ I32 ((maxlen - tot - 1) / 255) ∧ I32 (tot + (maxlen - tot - 1) / 255 + 1) ∧
       I32 (tot + (maxlen - tot)) ∧ (1 ≤ maxlen - tot → tot + (maxlen - tot - 1) / 255 + 1 ≤ maxlen) ∧
       I32 (maxlen - tot - 255 * ((maxlen - tot - 1) / 255) - 1)) ∧
    (∀ (curr b0 : Nat), curr ≤ 63 → b0 < 256 →
       (curr + (withToc s b0).nbFrames) * (withToc s b0).framesize ≤ 53280) ∧
    (∀ f ∈ s.frames, f.length ≤ 32767) :=
  ⟨sel_size_ranges s (reachable_inv hs) b e hb he sd,
   fun tot ht hfit => pad_arith_ranges tot maxlen ht hm hfit,
   fun curr b0 hc hb0 => (cat_arith_ranges s (reachable_inv hs) curr hc b0 hb0).1,
   fun f hf => (cat_arith_ranges s (reachable_inv hs) 0 (by omega) 0 (by omega)).2 f hf⟩

/-- `int_ranges`, extension path (repacketizer.c:271-299): with `tot` the size before padding (`2 ≤ tot ≤ 61298`
    on reachable states by `int_ranges_noext`), `maxlen` any `opus_int32 ≥ tot` and `ext_len` what the dry
    run of the generator returned (`0 ≤ ext_len ≤ maxlen - tot`, larger lists are refused by the generator):
    every intermediate — `pad_amount` (both branches), `ext_len/254`, `nb_255s`, the re-check
    `tot_size + ext_len + nb_255s + 1`, `ext_begin`, `ones_begin`, the final `tot_size`, the last length
    byte — is an `opus_int32`, provided `maxlen ≤ 2139062142` (= 2^31 − 8421506) or `ext_len ≤ 2^30`.
    Beyond: see `int_ranges_ext_tight`. -/
theorem int_ranges_ext (tot maxlen extLen : Int) (pad : Bool) (ht : 2 ≤ tot ∧ tot ≤ 61298) (hm : I32 maxlen)
    (hfit : tot ≤ maxlen) (he : 0 ≤ extLen ∧ extLen ≤ maxlen - tot)
    (hbound : maxlen ≤ 2139062142 ∨ extLen ≤ 1073741824) :
    let amount := if pad then maxlen - tot else extLen + extLen / 254 + 1
    let nb := (amount - 1) / 255
    I32 (maxlen - tot) ∧ I32 (extLen / 254) ∧ I32 (extLen + extLen / 254) ∧ I32 amount ∧ I32 (amount - 1) ∧ I32 nb ∧
    I32 (tot + extLen) ∧ I32 (tot + extLen + nb) ∧ I32 (tot + extLen + nb + 1) ∧
    I32 (tot + amount) ∧ I32 (tot + amount - extLen) ∧ I32 (tot + nb + 1) ∧
    I32 (255 * nb) ∧ I32 (amount - 255 * nb - 1) :=
  ext_arith_ranges tot maxlen extLen pad ht hm hfit he hbound

/-- The bound of `int_ranges_ext` is tight: at `maxlen = 2139062143` (no `pad`, extension payload filling the
    buffer) the sum of the re-check is `2^31`, and at `maxlen = INT32_MAX` with `pad` it exceeds it.  Reaching
    this needs more than 2 GB of extension payload; the C code would then compute a signed overflow (undefined
    behaviour), which is outside the model — recorded, not a reachable defect. -/
theorem int_ranges_ext_tight :
    (let maxlen : Int := 2139062143
     let tot : Int := 2
     let extLen : Int := maxlen - tot
     ¬ I32 (tot + extLen + (extLen + extLen / 254 + 1 - 1) / 255 + 1)) ∧
    (let maxlen : Int := 2147483647
     let tot : Int := 2
     let extLen : Int := maxlen - tot
     ¬ I32 (tot + extLen + (maxlen - tot - 1) / 255 + 1)) :=
  ext_arith_overflow_example

/-- `opus_multistream_packet_unpad` on ARBITRARY bytes, `n ≥ 1` streams: accepted exactly when the bytes are
    `n-1` self-delimited valid packets followed by one standard valid packet (`MsShape n bs`, the shape C10
    proves for `opus_multistream_packet_validate`, minus the equal-duration requirement, which unpad does not
    check); then the result is the concatenation of the canonical packets.  Anything else is refused with
    `OPUS_INVALID_PACKET` (`OPUS_BAD_ARG` for an empty buffer); never an out-of-bounds read or an assertion.
    NOTE (true of the code, not expressible in the pure model): on rejection the C function has already
    rewritten the streams before the offending one in the caller's buffer. -/
theorem ms_unpad_bytes (bs : Bytes) (hb : BytesOk bs) (n : Nat) (hn : 1 ≤ n) :
    (∀ ps : List Packet, ps.length = n → (∀ p ∈ ps, Valid p) → bs = msSerialize ps →
        msUnpad bs n = .ok (msSerialize (ps.map fun p => canonPacket p.toc p.frames))) ∧
    ((∃ out, msUnpad bs n = .ok out) ↔ MsShape n bs) ∧
    (bs ≠ [] → ¬ MsShape n bs → msUnpad bs n = .err .invalidPacket) ∧
    (bs = [] → msUnpad bs n = .err .badArg) := by
  obtain ⟨h1, h2, h3⟩ := msUnpad_bytes bs hb n hn
  refine ⟨h1, ⟨?_, ?_⟩, h2, h3⟩
  · rintro ⟨out, ho⟩
    apply Classical.byContradiction
    intro hns
    by_cases hne : bs = []
    · rw [h3 hne] at ho; cases ho
    · rw [h2 hne hns] at ho; cases ho
  · rintro ⟨ps, hlen, hv, hbs⟩
    exact ⟨_, h1 ps hlen hv hbs⟩

/-- `opus_multistream_packet_pad` on ARBITRARY non-empty bytes, `n ≥ 1` streams: `BAD_ARG` for
    `new_len < len`, `OK` with the buffer as it is for `new_len = len` (the packet is not looked at); for
    `new_len > len`: multistream shape with an extension-free last stream ⇒ `OK`, all padding in the last
    stream; no multistream shape ⇒ `OPUS_INVALID_PACKET` — or `OPUS_BAD_ARG` in the single case where `n-1`
    self-delimited packets use up the whole buffer (the code then calls `opus_packet_pad` with `len = 0`).
    In every rejecting case the C function has not written to the buffer (it only parses, and
    `opus_packet_pad` works on a copy until `cat` has accepted). -/
theorem ms_pad_bytes (bs : Bytes) (hb : BytesOk bs) (hne : bs ≠ []) (n : Nat) (hn : 1 ≤ n) (newLen : Int) :
    (newLen < bs.length → msPad bs newLen n = .err .badArg) ∧
    (newLen = bs.length → msPad bs newLen n = .ok bs) ∧
    ((bs.length : Int) < newLen →
      (∀ (pre : List Packet) (last : Packet), pre.length + 1 = n → (∀ p ∈ pre, Valid p) → Valid last → PadFree last →
          bs = msJoin pre last →
          msPad bs newLen n = .ok (msJoin pre (outPacket last.toc last.frames
              ((serialize false last).length + (newLen - bs.length)) false true))) ∧
      (¬ MsShape n bs →
        msPad bs newLen n = .err .invalidPacket ∨
        (msPad bs newLen n = .err .badArg ∧ ∃ pre : List Packet, pre.length = n - 1 ∧ (∀ p ∈ pre, Valid p) ∧
            bs = pre.flatMap (serialize true)))) := by
  have hlen : ¬ bs.length < 1 := by
    cases bs with
    | nil => exact absurd rfl hne
    | cons => simp
  refine ⟨?_, ?_, ?_⟩
  · intro h; unfold msPad; rw [if_neg hlen, if_neg (by omega), if_pos (by omega)]
  · intro h; unfold msPad; rw [if_neg hlen, if_pos h.symm]
  · intro hgt
    refine ⟨?_, msPad_reject bs hb hne n hn newLen hgt⟩
    intro pre last hpl hv hl hpf hbs
    have := msPad_serialize pre last hv hl hpf newLen (by rw [← hbs]; exact hgt)
    rw [hpl, ← hbs] at this
    exact this

/-- Composition with C10: a packet accepted by `opus_multistream_packet_validate` (C10's model
    `msPacketValidate`: `n` valid sub-packets of equal duration `k`) is accepted by
    `opus_multistream_packet_unpad`; the result is not longer and is accepted by the validator again, with
    the same duration — so the multistream decoder's entry checks pass on it exactly as on the original. -/
theorem ms_unpad_validated (bs : Bytes) (hb : BytesOk bs) (n fs k : Nat) (hn : 1 ≤ n) (hfs : Opus.LayoutSpec.Rate fs)
    (h : Opus.Layout.msPacketValidate bs n fs = .ok k) :
    ∃ out, msUnpad bs n = .ok out ∧ out.length ≤ bs.length ∧ Opus.Layout.msPacketValidate out n fs = .ok k :=
  msUnpad_validated bs hb n fs k hn hfs h

/-- Decoder-facing consequence of multistream unpad, stream by stream: stream `s` of
    `opus_multistream_decode_native` is handed the bytes that remain after the previous streams, i.e.
    `msSerialize (ps.drop s)` for the original and the same with canonical packets for the unpadded packet;
    both parse (framing: self-delimited unless last) with the same frame sizes, and C01's `opus_decode_native`
    skeleton returns the same value and ends in the same run up to the shift of the frame offsets, for DSP
    oracles that behave the same on the same frame bytes — from every start run.  (The whole-call statement is
    `ms_unpad_same_decode` below.) -/
theorem ms_unpad_stream_same_decode (ps : List Packet) (hv : ∀ p ∈ ps, Valid p) (s : Nat) (hs : s < ps.length) :
    ∃ (p1 p2 : Parsed),
      parseImpl (decide (s ≠ ps.length - 1)) (msSerialize (ps.drop s)) = .ok p1 ∧
      parseImpl (decide (s ≠ ps.length - 1)) (msSerialize ((ps.map fun p => canonPacket p.toc p.frames).drop s)) = .ok p2 ∧
      p1.sizes = p2.sizes ∧
      ∀ (o1 o2 : Oracle), OracleShift o1 o2 ((p2.payloadOffset : Int) - (p1.payloadOffset : Int)) →
      ∀ (pcm : Ptr) (frame_size fec : Int) (sc : Bool) (run : Run),
        (decodeNative o2 (some (msSerialize ((ps.map fun p => canonPacket p.toc p.frames).drop s)))
            (msSerialize ((ps.map fun p => canonPacket p.toc p.frames).drop s)).length pcm frame_size fec
            (decide (s ≠ ps.length - 1)) sc (shiftRun ((p2.payloadOffset : Int) - (p1.payloadOffset : Int)) run)).ret =
          (decodeNative o1 (some (msSerialize (ps.drop s))) (msSerialize (ps.drop s)).length pcm frame_size fec
            (decide (s ≠ ps.length - 1)) sc run).ret ∧
        (decodeNative o2 (some (msSerialize ((ps.map fun p => canonPacket p.toc p.frames).drop s)))
            (msSerialize ((ps.map fun p => canonPacket p.toc p.frames).drop s)).length pcm frame_size fec
            (decide (s ≠ ps.length - 1)) sc (shiftRun ((p2.payloadOffset : Int) - (p1.payloadOffset : Int)) run)).run =
          shiftRun ((p2.payloadOffset : Int) - (p1.payloadOffset : Int))
            (decodeNative o1 (some (msSerialize (ps.drop s))) (msSerialize (ps.drop s)).length pcm frame_size fec
              (decide (s ≠ ps.length - 1)) sc run).run :=
  ms_unpad_stream_decode ps hv s hs

/-- Decoder-facing consequence of multistream unpad, whole call (`ms_unpad_same_decode`): C01's model
    `msDecodeFull` of `opus_multistream_decode_native` — entry checks incl. `opus_multistream_packet_validate`, the
    stream loop with the real per-stream `opus_decode_native` skeleton, C10's copy-out routing — run on a
    multistream packet `msSerialize ps` (valid sub-packets, one per stream of the layout) and on its unpadded
    form, with per-stream DSP oracles that behave the same when handed the same frame bytes at the shifted
    address (`OracleShift (os1 i) (os2 i) dᵢ`, `dᵢ = firstShift (ps.drop i)` = payload offset of stream `i`'s
    canonical packet minus that of the original): the same return value, the same decoder states of all
    streams, the same `copy_channel_out` calls, the same per-stream return values, and per-stream event logs
    that are equal once the frame offsets recorded in stream `i`'s log are shifted by some `dᵢ`.  Hence
    the same audio.  From any stream states, for every `frame_size`, `decode_fec`, soft-clip flag. -/
theorem ms_unpad_same_decode (os1 os2 : Nat → Oracle) (l : Layout.ChannelLayout) (Fs : Int) (sts : List DecState)
    (ps : List Packet) (hne : ps ≠ []) (hv : ∀ p ∈ ps, Valid p) (hn : ps.length = l.nbStreams)
    (hos : ∀ i, i < ps.length → OracleShift (os1 i) (os2 i) (firstShift (ps.drop i)))
    (frame_size fec : Int) (sc : Bool) :
    ∃ out, msUnpad (msSerialize ps) ps.length = .ok out ∧
      (msDecodeFull os2 l Fs sts out out.length frame_size fec sc).ret =
        (msDecodeFull os1 l Fs sts (msSerialize ps) (msSerialize ps).length frame_size fec sc).ret ∧
      (msDecodeFull os2 l Fs sts out out.length frame_size fec sc).sts =
        (msDecodeFull os1 l Fs sts (msSerialize ps) (msSerialize ps).length frame_size fec sc).sts ∧
      (msDecodeFull os2 l Fs sts out out.length frame_size fec sc).copies =
        (msDecodeFull os1 l Fs sts (msSerialize ps) (msSerialize ps).length frame_size fec sc).copies ∧
      (msDecodeFull os2 l Fs sts out out.length frame_size fec sc).trace.map Prod.fst =
        (msDecodeFull os1 l Fs sts (msSerialize ps) (msSerialize ps).length frame_size fec sc).trace.map Prod.fst ∧
      ∃ ds : List Int,
        ds.length = (msDecodeFull os1 l Fs sts (msSerialize ps) (msSerialize ps).length frame_size fec sc).logs.length ∧
        (msDecodeFull os2 l Fs sts out out.length frame_size fec sc).logs =
          List.zipWith (fun lg d => lg.map (Ev.shiftOff d))
            (msDecodeFull os1 l Fs sts (msSerialize ps) (msSerialize ps).length frame_size fec sc).logs ds := by
  obtain ⟨h1, h2, h3, h4, h5⟩ := msDecodeFull_unpad os1 os2 l Fs sts ps hne hv hn hos frame_size fec sc
  exact ⟨_, msUnpad_serialize ps hne hv, h1, h2, h3, h4, h5⟩

/-- `ms_pad_same_decode`: the same for `opus_multistream_packet_pad` — only the last stream changes (it becomes
    `last'`, valid, same frames and configuration bits, by `ms_pad_spec`); with per-stream oracles related by the
    per-stream frame-offset shift (`firstShift2`: 0 for the untouched streams) `msDecodeFull` gives the same
    return value, stream states, copy-out calls, per-stream return values, and logs equal up to the shift. -/
theorem ms_pad_same_decode (os1 os2 : Nat → Oracle) (l : Layout.ChannelLayout) (Fs : Int) (sts : List DecState)
    (pre : List Packet) (last : Packet) (hv : ∀ p ∈ pre, Valid p) (hl : Valid last) (hfree : PadFree last)
    (hn : pre.length + 1 = l.nbStreams) (newLen : Int) (hgt : ((msJoin pre last).length : Int) < newLen)
    (frame_size fec : Int) (sc : Bool) :
    ∃ last', msPad (msJoin pre last) newLen (pre.length + 1 : Nat) = .ok (msJoin pre last') ∧ Valid last' ∧
      ((∀ i, i < pre.length + 1 →
          OracleShift (os1 i) (os2 i) (firstShift2 ((pre ++ [last]).drop i) ((pre ++ [last']).drop i))) →
       (msDecodeFull os2 l Fs sts (msJoin pre last') (msJoin pre last').length frame_size fec sc).ret =
         (msDecodeFull os1 l Fs sts (msJoin pre last) (msJoin pre last).length frame_size fec sc).ret ∧
       (msDecodeFull os2 l Fs sts (msJoin pre last') (msJoin pre last').length frame_size fec sc).sts =
         (msDecodeFull os1 l Fs sts (msJoin pre last) (msJoin pre last).length frame_size fec sc).sts ∧
       (msDecodeFull os2 l Fs sts (msJoin pre last') (msJoin pre last').length frame_size fec sc).copies =
         (msDecodeFull os1 l Fs sts (msJoin pre last) (msJoin pre last).length frame_size fec sc).copies ∧
       (msDecodeFull os2 l Fs sts (msJoin pre last') (msJoin pre last').length frame_size fec sc).trace.map Prod.fst =
         (msDecodeFull os1 l Fs sts (msJoin pre last) (msJoin pre last).length frame_size fec sc).trace.map Prod.fst ∧
       ∃ ds : List Int,
         ds.length = (msDecodeFull os1 l Fs sts (msJoin pre last) (msJoin pre last).length frame_size fec sc).logs.length ∧
         (msDecodeFull os2 l Fs sts (msJoin pre last') (msJoin pre last').length frame_size fec sc).logs =
           List.zipWith (fun lg d => lg.map (Ev.shiftOff d))
             (msDecodeFull os1 l Fs sts (msJoin pre last) (msJoin pre last).length frame_size fec sc).logs ds) := by
  have hok : FramesOk last.toc last.frames := ⟨hl.toc_byte, valid_ne last hl, hl.frame_max, valid_dur last hl⟩
  have hmin := minSize_minimal false last hl
  simp only [Packet.lens] at hmin
  have hlen : (msJoin pre last).length = (pre.flatMap (serialize true)).length + (serialize false last).length := by
    simp [msJoin]
  have hv' := outPacket_valid last.toc last.frames hok
    ((serialize false last).length + (newLen - (msJoin pre last).length)) false true (by omega)
  refine ⟨_, msPad_serialize pre last hv hl hfree newLen hgt, hv', ?_⟩
  intro hos
  obtain ⟨h1, h2, h3, h4, h5⟩ := msDecodeFull_pad os1 os2 l Fs sts pre last _ hv
    ⟨hl, hv', outPacket_frames _ _ _ _ _, outPacket_toc _ _ _ _ _⟩ hn hos frame_size fec sc
  exact ⟨h1, h2, h3, h4, h5⟩

/-- The complement of `out_roundtrip_ext`'s hypothesis `hpos`: no caller extensions and NOTHING gathered for
    this range — whether because the overlapping paddings carry nothing / are malformed, or because every
    extension stored in them belongs to a frame outside `[begin,end)`, and whatever paddings of packets
    outside the range contain.  Then `out_range_impl` behaves exactly as in the extension-free case
    (`out_roundtrip` / `out_size` verbatim).  Together with `out_roundtrip_ext` (gathered list non-empty)
    every reachable state, range and argument is covered. -/
theorem out_nothing_gathered (s : Rp) (hs : Reachable s) (b e : Nat) (hb : b < e) (he : e ≤ s.nbFrames)
    (hnil : gathered (s.pads.take e) 0 b e = []) (maxlen : Int) (sd pad : Bool) :
    outRangeImpl s b e maxlen sd pad #[] =
      (if minSize sd ((selFrames s b e).map List.length) > maxlen then .err .bufferTooSmall
       else .ok (serialize sd (outPacket s.toc (selFrames s b e) maxlen sd pad))) ∧
    (minSize sd ((selFrames s b e).map List.length) ≤ maxlen →
       Valid (outPacket s.toc (selFrames s b e) maxlen sd pad) ∧
       (outPacket s.toc (selFrames s b e) maxlen sd pad).frames = selFrames s b e ∧
       ((serialize sd (outPacket s.toc (selFrames s b e) maxlen sd pad)).length : Int) =
         (if pad then maxlen else minSize sd ((selFrames s b e).map List.length))) :=
  ⟨outRangeImpl_nogather s (reachable_padsOk hs) b e hb he hnil maxlen sd pad,
   fun hfit => ⟨outPacket_valid _ _ (selFrames_ok s (reachable_inv hs) b e hb he).1 _ _ _ hfit, outPacket_frames _ _ _ _ _,
     outPacket_len _ _ (selFrames_ok s (reachable_inv hs) b e hb he).1.ne _ _ _ hfit⟩⟩

/-- The extension-free hypothesis is met by everything the library itself pads: zero padding (and no
    padding) has extension count 0 (`count_zeros` is C16's lemma), so packets produced by `out` with
    `pad` or by `opus_packet_pad` can be `cat`-ed / padded / unpadded again under the theorems above. -/
theorem emitted_padding_ext_free (toc : Nat) (frames : List Bytes) (hn : frames.length ≤ 48) (maxlen : Int) (sd pad : Bool) :
    PadFree (outPacket toc frames maxlen sd pad) := by
  unfold PadFree
  rw [outPacket_frames]
  have hz : ∀ k : Nat, Ext.count (List.replicate k 0) ((List.replicate k 0).length) frames.length = .ok 0 := by
    intro k; simp only [List.length_replicate]; exact Opus.ExtProofs.count_zeros k _ hn
  unfold outPacket
  split
  · exact count_nil _ hn
  · unfold highPacket padBytes
    cases pad with
    | false => exact count_nil _ hn
    | true =>
      simp only [if_true]
      unfold padOf
      split
      · rename_i pd hpd
        split at hpd
        · cases hpd
        · simp only [Option.some.injEq] at hpd; subst hpd; exact hz _
      · exact count_nil _ hn

/-! ### Non-vacuity: a concrete history satisfies every hypothesis used above -/

/-- Two CELT 2.5 ms packets (code 0, and code 3 VBR with 3 frames) and an incompatible one. -/
def pkA : Bytes := [0x80, 1, 2, 3]
def pkB : Bytes := [0x83, 0x83, 2, 0, 9, 9, 7]
def pkBad : Bytes := [0x88, 5]
def exOps : List RepackProofs.Op := [.cat pkA, .cat pkBad, .cat pkB, .out 100]
def exState : Rp := run Rp.empty exOps

private theorem exReach : Reachable exState :=
  ⟨exOps, by intro bs h; simp [exOps] at h; rcases h with rfl | rfl | rfl <;> decide, rfl⟩

private theorem exFrames : exState.frames = [[1, 2, 3], [9, 9], [], [7]] ∧ exState.pads = [([], 1), ([], 3), ([], 0), ([], 0)] ∧
    exState.toc = 0x80 := by decide +kernel

private theorem exFree : ExtFree exState.pads := by
  rw [exFrames.2.1]
  intro pn h
  simp at h
  rcases h with rfl | rfl | rfl <;> exact count_nil _ (by decide)

/-- the rejected `cat` of the incompatible packet in the middle of the history -/
example : (cat (run Rp.empty [.cat pkA]) pkBad).2 = .err .invalidPacket := by decide +kernel
/-- `out` of the whole content succeeds with 11 bytes (minimal size, code 3 VBR) and parses back -/
example : ∃ bs, outRangeImpl exState 0 4 100 false false #[] = .ok bs ∧ (bs.length : Int) = 11 := by
  have h := (out_size exState exReach exFree 0 4 (by decide) (by decide +kernel) 100 false false).2
  have hm : minSize false ((selFrames exState 0 4).map List.length) = 11 := by
    simp only [selFrames, exFrames.1]; decide +kernel
  rw [hm] at h
  exact h (by decide)
/-- and is refused with 10 -/
example : outRangeImpl exState 0 4 10 false false #[] = .err .bufferTooSmall := by
  apply (out_size exState exReach exFree 0 4 (by decide) (by decide +kernel) 10 false false).1.mpr
  simp only [selFrames, exFrames.1]; decide +kernel
/-- pad / unpad hypotheses hold for `pkA` (no padding, hence no extensions) -/
example : ∃ r, parseImpl false pkA = .ok r ∧
    Ext.count ((pkA.drop r.padOffset).take r.padLen) r.padLen r.count = .ok 0 :=
  ⟨{ toc := 0x80, count := 1, sizes := [3], payloadOffset := 1, padLen := 0, packetOffset := 4 }, by decide +kernel,
   count_nil 1 (by decide)⟩
/-- the serialiser spec on the padded packet: pad_amount 4 → code 3, one length byte `3`, three zeros -/
example : serialize false (outPacket 0x80 [[1, 2, 3]] 9 false true) = [0x83, 0x41, 3, 1, 2, 3, 0, 0, 0] := by
  decide +kernel

/-! #### extension carriage: hypotheses of `out_roundtrip_ext_norepeat` are satisfiable -/

/-- (a) a caller-supplied extension for frame 0 on the 4-frame history above -/
def exE : Array Ext := #[{ id := 5, frame := 0, data := [7], len := 1 }]

private theorem exGathered (b e : Nat) : gathered (exState.pads.take e) 0 b e = [] :=
  gathered_nil _ (fun pn h => padRefs_of_count_zero _ _ (exFree pn (List.mem_of_mem_take h))) 0 b e

example : AllValid exE (4 - 0) ∧ 0 < (exE ++ (gathered (exState.pads.take 4) 0 0 4).toArray).size ∧
    NoRepeat (exE ++ (gathered (exState.pads.take 4) 0 0 4).toArray) (4 - 0) := by
  rw [exGathered]
  exact ⟨allValid_of_all _ _ (by decide +kernel), by decide, noRepeat_last_empty _ _ (by decide +kernel)⟩

/-- … the call succeeds with 14 bytes (frames as before, padding `0b 07` = ID 5, L=1, payload 07) and is
    refused with 13. -/
example : outRangeImpl exState 0 4 100 false false exE =
      .ok [0x83, 0xc4, 0x02, 0x03, 0x02, 0x00, 0x01, 0x02, 0x03, 0x09, 0x09, 0x07, 0x0b, 0x07] ∧
    outRangeImpl exState 0 4 13 false false exE = .err .bufferTooSmall := by
  have hv : AllValid exE (4 - 0) := allValid_of_all _ _ (by decide +kernel)
  have hpos : 0 < (exE ++ (gathered (exState.pads.take 4) 0 0 4).toArray).size := by rw [exGathered]; decide
  have hnr : NoRepeat (exE ++ (gathered (exState.pads.take 4) 0 0 4).toArray) (4 - 0) := by
    rw [exGathered]; exact noRepeat_last_empty _ _ (by decide +kernel)
  have heq := fun ml => outRangeImpl_ext_eq exState (reachable_inv exReach) (reachable_padsOk exReach) 0 4 (by decide)
    (by decide +kernel) exE hv hpos hnr ml false false
  constructor
  · show outRangeImpl exState (0 : Nat) (4 : Nat) 100 false false exE = _
    rw [heq 100]
    simp only [exGathered, selFrames, exFrames.1, exFrames.2.2]
    decide +kernel
  · show outRangeImpl exState (0 : Nat) (4 : Nat) 13 false false exE = _
    rw [heq 13]
    simp only [exGathered, selFrames, exFrames.1]
    decide +kernel

/-- (b) a stored packet whose padding is an extension list: `03 42 03 AA BB | 02 0B 5A` (two 1-byte
    frames; padding = "next frame", ID 5 with payload 5A, i.e. an extension of frame 1), split with
    out_range(1,2): the extension is gathered and renumbered to frame 0. -/
def pkX : Bytes := [0x03, 0x42, 0x03, 0xAA, 0xBB, 0x02, 0x0B, 0x5A]
def exStateX : Rp := run Rp.empty [.cat pkX]

private theorem exReachX : Reachable exStateX :=
  ⟨[.cat pkX], by intro bs h; simp at h; subst h; decide, rfl⟩

private theorem exPadsX : exStateX.pads = [(serBytes 0 [{ id := 5, frame := 1, data := [0x5A], len := 1 }], 2), ([], 0)] ∧
    exStateX.frames = [[0xAA], [0xBB]] := by decide +kernel

example : gathered (exStateX.pads.take 2) 0 1 2 = [{ id := 5, frame := 0, data := [0x5A], len := 1 }] ∧
    gathered (exStateX.pads.take 1) 0 0 1 = [] := by
  have h := padRefs_ser [{ id := 5, frame := 1, data := [0x5A], len := 1 }] 2 (by decide)
    (by intro e he; simp at he; subst he; exact (validExt_iff _ _).mpr (by decide)) ⟨by decide, trivial⟩ (by decide)
  rw [exPadsX.1]
  simp only [List.take, gathered, h]
  decide +kernel

/-- … and for the range (0,1) of the same state the stored extension belongs to frame 1, outside the range:
    nothing is gathered although the stored padding is a non-empty extension list (`out_nothing_gathered`). -/
example : gathered (exStateX.pads.take 1) 0 0 1 = [] ∧ padRefs exStateX.pads.head!.1 exStateX.pads.head!.2 ≠ [] := by
  have h := padRefs_ser [{ id := 5, frame := 1, data := [0x5A], len := 1 }] 2 (by decide)
    (by intro e he; simp at he; subst he; exact (validExt_iff _ _).mpr (by decide)) ⟨by decide, trivial⟩ (by decide)
  rw [exPadsX.1]
  simp only [List.take, gathered, List.head!, h]
  decide +kernel

/-- (c) hypotheses of `out_roundtrip_ext_nopad` with a repeat-eligible list (ID 5 in both frames, on top of the
    stored extension of frame 1): nothing but validity and non-emptiness is required. -/
def exR : Array Ext := #[{ id := 5, frame := 0, data := [1], len := 1 }, { id := 5, frame := 1, data := [2], len := 1 }]
example : AllValid exR (2 - 0) ∧ 0 < (exR ++ (gathered (exStateX.pads.take 2) 0 0 2).toArray).size ∧
    (2 : Nat) ≤ exStateX.nbFrames :=
  ⟨allValid_of_all _ _ (by decide +kernel), by simp [exR], by rw [Rp.nbFrames, exPadsX.2]; decide⟩

/-! #### pad_same_decode: the oracle hypothesis is satisfiable, and the packet hypotheses hold for `pkA` -/
def exOr : Oracle :=
  { silk := fun _ _ => (0, 0, 1), celt := fun _ a => a.frame_size, bit := fun _ _ t => (0, t), uint := fun _ _ t => (0, t) }
example (d : Int) : OracleShift exOr exOr d :=
  { silk := fun _ _ => rfl, celt := fun _ _ => rfl, bit := fun _ _ _ => rfl, uint := fun _ _ _ => rfl }
example : ∃ y r', packetPad pkA 9 = .ok y ∧ parseImpl false y = .ok r' ∧ r'.payloadOffset = 3 := by
  obtain ⟨y, r', h1, h2, _⟩ := pad_same_decode pkA (by decide)
    { toc := 0x80, count := 1, sizes := [3], payloadOffset := 1, padLen := 0, packetOffset := 4 } (by decide +kernel)
    (count_nil 1 (by decide)) 9 (by decide)
  have hy : packetPad pkA 9 = .ok (serialize false (outPacket 0x80 [[1, 2, 3]] 9 false true)) := by
    have := pad_serialize { toc := 0x80, frames := [[1, 2, 3]], vbr := false, pad := none }
      (by refine ⟨by decide, by decide, ?_, ?_, ?_, ?_, by intro pd h; cases h⟩ <;> simp [Packet.code] ) (count_nil 1 (by decide)) 9 (by decide)
    exact this
  rw [hy] at h1; cases h1
  refine ⟨_, _, hy, h2, ?_⟩
  have : parseImpl false (serialize false (outPacket 0x80 [[1, 2, 3]] 9 false true)) =
      .ok { toc := 0x83, count := 1, sizes := [3], payloadOffset := 3, padLen := 3, packetOffset := 9 } := by decide +kernel
  rw [this] at h2; cases h2; rfl
