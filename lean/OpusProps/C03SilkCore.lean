import OpusProofs.SilkCoreBasic
import OpusProofs.SilkCoreHist
import OpusProofs.SilkCoreIndep
import OpusProofs.SilkCoreExample
import OpusProofs.SilkCoreBridge
import OpusProofs.SilkCoreRange
/-
  OpusProps.C03SilkCore — property C03, slice SilkCore: theorems about the frozen bit-exact reference of the SILK frame
  synthesis at the internal rate (`OpusModel/SilkCore.lean`, `SilkCoreSynth.lean`, `SilkCoreFrame.lean`), for all states and
  inputs.  The tie (harness/c03_silkcore.c) checks that the library computes exactly this function.

  Predicates (OpusProofs/SilkCoreState.lean, SilkCoreParams.lean, SilkCoreTotal.lean):
    `StateOk s`        configuration of silk_decoder_set_fs, buffer sizes of structs.h, outBuf holds int16 values, the first
                       LPC_order previous NLSFs in [0, 32767], LastGainIndex in [0, 63], lagPrev in [2 ms, 18 ms] when the previous
                       frame was a concealed voiced one;
    `FrameOk fs nb f`  the index ranges the symbol layer delivers (OpusProps.C03.silkSyms_indices_in_range): signal type, offset
                       type, NLSF first-stage index, interpolation factor, contour / PER / LTP / LTP-scale index of voiced frames,
                       frame_length pulses — NO condition on gain indices, lagIndex, NLSF residuals, seed or pulse values;
    `CoreHyp s f ctrl` what silk_decode_core needs from silk_decode_parameters: nb_subfr non-zero gains, nb_subfr lags, for
                       voiced frames in [2 ms, 18 ms] and at most 18 samples apart.
-/
namespace OpusProps.C03SilkCore
open Opus Opus.SilkParams Opus.SilkCore Opus.SilkCoreProofs

/-- Clause "every output sample is an int16 / the frame has `frame_length` samples".  For EVERY state, index set, pulse
    vector and decoder control block: if `silk_decode_core` completes, every sample it wrote to `xq[]` lies in
    `[-32768, 32767]`, exactly `frame_length = nb_subfr * 5 * fs_kHz` samples were written, `sLPC_Q14_buf` keeps its
    `MAX_LPC_ORDER` entries and `exc_Q14` its size. -/
theorem core_output_int16 (s : DecState) (f : FrameIn) (ctrl : Ctrl) (interp : Int) (o : CoreOut)
    (h : decodeCore s f ctrl interp = .ok o) :
    (∀ x ∈ o.xq, -32768 ≤ x ∧ x ≤ 32767) ∧ o.xq.length = frameLen s.fsKHz s.nbSubfr ∧
    (s.sLPC.length = 16 → o.sLPC.length = 16) ∧
    (frameLen s.fsKHz s.nbSubfr ≤ s.excQ14.length → o.excQ14.length = s.excQ14.length) :=
  decodeCore_spec s f ctrl interp o h

example : (frameGood exState exVoiced).isOk = true := exVoiced_ok

/-- The reference is frozen and the tree still agrees with it: the three LTP gain codebooks, `silk_LTPScales_table_Q14`,
    `silk_Quantization_Offsets_Q10` and every constant the model reads (QUANT_LEVEL_ADJUST_Q10, BWE_AFTER_LOSS_Q16, RAND_MULTIPLIER /
    RAND_INCREMENT, LTP_ORDER, MAX / MIN_LPC_ORDER, MAX_NB_SUBFR, LTP_MEM_LENGTH_MS, SUB_FRAME_LENGTH_MS, buffer sizes, signal-type
    codes, the state after a reset) regenerated from `/repo` on this run equal the frozen values of `OpusModel/SilkCoreFrozen.lean`, which are the ones the model reads. -/
theorem tables_frozen_eq_repo : Opus.SilkCoreFrozen.frozenEq = true := frozenEq_true

example : Opus.Frozen.SilkCoreTabs.ltpVq2.length = 160 ∧ Opus.Frozen.SilkCoreTabs.bweAfterLossQ16 = 63570 := by decide +kernel

/-- Clause "totality of silk_decode_parameters".  On EVERY invariant state and EVERY in-range index set the model of
    `silk_decode_parameters` completes (no table index out of range, no assertion), and the control block it leaves has
    `nb_subfr` gains in `[81920, 1686110208]` (so no division by zero in the core), `nb_subfr` lags — for a voiced frame inside
    `[2 ms, 18 ms]` and at most 18 samples apart —, `LPC_order` coefficients per half, `LastGainIndex` in `[0, 63]` and NLSFs in
    `[0, 32767]` for the next frame. -/
theorem parameters_total (s : DecState) (f : FrameIn) (hs : StateOk s) (hf : FrameOk s.fsKHz s.nbSubfr f) :
    ∃ p, decodeParameters s f = .ok p ∧ ParamsOk s.fsKHz s.nbSubfr f p :=
  decodeParameters_total s f hs hf

example : StateOk exState ∧ FrameOk exState.fsKHz exState.nbSubfr exVoiced := ⟨exState_ok, exVoiced_frameOk⟩

/-- Clause "in-range indices (as C03's symbol layer guarantees)".  The hypothesis `FrameOk` of the theorems in this file is what the
    symbol layer delivers: for EVERY range-decoder state (= every packet content), rate, 10 / 20 ms sub-frame count and coding mode,
    the indices `silk_decode_indices` returns (model `Opus.SilkSyms.decodeIndices`, tied to the library by C03 stage 1), put into the
    input record of the synthesis together with `frame_length` decoded pulses, satisfy `FrameOk`. -/
theorem symbol_layer_delivers_frame_ok (rate : Opus.SilkSyms.Rate) (nb : Nat) (hnb : nb = 2 ∨ nb = 4) (vadOrLbrr : Bool)
    (cc ps : Nat) (pl : Int) (c : Opus.RangeCoder.Dec) (ix : Opus.SilkSyms.Indices) (c' : Opus.RangeCoder.Dec)
    (h : Opus.SilkSyms.decodeIndices rate nb vadOrLbrr cc ps pl c = (ix, c')) (condCoding : Int) (pulses : List Int)
    (hp : frameLen rate.kHz nb ≤ pulses.length) :
    FrameOk rate.kHz nb (frameOfIndices condCoding ix pulses) :=
  frameOk_of_indicesOk
    (Opus.SilkSymsProofs.decodeIndices_ok rate nb (by omega) vadOrLbrr cc ps pl c ix c' h) hnb condCoding pulses hp

example (c : Opus.RangeCoder.Dec) : ∃ ix c', Opus.SilkSyms.decodeIndices .wb 4 true 2 2 100 c = (ix, c') :=
  ⟨(Opus.SilkSyms.decodeIndices .wb 4 true 2 2 100 c).1, (Opus.SilkSyms.decodeIndices .wb 4 true 2 2 100 c).2, (Prod.eta _).symm⟩

/-- Clause "totality of silk_decode_core".  Under `CoreHyp` — ANY state contents (signal history, filter state, previous gain,
    loss / reset status), ANY pulses, seed, LPC and LTP coefficients — the model of `silk_decode_core` never reaches `.oob` (a read
    of an element of `sLTP_Q15` not written in this call, an index outside `outBuf`, the pulse array or a table) nor `.abort`
    (`celt_assert( start_idx > 0 )`, `celt_assert( d <= len )`, a zero gain): it returns a frame. -/
theorem core_total (s : DecState) (f : FrameIn) (ctrl : Ctrl) (interp : Int) (H : CoreHyp s f ctrl) :
    ∃ o, decodeCore s f ctrl interp = .ok o ∧ o.pitchL.length = s.nbSubfr :=
  decodeCore_total s f ctrl interp H

example : ∃ p, decodeParameters exState exVoiced = .ok p ∧ ParamsOk 8 2 exVoiced p :=
  decodeParameters_total exState exVoiced exState_ok exVoiced_frameOk

/-- Clause "the good-frame path is total and preserves the state invariant".  From EVERY invariant state, for EVERY in-range
    index set and pulse vector: silk_decode_parameters → silk_decode_core → buffer update completes, the frame has `frame_length`
    int16 samples, the configuration is unchanged and the new state satisfies the invariant again. -/
theorem frame_total_preserves_invariant (s : DecState) (f : FrameIn) (hs : StateOk s) (hf : FrameOk s.fsKHz s.nbSubfr f) :
    ∃ o, frameGood s f = .ok o ∧ StateOk o.st ∧ o.st.fsKHz = s.fsKHz ∧ o.st.nbSubfr = s.nbSubfr ∧
      o.core.xq.length = frameLen s.fsKHz s.nbSubfr ∧ ∀ x ∈ o.core.xq, -32768 ≤ x ∧ x ≤ 32767 :=
  frameGood_total s f hs hf

example : (frameGood exState exVoiced).isOk = true ∧ StateOk exState := ⟨exVoiced_ok, exState_ok⟩

/-- Clause "… hence after every frame history" (list induction).  From an invariant state, EVERY sequence of good frames with
    in-range indices, of any length, is decoded completely: one frame of `frame_length` int16 samples per input, and the final state
    satisfies the invariant. -/
theorem history_total_invariant (fs : List FrameIn) (s : DecState) (hs : StateOk s)
    (hf : ∀ f ∈ fs, FrameOk s.fsKHz s.nbSubfr f) :
    ∃ xs s', runFrames s fs = some (xs, s') ∧ StateOk s' ∧ s'.fsKHz = s.fsKHz ∧ s'.nbSubfr = s.nbSubfr ∧
      xs.length = fs.length ∧
      ∀ xq ∈ xs, xq.length = frameLen s.fsKHz s.nbSubfr ∧ ∀ x ∈ xq, -32768 ≤ x ∧ x ≤ 32767 :=
  runFrames_total fs s hs hf

example : (runFrames exState [exVoiced, exUnvoiced]).isSome = true ∧
    (∀ f ∈ [exVoiced, exUnvoiced], FrameOk exState.fsKHz exState.nbSubfr f) :=
  ⟨exRun_ok, fun f hf => by
    rcases List.mem_cons.mp hf with h | h
    · rw [h]; exact exVoiced_frameOk
    · rw [List.mem_singleton.mp h]; exact exUnvoiced_frameOk⟩

/-- Clause "the frame output is a function of (indices, pulses, previous state) only".  The model is a function of the listed
    state members by construction; of those, the content of `exc_Q14` (written before it is read) is dead: replacing it by ANY list
    changes nothing in the frame — parameters, `xq`, every other state member — except the part of `exc_Q14` beyond `frame_length`
    (`x` below). -/
theorem frame_independent_of_stale_excitation (s : DecState) (f : FrameIn) (e : List Int) (o : FrameOut)
    (h : frameGood s f = .ok o) :
    ∃ x, frameGood { s with excQ14 := e } f =
      .ok { o with core := { o.core with excQ14 := x }, st := { o.st with excQ14 := x } } :=
  frameGood_exc s f e o h

example : (frameGood exState exVoiced).isOk = true := exVoiced_ok

/-- Range lemma (bonus clause "particular expressions cannot wrap"): the excitation arithmetic of decode_core.c:81-91.  For EVERY
    `opus_int16` pulse, seed and quantisation offset of magnitude up to 1024 (the table holds 25 … 240): `pulses[i] << 14` does not
    wrap and `exc_Q14[i]` stays inside `[-2^30, 2^30]` after the level adjustment, the offset and the sign flip — the plain C
    `+=`, `-=` and unary minus there are exact. -/
theorem excitation_no_wrap (off seed p : Int) (hp : -32768 ≤ p ∧ p ≤ 32767) (ho : -1024 ≤ off ∧ off ≤ 1024) :
    lshift32 p 14 = p * 16384 ∧ -1073741824 ≤ (excStep off seed p).1 ∧ (excStep off seed p).1 ≤ 1073741824 :=
  excStep_nowrap off seed p hp ho

example : (excStep 240 3 (-32768)).1 = 536865792 ∨ (excStep 240 3 (-32768)).1 = -536865792 := by decide +kernel

end OpusProps.C03SilkCore
