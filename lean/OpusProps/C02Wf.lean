import OpusProofs.EncSkelWfLow
import OpusProofs.EncSkelWfMulti
import OpusProofs.EncSkelWfSingle
import OpusProofs.EncSkelWfMultiPad
import OpusProofs.EncSkelWfLowEnc
import OpusProps.C02
/-
  Property C02, slice `Wf` — packet well-formedness of EVERY output shape of the encoder skeleton, with NO
  assumption about the repacketiser.

  `OpusProps.C02.encode_wellformed` proves that the bytes `header ++ frames ++ zero padding` of every success return
  parse, where header and size come from `Opus.EncSkel.outRange`, a *contract* function the skeleton assumes of
  `opus_repacketizer_out_range_impl` / `opus_packet_pad`.  Here that contract is discharged against the repacketiser
  MODEL of property C07 (`Opus.Repack`: `cat`, `outRangeImpl`, `emit`, `packetPad`, transcribed from
  src/repacketizer.c and tied to it by C07's own correspondence run) and the parser of C06 (`Framing.parseImpl`):

    Repack.emit  =  the contract outRange                         (contract_is_repack_model)
    init; cat sub-packet_1 … cat sub-packet_n; out_range_impl  =  the contract on the concatenated frames
                                                                  (repack_run_is_contract, wellformed_multiframe)
    Repack.packetPad  =  the contract padSpec, for every new_len   (pad_contract_is_model, packet_pad_is_run)
    every frame call returns a contract-shaped sub-packet          (frame_packet_is_contract_output)
    low-budget ToC-only / code-3 PLC packet, unpadded and padded   (wellformed_low_budget)
    opus_encode_native, multi-frame path: the emitted bytes are the model's run on the ACTUAL sub-packets of the loop
                                                                  (encode_wellformed_multiframe)
    opus_encode_native, single-frame path: the emitted bytes are the frame call's / the model's opus_packet_pad
                                                                  (encode_wellformed_single)
    every success return of opus_encode_native is such a run's output and parses to the frames handed in,
    count · samples_per_frame = frame_size                        (encode_wellformed)
-/
namespace OpusProps.C02Wf
open Opus Opus.Framing Opus.Repack Opus.EncSkel Opus.EncSkel.Proofs Opus.EncSkel.WfProofs

/-- The contract IS the model: for ANY ToC byte, ANY non-empty list of frames (any contents, any lengths), ANY `maxlen`
    and `pad` flag, everything `opus_repacketizer_out_range_impl` does after the extension gathering
    (repacketizer.c:191-334, C07 model `Repack.emit`, not self-delimited, no extensions) returns the same error code
    as the skeleton's contract `outRange`, or exactly the bytes `header ++ frames ++ zero padding` of the size the
    contract announces — codes 0, 1, 2, 3 CBR/VBR, with and without padding. -/
theorem contract_is_repack_model (toc : Nat) (frames : List Bytes) (hne : frames ≠ []) (maxlen : Nat) (pad : Bool) :
    Repack.emit toc frames (maxlen : Int) false pad #[] =
      (match EncSkel.outRange (toc / 4 * 4) (frames.map List.length) maxlen pad with
       | .ok r => .ok (pktBytes r.hdr frames r.size)
       | .err e => .err e
       | .oob => .oob
       | .abort => .abort) := by
  rw [emit_bridge toc frames hne maxlen pad]; rfl

/-- two CELT frames of 2 and 3 bytes, 9 bytes of space, padding requested: code 3 VBR with one padding byte. -/
example : Repack.emit 252 [[1, 2], [3, 4, 5]] 9 false true #[] = .ok [255, 194, 0, 2, 1, 2, 3, 4, 5] ∧
    EncSkel.outRange 252 [2, 3] 9 true = .ok { size := 9, hdr := [255, 194, 0, 2] } ∧
    Repack.emit 252 [[1, 2], [3, 4, 5]] 6 false true #[] = .err .bufferTooSmall := by decide +kernel

/-- The repacketiser run of the encoder IS the contract (opus_encoder.c:1677-1745; `opus_packet_pad`,
    repacketizer.c:347-381, is the same run with one input).  For ANY configuration byte, ANY list of sub-packets —
    each the frame encoder's own output for a non-empty chunk of frames: the code-0 packet `[toc] ++ frame`
    (`(len+1, false)`), the 1-byte DTX packet (`([[]], 1, false)`), or the CBR packet padded by `opus_packet_pad`
    to `max_data_bytes` (`(max_data_bytes, true)`, code 3 with zero padding), or a multi-frame ToC-only packet —
    with frames ≤ 1275 bytes and ≤ 120 ms in total: on the C07 model, `opus_repacketizer_init`, one
    `opus_repacketizer_cat` per sub-packet (EVERY one is accepted: no INVALID_PACKET, no out-of-bounds, no
    assertion) and `opus_repacketizer_out_range_impl(rp, 0, n, data, maxlen, 0, pad, NULL, 0)` return exactly what
    the contract `outRange` says for the concatenated frames: the same error, or `header ++ frames ++ zero padding`.
    The zero padding of the padded sub-packets is proved to carry no extensions (`Ext.count … = 0`). -/
theorem repack_run_is_contract (cfg : Nat) (subs : List Sub) (h4 : cfg % 4 = 0) (h256 : cfg < 256)
    (hsub : ∀ s ∈ subs, SubOk cfg s) (hne : subs ≠ [])
    (hle : ∀ f ∈ subs.flatMap (·.1), f.length ≤ 1275)
    (hdur : (subs.flatMap (·.1)).length * samplesPerFrame cfg 8000 ≤ 960) (maxlen : Nat) (pad : Bool) :
    repackRun (subs.map (subPkt cfg)) (subs.flatMap (·.1)).length maxlen pad =
      (match EncSkel.outRange cfg ((subs.flatMap (·.1)).map List.length) maxlen pad with
       | .ok r => .ok (pktBytes r.hdr (subs.flatMap (·.1)) r.size)
       | .err e => .err e
       | .oob => .oob
       | .abort => .abort) := by
  rw [repackRun_contract cfg subs h4 h256 hsub hne hle hdur maxlen pad]; rfl

/-- 60 ms CBR CELT stereo: a sub-frame padded to 8 bytes, a 1-byte DTX sub-frame, an unpadded sub-frame. -/
def exSubs : List Sub := [([[1, 2, 3]], 8, true), ([[]], 1, false), ([[7, 7, 7, 7, 7]], 6, false)]

example : exSubs.map (subPkt 252) = [[255, 65, 2, 1, 2, 3, 0, 0], [252], [252, 7, 7, 7, 7, 7]] ∧
    (∀ s ∈ exSubs, s.1 ≠ [] ∧ ∃ q, EncSkel.outRange 252 (s.1.map List.length) s.2.1 s.2.2 = .ok q) ∧
    EncSkel.outRange 252 [3, 0, 5] 20 true = .ok { size := 20, hdr := [255, 195, 7, 3, 0] } := by
  refine ⟨by decide +kernel, ?_, by decide +kernel⟩
  intro s hs
  simp only [exSubs, List.mem_cons, List.mem_nil_iff, or_false] at hs
  rcases hs with rfl | rfl | rfl
  · exact ⟨by simp, { size := 8, hdr := [255, 65, 2] }, by decide +kernel⟩
  · exact ⟨by simp, { size := 1, hdr := [252] }, by decide +kernel⟩
  · exact ⟨by simp, { size := 6, hdr := [252] }, by decide +kernel⟩

/-- `wellformed_multiframe` / `wellformed_dtx` / `wellformed_padded_single`: whenever the contract accepts
    (`outRange … = .ok r`: the sizes fit `maxlen`), the run above — multi-frame packets of 2 … 48 sub-frames
    (40/60/80/100/120 ms: code 1, code 2, code 3 CBR/VBR), CBR padding, 1-byte DTX sub-frames mixed in, or a single
    padded frame (`subs = [s]`, `opus_packet_pad`) — returns bytes that `opus_packet_parse_impl` (C06 model, not
    self-delimited) accepts, with the configuration bits `cfg`, frame count = the number of frames, the frame sizes
    and the frame CONTENTS byte for byte in order, consuming the whole packet. -/
theorem wellformed_multiframe (cfg : Nat) (subs : List Sub) (h4 : cfg % 4 = 0) (h256 : cfg < 256)
    (hsub : ∀ s ∈ subs, SubOk cfg s) (hne : subs ≠ [])
    (hle : ∀ f ∈ subs.flatMap (·.1), f.length ≤ 1275)
    (hdur : (subs.flatMap (·.1)).length * samplesPerFrame cfg 8000 ≤ 960) (maxlen : Nat) (pad : Bool) (r : OutRes)
    (hout : EncSkel.outRange cfg ((subs.flatMap (·.1)).map List.length) maxlen pad = .ok r) :
    repackRun (subs.map (subPkt cfg)) (subs.flatMap (·.1)).length maxlen pad =
      .ok (pktBytes r.hdr (subs.flatMap (·.1)) r.size) ∧
    ∃ v, parseImpl false (pktBytes r.hdr (subs.flatMap (·.1)) r.size) = .ok v ∧
      v.sizes = (subs.flatMap (·.1)).map List.length ∧ v.count = (subs.flatMap (·.1)).length ∧
      v.toc / 4 * 4 = cfg ∧ v.packetOffset = (pktBytes r.hdr (subs.flatMap (·.1)) r.size).length ∧
      slices (pktBytes r.hdr (subs.flatMap (·.1)) r.size) v.payloadOffset v.sizes = subs.flatMap (·.1) :=
  run_parses cfg subs h4 h256 hsub hne hle hdur maxlen pad r hout

example : (exSubs.flatMap (·.1)).length * samplesPerFrame 252 8000 ≤ 960 ∧ exSubs ≠ [] ∧
    EncSkel.outRange 252 ((exSubs.flatMap (·.1)).map List.length) 20 true = .ok { size := 20, hdr := [255, 195, 7, 3, 0] } := by
  decide +kernel

/-- `opus_packet_pad(data, len, new_len)` with `1 ≤ len < new_len` (C07 model `packetPad`, the call of
    opus_encoder.c:2516 and :1325) is the run on the single input packet. -/
theorem packet_pad_is_run (bs : Bytes) (newLen : Nat) (h1 : 1 ≤ bs.length) (hlt : bs.length < newLen) (n : Nat)
    (hn : (catAll (init Rp.empty) [bs]).1.nbFrames = n) :
    packetPad bs newLen = repackRun [bs] n newLen true :=
  packetPad_run bs newLen h1 hlt n hn

example : (catAll (init Rp.empty) [[252, 1, 2, 3]]).1.nbFrames = 1 ∧ 1 ≤ [252, 1, 2, 3].length ∧
    [252, 1, 2, 3].length < 8 := by decide +kernel

/-- `wellformed_padded_single` / CBR padding, with `padSpec` discharged: **`padSpec` is `opus_packet_pad`.**  On the
    unpadded packet holding ANY non-empty `frames` (≤ 1275 bytes each, ≤ 120 ms; the frame encoder's code-0 packet
    `[toc] ++ payload`, or the low-budget ToC-only packet of `n` empty frames), for EVERY `new_len` (smaller, equal,
    larger): the C07 model `Repack.packetPad` (init / cat / out_range_impl with pad = 1, repacketizer.c:347-381) and the
    skeleton's contract `padSpec` return the same code — OPUS_BAD_ARG for `new_len < len`, OPUS_OK otherwise — and when
    the packet is re-written (`len < new_len`) the model's bytes are `header ++ frames ++ zero padding` with exactly
    the header and the size `new_len` the contract records. -/
theorem pad_contract_is_model (cfg : Nat) (frames : List Bytes) (h4 : cfg % 4 = 0) (h256 : cfg < 256) (hne : frames ≠ [])
    (hle : ∀ f ∈ frames, f.length ≤ 1275) (hdur : frames.length * samplesPerFrame cfg 8000 ≤ 960) (newLen : Int) :
    ((subPkt cfg (frames, baseSize (frames.map List.length), false)).length : Int) = baseSize (frames.map List.length) ∧
    (newLen = baseSize (frames.map List.length) →
      packetPad (subPkt cfg (frames, baseSize (frames.map List.length), false)) newLen =
        .ok (subPkt cfg (frames, baseSize (frames.map List.length), false)) ∧
      padSpec cfg (frames.map List.length) (baseSize (frames.map List.length)) newLen = (OPUS_OK, none)) ∧
    (newLen < baseSize (frames.map List.length) →
      packetPad (subPkt cfg (frames, baseSize (frames.map List.length), false)) newLen = .err .badArg ∧
      padSpec cfg (frames.map List.length) (baseSize (frames.map List.length)) newLen = (OPUS_BAD_ARG, none)) ∧
    ((baseSize (frames.map List.length) : Int) < newLen →
      ∃ r, EncSkel.outRange cfg (frames.map List.length) newLen.toNat true = .ok r ∧ (r.size : Int) = newLen ∧
        padSpec cfg (frames.map List.length) (baseSize (frames.map List.length)) newLen = (OPUS_OK, some r) ∧
        packetPad (subPkt cfg (frames, baseSize (frames.map List.length), false)) newLen =
          .ok (pktBytes r.hdr frames r.size)) :=
  padSpec_model cfg frames h4 h256 hne hle hdur newLen

/-- a 3-byte CELT frame `FC 01 02 03` padded to 8 bytes: `FF 41 02 | 01 02 03 | 00 00`. -/
example : subPkt 252 ([[1, 2, 3]], baseSize [3], false) = [252, 1, 2, 3] ∧
    padSpec 252 [3] 4 8 = (OPUS_OK, some { size := 8, hdr := [255, 65, 2] }) ∧
    pktBytes [255, 65, 2] [[1, 2, 3]] 8 = [255, 65, 2, 1, 2, 3, 0, 0] ∧ 1 * samplesPerFrame 252 8000 ≤ 960 := by
  decide +kernel

/-- Every packet one frame call returns is a contract output (hence a legitimate sub-packet of the run above and
    of `pad_contract_is_model`): for every state / arguments within the frame precondition (`3 ≤ max_data_bytes ≤ 1276`,
    a coded mode) and every oracle behaviour within the contracts (`frameOk`), the header, payload length and
    return value of `opus_encode_frame_native` are those of `outRange toc [payload] m pad` for some `m`, `pad`:
    the code-0 packet `[toc] ++ payload` (VBR), the 1-byte DTX packet, or the CBR packet padded to `max_data_bytes`. -/
theorem frame_packet_is_contract_output (s : St) (fi : FrameIn) (fo : FrameOr) (hp : FramePre s fi)
    (hok : frameOk s fi fo = true) :
    ∃ m pd, EncSkel.outRange (frameNative s fi fo).toc [(frameNative s fi fo).payload.toNat] m pd =
      .ok { size := (frameNative s fi fo).ret.toNat, hdr := (frameNative s fi fo).hdr } :=
  frame_sub s fi _ (frameNative_post s fi fo hp hok)

example : FramePre OpusProps.C02.exSilkSt OpusProps.C02.exSilkFi ∧
    frameOk OpusProps.C02.exSilkSt OpusProps.C02.exSilkFi OpusProps.C02.exSilkOr = true :=
  ⟨⟨by decide, by decide, by decide, by decide⟩, by decide +kernel⟩

/-- `wellformed_low_budget` (opus_encoder.c:1270-1332), unpadded AND padded, with the real `opus_packet_pad`
    model: for every rate, legal frame size, stale `st->mode` (incl. 0), bandwidth, channel count and `out_data_bytes`
    (not 1 byte for 100 ms): (1) the ToC-only packet `lowHdr0` (code 0, code 1, or code 3 with M empty frames) parses
    (C06 parser) to empty frames with `count · samples_per_frame = frame_size`, consuming its 1 or 2 bytes; (2) for
    EVERY larger size `m` (CBR: `max_data_bytes`), `Repack.packetPad` applied to those bytes returns exactly the
    packet the skeleton records through `padSpec` (code 3 with padding), which parses to the same empty frames with the
    same duration and consumes exactly `m` bytes. -/
theorem wellformed_low_budget (s : St) (fsz out : Int)
    (hfs : s.fs = 8000 ∨ s.fs = 12000 ∨ s.fs = 16000 ∨ s.fs = 24000 ∨ s.fs = 48000)
    (hlg : legalFrame s.fs fsz = true)
    (hmode : s.mode = 0 ∨ (EncDecide.MODE_SILK_ONLY ≤ s.mode ∧ s.mode ≤ EncDecide.MODE_CELT_ONLY))
    (hbw : EncDecide.BW_NB ≤ s.bandwidth ∧ s.bandwidth ≤ EncDecide.BW_FB)
    (hch : s.streamChannels = 1 ∨ s.streamChannels = 2)
    (hne : ¬ (out = 1 ∧ s.fs = fsz * 10)) (hfr : 1 ≤ s.fs / fsz) :
    (∃ v, parseImpl false (lowHdr0 s fsz out) = .ok v ∧ v.sizes = lowLens s fsz out ∧
      (v.count : Int) * samplesPerFrame v.toc s.fs.toNat = fsz ∧ v.toc / 4 * 4 = (lowBudgetToc s fsz out).1 ∧
      (v.packetOffset : Int) = lowRet0 s fsz out ∧ ((lowHdr0 s fsz out).length : Int) = lowRet0 s fsz out) ∧
    (∀ m : Int, lowRet0 s fsz out < m →
      ∃ r, padSpec (lowBudgetToc s fsz out).1 (lowLens s fsz out) (lowRet0 s fsz out) m = (OPUS_OK, some r) ∧
        packetPad (lowHdr0 s fsz out) m = .ok (pktBytes r.hdr (lowFrames s fsz out) r.size) ∧
        ∃ v, parseImpl false (pktBytes r.hdr (lowFrames s fsz out) r.size) = .ok v ∧ v.sizes = lowLens s fsz out ∧
          (v.count : Int) * samplesPerFrame v.toc s.fs.toNat = fsz ∧ v.toc / 4 * 4 = (lowBudgetToc s fsz out).1 ∧
          (v.packetOffset : Int) = m ∧ ((pktBytes r.hdr (lowFrames s fsz out) r.size).length : Int) = m) :=
  low_wf s fsz out hfs hlg hmode hbw hch hne hfr

/-- 100 ms at 48 kHz, CELT FB stereo, 3 bytes of space: `FF 05` (code 3, five empty 20 ms frames); CBR-padded to
    40 bytes: `FF 45 25 00 …`. -/
example : legalFrame 48000 4800 = true ∧ lowHdr0 (lowSt 48000 1002 1105 2) 4800 3 = [0xFF, 5] ∧
    lowLens (lowSt 48000 1002 1105 2) 4800 3 = [0, 0, 0, 0, 0] ∧ lowRet0 (lowSt 48000 1002 1105 2) 4800 3 = 2 ∧
    padSpec 252 [0, 0, 0, 0, 0] 2 40 = (OPUS_OK, some { size := 40, hdr := [255, 69, 37] }) := by decide +kernel

/-- `wellformed_multiframe` / `wellformed_dtx` for `opus_encode_native` itself, naming the ACTUAL sub-packets.  On the
    multi-frame path (opus_encoder.c:1616-1747: 40/60/80/100/120 ms in CELT/hybrid, 80/100/120 ms in SILK), for every
    state within the skeleton invariant, every oracle behaviour within the contracts and ANY payload contents of the
    recorded lengths: (1) the frame lengths of the emitted packet are the payload lengths of the loop's
    `opus_encode_frame_native` calls (`multiTrace`, in order; a DTX sub-frame contributes an empty frame); (2) running
    the repacketiser MODEL of C07 — `opus_repacketizer_init`, one `opus_repacketizer_cat` per sub-frame on exactly the
    bytes that call wrote (`subBytes r f = r.hdr ++ f ++ zero padding`: the code-0 packet, the 1-byte DTX packet, or in
    CBR the packet `opus_packet_pad` padded to `curr_max`), then
    `opus_repacketizer_out_range_impl(rp, 0, nb_frames, data, repacketize_len, 0, pad, NULL, 0)` — accepts every `cat`
    and returns exactly the emitted bytes `header ++ frames ++ zero padding` (which `encode_wellformed` shows to parse
    with `count · samples_per_frame = frame_size`).  No repacketiser contract is assumed. -/
theorem encode_wellformed_multiframe (s : St) (fuzz : Bool) (fsz out : Int) (o : NatOr)
    (he : entryCheck s fsz out = none) (htm : takesMulti s fuzz fsz out o = true)
    (hok : (encodeNative s fuzz fsz out o).ok = true)
    (frames : List Bytes) (hfl : frames.map List.length = (encodeNative s fuzz fsz out o).pkt.lens) :
    (multiTrace (ctxOf s fuzz fsz out o) (decOf s fuzz fsz out o) (effSilence (budgetSt s o fsz out) o)
        (ctxOf s fuzz fsz out o).nbFrames.toNat 0 o.frames (acc0 (multiSt0 (decOf s fuzz fsz out o).st))).map
      (·.payload.toNat) = (encodeNative s fuzz fsz out o).pkt.lens ∧
    ∃ pad, repackRun
        (List.zipWith subBytes
          (multiTrace (ctxOf s fuzz fsz out o) (decOf s fuzz fsz out o) (effSilence (budgetSt s o fsz out) o)
            (ctxOf s fuzz fsz out o).nbFrames.toNat 0 o.frames (acc0 (multiSt0 (decOf s fuzz fsz out o).st)))
          frames)
        frames.length (ctxOf s fuzz fsz out o).repacketizeLen.toNat pad =
      .ok (pktBytes (encodeNative s fuzz fsz out o).pkt.hdr frames (encodeNative s fuzz fsz out o).pkt.size) :=
  encode_multi_wf s fuzz fsz out o he htm hok frames hfl

/-- the 60 ms CBR call of the example below takes the multi-frame path: three sub-frame calls of 159 bytes each
    (payload 158), `repacketize_len` = 480. -/
example : takesMulti OpusProps.C02.exSt false 2880 4000 (OpusProps.C02.exOr 158) = true ∧
    (ctxOf OpusProps.C02.exSt false 2880 4000 (OpusProps.C02.exOr 158)).nbFrames = 3 ∧
    (ctxOf OpusProps.C02.exSt false 2880 4000 (OpusProps.C02.exOr 158)).repacketizeLen = 480 ∧
    (multiTrace (ctxOf OpusProps.C02.exSt false 2880 4000 (OpusProps.C02.exOr 158))
        (decOf OpusProps.C02.exSt false 2880 4000 (OpusProps.C02.exOr 158))
        (effSilence (budgetSt OpusProps.C02.exSt (OpusProps.C02.exOr 158) 2880 4000) (OpusProps.C02.exOr 158)) 3 0
        (OpusProps.C02.exOr 158).frames
        (acc0 (multiSt0 (decOf OpusProps.C02.exSt false 2880 4000 (OpusProps.C02.exOr 158)).st))).map
      (fun r => (r.ret, r.payload)) = [(159, 158), (159, 158), (159, 158)] := by
  decide +kernel

/-- `wellformed_padded_single` / `wellformed_dtx` for `opus_encode_native` itself (single-frame path,
    opus_encoder.c:1749-1761: neither the low-budget gate nor the multi-frame split).  For every state within the
    skeleton invariant, every oracle behaviour within the contracts and ANY payload contents `f` of the recorded
    length: the packet has the one frame `f`; the emitted bytes are the bytes the frame call wrote
    (`subBytes = hdr ++ f ++ zero padding`); with VBR, or for a DTX frame, they are the code-0 packet `[toc] ++ f`;
    in CBR they are `[toc] ++ f` when that fills `max_data_bytes`, and otherwise EXACTLY what `opus_packet_pad`
    (C07 model `Repack.packetPad`: init / cat / out_range_impl with pad = 1) returns for `[toc] ++ f` and
    `max_data_bytes` — code 3, one frame, zero padding.  (`encode_wellformed` shows these bytes parse.) -/
theorem encode_wellformed_single (s : St) (fuzz : Bool) (fsz out : Int) (o : NatOr)
    (he : entryCheck s fsz out = none)
    (hlow : lowBudgetGate (budgetSt s o fsz out) fsz (sizeBudget (analysisUpd s o) fsz out) = false)
    (hnm : isMulti (decOf s fuzz fsz out o).st fsz = false)
    (hok : (encodeNative s fuzz fsz out o).ok = true)
    (f : Bytes) (hf : f.length = (singleCall s fuzz fsz out o).payload.toNat) :
    (encodeNative s fuzz fsz out o).pkt.lens = [f.length] ∧
    pktBytes (encodeNative s fuzz fsz out o).pkt.hdr [f] (encodeNative s fuzz fsz out o).pkt.size =
      subBytes (singleCall s fuzz fsz out o) f ∧
    ((decOf s fuzz fsz out o).st.useVbr ≠ 0 ∨ (singleCall s fuzz fsz out o).dtx = true →
      subBytes (singleCall s fuzz fsz out o) f = (encodeNative s fuzz fsz out o).pkt.tocCfg :: f) ∧
    ((decOf s fuzz fsz out o).st.useVbr = 0 → (singleCall s fuzz fsz out o).dtx = false →
      ((singleCall s fuzz fsz out o).payload + 1 = (sizeBudget (analysisUpd s o) fsz out).maxDataBytes →
        subBytes (singleCall s fuzz fsz out o) f = (encodeNative s fuzz fsz out o).pkt.tocCfg :: f) ∧
      ((singleCall s fuzz fsz out o).payload + 1 < (sizeBudget (analysisUpd s o) fsz out).maxDataBytes →
        packetPad ((encodeNative s fuzz fsz out o).pkt.tocCfg :: f) (sizeBudget (analysisUpd s o) fsz out).maxDataBytes =
          .ok (subBytes (singleCall s fuzz fsz out o) f))) :=
  encode_single_wf s fuzz fsz out o he hlow hnm hok f hf

/-- 64 kb/s CBR, 20 ms, 48 kHz stereo CELT: one frame call, `max_data_bytes` = 160, payload 159. -/
example : entryCheck OpusProps.C02.exSt 960 4000 = none ∧
    lowBudgetGate (budgetSt OpusProps.C02.exSt (OpusProps.C02.exOr 159) 960 4000) 960
      (sizeBudget (analysisUpd OpusProps.C02.exSt (OpusProps.C02.exOr 159)) 960 4000) = false ∧
    isMulti (decOf OpusProps.C02.exSt false 960 4000 (OpusProps.C02.exOr 159)).st 960 = false ∧
    (encodeNative OpusProps.C02.exSt false 960 4000 (OpusProps.C02.exOr 159)).ok = true ∧
    (singleCall OpusProps.C02.exSt false 960 4000 (OpusProps.C02.exOr 159)).payload = 159 ∧
    (encodeNative OpusProps.C02.exSt false 960 4000 (OpusProps.C02.exOr 159)).pkt.hdr = [252] := by
  decide +kernel

/-- **encode_wellformed, without a repacketiser contract.**  For every encoder state within the skeleton
    invariant, every call (frame size, `out_data_bytes`, all settings) and every oracle behaviour within the contracts
    (`ok`), on EVERY success return path — low-budget ToC-only / code-3 PLC packet (padded or not), single frame
    VBR / CBR-padded / DTX, repacketised multi-frame packet — and for ANY frame contents of the recorded lengths,
    the emitted bytes `B = header ++ frames ++ zero padding`:
    (ret) `1 ≤ ret ≤ out_data_bytes`;
    (run) `B` is what the repacketiser MODEL of C07 returns: there are `maxlen`, `pad` such that for EVERY way the
          frames reached the repacketiser as sub-packets (each a frame-encoder output: code 0, DTX, padded code 3,
          or a multi-frame ToC-only packet) the run init / cat … cat / out_range_impl(0, n, maxlen, 0, pad) on the model
          accepts every `cat` and returns exactly `B`;
    (parse) `opus_packet_parse_impl` (C06 model, not self-delimited) accepts `B` with the ToC configuration the skeleton
          chose, frame count = the number of (sub-)frames, every frame size ≤ 1275, the frame contents byte for byte,
          `count · samples_per_frame(ToC, Fs) = frame_size`, and consumes exactly `ret` = `|B|` bytes. -/
theorem encode_wellformed (s : St) (fuzz : Bool) (fsz out : Int) (o : NatOr)
    (he : entryCheck s fsz out = none) (hok : (encodeNative s fuzz fsz out o).ok = true)
    (frames : List Bytes) (hfl : frames.map List.length = (encodeNative s fuzz fsz out o).pkt.lens) :
    (1 ≤ (encodeNative s fuzz fsz out o).ret ∧ (encodeNative s fuzz fsz out o).ret ≤ out) ∧
    (∃ maxlen pad, ∀ subs : List Sub, subs.flatMap (·.1) = frames →
        (∀ x ∈ subs, SubOk (encodeNative s fuzz fsz out o).pkt.tocCfg x) →
        repackRun (subs.map (subPkt (encodeNative s fuzz fsz out o).pkt.tocCfg)) frames.length maxlen pad =
          .ok (pktBytes (encodeNative s fuzz fsz out o).pkt.hdr frames (encodeNative s fuzz fsz out o).pkt.size)) ∧
    ∃ v, parseImpl false
        (pktBytes (encodeNative s fuzz fsz out o).pkt.hdr frames (encodeNative s fuzz fsz out o).pkt.size) = .ok v ∧
      v.toc / 4 * 4 = (encodeNative s fuzz fsz out o).pkt.tocCfg ∧ v.count = frames.length ∧
      v.sizes = (encodeNative s fuzz fsz out o).pkt.lens ∧ (∀ l ∈ v.sizes, l ≤ 1275) ∧
      slices (pktBytes (encodeNative s fuzz fsz out o).pkt.hdr frames (encodeNative s fuzz fsz out o).pkt.size)
        v.payloadOffset v.sizes = frames ∧
      (v.count : Int) * samplesPerFrame v.toc s.fs.toNat = fsz ∧
      (v.packetOffset : Int) = (encodeNative s fuzz fsz out o).ret ∧
      ((pktBytes (encodeNative s fuzz fsz out o).pkt.hdr frames (encodeNative s fuzz fsz out o).pkt.size).length : Int) =
        (encodeNative s fuzz fsz out o).ret :=
  have h := encode_wf s fuzz fsz out o he hok frames hfl
  ⟨h.ret, h.run, h.parse⟩

/-- 64 kb/s CBR, 60 ms, 48 kHz stereo, 4000 bytes of space: three CELT sub-frames of 158 payload bytes, packet of
    480 bytes with header FF 43 03 (code 3, CBR, padding) — a concrete multi-frame call inside the hypotheses. -/
example : entryCheck OpusProps.C02.exSt 2880 4000 = none ∧
    (encodeNative OpusProps.C02.exSt false 2880 4000 (OpusProps.C02.exOr 158)).ok = true ∧
    (encodeNative OpusProps.C02.exSt false 2880 4000 (OpusProps.C02.exOr 158)).ret = 480 ∧
    (encodeNative OpusProps.C02.exSt false 2880 4000 (OpusProps.C02.exOr 158)).pkt.lens = [158, 158, 158] ∧
    (encodeNative OpusProps.C02.exSt false 2880 4000 (OpusProps.C02.exOr 158)).pkt.hdr = [255, 67, 3] := by
  decide +kernel

/-- `encode_wellformed_multiframe` with the `pad` argument PINNED to the code's `!st->use_vbr && (dtx_count != nb_frames)`
    (opus_encoder.c:1742), `dtx_count` (`dtxOf`) = the number of sub-frame calls of the loop that returned 1 byte
    (:1728-1730): on the multi-frame path, for every success return within the contracts and ANY payload contents of
    the recorded lengths, the repacketiser MODEL run — init, one `cat` per sub-frame on exactly the bytes that frame call
    wrote, `out_range_impl(rp, 0, nb_frames, data, repacketize_len, 0, !use_vbr && dtx_count != nb_frames, NULL, 0)` —
    accepts every `cat` and returns exactly the emitted bytes. -/
theorem encode_wellformed_multiframe_pad (s : St) (fuzz : Bool) (fsz out : Int) (o : NatOr)
    (he : entryCheck s fsz out = none) (htm : takesMulti s fuzz fsz out o = true)
    (hok : (encodeNative s fuzz fsz out o).ok = true)
    (frames : List Bytes) (hfl : frames.map List.length = (encodeNative s fuzz fsz out o).pkt.lens) :
    repackRun
        (List.zipWith subBytes
          (multiTrace (ctxOf s fuzz fsz out o) (decOf s fuzz fsz out o) (effSilence (budgetSt s o fsz out) o)
            (ctxOf s fuzz fsz out o).nbFrames.toNat 0 o.frames (acc0 (multiSt0 (decOf s fuzz fsz out o).st)))
          frames)
        frames.length (ctxOf s fuzz fsz out o).repacketizeLen.toNat
        (decide ((decOf s fuzz fsz out o).st.useVbr = 0 ∧
          dtxOf (multiTrace (ctxOf s fuzz fsz out o) (decOf s fuzz fsz out o) (effSilence (budgetSt s o fsz out) o)
            (ctxOf s fuzz fsz out o).nbFrames.toNat 0 o.frames (acc0 (multiSt0 (decOf s fuzz fsz out o).st))) ≠
          (ctxOf s fuzz fsz out o).nbFrames)) =
      .ok (pktBytes (encodeNative s fuzz fsz out o).pkt.hdr frames (encodeNative s fuzz fsz out o).pkt.size) :=
  encode_multi_wf_pad s fuzz fsz out o he htm hok frames hfl

/-- the 60 ms CBR example call: `use_vbr = 0`, no sub-frame returned 1 byte, so `pad = 1`. -/
example : takesMulti OpusProps.C02.exSt false 2880 4000 (OpusProps.C02.exOr 158) = true ∧
    (decOf OpusProps.C02.exSt false 2880 4000 (OpusProps.C02.exOr 158)).st.useVbr = 0 ∧
    dtxOf (multiTrace (ctxOf OpusProps.C02.exSt false 2880 4000 (OpusProps.C02.exOr 158))
        (decOf OpusProps.C02.exSt false 2880 4000 (OpusProps.C02.exOr 158))
        (effSilence (budgetSt OpusProps.C02.exSt (OpusProps.C02.exOr 158) 2880 4000) (OpusProps.C02.exOr 158)) 3 0
        (OpusProps.C02.exOr 158).frames
        (acc0 (multiSt0 (decOf OpusProps.C02.exSt false 2880 4000 (OpusProps.C02.exOr 158)).st))) = 0 := by
  decide +kernel

/-- `wellformed_low_budget` for `opus_encode_native` itself (opus_encoder.c:1270-1332).  Whenever the low-budget gate
    fires (`max_data_bytes < 3`, or too few bits for the frame rate), for every state within the skeleton invariant and
    every success return: the packet holds the empty frames `lowLens`; with VBR, or when there is no room beyond the
    1 or 2 ToC-only bytes, the return value is 1 or 2 and the emitted bytes are the ToC-only packet `lowHdr0` (code 0,
    code 1, or code 3 with M empty frames); in CBR with more room the return value is `max_data_bytes` and the emitted
    bytes are EXACTLY what `opus_packet_pad` (C07 model `Repack.packetPad`) returns for that ToC-only packet and
    `max_data_bytes`.  (`wellformed_low_budget` / `encode_wellformed` show both parse with count · spf = frame_size.) -/
theorem encode_wellformed_low_budget (s : St) (fuzz : Bool) (fsz out : Int) (o : NatOr)
    (he : entryCheck s fsz out = none)
    (hlow : lowBudgetGate (budgetSt s o fsz out) fsz (sizeBudget (analysisUpd s o) fsz out) = true)
    (hok : (encodeNative s fuzz fsz out o).ok = true) :
    (encodeNative s fuzz fsz out o).pkt.lens = lowLens (budgetSt s o fsz out) fsz out ∧
    ((budgetSt s o fsz out).useVbr ≠ 0 ∨
        (sizeBudget (analysisUpd s o) fsz out).maxDataBytes ≤ lowRet0 (budgetSt s o fsz out) fsz out →
      (encodeNative s fuzz fsz out o).ret = lowRet0 (budgetSt s o fsz out) fsz out ∧
      pktBytes (encodeNative s fuzz fsz out o).pkt.hdr (lowFrames (budgetSt s o fsz out) fsz out)
        (encodeNative s fuzz fsz out o).pkt.size = lowHdr0 (budgetSt s o fsz out) fsz out) ∧
    ((budgetSt s o fsz out).useVbr = 0 →
        lowRet0 (budgetSt s o fsz out) fsz out < (sizeBudget (analysisUpd s o) fsz out).maxDataBytes →
      (encodeNative s fuzz fsz out o).ret = (sizeBudget (analysisUpd s o) fsz out).maxDataBytes ∧
      packetPad (lowHdr0 (budgetSt s o fsz out) fsz out) (sizeBudget (analysisUpd s o) fsz out).maxDataBytes =
        .ok (pktBytes (encodeNative s fuzz fsz out o).pkt.hdr (lowFrames (budgetSt s o fsz out) fsz out)
          (encodeNative s fuzz fsz out o).pkt.size)) :=
  encode_low_wf s fuzz fsz out o he hlow hok

/-- the CBR example encoder with 2 bytes of space (20 ms): the gate fires, the call succeeds with 2 bytes. -/
example : entryCheck OpusProps.C02.exSt 960 2 = none ∧
    lowBudgetGate (budgetSt OpusProps.C02.exSt (OpusProps.C02.exOr 0) 960 2) 960
      (sizeBudget (analysisUpd OpusProps.C02.exSt (OpusProps.C02.exOr 0)) 960 2) = true ∧
    (encodeNative OpusProps.C02.exSt false 960 2 (OpusProps.C02.exOr 0)).ok = true ∧
    (encodeNative OpusProps.C02.exSt false 960 2 (OpusProps.C02.exOr 0)).ret = 2 := by
  decide +kernel

end OpusProps.C02Wf
