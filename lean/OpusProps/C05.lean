import OpusProofs.EncSkelMulti
import OpusProofs.EncSkelCbr
import OpusProofs.EncSkelCtl
import OpusProofs.EncSkelMs
import OpusProofs.EncSkelCvbr
import OpusProofs.EncSkelMsRate
import OpusProofs.EncSkelMsLive
/-
  Property C05 — "Encoder honours the buffer limit, exact CBR size and the bitrate target".

  Model:  `Opus.EncSkel.encodeNative`  (transcription of the size / packet skeleton of
          `opus_encode_native` + `opus_encode_frame_native`, src/opus_encoder.c:1121-2511, with the
          repacketiser contract of OpusModel/EncSkel/Repack.lean).  SILK, CELT, the range coder and
          the analysis are ORACLES (`NatOr`, `FrameOr`); every theorem quantifies over ALL oracle
          values that satisfy the contracts `frameOk` (listed in OpusModel/EncSkel/Frame.lean and
          monitored on every real call by the tie), over ALL settings/states satisfying `stOk` (the
          ctl invariant, also monitored), ALL legal frame sizes and ALL `out_data_bytes`.
  `(encodeNative …).ok = true` is exactly: `stOk` ∧ `legalFrame` ∧ the contracts along the path taken.
  `entryCheck … = none` is: `frame_size > 0`, `out_data_bytes ≥ 1`, not (1 byte ∧ 100 ms).
-/
namespace OpusProps.C05
open Opus Opus.EncSkel Opus.EncDecide Opus.EncSkel.Proofs Opus.Ctl Opus.Repack Opus.FramingSpec

/-- Clause "exactly the size round(bitrate x duration / 8) clipped to …": `cbr_bytes` of
    opus_encoder.c:1255-1257 IS `min(⌊bitrate·T/8 + ½⌋, max_data_bytes)` over ℚ with
    `T = frame_size/Fs`, for every legal frame size and every bit-rate (the `12·` trick is exact). -/
theorem cbrBytes_spec (fs fsz b m : Int) (hfs : 0 < fs) (hl : legalFrame fs fsz = true) :
    cbrBytes fs fsz b m = min ⌊(b : ℚ) * (fsz / fs) / 8 + 1 / 2⌋ m :=
  cbrBytes_round fs fsz b m hfs hl

/-- Clause "returns a length between 1 and max_data_bytes" (and, with the repacketiser / padding
    contract, "never writes past it": every emitted structure has `ret ≤ out_data_bytes` bytes):
    on EVERY path — low-budget, single frame, multi-frame — no assertion fires and
    `1 ≤ ret ≤ out_data_bytes`. -/
theorem ret_le_out (s : St) (fuzz : Bool) (fsz out : Int) (o : NatOr)
    (he : entryCheck s fsz out = none) (hok : (encodeNative s fuzz fsz out o).ok = true) :
    (encodeNative s fuzz fsz out o).abort = false ∧ 1 ≤ (encodeNative s fuzz fsz out o).ret ∧
    (encodeNative s fuzz fsz out o).ret ≤ out :=
  let h := encodeNative_post s fuzz fsz out o he hok
  ⟨h.noAbort, h.retLo, h.retHi⟩

/-- Clause "with VBR off, every packet that is not a DTX packet has exactly the size
    round(bitrate x duration / 8) clipped to [1, min(max_data_bytes, 1276)], whatever the signal and
    the preceding history": for any state (`s` is arbitrary within `stOk`: it is the result of an
    arbitrary history), any oracle behaviour, on every path, the size is `cbrTarget`
    (= `max 1 (cbr_bytes)`, see `cbrBytes_spec`); the only other possibility is the documented one:
    OPUS_BITRATE_MAX on a frame longer than 20 ms, where the repacketised packet fills `out_data_bytes`.
    The dependency on `user_bitrate_bps ≥ 500` (C11 ctl invariant, part of `stOk`) excludes the
    2-byte code-3 ToC-only packet for a 1-byte CBR target. -/
theorem cbr_size_exact (s : St) (fuzz : Bool) (fsz out : Int) (o : NatOr)
    (he : entryCheck s fsz out = none) (hok : (encodeNative s fuzz fsz out o).ok = true)
    (hcbr : s.useVbr = 0) (hnd : (encodeNative s fuzz fsz out o).dtx = false) :
    (encodeNative s fuzz fsz out o).ret = cbrTarget s fsz out ∨
    (s.userBitrate = OPUS_BITRATE_MAX ∧ s.fs / 50 < fsz ∧ (encodeNative s fuzz fsz out o).ret = out) :=
  (encodeNative_post s fuzz fsz out o he hok).cbr hcbr hnd

/-- Clause "with OPUS_BITRATE_MAX it fills the output buffer (up to 1276 bytes when the packet holds
    a single frame)": the packet has `min(out_data_bytes, 1276)` bytes, or — only for frames longer
    than 20 ms, which are repacketised — exactly `out_data_bytes`. -/
theorem bitrate_max_fills (s : St) (fuzz : Bool) (fsz out : Int) (o : NatOr)
    (he : entryCheck s fsz out = none) (hok : (encodeNative s fuzz fsz out o).ok = true)
    (hst : stOk s = true) (hlg : legalFrame s.fs fsz = true)
    (hcbr : s.useVbr = 0) (hmax : s.userBitrate = OPUS_BITRATE_MAX)
    (hnd : (encodeNative s fuzz fsz out o).dtx = false) :
    (encodeNative s fuzz fsz out o).ret = min 1276 out ∨
    (s.fs / 50 < fsz ∧ (encodeNative s fuzz fsz out o).ret = out) := by
  have hout : 1 ≤ out := by
    unfold entryCheck at he; dsimp only at he; split at he
    · cases he
    · omega
  rcases (encodeNative_post s fuzz fsz out o he hok).cbr hcbr hnd with h | ⟨_, h2, h3⟩
  · left; rw [h, cbrTarget_max s fsz out hst hlg hout hmax]
  · right; exact ⟨h2, h3⟩

/-- Clause "a too-small buffer yields OPUS_BUFFER_TOO_SMALL or a minimal valid packet, never a
    corrupt one": (a) the only error returns are OPUS_BAD_ARG (no frame / no buffer) and
    OPUS_BUFFER_TOO_SMALL (exactly: one byte for a 100 ms frame), both before anything is written;
    (b) whenever the budget is below what the coders need (`lowBudgetGate`), the call succeeds with a
    ToC-only packet — every frame of it has length 0 — of `1 ≤ ret ≤ out_data_bytes` bytes. -/
theorem too_small_clean (s : St) (fuzz : Bool) (fsz out : Int) (o : NatOr) :
    (∀ e, entryCheck s fsz out = some e →
        (encodeNative s fuzz fsz out o).ret = e ∧ (encodeNative s fuzz fsz out o).calls = [] ∧
        (e = OPUS_BAD_ARG ∨ (e = OPUS_BUFFER_TOO_SMALL ∧ min 1276 out = 1 ∧ s.fs = fsz * 10))) ∧
    (entryCheck s fsz out = none → (encodeNative s fuzz fsz out o).ok = true →
      lowBudgetGate (budgetSt s o fsz out) fsz (sizeBudget (analysisUpd s o) fsz out) = true →
        1 ≤ (encodeNative s fuzz fsz out o).ret ∧ (encodeNative s fuzz fsz out o).ret ≤ out ∧
        ∀ l ∈ (encodeNative s fuzz fsz out o).pkt.lens, l = 0) := by
  constructor
  · intro e he
    unfold encodeNative
    rw [he]
    refine ⟨rfl, rfl, ?_⟩
    unfold entryCheck at he
    dsimp only at he
    split at he
    · left; cases he; rfl
    · split at he
      · rename_i h; right; cases he; exact ⟨rfl, h.1, h.2⟩
      · cases he
  · intro he hok hg
    have hp := encodeNative_post s fuzz fsz out o he hok
    refine ⟨hp.retLo, hp.retHi, ?_⟩
    have hr := hp.retLo
    unfold encodeNative at hr ⊢
    rw [he] at hr ⊢
    dsimp only at hr ⊢
    rw [if_pos hg] at hr ⊢
    exact (lowBudget_lens _ fsz out _ hr).2

/-- Clause "never a corrupt one" / C02 "no call ever fails with an internal error", size part:
    after the entry check no error code at all is returned — in particular none of the
    OPUS_INTERNAL_ERROR sites (:1329, :1726, :1735, :1743, :2101, :2301, :2355, :2394, :2505), not the
    OPUS_BUFFER_TOO_SMALL of :2439 — and neither `celt_assert` of the frame encoder (:2006, :2114)
    nor the one in `ec_enc_shrink` can fire. -/
theorem never_internal_error (s : St) (fuzz : Bool) (fsz out : Int) (o : NatOr)
    (he : entryCheck s fsz out = none) (hok : (encodeNative s fuzz fsz out o).ok = true) :
    (encodeNative s fuzz fsz out o).ret ≠ OPUS_INTERNAL_ERROR ∧
    (encodeNative s fuzz fsz out o).ret ≠ OPUS_BUFFER_TOO_SMALL ∧
    (encodeNative s fuzz fsz out o).ret ≠ OPUS_BAD_ARG ∧ (encodeNative s fuzz fsz out o).abort = false := by
  have h := encodeNative_post s fuzz fsz out o he hok
  have := h.retLo
  simp only [OPUS_INTERNAL_ERROR, OPUS_BUFFER_TOO_SMALL, OPUS_BAD_ARG]
  exact ⟨by omega, by omega, by omega, h.noAbort⟩

/-- "whatever the preceding history of settings", invariant part: `stOk` — the hypothesis of every
    theorem above — is preserved by `opus_encode_native` itself: for EVERY state within `stOk`, all
    arguments (legal or not) and ALL oracle values (no contract needed), whatever the outcome of the call,
    the state afterwards is within `stOk`, and no setting (sampling rate, channels, application, VBR flag,
    bit-rate, forced channels/mode/bandwidth, max bandwidth, signal type, LFE, DTX, FEC, frame duration,
    complexity, loss percentage, energy mask) has been written. -/
theorem stOk_preserved (s : St) (fuzz : Bool) (fsz out : Int) (o : NatOr) (h : stOk s = true) :
    stOk (encodeNative s fuzz fsz out o).st = true ∧ Conf s (encodeNative s fuzz fsz out o).st := by
  obtain ⟨h1, h2, _⟩ := encodeNative_stOk s fuzz fsz out o ((stOk_iff s).mp h)
  exact ⟨(stOk_iff _).mpr h1, h2⟩

/-- "for all histories": along EVERY history of one encoder object — `opus_encoder_create`, then any
    sequence of ctl requests (property C11's `encCtl`, accepted or refused) and encode calls (any
    arguments, any oracle values) — C11's invariant `EncInv` (= `CtlInv ∧ DInv`) holds, the skeleton state
    is a refinement of the ctl state (`Refines`, the explicit map between the two state spaces), and
    `stOk` holds.  So `stOk` is not an assumption about reachable states. -/
theorem stOk_along_histories {e : EncSt} {s : St} (h : Reach e s) : EncInv e ∧ Refines e s ∧ stOk s = true :=
  reach_inv h

/-- C11's `EncInv` is carried across an encode call by the skeleton: the fields it models satisfy C11's
    `obsRange` (so that part of C11's monitored `encodeContract` is a theorem), for any arguments and
    oracle values. -/
theorem encode_keeps_encInv (e : EncSt) (s : St) (fuzz : Bool) (fsz out : Int) (or : NatOr) (o : EncObs)
    (hi : EncInv e) (hr : Refines e s) (ho : ObsOf (encodeNative s fuzz fsz out or).st o) (hf : FreeOk e o) :
    obsRange e o = none ∧ EncInv (encAdopt e o) ∧ Refines (encAdopt e o) (encodeNative s fuzz fsz out or).st :=
  let h := encode_keeps_inv e s fuzz fsz out or o hi hr ho hf
  ⟨h.1, h.2.1, h.2.2.1⟩

/-- "same for multistream with its per-stream split" — stated over property C10's model of
    `opus_multistream_encode_native` (`Opus.MsEncode.encodeNative`, OpusModel/MsEncode.lean: entry test, CBR clamp, the
    stream loop with the real repacketiser model of C07; executed against the code by C10's `msenc` suite; its `currMax`
    is `msCurrMax` of this property's tie op `mscurr3`, `msCurrMax_eq_c10`).  For every stream count, rate, frame size,
    VBR/CBR, explicit bit-rate or OPUS_BITRATE_MAX, `max_data_bytes`, and EVERY per-stream encoder behaviour `enc` within
    the single-stream contracts
      * `EncContract`: a SUCCESSFUL call returns a valid packet of the common duration in at most `curr_max` bytes
        (C02 `encode_wellformed`, C05 `ret_le_out`) — nothing is assumed about calls that fail,
      * `EncLive`: a call with a legal budget (`curr_max ≥ 1`, not 1 byte for 100 ms) succeeds (C05 `ret_le_out`),
    the call returns OPUS_BUFFER_TOO_SMALL iff `max_data_bytes < smallest_packet`, and otherwise SUCCEEDS — the budget
    split never hands a stream an illegal budget, the self-delimiting length reserve always suffices — with
    `1 ≤ ret ≤ max_data_bytes`, `ret` exactly the clamped size with VBR off, and the bytes a concatenation of valid
    self-delimited packets of the common duration. -/
theorem ms_encode_ret_le_out (n : Nat) (hn : 1 ≤ n) (fs fsz : Nat) (vbr : Bool) (bitrate : Option Int) (maxData : Int)
    (enc : Nat → Int → Res Bytes) (hc : MsEncode.EncContract fs fsz enc) (ht : MsEncode.EncTotal enc)
    (hlive : EncLive (decide (fs / fsz = 10)) enc) :
    (maxData < MsEncode.smallestPacket n (decide (fs / fsz = 10)) →
      MsEncode.encodeNative n fs fsz vbr bitrate maxData enc = .err .bufferTooSmall) ∧
    (MsEncode.smallestPacket n (decide (fs / fsz = 10)) ≤ maxData →
      ∃ out, MsEncode.encodeNative n fs fsz vbr bitrate maxData enc = .ok out ∧ 1 ≤ out.length ∧
        (out.length : Int) ≤ maxData ∧
        (vbr = false → (out.length : Int) = MsEncode.cbrClamp n (decide (fs / fsz = 10)) vbr fs fsz bitrate maxData) ∧
        ∃ ps : List Packet, ps.length = n ∧ (∀ p ∈ ps, Valid p) ∧ (∀ p ∈ ps, LayoutSpec.duration fs p = fsz) ∧
          out = LayoutSpec.msSerialize ps) :=
  ms_encode_native_ret n hn fs fsz vbr bitrate maxData enc hc ht hlive

/-! ### Multistream rate allocation (src/opus_multistream_encoder.c:668-798; model `OpusModel/EncSkel/MsRate.lean`,
    tied per stream on a layouts × rates × frame-sizes grid by suite op `msrate`) -/

/-- **Per-stream floors.**  For every layout the create functions admit (`MsLayoutOk`), every legal frame size and
    every bit-rate setting the ctl admits for `nch ≥ nb_streams + nb_coupled` input channels (AUTO, MAX,
    500·nch … 300000·nch): every stream's rate is ≥ 500 b/s; in the surround / plain allocation a coupled stream gets
    ≥ 2·channel_offset ≥ 4000 b/s and every other non-LFE stream ≥ channel_offset ≥ 2000 b/s; in the ambisonics allocation all streams get the same rate; and
    the floor `rate[i] = IMAX(rate[i], 500)` of :794 never changes a rate (dead code: also the LFE stream is already ≥ 500).  Hence each stream's
    `OPUS_SET_BITRATE(bitrates[s])` is accepted and stores a value inside that encoder's range 500 … 300000·channels. -/
theorem ms_rate_floor (l : MsLayout) (hl : MsLayoutOk l) (fs fsz nch br : Int)
    (hfs : fs = 8000 ∨ fs = 12000 ∨ fs = 16000 ∨ fs = 24000 ∨ fs = 48000) (hleg : legalFrame fs fsz = true)
    (hn1 : l.nbStreams + l.nbCoupled ≤ nch) (hn2 : nch ≤ 255) (hbr : MsBrOk nch br) (i : Int) :
    500 ≤ msRate l fs fsz br i ∧
    (l.ambisonics = false → i < l.nbCoupled → 4000 ≤ msRate l fs fsz br i) ∧
    (l.ambisonics = false → l.nbCoupled ≤ i → i ≠ l.lfeStream → 2000 ≤ msRate l fs fsz br i) ∧
    (l.ambisonics = true → msRate l fs fsz br i = msRate l fs fsz br 0) ∧
    (0 ≤ i → msRate l fs fsz br i = msRateRaw l fs fsz br i) ∧
    (∃ v, msStreamUserBitrate l fs fsz br i = some v ∧ 500 ≤ v ∧ v ≤ 300000 * (if i < l.nbCoupled then 2 else 1)) := by
  have h500 : 500 ≤ msRate l fs fsz br i := by unfold msRate; omega
  refine ⟨h500, ?_, ?_, ?_, ?_, ?_⟩
  · intro ha hi
    exact ((msSur_floor l fs fsz nch br (surIn_of l hl fs fsz nch br hfs hleg hn1 hn2 hbr) ha i).2.1 hi).2
  · intro ha hi hlf
    exact ((msSur_floor l fs fsz nch br (surIn_of l hl fs fsz nch br hfs hleg hn1 hn2 hbr) ha i).2.2 hi hlf).2
  · intro ha
    rw [msRate_ambi l fs fsz br i ha, msRate_ambi l fs fsz br 0 ha]
  · intro hi
    by_cases ha : l.ambisonics = true
    · obtain ⟨-, -, -, -, -, q1, q2⟩ := legal_rate fs fsz hfs hleg
      exact msAmbi_floor_inactive l hl fs fsz nch br ha (by omega) (by omega) q1 q2 hn1 hn2 hbr i
    · have ha' : l.ambisonics = false := by cases h : l.ambisonics <;> simp_all
      exact msSur_floor_inactive l fs fsz nch br (surIn_of l hl fs fsz nch br hfs hleg hn1 hn2 hbr) ha' i hi
  · obtain ⟨v, h1, h2, h3, -⟩ := msStream_ctl l fs fsz br i h500
    exact ⟨v, h1, h2, h3⟩

/-- **What the sum of the rates is** (the invariant of the code, found by reading it — it is NOT "Σ ≤ total"):
    surround / plain: with `B` the total (`bitrate_bps`, or the AUTO / MAX formula), if `B` covers the offsets
    (`channel_offset·nb_normal + lfe_offset·nb_lfe ≤ B`) then `B − nb_normal − 1 ≤ Σ ≤ B`; if it does not, every stream
    keeps its offset and `Σ` EXCEEDS `B`: `channel_offset·nb_normal + 500·nb_lfe ≤ Σ ≤ channel_offset·nb_normal +
    lfe_offset·nb_lfe`.  Ambisonics: `total − nb_streams < Σ ≤ total` always. -/
theorem ms_rate_sum (l : MsLayout) (hl : MsLayoutOk l) (fs fsz nch br : Int)
    (hfs : fs = 8000 ∨ fs = 12000 ∨ fs = 16000 ∨ fs = 24000 ∨ fs = 48000) (hleg : legalFrame fs fsz = true)
    (hn1 : l.nbStreams + l.nbCoupled ≤ nch) (hn2 : nch ≤ 255) (hbr : MsBrOk nch br) :
    (l.ambisonics = false →
      let v := msSurVals l fs fsz br
      (v.channelOffset * v.nbNormal + v.lfeOffset * v.nbLfe ≤ v.bitrate →
         v.bitrate - v.nbNormal - 1 ≤ msRateSum l fs fsz br ∧ msRateSum l fs fsz br ≤ v.bitrate) ∧
      (v.bitrate < v.channelOffset * v.nbNormal + v.lfeOffset * v.nbLfe →
         v.channelOffset * v.nbNormal + 500 * v.nbLfe ≤ msRateSum l fs fsz br ∧
         msRateSum l fs fsz br ≤ v.channelOffset * v.nbNormal + v.lfeOffset * v.nbLfe)) ∧
    (l.ambisonics = true →
      msAmbiTotal l fs fsz br - l.nbStreams < msRateSum l fs fsz br ∧ msRateSum l fs fsz br ≤ msAmbiTotal l fs fsz br) := by
  constructor
  · intro ha
    exact msSur_sum l fs fsz nch br (surIn_of l hl fs fsz nch br hfs hleg hn1 hn2 hbr) ha
  · intro ha
    obtain ⟨-, -, -, -, -, q1, q2⟩ := legal_rate fs fsz hfs hleg
    obtain ⟨R, -, -, -, s1, s2, -⟩ := msAmbi_sum l hl fs fsz nch br ha (by omega) (by omega) q1 q2 hn1 hn2 hbr
    exact ⟨s1, s2⟩

/-- **No 32-bit overflow** in `rate_allocation` and in the clamp arithmetic of :882-886 — for EVERY layout
    `opus_multistream_encoder_init_impl` accepts (`nb_streams + nb_coupled ≤ nb_channels ≤ 255`, so also explicit mappings
    with muted / shared input channels, where the ctl accepts up to 300000·nb_channels b/s), every legal frame size and
    every bit-rate setting.  `msFits` follows the source as of /repo 69d56905: the products `channel_rate*coupled_ratio`
    and `channel_rate*lfe_ratio` (:729/:733) are 64-bit, and what is cast back to `opus_int32` fits because
    `2·channel_rate ≤ bitrate ≤ 76500000` whenever there is a coupled stream and `channel_rate ≥ −4089000`. -/
theorem ms_rate_no_overflow (l : MsLayout) (hl : MsLayoutOk l) (fs fsz nch br : Int)
    (hfs : fs = 8000 ∨ fs = 12000 ∨ fs = 16000 ∨ fs = 24000 ∨ fs = 48000) (hleg : legalFrame fs fsz = true)
    (hn1 : l.nbStreams + l.nbCoupled ≤ nch) (hn2 : nch ≤ 255) (hbr : MsBrOk nch br) :
    msFits l fs fsz br = true ∧ fitsI32 (3 * msRateSum l fs fsz br) = true ∧ fitsI32 (3 * br) = true ∧
    0 < 3 * 8 * fs / fsz := by
  obtain ⟨c1, c2, -, c4⟩ := msClamp_fits l hl fs fsz nch br hfs hleg hn1 hn2 hbr
  exact ⟨msFits_all l hl fs fsz nch br hfs hleg hn1 hn2 hbr, c1, c2, c4⟩

/-- The pre-fix form (before /repo 69d56905) evaluated `channel_rate*coupled_ratio` in `int`: for a layout
    `opus_multistream_encoder_create` accepts (30 input channels, 28 of them muted, one coupled stream) and a bit-rate
    its ctl accepts (9 Mb/s ≤ 300000·30), 20 ms at 48 kHz, `channel_rate = 4488000` and the 32-bit product
    4488000·512 = 2297856000 > INT_MAX (UBSan trap; without the sanitizer the stream got 4000 b/s).  With the 64-bit
    product the same case fits and the stream gets 8976000 + offsets (regression case 1 of corpus/C05/msrate_cases.txt). -/
example :
    msCtlBitrate 30 9000000 = some 9000000 ∧
    (msSurVals { nbStreams := 1, nbCoupled := 1, lfeStream := -1, ambisonics := false } 48000 960 9000000).channelRate = 4488000 ∧
    fitsI32 ((msSurVals { nbStreams := 1, nbCoupled := 1, lfeStream := -1, ambisonics := false } 48000 960 9000000).channelRate * 512) = false ∧
    msFits { nbStreams := 1, nbCoupled := 1, lfeStream := -1, ambisonics := false } 48000 960 9000000 = true ∧
    msRates { nbStreams := 1, nbCoupled := 1, lfeStream := -1, ambisonics := false } 48000 960 9000000 = [9000000] := by
  decide +kernel

/-- **… for every bit-rate setting incl. OPUS_AUTO, with the real rate allocation.**  `msEncodeAlloc` is the entry test
    of :860 followed by C10's stream loop run on the `max_data_bytes` the CBR clamp of :878-888 leaves, where for OPUS_AUTO
    the clamp uses the sum of `rate_allocation` (`msMaxBytesAlloc`, tied by suite op `mscurr3`); for every other setting it
    IS C10's `MsEncode.encodeNative` (last conjunct).  Same contracts on the per-stream encoder as above; additionally a
    layout the create functions admit and a legal frame size (they bound the AUTO rate sum from below: the clamp
    `3*rate_sum/(3*8*Fs/frame_size)` of :882, which has no explicit lower bound in the code, is never below
    `smallest_packet`).  Then: OPUS_BUFFER_TOO_SMALL iff `max_data_bytes < smallest_packet`; otherwise success with
    `1 ≤ ret ≤ max_data_bytes`, exactly `msMaxBytesAlloc` bytes with VBR off, valid multistream structure. -/
theorem ms_encode_ret_le_out_alloc (l : MsLayout) (hl : MsLayoutOk l) (fs fsz : Nat)
    (hfs : fs = 8000 ∨ fs = 12000 ∨ fs = 16000 ∨ fs = 24000 ∨ fs = 48000) (hleg : legalFrame fs fsz = true)
    (vbr : Bool) (br maxData : Int) (enc : Nat → Int → Res Bytes)
    (hc : MsEncode.EncContract fs fsz enc) (ht : MsEncode.EncTotal enc) (hlive : EncLive (decide (fs / fsz = 10)) enc) :
    (maxData < msSmallest l.nbStreams fs fsz → msEncodeAlloc l fs fsz vbr br maxData enc = .err .bufferTooSmall) ∧
    (msSmallest l.nbStreams fs fsz ≤ maxData →
      ∃ out, msEncodeAlloc l fs fsz vbr br maxData enc = .ok out ∧ 1 ≤ out.length ∧ (out.length : Int) ≤ maxData ∧
        (vbr = false → (out.length : Int) = msMaxBytesAlloc l 0 br fs fsz maxData) ∧
        ∃ ps : List Packet, (ps.length : Int) = l.nbStreams ∧ (∀ p ∈ ps, Valid p) ∧ (∀ p ∈ ps, LayoutSpec.duration fs p = fsz) ∧
          out = LayoutSpec.msSerialize ps) ∧
    msSmallest l.nbStreams fs fsz ≤ 3 * msRateSum l fs fsz OPUS_AUTO / (3 * 8 * (fs : Int) / fsz) ∧
    (br ≠ OPUS_AUTO → msEncodeAlloc l fs fsz vbr br maxData enc =
      MsEncode.encodeNative l.nbStreams.toNat fs fsz vbr (brOpt br) maxData enc) := by
  have hfsI : (fs : Int) = 8000 ∨ (fs : Int) = 12000 ∨ (fs : Int) = 16000 ∨ (fs : Int) = 24000 ∨ (fs : Int) = 48000 := by omega
  obtain ⟨h1, h2⟩ := ms_encode_alloc_ret l hl fs fsz hfs hleg vbr br maxData enc hc ht hlive
  exact ⟨h1, h2, ms_auto_enough l hl fs fsz hfsI hleg,
    fun hb => msEncodeAlloc_eq l (by have := hl.n1; omega) fs fsz vbr br maxData enc hb⟩

/-- **… and with the single-stream encoder skeleton in every stream** (C10's `skelEnc`: stream `s` is
    `Opus.EncSkel.encodeNative` on an arbitrary state `sts s` at rate `fs`, with ANY inner SILK/CELT/analysis oracle answers
    within the skeleton's own contracts, `SkelOk`): both contracts on the per-stream encoder are THEOREMS
    (`skelEnc_contract`: `encode_wellformed` + `ret_le_out`; `skelEnc_live`: `ret_le_out` on every legal budget), so nothing
    about the per-stream encoder is assumed beyond those inner contracts. -/
theorem ms_encode_ret_le_out_skel (l : MsLayout) (hl : MsLayoutOk l) (fs : Nat) (fsz : Int)
    (hfs : fs = 8000 ∨ fs = 12000 ∨ fs = 16000 ∨ fs = 24000 ∨ fs = 48000) (hleg : legalFrame fs fsz = true)
    (vbr : Bool) (br maxData : Int) (sts : Nat → St) (hfsAll : ∀ s, (sts s).fs = (fs : Int)) (fuzz : Bool)
    (ors : Nat → Int → NatOr) (frs : Nat → Int → List Bytes) (hok : MsEncode.SkelOk sts fuzz fsz ors frs) :
    (maxData < msSmallest l.nbStreams fs fsz →
      msEncodeAlloc l fs fsz.toNat vbr br maxData (MsEncode.skelEnc sts fuzz fsz ors frs) = .err .bufferTooSmall) ∧
    (msSmallest l.nbStreams fs fsz ≤ maxData →
      ∃ out, msEncodeAlloc l fs fsz.toNat vbr br maxData (MsEncode.skelEnc sts fuzz fsz ors frs) = .ok out ∧
        1 ≤ out.length ∧ (out.length : Int) ≤ maxData ∧
        (vbr = false → (out.length : Int) = msMaxBytesAlloc l 0 br fs fsz maxData)) := by
  have hfsI : (fs : Int) = 8000 ∨ (fs : Int) = 12000 ∨ (fs : Int) = 16000 ∨ (fs : Int) = 24000 ∨ (fs : Int) = 48000 := by omega
  have hfz : 0 < fsz := (legal_rate fs fsz hfsI hleg).1
  have hz : ((fsz.toNat : Nat) : Int) = fsz := Int.toNat_of_nonneg (by omega)
  have hlive : EncLive (decide (fs / fsz.toNat = 10)) (MsEncode.skelEnc sts fuzz fsz ors frs) := by
    rw [fs100_eq, hz]
    exact skelEnc_live sts fuzz fsz hfz ors frs fs hfsAll hok
  obtain ⟨h1, h2⟩ := ms_encode_alloc_ret l hl fs fsz.toNat hfs (by rw [hz]; exact hleg) vbr br maxData _
    (MsEncode.skelEnc_contract sts fuzz fsz ors frs fs hfsAll hok) (MsEncode.skelEnc_total sts fuzz fsz ors frs) hlive
  rw [hz] at h1 h2
  refine ⟨h1, fun h => ?_⟩
  obtain ⟨out, a, b, c, d, -⟩ := h2 h
  exact ⟨out, a, b, c, d⟩

/-- Clause "with constrained VBR the long-term average rate does not exceed the requested bitrate beyond
    a small tolerance", integer part (P2): the bit-reservoir recursion of celt_encoder.c:1785-1808 /
    :2317-2372 (`cvbrStep`, tied by suite op `cvbrrel`) keeps `0 ≤ vbr_reservoir ≤ vbr_rate` for EVERY
    float-driven target, and the bytes of a frame are accounted for exactly:
    `reservoir' = max 0 (reservoir + 64·bytes − vbr_rate)`. -/
theorem cvbr_reservoir_bounded (v res nb want : Int) (sil : Bool) (hv : 128 ≤ v) (hr0 : 0 ≤ res) (hr1 : res ≤ v)
    (hnb : 2 ≤ nb) :
    0 ≤ (cvbrStep v res nb want sil).1 ∧ (cvbrStep v res nb want sil).1 ≤ v ∧
    (cvbrStep v res nb want sil).2 ≤ nb ∧
    (cvbrStep v res nb want sil).1 = max 0 (res + 64 * (cvbrStep v res nb want sil).2 - v) :=
  let h := cvbrStep_spec v res nb want sil hv hr0 hr1 hnb
  ⟨h.1, h.2.1, h.2.2.1, h.2.2.2.2⟩

/-- … hence, at a constant rate, over ANY run of `N` CELT-only constrained-VBR frames with arbitrary
    targets: `64 · Σ bytes ≤ (N + 1) · vbr_rate` (units of 1/8 bit): the long-run average exceeds the
    target by at most one frame's worth, ever (the ToC byte of the Opus layer comes on top). -/
theorem cvbr_average_bound (v : Int) (hv : 128 ≤ v) (fr : List (Int × Int × Bool)) (res : Int)
    (h0 : 0 ≤ res) (h1 : res ≤ v) (hnb : ∀ f ∈ fr, 2 ≤ f.1) :
    64 * sumI (cvbrRun v res fr).2 ≤ (fr.length + 1) * v := by
  obtain ⟨a, b, c⟩ := cvbr_run_bound v hv fr res h0 h1 hnb
  have : ((fr.length : Int) + 1) * v = fr.length * v + v := by rw [Int.add_mul]; omega
  rw [this]; omega

/-! ### Non-vacuity: concrete states and oracle values satisfy the hypotheses -/

def exSt : St :=
  { fs := 48000, channels := 2, application := 2049, useVbr := 0, userBitrate := 64000, forceChannels := -1000,
    signalType := -1000, userBandwidth := -1000, maxBandwidth := 1105, userForcedMode := -1000, lfe := 0, useDtx := 0,
    fecConfig := 0, variableDuration := 5000, complexity := 9, lossPerc := 0, useInBandFEC := 0, energyMasking := 0,
    streamChannels := 2, mode := 1002, prevMode := 1002, prevChannels := 2, prevFramesize := 960, bandwidth := 1105,
    autoBandwidth := 1105, silkBwSwitch := 0, first := 0, voiceRatio := -1, detectedBandwidth := 0, nbNoActivity := 0,
    nonfinalFrame := 0, bitrateBps := 64000, toMono := 0, lbrrCoded := 0, allowBwSwitch := 0, inWBmode := 0,
    opusCanSwitch := 0, silkUseDtx := 0 }
def exFr (cm : Int) : FrameOr :=
  { aValid := 1, activity := 1, silkBitRateIn := 0, silkRet := 0, nBytes := 0, isr := 0, switchReady := 0, allowBw := 0,
    inWB := 0, tellA := 0, tellB := 0, tellC := 0, tellD := 1, tellE := 1000, stripTo := 0, celtRed1 := 0,
    celtMain := cm, celtRed2 := 0, used1 := 0, used2 := 0 }
def exOr (cm : Int) : NatOr :=
  { isSilence := 0, aValid := 1, aBandwidth := 20, vr0 := 10, vr1 := 10, vr2 := 10, modeVoice := 64000, modeMusic := 10000,
    rands := [], frames := [exFr cm, exFr cm, exFr cm] }

example : legalFrame 48000 2880 = true ∧ cbrBytes 48000 2880 6000 1276 = 45 := by decide +kernel
/-- 64 kb/s CBR, 20 ms: a single CELT frame of exactly 160 bytes. -/
example : entryCheck exSt 960 4000 = none ∧ (encodeNative exSt false 960 4000 (exOr 159)).ok = true ∧
    (encodeNative exSt false 960 4000 (exOr 159)).ret = 160 ∧ cbrTarget exSt 960 4000 = 160 := by decide +kernel
/-- 64 kb/s CBR, 60 ms: three CELT frames repacketised into exactly 480 bytes. -/
example : (encodeNative exSt false 2880 4000 (exOr 158)).ok = true ∧
    (encodeNative exSt false 2880 4000 (exOr 158)).ret = 480 ∧ cbrTarget exSt 2880 4000 = 480 ∧
    (encodeNative exSt false 2880 4000 (exOr 158)).pkt.lens = [158, 158, 158] := by decide +kernel
/-- OPUS_BITRATE_MAX: 1276 bytes for one frame, the whole 4000-byte buffer for a 60 ms packet. -/
example : (encodeNative { exSt with userBitrate := -1 } false 960 4000 (exOr 1275)).ok = true ∧
    (encodeNative { exSt with userBitrate := -1 } false 960 4000 (exOr 1275)).ret = 1276 ∧
    (encodeNative { exSt with userBitrate := -1 } false 2880 4000 (exOr 424)).ok = true ∧
    (encodeNative { exSt with userBitrate := -1 } false 2880 4000 (exOr 424)).ret = 4000 := by decide +kernel
/-- Two bytes of space: low-budget path, ToC-only packet; no space / 1 byte for 100 ms: refused. -/
example : lowBudgetGate (budgetSt exSt (exOr 0) 960 2) 960 (sizeBudget (analysisUpd exSt (exOr 0)) 960 2) = true ∧
    (encodeNative exSt false 960 2 (exOr 0)).ok = true ∧ (encodeNative exSt false 960 2 (exOr 0)).ret = 2 ∧
    (encodeNative exSt false 960 2 (exOr 0)).pkt.lens = [0] ∧
    entryCheck exSt 960 0 = some OPUS_BAD_ARG ∧ entryCheck exSt 4800 1 = some OPUS_BUFFER_TOO_SMALL := by decide +kernel

/-- a reachable state: a fresh 48 kHz stereo AUDIO encoder after OPUS_SET_BITRATE(64000). -/
example : encArgsOk 48000 2 2049 = true ∧ (encCtl (encInit 48000 2 2049) (.set .bitrate 64000)).2 = Ret.ok := by decide +kernel
/-- two streams, 20 ms, 255 bytes: the first stream gets 252 bytes (2 reserved for its length), the second the rest. -/
example : msCurrMax 2 48000 960 255 0 0 = 252 ∧ msCurrMax 2 48000 960 255 254 1 = 1 ∧ msSmallest 2 48000 960 = 3 := by decide +kernel
/-! non-vacuity of `ms_encode_ret_le_out`: a per-stream encoder inside all three contracts (3 bytes `F8 07 07` when it has
    room, the ToC-only packet `F8` for budgets 1 and 2, both 20 ms CELT), and the model run on it: two streams, 255 bytes, VBR →
    `F8 02 07 07` (self-delimited) ++ `F8 07 07`; CBR → padded to exactly 255 bytes; 2 bytes → refused -/
def exEnc : Nat → Int → Res Bytes := fun _ cm =>
  if 3 ≤ cm then .ok (serialize false ⟨0xF8, [[7, 7]], false, none⟩)
  else if 1 ≤ cm then .ok (serialize false ⟨0xF8, [[]], false, none⟩) else .err .badArg
theorem exEnc_contracts : MsEncode.EncContract 48000 960 exEnc ∧ MsEncode.EncTotal exEnc ∧ EncLive (decide (48000 / 960 = 10)) exEnc := by
  have hv : ∀ f : Bytes, f.length ≤ 1275 → Valid ⟨0xF8, [f], false, none⟩ := fun f hf =>
    { toc_byte := by show (0xF8 : Nat) < 256; decide
      frame_max := by intro g hg; simp only [List.mem_singleton] at hg; subst hg; exact hf
      code0 := fun _ => ⟨rfl, rfl, rfl⟩
      code1 := fun h => absurd h (by show ¬ ((0xF8 : Nat) % 4 = 1); decide)
      code2 := fun h => absurd h (by show ¬ ((0xF8 : Nat) % 4 = 2); decide)
      code3 := fun h => absurd h (by show ¬ ((0xF8 : Nat) % 4 = 3); decide)
      pad_ok := fun pd h => by cases h }
  refine ⟨?_, ?_, ?_⟩
  · intro s cm pk h
    unfold exEnc at h
    split at h
    · cases h
      exact ⟨_, hv _ (by decide), RepackProofs.count_nil 1 (by decide), rfl, by decide, by
        simpa [serialize, header, lenFields, Packet.code, Packet.lens, padBytes] using (by assumption : 3 ≤ cm)⟩
    · split at h
      · cases h
        exact ⟨_, hv _ (by decide), RepackProofs.count_nil 1 (by decide), rfl, by decide, by
          simpa [serialize, header, lenFields, Packet.code, Packet.lens, padBytes] using (by assumption : 1 ≤ cm)⟩
      · cases h
  · intro s cm; unfold exEnc
    constructor <;> intro h <;> split at h <;> (try split at h) <;> cases h
  · intro s cm h1 _
    unfold exEnc
    split
    · exact ⟨_, rfl⟩
    · exact ⟨_, rfl⟩
/-- … so the theorem applies: two streams, 255 bytes: VBR returns a packet of 1..255 bytes, CBR (OPUS_BITRATE_MAX) one of
    exactly 255 bytes, and 2 bytes are refused (`smallest_packet` = 3). -/
example : (∃ out, MsEncode.encodeNative 2 48000 960 true none 255 exEnc = .ok out ∧ 1 ≤ out.length ∧ (out.length : Int) ≤ 255) ∧
    (∃ out, MsEncode.encodeNative 2 48000 960 false none 255 exEnc = .ok out ∧ (out.length : Int) = 255) ∧
    MsEncode.encodeNative 2 48000 960 true none 2 exEnc = .err .bufferTooSmall := by
  obtain ⟨hc, ht, hl⟩ := exEnc_contracts
  obtain ⟨a1, a2⟩ := ms_encode_ret_le_out 2 (by decide) 48000 960 true none 255 exEnc hc ht hl
  obtain ⟨b1, b2⟩ := ms_encode_ret_le_out 2 (by decide) 48000 960 false none 255 exEnc hc ht hl
  obtain ⟨c1, -⟩ := ms_encode_ret_le_out 2 (by decide) 48000 960 true none 2 exEnc hc ht hl
  refine ⟨?_, ?_, c1 (by decide)⟩
  · obtain ⟨out, h1, h2, h3, -⟩ := a2 (by decide)
    exact ⟨out, h1, h2, h3⟩
  · obtain ⟨out, h1, -, -, h4, -⟩ := b2 (by decide)
    exact ⟨out, h1, by rw [h4 rfl]; decide⟩

/-! non-vacuity of `stOk_along_histories`: a `Reach` instance — create (48 kHz stereo AUDIO), OPUS_SET_BITRATE(64000),
    OPUS_SET_VBR(0), then one 20 ms encode call (any oracle values; here the CELT frame of `exOr 159`) -/
example : ∃ e s, Reach e s ∧ s = (encodeNative (stOfEnc (encCtl (encCtl (encInit 48000 2 2049) (.set .bitrate 64000)).1
      (.set .vbr 0)).1) false 960 4000 (exOr 159)).st ∧ s.prevFramesize = 960 := by
  have h0 : Reach (encInit 48000 2 2049) (stOfEnc (encInit 48000 2 2049)) :=
    Reach.init 48000 2 2049 _ (by decide +kernel) (refines_stOfEnc _)
  have h1 := Reach.ctl (.set .bitrate 64000) (stOfEnc (encCtl (encInit 48000 2 2049) (.set .bitrate 64000)).1) h0
    (refines_stOfEnc _)
  have h2 := Reach.ctl (.set .vbr 0) (stOfEnc (encCtl (encCtl (encInit 48000 2 2049) (.set .bitrate 64000)).1 (.set .vbr 0)).1) h1
    (refines_stOfEnc _)
  have h3 := Reach.encode false 960 4000 (exOr 159) (obsOfSt (encodeNative (stOfEnc (encCtl (encCtl (encInit 48000 2 2049)
      (.set .bitrate 64000)).1 (.set .vbr 0)).1) false 960 4000 (exOr 159)).st) h2 (obsOf_obsOfSt _)
    (freeOk_obsOfSt _ _ (by decide +kernel))
  exact ⟨_, _, h3, rfl, by decide +kernel⟩

/-- 5.1 surround (4 streams, 2 coupled, LFE last), 48 kHz, 20 ms, 256 kb/s: rates 95120+95120+57560+8195 = 255995,
    within nb_normal+1 = 6 of the total … -/
example : msRates { nbStreams := 4, nbCoupled := 2, lfeStream := 3, ambisonics := false } 48000 960 256000 = [95120, 95120, 57560, 8195] ∧
    msRateSum { nbStreams := 4, nbCoupled := 2, lfeStream := 3, ambisonics := false } 48000 960 256000 = 255995 ∧
    msFits { nbStreams := 4, nbCoupled := 2, lfeStream := 3, ambisonics := false } 48000 960 256000 = true ∧
    MsLayoutOk { nbStreams := 4, nbCoupled := 2, lfeStream := 3, ambisonics := false } ∧ MsBrOk 6 256000 := by
  refine ⟨by decide +kernel, by decide +kernel, by decide +kernel, ⟨by decide, by decide, by decide, by decide, Or.inr (by decide), fun h => by cases h⟩, Or.inr (Or.inr (by decide))⟩
/-- … and at 3000 b/s (the ctl minimum for 6 channels) the offsets win: Σ = 10707 > 3000. -/
example : msRates { nbStreams := 4, nbCoupled := 2, lfeStream := 3, ambisonics := false } 48000 960 3000 = [4000, 4000, 2000, 707] := by
  decide +kernel
/-- OPUS_AUTO, CBR, two mono streams, 2.5 ms at 8 kHz: rate_sum 68000 → clamp 21 bytes ≥ smallest_packet 3. -/
example : msRateSum { nbStreams := 2, nbCoupled := 0, lfeStream := -1, ambisonics := false } 8000 20 OPUS_AUTO = 68000 ∧
    msMaxBytesAlloc { nbStreams := 2, nbCoupled := 0, lfeStream := -1, ambisonics := false } 0 OPUS_AUTO 8000 20 4000 = 21 ∧
    msSmallest 2 8000 20 = 3 := by decide +kernel
/-- 64 kb/s, 20 ms: vbr_rate = 10240; a frame that wants 400 bytes with a full reservoir gets 160. -/
example : cvbrStep 10240 10240 1275 400 false = (10240, 160) ∧ cvbrStep 10240 0 1275 100 false = (0, 160) := by decide +kernel

end OpusProps.C05
