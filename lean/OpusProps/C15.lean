import OpusProofs.KernelsDispatch
import OpusProofs.KernelsVQ
import OpusProofs.KernelsXcorr
import OpusProofs.KernelsNsq
import OpusProofs.KernelsPvq
/-
  Property C15 — "Optimised (SIMD, run-time dispatched) kernels match the portable C code".

  Model: `Opus.Kernels` (OpusModel/Kernels.lean)
    (i)   `cpuFeatureCheck` / `selectArchImpl` / `selectArch`   celt/x86/x86cpu.c:111-198 (with the XIPH_OPUS_VERIF cap),
          `floatSpecs` / `symbolAt`: which symbol every RTCD table must hold at every index; the tables themselves
          (`Opus.Gen.DispatchTables`) are regenerated from x86_celt_map.c / x86_silk_map.c on every run;
    (ii)  `vqWMatEC_c` / `vqWMatEC_sse`: silk/VQ_WMat_EC.c and silk/x86/VQ_WMat_EC_sse4_1.c as data-flow programs over
          ℤ with explicit 32/64-bit wrap and the 128-bit register as four lanes;
    (iii) the float reduction kernels as lane programs generic in the number type: every intrinsic is a definition on
          lane functions, every loop a recursion with the C loop's trip count.
  The theorems of (iii) are stated for an arbitrary commutative semiring `α`.  Read at `α = ℝ` they say: the SIMD
  kernel computes the same real number as the portable loop, i.e. the two binary32 results differ by reassociation
  only (no element dropped, duplicated or taken from a neighbouring address, for every length and lag).  Read at
  `α = ℤ` they are what the correspondence run checks bit for bit against the real kernels on the exact domain.

  (ii-b) integer pieces of the quantiser / VAD kernels (OpusModel/KernelsNsq.lean): `silk_nsq_scale_states[_sse4_1]` as a
  whole, the VAD sub-frame energy loop, `silk_sar_round_smulww`.

  NOT proved here (see UNPROVED / NOT_COVERED in tools/props/C15.py): bit-identity of the sample loops of
  silk_NSQ_del_dec_sse4_1/_avx2 and of the rest of silk_VAD_GetSA_Q8_sse4_1 with their C twins; for op_pvq_search_sse2 the
  integer bookkeeping is proved under contracts on its float parts (`pvq_search_relational`), the contracts themselves
  and the quality of its choices are searched only; rounding-error bounds of the float kernels in IEEE arithmetic.
-/
namespace OpusProps.C15
open Opus.Kernels Opus.Gen

/-! ### (i) arch selection and dispatch tables -/

/-- "every CPU feature level the library can select at run time" is one of 0..4, and always a valid index of the
    `OPUS_ARCHMASK+1`-entry tables — for every CPUID answer and every value of the cap hook. -/
theorem arch_range (f : CpuFeature) (cap : Option Nat) :
    selectArch f cap ≤ 4 ∧ selectArch f cap ≤ DispatchTables.archMask :=
  ⟨Nat.le_trans (selectArch_le f cap) (selectArchImpl_le f),
   Nat.le_trans (Nat.le_trans (selectArch_le f cap) (selectArchImpl_le f)) archMask_covers⟩

example : selectArch ⟨true, true, true, true⟩ none = 4 ∧ selectArch ⟨true, true, false, true⟩ none = 2 ∧
    selectArch ⟨true, true, true, true⟩ (some 1) = 1 := by decide

/-- The decision list: level `n` is selected exactly when the CPU announces the first `n` feature sets of
    SSE, SSE2, SSE4.1, AVX2 (a hole hides everything above it); AVX2 is only believed when CPUID leaf 1 announces AVX
    and FMA, leaf 7 exists and announces AVX2; the verification cap can only lower the level. -/
theorem arch_decision (f : CpuFeature) (nIds ecx1 edx1 ebx7 c : Nat) :
    ((1 ≤ selectArchImpl f ↔ f.sse = true) ∧
     (2 ≤ selectArchImpl f ↔ (f.sse = true ∧ f.sse2 = true)) ∧
     (3 ≤ selectArchImpl f ↔ (f.sse = true ∧ f.sse2 = true ∧ f.sse41 = true)) ∧
     (4 ≤ selectArchImpl f ↔ (f.sse = true ∧ f.sse2 = true ∧ f.sse41 = true ∧ f.avx2 = true))) ∧
    ((cpuFeatureCheck nIds ecx1 edx1 ebx7).avx2 = true ↔
      (7 ≤ nIds ∧ bit ecx1 28 = true ∧ bit ecx1 12 = true ∧ bit ebx7 5 = true)) ∧
    selectArch f (some c) = min c (selectArchImpl f) ∧ selectArch f none = selectArchImpl f :=
  ⟨selectArchImpl_spec f, cpuFeatureCheck_avx2 nIds ecx1 edx1 ebx7, selectArch_eq_min f c, selectArch_none f⟩

example : (cpuFeatureCheck 13 (2 ^ 28 + 2 ^ 12 + 2 ^ 19) (2 ^ 25 + 2 ^ 26) (2 ^ 5)).avx2 = true ∧
    (cpuFeatureCheck 6 (2 ^ 28 + 2 ^ 12 + 2 ^ 19) (2 ^ 25 + 2 ^ 26) (2 ^ 5)).avx2 = false := by decide

/-- Shape of the dispatch tables as the compiler sees them now (regenerated): exactly the tables this
    configuration needs exist; each has `OPUS_ARCHMASK+1` entries; entry `a ≤ 4` is `symbolAt k a` — the portable
    symbol strictly below the kernel's lowest SIMD level and, from a level on, the SIMD symbol of the highest level
    not above `a`; the entries above 4 are NULL. -/
theorem dispatch_shape :
    DispatchTables.tables.map (·.1) = expectedTableNames (presumedLevel DispatchTables.presume) ∧
    (∀ t ∈ DispatchTables.tables, ∃ k ∈ floatSpecs, k.table = t.1 ∧
      t.2.1 = DispatchTables.archMask + 1 ∧ t.2.2.length = DispatchTables.archMask + 1 ∧
      (∀ a ∈ List.range 5, t.2.2[a]? = some (symbolAt k a)) ∧
      (∀ a ∈ List.range (DispatchTables.archMask + 1), 4 < a → t.2.2[a]? = some "null")) ∧
    (∀ k ∈ floatSpecs, ∀ a ∈ List.range 5,
      ((∀ ls ∈ k.levels, a < ls.1) → symbolAt k a = k.base) ∧
      (∀ ls ∈ k.levels, ls.1 ≤ a → ∃ ms ∈ k.levels, symbolAt k a = ms.2 ∧ ls.1 ≤ ms.1 ∧ ms.1 ≤ a)) :=
  ⟨tables_complete, tables_entries, symbolAt_meaning⟩

example : symbolAt ⟨"SILK_NSQ_DEL_DEC_IMPL", "silk_NSQ_del_dec_c",
      [(3, "silk_NSQ_del_dec_sse4_1"), (4, "silk_NSQ_del_dec_avx2")]⟩ 3 = "silk_NSQ_del_dec_sse4_1" ∧
    DispatchTables.tables.length = 6 := by decide

/-- No run-time selected kernel needs an instruction set the CPU lacks, and no NULL entry is ever called: for every
    CPUID answer and cap, the function a table holds at the selected arch index is a real function whose feature level
    is at most the CPU's level, and the CPU has every feature set up to that level. -/
theorem dispatch_safe (f : CpuFeature) (cap : Option Nat) :
    ∀ t ∈ DispatchTables.tables, ∀ k ∈ floatSpecs, k.table = t.1 →
      t.2.2.getD (selectArch f cap) "null" ≠ "null" ∧
      hasLevel f (levelOf k (t.2.2.getD (selectArch f cap) "null")) := fun t ht k hk hkt =>
  ⟨(dispatch_level_le f cap t ht k hk hkt).2, hasLevel_of_le f _ (dispatch_level_le f cap t ht k hk hkt).1⟩

example : hasLevel ⟨true, true, true, false⟩ 3 ∧ ¬ hasLevel ⟨true, true, true, false⟩ 4 := by
  constructor
  · exact ⟨fun _ => rfl, fun _ => rfl, fun _ => rfl, fun h => absurd h (by decide)⟩
  · intro h; exact absurd (h.2.2.2 (Nat.le_refl 4)) (by decide)

/-- Consequence clause ("a float build decodes identical final ranges … identical packets where only integer kernels
    differ"): in this configuration every *float* kernel table holds the same function at arch indices 0..3, so between
    those levels only integer kernels (required bit-exact) change and the encoder must emit identical packets — which is
    what the whole-codec search checks at OPUS_VERIF_ARCH_CAP=0..3. -/
theorem float_kernels_fixed_below_avx2 : ∀ t ∈ DispatchTables.tables, t.1 ∈ floatTables →
    ∀ a ∈ List.range 4, t.2.2[a]? = t.2.2[0]? := float_tables_const_below_avx2

example : "PITCH_XCORR_IMPL" ∈ floatTables ∧ (DispatchTables.tables.filter (fun t => floatTables.contains t.1)).length = 2 := by
  decide

/-! ### (ii) silk_VQ_WMat_EC: SSE4.1 = C, bit for bit -/

/-- For ALL inputs — every 32-bit correlation matrix/vector, every codebook (any `L`, any int8 rows, any gains and code
    lengths), every `subfr_len`, `max_gain_Q7` — the SSE4.1 kernel returns the same `(ind, res_nrg_Q15, rate_dist_Q8,
    gain_Q7)` as the portable function (including "gain never written" when no vector qualifies).  32-bit wrap-around
    of `silk_MLA` is part of both programs. -/
theorem vqWMatEC_sse_eq_c (inp : VQIn) : vqWMatEC_sse inp = vqWMatEC_c inp := vqWMatEC_sse_eq inp

/- non-vacuity: a 2-vector codebook on which the search really picks (vector 1 wins), and the model is sensitive to
   the SSE shuffle (`shuffle_matters`: the wrong lane pairing gives another number). -/
example : vqWMatEC_sse ⟨[131072, 1000, 2000, 3000, 4000, 0, 131072, 0, 0, 0, 0, 0, 131072, 0, 0, 0, 0, 0, 131072, 0, 0, 0, 0, 0, 131072],
      [0, 0, 70000, 0, 0], [0, 0, 10, 0, 0, 0, 0, 64, 0, 0], [10, 64], [20, 30], 80, 100, 2⟩
    = ⟨-4920, 23493, 1, some 64⟩ := by decide +kernel

/-! ### (ii-b) integer pieces of the NSQ / VAD kernels -/

/-- `silk_nsq_scale_states_sse4_1` (silk/x86/NSQ_sse4_1.c) equals `silk_nsq_scale_states` (silk/NSQ.c) as a whole, for
    ALL inputs: every sub-frame / memory length (also not a multiple of four and shorter than four), every 32-bit state
    value, gain and previous gain, every lag, signal type and re-whitening flag.  All of `x_sc_Q10`, `sLTP_shp_Q14`,
    `sLTP_Q15`, `sLF_AR_shp_Q14`, `sDiff_shp_Q14`, `sLPC_Q14`, `sAR2_Q14`, `prev_gain_Q16` agree.  The two files differ
    only in the two vectorised loops; there the `_mm_mul_epi32` / `_mm_srli_epi64` / `_mm_slli_epi64` /
    `_mm_blend_epi16(0xCC)` idiom yields `silk_SMULWW` in every lane, 32-bit wrap of the C macro included, and blocks
    of four plus scalar tail cover exactly the index range of the portable loop. -/
theorem nsq_scale_states_sse_eq_c (inp : NsqScIn) (st : NsqSc) :
    nsqScaleStatesSse inp st = nsqScaleStatesC inp st ∧
    (∀ v g : Int, ∀ odd : Bool, wrap32 (smulwwLaneSse v g odd) = smulww v g) ∧
    vecSmulwwSse = vecSmulwwC :=
  ⟨nsqScaleStatesSse_eq inp st, smulwwLaneSse_eq, vecSmulwwSse_eq⟩

example : smulww (-70000) 123456789 = -131866078 ∧ wrap32 (smulwwLaneSse (-70000) 123456789 true) = -131866078 ∧
    wrap32 (smulwwLaneSse (-70000) 123456789 false) = -131866078 ∧ smulww 2147483647 2147483647 = -65536 := by decide
/- a range of 7 starting at index 1 of a 10-element array: one block of four, a tail of three, ends untouched;
   and a whole call with a gain change (state really rescaled). -/
example : vecSmulwwSse 98304 [1, 2, 3, 4, 5, 6, 7, 8, 9, 10] 1 8 = [1, 3, 4, 6, 7, 9, 10, 12, 9, 10] := by decide +kernel
example : (nsqScaleStatesSse ⟨5, 4, [1000, -2000, 3000, -4000, 5000], [7, 8, 9, 10, 11, 12, 13, 14, 15], 2, 1, 15565, 131072, 2, false, 5, 6⟩
      ⟨[10, 20, 30, 40, 50, 60, 70, 80], [1, 2, 3, 4, 5, 6, 7, 8, 9], [], 100, 200,
       [1, 1, 1, 1, 1, 1, 1, 1, 1, 1, 1, 1, 1, 1, 1, 1], [2, 2, 2, 2, 2, 2, 2, 2, 2, 2, 2, 2, 2, 2, 2, 2, 2, 2, 2, 2, 2, 2, 2, 2], 65536⟩).shp
    = [10, 20, 14, 19, 24, 29, 70, 80] := by decide +kernel

/-- The sub-frame energy accumulation of `silk_VAD_GetSA_Q8_sse4_1` (blocks of eight through `_mm_srai_epi16`,
    `_mm_madd_epi16`, `_mm_add_epi32`, two horizontal adds, scalar tail) equals the portable loop of
    `silk_VAD_GetSA_Q8_c` for every int16 sample sequence of every length, including the 32-bit wrap of the accumulator
    (the C comment excludes overflow only for lengths ≤ 128); both equal the sum of the squares of `x >> 3` modulo 2^32. -/
theorem vad_energy_sse_eq_c (x : Nat → Int) (n : Nat) :
    vadEnergySse x n = vadEnergyC x n ∧ vadEnergyC x n = wrap32 (sqSum x 0 n) :=
  ⟨vadEnergySse_eq x n, vadEnergyC_eq x n⟩

example : vadEnergySse (fun i => (-32768 : Int) + 100 * i) 19 = 301622089 ∧
    vadEnergyC (fun _ => -32768) 200 = -939524096 := by decide +kernel

/-- `silk_sar_round_smulww` of silk/x86/NSQ_del_dec_avx2.c as committed in 50e8da86 is the C kernel's
    `silk_RSHIFT_ROUND(silk_SMULWW(a, b), bits)` for all 32-bit `a`, `b` and every shift count; and the 64-bit form it
    replaced agrees with the C expression exactly when `(a*b) >> 16` fits 32 bits (for the two shift counts used, 8
    and 14) — i.e. it differed precisely where the C code wraps. -/
theorem sar_round_smulww_avx2_eq_c (a b : Int) (bits : Nat) :
    sarRoundSmulwwAvx2 a b bits = sarRoundSmulwwC a b bits ∧
    ((-2147483648 ≤ wrap32 a * wrap32 b / 65536 ∧ wrap32 a * wrap32 b / 65536 < 2147483648) →
      sarRoundSmulww64 a b 8 = sarRoundSmulwwC a b 8 ∧ sarRoundSmulww64 a b 14 = sarRoundSmulwwC a b 14) :=
  ⟨sarRound_avx2_eq_c a b bits, sarRound64_eq_c_of_fits a b⟩

/- the pre-fix 64-bit form differs on an overflowing input (Xq_Q14 near the 32-bit limit times a gain): the C code
   wraps to -2, the 64-bit form returns the true, large quotient — int16 output -2 versus saturated 32767. -/
example : sarRoundSmulwwC 2147483647 26345472 8 = -2 ∧ sarRoundSmulww64 2147483647 26345472 8 = 3372220414 ∧
    sarRoundSmulwwAvx2 2147483647 26345472 8 = -2 := by decide +kernel

/-- The lane helpers with which silk/x86/NSQ_del_dec_avx2.c builds its per-sample quantisation (lines 125-190, 236-241)
    compute, in every lane and for all 32-bit operands, what the C macros of silk_NSQ_del_dec_c compute:
    `silk_mm_add_sat_epi32` = silk_ADD_SAT32 (= the mathematical clamp), `silk_mm_sub_sat_epi32` = silk_SUB_SAT32,
    `silk_mm_limit_epi32` = silk_LIMIT_32 for either order of the limits, `silk_mm_smulww_epi32` = silk_SMULWW,
    `silk_mm_smulwb_epi32` = silk_SMULWB, `silk_mm256_rand_epi32` = silk_RAND; `silk_mm_srai_round_epi32(a, bits)` (as
    committed in b1d58384) = silk_RSHIFT_ROUND(a, bits) for every 32-bit `a` and every shift count 2..30, saturated
    inputs included.  The order in which the kernel composes these helpers is not modelled (UNPROVED
    `nsq_del_dec_simd_eq_c`). -/
theorem nsq_del_dec_avx2_lane_ops_eq_c (a b c : Int) (bits : Nat) (ha : I32 a) (hb : I32 b) (hbits : 2 ≤ bits) :
    addSatLane a b = addSat32C a b ∧ addSat32C a b = max (-2147483648) (min 2147483647 (a + b)) ∧
    subSatLane a b = subSat32C a b ∧ limitLane a b c = limit a b c ∧
    wrap32 (smulwwLaneAvx2 a b) = smulww a b ∧ wrap32 (smulwbLaneAvx2 a b) = smulwb a b ∧ randLane a = randC a ∧
    sraiRoundLane a bits = rshiftRound a bits :=
  ⟨addSatLane_eq a b ha hb, addSat32C_clamp a b ha hb, subSatLane_eq a b ha hb, limitLane_eq a b c,
   smulwwLaneAvx2_eq a b, smulwbLaneAvx2_eq a b, randLane_eq a, sraiRoundLane_eq a ha bits hbits⟩

example : addSatLane 2147483000 5000 = 2147483647 ∧ subSatLane (-2147483000) 5000 = -2147483648 ∧
    limitLane 40000 (30 * 1024) (-(31 * 1024)) = 30720 ∧ wrap32 (smulwbLaneAvx2 (-70000) 40000) = 27275 ∧
    randLane 12345 = randC 12345 := by decide
/- the saturated input the preceding `silk_mm_sub_sat_epi32` can deliver: the committed helper gives the C value +2^27;
   the form before b1d58384 (`(a + 8) >> 4` with a wrapping add) gave -2^27 (regression case in corpus/C15). -/
example : sraiRoundLane 2147483647 4 = 134217728 ∧ rshiftRound 2147483647 4 = 134217728 ∧
    sraiRoundLaneOld 2147483647 4 = -134217728 := by decide

/-- The relational property the codec needs from the PVQ pulse search, for `op_pvq_search_sse2` and `op_pvq_search_c`
    alike: WHATEVER the floating-point parts return — the pre-search counts `proj` (SSE2: `_mm_cvttps_epi32` of an
    `_mm_rcp_ps`-scaled vector) and, in every greedy iteration, the position `pick s` of the (SSE2: `rsqrt`-approximated)
    arg-max — as long as they stay within their contracts (`proj` has one count per position summing to at most K, i.e.
    `pulsesLeft ≥ 0`; the arg-max returns a position `< N`), the search returns a vector of N integers with exactly K
    pulses (`Σ|iy| = K`), whose signs follow the input (`iy[j] ≤ 0` where `X[j] < 0`, `≥ 0` elsewhere), and `yy = Σ iy²`.
    Covers the "too many pulses left" branch and both sign-restoration idioms (`(iy ^ -s) + s` and `(iy + m) ^ m`).
    The two contracts are properties of float code and are NOT proved here (the first is, in exact arithmetic:
    `pvq_presearch_contract_exact`).  Tie: the correspondence run records `proj` and every `pick` inside the compiled
    kernels (harness/c15_pvq.c) and the model, fed with them, must reproduce the kernel's `iy` and `yy` (driver op `pvq`,
    which also reports a recording that breaks a contract). -/
theorem pvq_search_relational (n K : Nat) (proj : List Nat) (pick : Pvq.St → Nat) (signs : List Bool)
    (hn : 0 < n) (hproj : proj.length = n) (hsum : Pvq.sum proj ≤ K) (hpick : ∀ s, pick s < n) (hs : signs.length = n) :
    (let r := Pvq.searchSse2 n K proj pick signs
     r.1.length = n ∧ Pvq.sumAbs r.1 = K ∧ (r.2 : Int) = Pvq.sumSqI r.1 ∧
     (∀ j, j < n → (signs.getD j false = true → r.1.getD j 0 ≤ 0) ∧ (signs.getD j false = false → 0 ≤ r.1.getD j 0))) ∧
    (let r := Pvq.searchC n K proj pick signs
     r.1.length = n ∧ Pvq.sumAbs r.1 = K ∧ (r.2 : Int) = Pvq.sumSqI r.1 ∧
     (∀ j, j < n → (signs.getD j false = true → r.1.getD j 0 ≤ 0) ∧ (signs.getD j false = false → 0 ≤ r.1.getD j 0))) :=
  ⟨Pvq.search_spec _ Pvq.signRestoreSse_eq n K proj pick signs hn hproj hsum hpick hs,
   Pvq.search_spec _ Pvq.signRestoreC_eq n K proj pick signs hn hproj hsum hpick hs⟩

/- non-vacuity: N=4, K=7, pre-search placed 1+0+2+0, the arg-max oracle alternates between positions 3 and 1; and the
   "too many pulses left" branch (K=20 > N+3 with an empty pre-search). -/
example : Pvq.searchSse2 4 7 [1, 0, 2, 0] (fun s => if s.left % 2 = 0 then 3 else 1) [true, false, false, true]
    = ([-1, 2, 2, -2], 13) := by decide
example : Pvq.searchC 4 20 [0, 0, 0, 0] (fun _ => 2) [true, false, false, false] = ([-20, 0, 0, 0], 400) := by decide

/-- The first contract of `pvq_search_relational` ("the pre-search never allocates more than K pulses") in EXACT
    arithmetic, over any ordered field with a floor (ℚ, ℝ): for non-negative `|X[j]|` and the scale factor `r` actually
    used, `r·Σ|x| < K+1` implies that the counts `floor(r·|x_j|)` are one per position and sum to at most K; and
    `r·Σ|x| < K+1` holds for `r = (K+4/5)/Σ|x|` (the code's `(K+0.8f)·rcp(sum)`) even when reciprocal and sum carry a
    relative error ε with `ε·(5K+4) < 1` (K = 128: ε < 1/644, while `_mm_rcp_ps` guarantees 1.5·2⁻¹²).  That the
    binary32 evaluation (rounded sum and products) stays within this margin remains an assumption. -/
theorem pvq_presearch_contract_exact {α : Type} [Field α] [LinearOrder α] [IsStrictOrderedRing α] [FloorRing α]
    (K : Nat) (xs : List α) (S ε r : α) (hx : ∀ x ∈ xs, 0 ≤ x) (hS : Pvq.fsum xs = S) (hSpos : 0 < S) (hr0 : 0 ≤ r)
    (hε : 0 ≤ ε) (hm : ε * (5 * (K : α) + 4) < 1) (hr : r ≤ ((K : α) + 4 / 5) / S * (1 + ε)) :
    (Pvq.counts r xs).length = xs.length ∧ Pvq.sum (Pvq.counts r xs) ≤ K :=
  Pvq.presearch_contract K r xs hx hr0 (by rw [hS]; exact Pvq.presearch_margin K S ε r hSpos hε hm hr)

/- non-vacuity over ℚ: |X| = (1/2, 1/4, 1/4), K = 5, exact r = 5.8: counts 2,1,1 (4 ≤ 5, one pulse left for the greedy loop) -/
example : Pvq.counts (29 / 5 : ℚ) [1 / 2, 1 / 4, 1 / 4] = [2, 1, 1] := by
  simp only [Pvq.counts, List.map]
  norm_num [Int.floor_eq_iff]
  decide

/-! ### (iii) float reduction kernels: lane decomposition = sequential sum, every length -/

section lanes
variable {α : Type} [CommSemiring α]

/-- celt_inner_prod_sse = celt_inner_prod_c for every length `N` (4-lane strided sums, horizontal add, scalar tail). -/
theorem lanes_eq_seq_inner_prod (x y : Nat → α) (N : Nat) : innerProdSse x y N = innerProdC x y N :=
  innerProdSse_eq x y N

/-- dual_inner_prod_sse = dual_inner_prod_c (both outputs) for every length. -/
theorem lanes_eq_seq_dual_inner_prod (x y1 y2 : Nat → α) (N : Nat) :
    dualInnerProdSse x y1 y2 N = dualInnerProdC x y1 y2 N := dualInnerProdSse_eq x y1 y2 N

/-- xcorr_kernel_sse = xcorr_kernel_c on all four lags for every `len` (also `len < 4` and `len % 4 ≠ 0`), and both
    are `sum[k] + Σ_j x[j]·y[j+k]`: the shuffles 0x49/0x9e pick exactly `y[j+1..j+4]`, `y[j+2..j+5]`. -/
theorem lanes_eq_seq_xcorr_kernel (x y : Nat → α) (sum : Vec α) (len k : Nat) (hk : k < 4) :
    xcorrKernelSse x y sum len k = xcorrKernelC x y sum len k ∧
    xcorrKernelC x y sum len k = sum k + sumRange (fun j => x j * y (j + k)) len :=
  ⟨xcorrKernelSse_eq x y sum len k hk, xcorrKernelC_eq x y sum len k⟩

/-- celt_pitch_xcorr_avx2 (8-lag blocks with FMA accumulators and masked remainder, `celt_inner_prod` for the last
    `max_pitch % 8` lags) and celt_pitch_xcorr_c (4-lag blocks through xcorr_kernel, `celt_inner_prod` for the rest;
    with the SSE or the portable inner kernels) all equal `xcorr[i] = Σ_{j<len} x[j]·y[i+j]` for every `len`,
    `max_pitch` and lag `i`. -/
theorem lanes_eq_seq_pitch_xcorr (x y : Nat → α) (len maxPitch i : Nat) :
    pitchXcorrAvx2 x y len maxPitch i = pitchXcorrSpec x y len i ∧
    pitchXcorrC x y len maxPitch i = pitchXcorrSpec x y len i ∧
    pitchXcorrCPortable x y len maxPitch i = pitchXcorrSpec x y len i :=
  ⟨pitchXcorrAvx2_eq x y len maxPitch i, pitchXcorrC_eq x y len maxPitch i, pitchXcorrCPortable_eq x y len maxPitch i⟩

/-- comb_filter_const_sse = comb_filter_const_c at every output sample it writes, for every period `T` and gains,
    when input and output do NOT overlap (`x` is an immutable memory here): the 0x4e/0x99 shuffles rebuild `x[i-T-1]`,
    `x[i-T]`, `x[i-T+1]` from the two loads.  The codec also calls the filter IN PLACE (`y == x`, celt_decoder.c post-filter).
    There the SSE code reads `x[i-T+2..i-T+5]` and carries `x[i-T-2..i-T+1]` from the previous block, i.e. samples that an
    in-place run has already overwritten only if `T ≤ 5`; for `T ≥ 6` both orders read the same, final, values.  The codec
    guarantees `T ≥ COMBFILTER_MINPERIOD = 15`.  The in-place equality is NOT a theorem of this file (UNPROVED
    `comb_filter_inplace_sse_eq_c`); it is covered by the exact-domain correspondence run (`combip`, sequential in-place
    semantics in the driver, every length at `T = 15` and at random `T ≥ 15`). -/
theorem lanes_eq_seq_comb_filter (x : Nat → α) (T : Nat) (g10 g11 g12 : α) (i : Nat) :
    combSse x T g10 g11 g12 i = combC x T g10 g11 g12 i := combSse_eq x T g10 g11 g12 i

/-- silk_inner_product_FLP_avx2 (two 4×double accumulators over blocks of 8, one optional block of 4, horizontal
    add, scalar tail) = silk_inner_product_FLP_c (4× unrolled) = Σ x[i]·y[i], for every length. -/
theorem lanes_eq_seq_inner_product_flp (x y : Nat → α) (n : Nat) :
    innerProductFlpAvx2 x y n = innerProductFlpC x y n ∧
    innerProductFlpC x y n = sumRange (fun i => x i * y i) n :=
  ⟨by rw [innerProductFlpAvx2_eq, innerProductFlpC_eq], innerProductFlpC_eq x y n⟩

end lanes

/- non-vacuity of (iii): the lane programs compute non-trivial values, the definitions are sensitive to position
   (weights 1,2,3,… make every element count differently), lengths below / across lane boundaries included. -/
example : innerProdSse (α := Int) (fun i => i + 1) (fun i => 10 ^ (i % 3)) 7 = 1 + 20 + 300 + 4 + 50 + 600 + 7 := by decide
example : innerProdSse (α := Int) (fun i => i + 1) (fun _ => 1) 3 = 6 ∧ innerProdC (α := Int) (fun i => i + 1) (fun _ => 1) 0 = 0 := by decide
example : (List.range 4).map (xcorrKernelSse (α := Int) (fun j => j + 1) (fun j => 2 ^ j) (fun k => 100 * k) 6)
    = [321, 742, 1484, 2868] := by decide
example : (List.range 11).map (pitchXcorrAvx2 (α := Int) (fun j => j + 1) (fun j => j * j) 9 11)
    = (List.range 11).map (pitchXcorrSpec (α := Int) (fun j => j + 1) (fun j => j * j) 9) ∧
    pitchXcorrAvx2 (α := Int) (fun j => j + 1) (fun j => j * j) 9 11 10 = 10800 := by decide
example : (List.range 8).map (combSse (α := Int) (fun j => 3 ^ (j % 7)) 15 2 3 5) =
    (List.range 8).map (combC (α := Int) (fun j => 3 ^ (j % 7)) 15 2 3 5) ∧
    combC (α := Int) (fun j => 3 ^ (j % 7)) 15 2 3 5 0 = 545 := by decide
example : innerProductFlpAvx2 (α := Int) (fun i => i + 1) (fun i => 2 * i + 1) 13 = 1547 := by decide

end OpusProps.C15
