import OpusProofs.KernelsDispatch
import OpusProofs.KernelsVQ
import OpusProofs.KernelsXcorr
import OpusProofs.KernelsNsq
/-
  Property C15 — "Optimised (SIMD, run-time dispatched) kernels match the portable C code".

  Model: `Opus.Kernels` (OpusModel/Kernels.lean)
    (i)   `cpuFeatureCheck` / `selectArchImpl` / `selectArch`   celt/x86/x86cpu.c:111-198 (with the XIPH_OPUS_VERIF cap),
          `floatSpecs` / `symbolAt`: which symbol every RTCD table must hold at every index; the tables themselves
          (`Opus.Gen.DispatchTables`) are regenerated from x86_celt_map.c / x86_silk_map.c on every run;
    (ii)  `vqWMatEC_c` / `vqWMatEC_sse`: silk/VQ_WMat_EC.c and silk/x86/VQ_WMat_EC_sse4_1.c as data-flow programs over
          ℤ with explicit 32/64-bit wrap and the 128-bit register as four lanes;
    (iii) the float reduction kernels as lane programs generic in the number type: every intrinsic is a definition on
          lane functions, every loop a recursion with the C loop's trip count.
  The theorems of (iii) are stated for an arbitrary commutative semiring `α`.  Read at `α = ℝ` they say: the SIMD
  kernel computes the same real number as the portable loop, i.e. the two binary32 results differ by reassociation
  only (no element dropped, duplicated or taken from a neighbouring address, for every length and lag).  Read at
  `α = ℤ` they are what the correspondence run checks bit for bit against the real kernels on the exact domain.

  NOT proved here (see UNPROVED / NOT_COVERED in tools/props/C15.py): bit-identity of silk_NSQ_sse4_1,
  silk_NSQ_del_dec_sse4_1/_avx2 and silk_VAD_GetSA_Q8_sse4_1 with their C twins, and op_pvq_search_sse2 (no Lean
  model; differential search only); rounding-error bounds of the float kernels in IEEE arithmetic.
-/
namespace OpusProps.C15
open Opus.Kernels Opus.Gen

/-! ### (i) arch selection and dispatch tables -/

/-- "every CPU feature level the library can select at run time" is one of 0..4, and always a valid index of the
    `OPUS_ARCHMASK+1`-entry tables — for every CPUID answer and every value of the cap hook. -/
theorem arch_range (f : CpuFeature) (cap : Option Nat) :
    selectArch f cap ≤ 4 ∧ selectArch f cap ≤ DispatchTables.archMask :=
  ⟨Nat.le_trans (selectArch_le f cap) (selectArchImpl_le f),
   Nat.le_trans (Nat.le_trans (selectArch_le f cap) (selectArchImpl_le f)) archMask_covers⟩

example : selectArch ⟨true, true, true, true⟩ none = 4 ∧ selectArch ⟨true, true, false, true⟩ none = 2 ∧
    selectArch ⟨true, true, true, true⟩ (some 1) = 1 := by decide

/-- The decision list: level `n` is selected exactly when the CPU announces the first `n` feature sets of
    SSE, SSE2, SSE4.1, AVX2 (a hole hides everything above it); AVX2 is only believed when CPUID leaf 1 announces AVX
    and FMA, leaf 7 exists and announces AVX2; the verification cap can only lower the level. -/
theorem arch_decision (f : CpuFeature) (nIds ecx1 edx1 ebx7 c : Nat) :
    ((1 ≤ selectArchImpl f ↔ f.sse = true) ∧
     (2 ≤ selectArchImpl f ↔ (f.sse = true ∧ f.sse2 = true)) ∧
     (3 ≤ selectArchImpl f ↔ (f.sse = true ∧ f.sse2 = true ∧ f.sse41 = true)) ∧
     (4 ≤ selectArchImpl f ↔ (f.sse = true ∧ f.sse2 = true ∧ f.sse41 = true ∧ f.avx2 = true))) ∧
    ((cpuFeatureCheck nIds ecx1 edx1 ebx7).avx2 = true ↔
      (7 ≤ nIds ∧ bit ecx1 28 = true ∧ bit ecx1 12 = true ∧ bit ebx7 5 = true)) ∧
    selectArch f (some c) = min c (selectArchImpl f) ∧ selectArch f none = selectArchImpl f :=
  ⟨selectArchImpl_spec f, cpuFeatureCheck_avx2 nIds ecx1 edx1 ebx7, selectArch_eq_min f c, selectArch_none f⟩

example : (cpuFeatureCheck 13 (2 ^ 28 + 2 ^ 12 + 2 ^ 19) (2 ^ 25 + 2 ^ 26) (2 ^ 5)).avx2 = true ∧
    (cpuFeatureCheck 6 (2 ^ 28 + 2 ^ 12 + 2 ^ 19) (2 ^ 25 + 2 ^ 26) (2 ^ 5)).avx2 = false := by decide

/-- Shape of the dispatch tables as the compiler sees them now (regenerated): exactly the tables this
    configuration needs exist; each has `OPUS_ARCHMASK+1` entries; entry `a ≤ 4` is `symbolAt k a` — the portable
    symbol strictly below the kernel's lowest SIMD level and, from a level on, the SIMD symbol of the highest level
    not above `a`; the entries above 4 are NULL. -/
theorem dispatch_shape :
    DispatchTables.tables.map (·.1) = expectedTableNames (presumedLevel DispatchTables.presume) ∧
    (∀ t ∈ DispatchTables.tables, ∃ k ∈ floatSpecs, k.table = t.1 ∧
      t.2.1 = DispatchTables.archMask + 1 ∧ t.2.2.length = DispatchTables.archMask + 1 ∧
      (∀ a ∈ List.range 5, t.2.2[a]? = some (symbolAt k a)) ∧
      (∀ a ∈ List.range (DispatchTables.archMask + 1), 4 < a → t.2.2[a]? = some "null")) ∧
    (∀ k ∈ floatSpecs, ∀ a ∈ List.range 5,
      ((∀ ls ∈ k.levels, a < ls.1) → symbolAt k a = k.base) ∧
      (∀ ls ∈ k.levels, ls.1 ≤ a → ∃ ms ∈ k.levels, symbolAt k a = ms.2 ∧ ls.1 ≤ ms.1 ∧ ms.1 ≤ a)) :=
  ⟨tables_complete, tables_entries, symbolAt_meaning⟩

example : symbolAt ⟨"SILK_NSQ_DEL_DEC_IMPL", "silk_NSQ_del_dec_c",
      [(3, "silk_NSQ_del_dec_sse4_1"), (4, "silk_NSQ_del_dec_avx2")]⟩ 3 = "silk_NSQ_del_dec_sse4_1" ∧
    DispatchTables.tables.length = 6 := by decide

/-- No run-time selected kernel needs an instruction set the CPU lacks, and no NULL entry is ever called: for every
    CPUID answer and cap, the function a table holds at the selected arch index is a real function whose feature level
    is at most the CPU's level, and the CPU has every feature set up to that level. -/
theorem dispatch_safe (f : CpuFeature) (cap : Option Nat) :
    ∀ t ∈ DispatchTables.tables, ∀ k ∈ floatSpecs, k.table = t.1 →
      t.2.2.getD (selectArch f cap) "null" ≠ "null" ∧
      hasLevel f (levelOf k (t.2.2.getD (selectArch f cap) "null")) := fun t ht k hk hkt =>
  ⟨(dispatch_level_le f cap t ht k hk hkt).2, hasLevel_of_le f _ (dispatch_level_le f cap t ht k hk hkt).1⟩

example : hasLevel ⟨true, true, true, false⟩ 3 ∧ ¬ hasLevel ⟨true, true, true, false⟩ 4 := by
  constructor
  · exact ⟨fun _ => rfl, fun _ => rfl, fun _ => rfl, fun h => absurd h (by decide)⟩
  · intro h; exact absurd (h.2.2.2 (Nat.le_refl 4)) (by decide)

/-- Consequence clause ("a float build decodes identical final ranges … identical packets where only integer kernels
    differ"): in this configuration every *float* kernel table holds the same function at arch indices 0..3, so between
    those levels only integer kernels (required bit-exact) change and the encoder must emit identical packets — which is
    what the whole-codec search checks at OPUS_VERIF_ARCH_CAP=0..3. -/
theorem float_kernels_fixed_below_avx2 : ∀ t ∈ DispatchTables.tables, t.1 ∈ floatTables →
    ∀ a ∈ List.range 4, t.2.2[a]? = t.2.2[0]? := float_tables_const_below_avx2

example : "PITCH_XCORR_IMPL" ∈ floatTables ∧ (DispatchTables.tables.filter (fun t => floatTables.contains t.1)).length = 2 := by
  decide

/-! ### (ii) silk_VQ_WMat_EC: SSE4.1 = C, bit for bit -/

/-- For ALL inputs — every 32-bit correlation matrix/vector, every codebook (any `L`, any int8 rows, any gains and code
    lengths), every `subfr_len`, `max_gain_Q7` — the SSE4.1 kernel returns the same `(ind, res_nrg_Q15, rate_dist_Q8,
    gain_Q7)` as the portable function (including "gain never written" when no vector qualifies).  32-bit wrap-around
    of `silk_MLA` is part of both programs. -/
theorem vqWMatEC_sse_eq_c (inp : VQIn) : vqWMatEC_sse inp = vqWMatEC_c inp := vqWMatEC_sse_eq inp

/- non-vacuity: a 2-vector codebook on which the search really picks (vector 1 wins), and the model is sensitive to
   the SSE shuffle (`shuffle_matters`: the wrong lane pairing gives another number). -/
example : vqWMatEC_sse ⟨[131072, 1000, 2000, 3000, 4000, 0, 131072, 0, 0, 0, 0, 0, 131072, 0, 0, 0, 0, 0, 131072, 0, 0, 0, 0, 0, 131072],
      [0, 0, 70000, 0, 0], [0, 0, 10, 0, 0, 0, 0, 64, 0, 0], [10, 64], [20, 30], 80, 100, 2⟩
    = ⟨-4920, 23493, 1, some 64⟩ := by decide +kernel

/-- PARTIAL (one primitive only; the full statement `silk_NSQ_sse4_1 = silk_NSQ_c`, `silk_NSQ_del_dec_sse4_1/_avx2 =
    silk_NSQ_del_dec_c` on every reachable state is NOT proved, see UNPROVED in tools/props/C15.py): the SIMD idiom with
    which the SSE4.1 quantisers rescale the input and the long-term shaping state — four exact 64-bit products, even
    ones shifted right, odd ones shifted left, blended — yields `silk_SMULWW(v, g)` in every lane, for all 32-bit
    operands, including the 32-bit wrap of the C macro.  This definition is transcribed by hand and has no
    correspondence run of its own (the idiom is inline in the kernels); the kernels as a whole are compared with the C
    code by the whole-codec search. -/
theorem nsq_scale_lanes_eq_smulww_partial (v g : Int) (odd : Bool) :
    wrap32 (smulwwLaneSse v g odd) = smulww v g := smulwwLaneSse_eq v g odd

example : smulww (-70000) 123456789 = -131866078 ∧ wrap32 (smulwwLaneSse (-70000) 123456789 true) = -131866078 ∧
    wrap32 (smulwwLaneSse (-70000) 123456789 false) = -131866078 ∧ smulww 2147483647 2147483647 = -65536 := by decide

/-! ### (iii) float reduction kernels: lane decomposition = sequential sum, every length -/

section lanes
variable {α : Type} [CommSemiring α]

/-- celt_inner_prod_sse = celt_inner_prod_c for every length `N` (4-lane strided sums, horizontal add, scalar tail). -/
theorem lanes_eq_seq_inner_prod (x y : Nat → α) (N : Nat) : innerProdSse x y N = innerProdC x y N :=
  innerProdSse_eq x y N

/-- dual_inner_prod_sse = dual_inner_prod_c (both outputs) for every length. -/
theorem lanes_eq_seq_dual_inner_prod (x y1 y2 : Nat → α) (N : Nat) :
    dualInnerProdSse x y1 y2 N = dualInnerProdC x y1 y2 N := dualInnerProdSse_eq x y1 y2 N

/-- xcorr_kernel_sse = xcorr_kernel_c on all four lags for every `len` (also `len < 4` and `len % 4 ≠ 0`), and both
    are `sum[k] + Σ_j x[j]·y[j+k]`: the shuffles 0x49/0x9e pick exactly `y[j+1..j+4]`, `y[j+2..j+5]`. -/
theorem lanes_eq_seq_xcorr_kernel (x y : Nat → α) (sum : Vec α) (len k : Nat) (hk : k < 4) :
    xcorrKernelSse x y sum len k = xcorrKernelC x y sum len k ∧
    xcorrKernelC x y sum len k = sum k + sumRange (fun j => x j * y (j + k)) len :=
  ⟨xcorrKernelSse_eq x y sum len k hk, xcorrKernelC_eq x y sum len k⟩

/-- celt_pitch_xcorr_avx2 (8-lag blocks with FMA accumulators and masked remainder, `celt_inner_prod` for the last
    `max_pitch % 8` lags) and celt_pitch_xcorr_c (4-lag blocks through xcorr_kernel, `celt_inner_prod` for the rest;
    with the SSE or the portable inner kernels) all equal `xcorr[i] = Σ_{j<len} x[j]·y[i+j]` for every `len`,
    `max_pitch` and lag `i`. -/
theorem lanes_eq_seq_pitch_xcorr (x y : Nat → α) (len maxPitch i : Nat) :
    pitchXcorrAvx2 x y len maxPitch i = pitchXcorrSpec x y len i ∧
    pitchXcorrC x y len maxPitch i = pitchXcorrSpec x y len i ∧
    pitchXcorrCPortable x y len maxPitch i = pitchXcorrSpec x y len i :=
  ⟨pitchXcorrAvx2_eq x y len maxPitch i, pitchXcorrC_eq x y len maxPitch i, pitchXcorrCPortable_eq x y len maxPitch i⟩

/-- comb_filter_const_sse = comb_filter_const_c at every output sample it writes, for every period `T` and gains:
    the 0x4e/0x99 shuffles rebuild `x[i-T-1], x[i-T], x[i-T+1]` from the two loads. -/
theorem lanes_eq_seq_comb_filter (x : Nat → α) (T : Nat) (g10 g11 g12 : α) (i : Nat) :
    combSse x T g10 g11 g12 i = combC x T g10 g11 g12 i := combSse_eq x T g10 g11 g12 i

/-- silk_inner_product_FLP_avx2 (two 4×double accumulators over blocks of 8, one optional block of 4, horizontal
    add, scalar tail) = silk_inner_product_FLP_c (4× unrolled) = Σ x[i]·y[i], for every length. -/
theorem lanes_eq_seq_inner_product_flp (x y : Nat → α) (n : Nat) :
    innerProductFlpAvx2 x y n = innerProductFlpC x y n ∧
    innerProductFlpC x y n = sumRange (fun i => x i * y i) n :=
  ⟨by rw [innerProductFlpAvx2_eq, innerProductFlpC_eq], innerProductFlpC_eq x y n⟩

end lanes

/- non-vacuity of (iii): the lane programs compute non-trivial values, the definitions are sensitive to position
   (weights 1,2,3,… make every element count differently), lengths below / across lane boundaries included. -/
example : innerProdSse (α := Int) (fun i => i + 1) (fun i => 10 ^ (i % 3)) 7 = 1 + 20 + 300 + 4 + 50 + 600 + 7 := by decide
example : innerProdSse (α := Int) (fun i => i + 1) (fun _ => 1) 3 = 6 ∧ innerProdC (α := Int) (fun i => i + 1) (fun _ => 1) 0 = 0 := by decide
example : (List.range 4).map (xcorrKernelSse (α := Int) (fun j => j + 1) (fun j => 2 ^ j) (fun k => 100 * k) 6)
    = [321, 742, 1484, 2868] := by decide
example : (List.range 11).map (pitchXcorrAvx2 (α := Int) (fun j => j + 1) (fun j => j * j) 9 11)
    = (List.range 11).map (pitchXcorrSpec (α := Int) (fun j => j + 1) (fun j => j * j) 9) ∧
    pitchXcorrAvx2 (α := Int) (fun j => j + 1) (fun j => j * j) 9 11 10 = 10800 := by decide
example : (List.range 8).map (combSse (α := Int) (fun j => 3 ^ (j % 7)) 15 2 3 5) =
    (List.range 8).map (combC (α := Int) (fun j => 3 ^ (j % 7)) 15 2 3 5) ∧
    combC (α := Int) (fun j => 3 ^ (j % 7)) 15 2 3 5 0 = 545 := by decide
example : innerProductFlpAvx2 (α := Int) (fun i => i + 1) (fun i => 2 * i + 1) 13 = 1547 := by decide

end OpusProps.C15
