import OpusProofs.SilkChain
/-
  OpusProps.C18Chain — property C18 (SILK side information dequantises to stable, in-range parameters), slice Chain:
  the first frame after an internal-rate change / reset never interpolates with the stale previous LSF vector, so the
  vector behind the first-half filter IS the decoded vector (ordered by C18's `nlsf_decode_ordered`), whatever
  `prevNLSF_Q15` holds (after NB/MB <-> WB it holds a vector of the other order and codebook).
-/
namespace OpusProps.C18Chain
open OpusProofs.SilkChain

/-- After `silk_decoder_set_fs` to a DIFFERENT internal rate, for every stale `prevNLSF`, every NLSFInterpCoef_Q2 the
    bitstream carries and every decoded vector, the first-half LSF vector is the decoded vector. -/
theorem rate_switch_disables_interpolation (d : Dec) (fs coef : Int) (cur : List Int) (h : d.fsKHz ≠ fs) :
    firstHalf (setFs d fs) coef cur = cur :=
  firstHalf_of_flag _ (setFs_flag d fs h) coef cur

/-- Same after `silk_reset_decoder` (decoder creation, OPUS_RESET_STATE, mono->stereo for the side channel). -/
theorem reset_disables_interpolation (d : Dec) (coef : Int) (cur : List Int) :
    firstHalf (reset d) coef cur = cur :=
  firstHalf_of_flag _ (reset_flag d) coef cur

/-- Also through any number of lost frames in between (they do not touch the flag): stated on the flag itself — only a
    good frame clears it, and a good frame also replaces prevNLSF by a vector decoded at the rate in force. -/
theorem good_frame_installs_current (d : Dec) (cur : List Int) :
    (goodFrame d cur).prevNLSF = cur ∧ (goodFrame d cur).firstFrameAfterReset = 0 := ⟨rfl, rfl⟩

/-- With the flag cleared the factor of the bitstream is used as is; factor 4 means "no interpolation". -/
theorem coef4_no_interpolation (d : Dec) (cur : List Int) : firstHalf d 4 cur = cur := firstHalf_coef4 d cur

/-- The setter leaves a decoder running at the requested rate untouched (so legitimate interpolation continues). -/
theorem same_rate_untouched (d : Dec) : setFs d d.fsKHz = d := setFs_same d

/- non-vacuity: a WB frame after an NB history with coef 1 — without the flag the interpolated vector is unordered -/
example : firstHalf (setFs ⟨8, 0, [1536, 4480, 7680]⟩ 16) 1 [900, 2000, 3000] = [900, 2000, 3000] := by decide
example : firstHalf ⟨16, 0, [1536, 4480, 0]⟩ 1 [900, 2000, 3000] = [1377, 3860, 750] := by decide
example : (⟨8, 0, []⟩ : Dec).fsKHz ≠ 16 := by decide

end OpusProps.C18Chain
