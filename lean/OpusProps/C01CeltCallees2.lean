import OpusProofs.CeltCallees2Mdct
import OpusProofs.CeltCallees2Bfly
import OpusModel.CeltIdxCalls
/-
  C01 (decoding is total and memory-safe), slice CeltCallees2 — index-safety bridge into the CELT decoder interior,
  fourth part: the extent contracts the bridge (`Opus.CeltIdx.Call.accs`) assumes for `clt_mdct_backward_c` (with
  `opus_fft_impl` and `kf_bfly2/3/4/5`), `denormalise_bands` and `pitch_search` (with `find_best_pitch`,
  `celt_pitch_xcorr_c`, `xcorr_kernel_c`, `celt_inner_prod_c`) are discharged from index models of the C reference code
  (`OpusModel/CeltCallees2.lean`: which element of which array every loop touches; hand transcription, file:line cited)
  on the regenerated tables of the static 48 kHz mode (`Gen.CeltFft`).  `InB B h`: hit `h` lies inside the inclusive bounds
  `B` gives for its array; an array with bounds `(1, 0)` must not be touched.  The hit lists are plain structurally
  recursive functions of the arguments (no fuel except the bound `MAXFACTORS + 1` of the factor walk, whose overrun is
  itself an out-of-range hit), so "every hit is inside" is also "the loops terminate".
-/
namespace OpusProps.C01CeltCallees2
open Opus.CeltCallees2 Opus.Gen.CeltFft

/-- **fft_bitrev_permutation.**  The bit-reversal table of each of the four FFT states of the static mode has exactly
    `nfft` entries, every entry lies in `[0, nfft)` and every value of `[0, nfft)` occurs (so each exactly once): the
    pre-rotation of `clt_mdct_backward_c` (mdct.c:299-308, `yp[2*rev+1]`, `yp[2*rev]`) writes every complex element of the
    FFT buffer exactly once and nothing else.  Checked by the kernel over the COMPLETE regenerated tables. -/
theorem fft_bitrev_permutation :
    ∀ s : Int, 0 ≤ s → s ≤ 3 →
      ((kfft s).bitrev.length : Int) = (kfft s).nfft ∧ (∀ x ∈ (kfft s).bitrev, 0 ≤ x ∧ x < (kfft s).nfft) ∧
      (∀ k : Nat, (k : Int) < (kfft s).nfft → (k : Int) ∈ (kfft s).bitrev) ∧ 4 * (kfft s).nfft = mdctNs s := by
  intro s h0 h3
  have h : s = 0 ∨ s = 1 ∨ s = 2 ∨ s = 3 := by omega
  rcases h with rfl | rfl | rfl | rfl
  · obtain ⟨a, b, c⟩ := isPerm_spec bitrev0_perm
    exact ⟨by rw [show (kfft 0).bitrev = bitrev0 from rfl, a]; rfl, b, fun k hk => c k (by have : (kfft 0).nfft = 480 := rfl; omega), by decide⟩
  · obtain ⟨a, b, c⟩ := isPerm_spec bitrev1_perm
    exact ⟨by rw [show (kfft 1).bitrev = bitrev1 from rfl, a]; rfl, b, fun k hk => c k (by have : (kfft 1).nfft = 240 := rfl; omega), by decide⟩
  · obtain ⟨a, b, c⟩ := isPerm_spec bitrev2_perm
    exact ⟨by rw [show (kfft 2).bitrev = bitrev2 from rfl, a]; rfl, b, fun k hk => c k (by have : (kfft 2).nfft = 120 := rfl; omega), by decide⟩
  · obtain ⟨a, b, c⟩ := isPerm_spec bitrev3_perm
    exact ⟨by rw [show (kfft 3).bitrev = bitrev3 from rfl, a]; rfl, b, fun k hk => c k (by have : (kfft 3).nfft = 60 := rfl; omega), by decide⟩

/-- Non-vacuity: the tables are not the identity — entry 1 of the 480-point table is 96, entry 479 is 479. -/
example : (kfft 0).bitrev.getD 1 0 = 96 ∧ (kfft 0).bitrev.getD 479 0 = 479 ∧ (kfft 3).bitrev.getD 1 0 = 12 := by decide

/-- **fft_butterflies_in_bounds.**  `opus_fft_impl` on each of the four states: the factor walk (kiss_fft.c:571-577) ends
    inside `factors[2*MAXFACTORS]` and the local `fstride[MAXFACTORS]`, and every element the butterfly stages touch —
    `Fout[i*mm + j + k*m]`, `twiddles[k*j*fstride]`, `twiddles[fstride*m]`, `twiddles[fstride*2*m]` — is inside
    `fout[0 .. nfft)` resp. the shared twiddle table `[0 .. 480)`: the strides never step outside.  Moreover every stage has
    radix 2, 3, 4 or 5 and `m ≥ 1` (`kf_bfly3`'s `do … while(--k)` terminates), the factor walk's `do … while (m != 1)` ends by
    its own condition (the first stage executed has `m = 1`; no fuel involved), every radix-2 stage has `m = 4`
    (`celt_assert(m==4)` of `kf_bfly2`), and every stage tiles `[0, nfft)` completely (`N*p*m = nfft`, `mm = p*m`).
    By kernel evaluation over the complete hit list of each state (4 lists, 1.3k - 13k hits). -/
theorem fft_butterflies_in_bounds :
    ∀ s : Int, 0 ≤ s → s ≤ 3 →
      All (InB (fftB (kfft s).nfft)) (fftImplHits (kfft s)) ∧ stagesOk (kfft s) = true ∧ stagesTile (kfft s) = true := by
  intro s h0 h3
  have h : s = 0 ∨ s = 1 ∨ s = 2 ∨ s = 3 := by omega
  rcases h with rfl | rfl | rfl | rfl
  · exact ⟨fft0_in, stages_ok.1, stages_tile.1⟩
  · exact ⟨fft1_in, stages_ok.2.1, stages_tile.2.1⟩
  · exact ⟨fft2_in, stages_ok.2.2.1, stages_tile.2.2.1⟩
  · exact ⟨fft3_in, stages_ok.2.2.2, stages_tile.2.2.2⟩

/-- Non-vacuity / tightness: the 480-point FFT has five stages (radices 4, 2, 4, 3, 5 in execution order), touches
    `fout[479]` and `twiddles[380]` (`tw[4*u*fstride]`, `u = 95`, of the radix-5 stage), and the 60-point one reaches
    `twiddles[352]` (`4·11·8`). -/
example : (stagesOf (kfft 0)).map (·.p) = [4, 2, 4, 3, 5] ∧ touches (fftImplHits (kfft 0)) .fout 479 = true ∧
    touches (fftImplHits (kfft 0)) .tw 380 = true ∧ touches (fftImplHits (kfft 3)) .tw 352 = true := by decide +kernel

/-- **fft_butterfly_strides_general.**  The same fact structurally, for ARBITRARY stage parameters: whenever a stage
    `(p, m, N = fstride[i], mm, fstride << shift)` satisfies the arithmetic condition `StageSafe` — `m ≥ 1`, `N ≥ 1`, the last
    group ends inside `nfft` (`(N−1)*mm + p*m ≤ nfft`; `8N ≤ nfft` for radix 2 and `4N ≤ nfft` for radix 4 with `m = 1`, whose
    loops advance `Fout` by a constant), the largest twiddle index `(p−1)*(m−1)*fstride` resp. `m*fstride`, `2*m*fstride` is
    below the table length — every element `kf_bfly2/3/4/5` touch is inside `fout[0 .. nfft)` and `twiddles[0 .. twLen)`; and
    every stage of the four regenerated factor lists satisfies the condition with `twLen = 480`. -/
theorem fft_butterfly_strides_general :
    (∀ (s : Stage) (nfft twLen : Int), StageSafe s nfft twLen → All (InB (bflyB nfft twLen)) (bflyHits s)) ∧
    (∀ s : Fin 4, ∀ g ∈ stagesOf (kfft s.val), StageSafe g (kfft s.val).nfft twiddleLen) :=
  ⟨bfly_in, stages_safe⟩

/-- Non-vacuity / sharpness: the radix-5 stage of the 480-point FFT is safe with `nfft = 480` but not with 479, and its
    twiddle reach is sharp (`4·95·1 = 380`: safe with a 381-entry table, not with 380). -/
example : StageSafe ⟨0, 5, 96, 1, 1, 1⟩ 480 381 ∧ ¬ StageSafe ⟨0, 5, 96, 1, 1, 1⟩ 479 480 ∧ ¬ StageSafe ⟨0, 5, 96, 1, 1, 1⟩ 480 380 ∧
    (stagesOf (kfft 0)).getLast? = some ⟨0, 5, 96, 1, 1, 1⟩ := by decide

/-- **mdct_backward_in_contract.**  `clt_mdct_backward_c(l, in, out, window, overlap, shift, stride)` on the static mode,
    for EVERY shift `0 .. 3`, EVERY `stride ≥ 0` and EVERY `overlap ≥ 0` with `overlap − overlap/2 ≤ N/2`
    (`N = 1920 >> shift`): every element touched — pre-rotation through the bit-reversal table, the FFT in place in
    `out + overlap/2`, post-rotation from both ends, TDAC mirror — is inside `in[0 .. stride*(N/2−1)]`,
    `out[0 .. overlap/2 + N/2)`, `window[0 .. overlap)`, `trig[0 .. 1800)`, `bitrev[0 .. N/4)`, `twiddles[0 .. 480)`,
    `factors[0 .. 16)`, `fstride[0 .. 8)`. -/
theorem mdct_backward_in_contract (shift stride ov : Int) (hsh : 0 ≤ shift ∧ shift ≤ 3) (hs : 0 ≤ stride) (ho0 : 0 ≤ ov)
    (ho1 : ov - ov / 2 ≤ mdctNs shift / 2) : All (InB (mdctB (mdctNs shift) stride ov)) (mdctHits shift stride ov) :=
  mdct_in shift stride ov hsh hs ho0 ho1

open Opus.CeltIdx in
/-- The bounds are the bridge's contract (`Call.accs`), read off at pointer offset 0: with `n2 = N/2` the four accesses of
    `Call.mdct` are `in[0 .. stride*(n2−1)]` and three intervals of `out` whose union is `mdctB … .out` when
    `overlap − overlap/2 ≤ n2`; and the decoder's arguments (`overlap = 120`, `n2 = 120 << LM` resp. `120`, celt_decoder.c
    :440-457) satisfy the side conditions. -/
example (shift stride : Int) (hsh : 0 ≤ shift ∧ shift ≤ 3) :
    (Call.mdct ⟨.freq, 0⟩ stride ⟨.mem 0, 0⟩ (mdctNs shift / 2) 120).accs.map (fun a => (a.ext.lo, a.ext.hi)) =
      [mdctB (mdctNs shift) stride 120 .inp, (60, (mdctB (mdctNs shift) stride 120 .out).2), (0, 119), (0, 119)] ∧
    (120 : Int) - 120 / 2 ≤ mdctNs shift / 2 ∧ (120 : Int) = mdctOverlap ∧ mdctOverlap ≤ windowLen := by
  have h : shift = 0 ∨ shift = 1 ∨ shift = 2 ∨ shift = 3 := by omega
  rcases h with rfl | rfl | rfl | rfl <;> simp [Call.accs, rd, wr, mdctB] <;> decide

/-- Non-vacuity / tightness at the decoder's arguments: the model reaches both ends of the contract — shift 3, stride 8
    (eight short blocks) touches `in[0]` and `in[8*119]`, `out[0]` and `out[179]`, `window[119]` and `trig[1799]`, the last
    element of the table; shift 1 touches `out[539]` and `trig[960]`. -/
example : touches (mdctHits 3 8 120) .inp 0 = true ∧ touches (mdctHits 3 8 120) .inp 952 = true ∧
    touches (mdctHits 3 8 120) .out 0 = true ∧ touches (mdctHits 3 8 120) .out 179 = true ∧
    touches (mdctHits 3 8 120) .win 119 = true ∧ touches (mdctHits 3 8 120) .trig 1799 = true ∧
    touches (mdctHits 1 1 120) .out 539 = true ∧ touches (mdctHits 1 1 120) .trig 960 = true := by decide +kernel

/-- **denormalise_in_contract.**  `denormalise_bands(m, X, freq, bandLogE, start, end, M, downsample, silence)` on the
    static mode's `eBands`, for EVERY `M ≥ 1` (the decoder: `1 << LM`), EVERY `0 ≤ start ≤ end ≤ nbEBands`, EVERY
    `downsample ≥ 1` and both values of `silence`: every element touched is inside `X[0 .. N)`, `freq[0 .. N)`
    (`N = M*shortMdctSize`; the bridge's contract), `bandLogE[0 .. nbEBands)`, `eBands[0 .. nbEBands]`, `eMeans[0 .. 25)`.
    The running pointers `f`, `x` are carried from band to band as in the C code; the `do … while` per band runs at
    least once whatever the table says, and the final `OPUS_CLEAR(&freq[bound], N-bound)` never has a negative size. -/
theorem denormalise_in_contract (start end_ M ds : Int) (silence : Bool) (hM : 1 ≤ M) (hs : 0 ≤ start)
    (hse : start ≤ end_) (he : end_ ≤ nbEBands) (hds : 1 ≤ ds) :
    All (InB (denormB M)) (denormHits start end_ M ds silence) :=
  denorm_in start end_ M ds silence hM hs hse he hds

open Opus.CeltIdx in
/-- The bounds are the bridge's contract (`Call.denorm x freq N`: `X[0 .. N)` read, `freq[0 .. N)` written). -/
example (M : Int) :
    (Call.denorm ⟨.X, 0⟩ ⟨.freq, 0⟩ (M * shortMdctSize)).accs.map (fun a => (a.ext.lo, a.ext.hi)) = [denormB M .X, denormB M .freq] := by
  simp [Call.accs, rd, wr, denormB]

/-- Non-vacuity / tightness: a 20 ms frame (`M = 8`), bands 0 .. 21: `freq[0]` and `freq[959]` written, `X[799]` read;
    hybrid start band 17 with downsampling by 2: `X[320]` is the first element read; with `silence` `X` is not touched at
    all and `freq[959]` is still written. -/
example : touches (denormHits 0 21 8 1 false) .freq 0 = true ∧ touches (denormHits 0 21 8 1 false) .freq 959 = true ∧
    touches (denormHits 0 21 8 1 false) .X 799 = true ∧ touches (denormHits 17 21 8 2 false) .X 320 = true ∧
    touches (denormHits 17 21 8 2 false) .X 319 = false ∧ touches (denormHits 17 21 8 2 false) .freq 959 = true ∧
    (denormHits 17 21 8 2 true).all (fun h => h.arr != .X) = true ∧ touches (denormHits 17 21 8 2 true) .freq 959 = true := by
  decide +kernel

/-- **pitch_search_in_contract.**  `pitch_search(x_lp, y, len, max_pitch, &pitch)`, for EVERY `len ≥ 12` (the coarse
    `xcorr_kernel` asserts `len>>2 ≥ 3`), EVERY `max_pitch ≥ 0` and ARBITRARY (data-dependent) results `bA`, `bB`, `b0` of
    the two `find_best_pitch` calls: every element touched is inside `x_lp[0 .. len/2)`, `y[0 .. len/2 + max_pitch/2)` (the
    bridge's contract), the `ALLOC`ed `x_lp4[len>>2]`, `y_lp4[(len+max_pitch)>>2]`, `xcorr[max_pitch>>1]` and the local
    `best_pitch[2]`. -/
theorem pitch_search_in_contract (len maxp bA bB b0 : Int) (hl : 12 ≤ len) (hm : 0 ≤ maxp) :
    All (InB (psearchB len maxp)) (psearchHits len maxp bA bB b0) :=
  psearch_in len maxp bA bB b0 hl hm

open Opus.CeltIdx Opus.Gen.CeltIdxConsts in
/-- The bounds are the bridge's contract, and celt_plc_pitch_search (celt_decoder.c:491-505) passes
    `len = DECODE_BUFFER_SIZE − PLC_PITCH_LAG_MAX = 1328`, `max_pitch = PLC_PITCH_LAG_MAX − PLC_PITCH_LAG_MIN = 620`. -/
example (len maxp : Int) :
    (Call.psearch ⟨.lpbuf, 0⟩ ⟨.lpbuf, 0⟩ len maxp).accs.map (fun a => (a.ext.lo, a.ext.hi)) = [psearchB len maxp .xlp, psearchB len maxp .y] ∧
    (12 : Int) ≤ DECODE_BUFFER_SIZE - PLC_PITCH_LAG_MAX ∧ (0 : Int) ≤ PLC_PITCH_LAG_MAX - PLC_PITCH_LAG_MIN := by
  refine ⟨by simp [Call.accs, rd, psearchB], by decide, by decide⟩

/-- Non-vacuity / tightness (`len = 48`, `max_pitch = 24`, coarse results 5 and 4, fine result 10): the last elements
    `x_lp[23]`, `y[35]`, `x_lp4[11]`, `y_lp4[17]`, `xcorr[11]` of the contract resp. the local arrays are reached. -/
example : touches (psearchHits 48 24 5 4 10) .xlp 23 = true ∧ touches (psearchHits 48 24 5 4 10) .y 35 = true ∧
    touches (psearchHits 48 24 5 4 10) .xlp4 11 = true ∧ touches (psearchHits 48 24 5 4 10) .ylp4 17 = true ∧
    touches (psearchHits 48 24 5 4 10) .xcorr 11 = true := by decide +kernel

open Opus.CeltIdx in
/-- **contracts_at_decoder_args.**  The arguments celt_decoder.c passes satisfy the preconditions above, for EVERY legal
    frame (`LM = 0 .. 3`, `N = 120 << LM`), both values of `isTransient`, every `0 ≤ start ≤ effEnd ≤ nbEBands`, every
    `downsample ≥ 1`, both values of `silence` and arbitrary `find_best_pitch` results: celt_synthesis (:395-405) calls
    `clt_mdct_backward(…, overlap, shift, B)` with `(shift, B) = (maxLM, M)` resp. `(maxLM − LM, 1)` — and `(1920 >> shift)/2`
    is the `NB = N / B` the bridge's `mdctBlocks` puts into `Call.mdct` — and `denormalise_bands(…, start, effEnd, M,
    downsample, silence)` with `M = 1 << LM`, `N = M*shortMdctSize`; celt_plc_pitch_search (:491-505) calls
    `pitch_search(…, 2048 − 720, 720 − 100, …)`. -/
theorem contracts_at_decoder_args (N LM : Int) (hf : LegalFrame N LM) (isTransient : Bool) (start effEnd ds : Int)
    (silence : Bool) (hs : 0 ≤ start) (hse : start ≤ effEnd) (he : effEnd ≤ nbEBands) (hds : 1 ≤ ds) (bA bB b0 : Int) :
    let M : Int := 2 ^ LM.toNat
    let B : Int := if isTransient then M else 1
    let shift : Int := if isTransient then maxLM else maxLM - LM
    N = M * shortMdctSize ∧ mdctNs shift / 2 = N / B ∧
    All (InB (mdctB (mdctNs shift) B mdctOverlap)) (mdctHits shift B mdctOverlap) ∧
    All (InB (denormB M)) (denormHits start effEnd M ds silence) ∧
    All (InB (psearchB (2048 - 720) (720 - 100))) (psearchHits (2048 - 720) (720 - 100) bA bB b0) := by
  obtain ⟨h0, h1, h2⟩ := hf
  have hm : Opus.Gen.CeltIdxConsts.maxLM = 3 := rfl
  have hm' : maxLM = 3 := rfl
  have : LM = 0 ∨ LM = 1 ∨ LM = 2 ∨ LM = 3 := by omega
  rcases this with rfl | rfl | rfl | rfl <;> cases isTransient <;>
    refine ⟨by rw [h2]; decide, by rw [h2]; decide, mdct_in _ _ _ (by decide) (by decide) (by decide) (by decide),
      denorm_in _ _ _ _ _ (by decide) hs hse he hds, psearch_in _ _ _ _ _ (by decide) (by decide)⟩

open Opus.CeltIdx Opus.Gen.CeltIdxConsts in
/-- Non-vacuity: 20 ms frames are legal, and the constants are the bridge's (`pitchSearchCalls`). -/
example : LegalFrame 960 3 ∧ LegalFrame 120 0 ∧ (2048 - 720 : Int) = DECODE_BUFFER_SIZE - PLC_PITCH_LAG_MAX ∧
    (720 - 100 : Int) = PLC_PITCH_LAG_MAX - PLC_PITCH_LAG_MIN ∧ mdctOverlap = overlap := by decide

end OpusProps.C01CeltCallees2
