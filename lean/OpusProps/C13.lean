import OpusProofs.PcmProj
/-
  Property C13 — "16-bit, 24-bit and float PCM are interchangeable views of the same codec".

  Model:  `Opus.Pcm` (OpusModel/Pcm.lean): the float-build conversion macros of celt/arch.h:367-381,
          celt/float_cast.h:68,150-156 and celt/mathops.c:223-230 on binary32 *bit patterns*, every
          operation = exact operation followed by IEEE round-to-nearest-even; the entry points of
          src/opus_encoder.c:2523-2594 / src/opus_decoder.c:837-963 reduced to what they hand to the shared
          core (`encode16/24/Float`, `decode16Out`, `decode24Out`).
  Values: `val b = some k` means the binary32 with bits `b` is exactly `k·2^-149`.
  The model is tied to the code bit for bit by the correspondence suite `pcm` (exhaustive over int16).
-/
set_option exponentiation.threshold 400
namespace OpusProps.C13
open Opus Opus.Pcm

/-- **inputs_coincide** (encoder clause, per sample).  For every 16-bit sample `x` and every float bit
    pattern `b` whose value is exactly `x/32768` (`b ≠ -0`): `INT16TORES(x)`, `INT24TORES(256·x)` and
    `FLOAT2RES(b)` are the same bits, whose value is exactly `x/32768` (no rounding happened); and the
    analysis down-mix conversions `INT16TOSIG(x)`, `INT24TOSIG(256·x)`, `FLOAT2SIG(b)` are the same
    bits, whose value is exactly `x`. -/
theorem inputs_coincide (x : Int) (hx : IsInt16 x) (b : Nat) (hb : FloatOfInt16 x b) :
    int24ToRes (256 * x) = int16ToRes x ∧ float2Res b = int16ToRes x ∧
    val (int16ToRes x) = some (x * 2 ^ 134) ∧
    int24ToSig (256 * x) = int16ToSig x ∧ float2Sig b = int16ToSig x ∧
    val (int16ToSig x) = some (x * 2 ^ 149) :=
  ⟨int24ToRes_shift x, float2Res_of_int16 hb, (int16ToRes_val hx).1,
   int24ToSig_shift hx, float2Sig_of_int16 hx hb, (int16ToSig_val hx).1⟩

example : IsInt16 (-32768) ∧ FloatOfInt16 (-32768) 0xBF800000 := by unfold IsInt16 FloatOfInt16; decide
example : IsInt16 12345 ∧ FloatOfInt16 12345 0x3EC0E400 := by unfold IsInt16 FloatOfInt16; decide
example : int16ToRes 12345 = 0x3EC0E400 ∧ int24ToRes (256 * 12345) = 0x3EC0E400 := by decide

/-- **encode_formats_agree** (encoder clause, per call).  With the encoder's LSB depth ≤ 16, `opus_encode`
    on `pcm`, `opus_encode24` on `256·pcm` and `opus_encode_float` on `pcm/32768` hand the shared core
    (`opus_encode_native`, an arbitrary function `core` of the state and of the argument tuple `CoreArgs`:
    `opus_res` samples of the coded frame, frame size, effective depth, the whole analysis buffer as seen
    through the down-mix callback, analysis size, c1, c2, analysis channels, float_api) identical arguments,
    hence produce the identical packet and state — for every core, every state, every channel count, every
    coded frame size (also shorter than the buffer: expert frame duration), every block of int16 samples.
    The tuple is compared with what the real entry points pass by the correspondence ops `enc16/enc24/encf`. -/
theorem encode_formats_agree {St Pkt : Type} (core : St → CoreArgs → Pkt) (st : St)
    (lsbDepth channels frameSize : Nat) (hd : lsbDepth ≤ 16) (pcm : List Int) (hp : ∀ x ∈ pcm, IsInt16 x)
    (fl : List Nat) (hfl : List.Forall₂ FloatOfInt16 pcm fl) :
    encode24 core st lsbDepth channels frameSize (pcm.map (256 * ·)) = encode16 core st lsbDepth channels frameSize pcm ∧
    encodeFloat core st lsbDepth channels frameSize fl = encode16 core st lsbDepth channels frameSize pcm :=
  ⟨encode24_eq_encode16 core st lsbDepth channels frameSize hd pcm hp,
   encodeFloat_eq_encode16 core st lsbDepth channels frameSize hd pcm hp fl hfl⟩

example : (16 : Nat) ≤ 16 ∧ (∀ x ∈ [(-32768 : Int), 12345], IsInt16 x) ∧
    List.Forall₂ FloatOfInt16 [-32768, 12345] [0xBF800000, 0x3EC0E400] := by
  refine ⟨by decide, ?_, ?_⟩
  · intro x hx; simp only [List.mem_cons, List.not_mem_nil, or_false] at hx
    rcases hx with rfl | rfl <;> (unfold IsInt16; decide)
  · refine .cons ?_ (.cons ?_ .nil) <;> (unfold FloatOfInt16; decide)

/-- **ms_formats_agree** (multistream clause, encoder side, per stream).  For every stream of a multistream
    encode — any layout: `c1` the stream's left / mono input channel, `c2` its right one or none, any channel
    count — `opus_multistream_encode` on `pcm`, `_encode24` on `256·pcm` and `_encode_float` on `pcm/32768`
    hand that stream's `opus_encode_native` the same gathered samples, the same down-mixed analysis signal
    (`y = SIG(x[c1]) (+ SIG(x[c2]))`), the same sizes, c1, c2, analysis channel count and effective depth when
    the LSB depth is ≤ 16.  `float_api` is a parameter common to both sides here, whereas the code passes
    0 / 0 / 1: packet equality additionally needs that the `float_api` guard of `opus_encode_frame_native`
    (src/opus_encoder.c:1913-1924, clears the frame when the energy of the high-pass-filtered buffer is not
    < 1e9 or NaN) never fires on int16-range input — NOT proved here (the guard is inside the un-modelled core;
    listed in NOT_COVERED, its consequence is searched by the twin multistream encoders).  The per-stream tuples are compared with the real entry points by the
    correspondence ops `ms16/ms24/msf`. -/
theorem ms_formats_agree (fapi lsbDepth C c1 : Nat) (c2 : Option Nat) (hd : lsbDepth ≤ 16) (pcm : List Int)
    (fl : List Nat) (hlen : fl.length = pcm.length) (hp : ∀ i, IsInt16 (pcm.getD i 0))
    (hfl : ∀ i, FloatOfInt16 (pcm.getD i 0) (fl.getD i 0)) :
    msStreamArgs int24ToRes int24ToSig 0 24 fapi lsbDepth C c1 c2 (pcm.map (256 * ·)) =
      msStreamArgs int16ToRes int16ToSig 0 16 fapi lsbDepth C c1 c2 pcm ∧
    msStreamArgs float2Res float2Sig 0 24 fapi lsbDepth C c1 c2 fl =
      msStreamArgs int16ToRes int16ToSig 0 16 fapi lsbDepth C c1 c2 pcm :=
  msStreamArgs_agree fapi lsbDepth C c1 c2 hd pcm fl hlen hp hfl

example : (∀ i, IsInt16 (([-32768, 12345] : List Int).getD i 0)) ∧
    (∀ i, FloatOfInt16 (([-32768, 12345] : List Int).getD i 0) (([0xBF800000, 0x3EC0E400] : List Nat).getD i 0)) := by
  constructor
  · intro i; rcases i with _ | _ | i <;> (unfold IsInt16; simp)
  · intro i; rcases i with _ | _ | i
    · show FloatOfInt16 (-32768) 0xBF800000; unfold FloatOfInt16; decide
    · show FloatOfInt16 12345 0x3EC0E400; unfold FloatOfInt16; decide
    · show FloatOfInt16 0 0; unfold FloatOfInt16; decide

example : (msStreamArgs int16ToRes int16ToSig 0 16 0 12 2 1 (some 0) [-32768, 12345]).sig = [0xC69F8E00] ∧
    (msStreamArgs int16ToRes int16ToSig 0 16 0 12 2 1 (some 0) [-32768, 12345]).c2 = 0 := by decide

/-- **in24_exact**.  Every 24-bit sample (indeed every `|a| < 2^24`) is converted to `opus_res` without
    rounding: the value of `INT24TORES(a)` is exactly `a·2^-23`. -/
theorem in24_exact (a : Int) (ha : a.natAbs < 2 ^ 24) : val (int24ToRes a) = some (a * 2 ^ 126) :=
  (int24ToRes_val ha).1

example : int24ToRes 8388607 = 0x3F7FFFFE ∧ val 0x3F7FFFFE = some (8388607 * 2 ^ 126) := by decide

/-- **rne_nearest_even** (what "rounded to nearest" means below).  `rne k d` is an integer nearest to
    `k / 2^d`, even when two integers are equally near, and it is the only integer with that property. -/
theorem rne_nearest_even (k : Int) (d : Nat) :
    IsRne (rne k d) k d ∧ ∀ z, IsRne z k d → z = rne k d :=
  ⟨rne_isRne k d, fun _ hz => (rne_of_isRne hz).symm⟩

example : rne 5 1 = 2 ∧ rne 7 1 = 4 ∧ rne (-5) 1 = -2 ∧ rne (-7) 2 = -2 := by decide

/-- **out24_spec** (decoder clause, 24-bit).  For every float bit pattern `b`: `RES2INT24(b)` is
    value·2^23 rounded to nearest-even when that fits an int32, and the x86 integer-indefinite −2^31 for
    larger magnitudes, ±inf and NaN; `opus_decode24` applies it to every sample of the float decode. -/
theorem out24_spec (b : Nat) (hb : b < 2 ^ 32) (out : List Nat) (hout : ∀ y ∈ out, y < 2 ^ 32) :
    res2Int24 b = out24Spec b ∧
    (∀ k, val b = some k → -(2 ^ 31) ≤ rne k 126 → rne k 126 < 2 ^ 31 → res2Int24 b = rne k 126) ∧
    decode24Out out = out.map out24Spec := by
  refine ⟨res2Int24_spec hb, fun k hk h1 h2 => ?_, ?_⟩
  · rw [res2Int24_spec hb, out24Spec_of_val hk, if_pos ⟨h1, h2⟩]
  · unfold decode24Out; exact List.map_congr_left (fun y hy => res2Int24_spec (hout y hy))

example : res2Int24 0x3F800000 = 8388608 ∧ res2Int24 0x34400000 = 2 ∧ res2Int24 0x34A00000 = 2 ∧
    res2Int24 0x7FC00000 = -2147483648 ∧ res2Int24 0x43800000 = -2147483648 := by decide

/-- **out16_spec** (decoder clause, 16-bit).  For every float bit pattern `b`: `RES2INT16(b)` =
    `FLOAT2INT16(b)` is value·2^15 rounded to nearest-even and saturated to [−32768, 32767]
    (−32768 for NaN, ±inf saturate); `opus_decode` is the float decode passed through the soft clipper
    (any function `clip` of block and memory) and then through exactly this conversion, sample by sample. -/
theorem out16_spec {Mem : Type} (b : Nat) (hb : b < 2 ^ 32) (clip : List Nat → Mem → List Nat × Mem)
    (out : List Nat) (mem : Mem) (hclip : ∀ y ∈ (clip out mem).1, y < 2 ^ 32) :
    float2Int16 b = out16Spec b ∧
    (∀ k, val b = some k → float2Int16 b = sat16 (rne k 134)) ∧
    decode16Out clip out mem = ((clip out mem).1.map out16Spec, (clip out mem).2) := by
  refine ⟨float2Int16_spec hb, fun k hk => by rw [float2Int16_spec hb, out16Spec_of_val hk], ?_⟩
  unfold decode16Out celtFloat2Int16
  simp only
  congr 1
  exact List.map_congr_left (fun y hy => float2Int16_spec (hclip y hy))

example : float2Int16 0x3F800000 = 32767 ∧ float2Int16 0xBF800000 = -32768 ∧ float2Int16 0x38400000 = 2 ∧
    float2Int16 0x38A00000 = 2 ∧ float2Int16 0x7FC00000 = -32768 ∧ float2Int16 0x7F800000 = 32767 := by decide

/-- **sat16_range**.  The 16-bit conversion never leaves the int16 range (so the C cast
    `(opus_int16)float2int(x)` never wraps), for every bit pattern including NaN, ±inf and huge values. -/
theorem sat16_range (b : Nat) (hb : b < 2 ^ 32) : -32768 ≤ float2Int16 b ∧ float2Int16 b ≤ 32767 := by
  rw [float2Int16_spec hb]; exact out16Spec_range b

example : float2Int16 0x7F7FFFFF = 32767 ∧ float2Int16 0xFF7FFFFF = -32768 := by decide

/-- **views_roundtrip**.  The three views are mutually consistent: a 16-bit sample converted to `opus_res`
    reads back as itself through the 16-bit output, as `256·x` through the 24-bit output, and a 24-bit
    sample reads back as itself through the 24-bit output. -/
theorem views_roundtrip (x : Int) (hx : IsInt16 x) (a : Int) (ha : a.natAbs < 2 ^ 24) :
    float2Int16 (int16ToRes x) = x ∧ res2Int24 (int16ToRes x) = 256 * x ∧ res2Int24 (int24ToRes a) = a :=
  ⟨int16_roundtrip hx, int16_to_int24 hx, int24_roundtrip ha⟩

example : float2Int16 (int16ToRes (-32768)) = -32768 ∧ res2Int24 (int24ToRes (-8388608)) = -8388608 := by decide

/-- **proj16_saturates** (projection clause).  The 16-bit projection output of one output channel — the
    output cleared, then for every decoded stream channel `output = clamp16(output + ((m·RES2INT16(v) + 16384) >> 15))`
    (src/mapping_matrix.c:211-221) — never leaves [−32768, 32767], for any matrix cells and any float samples
    (it saturates, it cannot wrap). -/
theorem proj16_saturates (cells : List Int) (samples : List Nat) :
    -32768 ≤ projOut16 cells samples ∧ projOut16 cells samples ≤ 32767 :=
  projOut16_range cells samples

example : projOut16 [32767, 32767, 32767] [0x3F800000, 0x3F800000, 0x3F800000] = 32767 ∧
    projOut16 [32767, -32768] [0xBF800000, 0x3F800000] = -32768 := by decide

/-- **proj16_tracks** (projection clause; P1).  When no accumulation step saturates, the 16-bit output is
    the sum of the rounded Q15 products, and differs from the exact matrix product `Σ m_k·s_k / 32768` of the
    16-bit stream samples `s_k = RES2INT16(v_k)` by at most half an LSB per matrix column. -/
theorem proj16_tracks (cells : List Int) (samples : List Nat) (h : NoSat 0 (List.zip cells samples)) :
    projOut16 cells samples = sumQ (List.zip cells samples) ∧
    -(16384 * ((List.zip cells samples).length : Int)) ≤
      32768 * projOut16 cells samples - sumExact (List.zip cells samples) ∧
    32768 * projOut16 cells samples - sumExact (List.zip cells samples) ≤
      16384 * ((List.zip cells samples).length : Int) :=
  projOut16_tracks cells samples h

example : NoSat 0 (List.zip [16384, -8192] [0x3F000000, 0x3E800000]) ∧
    projOut16 [16384, -8192] [0x3F000000, 0x3E800000] = 6144 := by
  decide

/-- **proj16_tracks_float** (projection clause; P1, float half).  `sumExactF` is the exact, unrounded value of
    the float path `Σ (cell_k/32768)·v_k` as a function of the bit patterns (units 2^-164).  When nothing
    saturates (no `RES2INT16` conversion of a stream sample, no accumulation step), the 16-bit output differs
    from it by at most one 16-bit LSB per matrix column.  (`projOutF`, the float path WITH its binary32
    roundings `tmp = (1/32768.f)*cell*v; out += tmp`, is modelled bit-exactly and tied to
    `mapping_matrix_multiply_channel_out_float`; the distance of `projOutF` from `sumExactF` is the
    accumulated binary32 rounding, not bounded by a theorem.) -/
theorem proj16_tracks_float (cells : List Int) (samples : List Nat)
    (hns : NoSat 0 (List.zip cells samples)) (hc : ∀ p ∈ List.zip cells samples, ConvOk p ∧ p.2 < 2 ^ 32) :
    |projOut16 cells samples * 2 ^ 149 - sumExactF (List.zip cells samples)| ≤
      ((List.zip cells samples).length : Int) * 2 ^ 149 :=
  projOut16_vs_exactF cells samples hns hc

example : ConvOk ((16384 : Int), 0x3F000000) ∧ NoSat 0 (List.zip [16384, -8192] [0x3F000000, 0x3E800000]) :=
  ⟨⟨by unfold IsInt16; decide, 2 ^ 148, by decide, by decide, by decide⟩, by decide⟩

example : projOut16 [16384, -8192] [0x3F000000, 0x3E800000] = 6144 ∧
    sumExactF (List.zip [16384, -8192] [0x3F000000, 0x3E800000]) = 6144 * 2 ^ 149 ∧
    projOutF [16384, -8192] [0x3F000000, 0x3E800000] = 0x3E400000 := by decide

end OpusProps.C13
