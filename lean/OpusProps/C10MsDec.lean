import OpusProofs.MsDecEq
import OpusProofs.MsDecEqSplit
import OpusProofs.MsDecEqRoute
import OpusProofs.MsDecEqCtl
import OpusProofs.MsDecEqSkel
import OpusProofs.MsDecEqHist
import OpusProps.C10
/-
  Property C10, extension slice MsDec — "each elementary stream inside a multistream / projection decoder behaves exactly
  like a stand-alone decoder fed that stream's packets".

  Model:  `Opus.MsDecEq` (src/opus_multistream_decoder.c:178-307 `opus_multistream_decode_native` incl. the early exits, the
          per-stream loop, the loss branch, the copy-out; :430-548 `opus_multistream_decoder_ctl_va_list`) over an ABSTRACT
          elementary decoder `Machine σ π` (any deterministic state machine for `opus_decode_native` / `opus_decoder_ctl`).
          The projection decoder (src/opus_projection_decoder.c:239-277) calls the same two functions.
  Spec:   `Opus.MsDecEq.specLoop` (stream-by-stream run on the sub-packets of the declarative splitter),
          `Opus.LayoutSpec.msSerialize` / `Opus.FramingSpec` (C10 / C06 packet grammar).
  The two facts used about the real `opus_decode_native` are explicit hypotheses: `PoContract` (its `*packet_offset` is the
  parser's) and, only for the sub-packet form, `Local` (it reads nothing beyond its self-delimited sub-packet).
-/
namespace OpusProps.C10MsDec
open Opus Opus.Layout Opus.LayoutSpec Opus.FramingSpec Opus.MsDecEq

/-- A toy elementary decoder used for the non-vacuity examples: the state is the list of (TOC, frame sizes) of everything it
    was asked to decode (`none` for a lost packet); it parses its input like `opus_decode_native` (C06 parser), returns
    the frame size it was given and the parser's `packet_offset`, or `-4` on a parse error. -/
def toy : Machine (List (Option (Nat × List Nat))) Nat :=
  { decode := fun st pkt fsz _ sd _ =>
      match pkt with
      | none => { st := st ++ [none], ret := fsz, po := 0, pcm := st.length }
      | some b =>
        match Framing.parseImpl sd b with
        | .ok p => { st := st ++ [some (p.toc, p.sizes)], ret := fsz, po := p.packetOffset, pcm := st.length }
        | _ => { st := st, ret := -4, po := 0, pcm := st.length }
    ctl := fun st request arg => (if request = 4028 then [] else st, if request = 4034 ∧ arg > 32767 then -1 else 0, st.length) }

/-- the toy machine honours `PoContract` (non-vacuity witness) -/
theorem toy_po : PoContract toy := by
  intro st bs fsz fec sd sc p hp _
  simp [toy, hp]

/-- the toy machine honours `Local` (non-vacuity witness) -/
theorem toy_local : Local toy := by
  intro st p rest fsz fec sc hv
  have h1 := Opus.FramingProofs.parse_complete true p hv rest (by simp)
  have h2 := Opus.FramingProofs.parse_complete true p hv [] (by simp)
  rw [List.append_nil] at h2
  simp [toy, h1, h2]

/-- **Stream `i` of a multistream decoder is a stand-alone decoder.**  For EVERY elementary machine, every layout and rate,
    every initial stream states and every history of API calls — multistream packets of any content (valid, corrupt,
    truncated), lost packets (`len = 0`), FEC calls, `opus_multistream_decoder_ctl` requests, direct `opus_decoder_ctl`
    requests on a stream obtained with OPUS_MULTISTREAM_GET_DECODER_STATE — the final state of stream `i` is the state of ONE
    stand-alone machine that started in stream `i`'s initial state and performed, in order, exactly the requests that
    reached stream `i` (`seenBy i`), and every answer stream `i` gave inside the multistream decoder (return value,
    `packet_offset`, PCM, ctl value) is the answer that stand-alone machine gives.  Nothing else ever changes a stream,
    and the number of streams is invariant. -/
theorem stream_is_standalone {σ π : Type} (m : Machine σ π) (l : ChannelLayout) (Fs : Nat) (evs : List Ev) (sts : List σ) :
    (runHist m l Fs sts evs).1.length = sts.length ∧
    ∀ (i : Nat) (st : σ), sts[i]? = some st →
      ∃ st', (runHist m l Fs sts evs).1[i]? = some st' ∧
        m.replay st ((seenBy i (runHist m l Fs sts evs).2).map (·.inp)) =
          (st', (seenBy i (runHist m l Fs sts evs).2).map (·.ans)) :=
  ⟨runHist_length m l Fs evs sts, fun i st h => runHist_stream m l Fs evs sts i st h⟩

example : (runHist toy ⟨2, 2, 0, [0, 1]⟩ 48000 [[], []]
    [.decode [8, 1, 0, 8, 0] 5 960 0 false, .ctl 4034 40000 true, .decode [] 0 960 0 false]).1 =
    [[some (8, [1]), none], [some (8, [1]), none]] := by decide

/-- **An accepted multistream packet is decoded stream by stream as the splitter prescribes.**  For every machine whose
    `packet_offset` is the parser's (`PoContract`), every layout with `n ≥ 1` streams, API rate, stream states, and every
    packet that is `n` RFC-valid packets of a common duration `k` not above the clamped frame size (exactly what
    `opus_multistream_packet_validate` accepts: C10 `ms_packet_structure`), for every `decode_fec` and `soft_clip`: the
    whole outcome of `opus_multistream_decode_native` — return value, every stream's new state, every per-stream call with
    its data offset, `len`, arguments and answer, and the copy-out calls — is `specLoop`: stream `s` is called once, on the
    bytes from its own sub-packet onwards, at offset = the total length of the sub-packets before it, with
    `self_delimited = (s ≠ n-1)`, the caller's `decode_fec` and `soft_clip`, and `frame_size` = the previous stream's
    return value (the caller's `frame_size` clamped to 120 ms for stream 0); a stream returning `≤ 0` ends the call with
    that value, the streams before it and the failing stream itself keep their advanced state, the later ones are not
    called, and nothing of that stream or the muted channels is copied out. -/
theorem accepted_packet_splits {σ π : Type} (m : Machine σ π) (hpo : PoContract m) (l : ChannelLayout) (Fs : Nat) (hFs : Rate Fs)
    (sts : List σ) (ps : List Packet) (hlen : ps.length = l.nbStreams) (hsts : sts.length = l.nbStreams) (hn : 1 ≤ l.nbStreams)
    (hval : ∀ p ∈ ps, Valid p) (k : Nat) (hdur : ∀ p ∈ ps, duration Fs p = k)
    (frame_size fec : Int) (sc : Bool) (hfs : 0 < frame_size) (hk : (k : Int) ≤ clampFs Fs frame_size) :
    msDecode m l Fs sts (msSerialize ps) (msSerialize ps).length frame_size fec sc =
      specLoop m l fec sc feedSuffix ps sts 0 0 (clampFs Fs frame_size) :=
  msDecode_accepted m hpo l Fs hFs sts ps hlen hsts hn hval k hdur frame_size fec sc hfs hk

/-- **…and each stream sees only its own sub-packet.**  If moreover the machine reads nothing beyond its self-delimited
    sub-packet (`Local`), the outcome is that of the run in which stream `s` is handed exactly its own sub-packet
    `serialize (s ≠ n-1) pₛ` (same states, return values, offsets, arguments, PCM; `forget` drops only the record of which
    bytes were handed over). -/
theorem accepted_packet_subpackets {σ π : Type} (m : Machine σ π) (hpo : PoContract m) (hloc : Local m) (l : ChannelLayout)
    (Fs : Nat) (hFs : Rate Fs) (sts : List σ) (ps : List Packet) (hlen : ps.length = l.nbStreams)
    (hsts : sts.length = l.nbStreams) (hn : 1 ≤ l.nbStreams) (hval : ∀ p ∈ ps, Valid p) (k : Nat)
    (hdur : ∀ p ∈ ps, duration Fs p = k) (frame_size fec : Int) (sc : Bool) (hfs : 0 < frame_size)
    (hk : (k : Int) ≤ clampFs Fs frame_size) :
    (msDecode m l Fs sts (msSerialize ps) (msSerialize ps).length frame_size fec sc).forget =
      (specLoop m l fec sc feedSub ps sts 0 0 (clampFs Fs frame_size)).forget := by
  rw [msDecode_accepted m hpo l Fs hFs sts ps hlen hsts hn hval k hdur frame_size fec sc hfs hk]
  exact specLoop_local m hloc l fec sc ps sts 0 0 _ hval

/-- **A rejected multistream packet changes no stream's state.**  Every early exit of `opus_multistream_decode_native`
    (bad `frame_size` / `len`, packet shorter than `2n-1`, validation failure — any stream malformed or durations
    differing —, duration above the frame size) returns a negative code with NO per-stream call and NO copy-out: all
    stream states are the ones before the call.  Conversely, a call with a packet that is not rejected early carries an
    accepted packet (the hypothesis of `accepted_packet_splits`). -/
theorem rejected_packet_touches_nothing {σ π : Type} (m : Machine σ π) (l : ChannelLayout) (Fs : Nat) (sts : List σ) (bs : Bytes)
    (len frame_size fec : Int) (sc : Bool) :
    (∀ e, msEarly l Fs bs len frame_size = some e →
      e < 0 ∧ msDecode m l Fs sts bs len frame_size fec sc = { ret := e, sts := sts, recs := [], copies := [] }) ∧
    (msEarly l Fs bs len frame_size = none → len ≠ 0 → Rate Fs → BytesOk bs → 1 ≤ l.nbStreams →
      0 < frame_size ∧ 0 < len ∧ ∃ (ps : List Packet) (k : Nat), ps.length = l.nbStreams ∧ (∀ p ∈ ps, Valid p) ∧
        bs.take len.toNat = msSerialize ps ∧ (∀ p ∈ ps, duration Fs p = k) ∧ (k : Int) ≤ clampFs Fs frame_size) :=
  ⟨fun e h => ⟨msEarly_neg l Fs bs len frame_size e h, msDecode_early m l Fs sts bs len frame_size fec sc e h⟩,
   fun h hlen hFs hb hn => msEarly_none_packet l Fs hFs bs hb len frame_size hn hlen h⟩

example : msEarly ⟨2, 2, 0, [0, 1]⟩ 48000 [8, 1, 0, 0, 0] 5 960 = some (-4) ∧
    msEarly ⟨2, 2, 0, [0, 1]⟩ 48000 [8, 1, 0, 8, 0] 5 960 = none ∧
    msEarly ⟨2, 2, 0, [0, 1]⟩ 48000 [8, 1, 0, 8, 0] 5 240 = some (-2) := by decide

/-- A valid 20 ms CELT packet (TOC `F8`, one 2-byte frame) used in the examples. -/
theorem valid_f8 : Valid ⟨0xF8, [[7, 7]], false, none⟩ :=
  { toc_byte := by decide
    frame_max := by intro f hf; simp only [List.mem_singleton] at hf; subst hf; decide
    code0 := fun _ => ⟨rfl, rfl, rfl⟩
    code1 := fun h => absurd h (by decide)
    code2 := fun h => absurd h (by decide)
    code3 := fun h => absurd h (by decide)
    pad_ok := fun pd h => by cases h }

/-- the hypotheses of `accepted_packet_splits` / `_subpackets` are satisfiable: two streams, the packet `F8 02 07 07 F8 07 07` -/
example : PoContract toy ∧ Local toy ∧
    (∀ p ∈ [(⟨0xF8, [[7, 7]], false, none⟩ : Packet), ⟨0xF8, [[7, 7]], false, none⟩], Valid p ∧ duration 48000 p = 960) ∧
    msSerialize [(⟨0xF8, [[7, 7]], false, none⟩ : Packet), ⟨0xF8, [[7, 7]], false, none⟩] = [0xF8, 2, 7, 7, 0xF8, 7, 7] ∧
    ((960 : Nat) : Int) ≤ clampFs 48000 5760 ∧
    (msDecode toy ⟨2, 2, 0, [0, 1]⟩ 48000 [[], []] [0xF8, 2, 7, 7, 0xF8, 7, 7] 7 5760 0 false).sts =
      [[some (0xF8, [2])], [some (0xF8, [2])]] ∧
    (msDecode toy ⟨2, 2, 0, [0, 1]⟩ 48000 [[], []] [0xF8, 2, 7, 7, 0xF8, 7, 7] 7 5760 0 false).recs.map (fun r => (r.s, r.off, r.len)) =
      [(0, 0, 7), (1, 4, 3)] := by
  refine ⟨toy_po, toy_local, ?_, by decide, by decide, by decide, by decide⟩
  intro p hp
  simp only [List.mem_cons, List.not_mem_nil, or_false, or_self] at hp
  subst hp
  exact ⟨valid_f8, by decide⟩

/-- **What happens when a stream fails midway — and who is called with what — for every machine and every input.**
    In one `opus_multistream_decode_native`: the streams called are `0, 1, …, j` in order, each exactly once, each from the
    state it had before the call (`pre`), each with the caller's `decode_fec` and `soft_clip`, `self_delimited = (s ≠ n-1)`,
    a NULL/empty packet exactly when `len = 0` (loss), and its recorded answer is the machine's answer on these
    arguments; afterwards the called streams hold the state their call left and ALL other streams are untouched; a stream
    that returns `≤ 0` is the last one called, its value is the return value of the multistream call (so: the streams
    before it, and the failing stream itself, have advanced; the later ones have not — the decoder is left with its streams
    out of step, exactly as the code does it); a positive return value means every stream was called and returned `> 0`. -/
theorem failing_stream_midway {σ π : Type} (m : Machine σ π) (l : ChannelLayout) (Fs : Nat) (sts : List σ) (bs : Bytes)
    (len frame_size fec : Int) (sc : Bool) :
    (msDecode m l Fs sts bs len frame_size fec sc).recs.map (·.s) =
      List.range' 0 (msDecode m l Fs sts bs len frame_size fec sc).recs.length ∧
    (msDecode m l Fs sts bs len frame_size fec sc).recs.map (·.pre) =
      sts.take (msDecode m l Fs sts bs len frame_size fec sc).recs.length ∧
    (∀ r ∈ (msDecode m l Fs sts bs len frame_size fec sc).recs,
      r.out = m.run r.pre r.args ∧ r.args.fec = fec ∧ r.args.sc = sc ∧ r.args.sd = decide (r.s ≠ l.nbStreams - 1) ∧
      (len = 0 → r.args.pkt = none) ∧ (len ≠ 0 → 0 < r.len ∧ ∃ b, r.args.pkt = some b)) ∧
    (msDecode m l Fs sts bs len frame_size fec sc).sts =
      (msDecode m l Fs sts bs len frame_size fec sc).recs.map (·.out.st) ++
        sts.drop (msDecode m l Fs sts bs len frame_size fec sc).recs.length ∧
    (∀ r ∈ (msDecode m l Fs sts bs len frame_size fec sc).recs, r.out.ret ≤ 0 →
      (msDecode m l Fs sts bs len frame_size fec sc).ret = r.out.ret ∧
      (msDecode m l Fs sts bs len frame_size fec sc).recs.getLast? = some r) ∧
    (0 < (msDecode m l Fs sts bs len frame_size fec sc).ret →
      (msDecode m l Fs sts bs len frame_size fec sc).recs.length = sts.length ∧
      ∀ r ∈ (msDecode m l Fs sts bs len frame_size fec sc).recs, 0 < r.out.ret) :=
  msDecode_shape m l Fs sts bs len frame_size fec sc

/-- stream 0 decodes, stream 1 fails on its sub-packet (a 1-byte code-1 packet: odd payload): the call returns the failure,
    stream 0 has advanced, stream 1 (the toy keeps its state on a parse error) and stream 2 are as before -/
example : (msDecode toy ⟨3, 3, 0, [0, 1, 2]⟩ 48000 [[], [], []] [0xF8, 2, 7, 7, 0xF8, 2, 7, 7, 0xF8, 7, 7] 11 960 0 false).ret = 960 ∧
    (msDecode ({ toy with decode := fun st pkt fsz fec sd sc =>
        if st = [none] then { st := st, ret := -4, po := 0, pcm := 0 } else toy.decode st pkt fsz fec sd sc })
      ⟨3, 3, 0, [0, 1, 2]⟩ 48000 [[], [none], []] [0xF8, 2, 7, 7, 0xF8, 2, 7, 7, 0xF8, 7, 7] 11 960 0 false).sts =
      [[some (0xF8, [2])], [none], []] := by decide

/-- **Output channel `c` is the routed channel of its stream.**  For every created decoder and every successful call of
    `opus_multistream_decode_native` over ANY elementary machines: all `n` streams were called and returned `> 0`, and every
    output channel `c` receives exactly one copy-out call, from the left / right / only channel of the stream its mapping
    byte designates (C10 `expectedSrc`; zeros iff 255), with that stream's sample count — where, by
    `failing_stream_midway` / `accepted_packet_splits`, what lies in that stream's buffer at the time of the copy is the
    PCM of the stand-alone machine's answer `r.out.pcm`.  (Composition with C10 `routing`.) -/
theorem routed_channel_of_stream {σ π : Type} (m : Machine σ π) (innerOk : Bool) (ch st co : Int) (mp : List Nat) (l : ChannelLayout)
    (hcreate : decoderCreate innerOk ch st co mp = .ok l) (Fs : Nat) (sts : List σ) (hsts : sts.length = l.nbStreams)
    (bs : Bytes) (len frame_size fec : Int) (sc : Bool) (hpos : 0 < (msDecode m l Fs sts bs len frame_size fec sc).ret) :
    (msDecode m l Fs sts bs len frame_size fec sc).recs.length = l.nbStreams ∧
    (∀ r ∈ (msDecode m l Fs sts bs len frame_size fec sc).recs, 0 < r.out.ret) ∧
    (∀ c, c < l.nbChannels →
      (msDecode m l Fs sts bs len frame_size fec sc).copies.filter (fun k => k.chan = c) =
        [{ chan := c, src := expectedSrc l c,
           frameSize := srcFrame ((msDecode m l Fs sts bs len frame_size fec sc).recs.map Rec.toRet)
             (msDecode m l Fs sts bs len frame_size fec sc).ret (expectedSrc l c) }] ∧
      (expectedSrc l c = .zero ↔ l.mapping[c]? = some 255) ∧ (expectedSrc l c).streamLt l.nbStreams) ∧
    (∀ k ∈ (msDecode m l Fs sts bs len frame_size fec sc).copies, k.chan < l.nbChannels) := by
  obtain ⟨h1, h2, h3⟩ := msDecode_route m l Fs sts hsts bs len frame_size fec sc hpos
  have hR := OpusProps.C10.routing innerOk ch st co mp l hcreate Fs frame_size len _ _ (by simp [h1]) _ h3 hpos
  exact ⟨h1, h2, hR.1, hR.2.1⟩

example : decoderCreate true 3 2 1 [2, 255, 0] = .ok ⟨3, 2, 1, [2, 255, 0]⟩ ∧
    (msDecode toy ⟨3, 2, 1, [2, 255, 0]⟩ 48000 [[], []] [] 0 960 0 false).ret = 960 ∧
    (msDecode toy ⟨3, 2, 1, [2, 255, 0]⟩ 48000 [[], []] [] 0 960 0 false).sts = [[none], [none]] := by decide

/-- **ctl requests reach every stream, or the first one, or none — and nothing else.**  For every machine and stream states:
    the five int32 GETs are answered by stream 0 alone; OPUS_GET_FINAL_RANGE (non-NULL pointer), OPUS_RESET_STATE,
    OPUS_SET_GAIN and OPUS_SET_PHASE_INVERSION_DISABLED are handed, unchanged, to streams `0, 1, 2, …` in order, stopping at
    the first stream that refuses; when the call returns OPUS_OK every stream received it (and the final range is the XOR of
    the streams' values); every other request (OPUS_MULTISTREAM_GET_DECODER_STATE included) reaches no stream and leaves
    all states as they are.  That a stream reached performs the request exactly like a stand-alone decoder, and that
    streams not reached are unchanged, is `stream_is_standalone`. -/
theorem ctl_fanout {σ π : Type} (m : Machine σ π) (sts : List σ) (request arg : Int) (nonNull : Bool) :
    (isFirstGet request = true → ∀ st rest, sts = st :: rest →
      (msCtl m sts request arg nonNull).seen = [ctlSeen m 0 st request 0] ∧
      (msCtl m sts request arg nonNull).ret = (m.ctl st request 0).2.1 ∧
      (msCtl m sts request arg nonNull).value = (m.ctl st request 0).2.2) ∧
    (isFirstGet request = false → (request = REQ_GET_FINAL_RANGE ∧ nonNull = true) ∨ isAll request = true →
      (msCtl m sts request arg nonNull).seen.map (·.s) = List.range' 0 (msCtl m sts request arg nonNull).seen.length ∧
      (msCtl m sts request arg nonNull).seen.length ≤ sts.length ∧
      (∀ x ∈ (msCtl m sts request arg nonNull).seen,
        x.inp = .ctl request (if request = REQ_GET_FINAL_RANGE ∨ request = REQ_RESET_STATE then 0 else arg)) ∧
      ((msCtl m sts request arg nonNull).ret = 0 → (msCtl m sts request arg nonNull).seen.length = sts.length) ∧
      ((msCtl m sts request arg nonNull).ret = 0 → request = REQ_GET_FINAL_RANGE →
        (msCtl m sts request arg nonNull).value =
          ((sts.map fun st => (m.ctl st request 0).2.2.toNat).foldl (· ^^^ ·) 0 : Nat))) ∧
    (isFirstGet request = false → ¬ (request = REQ_GET_FINAL_RANGE ∧ nonNull = true) → isAll request = false →
      (msCtl m sts request arg nonNull).seen = [] ∧ (msCtl m sts request arg nonNull).sts = sts ∧
      ((msCtl m sts request arg nonNull).ret = 0 → request = REQ_GET_DECODER_STATE ∧ 0 ≤ arg ∧ arg < sts.length ∧
        (msCtl m sts request arg nonNull).value = arg)) := by
  refine ⟨?_, ?_, ?_⟩
  · intro h st rest hs
    subst hs
    simp [msCtl, h]
  · intro h hcase
    unfold msCtl
    rw [if_neg (by simp [h])]
    by_cases hf : request = REQ_GET_FINAL_RANGE
    · have hnn : nonNull = true := by
        rcases hcase with hc | hc
        · exact hc.2
        · subst hf; exact absurd hc (by decide)
      obtain ⟨a, b, c, d⟩ := ctlXor_shape m request sts 0 0
      rw [if_pos hf, if_neg (by simp [hnn])]
      refine ⟨a, b, ?_, fun h0 => (d h0).1, fun h0 _ => ?_⟩
      · intro x hx; rw [if_pos (Or.inl hf)]; exact c x hx
      · simp only; rw [(d h0).2]
    · have ha : isAll request = true := by
        rcases hcase with hc | hc
        · exact absurd hc.1 hf
        · exact hc
      rw [if_neg hf, if_pos ha]
      obtain ⟨a, b, c, d⟩ := ctlAll_shape m request (if request = REQ_RESET_STATE then 0 else arg) sts 0
      refine ⟨a, b, ?_, d, fun _ h1 => absurd h1 hf⟩
      intro x hx
      rw [c x hx]
      by_cases hr : request = REQ_RESET_STATE
      · simp [hr]
      · simp [hr, hf]
  · intro h hnf ha
    unfold msCtl
    rw [if_neg (by simp [h])]
    by_cases hf : request = REQ_GET_FINAL_RANGE
    · have hnn : nonNull = false := by
        cases nonNull
        · rfl
        · exact absurd ⟨hf, rfl⟩ hnf
      rw [if_pos hf, if_pos (by simp [hnn])]
      refine ⟨rfl, rfl, ?_⟩
      intro h0; simp [Err.code] at h0
    · rw [if_neg hf, if_neg (by simp [ha])]
      by_cases hg : request = REQ_GET_DECODER_STATE
      · rw [if_pos hg]
        by_cases hr : arg < 0 ∨ arg ≥ (sts.length : Int)
        · rw [if_pos hr]; exact ⟨rfl, rfl, fun h0 => by simp [Err.code] at h0⟩
        · rw [if_neg hr]
          cases nonNull
          · simp [Err.code]
          · rw [if_neg (by decide)]
            exact ⟨rfl, rfl, fun _ => ⟨hg, by omega, by omega, rfl⟩⟩
      · rw [if_neg hg]
        exact ⟨rfl, rfl, fun h0 => by simp at h0⟩

example : (msCtl toy [[none], [], [none]] 4034 40000 true).ret = -1 ∧ (msCtl toy [[none], [], [none]] 4034 40000 true).seen.map (·.s) = [0] ∧
    (msCtl toy [[none], [], [none]] 4028 0 true).sts = [[], [], []] ∧ (msCtl toy [[none], [], [none]] 4031 0 true).value = 0 ∧
    (msCtl toy [[none], [], [none]] 4031 0 true).seen.map (·.s) = [0, 1, 2] ∧
    (msCtl toy [[none], [], [none]] 5122 2 true).value = 2 ∧ (msCtl toy [[none], [], [none]] 4002 0 true).ret = -5 := by decide

/-- **The declarative splitter, in closed form.**  A multistream packet is the concatenation of its sub-packets
    (`subPackets`: packet `i` in self-delimited framing unless it is the last); in the sub-packet run that
    `accepted_packet_subpackets` equates the decoder with, the `j`-th per-stream call is on stream `j`, from that stream's
    state before the API call, at data offset = total length of sub-packets `0..j-1`, on exactly sub-packet `j`, with
    `self_delimited = (j+1 < n)`, the caller's `decode_fec` and `soft_clip`, `frame_size` = the return value of call `j-1`
    (the clamped caller's value for `j = 0`), and its recorded answer (state, return value, PCM) is the stand-alone
    machine's answer on these arguments. -/
theorem stream_inputs_closed_form {σ π : Type} (m : Machine σ π) (l : ChannelLayout) (fec : Int) (sc : Bool) (ps : List Packet)
    (sts : List σ) (fsz : Int) :
    msSerialize ps = (subPackets ps).flatten ∧ (subPackets ps).length = ps.length ∧
    ∀ (j : Nat) (r : Rec σ π), (specLoop m l fec sc feedSub ps sts 0 0 fsz).recs[j]? = some r →
      ∃ sub st, (subPackets ps)[j]? = some sub ∧ sts[j]? = some st ∧ r.s = j ∧ r.pre = st ∧
        r.off = (((subPackets ps).take j).flatten.length : Int) ∧
        r.args = { pkt := some sub, fec := fec, sc := sc, sd := decide (j + 1 < ps.length),
                   fsz := match j with
                     | 0 => fsz
                     | k + 1 => (((specLoop m l fec sc feedSub ps sts 0 0 fsz).recs[k]?).map (·.out.ret)).getD 0 } ∧
        r.out = m.run st r.args := by
  refine ⟨msSerialize_flatten ps, subPackets_length ps, fun j r h => ?_⟩
  obtain ⟨sub, st, a1, a2, a3, a4, a5, a6, a7⟩ := specLoop_sub_closed m l fec sc ps sts 0 0 fsz j r h
  exact ⟨sub, st, a1, a2, by omega, a4, by omega, a6, a7⟩

example : subPackets [(⟨0xF8, [[7, 7]], false, none⟩ : Packet), ⟨0xF8, [[7, 7]], false, none⟩] = [[0xF8, 2, 7, 7], [0xF8, 7, 7]] ∧
    (specLoop toy ⟨2, 2, 0, [0, 1]⟩ 0 false feedSub [(⟨0xF8, [[7, 7]], false, none⟩ : Packet), ⟨0xF8, [[7, 7]], false, none⟩]
      [[], []] 0 0 960).recs.map (fun r => (r.s, r.off, r.args.pkt, r.args.sd)) =
      [(0, 0, some [0xF8, 2, 7, 7], true), (1, 4, some [0xF8, 7, 7], false)] := by decide

/-- **A whole history is the splitter's run.**  For every machine honouring `PoContract` and `Local`, every decoder with
    `n ≥ 1` streams at an API rate, and every history in which multistream packets that the decoder accepts (given by their
    sub-packets: `n` RFC-valid packets of equal duration that fits the frame size) are interleaved with ARBITRARY other API
    calls (lost packets, packets that get rejected, FEC calls, ctl requests, direct ctl): the final stream states, every
    return value and every answer of every stream (state, return value, `packet_offset`, PCM) are those of `specRun`, in
    which each accepted packet is decoded by handing stream `s`, as a stand-alone machine, exactly sub-packet `s` of the
    declarative splitter (closed form: `stream_inputs_closed_form`). -/
theorem history_is_splitter_run {σ π : Type} (m : Machine σ π) (hpo : PoContract m) (hloc : Local m) (l : ChannelLayout)
    (hn : 1 ≤ l.nbStreams) (Fs : Nat) (hFs : Rate Fs) (hs : List HEv) (sts : List σ) (hsts : sts.length = l.nbStreams)
    (hok : ∀ h ∈ hs, h.Ok l Fs) :
    (runHist m l Fs sts (hs.map HEv.ev)).1 = (specRun m l Fs sts hs).1 ∧
    (runHist m l Fs sts (hs.map HEv.ev)).2.map (fun e => (e.ret, e.seen.map (·.ans))) = (specRun m l Fs sts hs).2 :=
  runHist_spec m hpo hloc l hn Fs hFs hs sts hsts hok

/-- a history: accepted packet, lost packet, SET_GAIN refused by stream 0, accepted packet -/
example : (HEv.accepted [(⟨0xF8, [[7, 7]], false, none⟩ : Packet), ⟨0xF8, [[7, 7]], false, none⟩] 960 0 false).Ok ⟨2, 2, 0, [0, 1]⟩ 48000 ∧
    (specRun toy ⟨2, 2, 0, [0, 1]⟩ 48000 [[], []]
      [.accepted [(⟨0xF8, [[7, 7]], false, none⟩ : Packet), ⟨0xF8, [[7, 7]], false, none⟩] 960 0 false,
       .other (.decode [] 0 960 0 false), .other (.ctl 4034 40000 true),
       .accepted [(⟨0xF8, [[7, 7]], false, none⟩ : Packet), ⟨0xF8, [[7, 7]], false, none⟩] 960 0 false]).1 =
      [[some (0xF8, [2]), none, some (0xF8, [2])], [some (0xF8, [2]), none, some (0xF8, [2])]] := by
  refine ⟨⟨rfl, ?_, by decide, 960, ?_, by decide⟩, by decide⟩
  · intro p hp; simp only [List.mem_cons, List.not_mem_nil, or_false, or_self] at hp; subst hp; exact valid_f8
  · intro p hp; simp only [List.mem_cons, List.not_mem_nil, or_false, or_self] at hp; subst hp; decide

/-- **The two hypotheses hold for the transcription of the real `opus_decode_native`.**  The C01 skeleton of
    `opus_decode_native` (src/opus_decoder.c:681-822 with every SILK / CELT / range-decoder call an arbitrary oracle `o`),
    packaged as an elementary machine, honours `PoContract` and `Local` — for every oracle and every buffer capacity.  Hence
    `accepted_packet_splits` and `accepted_packet_subpackets` apply to it unconditionally. -/
theorem skeleton_is_a_machine (o : Opus.DecSkel.Oracle) (bufCap : Int) :
    PoContract (skelMachine o bufCap) ∧ Local (skelMachine o bufCap) :=
  ⟨skel_po o bufCap, skel_local o bufCap⟩

end OpusProps.C10MsDec
