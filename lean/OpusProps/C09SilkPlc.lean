import OpusProofs.SilkPlcGlue
import OpusProofs.SilkPlcConceal
import OpusProofs.SilkPlcInv
import OpusProofs.SilkPlcDecay
import OpusProofs.SilkPlcCng
import OpusProofs.SilkPlcTotal
/-
  OpusProps.C09SilkPlc — property theorems of the C09 extension `SilkPlc`: SILK's packet-loss concealment, comfort
  noise and frame glue (silk/PLC.c, silk/CNG.c) as the bit-exact value model OpusModel.SilkPlc{ConcealFix,Conceal,
  Cng,Glue}, tied sample by sample and state member by state member to the real silk_PLC / silk_CNG /
  silk_PLC_glue_frames on live decoder states (harness/c09_silkplc.c, suite `silkplc`).
-/
namespace OpusProps.C09SilkPlc
open Opus Opus.SilkPlc

/-- The 81-sample frame of the glue counterexample: full-scale first sample, then a ±1000 alternation. -/
def cexFrame : List Int := 32767 :: ((List.replicate 39 [1200, -900]).flatten ++ [3350])

/-- C09 "silk_PLC_glue_frames is the identity when the last frame was not lost": with `lossCnt = 0` and
    `last_frame_lost = 0` the frame and every state member are returned unchanged (PLC.c:444-491). -/
theorem glue_identity_when_not_lost (s : GlueSt) (frame : List Int) (h0 : s.lossCnt = 0) (h1 : s.lastFrameLost = 0) :
    glueFrames s frame = (frame, s) := glue_identity s frame h0 h1

example : glueFrames ⟨0, 0, 77, 3⟩ [5, -7, 32767] = ([5, -7, 32767], ⟨0, 0, 77, 3⟩) := by decide

/-- The fade-in is applied only when the received frame has MORE energy than the concealed one: with `lossCnt = 0`,
    `last_frame_lost ≠ 0` and normalised `energy ≤ conc_energy` (PLC.c:462) the frame is returned unchanged. -/
theorem glue_identity_when_quieter (s : GlueSt) (frame : List Int) (h0 : s.lossCnt = 0)
    (hq : ¬ (glueNormalize s.concEnergy s.concEnergyShift (sumSqrShift frame).1 (sumSqrShift frame).2).2 >
            (glueNormalize s.concEnergy s.concEnergyShift (sumSqrShift frame).1 (sumSqrShift frame).2).1) :
    (glueFrames s frame).1 = frame := by
  unfold glueFrames
  dsimp only
  simp only [h0, ne_eq, not_true_eq_false, ↓reduceIte]
  split
  · rfl
  · rfl

example : ¬ (glueNormalize 900000 0 (sumSqrShift [100, -100, 50]).1 (sumSqrShift [100, -100, 50]).2).2 >
            (glueNormalize 900000 0 (sumSqrShift [100, -100, 50]).1 (sumSqrShift [100, -100, 50]).2).1 := by decide

/-- A lost (concealed) frame passes through silk_PLC_glue_frames unchanged and arms the fade-in; a received
    frame always disarms it (PLC.c:444-448, :491). -/
theorem glue_flags (s : GlueSt) (frame : List Int) :
    (s.lossCnt ≠ 0 → (glueFrames s frame).1 = frame ∧ (glueFrames s frame).2.lastFrameLost = 1) ∧
    (s.lossCnt = 0 → (glueFrames s frame).2.lastFrameLost = 0) :=
  ⟨glue_lost_keeps_frame s frame, glue_received_clears_flag s frame⟩

example : (glueFrames ⟨3, 0, 0, 0⟩ [100, -100]).2.lastFrameLost = 1 := by decide

/-- "every output sample is an int16", glue stage: for every state and every int16 frame, all branches (fade-in
    ramp included) return a frame of the same length whose samples are all in [-32768, 32767]. -/
theorem glue_output_int16 (s : GlueSt) (frame : List Int) (h : ∀ x ∈ frame, I16 x) :
    (glueFrames s frame).1.length = frame.length ∧ ∀ y ∈ (glueFrames s frame).1, I16 y :=
  glue_frame_int16 s frame h

example : ∀ x ∈ cexFrame, I16 x := by unfold I16; decide

/-- silk_PLC_glue_frames never amplifies and never flips a sign WHILE its gain is ≤ 1.0: for every state and int16
    frame for which the start gain `gain_Q16` computed at PLC.c:466-473 is ≤ 1.0 in Q16 (it is always ≥ 0,
    `glue_gain_range`), every output sample lies between 0 and the input sample and the int16 store does not wrap.
    (Without the hypothesis the statement is false for the code: `glue_gain_above_one_counterexample`.) -/
theorem glue_damped_when_gain_le_one (s : GlueSt) (frame : List Int) (h : ∀ x ∈ frame, I16 x)
    (hgain : (glueGain (glueNormalize s.concEnergy s.concEnergyShift (sumSqrShift frame).1 (sumSqrShift frame).2).1
                (glueNormalize s.concEnergy s.concEnergyShift (sumSqrShift frame).1 (sumSqrShift frame).2).2 frame.length).1 ≤ 65536) :
    (glueFrames s frame).1.length = frame.length ∧
    ∀ i, Damped (frame.getD i 0) ((glueFrames s frame).1.getD i 0) :=
  ⟨(glue_damped_of_gain_le_one s frame h hgain).get.1.symm, (glue_damped_of_gain_le_one s frame h hgain).get.2⟩

example : (glueGain (glueNormalize 1000 0 (sumSqrShift [100, -100, 50]).1 (sumSqrShift [100, -100, 50]).2).1
            (glueNormalize 1000 0 (sumSqrShift [100, -100, 50]).1 (sumSqrShift [100, -100, 50]).2).2 3).1 ≤ 65536 := by decide

/-- The fade-in gain ramps UP: `gain_Q16 ≥ 0` always, and whenever it starts at ≤ 1.0 the per-sample increment
    `slope_Q16` (PLC.c:474-476) is ≥ 0, so the applied gains `g, g+slope, …` are non-decreasing until they pass 1.0. -/
theorem glue_gain_range (concE e length : Int) (hl : 0 < length) :
    0 ≤ (glueGain concE e length).1 ∧ (glueGain concE e length).1 ≤ 1044800 ∧
    ((glueGain concE e length).1 ≤ 65536 → 0 ≤ (glueGain concE e length).2.1) :=
  ⟨(glueGain_nonneg concE e length).1, (glueGain_nonneg concE e length).2,
   fun h => glueGain_slope_nonneg concE e length hl ⟨(glueGain_nonneg concE e length).1, h⟩⟩

example : (glueGain 1000 22500 3).1 ≤ 65536 := by decide

/-- Observation beyond the property text (unchanged code): the glue gain CAN exceed 1.0 and then the int16 store of PLC.c:482 wraps — state
    `lossCnt = 0, last_frame_lost = 1, conc_energy = 293162196, conc_energy_shift = 2` and the frame `cexFrame`
    (energy 293162197 at shift 2): gain_Q16 = 65744 > 65536, slope < 0, and the full-scale first sample 32767
    comes out as -32666.  Reproduced on the real silk_PLC_glue_frames (`c09_silkplc glue1 0 1 293162196 2 …`). -/
theorem glue_gain_above_one_counterexample :
    (glueGain 293162196 293162197 81).1 = 65744 ∧ (glueGain 293162196 293162197 81).2.1 < 0 ∧
    (glueFrames ⟨0, 1, 293162196, 2⟩ cexFrame).1.head? = some (-32666) := by decide +kernel


/-! ### silk_PLC (concealment) -/

/-- A live-like decoder state for the non-vacuity examples: 8 kHz, 10 ms (2 sub-frames of 40), order 10, voiced,
    pitch lag 60, taps (0,0,0.7,0,0), previous gains 1.0, second lost frame of a burst. -/
def exDec : Dec :=
  { fsKHz := 8, nbSubfr := 2, frameLength := 80, subfrLength := 40, ltpMemLength := 160, lpcOrder := 10, lossCnt := 1,
    prevSignalType := 2, firstFrameAfterReset := 0, signalType := 2,
    excQ14 := (List.range 320).map (fun i => ((i * 7919 % 2001 : Nat) : Int) * 16 - 16000),
    sLPC := List.replicate 16 0,
    outBuf := (List.range 480).map (fun i => ((i * 104729 % 4001 : Nat) : Int) - 2000),
    plc := { pitchLQ8 := 15360, ltpCoef := [0, 0, 11469, 0, 0], prevLPC := [2000, -1000, 500, -250, 125, -60, 30, -15, 8, -4, 0, 0, 0, 0, 0, 0],
             lastFrameLost := 1, randSeed := 12345, randScale := 3000, concEnergy := 0, concEnergyShift := 0,
             prevLtpScale := 15565, prevGain := [65536, 65536], fsKHz := 8, nbSubfr := 2, subfrLength := 40 } }

def exCtrl : Ctrl := { pitchL := [], gains := [], predCoef1 := [], ltpCoef := [], ltpScale := 0 }

/-- C09 "the concealment excitation gain (rand_scale, harmonic gain) is non-increasing over consecutive lost frames and
    strictly decreasing from the second lost frame", on the full value model of silk_PLC( …, lost = 1 ) — every decoder
    state, every history: when a loss is in progress (`lossCnt ≥ 1`, i.e. from the second lost frame of a burst) the
    stored `randScale_Q14` stays ≥ 0, does not grow and strictly decreases while positive; every harmonic tap
    `LTPCoef_Q14[i]` is mapped by one function `f` that keeps int16, never increases a magnitude and strictly decreases
    every positive tap; `lossCnt` is incremented.  (The attenuation constants are the ones regenerated from PLC.c.) -/
theorem conceal_gain_decreasing (d : Dec) (c : Ctrl) (o : ConcealOut) (h : silkPLC d c true = .ok o)
    (hl : 1 ≤ d.lossCnt) (hn : 0 < d.nbSubfr) (hrs : 0 ≤ d.plc.randScale ∧ d.plc.randScale ≤ 32767) :
    o.dec.lossCnt = d.lossCnt + 1 ∧ 0 ≤ o.dec.plc.randScale ∧ o.dec.plc.randScale ≤ d.plc.randScale ∧
    (0 < d.plc.randScale → o.dec.plc.randScale < d.plc.randScale) ∧
    ∃ f : Int → Int, (∀ b, SilkPlcGains.I16 b → SilkPlcGains.I16 (f b) ∧ SilkPlcGains.mag (f b) ≤ SilkPlcGains.mag b ∧
      (0 < b → f b < b)) ∧ o.dec.plc.ltpCoef = d.plc.ltpCoef.map f :=
  silkPLC_gain_decreases d c o h hl hn hrs

example : (match silkPLC exDec exCtrl true with
    | .ok o => decide (o.dec.plc.randScale < 3000 ∧ 0 < o.dec.plc.randScale ∧ (o.dec.plc.ltpCoef.getD 2 0) < 11469)
    | _ => false) = true := by decide +kernel

/-- "every output sample is an int16", concealment stage: every sample of the frame silk_PLC( …, lost = 1 ) returns is
    in [-32768, 32767] — for every decoder state. -/
theorem conceal_output_int16 (d : Dec) (c : Ctrl) (o : ConcealOut) (h : silkPLC d c true = .ok o) :
    ∀ x ∈ o.frame, -32768 ≤ x ∧ x ≤ 32767 := by
  obtain ⟨o', h1, hf, _⟩ := silkPLC_lost d c o h
  rw [hf]
  exact plcConceal_frame_int16 d _ o' h1

example : (match silkPLC exDec exCtrl true with | .ok o => decide (o.frame.length = 80) | _ => false) = true := by
  decide +kernel

/-- Totality of silk_PLC_conceal (PLC.c:216-430) — PARTIAL: no `celt_assert` fires (`.abort`: idx > 0 :319, the three
    asserts of silk_LPC_analysis_filter, LPC_order ≥ 10 :373) and the model never reports `.oob`, for every state whose
    LPC order is even and in [10, 16], whose `prevLPC_Q12` has 16 entries and whose pitch lag satisfies
    `0 ≤ lag` and `lag + LPC_order + LTP_ORDER/2 < ltp_mem_length`.  Missing: the model reads arrays with a total
    accessor (0 outside), so in-bounds-ness of the individual reads (exc_Q14[rand_ptr+idx], sLTP_Q14[pred_lag_ptr-4..])
    is not part of this statement (it is C18's index model `synth_index_safety` and the ASan tie that cover it). -/
theorem conceal_total_partial (d : Dec) (p0 : Plc) (ho : 10 ≤ d.lpcOrder ∧ d.lpcOrder ≤ 16 ∧ d.lpcOrder % 2 = 0)
    (hlen : p0.prevLPC.length = 16) (hpq : 0 ≤ lagOf p0.pitchLQ8)
    (hidx : lagOf p0.pitchLQ8 + d.lpcOrder + 2 < d.ltpMemLength) : ∃ o, plcConceal d p0 = .ok o :=
  plcConceal_total d p0 ho hlen hpq hidx

example : 0 ≤ lagOf exDec.plc.pitchLQ8 ∧ lagOf exDec.plc.pitchLQ8 + exDec.lpcOrder + 2 < exDec.ltpMemLength := by decide

/-- Observation beyond the property text (unchanged code), root cause in silk_PLC_update (PLC.c:157-165): the "limit LT coefs" scale
    `scale_Q10 = (11469 << 10) / LTP_Gain_Q14` is truncated to int16 by silk_SMULBB, so for the legal LTP codebook
    entry with tap sum 2/128 (`LTP_Gain_Q14 = 256`) the centre tap becomes -4915 instead of 11469; on the next lost
    frame `rand_scale_Q14` is set up as 16384 + 4915 (then x prevLTP_scale) — a concealment excitation gain ABOVE 1.0
    (20234 / 16384 at sub-frame 0; 16480 is still stored after four sub-frames). -/
theorem ltp_limit_counterexample :
    updLtpCoef 256 = [0, 0, -4915, 0, 0] ∧
    (SilkPlcGains.gainSetup 0 true [0, 0, -4915, 0, 0] 0 15565 0).1 = 20234 ∧
    (SilkPlcGains.conceal 0 true 4 [0, 0, -4915, 0, 0] 0 15565 0).2 = 16480 := by decide +kernel


/-! ### the PLC state invariant, for every history -/

/-- The example decoder state is a legal configuration and its PLC state satisfies the invariant. -/
theorem exDec_ok : DecCfg exDec ∧ PlcInv exDec.plc :=
  ⟨⟨by unfold FsOk; decide, by decide, by decide, by decide, by decide, by decide⟩,
   ⟨rfl, by decide, rfl, by decide, by decide, fun _ => by decide⟩⟩

/-- `PlcInv` (OpusProofs/SilkPlcInv.lean: 5 int16 taps, 16 LPC entries, `randScale_Q14 ∈ [0, 32767]`,
    `prevLTP_scale_Q14 ∈ [0, 2^14]`, and once used at a rate: `2 ms ≤ pitchL_Q8 ≤ 18 ms`, two positive `prevGain_Q16`)
    holds for the zeroed structure and after the rate check / silk_PLC_Reset of silk_PLC (PLC.c:61-70, :84-87) at any
    decoder configuration, where it also makes `sPLC.fs_kHz` the decoder's rate. -/
theorem plc_inv_reset : PlcInv plcZero ∧
    ∀ d : Dec, DecCfg d → PlcInv d.plc → PlcInv (plcRateCheck d) ∧ (plcRateCheck d).fsKHz = d.fsKHz :=
  ⟨plcZero_inv, plcRateCheck_inv⟩

example : DecCfg { exDec with plc := plcZero } :=
  ⟨exDec_ok.1.fs, exDec_ok.1.nb, exDec_ok.1.sl, exDec_ok.1.fl, exDec_ok.1.mem, exDec_ok.1.order⟩

/-- silk_PLC, both branches (silk_PLC_update on a received frame, silk_PLC_conceal on a lost one): for every decoder
    configuration of silk_decoder_set_fs, every state satisfying `PlcInv` (at whatever previous rate) and — on received
    frames — every in-range control structure (`CtrlOk`: lags in [2 ms, 18 ms] when voiced, positive gains,
    LTP_scale ∈ [0, 2^14]; ANY int16 LTP taps, so all codebook entries incl. the one behind `ltp_limit_counterexample`),
    the call never aborts (`.abort` / `.oob`) and `PlcInv` holds afterwards at the decoder's rate. -/
theorem plc_inv_frame (d : Dec) (c : Ctrl) (lost : Bool) (hc : DecCfg d) (hk : lost = false → CtrlOk d c)
    (hi : PlcInv d.plc) : ∃ o, silkPLC d c lost = .ok o ∧ PlcInv o.dec.plc ∧ o.dec.plc.fsKHz = d.fsKHz :=
  silkPLC_inv d c lost hc hk hi

example : DecCfg exDec ∧ PlcInv exDec.plc := exDec_ok

/-- `PlcInv` after EVERY history: starting from the zeroed structure, after any sequence of received frames, lost
    frames and decoder resets — each frame at any legal decoder configuration (the rate may change between frames), the
    rest of the decoder state arbitrary, received frames with in-range controls — no call of silk_PLC aborts and the
    invariant holds. -/
theorem plc_inv_history (evs : List PlcEv) (h : ∀ e ∈ evs, EvOk e) :
    ∃ q, plcRun plcZero evs = some q ∧ PlcInv q :=
  plcRun_inv evs plcZero plcZero_inv h

example : ∀ e ∈ [PlcEv.frame exDec exCtrl true, .reset, .frame exDec exCtrl true], EvOk e := by
  intro e he
  simp only [List.mem_cons, List.mem_nil_iff, or_false] at he
  rcases he with rfl | rfl | rfl
  · exact ⟨exDec_ok.1, fun h => by simp at h⟩
  · trivial
  · exact ⟨exDec_ok.1, fun h => by simp at h⟩

/-- C09 "falls well below the pre-loss level under sustained loss", for the concealment excitation gain: from the second
    lost frame of a burst on (`lossCnt ≥ 1`), after n further lost frames — whatever the rest of the decoder state does —
    `32768^n · randScale_Q14 ≤ 29491^n · (its value before)`, i.e. at most 0.9^n of it (29491 = the larger of the
    regenerated `PLC_RAND_ATTENUATE_V/UV_Q15[1]`); the run never aborts and `PlcInv` holds.  (The per-frame bound uses one
    sub-frame only; the harmonic taps are covered qualitatively by `conceal_gain_decreasing`.) -/
theorem conceal_gain_after_n (evs : List PlcEv) (p : Plc) (hi : PlcInv p) (h : ∀ e ∈ evs, BurstEv e) :
    ∃ q, plcRun p evs = some q ∧ PlcInv q ∧ 0 ≤ q.randScale ∧
      (32768 : Int) ^ evs.length * q.randScale ≤ (29491 : Int) ^ evs.length * p.randScale :=
  burst_decay evs p hi h

example : ∀ e ∈ [PlcEv.frame exDec exCtrl true, .frame exDec exCtrl true], BurstEv e := by
  intro e he
  simp only [List.mem_cons, List.mem_nil_iff, or_false] at he
  rcases he with rfl | rfl <;> exact ⟨rfl, exDec_ok.1, by decide⟩


/-! ### silk_CNG -/

/-- "every output sample is an int16", comfort-noise stage: whenever silk_CNG returns (CNG.c:79-188), every sample of
    the frame it hands back is in [-32768, 32767] (`silk_ADD_SAT16` at :180 when noise is added; the int16 input frame
    is untouched otherwise) — for every CNG state and every decoder state.  (Totality of silk_CNG is not proved.) -/
theorem cng_output_int16 (x : CngIn) (c : Cng) (frame f : List Int) (c' : Cng)
    (h : silkCNG x c frame = .ok (f, c')) (hf : ∀ y ∈ frame, -32768 ≤ y ∧ y ≤ 32767) :
    ∀ y ∈ f, -32768 ≤ y ∧ y ≤ 32767 :=
  silkCNG_frame_int16 x c frame f c' h hf

example : (match silkCNG { fsKHz := 8, nbSubfr := 2, subfrLength := 40, lpcOrder := 10, lossCnt := 0, prevSignalType := 1,
                           prevNLSF := [], excQ14 := [], gains := [], randScale := 0, prevGain1 := 65536 }
                         { excBuf := [], smthNLSF := List.replicate 16 0, synthState := List.replicate 16 7, smthGain := 0,
                           randSeed := 1, fsKHz := 8 } [100, -32768, 32767] with
           | .ok (f, c') => decide (f = [100, -32768, 32767] ∧ c'.synthState.take 10 = List.replicate 10 0)
           | _ => false) = true := by decide +kernel


/-! ### checked reads -/

/-- Per-read index bounds of the LTP synthesis loop of silk_PLC_conceal (PLC.c:331-363), on the CHECKED twin
    `ltpLoopC` (OpusModel.SilkPlcConcealChk: every read of `sLTP_Q14` through `pred_lag_ptr` and of `exc_Q14` through
    `rand_ptr` goes through an accessor that answers `.oob` outside the array): at an internal rate, with five taps,
    `pitchL_Q8` within [2, 18] ms (`PlcInv`), at least `ltp_mem_length` = 20 ms of samples in `sLTP_Q14` and
    `rand_ptr + RAND_BUF_SIZE` inside `exc_Q14`, `.oob` is never taken over any number of sub-frames (the drifting lag stays
    ≤ 18 ms < the buffer filled so far), and the checked loop returns exactly what the unchecked model (the one the tie
    compares) returns.  (The whole-function statement `conceal_total` — energy and re-whitening reads included — is not
    closed; their lemmas `energyRowC_ok`, `firRowsC_ok` are in OpusProofs/SilkPlcTotal.lean.) -/
theorem conceal_ltp_reads_in_bounds (rnd : Array Int) (roff : Int) (sl : Nat) (fs harm rg : Int) (hfs : FsOk fs)
    (hr0 : 0 ≤ roff) (hr1 : roff + 128 ≤ rnd.size) (k : Nat) (s : LtpLoop) (hB : s.B.length = 5)
    (hp : 512 * fs ≤ s.pq8 ∧ s.pq8 ≤ 4608 * fs) (hs : 20 * fs ≤ s.buf.size) :
    ltpLoopC rnd roff sl fs harm rg k s = .ok (ltpLoop rnd roff sl fs harm rg k s) :=
  ltpLoopC_ok rnd roff sl fs harm rg hfs hr0 hr1 k s hB hp hs

example : FsOk 8 ∧ (0 : Int) ≤ 32 ∧ (32 : Int) + 128 ≤ (Array.replicate 320 (0 : Int)).size ∧
    ([0, 0, 11469, 0, 0] : List Int).length = 5 ∧ (512 * 8 ≤ (15360 : Int) ∧ (15360 : Int) ≤ 4608 * 8) ∧
    (20 * 8 : Int) ≤ (Array.replicate 160 (0 : Int)).size := by
  refine ⟨Or.inl rfl, by decide, by simp, rfl, by decide, by simp⟩

end OpusProps.C09SilkPlc
