import OpusProofs.OpusFrameHybridRed
import OpusProofs.OpusFrameHybridRedExample2
import OpusProofs.OpusFrameHybridRedMain
import OpusProofs.OpusFrameHybridRedExample3
import OpusProofs.OpusFrameHybridRedCbr
import OpusProofs.OpusFrameHybridRedExample4
/-
  Property C08, slice Hybrid — frame-level lock step for HYBRID Opus frames WITH the redundancy signalling.

  Encoder model (existing, OpusModel/OpusFrameEnc.lean `hybridFrame`; src/opus_encoder.c opus_encode_frame_native):
    ec_enc_init(data+1, max_data_bytes-1); the SILK payload (`packetOps`); if `ec_tell+17+20 <= 8*(max_data_bytes-1)`
    (`gate`, :2239) `ec_enc_bit_logp(redundancy, 12)` and with redundancy `ec_enc_bit_logp(celt_to_silk, 1)`,
    `ec_enc_uint(redundancy_bytes-2, 256)` (:2244-2263); `ec_enc_shrink(nb_compr_bytes = max_data_bytes-1-redundancy_bytes)`
    (:2276-2292); the CELT encoder's calls on the shared coder, `ec_enc_done`; the 5 ms redundancy frame `R` on a coder of its
    own behind the main part (:2306-2320 `celt_to_silk = 1`, :2399-2413 `celt_to_silk = 0`: the ORDER of the two CELT calls does
    not change the bytes, only the CELT state, so both orders are one model); `rangeFinal = enc.rng ^ redundant_rng` (:2421).
  Decoder model (existing, C03): `decodeOpusFrame` (SILK part, then opus_decoder.c:471-499: the same three symbols when
    `ec_tell+17+20 <= 8*len`, `len -= redundancy_bytes`, `dec.storage -= redundancy_bytes`), `decRangeFinal` (`celtFrame` from
    band 17 on the shared coder, `celtFrame` on `data+len` for the redundancy frame, XOR of the two `rng`).

  Contracts on `ec_tell` positions (C02 `redundancy_mirror_hybrid_partial` names the first):
    hgate   `ec_tell_before + 37 <= 8*(ret + redundancy_bytes)` — the decoder's length test sees the WHOLE frame;
            `hybrid_red_gate_cbr` derives it from the encoder's own test when the CELT encoder does not shrink (CBR);
            with VBR (the CELT encoder shrinks the main part) it is a hypothesis;
    hsane   `ec_tell` behind the signalling `<= 8*ret` (else the decoder drops the redundancy, opus_decoder.c:492-497).
-/
namespace OpusProps.C08Hybrid
open Opus Opus.RangeCoder Opus.SilkSyms Opus.SilkSymsEnc Opus.SilkSymsEncProofs Opus.OpusFrameEnc Opus.OpusFrameProofs

/-- The decoder's length test from the encoder's budget test: if the finished main part still has the size
    `S = (max_data_bytes-1) - redundancy_bytes` the frame encoder shrank the coder to (CBR — `celt_encode_with_ec` does not shrink
    further) then `ec_tell+37 <= 8*(max_data_bytes-1)` on the encoder side IS `ec_tell+37 <= 8*len` on the decoder side. -/
theorem hybrid_red_gate_cbr (tellSilk : Int) (maxData S rb : Nat) (hS : S = maxData - 1 - rb) (hrb : rb ≤ maxData - 1)
    (henc : tellSilk + 17 + 20 ≤ 8 * ((maxData - 1 : Nat) : Int)) :
    tellSilk + 17 + 20 ≤ 8 * ((S + rb : Nat) : Int) :=
  Opus.OpusFrameProofs.hybrid_red_gate_cbr tellSilk maxData S rb hS hrb henc

example : (100 : Int) + 17 + 20 ≤ 8 * ((60 + 30 : Nat) : Int) :=
  hybrid_red_gate_cbr 100 91 60 30 (by decide) (by decide) (by decide)

/-- **Hybrid frame WITH redundancy** — for every SILK payload (`pk`), both `celt_to_silk` values, every
    `redundancy_bytes` in 2..257 (`w.bytes.length`), CBR and VBR/shrunk buffers (`celtOps` may contain the CELT encoder's own
    `ec_enc_shrink`; the frame is the final `storage` bytes followed by the redundancy frame).
    Encoder: `hybridFrame … gate=true red=1 c2s celtOps R rr` with the redundancy frame `R = w.bytes`, `rr = fr.fin.rng` produced
    by C17's CELT encoder model on a coder of its own (`OwnCoderFrame`: non-silent, 5 ms `LM = 1`, from band 0).
    Proved, for C03's decoder model applied to the finished frame bytes: it reads back the SILK symbols (`o.evs`), then exactly
    the encoder's `(redundancy = 1, celt_to_silk, redundancy_bytes)`, splits the frame at the same byte (`o.len` = length of
    the main part = the encoder's final `storage`; `dec.storage` reduced to it), hands over to the CELT decoder in lock step
    with the encoder behind the signalling (`rng`, `ec_tell`, error flag), and the redundancy frame decodes as a stand-alone
    CELT frame with the encoder's `redundant_rng` (C17's `celt_frame_roundtrip`).
    `_partial`: the CELT MAIN part is the hypothesis of the last clause (`CeltFrameRT` from the handed-over state ends with the
    encoder's `rng`); with it `decRangeFinal = rangeFinal` (`enc.rng ^ redundant_rng` on both sides).  What is missing to
    discharge it from C17: C17's round trip starts from a decoder initialised on the main part alone; this decoder was
    initialised on main part ++ redundancy frame, may hold up to three look-ahead bytes of the redundancy frame in `val`
    when `storage` is reduced, and keeps those bytes in its buffer behind `storage`.  The concrete frame below shows the
    hypothesis is satisfiable; the tie `rangecoder-hybridred` checks it on every generated real packet.
    Contracts: `hgate` (`ec_tell_before + 37 <= 8*(ret + redundancy_bytes)`, see `hybrid_red_gate_cbr`), `hsane`. -/
theorem opus_frame_lockstep_hybrid_red_partial (buf : List Nat) (maxData bandwidth nCh ms10 spf48 : Nat) (pk : PacketIn)
    (st : SilkSt) (c2s : Nat) (celtOps : List Op) (w : OpusProofs.CeltHdr.World) (ccfg : Opus.CeltSymsEnc.EncCfg)
    (s0 : Opus.CeltSymsEnc.St) (fr : Opus.CeltBandsEnc.EncFrame)
    (hms : ms10 = 100 ∨ ms10 = 200)
    (hs : maxData - 1 ≤ buf.length) (hb : BytesOk buf) (hok : PacketOk (hybridCfg nCh ms10) pk)
    (hc2s : c2s ≤ 1) (hown : OwnCoderFrame w ccfg s0 fr)
    (hcc : ccfg.start = 0 ∧ ccfg.end_ = Opus.CeltSyms.endBandOf bandwidth ∧ ccfg.C = nCh ∧ ccfg.LM = 1)
    (hrb : 2 ≤ w.bytes.length ∧ w.bytes.length ≤ 257)
    (hsuf : LegalRun (encRun (encInit buf (maxData - 1)) (packetOps (hybridCfg nCh ms10) pk ++ redSigOps true true 1 c2s w.bytes.length))
      (Op.shrink (maxData - 1 - w.bytes.length) :: celtOps))
    (hn : (encodeAll buf (maxData - 1) (hybridOps maxData (hybridCfg nCh ms10) pk true 1 c2s w.bytes.length celtOps)).nbitsTotal < 4294967296)
    (herr : (encodeAll buf (maxData - 1) (hybridOps maxData (hybridCfg nCh ms10) pk true 1 c2s w.bytes.length celtOps)).error = 0)
    (hgate : tell (encRun (encInit buf (maxData - 1)) (packetOps (hybridCfg nCh ms10) pk)) + 17 + 20 ≤
        8 * (((encodeAll buf (maxData - 1) (hybridOps maxData (hybridCfg nCh ms10) pk true 1 c2s w.bytes.length celtOps)).storage + w.bytes.length : Nat) : Int))
    (hsane : tell (encRun (encInit buf (maxData - 1)) (packetOps (hybridCfg nCh ms10) pk ++ redSigOps true true 1 c2s w.bytes.length)) ≤
      8 * (((encodeAll buf (maxData - 1) (hybridOps maxData (hybridCfg nCh ms10) pk true 1 c2s w.bytes.length celtOps)).storage : Nat) : Int))
    (hmainpos : 0 < (encodeAll buf (maxData - 1) (hybridOps maxData (hybridCfg nCh ms10) pk true 1 c2s w.bytes.length celtOps)).storage) :
    ∃ o, decodeOpusFrame 1001 bandwidth nCh ms10 false st
        (hybridFrame buf maxData (hybridCfg nCh ms10) pk true 1 c2s celtOps w.bytes fr.fin.rng).payload = .ok o ∧
      o.redundancy = 1 ∧ o.celtToSilk = c2s ∧ o.redundancyBytes = w.bytes.length ∧
      o.len = ((encodeAll buf (maxData - 1) (hybridOps maxData (hybridCfg nCh ms10) pk true 1 c2s w.bytes.length celtOps)).storage : Int) ∧
      o.evs = packetEvs (hybridCfg nCh ms10) pk (fun j =>
        ((encRun (encInit buf (maxData - 1)) (prefixOps (hybridCfg nCh ms10) pk j)).rng,
         tell (encRun (encInit buf (maxData - 1)) (prefixOps (hybridCfg nCh ms10) pk j)))) ∧
      o.dec.error = 0 ∧
      o.dec.rng = (encRun (encInit buf (maxData - 1)) (packetOps (hybridCfg nCh ms10) pk ++ redSigOps true true 1 c2s w.bytes.length)).rng ∧
      tell o.dec = tell (encRun (encInit buf (maxData - 1)) (packetOps (hybridCfg nCh ms10) pk ++ redSigOps true true 1 c2s w.bytes.length)) ∧
      o.dec.storage = (encodeAll buf (maxData - 1) (hybridOps maxData (hybridCfg nCh ms10) pk true 1 c2s w.bytes.length celtOps)).storage ∧
      CeltFrameRT { start := 0, end_ := Opus.CeltSyms.endBandOf bandwidth, C := nCh, LM := 1 } w.bytes.length
        (decInit w.bytes w.bytes.length) fr.fin.rng ∧
      (CeltFrameRT { start := 17, end_ := Opus.CeltSyms.endBandOf bandwidth, C := nCh, LM := Opus.CeltSyms.lmOf spf48 } o.len.toNat o.dec
          (encodeAll buf (maxData - 1) (hybridOps maxData (hybridCfg nCh ms10) pk true 1 c2s w.bytes.length celtOps)).rng →
        decRangeFinal 1001 bandwidth nCh spf48 (hybridFrame buf maxData (hybridCfg nCh ms10) pk true 1 c2s celtOps w.bytes fr.fin.rng).payload o =
          .ok (hybridFrame buf maxData (hybridCfg nCh ms10) pk true 1 c2s celtOps w.bytes fr.fin.rng).rangeFinal) :=
  opus_frame_lockstep_hybrid_red_partial_all buf maxData bandwidth nCh ms10 spf48 pk st c2s celtOps w ccfg s0 fr hms hs hb hok hc2s
    hown hcc hrb hsuf hn herr hgate hsane hmainpos

open Opus.OpusFrameProofs.Example in
/-- An SWB mono 10 ms hybrid frame of 90 bytes (budget 91): WB SILK part, redundancy flag 1, `celt_to_silk = 1`,
    `redundancy_bytes = 30`, `ec_enc_shrink(60)`, CELT bands 17-18 from C17's encoder model on the shared coder (`allHR`), and
    a 30-byte SWB redundancy frame of 105 coder calls from C17's encoder model (`worldR19`, final range 727052288): every
    hypothesis of the theorem holds (`PacketOk`: `hybOk`), and on the finished frame the decoder model answers
    `(1, 1, 30)`, `len = 60`, and the CELT main part from the handed-over state ends with the encoder's `rng` — the hypothesis
    of the last clause.  (All kernel-evaluated in OpusProofs/OpusFrameHybridRedExample*.lean.) -/
example : (∃ fr, OwnCoderFrame worldR19 cfgR19 s0R19 fr ∧ fr.fin.rng = 727052288 ∧ fr.ops.length = 105 ∧ tell fr.fin = 240) ∧
    (cfgR19.start = 0 ∧ cfgR19.end_ = Opus.CeltSyms.endBandOf 1104 ∧ cfgR19.C = 1 ∧ cfgR19.LM = 1) ∧
    worldR19.bytes.length = 30 ∧ PacketOk (hybridCfg 1 100) hybPacket ∧
    (LegalRun (encRun (encInit bufHR (91 - 1)) (packetOps (hybridCfg 1 100) hybPacket ++ redSigOps true true 1 1 30))
      (Op.shrink (91 - 1 - 30) :: allHR) ∧
    (encodeAll bufHR (91 - 1) (hybridOps 91 (hybridCfg 1 100) hybPacket true 1 1 30 allHR)).nbitsTotal < 4294967296 ∧
    (encodeAll bufHR (91 - 1) (hybridOps 91 (hybridCfg 1 100) hybPacket true 1 1 30 allHR)).error = 0 ∧
    (encodeAll bufHR (91 - 1) (hybridOps 91 (hybridCfg 1 100) hybPacket true 1 1 30 allHR)).storage = 60 ∧
    tell (encRun (encInit bufHR (91 - 1)) (packetOps (hybridCfg 1 100) hybPacket)) + 17 + 20 ≤ 8 * ((60 + 30 : Nat) : Int) ∧
    tell (encRun (encInit bufHR (91 - 1)) (packetOps (hybridCfg 1 100) hybPacket ++ redSigOps true true 1 1 30)) ≤ 8 * ((60 : Nat) : Int)) ∧
    (match decodeOpusFrame 1001 1104 1 100 false {}
        (hybridFrame bufHR 91 (hybridCfg 1 100) hybPacket true 1 1 allHR worldR19.bytes 727052288).payload with
     | .ok o =>
       (match Opus.CeltBands.celtFrame { start := 17, end_ := 19, C := 1, LM := 2 } o.len.toNat o.dec with
        | .ok cf => decide (o.redundancy = 1 ∧ o.celtToSilk = 1 ∧ o.redundancyBytes = 30 ∧ o.len = 60 ∧
            cf.fin.c.rng = (encodeAll bufHR (91 - 1) (hybridOps 91 (hybridCfg 1 100) hybPacket true 1 1 30 allHR)).rng)
        | _ => false)
     | _ => false) = true :=
  ⟨ownR19, by decide, hybRedLen, hybOk, hybRedHyps, hybRedDec⟩

/-- **Hybrid frame WITH redundancy, CBR — the length contracts proved from the model.**  `opus_frame_lockstep_hybrid_red_partial`
    with `hgate` and `hsane` replaced by what the ENCODER computes: its budget test `ec_tell+17+20 <= 8*(max_data_bytes-1)` (`henc`,
    opus_encoder.c:2239), its bound `redundancy_bytes <= max_redundancy = (max_data_bytes-1)-((ec_tell+8+3+7)>>3)` with `ec_tell` read
    behind the `celt_to_silk` bit (`hmax`, :2246-2256, the `IMIN` not overridden by `IMAX(2, ·)`), and `hcbr`: the finished main part
    has the size `nb_compr_bytes = (max_data_bytes-1)-redundancy_bytes` it was shrunk to (the CELT encoder does not shrink further —
    CBR).  The decoder's `ec_tell+37 <= 8*len` then follows (`hybrid_red_gate_cbr`), and so does `ec_tell <= 8*len` behind the
    signalling: `ec_enc_uint(·,256)` costs at most 8 bits (C08 `tell_contracts`) and `max_redundancy` reserved them
    (`hybrid_red_sane_cbr`).  Still `_partial` for the CELT main part only (last clause, as above). -/
theorem opus_frame_lockstep_hybrid_red_cbr_partial (buf : List Nat) (maxData bandwidth nCh ms10 spf48 : Nat) (pk : PacketIn)
    (st : SilkSt) (c2s : Nat) (celtOps : List Op) (w : OpusProofs.CeltHdr.World) (ccfg : Opus.CeltSymsEnc.EncCfg)
    (s0 : Opus.CeltSymsEnc.St) (fr : Opus.CeltBandsEnc.EncFrame)
    (hms : ms10 = 100 ∨ ms10 = 200)
    (hs : maxData - 1 ≤ buf.length) (hb : BytesOk buf) (hok : PacketOk (hybridCfg nCh ms10) pk)
    (hc2s : c2s ≤ 1) (hown : OwnCoderFrame w ccfg s0 fr)
    (hcc : ccfg.start = 0 ∧ ccfg.end_ = Opus.CeltSyms.endBandOf bandwidth ∧ ccfg.C = nCh ∧ ccfg.LM = 1)
    (hrb : 2 ≤ w.bytes.length ∧ w.bytes.length ≤ 257)
    (hsuf : LegalRun (encRun (encInit buf (maxData - 1)) (packetOps (hybridCfg nCh ms10) pk ++ redSigOps true true 1 c2s w.bytes.length))
      (Op.shrink (maxData - 1 - w.bytes.length) :: celtOps))
    (hn : (encodeAll buf (maxData - 1) (hybridOps maxData (hybridCfg nCh ms10) pk true 1 c2s w.bytes.length celtOps)).nbitsTotal < 4294967296)
    (herr : (encodeAll buf (maxData - 1) (hybridOps maxData (hybridCfg nCh ms10) pk true 1 c2s w.bytes.length celtOps)).error = 0)
    (hcbr : (encodeAll buf (maxData - 1) (hybridOps maxData (hybridCfg nCh ms10) pk true 1 c2s w.bytes.length celtOps)).storage =
      maxData - 1 - w.bytes.length)
    (henc : tell (encRun (encInit buf (maxData - 1)) (packetOps (hybridCfg nCh ms10) pk)) + 17 + 20 ≤ 8 * ((maxData - 1 : Nat) : Int))
    (hmax : (w.bytes.length : Int) ≤ ((maxData - 1 : Nat) : Int) -
      (tell (encRun (encInit buf (maxData - 1)) (packetOps (hybridCfg nCh ms10) pk ++ [Op.bitLogp 1 12, Op.bitLogp c2s 1])) + 8 + 3 + 7) / 8)
    (hmainpos : 0 < (encodeAll buf (maxData - 1) (hybridOps maxData (hybridCfg nCh ms10) pk true 1 c2s w.bytes.length celtOps)).storage) :
    ∃ o, decodeOpusFrame 1001 bandwidth nCh ms10 false st
        (hybridFrame buf maxData (hybridCfg nCh ms10) pk true 1 c2s celtOps w.bytes fr.fin.rng).payload = .ok o ∧
      o.redundancy = 1 ∧ o.celtToSilk = c2s ∧ o.redundancyBytes = w.bytes.length ∧
      o.len = ((maxData - 1 - w.bytes.length : Nat) : Int) ∧
      o.dec.error = 0 ∧
      o.dec.rng = (encRun (encInit buf (maxData - 1)) (packetOps (hybridCfg nCh ms10) pk ++ redSigOps true true 1 c2s w.bytes.length)).rng ∧
      tell o.dec = tell (encRun (encInit buf (maxData - 1)) (packetOps (hybridCfg nCh ms10) pk ++ redSigOps true true 1 c2s w.bytes.length)) ∧
      o.dec.storage = maxData - 1 - w.bytes.length ∧
      (CeltFrameRT { start := 17, end_ := Opus.CeltSyms.endBandOf bandwidth, C := nCh, LM := Opus.CeltSyms.lmOf spf48 } o.len.toNat o.dec
          (encodeAll buf (maxData - 1) (hybridOps maxData (hybridCfg nCh ms10) pk true 1 c2s w.bytes.length celtOps)).rng →
        decRangeFinal 1001 bandwidth nCh spf48 (hybridFrame buf maxData (hybridCfg nCh ms10) pk true 1 c2s celtOps w.bytes fr.fin.rng).payload o =
          .ok (hybridFrame buf maxData (hybridCfg nCh ms10) pk true 1 c2s celtOps w.bytes fr.fin.rng).rangeFinal) :=
  opus_frame_lockstep_hybrid_red_cbr_partial_all buf maxData bandwidth nCh ms10 spf48 pk st c2s celtOps w ccfg s0 fr hms hs hb hok hc2s
    hown hcc hrb hsuf hn herr hcbr henc hmax hmainpos

open Opus.OpusFrameProofs.Example in
/-- the 90-byte example frame above is CBR: its main part has `91-1-30 = 60` bytes, the encoder's budget test passed and
    `30 <= max_redundancy` (the other hypotheses: the example of `opus_frame_lockstep_hybrid_red_partial`) -/
example : (encodeAll bufHR (91 - 1) (hybridOps 91 (hybridCfg 1 100) hybPacket true 1 1 30 allHR)).storage = 91 - 1 - 30 ∧
    tell (encRun (encInit bufHR (91 - 1)) (packetOps (hybridCfg 1 100) hybPacket)) + 17 + 20 ≤ 8 * ((91 - 1 : Nat) : Int) ∧
    ((30 : Nat) : Int) ≤ ((91 - 1 : Nat) : Int) -
      (tell (encRun (encInit bufHR (91 - 1)) (packetOps (hybridCfg 1 100) hybPacket ++ [Op.bitLogp 1 12, Op.bitLogp 1 1])) + 8 + 3 + 7) / 8 :=
  hybRedCbrHyps

/-- The decoder's sanity test `len*8 >= ec_tell` behind the signalling (opus_decoder.c:492-497) from the encoder's own
    computation `redundancy_bytes <= max_redundancy = (max_data_bytes-1)-((ec_tell+8+3+7)>>3)` (opus_encoder.c:2246-2256; `ec_tell`
    read behind the `celt_to_silk` bit) when `IMAX(2, ·)` does not override it, the `ec_enc_uint(·,256)` costs at most 8 bits
    (`h8`) and the main part keeps the size `(max_data_bytes-1) - redundancy_bytes` (CBR): the contract `hsane`. -/
theorem hybrid_red_sane_cbr (tellC2s tellSig : Int) (maxData S rb : Nat) (hS : S = maxData - 1 - rb) (ht : 0 ≤ tellC2s)
    (h8 : tellSig ≤ tellC2s + 8)
    (hmax : (rb : Int) ≤ ((maxData - 1 : Nat) : Int) - (tellC2s + 8 + 3 + 7) / 8) :
    tellSig ≤ 8 * ((S : Nat) : Int) :=
  Opus.OpusFrameProofs.hybrid_red_sane_cbr tellC2s tellSig maxData S rb hS ht h8 hmax

example : (210 : Int) ≤ 8 * ((60 : Nat) : Int) :=
  hybrid_red_sane_cbr 202 210 91 60 30 (by decide) (by decide) (by decide) (by decide)

open OpusProofs.CeltHdr in
/-- **The main part of a hybrid frame with redundancy decodes on its own, CELT part included** (no CELT hypothesis, any
    signalling `gate / red / c2s`, any `redundancy_bytes = R.length`, CBR and VBR).  The frame `hybridFrame …` is `w.bytes ++ R`
    where `w.bytes` — the first `w.len` = final `storage` bytes, i.e. exactly what the decoder keeps after
    `len -= redundancy_bytes` — is the packet of a C17 `World`: the legal (patch-free) run `hybridP0G ++ fr.ops` that produces the
    same bytes and `rng` as the patched main coder (`patched_equals_true_bits`).  A decoder initialised on those bytes reads
    back `hybridP0G` (SILK flag bits and body, then `ec_dec_bit_logp(12) = red`, `celt_to_silk`, `ec_dec_uint(256) = R.length-2`),
    and C03's `celtFrame` from there returns the encoder's header (`FrameAgree`: header fields, allocation, every coded value of
    the trace) and ends with the encoder's final `rng`; at the hand-over (`w.decAt hybridP0G` = the state after those reads) its `rng`,
    `ec_tell` and `storage` are the values `opus_frame_lockstep_hybrid_red_partial` proves for `o.dec`.  With that theorem (same `rng`, `ec_tell`,
    `storage`, error flag at the hand-over on the WHOLE frame) what remains open for the `_partial` hypothesis is only that the
    two decoder runs — initialised on `w.bytes` resp. on `w.bytes ++ R` with `storage` reduced afterwards — continue alike. -/
theorem hybrid_red_main_part_roundtrip (buf : List Nat) (maxData nCh ms10 : Nat) (pk : PacketIn) (gate : Bool)
    (red c2s : Nat) (R : Bytes) (rr : Nat)
    (ccfg : Opus.CeltSymsEnc.EncCfg) (s0 : Opus.CeltSymsEnc.St) (fr : Opus.CeltBandsEnc.EncFrame)
    (hs : maxData - 1 ≤ buf.length) (hb : BytesOk buf) (hok : PacketOk (hybridCfg nCh ms10) pk)
    (hrb : red ≠ 0 → 2 ≤ R.length ∧ R.length ≤ 257)
    (hsuf : LegalRun (encRun (encInit buf (maxData - 1)) (packetOps (hybridCfg nCh ms10) pk ++ redSigOps true gate red c2s R.length))
      (Op.shrink (maxData - 1 - R.length) :: fr.ops))
    (hn29 : (encodeAll buf (maxData - 1) (hybridOps maxData (hybridCfg nCh ms10) pk gate red c2s R.length fr.ops)).nbitsTotal < 536870912)
    (herr : (encodeAll buf (maxData - 1) (hybridOps maxData (hybridCfg nCh ms10) pk gate red c2s R.length fr.ops)).error = 0)
    (hcelt : HybridCeltG buf maxData (hybridCfg nCh ms10) pk gate red c2s R.length ccfg s0 fr) :
    ∃ (w : World) (dh : Opus.CeltSyms.CeltHdr) (sA : Opus.CeltBands.BSt),
      w.buf = buf ∧ w.size = maxData - 1 ∧
      w.all = hybridP0G maxData (hybridCfg nCh ms10) pk gate red c2s R.length ++ fr.ops ∧
      w.len = (encodeAll buf (maxData - 1) (hybridOps maxData (hybridCfg nCh ms10) pk gate red c2s R.length fr.ops)).storage ∧
      (hybridFrame buf maxData (hybridCfg nCh ms10) pk gate red c2s fr.ops R rr).payload = w.bytes ++ R ∧
      w.bytes.length = w.len ∧
      Reads (decInit w.bytes w.len) (hybridP0G maxData (hybridCfg nCh ms10) pk gate red c2s R.length) ∧
      (w.decAt (hybridP0G maxData (hybridCfg nCh ms10) pk gate red c2s R.length)).rng =
        (encRun (encInit buf (maxData - 1)) (packetOps (hybridCfg nCh ms10) pk ++ redSigOps true gate red c2s R.length)).rng ∧
      tell (w.decAt (hybridP0G maxData (hybridCfg nCh ms10) pk gate red c2s R.length)) =
        tell (encRun (encInit buf (maxData - 1)) (packetOps (hybridCfg nCh ms10) pk ++ redSigOps true gate red c2s R.length)) ∧
      (w.decAt (hybridP0G maxData (hybridCfg nCh ms10) pk gate red c2s R.length)).storage = w.len ∧
      FrameAgree w (hybridP0G maxData (hybridCfg nCh ms10) pk gate red c2s R.length) ccfg fr dh ∧
      Opus.CeltBands.celtFrame (cfgD ccfg) w.len
          (decRun (decInit w.bytes w.len) (hybridP0G maxData (hybridCfg nCh ms10) pk gate red c2s R.length)).2 =
        .ok { hdr := dh, alloc := fr.hdr.alloc, allocSt := sA,
              fin := Opus.CeltBands.afterAlloc (cfgD ccfg) w.len dh fr.hdr.alloc
                { rem := 0, c := w.decAt (hybridP0G maxData (hybridCfg nCh ms10) pk gate red c2s R.length ++ fr.hdr.ops),
                  tr := [], fault := false } } ∧
      (Opus.CeltBands.afterAlloc (cfgD ccfg) w.len dh fr.hdr.alloc
          { rem := 0, c := w.decAt (hybridP0G maxData (hybridCfg nCh ms10) pk gate red c2s R.length ++ fr.hdr.ops),
            tr := [], fault := false }).c.rng =
        (encodeAll buf (maxData - 1) (hybridOps maxData (hybridCfg nCh ms10) pk gate red c2s R.length fr.ops)).rng :=
  hybrid_main_part_roundtrip_all buf maxData nCh ms10 pk gate red c2s R rr ccfg s0 fr hs hb hok hrb hsuf hn29 herr hcelt

open Opus.OpusFrameProofs.Example in
/-- the 90-byte example frame (`redundancy = 1`, `celt_to_silk = 1`, `redundancy_bytes = 30`): C17's encoder model started
    behind `hybridP0G` codes 31 calls for bands 17-18; every hypothesis (`HybridCeltG` bundles C17's) holds -/
example : ∃ fr, Opus.CeltBandsEnc.encFrame cfgH s0HG = .ok fr ∧ fr.ops.length = 31 ∧
    LegalRun (encRun (encInit bufHR (91 - 1)) (packetOps (hybridCfg 1 100) hybPacket ++ redSigOps true true 1 1 30))
      (Op.shrink (91 - 1 - 30) :: fr.ops) ∧
    (encodeAll bufHR (91 - 1) (hybridOps 91 (hybridCfg 1 100) hybPacket true 1 1 30 fr.ops)).nbitsTotal < 536870912 ∧
    (encodeAll bufHR (91 - 1) (hybridOps 91 (hybridCfg 1 100) hybPacket true 1 1 30 fr.ops)).error = 0 ∧
    HybridCeltG bufHR 91 (hybridCfg 1 100) hybPacket true 1 1 30 cfgH s0HG fr := caseHybridRedMain

/-- **Hybrid frame with the redundancy flag written as 0**: the encoder's budget test passed and it coded
    `ec_enc_bit_logp(0, 12)` (first clause: that is all of the signalling); the decoder model reads `redundancy = 0`, does NOT
    split (`o.len` and `dec.storage` are the whole frame, `redundancy_bytes = 0`), returns the SILK symbols, and — CELT part by
    C17's round trip with the prefix `hybridP0`, no CELT hypothesis left (`HybridCelt` bundles C17's hypotheses as in
    C08 `opus_frame_lockstep_hybrid_celt`) — ends with the encoder's `rangeFinal`. -/
theorem opus_frame_lockstep_hybrid_nored_flag (buf : List Nat) (maxData bandwidth nCh ms10 spf48 : Nat) (pk : PacketIn)
    (st : SilkSt) (ccfg : Opus.CeltSymsEnc.EncCfg) (s0 : Opus.CeltSymsEnc.St) (fr : Opus.CeltBandsEnc.EncFrame)
    (hms : ms10 = 100 ∨ ms10 = 200)
    (hs : maxData - 1 ≤ buf.length) (hb : BytesOk buf) (hok : PacketOk (hybridCfg nCh ms10) pk)
    (hsuf : LegalRun (encRun (encInit buf (maxData - 1)) (packetOps (hybridCfg nCh ms10) pk ++ redSigOps true true 0 0 0))
      (Op.shrink (maxData - 1 - 0) :: fr.ops))
    (hn29 : (encodeAll buf (maxData - 1) (hybridOps maxData (hybridCfg nCh ms10) pk true 0 0 0 fr.ops)).nbitsTotal < 536870912)
    (herr : (encodeAll buf (maxData - 1) (hybridOps maxData (hybridCfg nCh ms10) pk true 0 0 0 fr.ops)).error = 0)
    (hgate : tell (encRun (encInit buf (maxData - 1)) (packetOps (hybridCfg nCh ms10) pk)) + 17 + 20 ≤
        8 * (((encodeAll buf (maxData - 1) (hybridOps maxData (hybridCfg nCh ms10) pk true 0 0 0 fr.ops)).storage : Nat) : Int))
    (hsane : tell (encRun (encInit buf (maxData - 1)) (packetOps (hybridCfg nCh ms10) pk ++ redSigOps true true 0 0 0)) ≤
      8 * (((encodeAll buf (maxData - 1) (hybridOps maxData (hybridCfg nCh ms10) pk true 0 0 0 fr.ops)).storage : Nat) : Int))
    (hmainpos : 0 < (encodeAll buf (maxData - 1) (hybridOps maxData (hybridCfg nCh ms10) pk true 0 0 0 fr.ops)).storage)
    (hcelt : HybridCelt buf maxData (hybridCfg nCh ms10) pk true ccfg s0 fr)
    (hcc : ccfg.start = 17 ∧ ccfg.end_ = Opus.CeltSyms.endBandOf bandwidth ∧ ccfg.C = nCh ∧ ccfg.LM = Opus.CeltSyms.lmOf spf48) :
    redSigOps true true 0 0 0 = [Op.bitLogp 0 12] ∧
    ∃ o, decodeOpusFrame 1001 bandwidth nCh ms10 false st
        (hybridFrame buf maxData (hybridCfg nCh ms10) pk true 0 0 fr.ops [] 0).payload = .ok o ∧
      o.redundancy = 0 ∧ o.celtToSilk = 0 ∧ o.redundancyBytes = 0 ∧
      o.len = ((encodeAll buf (maxData - 1) (hybridOps maxData (hybridCfg nCh ms10) pk true 0 0 0 fr.ops)).storage : Int) ∧
      o.dec.storage = (encodeAll buf (maxData - 1) (hybridOps maxData (hybridCfg nCh ms10) pk true 0 0 0 fr.ops)).storage ∧
      o.evs = packetEvs (hybridCfg nCh ms10) pk (fun j =>
        ((encRun (encInit buf (maxData - 1)) (prefixOps (hybridCfg nCh ms10) pk j)).rng,
         tell (encRun (encInit buf (maxData - 1)) (prefixOps (hybridCfg nCh ms10) pk j)))) ∧
      decRangeFinal 1001 bandwidth nCh spf48 (hybridFrame buf maxData (hybridCfg nCh ms10) pk true 0 0 fr.ops [] 0).payload o =
        .ok (hybridFrame buf maxData (hybridCfg nCh ms10) pk true 0 0 fr.ops [] 0).rangeFinal :=
  opus_frame_lockstep_hybrid_nored_flag_all buf maxData bandwidth nCh ms10 spf48 pk st ccfg s0 fr hms hs hb hok hsuf hn29 herr hgate
    hsane hmainpos hcelt hcc

open Opus.OpusFrameProofs.Example in
/-- C08's 60-byte SWB hybrid example frame (`caseHybrid`: all hypotheses of `opus_frame_lockstep_hybrid_celt` with
    `gate = true`) is a case: the two length contracts hold, and the decoder model on the finished frame answers
    `redundancy = 0`, `redundancy_bytes = 0`, `len = dec.storage = 60`. -/
example : (∃ fr, Opus.CeltBandsEnc.encFrame cfgH s0H = .ok fr ∧ fr.ops.length = 33 ∧
      OpusFrameCase 1104 1 100 480 1001 (hybridFrame bufH 61 (hybridCfg 1 100) hybPacket true 0 0 fr.ops [] 0)) ∧
    (tell (encRun (encInit bufH (61 - 1)) (packetOps (hybridCfg 1 100) hybPacket)) + 17 + 20 ≤ 8 * ((60 : Nat) : Int) ∧
    tell (encRun (encInit bufH (61 - 1)) (packetOps (hybridCfg 1 100) hybPacket ++ redSigOps true true 0 0 0)) ≤ 8 * ((60 : Nat) : Int) ∧
    (encodeAll bufH (61 - 1) (hybridOps 61 (hybridCfg 1 100) hybPacket true 0 0 0 allH)).storage = 60 ∧
    (match decodeOpusFrame 1001 1104 1 100 false {} (hybridFrame bufH 61 (hybridCfg 1 100) hybPacket true 0 0 allH [] 0).payload with
     | .ok o => decide (o.redundancy = 0 ∧ o.redundancyBytes = 0 ∧ o.len = 60 ∧ o.dec.storage = 60)
     | _ => false) = true) :=
  ⟨caseHybrid, hybNoRedHyps⟩

end OpusProps.C08Hybrid
