import OpusProofs.SilkApi
import OpusProofs.SilkApiStereo
import OpusProofs.SilkApiOut
import OpusProofs.SilkApiWhole
import OpusProofs.SilkApiAccs2
/-!
  C01 (decoding is total and memory-safe) — extension slice `SilkApi`: the control layer of the SILK decoder
  (silk/dec_API.c, silk/decoder_set_fs.c, silk/stereo_MS_to_LR.c) inside the model.  Model: OpusModel/SilkApi.lean,
  invariant / argument set / oracle contracts: OpusModel/SilkApiSpec.lean.
-/
namespace OpusProps.C01SilkApi
open Opus.SilkApi

/-- State invariant, base case: after silk_InitDecoder / silk_ResetDecoder (any prior contents) the invariant holds. -/
theorem initDecoder_inv (api : Int) (d : Dec) : Inv api (initDecoder d) := Or.inl ⟨rfl, rfl⟩

example : Inv 48000 (initDecoder { nChannelsInternal := 2, ch0 := { fs_kHz := 16, frame_length := 320 } }) := initDecoder_inv _ _

/-- silk_decoder_set_fs: for fs_kHz in {8,12,16}, a legal API rate, nb_subfr in {2,4} and a channel that is fresh or was
    configured before (for any sub-frame count), the call returns 0 and leaves the channel configured for (fs_kHz, nb_subfr):
    frame_length = nb_subfr*5*fs_kHz, ltp_mem_length = 20*fs_kHz, LPC_order / table tags matching the rate, resampler
    configured fs_kHz -> API rate; the packet counters are untouched. -/
theorem setFs_establishes_cfg {api k : Int} {c : Chan} (hk : k = 8 ∨ k = 12 ∨ k = 16) (ha : ApiOk api)
    (hnb : c.nb_subfr = 2 ∨ c.nb_subfr = 4) (hc : PreOk api c) :
    Cfg api (setFs c k api).1 c.nb_subfr ∧ (setFs c k api).2 = 0 ∧ (setFs c k api).1.fs_kHz = k ∧
    (setFs c k api).1.subfr_length = 5 * k ∧ (setFs c k api).1.nb_subfr = c.nb_subfr ∧
    (setFs c k api).1.nFramesPerPacket = c.nFramesPerPacket ∧ (setFs c k api).1.nFramesDecoded = c.nFramesDecoded :=
  setFs_ok hk ha hnb hc

example : PreOk 48000 { freshChan with nb_subfr := 4 } ∧ (setFs { freshChan with nb_subfr := 4 } 16 48000).1.frame_length = 320 :=
  ⟨Or.inl ⟨rfl, rfl, rfl⟩, by decide⟩

/-- silk_Decode :179-:209 (per-channel configuration), error exits unreachable: for payloadSize_ms in {0,10,20,40,60},
    internalSampleRate in {8000,12000,16000} and a legal API rate, on a channel that is fresh or configured, the loop body
    reaches neither SILK_DEC_INVALID_FRAME_SIZE (:200) nor SILK_DEC_INVALID_SAMPLING_FREQUENCY (:206), silk_decoder_set_fs
    returns 0 with all its celt_asserts (:43, :44, :104) satisfied, and the channel is left with
    fs_kHz = (internalSampleRate>>10)+1 in {8,12,16}, (nFramesPerPacket, nb_subfr) as selected by payloadSize_ms,
    frame_length = nb_subfr*5*fs_kHz in (0, 320], ltp_mem_length = 20*fs_kHz, LPC_order in {10,16}, matching table tags and
    resampler rates, nFramesDecoded untouched. -/
theorem cfgChan_configures {api : Int} {a : Args} {c : Chan} (ha : ApiOk api) (hapi : a.API_sampleRate = api)
    (hp : a.payloadSize_ms = 0 ∨ a.payloadSize_ms = 10 ∨ a.payloadSize_ms = 20 ∨ a.payloadSize_ms = 40 ∨ a.payloadSize_ms = 60)
    (hr : a.internalSampleRate = 8000 ∨ a.internalSampleRate = 12000 ∨ a.internalSampleRate = 16000)
    (hc : PreOk api c) : ∃ c', cfgChan c a = .inr (c', 0, true) ∧ Cfgd api a c c' :=
  cfgChan_ok ha hapi hp hr hc

example : ∃ c', cfgChan freshChan (⟨2, 2, 48000, 16000, 60, 0, 1⟩ : Args) = .inr (c', 0, true) ∧ c'.frame_length = 320 ∧ c'.nFramesPerPacket = 3 :=
  ⟨_, rfl, by decide, by decide⟩

/-- nSamplesOut (:373) of a configured channel at a legal API rate: the divisor silk_SMULBB(fs_kHz,1000) is not zero, the
    product nSamplesOutDec*API_sampleRate does not wrap, and the quotient frame_length*Fs_API/(fs_kHz*1000) equals
    nb_subfr * 5 ms at the API rate (C01's contract: silk_frame_size = nb_subfr*5 ms*Fs_API), in (0, 960]. -/
theorem nSamplesOut_is_duration {api : Int} {c : Chan} (ha : ApiOk api) (hc : ChanOk api c) :
    smulbb c.fs_kHz 1000 ≠ 0 ∧ wrap32 (c.frame_length * api) = c.frame_length * api ∧
    wrap32 (c.frame_length * api) / smulbb c.fs_kHz 1000 = c.nb_subfr * (api / 200) ∧
    0 < c.nb_subfr * (api / 200) ∧ c.nb_subfr * (api / 200) ≤ 960 :=
  nSamplesOut_ok ha hc

/-- Every index into samplesOut1_tmp of a configured channel is in bounds: with frame_length = nb_subfr*5*fs_kHz and the
    buffer of nChannelsInternal*(frame_length+2) elements (:313), the silk_decode_frame output / memset extent (+2), the
    resampler input extent (+1), the two 2-sample history copies (:368-:369) and, in stereo, both extents
    [0, max(frame_length, 8 fs_kHz)+2) of silk_stereo_MS_to_LR lie inside it; the resampler's 1 ms precondition
    (resampler.c:184, inLen >= Fs_in_kHz) holds. -/
theorem tmp_extents_in_bounds {api : Int} {c : Chan} (hc : ChanOk api c) (nCh : Int) (hn : nCh = 1 ∨ nCh = 2) :
    let fl := c.frame_length
    let cap := nCh * (fl + 2)
    (∀ n, 0 ≤ n → n < nCh →
       Acc.InBounds { buf := "tmp", lo := n * (fl + 2) + 2, n := fl, cap := cap } ∧
       Acc.InBounds { buf := "tmp", lo := n * (fl + 2) + 1, n := fl, cap := cap } ∧
       Acc.InBounds { buf := "resampler-1ms", lo := 0, n := c.rsIn, cap := fl }) ∧
    Acc.InBounds { buf := "tmp", lo := 0, n := 2, cap := cap } ∧ Acc.InBounds { buf := "tmp", lo := fl, n := 2, cap := cap } ∧
    (nCh = 2 → ∀ a ∈ msAccs fl c.fs_kHz fl cap, a.InBounds) :=
  tmp_extents_ok hc nCh hn

example : ChanOk 48000 { fs_kHz := 16, fs_API_hz := 48000, nb_subfr := 4, frame_length := 320, subfr_length := 80, ltp_mem_length := 320, LPC_order := 16, lagLowBits := 8, pitchContour := 3, nlsfCb := 2, nFramesDecoded := 1, nFramesPerPacket := 1, rsIn := 16, rsOut := 48 } := by
  simp [ChanOk, Cfg]

/-- silk_stereo_MS_to_LR: the buffers keep their length and every element 1..frame_length of both outputs is an int16
    (for any state, predictors, rate and input values — the final silk_SAT16 of :82-:83). -/
theorem msToLR_outputs_int16 (st : Stereo) (x1 x2 : List Int) (p0 p1 fs N : Int) :
    (msToLR st x1 x2 p0 p1 fs N).x1.length = x1.length ∧ (msToLR st x1 x2 p0 p1 fs N).x2.length = x2.length ∧
    ∀ k : Nat, 1 ≤ k → k ≤ N.toNat → ∀ v, ((msToLR st x1 x2 p0 p1 fs N).x1[k]? = some v ∨ (msToLR st x1 x2 p0 p1 fs N).x2[k]? = some v) → In16 v :=
  ⟨(msToLR_length ..).1, (msToLR_length ..).2, fun k h1 h2 v h => h.elim (msToLR_x1_in16 _ _ _ _ _ _ _ k h1 h2 v) (msToLR_x2_in16 _ _ _ _ _ _ _ k h1 h2 v)⟩

example : (msToLR {} [0, 0, 30000, 30000, 0, 0] [0, 0, 30000, -30000, 0, 0] 0 0 0 2).x1 = [0, 0, 32767, 30000, 0, 0] := by decide

/-- C01's silk_Decode oracle contract as a theorem (lean/OpusModel/DecSkel/Spec.lean `OracleOk.silk`: for `SilkArgsOk a`,
    silk_ret = 0 and *nSamplesOut = silkSamples a = 10 or 20 ms at the API rate; `EvOk (.silk a p ret n)`: exactly
    n*nChannelsAPI samples at p).  For every decoder state satisfying the invariant (with nChannelsInternal <= 2), every
    argument tuple in `ArgsOk` (= DecSkel's SilkArgsOk, plus payloadSize_ms = 0, the constant API rate and the packet
    protocol of opus_decode_frame) and oracles (silk_decode_frame, silk_resampler) within their contracts, silk_Decode
    reaches no celt_assert of the modelled code (ok), takes no error exit (err = none: SILK_DEC_INVALID_FRAME_SIZE and
    SILK_DEC_INVALID_SAMPLING_FREQUENCY are unreachable), returns 0 [discharges `(o.silk k a).1 = 0`], sets
    nSamplesOut = nb_subfr * 5 ms * Fs_API with nb_subfr in {2,4} of the configuration in force [discharges
    `(o.silk k a).2.1 = silkSamples a`: nb_subfr = 2 exactly for the 10 ms payload of the packet, cfgChan_configures],
    writes a samplesOut of exactly nSamplesOut*nChannelsAPI samples [the extent in EvOk], and preserves the invariant.
    Not discharged: the third field (ec_tell >= 1 after a non-lost call), which belongs to the range decoder. -/
theorem silkDecode_contract {api : Int} {d : Dec} {a : Args} {o : Orc} (hI : Inv api d) (hN : d.nChannelsInternal ≤ 2)
    (hA : ArgsOk api d a) (hO : CallOrcOk api d a o) :
    (silkDecode d a o).ok = true ∧ (silkDecode d a o).err = none ∧ (silkDecode d a o).ret = 0 ∧
    (silkDecode d a o).nSamplesOut = (silkDecode d a o).d.ch0.nb_subfr * (api / 200) ∧
    ((silkDecode d a o).d.ch0.nb_subfr = 2 ∨ (silkDecode d a o).d.ch0.nb_subfr = 4) ∧
    Inv api (silkDecode d a o).d ∧ (silkDecode d a o).d.nChannelsInternal ≤ 2 ∧
    (silkDecode d a o).out.length = ((silkDecode d a o).nSamplesOut * a.nChannelsAPI).toNat :=
  silkDecode_ok hI hN hA hO

/-- Memory safety of the whole call: under the same hypotheses EVERY access silk_Decode records (Run.ac) is in bounds —
    VAD_flags / LBRR_flags indices (:231-:244, :282-:287, :322, :336) inside their 3 elements, silk_LBRR_flags_iCDF_ptr inside
    its 2, mult_tab (:416) inside its 3; the silk_decode_frame output, memset, history copies, silk_stereo_MS_to_LR extents and
    resampler inputs (+1 / +2 offsets) inside samplesOut1_tmp_storage1[nChannelsInternal*(frame_length+2)]; each resampler
    output inside samplesOut2_tmp[nSamplesOut] with the 1 ms precondition of resampler.c:184 (also for the stereo->mono call on
    channel 1's resampler); every strided samplesOut write (stride nChannelsAPI, offsets 0 / 1, incl. the mono->stereo and
    stereo->mono duplications) inside [0, nSamplesOut*nChannelsAPI). -/
theorem silkDecode_accesses_in_bounds {api : Int} {d : Dec} {a : Args} {o : Orc} (hI : Inv api d) (hN : d.nChannelsInternal ≤ 2)
    (hA : ArgsOk api d a) (hO : CallOrcOk api d a o) : ∀ x ∈ (silkDecode d a o).ac, x.InBounds :=
  silkDecode_accs hI hN hA hO

example : (silkDecode {} ⟨1, 1, 8000, 8000, 10, 1, 1⟩ { frame0 := { samples := List.replicate 80 0 }, rs := [(0, List.replicate 80 0)] }).ac.length = 8 := by decide

/-- ... for every call history: starting from any state satisfying the invariant (e.g. after silk_InitDecoder on the
    zero-filled OpusDecoder), after any sequence of silk_Decode calls (each with arguments legal for the state it meets and
    oracles within contract) and silk_InitDecoder / silk_ResetDecoder calls, the invariant holds, and EVERY silk_Decode
    call of the history returned 0 without assertion, with nSamplesOut = nb_subfr*5 ms*Fs_API and exactly
    nSamplesOut*nChannelsAPI output samples. -/
theorem silkDecode_history {api : Int} (l : List Step) (d : Dec) (hI : Inv api d) (hN : d.nChannelsInternal ≤ 2)
    (h : HistOk api d l) : Inv api (runHistory d l) ∧ (runHistory d l).nChannelsInternal ≤ 2 ∧ HistRet api d l :=
  history_ok l d hI hN h

/-- non-vacuity: a lost 10 ms mono call at 8 kHz on a fresh decoder (80 zero samples from both oracles), then a reset -/
example : HistOk 8000 {} [.dec ⟨1, 1, 8000, 8000, 10, 1, 1⟩ { frame0 := { samples := List.replicate 80 0 }, frame1 := { samples := List.replicate 80 0 }, rs := [(0, List.replicate 80 0), (0, List.replicate 80 0)] }, .reset] := by
  refine ⟨by simp [ArgsOk, ApiOk], ?_, trivial⟩
  unfold CallOrcOk OrcOk
  refine ⟨rfl, rfl, by decide, by decide, ?_, ?_, rfl, rfl, by decide, by decide⟩ <;>
    (intro v hv; rw [List.eq_of_mem_replicate hv]; simp [In16])

end OpusProps.C01SilkApi
