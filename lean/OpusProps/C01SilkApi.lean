import OpusProofs.SilkApi
import OpusProofs.SilkApiStereo
import OpusProofs.SilkApiOut
/-!
  C01 (decoding is total and memory-safe) — extension slice `SilkApi`: the control layer of the SILK decoder
  (silk/dec_API.c, silk/decoder_set_fs.c, silk/stereo_MS_to_LR.c) inside the model.  Model: OpusModel/SilkApi.lean,
  invariant / argument set / oracle contracts: OpusModel/SilkApiSpec.lean.
-/
namespace OpusProps.C01SilkApi
open Opus.SilkApi

/-- State invariant, base case: after silk_InitDecoder / silk_ResetDecoder (any prior contents) the invariant holds. -/
theorem initDecoder_inv (api : Int) (d : Dec) : Inv api (initDecoder d) := Or.inl ⟨rfl, rfl⟩

example : Inv 48000 (initDecoder { nChannelsInternal := 2, ch0 := { fs_kHz := 16, frame_length := 320 } }) := initDecoder_inv _ _

/-- silk_decoder_set_fs: for fs_kHz in {8,12,16}, a legal API rate, nb_subfr in {2,4} and a channel that is fresh or was
    configured before (for any sub-frame count), the call returns 0 and leaves the channel configured for (fs_kHz, nb_subfr):
    frame_length = nb_subfr*5*fs_kHz, ltp_mem_length = 20*fs_kHz, LPC_order / table tags matching the rate, resampler
    configured fs_kHz -> API rate; the packet counters are untouched. -/
theorem setFs_establishes_cfg {api k : Int} {c : Chan} (hk : k = 8 ∨ k = 12 ∨ k = 16) (ha : ApiOk api)
    (hnb : c.nb_subfr = 2 ∨ c.nb_subfr = 4) (hc : PreOk api c) :
    Cfg api (setFs c k api).1 c.nb_subfr ∧ (setFs c k api).2 = 0 ∧ (setFs c k api).1.fs_kHz = k ∧
    (setFs c k api).1.subfr_length = 5 * k ∧ (setFs c k api).1.nb_subfr = c.nb_subfr ∧
    (setFs c k api).1.nFramesPerPacket = c.nFramesPerPacket ∧ (setFs c k api).1.nFramesDecoded = c.nFramesDecoded :=
  setFs_ok hk ha hnb hc

example : PreOk 48000 { freshChan with nb_subfr := 4 } ∧ (setFs { freshChan with nb_subfr := 4 } 16 48000).1.frame_length = 320 :=
  ⟨Or.inl ⟨rfl, rfl, rfl⟩, by decide⟩

/-- silk_Decode :179-:209 (per-channel configuration), error exits unreachable: for payloadSize_ms in {0,10,20,40,60},
    internalSampleRate in {8000,12000,16000} and a legal API rate, on a channel that is fresh or configured, the loop body
    reaches neither SILK_DEC_INVALID_FRAME_SIZE (:200) nor SILK_DEC_INVALID_SAMPLING_FREQUENCY (:206), silk_decoder_set_fs
    returns 0 with all its celt_asserts (:43, :44, :104) satisfied, and the channel is left with
    fs_kHz = (internalSampleRate>>10)+1 in {8,12,16}, (nFramesPerPacket, nb_subfr) as selected by payloadSize_ms,
    frame_length = nb_subfr*5*fs_kHz in (0, 320], ltp_mem_length = 20*fs_kHz, LPC_order in {10,16}, matching table tags and
    resampler rates, nFramesDecoded untouched. -/
theorem cfgChan_configures {api : Int} {a : Args} {c : Chan} (ha : ApiOk api) (hapi : a.API_sampleRate = api)
    (hp : a.payloadSize_ms = 0 ∨ a.payloadSize_ms = 10 ∨ a.payloadSize_ms = 20 ∨ a.payloadSize_ms = 40 ∨ a.payloadSize_ms = 60)
    (hr : a.internalSampleRate = 8000 ∨ a.internalSampleRate = 12000 ∨ a.internalSampleRate = 16000)
    (hc : PreOk api c) : ∃ c', cfgChan c a = .inr (c', 0, true) ∧ Cfgd api a c c' :=
  cfgChan_ok ha hapi hp hr hc

example : ∃ c', cfgChan freshChan (⟨2, 2, 48000, 16000, 60, 0, 1⟩ : Args) = .inr (c', 0, true) ∧ c'.frame_length = 320 ∧ c'.nFramesPerPacket = 3 :=
  ⟨_, rfl, by decide, by decide⟩

/-- nSamplesOut (:373) of a configured channel at a legal API rate: the divisor silk_SMULBB(fs_kHz,1000) is not zero, the
    product nSamplesOutDec*API_sampleRate does not wrap, and the quotient frame_length*Fs_API/(fs_kHz*1000) equals
    nb_subfr * 5 ms at the API rate (C01's contract: silk_frame_size = nb_subfr*5 ms*Fs_API), in (0, 960]. -/
theorem nSamplesOut_is_duration {api : Int} {c : Chan} (ha : ApiOk api) (hc : ChanOk api c) :
    smulbb c.fs_kHz 1000 ≠ 0 ∧ wrap32 (c.frame_length * api) = c.frame_length * api ∧
    wrap32 (c.frame_length * api) / smulbb c.fs_kHz 1000 = c.nb_subfr * (api / 200) ∧
    0 < c.nb_subfr * (api / 200) ∧ c.nb_subfr * (api / 200) ≤ 960 :=
  nSamplesOut_ok ha hc

/-- Every index into samplesOut1_tmp of a configured channel is in bounds: with frame_length = nb_subfr*5*fs_kHz and the
    buffer of nChannelsInternal*(frame_length+2) elements (:313), the silk_decode_frame output / memset extent (+2), the
    resampler input extent (+1), the two 2-sample history copies (:368-:369) and, in stereo, both extents
    [0, max(frame_length, 8 fs_kHz)+2) of silk_stereo_MS_to_LR lie inside it; the resampler's 1 ms precondition
    (resampler.c:184, inLen >= Fs_in_kHz) holds. -/
theorem tmp_extents_in_bounds {api : Int} {c : Chan} (hc : ChanOk api c) (nCh : Int) (hn : nCh = 1 ∨ nCh = 2) :
    let fl := c.frame_length
    let cap := nCh * (fl + 2)
    (∀ n, 0 ≤ n → n < nCh →
       Acc.InBounds { buf := "tmp", lo := n * (fl + 2) + 2, n := fl, cap := cap } ∧
       Acc.InBounds { buf := "tmp", lo := n * (fl + 2) + 1, n := fl, cap := cap } ∧
       Acc.InBounds { buf := "resampler-1ms", lo := 0, n := c.rsIn, cap := fl }) ∧
    Acc.InBounds { buf := "tmp", lo := 0, n := 2, cap := cap } ∧ Acc.InBounds { buf := "tmp", lo := fl, n := 2, cap := cap } ∧
    (nCh = 2 → ∀ a ∈ msAccs fl c.fs_kHz fl cap, a.InBounds) :=
  tmp_extents_ok hc nCh hn

example : ChanOk 48000 { fs_kHz := 16, fs_API_hz := 48000, nb_subfr := 4, frame_length := 320, subfr_length := 80, ltp_mem_length := 320, LPC_order := 16, lagLowBits := 8, pitchContour := 3, nlsfCb := 2, nFramesDecoded := 1, nFramesPerPacket := 1, rsIn := 16, rsOut := 48 } := by
  simp [ChanOk, Cfg]

/-- silk_stereo_MS_to_LR: the buffers keep their length and every element 1..frame_length of both outputs is an int16
    (for any state, predictors, rate and input values — the final silk_SAT16 of :82-:83). -/
theorem msToLR_outputs_int16 (st : Stereo) (x1 x2 : List Int) (p0 p1 fs N : Int) :
    (msToLR st x1 x2 p0 p1 fs N).x1.length = x1.length ∧ (msToLR st x1 x2 p0 p1 fs N).x2.length = x2.length ∧
    ∀ k : Nat, 1 ≤ k → k ≤ N.toNat → ∀ v, ((msToLR st x1 x2 p0 p1 fs N).x1[k]? = some v ∨ (msToLR st x1 x2 p0 p1 fs N).x2[k]? = some v) → In16 v :=
  ⟨(msToLR_length ..).1, (msToLR_length ..).2, fun k h1 h2 v h => h.elim (msToLR_x1_in16 _ _ _ _ _ _ _ k h1 h2 v) (msToLR_x2_in16 _ _ _ _ _ _ _ k h1 h2 v)⟩

example : (msToLR {} [0, 0, 30000, 30000, 0, 0] [0, 0, 30000, -30000, 0, 0] 0 0 0 2).x1 = [0, 0, 32767, 30000, 0, 0] := by decide

end OpusProps.C01SilkApi
