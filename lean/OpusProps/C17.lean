import OpusProofs.CwrsCache
import OpusProofs.Icdf
import OpusProofs.LaplaceMain
import OpusProofs.LaplaceP0
import OpusProofs.CwrsRanges
import OpusProofs.CeltAllocAgree
import OpusProofs.CeltHdrExample
import OpusProofs.CeltFrameExample
import OpusProofs.CeltFrameDrive
/-
  Property C17 — "PVQ, Laplace and table-driven symbol codes are exact, prefix-free bijections".

  Models:  `Opus.Cwrs`    (celt/cwrs.c: U/V, `icwrs`, `cwrsi`, both branches and the n==2/n==1 tails, table access
                           abstracted as `Tab` with `.oob` outside a row; `Utab` = the regenerated CELT_PVQ_U_DATA)
           `Opus.Rate`    (celt/rate.c, rate.h: get_pulses, log2_frac, fits_in32, compute_pulse_cache)
           `Opus.Icdf`    (ec_enc_icdf/ec_dec_icdf at the interval level + the catalogue of every static ICDF table)
           `Opus.Laplace` (celt/laplace.c at the interval level)
  Tables:  `Opus.Gen.CeltTables`, `Opus.Gen.SilkIcdf` are regenerated from /repo on every run.
-/
namespace OpusProps.C17
open Opus Opus.Cwrs Opus.Rate Opus.Icdf
open Opus.Gen.CeltTables
open OpusProofs.CwrsTable (inTab)
open OpusProofs.CwrsModel (Agree)
open OpusProofs.CwrsCache (Reach)
open Opus.Laplace (encode decode)
open OpusProofs.Laplace (LaplaceOk eprobFs eprobDecay)

/-! ## V obeys its recurrence -/

/-- "V obeys its recurrence": `U(N,K) = U(N-1,K) + U(N,K-1) + U(N-1,K-1)` with the base cases of cwrs.c:114-116, 195. -/
theorem U_rec (n k : Nat) :
    U (n + 1) (k + 1) = U n (k + 1) + U (n + 1) k + U n k ∧ U (n + 1) 0 = 0 ∧ U 0 (k + 1) = 0 ∧ U 0 0 = 1 :=
  ⟨rfl, rfl, rfl, rfl⟩

example : U 3 2 = 5 ∧ U 4 3 = 25 := by decide

/-- `U(N,K) = U(K,N)` (cwrs.c:116), which is what lets the table be stored as rows `min` / columns `max`. -/
theorem U_symm (n k : Nat) : U n k = U k n := OpusProofs.CwrsU.U_symm n k

/-- `V(N,K) = V(N-1,K) + V(N,K-1) + V(N-1,K-1)`, `V(N,0) = 1` (cwrs.c:81-84). -/
theorem V_rec (n k : Nat) : V (n + 1) (k + 1) = V n (k + 1) + V (n + 1) k + V n k ∧ V (n + 1) 0 = 1 :=
  ⟨OpusProofs.CwrsU.V_rec n k, OpusProofs.CwrsU.V_zero n⟩

example : V 3 2 = 18 := by decide

/-! ## The table -/

/-- "Exhaustively over all table entries": every word `CELT_PVQ_U_ROW[r][c]` of the regenerated table that lies inside
    its row equals `U(r,c)` and fits 32 bits; a read outside a row is out of bounds in the model; and the rows
    account for every one of the `pvqUSize` (1272) words of `CELT_PVQ_U_DATA`. -/
theorem Utab_eq_U :
    (∀ r c, (inTab r c → Utab r c = .ok (U r c) ∧ U r c < 4294967296) ∧ (¬ inTab r c → Utab r c = .oob)) ∧
    ((List.range OpusProofs.CwrsTable.nRows).map (fun r => (OpusProofs.CwrsTable.rowSlice r).length)).sum = pvqUSize :=
  ⟨OpusProofs.CwrsTable.Utab_spec, OpusProofs.CwrsTable.words_checked⟩

example : inTab 6 96 ∧ inTab 14 14 ∧ ¬ inTab 14 15 ∧ ¬ inTab 8 100 := by decide

/-! ## The enumeration is a bijection -/

/-- "Decoding any index gives a vector with exactly K pulses that encodes back to that index": for EVERY `n ≥ 2`,
    `k ≥ 1`, `i < V(n,k)`, on any table that holds `U` at the words a walk for `(n,k)` can touch, `cwrsi` succeeds
    (no assertion, no out-of-row read), returns a vector of length `n` with `Σ|y_j| = k` and `yy = Σ y_j²`, and
    `icwrs` maps that vector back to `i`. -/
theorem cwrsi_icwrs (tab : Tab) (n k i : Nat) (h : Agree tab n k) (hn : 2 ≤ n) (hk : 1 ≤ k) (hi : i < V n k) :
    ∃ y, cwrsi tab n k i = .ok (y, sumSq y) ∧ y.length = n ∧ sumAbs y = k ∧ icwrs tab y = .ok i := by
  obtain ⟨hl, hs, he⟩ := OpusProofs.CwrsBij.decS_spec n k i hi
  refine ⟨_, OpusProofs.CwrsModel.cwrsi_agree h hn hk hi, hl, hs, ?_⟩
  have := OpusProofs.CwrsModel.icwrs_agree (tab := tab) (y := OpusProofs.CwrsBij.decS n k i)
    (by rw [hl, hs]; exact h) (by omega)
  rw [this, he]

/-- The hypothesis of `cwrsi_icwrs` is satisfiable for every `(n,k)` (the mathematical table), so the enumeration
    is a bijection for all sizes, not only those in the shipped table. -/
example (n k : Nat) : Agree Umath n k := OpusProofs.CwrsModel.agree_Umath n k
example : cwrsi Umath 3 2 7 = .ok ([0, 1, -1], 2) ∧ icwrs Umath [0, 1, -1] = .ok 7 := by decide

/-- The other direction: every vector `y` (length ≥ 2, at least one pulse) has an index below `V(n, Σ|y_j|)` and
    `cwrsi` decodes that index back to `y`: pulse vectors and indices correspond one-to-one. -/
theorem icwrs_cwrsi (tab : Tab) (y : List Int) (h : Agree tab y.length (sumAbs y)) (hn : 2 ≤ y.length)
    (hk : 1 ≤ sumAbs y) :
    ∃ i, icwrs tab y = .ok i ∧ i < V y.length (sumAbs y) ∧ cwrsi tab y.length (sumAbs y) i = .ok (y, sumSq y) := by
  obtain ⟨hlt, hdec⟩ := OpusProofs.CwrsBij.encS_spec y
  refine ⟨_, OpusProofs.CwrsModel.icwrs_agree h hn, hlt, ?_⟩
  rw [OpusProofs.CwrsModel.cwrsi_agree h hn hk hlt, hdec]

example : icwrs Umath [1, -1, 0] = .ok 4 ∧ cwrsi Umath 3 2 4 = .ok ([1, -1, 0], 2) := by decide

/-! ## Every (N,K) the codec can use -/

/-- "For every vector size N and pulse count K the codec can use … without overflow": for every band, every frame
    size (including the halves produced by band splitting) and every pseudo-pulse count of the band's cache row,
    `V(N,K) < 2^32` and every table word the walks of `icwrs`/`cwrsi` touch for `(N,K)` lies inside its row and
    equals `U` (memory safety of the table walk). -/
theorem cache_reachable_fits (N K b : Nat) (h : Reach N K b) : 1 ≤ K ∧ V N K < 4294967296 ∧ Agree Utab N K := by
  obtain ⟨h1, h2, h3, _⟩ := OpusProofs.CwrsCache.reach_facts h
  exact ⟨h1, h3, h2⟩

/-- band 20 (22 bins per short block) at LM = 3, i.e. N = 176, with one pulse. -/
example : ∃ K b, Reach 176 K b :=
  ⟨_, _, 4, 20, 387, 1, by decide, by decide, by decide, by decide, by decide, by decide, rfl, rfl⟩

/-- `decode_pulses` on the shipped table: for every reachable `(N,K)`, `N ≥ 2`, the `ft` it hands to `ec_dec_uint` is
    `V(N,K) < 2^32`, and for every index the range decoder can return `cwrsi` yields a `K`-pulse vector that `icwrs`
    maps back — all reads inside the table. -/
theorem cwrsi_table (N K b i : Nat) (h : Reach N K b) (hn : 2 ≤ N) (hi : i < V N K) :
    decodePulsesFt Utab N K = .ok (V N K) ∧ V N K < 4294967296 ∧
    ∃ y, cwrsi Utab N K i = .ok (y, sumSq y) ∧ y.length = N ∧ sumAbs y = K ∧ icwrs Utab y = .ok i := by
  obtain ⟨hk, hA, hV, _⟩ := OpusProofs.CwrsCache.reach_facts h
  exact ⟨OpusProofs.CwrsModel.pvqV_agree hA (Nat.le_refl _) (Nat.le_refl _), hV, cwrsi_icwrs Utab N K i hA hn hk hi⟩

/-- `encode_pulses` on the shipped table: every `K`-pulse vector of a reachable size gets `(fl, ft) = (i, V(N,K))` with
    `i < ft < 2^32`, and `cwrsi` recovers the vector from `i`. -/
theorem icwrs_table (N K b : Nat) (y : List Int) (h : Reach N K b) (hn : 2 ≤ N) (hl : y.length = N)
    (hs : sumAbs y = K) :
    ∃ i, encodePulses Utab y K = .ok (i, V N K) ∧ i < V N K ∧ V N K < 4294967296 ∧
      cwrsi Utab N K i = .ok (y, sumSq y) := by
  obtain ⟨hk, hA, hV, _⟩ := OpusProofs.CwrsCache.reach_facts h
  subst hl hs
  obtain ⟨i, h1, h2, h3⟩ := icwrs_cwrsi Utab y hA hn hk
  refine ⟨i, ?_, h2, hV, h3⟩
  unfold encodePulses
  rw [if_neg (by omega), h1, OpusProofs.CwrsModel.pvqV_agree hA (Nat.le_refl _) (Nat.le_refl _)]
  rfl

/-! ## The bits-to-pulses cache -/

/-- The shipped `cache.index` / `cache.bits` (static_modes_float.h) are exactly what `compute_pulse_cache`
    (rate.c:74-143, re-implemented in `Opus.Rate`) computes from the shipped `eBands` and the shipped PVQ table. -/
theorem cache_eq_recomputed : computePulseCache Utab eBands nbEBands maxLM = .ok (cacheIndex, cacheBits) :=
  OpusProofs.CwrsCache.cache_eq

/-- "The bits-to-pulses cache is monotone": every row `cache[1..cache[0]]` lies inside `cache.bits` and is
    non-decreasing in the pseudo-pulse count (what the binary search of `bits2pulses` relies on). -/
theorem cache_rows_monotone (lm1 band ci q : Nat) (hl : lm1 ≤ maxLM + 1) (hb : band < nbEBands)
    (hci : cacheIndex[lm1 * nbEBands + band]? = some (Int.ofNat ci)) (hq1 : 1 ≤ q) (hq : q ≤ cacheBits.getD ci 0) :
    ci + q < cacheBits.length ∧
    (q < cacheBits.getD ci 0 → cacheBits.getD (ci + q) 0 ≤ cacheBits.getD (ci + q + 1) 0) :=
  OpusProofs.CwrsCache.rows_monotone hl hb hci hq1 hq

example : cacheIndex[4 * nbEBands + 20]? = some (Int.ofNat 387) ∧ cacheBits.getD 387 0 = 4 := by decide

/-- "… and consistent with V": the cache word `b` of a reachable `(N,K)` (stored as bits−1 in 1/8 bit units) brackets
    the information content: `V^8 ≤ 2^(b+1) < 4·V^8`, i.e. `log2 V(N,K) ≤ (b+1)/8 < log2 V(N,K) + 1/4`. -/
theorem cache_consistent_with_V (N K b : Nat) (h : Reach N K b) :
    V N K ^ 8 ≤ 2 ^ (b + 1) ∧ 2 ^ (b + 1) < 4 * V N K ^ 8 := by
  obtain ⟨_, _, _, h4, h5⟩ := OpusProofs.CwrsCache.reach_facts h
  exact ⟨h4, h5⟩

/-! ## Inverse-CDF tables -/

/-- "Every static inverse-CDF table is strictly decreasing and ends at zero" (and starts below `2^ftb`): all tables
    of celt/ and silk/, regenerated and sliced exactly as the call sites slice them; the slicing covers every word
    of the flat SILK arrays. -/
theorem icdf_ok : (∀ e ∈ allIcdfs, icdfOk e.ftb e.tab = true) ∧ slicingExact = true :=
  ⟨OpusProofs.Icdf.all_tables_ok, OpusProofs.Icdf.slicing_exact⟩

example : allIcdfs.length = 171 ∧ (allIcdfs.map (fun e => e.tab.length)).sum = 1506 := by decide +kernel

/-- "Exact, prefix-free": for ANY table satisfying `icdfOk` the symbol intervals `[2^ftb − icdf[s−1], 2^ftb − icdf[s])`
    are non-empty, adjacent, start at 0 and end at `2^ftb`; every point belongs to exactly one symbol, and that is
    the symbol the scan of `ec_dec_icdf` returns (`ec_dec_icdf` relies on the terminating zero, entdec.c:177-196). -/
theorem icdf_tiles (ftb : Nat) (t : List Nat) (h : icdfOk ftb t = true) :
    (∀ s, s < t.length → symLow ftb t s < symHigh ftb t s ∧ symHigh ftb t s ≤ 2 ^ ftb) ∧
    (∀ s, s + 1 < t.length → symLow ftb t (s + 1) = symHigh ftb t s) ∧
    symLow ftb t 0 = 0 ∧ symHigh ftb t (t.length - 1) = 2 ^ ftb ∧
    (∀ x, x < 2 ^ ftb → ∃ s, s < t.length ∧ symOf ftb x t 0 = some s ∧
        symLow ftb t s ≤ x ∧ x < symHigh ftb t s ∧
        ∀ s', s' < t.length → symLow ftb t s' ≤ x → x < symHigh ftb t s' → s' = s) :=
  OpusProofs.Icdf.icdf_tiles ftb t h

example : icdfOk 7 trimIcdf = true ∧ symOf 7 100 trimIcdf 0 = some 6 := by decide


/-! ## The Laplace coder (celt/laplace.c:44-132)

  `encode value fs decay = (fl, fh, value')` is the interval handed to `ec_encode_bin(enc, fl, fh, 15)` and the value
  written back through `*value`; `decode fm fs decay = (val, fl, fh)` is the return value and the interval handed to
  `ec_dec_update(dec, fl, fh, 32768)` when `ec_decode_bin(dec, 15)` answered `fm`; `.abort` = a `celt_assert` fires.
  `LaplaceOk fs decay` (decidable) says: `fs > 0` and the decaying part of the PDF ends at or before 32766, so that the
  probability-LAPLACE_MINP tail has room for at least one symbol of each sign. -/

/-- "For every energy-model parameter pair": each of the 4·2·21 `(fs, decay) = (e_prob_model[LM][intra][2b]<<7,
    e_prob_model[LM][intra][2b+1]<<6)` pairs satisfies `LaplaceOk`; with `decay < 2^16` no C `unsigned` product of
    laplace.c wraps, so the model's unbounded arithmetic is the C arithmetic on these pairs. -/
theorem eprob_pairs_ok (lm intra band : Nat) (h1 : lm < 4) (h2 : intra < 2) (h3 : band < 21) :
    LaplaceOk (eprobFs lm intra band) (eprobDecay lm intra band) = true ∧ eprobDecay lm intra band < 65536 :=
  OpusProofs.Laplace.eprob_ok h1 h2 h3

example : eprobFs 0 0 0 = 9216 ∧ eprobDecay 0 0 0 = 8128 ∧ eprobFs 3 1 20 = 9856 ∧ eprobDecay 3 1 20 = 2560 := by decide

/-- "Decode inverts encode (after the encoder's documented clamping)": for EVERY parameter pair with `LaplaceOk` and
    EVERY integer `value`, the encoder does not assert, its interval is non-empty and inside `[0, 32768)`, and every
    `fm` in that interval decodes to the clamped value `value'` with exactly the encoder's interval (so the range
    coder states of encoder and decoder stay equal).  Clamping keeps the sign, never increases the magnitude,
    leaves `value'` itself unchanged (fixed point), and only happens for the last symbols of the range. -/
theorem laplace_decode_encode (fs decay : Nat) (h : LaplaceOk fs decay = true) (value : Int) :
    ∃ fl fh v', encode value fs decay = .ok (fl, fh, v') ∧ fl < fh ∧ fh ≤ 32768 ∧
      (∀ fm, fl ≤ fm → fm < fh → decode fm fs decay = .ok (v', fl, fh)) ∧
      encode v' fs decay = .ok (fl, fh, v') ∧
      (v' < 0 ↔ value < 0) ∧ v'.natAbs ≤ value.natAbs ∧ (v' ≠ value → 32766 ≤ fl) := by
  obtain ⟨T, hp⟩ := OpusProofs.Laplace.par_of_ok h
  obtain ⟨fl, fh, v', h1, h2, h3, h4, h5, h6, h7⟩ := OpusProofs.Laplace.encode_then_decode hp value
  refine ⟨fl, fh, v', h1, h2, h3, h4, ?_, h5, h6, h7⟩
  obtain ⟨v, fl2, fh2, hd, _, _, _, he⟩ := OpusProofs.Laplace.decode_then_encode hp (fm := fl) (by omega)
  rw [h4 fl (Nat.le_refl _) h2] at hd
  injection hd with hd; injection hd with a b; injection b with b c
  subst a b c
  exact he

example : LaplaceOk 9216 8128 = true ∧ encode (-3) 9216 8128 = .ok (26948, 28407, -3) ∧
    decode 27000 9216 8128 = .ok (-3, 26948, 28407) ∧ encode 20000 9216 8128 = .ok (32767, 32768, 30) ∧
    encode (-20000) 9216 8128 = .ok (32766, 32767, -30) := by decide +kernel

/-- The converse: every `fm < 32768` the range decoder can return decodes (no assertion) to a value whose encoder
    interval is the decoder's interval and contains `fm`. -/
theorem laplace_encode_decode (fs decay : Nat) (h : LaplaceOk fs decay = true) (fm : Nat) (hfm : fm < 32768) :
    ∃ v fl fh, decode fm fs decay = .ok (v, fl, fh) ∧ fl ≤ fm ∧ fm < fh ∧ fh ≤ 32768 ∧
      encode v fs decay = .ok (fl, fh, v) := by
  obtain ⟨T, hp⟩ := OpusProofs.Laplace.par_of_ok h
  exact OpusProofs.Laplace.decode_then_encode hp hfm

/-- "The symbol intervals tile the probability range with no gap or overlap": every point of `[0, 32768)` lies in
    the interval of exactly one representable value (a value the encoder does not clamp). -/
theorem laplace_tiles (fs decay : Nat) (h : LaplaceOk fs decay = true) (fm : Nat) (hfm : fm < 32768) :
    ∃ v, (∃ fl fh, encode v fs decay = .ok (fl, fh, v) ∧ fl ≤ fm ∧ fm < fh) ∧
      ∀ w, (∃ fl fh, encode w fs decay = .ok (fl, fh, w) ∧ fl ≤ fm ∧ fm < fh) → w = v := by
  obtain ⟨T, hp⟩ := OpusProofs.Laplace.par_of_ok h
  obtain ⟨v, fl, fh, hd, h1, h2, _, he⟩ := OpusProofs.Laplace.decode_then_encode hp hfm
  refine ⟨v, ⟨fl, fh, he, h1, h2⟩, ?_⟩
  rintro w ⟨fl', fh', hw, h1', h2'⟩
  obtain ⟨a, b, c, hc, _, _, hdec, _⟩ := OpusProofs.Laplace.encode_then_decode hp w
  rw [hw] at hc
  injection hc with hc; injection hc with e1 e2; injection e2 with e2 e3
  subst e1 e2 e3
  have := hdec fm h1' h2'
  rw [hd] at this
  injection this with this; injection this with this _
  exact this.symm


/-! ## The `_p0` variants (celt/laplace.c:134-195; called from dnn/dred_*.c only) -/

/-- `ec_laplace_decode_p0` inverts `ec_laplace_encode_p0`: fed the encoder's symbols (sign symbol, then the magnitude
    symbols in runs of 7) followed by anything, the decoder returns the value and leaves exactly the rest unread. -/
theorem laplace_p0_roundtrip (value : Int) (rest : List Nat) :
    Opus.Laplace.decodeP0 (Opus.Laplace.encodeP0 value).1 ((Opus.Laplace.encodeP0 value).2 ++ rest) = some (value, rest) :=
  OpusProofs.LaplaceP0.p0_roundtrip value rest

example : Opus.Laplace.encodeP0 (-16) = (2, [7, 7, 1]) := by decide +kernel

/-- The two ICDFs the `_p0` functions build at run time are exact codes for `ftb = 15` (so `icdf_tiles` applies to
    them) whenever `0 < p0 ≤ 32766` and `decay < 32768`, and every symbol the encoder emits lies inside its table. -/
theorem laplace_p0_icdfs_ok (p0 decay : Nat) (h1 : 0 < p0) (h2 : p0 ≤ 32766) (hd : decay < 32768) :
    icdfOk 15 (Opus.Laplace.signIcdf p0) = true ∧ icdfOk 15 (Opus.Laplace.magIcdf decay) = true ∧
    (Opus.Laplace.magIcdf decay).length = 8 ∧ ∀ v, ∀ s ∈ Opus.Laplace.magSymbols v, s < 8 :=
  ⟨OpusProofs.LaplaceP0.signIcdf_ok p0 h1 h2, OpusProofs.LaplaceP0.magIcdf_ok decay hd, by simp [Opus.Laplace.magIcdf, Opus.Laplace.magIcdfFrom],
   OpusProofs.LaplaceP0.magSymbols_lt⟩

example : Opus.Laplace.magIcdf 16000 = [16000, 7812, 3814, 1862, 909, 443, 216, 0] := by decide


/-! ## Extensions: the whole documented Laplace domain, bits2pulses, caps, 32-bit ranges -/

/-- `LaplaceOk` holds on the WHOLE documented domain of `ec_laplace_encode/decode` ("decay is positive and at most
    11456", `fs ≤ 32768 − LAPLACE_MINP·2·LAPLACE_NMIN`), so `laplace_decode_encode`, `laplace_encode_decode` and
    `laplace_tiles` apply to every legal parameter pair, independently of the regenerated `e_prob_model`
    (`eprob_pairs_ok` is the instance for the shipped table). -/
theorem laplace_domain_ok (fs decay : Nat) (h1 : 0 < fs) (h2 : fs ≤ 32736) (h3 : 0 < decay) (h4 : decay ≤ 11456) :
    LaplaceOk fs decay = true :=
  OpusProofs.Laplace.laplaceOk_domain h1 h2 h3 h4

example : LaplaceOk 1 11456 = true ∧ LaplaceOk 32736 1 = true ∧ LaplaceOk 32737 1 = false := by decide +kernel

/-- `ec_laplace_*` stay inside 32 bits: for every index the two "search the decaying part" loops can reach,
    `fl ≤ 32766`, `fs ≤ 16383` and the product `fs*2*decay` is below 2^32 (so the model's unbounded arithmetic is the
    C `unsigned` arithmetic; `fl+fs ≤ 32768` is part of `laplace_decode_encode`). -/
theorem laplace_int_ranges (fs decay : Nat) (h : LaplaceOk fs decay = true) (hd : decay < 65536) :
    ∃ T, OpusProofs.Laplace.F fs decay T = 0 ∧ ∀ j, j ≤ T →
      OpusProofs.Laplace.L fs decay j ≤ 32766 ∧ OpusProofs.Laplace.F fs decay j ≤ 16383 ∧
      OpusProofs.Laplace.F fs decay j * 2 * decay < 4294967296 := by
  obtain ⟨T, hp⟩ := OpusProofs.Laplace.par_of_ok h
  exact ⟨T, hp.zero, fun j hj => OpusProofs.CwrsRanges.laplace_ranges hp hd j hj⟩

/-- What `bits2pulses(m, band, LM, bits)` returns (rate.h:53-78), for every band and every frame size of the static
    mode, with `row = cache.bits + cache.index[(LM+1)*nbEBands+band]`, `K = row[0]`, `c(0) = −1`, `c(p) = row[p]`
    (`pulses2bits(p) = c(p)+1`) and `b = bits−1`: at most `K`; `K` if every entry is below `b`; otherwise, with `h` the
    least index whose entry reaches `b`, the nearer of `h−1`, `h` to the budget — `h−1` exactly when
    `b − c(h−1) ≤ c(h) − b`, i.e. the LOWER index on a tie. -/
theorem bits2pulses_spec (lm1 band ci : Nat) (hl : lm1 ≤ maxLM + 1) (hb : band < nbEBands)
    (hci : cacheIndex[lm1 * nbEBands + band]? = some (Int.ofNat ci)) (bits : Int) :
    let row := OpusProofs.CwrsRanges.rowAt ci
    let K := cacheBits.getD ci 0
    bits2pulsesRow row bits ≤ K ∧
    ((∀ p, 1 ≤ p → p ≤ K → (row p : Int) < bits - 1) → bits2pulsesRow row bits = K) ∧
    (∀ h, 1 ≤ h → h ≤ K → bits - 1 ≤ (row h : Int) → (∀ p, 1 ≤ p → p < h → (row p : Int) < bits - 1) →
      bits2pulsesRow row bits =
        if (bits - 1) - (if h = 1 then -1 else (row (h - 1) : Int)) ≤ (row h : Int) - (bits - 1) then h - 1 else h) :=
  OpusProofs.CwrsRanges.b2p_cache hl hb hci bits

/-- band 20 at LM = 3 (row `4, 67, 127, 182, 234`): a budget exactly between `c(1)+1` and `c(2)+1` goes to the lower
    index (tie rule), one more eighth-bit to the higher; tiny budgets give 0, huge ones `K`. -/
example : bits2pulsesRow (OpusProofs.CwrsRanges.rowAt 387) 98 = 1 ∧ bits2pulsesRow (OpusProofs.CwrsRanges.rowAt 387) 99 = 2 ∧
    bits2pulsesRow (OpusProofs.CwrsRanges.rowAt 387) 30 = 0 ∧ bits2pulsesRow (OpusProofs.CwrsRanges.rowAt 387) 40 = 1 ∧
    bits2pulsesRow (OpusProofs.CwrsRanges.rowAt 387) 1000 = 4 ∧ bits2pulsesRow (OpusProofs.CwrsRanges.rowAt 387) (-5) = 0 := by
  decide +kernel

/-- `pulses2bits` (rate.h:80-87) on the shipped cache: 0 for 0 pulses, `cache[q]+1` otherwise (read inside the array);
    non-decreasing in the pseudo-pulse index for every band, strictly increasing when the band has at least 3 bins
    (the rows for N = 1 and N = 2 contain equal neighbours). -/
theorem pulses2bits_cache (lm1 band ci : Nat) (hl : lm1 ≤ maxLM + 1) (hb : band < nbEBands)
    (hci : cacheIndex[lm1 * nbEBands + band]? = some (Int.ofNat ci)) :
    pulses2bits cacheIndex cacheBits nbEBands band lm1 0 = .ok 0 ∧
    (∀ q, 1 ≤ q → q ≤ cacheBits.getD ci 0 →
      pulses2bits cacheIndex cacheBits nbEBands band lm1 q = .ok (cacheBits.getD (ci + q) 0 + 1)) ∧
    (∀ q, 1 ≤ q → q < cacheBits.getD ci 0 → cacheBits.getD (ci + q) 0 ≤ cacheBits.getD (ci + q + 1) 0) ∧
    (3 ≤ bandN eBands lm1 band → ∀ q, 1 ≤ q → q < cacheBits.getD ci 0 →
      cacheBits.getD (ci + q) 0 < cacheBits.getD (ci + q + 1) 0) :=
  OpusProofs.CwrsRanges.p2b_cache hl hb hci

/-- The shipped `cache.caps` (static_modes_float.h `cache_caps50`) is what the second half of `compute_pulse_cache`
    (rate.c:145-242, re-implemented as `Opus.Rate.computeCaps`) computes from the shipped `cache.index`, `cache.bits`,
    `eBands` and `logN`; in particular every computed cap is in `0..255` (the two `celt_assert`s). -/
theorem cache_caps_recomputed :
    computeCaps cacheIndex cacheBits eBands logN nbEBands maxLM = cacheCaps.map Int.ofNat :=
  OpusProofs.CwrsRanges.caps_eq

example : cacheCaps.length = 2 * (maxLM + 1) * nbEBands ∧ capEntry cacheIndex cacheBits eBands logN nbEBands 3 2 20 = 40 := by
  decide +kernel

/-- 32-bit ranges in cwrs.c for every reachable `(N,K)`: `V(N,K) < 2^32`; the accumulator of `icwrs` after any
    number of loop iterations (`encS (y.drop j)`, by `OpusProofs.CwrsModel.icwrsAux_agree`) is below `V(N,K)`; each
    iteration of `cwrsi` (`stepS`, by `cwrsiStep_agree`) keeps the pulse count, leaves an index below
    `V(n−1,k') ≤ V(n,k)`, and subtracts only values that are ≤ the running index (no unsigned wrap). -/
theorem cwrs_int_ranges (N K b : Nat) (h : Reach N K b) :
    V N K < 4294967296 ∧
    (∀ y : List Int, y.length = N → sumAbs y = K → ∀ j, j < N → OpusProofs.CwrsBij.encS (y.drop j) < V N K) ∧
    (∀ m k i, 1 ≤ m → i < V (m + 1) k →
      (OpusProofs.CwrsModel.stepS (m + 1) k i).2.1 ≤ k ∧
      (OpusProofs.CwrsModel.stepS (m + 1) k i).2.2 < V m (OpusProofs.CwrsModel.stepS (m + 1) k i).2.1 ∧
      V m (OpusProofs.CwrsModel.stepS (m + 1) k i).2.1 ≤ V (m + 1) k ∧
      U (m + 1) (OpusProofs.CwrsModel.stepS (m + 1) k i).2.1 ≤ (if U (m + 1) (k + 1) ≤ i then i - U (m + 1) (k + 1) else i)) := by
  obtain ⟨_, _, hV, _⟩ := OpusProofs.CwrsCache.reach_facts h
  refine ⟨hV, ?_, fun m k i hm hi => OpusProofs.CwrsRanges.cwrsi_step_range m k i hm hi⟩
  intro y hl hs j hj
  subst hl hs
  exact OpusProofs.CwrsRanges.icwrs_partial_lt y j hj


/-- `opus_int16 val` and the float accumulator `yy` of `cwrsi` lose nothing: for every reachable `(N,K)`, `K ≤ 128`, and
    every vector with `K` pulses has coordinates of magnitude ≤ K < 2^15 and `Σ y² ≤ K² ≤ 2^14 < 2^24` (exact in a
    float). -/
theorem cwrs_val_ranges (N K b : Nat) (h : Reach N K b) (y : List Int) (hs : sumAbs y = K) :
    K ≤ 128 ∧ (∀ v ∈ y, v.natAbs ≤ K) ∧ sumSq y ≤ K * K ∧ K * K ≤ 16384 := by
  have hK := OpusProofs.CwrsRanges.reach_K_le h
  subst hs
  exact ⟨hK, OpusProofs.CwrsRanges.coord_le y, OpusProofs.CwrsRanges.sumSq_le y, Nat.mul_le_mul hK hK⟩


/-! ## CELT bit allocation (celt/rate.c `clt_compute_allocation` / `interp_bits2pulses`, celt/celt.c `init_caps`)

  Model `Opus.CeltAlloc` (OpusModel/CeltAlloc.lean): `computeAllocation p coder`, with the range coder abstracted as
  the list of calls made (`Op.bit v` for `ec_*_bit_logp(…,1)`, `Op.uint v ft` for `ec_*_uint`) and, on the decoder
  side, an oracle list of the values they return.  `Dom p` is the domain: `start < end ≤ 21`, `C ∈ {1,2}`, `LM ≤ 3`,
  `offsets[j] ≥ 0`, `0 ≤ cap[j] ≤ 2^24`, `total ≤ 2^24` (negative totals allowed: the code clamps them to 0). -/

/-- `init_caps(m, cap, LM, C)` yields caps inside `Dom` for every frame size and channel count. -/
theorem init_caps_domain (LM C : Nat) (hLM : LM ≤ 3) (hC : C = 1 ∨ C = 2) (j : Nat) :
    0 ≤ (Opus.CeltAlloc.initCaps LM C).getD j 0 ∧ (Opus.CeltAlloc.initCaps LM C).getD j 0 ≤ 16777216 :=
  OpusProofs.CeltAlloc.initCaps_bounds LM C hLM hC j

example : (Opus.CeltAlloc.initCaps 3 2).getD 20 0 = 9152 ∧ (Opus.CeltAlloc.initCaps 0 1).getD 0 0 = 72 := by decide +kernel

/-- **Totality, ranges and the budget.**  For every input in the domain, encoder side (with a dual-stereo decision in
    {0,1} and a non-negative intensity) or decoder side (any oracle):
    (a) the function returns normally — both bisections and the band-skipping `for(;;)` loop terminate and no
        `celt_assert` fires;
    (d) `start < codedBands ≤ end`, `0 ≤ intensity ≤ codedBands`, `dual_stereo ∈ {0,1}`, `balance ≥ 0`;
    (c) for every band `0 ≤ pulses[j] ≤ cap[j]` (`≤ C<<BITRES` for a single-coefficient band), `0 ≤ ebits[j] ≤
        MAX_FINE_BITS`, `fine_priority[j] ∈ {0,1}` (`AllOkB`);
    (b) the allocation never promises more than the frame has — in fact every 1/8 bit is accounted for:
        `Σ_j (pulses[j] + (C·ebits[j] << BITRES)) + balance + cost(signalling) = max(total, 0)`, where a skip / dual
        stereo flag costs 8 and the intensity `uint` is charged `LOG2_FRAC_TABLE[codedBands-start]`. -/
theorem alloc_total_ranges_budget (p : Opus.CeltAlloc.Inp) (hp : OpusProofs.CeltAlloc.Dom p) (c : Opus.CeltAlloc.Coder)
    (hc : c.ops = [])
    (henc : c.encode = true → (p.dualStereo = 0 ∨ p.dualStereo = 1) ∧ 0 ≤ p.intensity) :
    ∃ o, Opus.CeltAlloc.computeAllocation p c = .ok o ∧
      p.start < o.codedBands ∧ o.codedBands ≤ p.end_ ∧
      0 ≤ o.intensity ∧ o.intensity ≤ o.codedBands ∧ (o.dualStereo = 0 ∨ o.dualStereo = 1) ∧ 0 ≤ o.balance ∧
      OpusProofs.CeltAlloc.AllOkB p (Opus.CeltAlloc.bands p) o.bands ∧
      OpusProofs.CeltAlloc.sumOut (p.C : Int) o.bands + o.balance + OpusProofs.CeltAlloc.opsCost o.ops = max p.total 0 := by
  obtain ⟨o, h1, h2, h3, h4, h5, h6, h7, h8, h9⟩ := OpusProofs.CeltAlloc.alloc_main p hp c henc
  refine ⟨o, h1, h2, h3, h4, h5, h6, h7, h8, ?_⟩
  rw [h9, hc]; simp [OpusProofs.CeltAlloc.opsCost]

/-- a full-band stereo 20 ms frame with 1000 bytes is in the domain -/
example : OpusProofs.CeltAlloc.Dom
    ⟨0, 21, [], Opus.CeltAlloc.initCaps 3 2, 5, 21, 0, 64000, 2, 3, 0, 20⟩ :=
  ⟨by decide, by decide, Or.inr rfl, by decide, fun j => by simp [List.getD],
   fun j => OpusProofs.CeltAlloc.initCaps_bounds 3 2 (by decide) (Or.inr rfl) j, by decide⟩

/-- **Encoder and decoder compute the same allocation.**  If the encoder-side run returns `o`, the decoder-side run —
    same `start, end, offsets, cap, alloc_trim, total, C, LM`; its own irrelevant `*intensity`, `*dual_stereo`, `prev`,
    `signalBandwidth` — fed with the values the encoder handed to `ec_enc_bit_logp` / `ec_enc_uint`, in order, returns
    exactly the same `codedBands`, `balance`, `intensity`, `dual_stereo`, `pulses[]`, `ebits[]`, `fine_priority[]` and
    makes the same coder calls.  (With C08's `decode_encode` for those calls this is the lock-step of the two sides.) -/
theorem alloc_enc_dec_agree (p : Opus.CeltAlloc.Inp) (hp : OpusProofs.CeltAlloc.Dom p) (orc : List Nat)
    (o : Opus.CeltAlloc.Out) (hint : (p.start : Int) ≤ p.intensity) (hdual : p.dualStereo = 0 ∨ p.dualStereo = 1)
    (h : Opus.CeltAlloc.computeAllocation p { encode := true, oracle := orc, ops := [] } = .ok o)
    (i d pv sb : Int) (rest : List Nat) :
    Opus.CeltAlloc.computeAllocation (OpusProofs.CeltAlloc.decInp p i d pv sb)
      { encode := false, oracle := o.ops.map OpusProofs.CeltAlloc.opVal ++ rest, ops := [] } = .ok o :=
  OpusProofs.CeltAlloc.alloc_agree p hp orc o hint hdual h i d pv sb rest


/-- a concrete instance: the full-band stereo 20 ms frame with 1000 bytes of the `Dom` example, intensity 21, no dual
    stereo: the encoder-side run returns some `o` (`alloc_total_ranges_budget`), all 21 bands stay coded (kernel
    evaluation), and `alloc_enc_dec_agree` applies: the decoder-side run on the coded values returns the same `o` -/
example : ∃ o, Opus.CeltAlloc.computeAllocation ⟨0, 21, [], Opus.CeltAlloc.initCaps 3 2, 5, 21, 0, 64000, 2, 3, 0, 20⟩
      { encode := true, oracle := [], ops := [] } = .ok o ∧ o.codedBands = 21 ∧
    Opus.CeltAlloc.computeAllocation
      (OpusProofs.CeltAlloc.decInp ⟨0, 21, [], Opus.CeltAlloc.initCaps 3 2, 5, 21, 0, 64000, 2, 3, 0, 20⟩ 0 0 0 0)
      { encode := false, oracle := o.ops.map OpusProofs.CeltAlloc.opVal, ops := [] } = .ok o := by
  have hd : OpusProofs.CeltAlloc.Dom ⟨0, 21, [], Opus.CeltAlloc.initCaps 3 2, 5, 21, 0, 64000, 2, 3, 0, 20⟩ :=
    ⟨by decide, by decide, Or.inr rfl, by decide, fun j => by simp [List.getD],
     fun j => OpusProofs.CeltAlloc.initCaps_bounds 3 2 (by decide) (Or.inr rfl) j, by decide⟩
  obtain ⟨o, h, _⟩ := alloc_total_ranges_budget _ hd { encode := true, oracle := [], ops := [] } rfl
    (fun _ => ⟨Or.inl rfl, by decide⟩)
  have hcb : (match Opus.CeltAlloc.computeAllocation ⟨0, 21, [], Opus.CeltAlloc.initCaps 3 2, 5, 21, 0, 64000, 2, 3, 0, 20⟩
      { encode := true, oracle := [], ops := [] } with | .ok o => o.codedBands | _ => 0) = 21 := by decide +kernel
  rw [h] at hcb
  have := alloc_enc_dec_agree _ hd [] o (by decide) (Or.inl rfl) h 0 0 0 0 []
  rw [List.append_nil] at this
  exact ⟨o, h, hcb, this⟩

/-! ## CELT frame header: what the encoder writes, the decoder reads back

  Encoder model `Opus.CeltSymsEnc` (OpusModel/CeltSymsEnc.lean, tied call by call to the real `celt_encode_with_ec`:
  `encHeader cfg s0` runs from function entry to the return of `clt_compute_allocation`; every float-driven decision
  is popped from the decision stream `s0.ds` exactly where the corresponding symbol is written); decoder model
  `Opus.CeltSyms.celtHeader` (owned by C03); range coder `Opus.RangeCoder` and its round trip (C08, used at the level
  of the call list through `decode_encode_prefix`); allocation `Opus.CeltAlloc` (above).
  `World`: one packet — a buffer, a legal list of range-coder calls `all`, no coder error, final length `w.len`,
  `w.encAt P` / `w.decAt P` the encoder / decoder (run on the finished bytes) after the calls `P`.  `P0`: the calls
  made before the CELT header (nothing for a CELT-only frame, the SILK layer and redundancy flag of a hybrid frame). -/

/-- **The CELT header round trip** (non-silent frame).  For every configuration (`start < end ≤ 21`, `C ∈ {1,2}`,
    `LM ≤ 3`, CBR or VBR, `nbCompressedBytes ≤ 1275` with `enc->storage` equal to it on entry), every decision stream,
    every buffer content, every prefix `P0` and every continuation of the packet (band data, `ec_enc_done`): if the
    coder reports no error (that is what a `World` is), nothing shrinks the packet after the header (`w.len = hdr.size`),
    the final length is the size the encoder budgeted with or leaves the room the VBR code guarantees
    (`min_allowed`: 16 whole bits beyond the header, and `tell_frac + total_boost + 48 < len·64`), the packet is not
    already full on entry, the tapset symbol of an active post-filter fits (the decoder's own test, the encoder relies
    on `nbAvailableBytes > 12·C`), and the stereo decisions are in range (`intensity ≥ start`, `dual_stereo ∈ {0,1}`),
    then C03's `celtHeader` run on the finished packet returns (`HdrAgree`):
    silence 0 and exactly the encoder's post-filter parameters, transient and intra flags, coarse energies — each as
    the written symbol means it, i.e. after the budget clamps and the Laplace clamp, and `-[qi<0]` in the one-bit
    fall-back — `tf_res[]`, `tf_select`, spread, dynalloc `offsets[]`, `alloc_trim`, `bits` and the anti-collapse
    reservation; the two coders enter `clt_compute_allocation` with the same `rng`, `ec_tell`, `ec_tell_frac`; the range
    decoder hands the decoder-side allocation exactly the values the encoder-side allocation coded, so that it
    returns the same `codedBands`, `balance`, `intensity`, `dual_stereo`, `pulses[]`, `ebits[]`, `fine_priority[]`
    (`alloc_enc_dec_agree`); and both sides reach the band data with the same `rng`, `ec_tell`, `ec_tell_frac`.
    The content is that every budget test takes the same branch on both sides: the decoder's tests against `len·8`
    with a possibly stale `tell`, `tf_decode`'s against `storage·8` minus the `tf_select` reservation, and the dynalloc /
    trim tests of the decoder against its shrinking `total_bits` versus the encoder's `total_bits − total_boost`. -/
theorem celt_header_roundtrip (w : OpusProofs.CeltHdr.World) (P0 : List Opus.RangeCoder.Op)
    (cfg : Opus.CeltSymsEnc.EncCfg) (s0 : Opus.CeltSymsEnc.St) (hs0 : s0.ops = []) (he0 : s0.e = w.encAt P0)
    (hst0 : s0.e.storage = cfg.size)
    (hdr : Opus.CeltSymsEnc.EncHdr) (hrun : Opus.CeltSymsEnc.encHeader cfg s0 = .ok hdr) (hsil : hdr.silence = 0)
    (hp : w.IsPrefix (P0 ++ hdr.ops))
    (hcfg : cfg.start < cfg.end_ ∧ cfg.end_ ≤ 21 ∧ (cfg.C = 1 ∨ cfg.C = 2) ∧ cfg.LM ≤ 3)
    (hsz : cfg.size ≤ 1275) (hlen : w.len = hdr.size)
    (hmargin : w.len = cfg.size ∨
      (Opus.RangeCoder.tell (w.encAt (P0 ++ hdr.opsHdr)) + 16 ≤ ((w.len * 8 : Nat) : Int) ∧
       (Opus.RangeCoder.tellFrac (w.encAt (P0 ++ hdr.opsHdr)) : Int) + hdr.totalBoost + 48 < ((w.len * 8 * 8 : Nat) : Int)))
    (hroom : Opus.RangeCoder.tell s0.e < ((w.len * 8 : Nat) : Int))
    (htap : hdr.pf.on ≠ 0 →
      Opus.RangeCoder.tell (w.encAt (P0 ++ hdr.opsPf.dropLast)) + 2 ≤ ((w.len * 8 : Nat) : Int))
    (hint : (cfg.start : Int) ≤ hdr.allocInp.intensity)
    (hdual : hdr.allocInp.dualStereo = 0 ∨ hdr.allocInp.dualStereo = 1) :
    ∃ dh, Opus.CeltSyms.celtHeader ⟨cfg.start, cfg.end_, cfg.C, cfg.LM⟩ w.len (w.decAt P0) = .ok dh ∧
      OpusProofs.CeltHdr.HdrAgree w P0 cfg hdr dh :=
  OpusProofs.CeltHdr.header_roundtrip w P0 cfg s0 hs0 he0 hst0 hdr hrun hsil hp hcfg hsz hlen hmargin hroom htap hint hdual

/-- a 2.5 ms mono CBR frame of 24 bytes, 47 coder calls in the header (13 Laplace symbols, a dynalloc boost, an
    allocation skip flag), evaluated in the kernel: all hypotheses hold -/
example : ∃ hdr, Opus.CeltSymsEnc.encHeader OpusProofs.CeltHdr.Example.cfg OpusProofs.CeltHdr.Example.s0 = .ok hdr ∧
    hdr.silence = 0 ∧ OpusProofs.CeltHdr.Example.world.IsPrefix ([] ++ hdr.ops) ∧
    OpusProofs.CeltHdr.Example.world.len = hdr.size ∧ hdr.ops.length = 47 := by
  obtain ⟨hdr, h1, _, _, _, h5, h6, _, _, h9, _, _, _, _, _, h15, _⟩ := OpusProofs.CeltHdr.Example.hyps
  exact ⟨hdr, h1, h5, h6, h9, h15⟩

/-- a VBR frame with the post-filter on (60 bytes offered, shrunk to 40 behind the header; `ec_tell` 53 at the end of the
    header, tapset coded), evaluated in the kernel: the hypotheses hold with the VBR arm of `hmargin` and a true premise
    of `htap`, and the theorem applies -/
example : ∃ hdr dh, Opus.CeltSymsEnc.encHeader OpusProofs.CeltHdr.Example.cfgV OpusProofs.CeltHdr.Example.s0V = .ok hdr ∧
    hdr.pf.on ≠ 0 ∧ OpusProofs.CeltHdr.Example.worldV.len ≠ OpusProofs.CeltHdr.Example.cfgV.size ∧
    OpusProofs.CeltHdr.HdrAgree OpusProofs.CeltHdr.Example.worldV [] OpusProofs.CeltHdr.Example.cfgV hdr dh := by
  obtain ⟨hdr, h1, h2, h3, h4, h5, h6, h7, h8, h9, h10, h11, h12, h13, h14, h15, h16, _, _⟩ :=
    OpusProofs.CeltHdr.Example.hypsV
  obtain ⟨dh, _, ag⟩ := celt_header_roundtrip OpusProofs.CeltHdr.Example.worldV [] OpusProofs.CeltHdr.Example.cfgV
    OpusProofs.CeltHdr.Example.s0V h2 h3 h4 hdr h1 h5 h6 h7 h8 h9 (Or.inr h11) h12 (fun _ => h14) h15 (Or.inl h16)
  exact ⟨hdr, dh, h1, h13, h10, ag⟩

/-- **The silent frame.**  If the encoder decides on silence (only possible at `ec_tell == 1`, i.e. CELT-only), the
    finished packet has `2 ≤ len ≤ 1275` and `2 ≤ nbCompressedBytes ≤ 1275`: the header consists of the flag
    `ec_enc_bit_logp(1, 15)` and nothing but `ec_enc_shrink` calls; C03's `celtHeader` on the packet returns silence 1;
    after both sides have set `nbits_total` so that `ec_tell` equals their whole budget (the encoder's
    `nbCompressedBytes·8`, the decoder's `len·8` — these differ in VBR), every later budget test fails on both sides,
    and both get the same defaults: post-filter off, transient 0, intra 0, coarse energy −1 in every band,
    `tf_res = tf_select_table[LM][0]`, `tf_select` 0, spread `SPREAD_NORMAL`, no dynalloc boost, trim 5 (`SilentAgree`).
    (No agreement of the allocation is claimed for silent frames: the two sides' `bits` differ when the VBR code
    shrinks the packet; both are below one whole bit.) -/
theorem celt_header_roundtrip_silence (w : OpusProofs.CeltHdr.World) (P0 : List Opus.RangeCoder.Op)
    (cfg : Opus.CeltSymsEnc.EncCfg) (s0 : Opus.CeltSymsEnc.St) (hs0 : s0.ops = []) (he0 : s0.e = w.encAt P0)
    (hst0 : s0.e.storage = cfg.size)
    (hdr : Opus.CeltSymsEnc.EncHdr) (hrun : Opus.CeltSymsEnc.encHeader cfg s0 = .ok hdr) (hsil : hdr.silence ≠ 0)
    (hp : w.IsPrefix (P0 ++ hdr.ops)) (hsz2 : 2 ≤ cfg.size) (hsz : cfg.size ≤ 1275) (hlen2 : 2 ≤ w.len)
    (hlen : w.len ≤ 1275) :
    ∃ dh, Opus.CeltSyms.celtHeader ⟨cfg.start, cfg.end_, cfg.C, cfg.LM⟩ w.len (w.decAt P0) = .ok dh ∧
      OpusProofs.CeltHdr.SilentAgree cfg hdr dh :=
  OpusProofs.CeltHdr.silent_roundtrip w P0 cfg s0 hs0 he0 hst0 hdr hrun hsil hp hsz2 hsz hlen2 hlen

/-- a silent 20 ms stereo VBR frame (100 bytes offered, 2 bytes sent), evaluated in the kernel: all hypotheses hold -/
example : ∃ hdr, Opus.CeltSymsEnc.encHeader OpusProofs.CeltHdr.Example.cfgS OpusProofs.CeltHdr.Example.s0S = .ok hdr ∧
    hdr.silence ≠ 0 ∧ OpusProofs.CeltHdr.Example.worldS.IsPrefix ([] ++ hdr.ops) ∧
    2 ≤ OpusProofs.CeltHdr.Example.worldS.len ∧ hdr.ops = [.bitLogp 1 15, .shrink 2, .shrink 2] := by
  obtain ⟨hdr, h1, _, _, _, h5, h6, _, _, h9, _, h11⟩ := OpusProofs.CeltHdr.Example.hypsS
  exact ⟨hdr, h1, h5, h6, h9, h11⟩

/-- **Where the encoder's own energy state can leave the decoder's.**  For one band and channel of
    `quant_coarse_energy_impl` (`encCoarseOne`, `i ≤ end`): the `qi` the encoder keeps for its `oldEBands[]` / `error[]`
    equals the value the decoder reconstructs from the written symbol in every branch — Laplace, `small_energy_icdf`,
    one bit, nothing — except exactly one: the one-bit fall-back (`budget − tell == 1`) at the first band
    (`i == start`, the only band the `bits_left < 16` clamp to `[-1, 1]` skips) with a kept `qi < −1`; the decoder then
    has −1.  (Observation on the unchanged code, not a violation of a listed property: it desynchronises only the
    encoder's private prediction state.  Reproduction: a hybrid frame whose SILK part leaves exactly one bit, or a
    direct call — `harness/c17_hdrenc.c coarse`.) -/
theorem coarse_state_agrees_except_one_bit_start (cfg : Opus.CeltSymsEnc.EncCfg) (prob : List Nat) (budget : Int)
    (i : Nat) (s : Opus.CeltSymsEnc.St) (q qd : Int) (s' : Opus.CeltSymsEnc.St) (hi : i ≤ cfg.end_)
    (h : Opus.CeltSymsEnc.encCoarseOne cfg prob budget i s = .ok (q, qd, s')) :
    q = qd ∨ (i = cfg.start ∧ budget - Opus.RangeCoder.tell s.e = 1 ∧ q < -1 ∧ qd = -1) :=
  OpusProofs.CeltHdr.coarse_state_agrees_except_one_bit_start cfg prob budget i s q qd s' hi h

/-- the divergent branch is reachable: first band, one bit left, `qi = −3` is kept, the decoder gets −1 -/
example : (match Opus.CeltSymsEnc.encCoarseOne
      { start := 17, end_ := 21, C := 1, LM := 3, vbr := false, lfe := false, size := 10 } [] 2 17
      { e := Opus.RangeCoder.encInit [] 0, ops := [], ds := [-3] } with
    | .ok (q, qd, _) => (q, qd) | _ => (0, 0)) = (-3, -1) := by decide +kernel

/-! ## CELT frame: everything behind the allocation

  Encoder model `Opus.CeltBandsEnc` (OpusModel/CeltBandsEnc.lean, tied call by call to the real encoder on whole
  frames): `quant_fine_energy`, `quant_all_bands(encode = 1)` — `quant_band`, `quant_partition` with its split
  recursion, `quant_band_stereo`, `quant_band_n1`, `compute_theta` with the step, uniform and triangular PDFs and the
  `inv` flag, the PVQ codeword index of every leaf —, the anti-collapse bit and `quant_energy_finalise`; the decisions
  (fine-energy `q2`, quantised `itheta`, `inv`, sign bits, PVQ indices, anti-collapse flag) are inputs popped where the
  symbol is written.  bands.c is one code for both directions, so every integer computation that selects the next
  symbol and its parameters is shared with C03's decoder model `Opus.CeltBands` (its pure functions are used as they
  are); the theorems show that it is evaluated on equal inputs. -/

/-- **The band data round trip.**  With the same `quant_all_bands` arguments on both sides (what `HdrAgree` provides:
    transient flag, `tf_res[]`, anti-collapse reservation, and `len` = the encoder's final size; the allocation is
    `hdr.alloc` on both sides) and from states in lock-step with equal `remaining_bits` (`Sim`): if what the encoder
    model writes behind the allocation is in the packet (no coder error), C03's `afterAlloc` — `unquant_fine_energy`,
    the decode side of `quant_all_bands`, the anti-collapse bit, `unquant_energy_finalise` — reads it back and ends in
    lock-step with the encoder.  Inside, for every symbol: same `b`, `remaining_bits`, `balance`, `qn`, the decoded
    `itheta` equals the encoded one (step PDF; uniform PDF; triangular PDF, whose two-square-root inverse is proved
    correct for every even `qn`, every `itheta ≤ qn` and every point of the coded interval), hence same `delta`,
    `qalloc`, `mbits`/`sbits`/rebalancing, same `q` after the "never bust the budget" loop, same `V(N,K)`.  `Sim` also
    carries the decoder model's trace: it grows by exactly the events of the encoder's calls (`Sim.tr`). -/
theorem celt_bands_roundtrip (w : OpusProofs.CeltHdr.World) (P0 : List Opus.RangeCoder.Op)
    (cfg : Opus.CeltSymsEnc.EncCfg) (hdr : Opus.CeltSymsEnc.EncHdr) (dh : Opus.CeltSyms.CeltHdr) (len : Nat)
    (hlen : len = hdr.size) (h1 : dh.isTransient = hdr.isTransient) (h2 : dh.tfRes = hdr.tfRes)
    (h3 : dh.antiCollapseRsv = hdr.antiCollapseRsv)
    (e : Opus.CeltBandsEnc.ESt) (d : Opus.CeltBands.BSt) (A : List Opus.RangeCoder.Op)
    (hs : OpusProofs.CeltHdr.Sim w P0 A e d)
    (hp : w.IsPrefix (P0 ++ (Opus.CeltBandsEnc.afterAlloc cfg hdr e).s.ops)) :
    OpusProofs.CeltHdr.Sim w P0 A (Opus.CeltBandsEnc.afterAlloc cfg hdr e)
      (Opus.CeltBands.afterAlloc ⟨cfg.start, cfg.end_, cfg.C, cfg.LM⟩ len dh hdr.alloc d) :=
  (OpusProofs.CeltHdr.afterAlloc_step w P0 cfg hdr dh len hlen h1 h2 h3 e d).2 hs hp

/-- the triangular PDF alone: `qn = 6`, `itheta = 5` is coded as `[13, 15)` of 16; both points decode to 5 -/
example : Opus.CeltBandsEnc.triFl 6 5 = 13 ∧ Opus.CeltBandsEnc.triFs 6 5 = 2 ∧
    OpusProofs.Tri.decIt 6 13 = 5 ∧ OpusProofs.Tri.decIt 6 14 = 5 := by decide +kernel

/-- **The CELT frame round trip** (non-silent frame; C02's lock-step clause for CELT at the symbol level).  Under the
    hypotheses of `celt_header_roundtrip`, with `encFrame` (header, allocation, fine energy, band data, anti-collapse
    bit, finalisation — every call up to `ec_enc_done`) in place of `encHeader`, for every decision stream — every
    pulse vector, theta, sign — whose calls the coder accepts without error: C03's complete frame decoder model
    `celtFrame` run on the finished packet returns normally with
    * the encoder's header (`FrameAgree.hdr : HdrAgree`),
    * the encoder's allocation — although `celtFrame` feeds `clt_compute_allocation` from the range decoder one call
      at a time (`allocDrive`): the decoder side of the allocation reads its values strictly in order
      (OpusProofs/CeltAllocPrefix.lean `alloc_oracle_prefix`: two decoder-side runs whose oracles share the first `J`
      values make the same first `J` calls and the same call number `J`), so the partial runs ask for exactly the
      calls the encoder made,
    * a final state (`fin`) that has consumed exactly the encoder's calls, never faulted (no out-of-range pulse cache
      index, `ec_dec_uint` argument or `V(N,K)` look-up) and has the encoder's `rng` — the value
      `OPUS_GET_FINAL_RANGE` reports on both sides (`ec_enc_done` does not change `rng`: C08) — `ec_tell` and
      `ec_tell_frac` (`FrameAgree.rngFin`, `tellFin`, `tellFracFin`),
    * and whose trace of entropy-decoder calls behind the allocation is, call by call, the encoder's call list with the
      encoder's values: `ec_dec_uint` / `ec_dec_bits` / `ec_dec_bit_logp` return the coded PVQ index, fine-energy and
      sign bits and flags, `ec_decode` a point of the coded theta interval followed by `ec_dec_update` with the
      encoder's `fl, fh, ft` (`FrameAgree.trace`, `TraceOk`; from C08's round trip at every prefix). -/
theorem celt_frame_roundtrip (w : OpusProofs.CeltHdr.World) (P0 : List Opus.RangeCoder.Op)
    (cfg : Opus.CeltSymsEnc.EncCfg) (s0 : Opus.CeltSymsEnc.St) (hs0 : s0.ops = []) (he0 : s0.e = w.encAt P0)
    (hst0 : s0.e.storage = cfg.size)
    (fr : Opus.CeltBandsEnc.EncFrame) (hrun : Opus.CeltBandsEnc.encFrame cfg s0 = .ok fr) (hsil : fr.hdr.silence = 0)
    (hp : w.IsPrefix (P0 ++ fr.ops))
    (hcfg : cfg.start < cfg.end_ ∧ cfg.end_ ≤ 21 ∧ (cfg.C = 1 ∨ cfg.C = 2) ∧ cfg.LM ≤ 3)
    (hsz : cfg.size ≤ 1275) (hlen : w.len = fr.hdr.size)
    (hmargin : w.len = cfg.size ∨
      (Opus.RangeCoder.tell (w.encAt (P0 ++ fr.hdr.opsHdr)) + 16 ≤ ((w.len * 8 : Nat) : Int) ∧
       (Opus.RangeCoder.tellFrac (w.encAt (P0 ++ fr.hdr.opsHdr)) : Int) + fr.hdr.totalBoost + 48 <
         ((w.len * 8 * 8 : Nat) : Int)))
    (hroom : Opus.RangeCoder.tell s0.e < ((w.len * 8 : Nat) : Int))
    (htap : fr.hdr.pf.on ≠ 0 →
      Opus.RangeCoder.tell (w.encAt (P0 ++ fr.hdr.opsPf.dropLast)) + 2 ≤ ((w.len * 8 : Nat) : Int))
    (hint : (cfg.start : Int) ≤ fr.hdr.allocInp.intensity)
    (hdual : fr.hdr.allocInp.dualStereo = 0 ∨ fr.hdr.allocInp.dualStereo = 1) :
    ∃ (dh : Opus.CeltSyms.CeltHdr) (sA : Opus.CeltBands.BSt), OpusProofs.CeltHdr.FrameAgree w P0 cfg fr dh ∧
      sA.c = w.decAt (P0 ++ fr.hdr.ops) ∧
      Opus.CeltBands.celtFrame ⟨cfg.start, cfg.end_, cfg.C, cfg.LM⟩ w.len (w.decAt P0) =
        .ok { hdr := dh, alloc := fr.hdr.alloc, allocSt := sA,
              fin := Opus.CeltBands.afterAlloc ⟨cfg.start, cfg.end_, cfg.C, cfg.LM⟩ w.len dh fr.hdr.alloc
                { rem := 0, c := w.decAt (P0 ++ fr.hdr.ops), tr := [], fault := false } } :=
  OpusProofs.CeltHdr.celtFrame_roundtrip w P0 cfg s0 hs0 he0 hst0 fr hrun hsil hp hcfg hsz hlen hmargin hroom htap hint hdual

/-- the 24-byte frame of the header example continued to the last bit: 75 coder calls (fine energy, eight one-sample
    bands, four N = 2 bands, a split N = 4 band with a triangular-PDF theta, finalisation), `ec_tell = 192`: all
    hypotheses hold -/
example : ∃ fr, Opus.CeltBandsEnc.encFrame OpusProofs.CeltHdr.Example.cfg OpusProofs.CeltHdr.Example.s0F = .ok fr ∧
    fr.hdr.silence = 0 ∧ OpusProofs.CeltHdr.Example.worldF.IsPrefix ([] ++ fr.ops) ∧
    OpusProofs.CeltHdr.Example.worldF.len = fr.hdr.size ∧ fr.ops.length = 75 ∧ Opus.RangeCoder.tell fr.fin = 192 := by
  obtain ⟨fr, h1, _, _, _, h5, h6, h7, _, _, _, _, _, h13, h14⟩ := OpusProofs.CeltHdr.Example.hypsF
  exact ⟨fr, h1, h5, h6, h7, h13, h14⟩

end OpusProps.C17
