import OpusProofs.SilkSymsDecode
import OpusProofs.SilkSymsHistory
import OpusProofs.SilkSymsLag
import OpusProofs.CeltSymsHeader
import OpusProofs.SilkSymsJ2
import OpusProofs.CeltBandsJ
import OpusProofs.CeltBandsBudget
/-
  Property C03 — "decoder output conforms to the RFC 6716 reference decoder", bit-stream half, stage 1:
  the SILK symbol layer.  `Opus.SilkSyms.decodePacket` (OpusModel/SilkSyms.lean) is the frozen normative
  reference for which symbols `opus_decode` reads from a SILK-only / hybrid packet, in which order and with
  which tables; the differential run (harness/c03_silksyms.c) ties it to the code.  The theorems below are
  about that reference: it is total, it never leaves a table, the tables it uses are well-formed.

  Not stated here (see tools/props/C03.py, UNPROVED / NOT_COVERED): lock-step with the encoder (corollary of
  C08), the CELT symbol layer (stage 2), and the PCM-tolerance clause (no reference decoder offline).
-/
namespace OpusProps.C03
open Opus Opus.RangeCoder Opus.SilkSyms Opus.SilkSymsProofs

/-- "The model is total": every recursion of `OpusModel/SilkSyms.lean` is structural (no fuel, no
    well-founded recursion of its own — the only one it calls is `ec_dec_normalize`, C08), so `decodePacket`
    is defined on every byte string, sampling rate, FEC flag and decoder history; and on none of them does it
    reach a state the C code has no defined behaviour for: it never reads outside the packet (`.oob`) and
    never trips one of the `celt_assert`s on the frame duration / internal rate / bandwidth (`.abort`). -/
theorem silkSyms_total (fs : Nat) (decodeFec prevModeCelt : Bool) (st : SilkSt) (pkt : Bytes) :
    decodePacket fs decodeFec prevModeCelt st pkt ≠ .oob ∧ decodePacket fs decodeFec prevModeCelt st pkt ≠ .abort :=
  decodePacket_nofault fs decodeFec prevModeCelt st pkt

example : decodePacket 48000 false false {} [0x4c, 0x9a, 0x3b, 0x71, 0x05, 0xe0, 0x2f] ≠ .oob :=
  (silkSyms_total _ _ _ _ _).1
/-- non-vacuity: a stereo wide-band 20 ms packet of arbitrary bytes really runs through the whole symbol layer -/
example : (match decodePacket 48000 false false {} [0x4c, 0x9a, 0x3b, 0x71, 0x05, 0xe0, 0x2f] with
           | .ok (some [.silk 1 o]) => decide (o.evs.length ≥ 7) | _ => false) = true := by decide +kernel

/-- "Every decoded index lies inside the table it later indexes": for every packet, every decoder history and
    both decoding modes, each event the symbol layer emits satisfies `EvOk` —
    * `IndicesOk`: `signalType ≤ 2`, `quantOffsetType ≤ 1`, one gain index per sub-frame (`< 64` absolute,
      `< 41` delta), NLSF first-stage index `< nVectors = 32` with every `ec_sel` read in bounds, `order`
      residuals in `[-10, 10]` after the extension rule, interpolation factor `≤ 4`, lag index absolute in
      `[0, 32·fs_kHz/2)` or a −8…+11 delta on the previous one, contour index inside the contour table of the
      rate / frame size, `PERIndex ≤ 2`, LTP indices `< 8 << PERIndex`, LTP scale `≤ 2`, seed `≤ 3`;
    * `PulsesOk`: rate level `≤ 8`, one `sum_pulses ≤ 16` and one `nLshifts ≤ 10` per shell block, every
      block 16 pulses of magnitude `≤ 17407`;
    * `StereoOk`: predictor table indices `≤ 14` (so `ix+1 < 16`), sub-step indices `< 5`;
    * header flags are bits, `LBRR_flags` has `MAX_FRAMES_PER_PACKET = 3` entries, mid-only flag is a bit. -/
theorem silkSyms_indices_in_range (fs : Nat) (decodeFec prevModeCelt : Bool) (st : SilkSt) (pkt : Bytes)
    (frames : List FrameRes) (h : decodePacket fs decodeFec prevModeCelt st pkt = .ok (some frames)) :
    ∀ f ∈ frames, FrameResOk f :=
  decodePacket_ok fs decodeFec prevModeCelt st pkt frames h

/-- non-vacuity: the hypothesis holds for a concrete 3-frame (60 ms) medium-band packet that decodes 3 frames -/
example : (match decodePacket 16000 false false {} [0x38, 0x7f, 0x80, 0x01, 0xfe, 0x55, 0xaa, 0x13, 0x37, 0xc0, 0xde] with
           | .ok (some [.silk 1 o]) => decide (o.evs.length ≥ 9) | _ => false) = true := by decide +kernel

/-- The same at the level of one `silk_decode_indices` call, for every range-decoder state: the statement
    consumed by C18 (dequantisers are only ever called with indices inside their codebooks). -/
theorem silkSyms_decode_indices_in_range (rate : Rate) (nbSubfr : Nat) (hnb : 1 ≤ nbSubfr) (vadOrLbrr : Bool)
    (condCoding prevSignalType : Nat) (prevLagIndex : Int) (c : Dec) (ix : Indices) (c' : Dec)
    (h : decodeIndices rate nbSubfr vadOrLbrr condCoding prevSignalType prevLagIndex c = (ix, c')) :
    IndicesOk rate nbSubfr condCoding prevSignalType prevLagIndex ix :=
  decodeIndices_ok rate nbSubfr hnb vadOrLbrr condCoding prevSignalType prevLagIndex c ix c' h

example (c : Dec) : ∃ ix c', decodeIndices .wb 4 true 2 2 100 c = (ix, c') :=
  ⟨(decodeIndices .wb 4 true 2 2 100 c).1, (decodeIndices .wb 4 true 2 2 100 c).2, (Prod.eta _).symm⟩

/-- Every inverse-CDF slice the model hands to `ec_dec_icdf` starts below 256, is strictly decreasing down to a
    terminating `0`, and that `0` sits exactly at (number of symbols − 1); every constant of silk/define.h written
    as a literal in the model equals the table-file value. -/
theorem silkSyms_tables_wellformed : slicesOk = true ∧ SilkSyms.constsOk = true :=
  ⟨slicesOk_true, constsOk_true⟩

/-- The reference is frozen and the tree still agrees with it: each of the frozen normative tables and constants
    the model reads (OpusModel/SilkSymsFrozen.lean) is equal to the value regenerated from `/repo` on this run.
    A changed probability-table entry in the tree breaks this theorem (and makes `opus_decode` disagree with the
    reference on concrete packets in the correspondence run). -/
theorem silkSyms_tables_frozen_eq_repo : frozenEqAll = true := frozenEqAll_true

example : usedSlices.length = 168 := by decide +kernel

/-- The only C loop of the symbol layer without a syntactic bound, `while( sum_pulses[i] == SILK_MAX_PULSES+1 )`
    (decode_pulses.c:72), is modelled by its ten possible iterations.  Whatever the decoder state and whatever
    symbol `sp ≤ 17` entered it, when the unrolling ends the loop condition is false (`sum_pulses ≤ 16 ≠ 17`) and
    at most ten LSB planes were counted: the C loop has exited too, so the bound is never what stops it. -/
theorem silkSyms_lsb_loop_exits (c : Dec) (sp : Nat) (hsp : sp ≤ 17) :
    (lsbCountLoop 10 c 0 sp).2.1 ≤ 16 ∧ (lsbCountLoop 10 c 0 sp).1 ≤ 10 :=
  have h := lsbCountLoop_ok 10 c 0 sp (by omega) hsp (by omega)
  ⟨h.2, h.1⟩

example : (17 : Nat) ≤ 17 := Nat.le_refl _

/-- Every entry of the `pulses[]` array written by `silk_decode_pulses` fits `opus_int16` (|q| ≤ 17407 < 2^15):
    the `abs_q = (abs_q << 1) + bit` accumulation and the sign multiplication cannot overflow. -/
theorem silkSyms_pulses_fit_int16 (sig qoff frameLen : Nat) (hs : sig ≤ 2) (c : Dec) (p : Pulses) (c' : Dec)
    (h : decodePulses sig qoff frameLen c = (p, c')) : ∀ v ∈ p.pulses, -32768 ≤ v ∧ v ≤ 32767 := by
  intro v hv
  have hp := decodePulses_ok sig qoff frameLen hs c p c' h
  unfold Pulses.pulses at hv
  simp only [List.mem_flatten] at hv
  obtain ⟨b, hb, hvb⟩ := hv
  have := (hp.signed b hb).2 v hvb
  omega

example (c : Dec) : ∃ p c', decodePulses 2 1 320 c = (p, c') :=
  ⟨(decodePulses 2 1 320 c).1, (decodePulses 2 1 320 c).2, (Prod.eta _).symm⟩

/-- The symbols read from a packet do not depend on the SILK decoder state left by earlier frames / packets:
    from any two incoming states (`ec_prevSignalType`, `ec_prevLagIndex`, VAD/LBRR flags, frame counters,
    `prev_decode_only_middle` of both channels all arbitrary) `decodePacket` yields the same observable result —
    the same events (every index, pulse, flag, `condCoding`, `rng`, `ec_tell`), redundancy fields and final decoder
    context for every frame; only the carried state itself (`FrameOut.st`, erased by `obsPacket`) may differ.
    (Simulation argument: the conditional-coding memory of a channel is read only under `CODE_CONDITIONALLY`,
    and whenever a frame can be coded conditionally the previous frame of that channel was decoded from the same
    packet.)  This is what justifies evaluating the reference from the zero state for every packet. -/
theorem silkSyms_symbols_history_free (fs : Nat) (decodeFec prevModeCelt : Bool) (st st' : SilkSt) (pkt : Bytes) :
    obsPacket (decodePacket fs decodeFec prevModeCelt st pkt) =
    obsPacket (decodePacket fs decodeFec prevModeCelt st' pkt) :=
  decodePacket_hist fs decodeFec prevModeCelt st st' pkt

/-- non-vacuity: `obsPacket` keeps the whole record of a decoded stereo packet (only the carried state is erased) -/
example : (match obsPacket (decodePacket 48000 false false
             { ch0 := { ecPrevSignalType := 2, ecPrevLagIndex := 1000 }, prevDecodeOnlyMiddle := 1 }
             [0x4c, 0x9a, 0x3b, 0x71, 0x05, 0xe0, 0x2f]) with
           | .ok (some [.silk 1 o]) => decide (o.evs.length ≥ 7) | _ => false) = true := by decide +kernel

/-- Packet-level bound on the pitch-lag index: in every frame of every packet, from every decoder history and in both
    decoding modes, a voiced frame's `lagIndex` lies in `[-48, 321]` — far inside `opus_int16`, so the
    `(opus_int16)( ec_prevLagIndex + delta_lagIndex )` store of decode_indices.c:112 never wraps.
    (Counting argument from the zero state — at most `2·nFramesPerPacket ≤ 6` steps of −8…+11 after an absolute lag in
    `[0, 255]` — carried to arbitrary histories by `silkSyms_symbols_history_free`.  The sharper `[-16, 277]`, which
    needs "a conditionally coded frame follows at most two frames after an absolutely coded one", is not proved.) -/
theorem silkSyms_lag_index_packet_bound (fs : Nat) (decodeFec prevModeCelt : Bool) (st : SilkSt) (pkt : Bytes)
    (frames : List FrameRes) (h : decodePacket fs decodeFec prevModeCelt st pkt = .ok (some frames)) :
    ∀ f ∈ frames, FrameResLag f :=
  decodePacket_lag fs decodeFec prevModeCelt st pkt frames h

example : LagEv 6 (.indices 0 1 0 2 .wb 4 2 100 { (default : Indices) with signalType := 2, lagIndex := 111 }) := by
  intro _; constructor <;> decide

/-! ## Stage 2: the CELT frame header (OpusModel/CeltSyms.lean) -/

open Opus.CeltSyms Opus.CeltSymsProofs in
/-- Totality and field ranges of the CELT header symbol layer.  `J c` is the stand-alone range-decoder invariant
    (`val < 2^32`, `2^23 < rng ≤ 2^31`).  From any such decoder state, for every band range, channel count, `LM ≤ 3`
    and frame length, `celtHeader` decodes — none of laplace.c's `celt_assert`s can fire — and (`HdrOk`):
    silence / transient / intra / tf_select are bits; post-filter octave ≤ 5, hence period in `[15, 1022]`, gain
    index ≤ 7, tapset ≤ 2; one coarse-energy symbol per band and channel, each either a budget fallback value
    (−1, 0, 1) or a value `ec_laplace_encode` represents without clamping for the parameters of its band model
    (C17's `laplace_decode_encode`); one `tf_res` per band in `[-3, 3]` (inside `tf_select_table`); spread ≤ 3;
    one dynalloc boost per band, `0` or below `cap + quanta`; trim ≤ 10; and the decoder state handed to
    `clt_compute_allocation` satisfies `J` again. -/
theorem celtHdr_total_in_range (cfg : CeltCfg) (hLM : cfg.LM < 4) (len : Nat) (c : Dec) (hj : J c) :
    ∃ h, celtHeader cfg len c = .ok h ∧ HdrOk cfg h :=
  celtHeader_ok cfg hLM len c hj

open Opus.CeltSyms Opus.CeltSymsProofs in
/-- … in particular for a CELT-only frame and for a redundancy frame of *arbitrary bytes*: `ec_dec_init` establishes
    `J` whatever the bytes are. -/
theorem celtHdr_total_arbitrary_bytes (bandwidth nCh spf48 : Nat) (frame : Bytes) :
    (∃ h, celtOnlyHeader bandwidth nCh spf48 frame = .ok h ∧
      HdrOk { start := 0, end_ := endBandOf bandwidth, C := nCh, LM := lmOf spf48 } h) ∧
    (∃ h, CeltSyms.redundancyHeader bandwidth nCh frame = .ok h ∧
      HdrOk { start := 0, end_ := endBandOf bandwidth, C := nCh, LM := 1 } h) := by
  constructor
  · unfold celtOnlyHeader
    exact celtHeader_ok _ (by unfold lmOf; dsimp only; split <;> (try split) <;> (try split) <;> omega) _ _
      (J_decInit frame frame.length)
  · unfold CeltSyms.redundancyHeader
    exact celtHeader_ok _ (by dsimp only; omega) _ _ (J_decInit frame frame.length)

/-- non-vacuity: a concrete 20 ms stereo full-band CELT frame of arbitrary bytes decodes to a header with a
    post-filter, 42 coarse-energy symbols and a long call trace -/
example : (match CeltSyms.celtOnlyHeader 1105 2 960
             [0x5a, 0xc3, 0x17, 0x88, 0x3e, 0xf1, 0x02, 0x9b, 0x64, 0xd5, 0x2c, 0x71, 0xae, 0x0f, 0x93, 0x48,
              0x5a, 0xc3, 0x17, 0x88, 0x3e, 0xf1, 0x02, 0x9b, 0x64, 0xd5, 0x2c, 0x71, 0xae, 0x0f, 0x93, 0x48] with
           | .ok h => decide (h.coarse.length = 42 ∧ h.trace.length ≥ 60) | _ => false) = true := by decide +kernel

open Opus.CeltSyms Opus.CeltSymsProofs in
/-- The hybrid hand-over is unconditional: whatever the bytes, the decoder history and the configuration are, the
    range-decoder state `opus_decode_frame` is left with after the SILK data and the redundancy header of a frame
    (`decodeOpusFrame … = .ok o`, any mode) satisfies `J` — every SILK table is made of strictly decreasing
    zero-terminated runs, so no `ec_dec_icdf` can leave `rng` outside `(2^23, 2^31]` — and therefore the CELT header
    of a hybrid frame decodes from it (no laplace.c assertion) with every field legal, for every length that
    `opus_decode_frame` may pass on. -/
theorem celtHdr_hybrid_total_in_range (mode bandwidth nCh frameMs10 spf48 len : Nat) (decodeFec : Bool) (st : SilkSt)
    (frame : Bytes) (o : FrameOut) (h : decodeOpusFrame mode bandwidth nCh frameMs10 decodeFec st frame = .ok o) :
    J o.dec ∧ ∃ hd, hybridHeader bandwidth nCh spf48 len o.dec = .ok hd ∧
      HdrOk { start := 17, end_ := endBandOf bandwidth, C := nCh, LM := lmOf spf48 } hd := by
  have hj := decodeOpusFrame_J mode bandwidth nCh frameMs10 decodeFec st frame o h
  refine ⟨hj, ?_⟩
  unfold hybridHeader
  exact celtHeader_ok _ (by unfold lmOf; dsimp only; split <;> (try split) <;> (try split) <;> omega) _ _ hj

/-- non-vacuity: a 20 ms mono super-wide-band hybrid frame of arbitrary bytes — the SILK layer, the redundancy header
    and then a CELT header with 2 coarse-energy symbols (bands 17, 18) read from the handed-over state -/
example : (match decodeOpusFrame 1001 1104 1 200 false {}
             [0x5a, 0xc3, 0x17, 0x88, 0x3e, 0xf1, 0x02, 0x9b, 0x64, 0xd5, 0x2c, 0x71, 0xae, 0x0f, 0x93, 0x48,
              0x5a, 0xc3, 0x17, 0x88, 0x3e, 0xf1, 0x02, 0x9b, 0x64, 0xd5, 0x2c, 0x71, 0xae, 0x0f, 0x93, 0x48] with
           | .ok o => (match CeltSyms.hybridHeader 1104 1 960 o.len.toNat o.dec with
                       | .ok hd => decide (hd.coarse.length = 2 ∧ o.evs.length ≥ 3) | _ => false)
           | _ => false) = true := by decide +kernel

open Opus.CeltSyms Opus.CeltBands Opus.CeltBandsProofs in
/-- Stage 2b, the band data behind the allocation (`OpusModel/CeltBands.lean`: `unquant_fine_energy`, `quant_all_bands`
    with `quant_band` / `quant_band_stereo` / `quant_partition` / `compute_theta`, the anti-collapse bit,
    `unquant_energy_finalise`): for ANY allocation result — arbitrary `pulses[]`, `fine_quant[]`, `fine_priority[]`,
    intensity, dual-stereo, balance, codedBands — any decoder state and arbitrary bytes, the model never raises `fault`:
    every pulse-cache row it reads lies inside `cache.bits` (`cache.index ≥ 0`, `ci + cache[0]` inside the array; all
    look-ups of `bits2pulses` / `pulses2bits` / the split test stay within `cache[0 .. cache[0]]`), every `ec_dec_uint`
    it issues — `qn+1` of the uniform theta PDF, `V(N,K)` of `decode_pulses` — has `2 ≤ ft < 2^32` (no `celt_assert`),
    and every `V(N,K)` is found inside the `CELT_PVQ_U` table.  The split recursion is structural on `LM+1` (depth ≤ 4);
    the "never bust the budget" loop is structural on `q`; the time-divide loop on `-tf_change`. -/
theorem celtBands_no_fault (cfg : CeltCfg) (len : Nat) (h : CeltHdr) (o : Opus.CeltAlloc.Out) (s : BSt)
    (hl : cfg.LM < 4) (hse : cfg.start ≤ cfg.end_) (he : cfg.end_ ≤ 21) (hs : s.fault = false) :
    (afterAlloc cfg len h o s).fault = false :=
  afterAlloc_fault cfg len h o s hl hse he hs

open Opus.CeltSyms Opus.CeltBands Opus.CeltBandsProofs Opus.CeltSymsProofs in
/-- Totality of the whole CELT frame model `celtFrame` (header, C17's `computeAllocation` driven by the range decoder,
    band data, final range): from any decoder state satisfying `J` and every legal configuration it returns a frame —
    never an error (CELT has no error return on packet data any more: the `ec_tell(dec) > 8*len` test of
    celt_decoder.c:1357 only sets `st->error`), never `.oob` / `.abort` — no laplace.c assertion; the header puts the allocation input inside C17's domain (`allocInp_dom`), so the allocation returns
    (C17's `alloc_main`) after at most 23 coder calls whose `ec_dec_uint` has `2 ≤ ft ≤ 22` (`allocOps_of_dom`, proved
    from C17's model), so the oracle-driving loop `allocDrive` ends; and the band data never faults
    (`celtBands_no_fault`). -/
theorem celtFrame_total (cfg : CeltCfg) (len : Nat) (c : Dec) (hj : J c) (hl : cfg.LM < 4)
    (hC : cfg.C = 1 ∨ cfg.C = 2) (hse : cfg.start < cfg.end_) (he : cfg.end_ ≤ 21) (hlen : len ≤ 262144) :
    ∃ f, celtFrame cfg len c = .ok f :=
  Opus.CeltBandsProofs.celtFrame_total cfg len c hj hl hC hse he hlen
    (fun h hh => allocOps_of_dom _ (allocInp_dom cfg len c h hh hl hC hse he hlen))

open Opus.CeltSyms Opus.CeltBands Opus.CeltBandsProofs Opus.CeltSymsProofs in
/-- … in particular for every CELT-only frame of ARBITRARY BYTES (`ec_dec_init` establishes `J`) at every bandwidth,
    frame size and channel count, and for the CELT part of every hybrid frame (super-wide-band or full-band: `end > 17`) behind an arbitrary SILK
    part. -/
theorem celtFrame_total_arbitrary_bytes (bandwidth nCh spf48 : Nat) (hC : nCh = 1 ∨ nCh = 2) (frame : Bytes)
    (hlen : frame.length ≤ 1275) :
    (∃ f, celtFrame { start := 0, end_ := endBandOf bandwidth, C := nCh, LM := lmOf spf48 } frame.length
            (decInit frame frame.length) = .ok f) ∧
    (∀ mode ms10 fec st o len, len ≤ 1275 → 17 < endBandOf bandwidth → decodeOpusFrame mode bandwidth nCh ms10 fec st frame = .ok o →
      ∃ f, celtFrame { start := 17, end_ := endBandOf bandwidth, C := nCh, LM := lmOf spf48 } len o.dec = .ok f) := by
  have hlm : lmOf spf48 < 4 := by unfold lmOf; split <;> (try split) <;> (try split) <;> omega
  have he : endBandOf bandwidth ≤ 21 := by unfold endBandOf; split <;> (try split) <;> (try split) <;> omega
  have hs0 : 0 < endBandOf bandwidth := by unfold endBandOf; split <;> (try split) <;> (try split) <;> omega
  constructor
  · exact celtFrame_total _ _ _ (J_decInit frame frame.length) hlm hC hs0 he (by omega)
  · intro mode ms10 fec st o len hl h17 ho
    exact celtFrame_total _ _ _ (decodeOpusFrame_J mode bandwidth nCh ms10 fec st frame o ho) hlm hC h17 he (by omega)

open Opus.CeltSyms Opus.CeltBands Opus.CeltBandsProofs Opus.CeltSymsProofs in
/-- The decoder invariant `J` survives a whole CELT frame: every state the frame model passes through — at the entry of
    the allocation, behind it, and at the end of the frame (whose `rng` is the packet's final range) — satisfies
    `val < 2^32`, `2^23 < rng ≤ 2^31`; in particular every `ec_dec_update(fl, fh, ft)` of the three theta PDFs has
    `fl < fh ≤ ft ≤ 32768` and every `ec_dec_uint` (multi-byte path included) leaves the range normalised. -/
theorem celtFrame_preserves_J (cfg : CeltCfg) (len : Nat) (c : Dec) (hj : J c) (hl : cfg.LM < 4)
    (hC : cfg.C = 1 ∨ cfg.C = 2) (hse : cfg.start < cfg.end_) (he : cfg.end_ ≤ 21) (hlen : len ≤ 262144) (f : CeltFrame)
    (hf : celtFrame cfg len c = .ok f) : J f.fin.c ∧ J f.allocSt.c ∧ J f.hdr.dec :=
  celtFrame_J cfg len c hj hl hC hse he hlen f hf

open Opus.CeltSyms Opus.CeltBands Opus.CeltBandsProofs in
/-- The budget discipline of the band data, exactly as far as the code's accounting carries (bands.c:1046-1059, 930-941;
    `ctx->remaining_bits` = `total_bits - ec_tell_frac - 1` at the start of a band, in 1/8 bit):
    with `q = leafQ …` the pseudo-pulse index a no-split partition ends with (`bits2pulses(b)` lowered by the "never bust
    the budget" loop), the partition charges exactly the CACHED cost `pulses2bits(q)` of that `q`; for `q = 0` it reads
    nothing; for `q ≠ 0` the tracked budget is still non-negative after the charge and the one call it adds to the trace
    is `ec_dec_uint(V(N, get_pulses(q)))` for that same `q`; a sign bit of an
    `N = 1` band is read only while 8 (one whole bit) is left and costs exactly 8.
    This is a statement about cached costs, not about `ec_tell_frac` itself: see UNPROVED `celtFrame_within_budget`. -/
theorem celtBands_reads_within_tracked_budget (i lm1 N : Nat) (b : Int) (s : BSt) :
    (leaf i lm1 N b s).rem = s.rem - p2b (rowOf lm1 i) (leafQ i lm1 b s) ∧
    (leafQ i lm1 b s = 0 → (leaf i lm1 N b s).tr = s.tr) ∧
    (leafQ i lm1 b s ≠ 0 → 0 ≤ (leaf i lm1 N b s).rem ∧
      ∃ v, (leaf i lm1 N b s).tr = .uint (pvqFt N (Opus.Rate.getPulses (leafQ i lm1 b s))) v :: s.tr) ∧
    ((n1One s).tr ≠ s.tr → 8 ≤ s.rem ∧ (n1One s).rem = s.rem - 8) :=
  ⟨(leaf_budget i lm1 N b s).1, (leaf_budget i lm1 N b s).2.1, (leaf_budget i lm1 N b s).2.2, (n1One_budget s).1⟩

/-- non-vacuity: a 10 ms mono wide-band CELT frame of arbitrary bytes runs through allocation, fine energy, the band
    data with theta splits and PVQ indices, and finalisation, without fault and inside its budget -/
example : (match CeltBands.celtFrame { start := 0, end_ := 17, C := 1, LM := 2 } 24
             (decInit [0x5a, 0xc3, 0x17, 0x88, 0x3e, 0xf1, 0x02, 0x9b, 0x64, 0xd5, 0x2c, 0x71, 0xae, 0x0f, 0x93, 0x48,
                       0x5a, 0xc3, 0x17, 0x88, 0x3e, 0xf1, 0x02, 0x9b] 24) with
           | .ok f => decide (f.fin.tr.length ≥ 8 ∧ f.alloc.codedBands ≥ 1) && !f.fin.fault | _ => false) = true := by
  decide +kernel

/-- The frozen tables of the CELT header model (energy probability model, small-energy / trim / spread / tapset ICDFs,
    `tf_select_table`, band edges, allocation caps) equal the tables regenerated from `/repo` on this run. -/
theorem celtHdr_tables_frozen_eq_repo : Opus.CeltSymsProofs.celtFrozenEq = true := Opus.CeltSymsProofs.celtFrozenEq_true

end OpusProps.C03
