import OpusProofs.SilkResampInit
import OpusProofs.SilkResampCall
import OpusProofs.SilkResampLen
import OpusProofs.SilkResampRange
import OpusProofs.SilkResampChunk
import OpusProofs.SilkResampWords
import OpusProofs.SilkResampPartKernel
import OpusProofs.SilkResampApBound
/-
  OpusProps.C03SilkResamp — property C03, slice SilkResamp: theorems about the bit-exact model of the SILK resampler
  (OpusModel/SilkResamp.lean; silk/resampler.c and its kernels).  Statements only; proofs in OpusProofs/SilkResamp*.lean.
-/
namespace OpusProps.C03SilkResamp
open Opus Opus.SilkResamp Opus.Gen.SilkResampRom OpusProofs.SilkResamp

/-- silk_resampler_init accepts exactly the documented rate pairs (encoder: 8/12/16/24/48 kHz → 8/12/16 kHz; decoder:
    8/12/16 kHz → 8/12/16/24/48 kHz; the list `pairs`), for every pair of 32-bit — indeed of arbitrary — integers:
    on an accepted pair it succeeds with one of the 30 tabulated configurations and an otherwise all-zero state, on any
    other pair the hardened build aborts (celt_assert( 0 ), :94 / :102). -/
theorem init_accepts_iff (fsIn fsOut : Int) (forEnc : Bool) :
    ((fsIn, fsOut, forEnc) ∈ pairs → ∃ c ∈ cfgTable, init fsIn fsOut forEnc = .ok (fresh c)) ∧
    ((fsIn, fsOut, forEnc) ∉ pairs → init fsIn fsOut forEnc = .abort) := by
  constructor
  · intro h; exact init_accepted _ _ _ ((accepted_iff_mem _ _ _).2 h)
  · intro h
    apply init_rejected
    cases hacc : accepted fsIn fsOut forEnc
    · rfl
    · exact absurd ((accepted_iff_mem _ _ _).1 hacc) h

example : (8000, 48000, false) ∈ pairs ∧ (44100, 48000, false) ∉ pairs := by decide

/-- Without assertions (celt_assert a no-op) a rejected pair returns -1 and leaves the state the memset produced: every
    field zero — a defined state; an accepted pair returns 0 with the state of `init_accepts_iff`. -/
theorem init_rejected_returns_minus_one (fsIn fsOut : Int) (forEnc : Bool) :
    ((fsIn, fsOut, forEnc) ∉ pairs → initRet fsIn fsOut forEnc = .ok (-1, RS.zero)) ∧
    ((fsIn, fsOut, forEnc) ∈ pairs → ∃ c ∈ cfgTable, initRet fsIn fsOut forEnc = .ok (0, fresh c)) := by
  constructor
  · intro h
    apply initRet_rejected
    cases hacc : accepted fsIn fsOut forEnc
    · rfl
    · exact absurd ((accepted_iff_mem _ _ _).1 hacc) h
  · intro h
    have hacc := (accepted_iff_mem _ _ _).2 h
    obtain ⟨c, hc, hi⟩ := init_accepted _ _ _ hacc
    refine ⟨c, hc, ?_⟩
    unfold accepted at hacc
    unfold initRet
    simp [hacc, hi]

example : initRet 44100 48000 false = .ok (-1, RS.zero) := by decide +kernel

/-- The complete table: the i-th documented pair yields the i-th configuration (resampler_function, batchSize,
    invRatio_Q16, FIR_Order, FIR_Fracs, Fs_in_kHz, Fs_out_kHz, inputDelay, Coefs) — in particular the loop that rounds
    invRatio_Q16 up (:165-167) terminates inside opus_int32 and "None available" (:151-153) is unreachable. -/
theorem init_table :
    pairs.map (fun p => init p.1 p.2.1 p.2.2) = cfgTable.map (fun c => Res.ok (fresh c)) ∧
    ∀ p ∈ pairs, (selectFn p.1 p.2.1).isSome = true :=
  ⟨init_pairs_table, fun p hp => selectFn_isSome p.1 p.2.1 p.2.2 ((accepted_iff_mem _ _ _).2 hp)⟩

example : pairs.length = 30 ∧ cfgTable.length = 30 := by decide

/-- One call of silk_resampler, for every state satisfying the invariant `Inv` (configuration from the table, sFIR /
    delayBuf of their declared sizes, delayBuf holding int16 values) and every input of at least 1 ms
    (`inLen >= Fs_in_kHz`, the celt_assert of :185) of int16 samples: the call is total — no `.oob` (every index into
    in[], delayBuf, sFIR, the ALLOC'd buf, the coefficient tables is in bounds), no `.abort` (neither celt_assert
    fires, FIR_Order is one of the three cases) —, it preserves the invariant and the configuration, writes exactly
    `outLen` samples (`kernelOutLen` for the first millisecond + `kernelOutLen` for the rest, the batch loop's count
    `loopLen` of per-batch `ceil( (n << 16 or 17) / invRatio_Q16 )`), and every sample written is an int16. -/
theorem resampler_total (S : RS) (xs : List Int) (hI : Inv S) (hlen : S.cfg.fsIn ≤ xs.length)
    (hx : ∀ v ∈ xs, I16 v) :
    ∃ S' out, resampler S xs = .ok (S', out) ∧ Inv S' ∧ S'.cfg = S.cfg ∧
      out.length = outLen S.cfg xs.length ∧ ∀ v ∈ out, I16 v :=
  resampler_ok S xs hI hlen hx

example : Inv (fresh ⟨3, 480, 196608, 36, 1, 48, 16, 12, 4⟩) ∧
    outLen ⟨3, 480, 196608, 36, 1, 48, 16, 12, 4⟩ 960 = 320 := ⟨fresh_inv (by decide), by decide +kernel⟩

/-- By induction, for every accepted rate pair and every call history of blocks of at least 1 ms of int16 samples:
    init succeeds and every call is total, with the sample counts of `resampler_total`, int16 outputs, and the
    invariant and configuration still in place at the end. -/
theorem history_total (fsIn fsOut : Int) (forEnc : Bool) (hp : (fsIn, fsOut, forEnc) ∈ pairs) :
    ∃ c ∈ cfgTable, init fsIn fsOut forEnc = .ok (fresh c) ∧
      ∀ bs : List (List Int), GoodBlocks c bs →
        ∃ S' outs, run (fresh c) bs = .ok (S', outs) ∧ Inv S' ∧ S'.cfg = c ∧
          outs.map List.length = bs.map (fun b => outLen c b.length) ∧ ∀ o ∈ outs, ∀ v ∈ o, I16 v := by
  obtain ⟨c, hc, hi⟩ := init_accepted _ _ _ ((accepted_iff_mem _ _ _).2 hp)
  exact ⟨c, hc, hi, fun bs hg => run_ok bs (fresh c) (fresh_inv hc) hg⟩

example : GoodBlocks ⟨2, 80, 87382, 0, 0, 8, 12, 0, 0⟩ [List.replicate 160 32767, List.replicate 8 (-32768)] := by
  intro b hb
  simp only [List.mem_cons, List.not_mem_nil, or_false] at hb
  rcases hb with rfl | rfl
  · exact ⟨by simp, fun v hv => by rw [List.eq_of_mem_replicate hv]; unfold I16; omega⟩
  · exact ⟨by simp, fun v hv => by rw [List.eq_of_mem_replicate hv]; unfold I16; omega⟩

/-- For each of the 30 configurations the first kernel call (1 ms from delayBuf) writes exactly Fs_out_kHz samples,
    so the second kernel call's destination `&out[ Fs_out_kHz ]` (:195-208) is right behind it: the model's
    concatenation of the two outputs is what the code leaves in out[]. -/
theorem resampler_first_call_fills_one_ms : ∀ c ∈ cfgTable, kernelOutLen c c.fsIn = c.fsOut := first_ms_len

example : cfgTable ≠ [] := by decide

/-- The exact sample count the code implements, in closed form, for every configuration and every inLen:
    Fs_out_kHz for the first millisecond, then for the remaining m = inLen - Fs_in_kHz samples
      copy: m;   up2_HQ: 2 m;
      IIR_FIR / down_FIR, with B = batchSize = 10 ms: floor( m / B ) * 10 * Fs_out_kHz for the full batches plus
      ceil( ( m mod B ) * Fs_out / Fs_in ) for the last partial batch — which down_FIR processes only if it has more
      than one sample or is the only batch (`if( inLen > 1 )`, down_FIR.c:178: a single sample left over after a full
      batch is dropped), IIR_FIR whenever it is non-empty (`if( inLen > 0 )`, IIR_FIR.c:97).
    The per-batch count of the code, `ceil( ( n << 16 or 17 ) / invRatio_Q16 )`, equals `ceil( n * Fs_out / Fs_in )`
    for every batch length n ≤ B of every configuration (complete enumeration, `cfgTable_lenFacts`). -/
theorem out_len_formula (c : Cfg) (hc : c ∈ cfgTable) (inLen : Nat) :
    outLen c inLen = c.fsOut + restLen c (inLen - c.fsIn) := outLen_closed c hc inLen

example : restLen ⟨3, 480, 196608, 36, 1, 48, 16, 12, 4⟩ 481 = 160 ∧ restLen ⟨3, 480, 196608, 36, 1, 48, 16, 12, 4⟩ 482 = 161 ∧
    restLen ⟨2, 80, 87382, 0, 0, 8, 12, 0, 0⟩ 81 = 122 := by decide +kernel

/-- The block lengths the callers use: a whole number ms ≥ 1 of milliseconds gives exactly ms * Fs_out_kHz samples
    (= inLen * Fs_out / Fs_in), for every configuration and every ms. -/
theorem out_len_whole_ms (c : Cfg) (hc : c ∈ cfgTable) (ms : Nat) (h : 1 ≤ ms) :
    outLen c (ms * c.fsIn) = ms * c.fsOut := outLen_ms c hc ms h

example : (⟨3, 160, 87382, 18, 3, 16, 12, 3, 1⟩ : Cfg) ∈ cfgTable := by decide

/-- No 32-bit wrap in the interpolation sum of IIR_FIR (IIR_FIR.c:52-59): on a buffer of opus_int16 values — the buffer
    is an opus_int16 array — and for every index inside it, the model's sample (eight `silk_SMLABB` reduced mod 2^32)
    is SAT16( RSHIFT_ROUND( Σ buf_ptr[ i ] * coef[ i ], 15 ) ) with the sum in unbounded integers, and that sum fits
    opus_int32: the C `+` never overflows there. -/
theorem iir_fir_interpolation_exact (buf : List Int) (idx : Int) (h0 : 0 ≤ idx)
    (h : (idx / 65536).toNat + 8 ≤ buf.length) (hb : ∀ v ∈ buf, I16 v) :
    iirFirSample buf idx = .ok (Opus.SilkParams.sat16 (Opus.SilkParams.rshiftRound (exactAcc 0
      (((buf.drop (idx / 65536).toNat).take 8).zip (phaseCoefs (Opus.SilkParams.smulwb (idx % 65536) 12).toNat))) 15)) ∧
    ∀ (t : Fin 12) (w : List Int), (∀ v ∈ w, I16 v) → (exactAcc 0 (w.zip (phaseCoefs t.val))).natAbs ≤ 2147483647 :=
  ⟨iirFirSample_exact h0 h hb, fun t w hw => (iirFir_acc_exact t w hw).2⟩

example : ∀ v ∈ List.replicate 16 (-32768 : Int), I16 v := by
  intro v hv; rw [List.eq_of_mem_replicate hv]; unfold I16; omega

/-- Chunk invariance, partial: for the two kernels that are plain folds over the samples — copy (Fs_in = Fs_out) and
    up2_HQ (Fs_out = 2 Fs_in) — one call on a ++ b equals a call on a followed by a call on b: the outputs concatenate
    and the live state (configuration, sIIR, sFIR, delayBuf[0 .. inputDelay) — the rest of delayBuf is overwritten by
    the next call before it is read) is the same, for EVERY cut that leaves both parts at least 1 ms long (no alignment
    needed: one call processes `stream S xs` = the inputDelay buffered samples ++ the input without its last
    inputDelay samples, and the streams of the two calls concatenate to the stream of the one).
    Partial with respect to ANY cut: the batch kernels IIR_FIR and down_FIR need the cut at a whole millisecond (the
    interpolation index restarts at every call and batch); that case is `chunk_invariance` below. -/
theorem chunk_invariance_fold_kernels_partial (S : RS) (a b : List Int) (hI : Inv S)
    (hfn : S.cfg.fn = useCopy ∨ S.cfg.fn = useUp2HQ) (ha : S.cfg.fsIn ≤ a.length) (hb : S.cfg.fsIn ≤ b.length) :
    ∃ S1 o1 S2 o2 S12 o12, resampler S a = .ok (S1, o1) ∧ resampler S1 b = .ok (S2, o2) ∧
      resampler S (a ++ b) = .ok (S12, o12) ∧ o12 = o1 ++ o2 ∧ S12.cfg = S2.cfg ∧ S12.sIIR = S2.sIIR ∧
      S12.sFIR = S2.sFIR ∧ S12.delayBuf.take S.cfg.inputDelay = S2.delayBuf.take S.cfg.inputDelay := by
  have hc := cfgTable_facts _ hI.cfg
  simp only [cfgFacts, Bool.and_eq_true, decide_eq_true_eq] at hc
  obtain ⟨⟨⟨⟨⟨⟨⟨_, h2⟩, h3⟩, _⟩, _⟩, _⟩, _⟩, _⟩ := hc
  exact chunk_fold S a b hfn h3 h2 hI.dbuf ha hb

example : Inv (fresh ⟨1, 80, 32768, 0, 0, 8, 16, 2, 0⟩) ∧ (fresh ⟨1, 80, 32768, 0, 0, 8, 16, 2, 0⟩).cfg.fn = useUp2HQ :=
  ⟨fresh_inv (by decide), rfl⟩

/-- Every state word stays representable in its C type over every call history from init: the six sIIR words are
    opus_int32; the sFIR words are opus_int16 in the i16 view (IIR_FIR kernel) and opus_int32 otherwise (`WordsOk`) —
    the model never holds a value the struct could not (its wrap-arounds are explicit `wrap32` / `sat16`).  Together
    with `history_total` (sizes, delayBuf int16, configuration) this is the complete state invariant. -/
theorem state_words_representable (c : Cfg) (hc : c ∈ cfgTable) (bs : List (List Int)) (hg : GoodBlocks c bs) :
    WordsOk (fresh c) ∧ ∀ r, run (fresh c) bs = .ok r → WordsOk r.1 :=
  ⟨fresh_words c, run_words bs (fresh c) (fresh_inv hc) (fresh_words c) hg⟩

example : GoodBlocks ⟨3, 160, 131072, 24, 1, 16, 8, 0, 3⟩ [] := fun _ h => by cases h

/-- The single-call form: a call on a state with representable words (and `Inv`) leaves representable words. -/
theorem call_keeps_words_representable (S : RS) (xs : List Int) (hI : Inv S) (hW : WordsOk S)
    (hlen : S.cfg.fsIn ≤ xs.length) (hx : ∀ v ∈ xs, I16 v) : ∀ r, resampler S xs = .ok r → WordsOk r.1 :=
  resampler_words S xs hI hW hlen hx

example : WordsOk (fresh ⟨2, 80, 87382, 0, 0, 8, 12, 0, 0⟩) := fresh_words _

/-- The delay line, for every kernel and every state satisfying `Inv`: (1) one call runs the kernel on the first
    millisecond of `stream S xs` — the inputDelay buffered samples followed by the input without its last inputDelay
    samples — and then on the rest of it; (2) afterwards delayBuf[0 .. inputDelay) holds the last inputDelay input
    samples; (3) hence the streams of two consecutive calls on a, b concatenate to the stream of one call on a ++ b:
    across calls the kernels see the input delayed by exactly inputDelay samples, none lost or duplicated at a call
    boundary.  (Chunk invariance of the whole resampler thereby reduces to that of the kernel on its stream: proved
    for copy / up2_HQ above, open for the batch kernels.) -/
theorem delay_line (S : RS) (a b : List Int) (hI : Inv S) (ha : S.cfg.fsIn ≤ a.length) (hb : S.cfg.fsIn ≤ b.length)
    (hxa : ∀ v ∈ a, I16 v) :
    (resampler S a =
      (kernel { S with delayBuf := dbufAfterCopy S a } ((stream S a).take S.cfg.fsIn)).bind fun r1 =>
      (kernel r1.1 ((stream S a).drop S.cfg.fsIn)).bind fun r2 =>
      (blit r2.1.delayBuf 0 (a.drop (a.length - S.cfg.inputDelay))).bind fun db2 =>
      .ok ({ r2.1 with delayBuf := db2 }, r1.2 ++ r2.2)) ∧
    ∃ S1 o1, resampler S a = .ok (S1, o1) ∧
      S1.delayBuf.take S.cfg.inputDelay = a.drop (a.length - S.cfg.inputDelay) ∧
      stream S (a ++ b) = stream S a ++ stream S1 b := by
  have hc := cfgTable_facts _ hI.cfg
  simp only [cfgFacts, Bool.and_eq_true, decide_eq_true_eq] at hc
  obtain ⟨⟨⟨⟨⟨⟨⟨_, h2⟩, h3⟩, _⟩, _⟩, _⟩, _⟩, _⟩ := hc
  refine ⟨resampler_via_stream S a h3 h2 hI.dbuf ha, ?_⟩
  obtain ⟨S1, o1, hr, _, hc1, _, _⟩ := resampler_ok S a hI ha hxa
  have hd := resampler_dbuf S a hI ha hxa _ hr
  exact ⟨S1, o1, hr, hd, stream_concat S S1 a b hc1 hd (by omega) (by omega)⟩

example : stream (fresh ⟨3, 480, 196608, 36, 1, 48, 16, 12, 4⟩) (List.replicate 48 7) =
    List.replicate 12 0 ++ List.replicate 36 7 := by decide +kernel

/-- Chunk invariance of silk_resampler, every configuration (all four kernels): whenever both parts are a whole number
    of milliseconds (≥ 1 ms each) of int16 samples and the state satisfies `Inv`, one call on a ++ b equals a call on a
    followed by a call on b — the outputs concatenate, and the live state (configuration, sIIR, sFIR,
    delayBuf[0 .. inputDelay); the rest of delayBuf is overwritten by the next call before it is read) is the same.
    For the batch kernels IIR_FIR / down_FIR this is partition independence of the batch loop: on a whole number of
    milliseconds the loop equals the iteration of one-millisecond rounds whatever the batch size cut it into
    (`loop_eq_msIter`), because a round on 1 ms ++ y equals the round on the millisecond followed by the round on y
    — the interpolation index `(Fs_out_kHz + i) * invRatio_Q16` addresses the same samples and the same fractional
    phase as `i * invRatio_Q16` one millisecond later (complete enumeration over the table,
    `cfgTable_iirPartFacts` / `cfgTable_dnPartFacts`) — combined with the delay line (`delay_line`). -/
theorem chunk_invariance (S : RS) (a b : List Int) (hI : Inv S) (ka kb : Nat) (hka : 1 ≤ ka) (hkb : 1 ≤ kb)
    (ha : a.length = ka * S.cfg.fsIn) (hb : b.length = kb * S.cfg.fsIn)
    (hxa : ∀ v ∈ a, I16 v) (hxb : ∀ v ∈ b, I16 v) :
    ∃ S1 o1 S2 o2 S12 o12, resampler S a = .ok (S1, o1) ∧ resampler S1 b = .ok (S2, o2) ∧
      resampler S (a ++ b) = .ok (S12, o12) ∧ o12 = o1 ++ o2 ∧ S12.cfg = S2.cfg ∧ S12.sIIR = S2.sIIR ∧
      S12.sFIR = S2.sFIR ∧ S12.delayBuf.take S.cfg.inputDelay = S2.delayBuf.take S.cfg.inputDelay :=
  chunk_all S a b hI ka kb hka hkb ha hb hxa hxb

example : Inv (fresh ⟨3, 480, 196608, 36, 1, 48, 16, 12, 4⟩) ∧
    (List.replicate 480 (5 : Int)).length = 10 * (fresh ⟨3, 480, 196608, 36, 1, 48, 16, 12, 4⟩).cfg.fsIn :=
  ⟨fresh_inv (by decide), by rw [List.length_replicate]; rfl⟩

/-- No signed overflow in the all-pass sections of silk_resampler_private_up2_HQ (up2_HQ.c:53-98), PARTIAL.  For every
    history of opus_int16 inputs from a state within the magnitude invariant `ApInv` (the zero state of init is), the
    invariant persists, and in every step the three sections of the even phase and the first two of the odd phase
    compute the unreduced values: their silk_SUB32 / silk_SMULWB / silk_SMLAWB / silk_ADD32 never leave opus_int32 (the
    model's `wrap32` is the identity, the C code has no signed overflow there).
    Missing: the third section of the odd phase (coefficient -9994, gain 0.8475: the per-section magnitude invariant
    gives 2154e6 > 2^31, the true l1 gain of the cascade is needed), the AR2 recursion of down_FIR, and the formal
    link from `run` to the filter's input sequence (the filter is only ever fed delayBuf / in[] samples). -/
theorem up2hq_sections_no_overflow_partial :
    ApInv IIR.zero ∧
    (∀ (S : IIR) (xs : List Int), ApInv S → (∀ v ∈ xs, I16 v) → ApInv (up2hq S xs).1) ∧
    ∀ (S : IIR) (x : Int), ApInv S → I16 x →
      apSec (Opus.SilkParams.lshift32 x 10) S.s0 1746 = apSecExact (x * 1024) S.s0 1746 ∧
      apSec (apSecExact (x * 1024) S.s0 1746).1 S.s1 14986 = apSecExact (apSecExact (x * 1024) S.s0 1746).1 S.s1 14986 ∧
      apSec (Opus.SilkParams.lshift32 x 10) S.s3 6854 = apSecExact (x * 1024) S.s3 6854 ∧
      apSec (apSecExact (x * 1024) S.s3 6854).1 S.s4 25769 = apSecExact (apSecExact (x * 1024) S.s3 6854).1 S.s4 25769 ∧
      apSec3 (apSecExact (apSecExact (x * 1024) S.s0 1746).1 S.s1 14986).1 S.s2 (-26453) =
        apSec3Exact (apSecExact (apSecExact (x * 1024) S.s0 1746).1 S.s1 14986).1 S.s2 (-26453) :=
  ⟨apInv_zero, up2hq_apInv, fun S x h hx => (up2hqStep_bounds S x h hx).2⟩

example : hq0 0 = 1746 ∧ hq0 1 = 14986 ∧ hq0 2 = -26453 ∧ hq1 0 = 6854 ∧ hq1 1 = 25769 := by decide

end OpusProps.C03SilkResamp
