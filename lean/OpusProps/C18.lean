import OpusProofs.SilkParamsNlsf
import OpusProofs.SilkParamsLpc
import OpusProofs.SilkParamsGains
import OpusProofs.SilkParamsDec
import OpusProofs.SilkParamsPitchEnc
import OpusProofs.SilkParamsRangeNlsf2a
import OpusProofs.SilkParamsRangeBridge
import OpusProofs.SilkParamsRangeInvGain
import OpusProofs.SilkSynthIdxCore
import OpusProofs.SilkSynthIdxHist
import OpusProofs.SilkSynthIdxParams
import OpusProofs.SilkSynthIdxOut
import OpusProofs.SilkSynthIdxInit
import OpusProofs.SilkParamsPitchSpread
/-
  C18 — SILK side information always dequantises to stable, in-range parameters.

  Model: OpusModel/SilkParams (+ OpusModel/SilkParams/{Fix,Nlsf,Lpc,Gains}.lean), tables
  regenerated from /repo into OpusModel/Gen/SilkNlsf.lean.  Vocabulary (OpusProofs/SilkParamsSpec):
  `I16`/`AllI16` (fits opus_int16), `SpacedFrom 0 x d` (x[0] ≥ d[0], x[i] ≥ x[i-1] + d[i],
  x[L-1] + d[L] ≤ 2^15), `StrictInc`.

  Range theorems (second half of the file).  The model computes in unbounded `Int` and applies
  `wrap32`/`wrap16` only where the C code has an explicit narrowing.  For every modelled function
  a *trace* function (OpusProofs/SilkParamsRange*.lean) lists every value the C code holds in an
  `int`/`opus_int32` (results of plain `+ - *`, operands of `(opus_int32)` casts) and a *casts*
  function lists the operands of the conversions to `opus_int16`; the theorems say `I32` resp.
  `I16` of all of them on the input domain the decoder guarantees.

  Full statement that is NOT proved (kept here as required by the conventions):

    theorem nlsf2a_nowrap_d16 (nlsf : List Int) (hd : nlsf.length = 16)
        (hr : ∀ e ∈ nlsf, 0 ≤ e ∧ e ≤ 32767) (hord : nlsf.Pairwise (· ≤ ·)) :
        ∃ c, nlsf2aCosQA nlsf = .ok c ∧ ∀ e ∈ nlsf2aPoly c, -2147483647 ≤ e ∧ e ≤ 2147483647
    -- i.e. for ORDERED NLSFs of order 16 the final subtraction `a32_QA1[k] = ∓Qtmp - Ptmp`
    -- (NLSF2A.c:125-126) fits 32 bits.  Proved instead (`nlsf2a_nowrap_d16_partial`): everything
    -- before that subtraction fits for all in-range inputs, everything after it fits whenever
    -- `a32_QA1` does, and the subtraction itself DOES overflow for the unordered in-range input
    -- 32767,0,32767,0,… (`nlsf2a_d16_unordered_overflows`), so ordering is necessary.  That
    -- ordering is sufficient is the classical fact that interlaced line spectral frequencies give
    -- a minimum-phase A(z) whose coefficients are bounded by C(16,k) ≤ 12870 (·2^17 = 0.79·2^31);
    -- it needs root-location arguments that are out of reach here.  Search: maximum over ordered
    -- inputs found by hill climbing is exactly that value (all NLSFs equal 0).
-/
namespace OpusProps.C18
open Opus Opus.SilkParams Opus.Gen

/-- Clause "whatever index values a bitstream can carry … at least the codebook's minimum
    spacing" — table side.  For both regenerated NLSF codebooks: array sizes agree with
    `nVectors`/`order` and with the ICDF symbol counts (so decoded indices are in bounds), all
    first-stage weights are positive (no division by zero in `silk_NLSF_decode`), every
    `deltaMin` entry is ≥ 1 and they sum to at most 2^15, and every table read of
    `silk_NLSF_unpack` is in bounds for every first-stage index; the cosine table, the pitch
    contour codebooks and the gain ICDFs have the sizes the decoders index them with. -/
theorem cb_wellformed : CbWellFormed cbNbMb ∧ CbWellFormed cbWb ∧ SideTablesWellFormed :=
  ⟨cbNbMb_wellformed, cbWb_wellformed, sideTables_wellformed⟩

example : cbNbMb.deltaMinQ15 = [250, 3, 6, 3, 3, 3, 4, 3, 3, 3, 461] ∧ cbWb.order = 16 := by decide

/-- Clause "line-spectral frequencies come out strictly ordered with at least the codebook's
    minimum spacing" — the stabiliser.  For EVERY int16 input vector `x` (length L ≥ 1) and EVERY
    minimum-distance table `ds ++ [dL]` with non-negative entries, last entry ≥ 1 and sum ≤ 2^15,
    `silk_NLSF_stabilize` returns (early exit or fallback path) a vector of the same length whose
    entries fit int16 and satisfy `out[0] ≥ d[0]`, `out[i] - out[i-1] ≥ d[i]`, `out[L-1] ≤ 2^15 - d[L]`. -/
theorem stabilize_post (x ds : List Int) (dL : Int) (hx : AllI16 x) (hne : x ≠ [])
    (hlen : ds.length = x.length) (hpos : ∀ e ∈ ds, 0 ≤ e) (hlast : 1 ≤ dL)
    (hsum : sumL ds + dL ≤ 32768) :
    ∃ out, nlsfStabilize x (ds ++ [dL]) = .ok out ∧ SpacedFrom 0 out (ds ++ [dL]) ∧
      out.length = x.length ∧ AllI16 out :=
  nlsfStabilize_spec x (ds ++ [dL]) hx hne
    (by rw [← hlen]; exact DeltaOk_of_facts dL ds 0 hpos hlast (by omega))

/- a reversed vector with a clustered pair: goes through corrective moves -/
example : nlsfStabilize [30000, 200, 200, -5] ([250, 3, 6, 3] ++ [461]) = .ok [7492, 7602, 7608, 7717] := by
  decide +kernel

/-- Clause "line-spectral frequencies come out strictly ordered …" — the decoder.  For both
    codebooks, every first-stage index `cb1 < nVectors` and EVERY residual index vector of length
    `order` (any integers, not only the ±10 a bitstream can produce), `silk_NLSF_decode` performs
    no out-of-bounds read or division by zero and returns `order` values in `[0, 32767]`,
    strictly increasing, spaced by the codebook's `deltaMin`. -/
theorem nlsf_decode_ordered (cb : NlsfCB) (hcb : cb = cbNbMb ∨ cb = cbWb) (cb1 : Nat)
    (h1 : cb1 < cb.nVectors) (idx : List Int) (hlen : idx.length = cb.order) :
    ∃ out, nlsfDecode cb ((cb1 : Int) :: idx) = .ok out ∧ SpacedFrom 0 out cb.deltaMinQ15 ∧
      out.length = cb.order ∧ (∀ e ∈ out, 0 ≤ e ∧ e ≤ 32767) ∧ StrictInc out := by
  rcases hcb with h | h <;> subst h
  · exact nlsfDecode_ordered cbNbMb cbNbMb_wellformed cbNbMb_deltaOk cbNbMb_stage1 cb1 h1 idx hlen
  · exact nlsfDecode_ordered cbWb cbWb_wellformed cbWb_deltaOk cbWb_stage1 cb1 h1 idx hlen

example : nlsfDecode cbNbMb [7, 10, -10, 10, -10, 0, 0, 4, -4, 10, 10] =
    .ok [2775, 2778, 8662, 8665, 13963, 17510, 26518, 28628, 32304, 32307] := by decide +kernel

/-- Clause "the prediction filters derived from them (including interpolated ones) are stable
    with bounded gain and fit their 16-bit format".  For EVERY vector of 10 or 16 values in
    `[0, 32767]` (no ordering assumed, hence interpolated vectors are covered) `silk_NLSF2A`
    returns `d` coefficients that fit int16 and pass the codec's own stability test:
    `silk_LPC_inverse_pred_gain(a_Q12) ≠ 0`.  What the code does: the loop
    `for (i = 0; inv_gain(a) == 0 && i < 16; i++)` either stops on a passing filter, or reaches
    `i = 15` where the chirp factor `65536 - (2 << 15)` is 0, which zeroes the 32-bit filter; the
    re-quantised all-zero filter has inverse gain 2^30 and passes.  A non-zero inverse gain is
    at least `SILK_FIX_CONST(1/MAX_PREDICTION_POWER_GAIN, 30) = 107374` (bounded gain).

    CAVEAT (scope of "EVERY vector").  This is a statement about the MODEL `nlsf2a`, which computes
    `a32_QA1[k] = ∓Qtmp − Ptmp` (NLSF2A.c:125-126) in unbounded integers.  The model equals the C
    code only on inputs where that subtraction fits `opus_int32`:
      * order 10: always (`nlsf2a_nowrap_d10`) — the statement transfers to the C function as is;
      * order 16: only where `a32_QA1` fits 32 bits (hypothesis `hA` of `nlsf2a_nowrap_d16_partial`).
        For UNORDERED in-range input it does not (`nlsf2a_d16_unordered_overflows`: signed overflow,
        undefined behaviour in C), so for such input this theorem says nothing about the C code.
        For ORDERED input (all the decoder and encoder ever pass) the fit is NOT proved either — it is
        only searched (UBSan + 64-bit recomputation, worst value 0.7855·2^31) and listed under
        UNPROVED.  So for order 16 the transfer to C rests on that search, not on a theorem. -/
theorem nlsf2a_passes_stability (nlsf : List Int) (hd : nlsf.length = 10 ∨ nlsf.length = 16)
    (hr : ∀ e ∈ nlsf, 0 ≤ e ∧ e ≤ 32767) :
    ∃ a, nlsf2a nlsf = .ok a ∧ a.length = nlsf.length ∧ AllI16 a ∧
      lpcInversePredGain a ≠ 0 ∧ 107374 ≤ lpcInversePredGain a := by
  obtain ⟨a, ha, hl, hI, hg⟩ := nlsf2a_spec nlsf hd hr
  refine ⟨a, ha, hl, hI, hg, ?_⟩
  rcases lpcInversePredGain_ge a with h | h
  · exact absurd h hg
  · exact h

/- an unordered, clustered input that needs bandwidth expansion before it passes -/
example : nlsf2a [100, 100, 100, 100, 100, 20000, 20000, 20000, 20000, 20000] =
    .ok [10411, -10758, 10164, -11137, 7494, -3318, 2083, -869, -92, 102] := by decide +kernel

/-- Clause "… (including interpolated ones)" — composition as in `silk_decode_parameters`
    (decode_parameters.c:44-80, no packet loss).  For both codebooks, every first-stage index,
    every residual vector, every previous NLSF vector in `[0, 32767]` (e.g. the previous frame's
    stabilised NLSFs), every interpolation factor 0..4 and either value of
    `first_frame_after_reset`: decoding succeeds, the NLSFs are spaced by `deltaMin`, and both the
    interpolated filter `PredCoef_Q12[0]` and the final filter `PredCoef_Q12[1]` fit int16 and pass
    the stability test.

    CAVEAT.  As for `nlsf2a_passes_stability`: a statement about the model, whose `silk_NLSF2A` step is
    computed in unbounded integers.  For the NB/MB codebook (order 10) the model provably equals the C
    code (`nlsf2a_nowrap_d10`, `nlsf_decode_nowrap`).  For the WB codebook (order 16) the NLSFs passed
    to `silk_NLSF2A` are ordered (`nlsf_decode_ordered`; interpolation of ordered vectors is ordered),
    but that `a32_QA1` then fits 32 bits is unproved (UNPROVED: `nlsf2a_nowrap_d16`; search + UBSan
    only), so for order 16 the transfer of this theorem to the C code rests on that search. -/
theorem decode_parameters_stable (cb : NlsfCB) (hcb : cb = cbNbMb ∨ cb = cbWb) (cb1 : Nat)
    (h1 : cb1 < cb.nVectors) (idx prev : List Int) (coef ffar : Int) (hlen : idx.length = cb.order)
    (hpl : prev.length = cb.order) (hpr : ∀ e ∈ prev, 0 ≤ e ∧ e ≤ 32767) (hc0 : 0 ≤ coef) (hc1 : coef ≤ 4) :
    ∃ a0 a1 nlsf, decodeNlsfParams cb ((cb1 : Int) :: idx) prev coef ffar = .ok (a0, a1, nlsf) ∧
      SpacedFrom 0 nlsf cb.deltaMinQ15 ∧ a0.length = cb.order ∧ a1.length = cb.order ∧
      AllI16 a0 ∧ AllI16 a1 ∧ lpcInversePredGain a0 ≠ 0 ∧ lpcInversePredGain a1 ≠ 0 := by
  rcases hcb with h | h <;> subst h
  · exact decodeNlsfParams_spec cbNbMb cb1 idx prev coef ffar (cbNbMb_stage1 cb1 (List.mem_range.mpr h1))
      (by decide) cbNbMb_deltaOk cbNbMb_wellformed.delta_pos hlen hpl hpr hc0 hc1
  · exact decodeNlsfParams_spec cbWb cb1 idx prev coef ffar (cbWb_stage1 cb1 (List.mem_range.mpr h1))
      (by decide) cbWb_deltaOk cbWb_wellformed.delta_pos hlen hpl hpr hc0 hc1

example : decodeNlsfParams cbNbMb [3, 0, 1, -2, 0, 3, 0, 0, -1, 0, 2]
    [1000, 4000, 7000, 10000, 13000, 16000, 19000, 22000, 25000, 28000] 1 0 =
    .ok ([4763, -2165, 1728, -331, -60, -574, 290, -213, 528, -129],
         [3861, -372, 466, 3089, -4097, 13, -771, 394, 1646, -498],
         [1760, 3780, 4608, 11295, 15595, 15598, 18418, 21356, 27208, 31157]) := by
  decide +kernel

/-- Clause "sub-frame gains stay inside the quantiser's range however delta indices
    accumulate".  For EVERY chain of frames (any number of frames, any number of sub-frames, each
    frame independently or conditionally coded), EVERY index value (any integers, not only the
    coded ranges 0..63 / 0..40) and every starting `LastGainIndex` in `[0, 63]`:
    all dequantised gains lie in `[gain(0), gain(63)] = [81920, 1686110208]` (Q16) and
    `LastGainIndex` is again in `[0, 63]` after the chain (hence after every prefix of it). -/
theorem gain_index_inv (frames : List (List Int × Int)) (prev : Int) (h0 : 0 ≤ prev) (h1 : prev ≤ 63) :
    (∀ gs ∈ (gainsDequantChain frames prev).1, ∀ g ∈ gs, gainMinQ16 ≤ g ∧ g ≤ gainMaxQ16) ∧
    0 ≤ (gainsDequantChain frames prev).2 ∧ (gainsDequantChain frames prev).2 ≤ 63 :=
  gainsDequantChain_spec frames prev h0 h1

example : gainsDequantChain [([63, 40, 40, 40], 0), ([40, 0, 0, 0], 1)] 0 =
    ([[1686110208, 1686110208, 1686110208, 1686110208], [1686110208, 897581056, 480247808, 253755392]], 51) := by
  decide +kernel

/-- Same clause, single step: whatever the index, previous index and coding mode, one sub-frame of
    `silk_gains_dequant` leaves `*prev_ind` in `[0, 63]`; and the range ends are attained:
    `gain(0) = 81920`, `gain(63) = 1686110208`, strictly increasing in between. -/
theorem gain_step_range (first : Bool) (cond ind prev : Int) :
    0 ≤ gainDequantPrev first cond ind prev ∧ gainDequantPrev first cond ind prev ≤ 63 ∧
    gainOfIndex 0 = gainMinQ16 ∧ gainOfIndex 63 = gainMaxQ16 ∧
    (∀ p ∈ List.range 63, gainOfIndex (p : Int) < gainOfIndex ((p : Int) + 1)) :=
  ⟨(gainDequantPrev_range first cond ind prev).1, (gainDequantPrev_range first cond ind prev).2,
   gainOfIndex_ends.1, gainOfIndex_ends.2,
   fun p hp => (gainOfIndex_table p (List.mem_range.mpr (by have := List.mem_range.mp hp; omega))).2.2⟩

example : gainDequantPrev true 0 5 40 = 24 ∧ gainDequantPrev false 1 40 60 = 63 := by decide +kernel

/-- Same clause, arithmetic safety: for indices a bitstream can carry (0..63 absolute, 0..40
    delta) and a previous index in `[0, 63]`, no store into the `opus_int8` `*prev_ind` wraps —
    the update is the plain integer formula followed by the clamp to `[0, 63]`. -/
theorem gain_step_nowrap (first : Bool) (cond ind prev : Int) (hp0 : 0 ≤ prev) (hp1 : prev ≤ 63)
    (hi0 : 0 ≤ ind) (hi1 : if first = true ∧ cond = 0 then ind ≤ 63 else ind ≤ 40) :
    gainDequantPrev first cond ind prev =
      limit (if first = true ∧ cond = 0 then max ind (prev - 16)
             else if ind - 4 > 8 + prev then prev + (2 * (ind - 4) - (8 + prev)) else prev + (ind - 4)) 0 63 :=
  gainDequantPrev_nowrap first cond ind prev hp0 hp1 hi0 hi1

example : gainDequantPrev false 1 40 0 = 63 ∧ (if false = true ∧ (1 : Int) = 0 then (40 : Int) ≤ 63 else (40 : Int) ≤ 40) := by
  decide +kernel

/-- Clause "quantising parameters on the encoder side and dequantising them gives the same
    values the decoder will reconstruct" — gains.  For EVERY input gain vector (any 32-bit
    values), every `prev_ind` in `[0, 63]` and either coding mode, running `silk_gains_dequant`
    on the indices produced by `silk_gains_quant` (same `prev_ind`, same mode) yields exactly
    the quantised gains the encoder wrote back and the same final `prev_ind`, again in `[0, 63]`. -/
theorem gains_quant_dequant (gains : List Int) (prev cond : Int) (h0 : 0 ≤ prev) (h1 : prev ≤ 63) :
    gainsDequant (gainsQuant gains prev cond).1 prev cond =
      ((gainsQuant gains prev cond).2.1, (gainsQuant gains prev cond).2.2) ∧
    (gainsQuant gains prev cond).1.length = gains.length ∧
    0 ≤ (gainsQuant gains prev cond).2.2 ∧ (gainsQuant gains prev cond).2.2 ≤ 63 :=
  gainsQuantLoop_agrees cond gains true prev h0 h1

example : gainsQuant [65536, 1000000, 30000000, 123] 10 0 =
    ([6, 13, 26, 0], [210944, 872448, 28049408, 14876672], 33) := by decide +kernel

/-- One sub-frame of the quantiser: the emitted index is in the coded range (0..63 absolute,
    0..40 delta), so it can be written with the gain ICDFs. -/
theorem gains_quant_index_in_range (first : Bool) (cond g prev : Int) (h0 : 0 ≤ prev) (h1 : prev ≤ 63) :
    0 ≤ (gainQuantStep first cond g prev).1 ∧
    (if first = true ∧ cond = 0 then (gainQuantStep first cond g prev).1 ≤ 63
     else (gainQuantStep first cond g prev).1 ≤ 40) :=
  ⟨(gainQuantStep_agrees first cond g prev h0 h1).2.2.2.2.1, (gainQuantStep_agrees first cond g prev h0 h1).2.2.2.2.2⟩

example : (gainQuantStep false 1 2000000000 3).1 = 40 := by decide +kernel

/-- Clause "quantising … gives the same values the decoder will reconstruct" — NLSF
    interpolation.  On NLSF-range vectors the encoder's `silk_interpolate`
    (process_NLSFs.c:75,97) and the decoder's inline interpolation (decode_parameters.c:63-66)
    compute the same vector, which again lies in `[0, 32767]`.  (The encoder's quantised NLSFs
    themselves are produced by a call to the modelled `silk_NLSF_decode`, NLSF_encode.c:119.) -/
theorem nlsf_interp_enc_dec_agree (k : Int) (hk0 : 0 ≤ k) (hk1 : k ≤ 4) (p c : List Int)
    (hl : p.length = c.length) (hp : ∀ e ∈ p, 0 ≤ e ∧ e ≤ 32767) (hc : ∀ e ∈ c, 0 ≤ e ∧ e ≤ 32767) :
    nlsfInterpEnc k p c = nlsfInterpDec k p c ∧ (nlsfInterpDec k p c).length = c.length ∧
    ∀ e ∈ nlsfInterpDec k p c, 0 ≤ e ∧ e ≤ 32767 :=
  ⟨nlsfInterp_enc_eq_dec k hk0 hk1 p c hp hc, nlsfInterpDec_range k hk0 hk1 p c hl hp hc⟩

example : nlsfInterpDec 3 [32767, 0, 100] [0, 32767, 101] = [8191, 24575, 100] := by decide +kernel

/-- Clause "pitch lags and contours stay inside the legal lag range for the sampling rate".
    For `Fs_kHz ∈ {8,12,16}`, `nb_subfr ∈ {2,4}`, EVERY `lagIndex` (any integer: in range, or out
    of range after delta decoding) and every contour index below the size of the selected
    codebook: `silk_decode_pitch` reads only inside the contour table and returns `nb_subfr`
    lags with `2*Fs_kHz ≤ lag ≤ 18*Fs_kHz`. -/
theorem pitch_in_range (lagIndex contour fs : Int) (nb : Nat)
    (hfs : fs = 8 ∨ fs = 12 ∨ fs = 16) (hnb : nb = 2 ∨ nb = 4) (hc0 : 0 ≤ contour)
    (hc1 : ∀ cb, pitchCodebook fs nb = .ok cb → contour < (cb.2 : Int)) :
    ∃ lags, decodePitch lagIndex contour fs nb = .ok lags ∧ lags.length = nb ∧
      ∀ l ∈ lags, 2 * fs ≤ l ∧ l ≤ 18 * fs :=
  decodePitch_spec lagIndex contour fs nb hfs hnb hc0 hc1

example : decodePitch 100 33 16 4 = .ok [123, 129, 135, 141] ∧ decodePitch (-7) 2 8 2 = .ok [16, 16] ∧
    pitchCodebook 16 4 = .ok (SilkNlsf.cbLagsStage3, 34) := by decide +kernel

/-- Clause "quantising parameters on the encoder side and dequantising them gives the same values the decoder will
    reconstruct", for pitch lags and contours.  `pitchEncTail` is the integer tail of `silk_pitch_analysis_core_FLP`
    (pitch_analysis_core_FLP.c:459-472; the same lines in the fixed-point file): from the selected lag (`lag_new` at
    12/16 kHz, the stage-2 `lag` at 8 kHz) and contour `CBimax` it produces the per-sub-frame lags the encoder itself
    uses (`psEncCtrl->pitchL[]`) and the transmitted `lagIndex` / `contourIndex`.  For every rate, both sub-frame counts,
    every lag in `[2·Fs, 18·Fs]` (a superset of the search range `[min_lag, max_lag]`, max_lag = 18·Fs − 1) and every
    contour of the codebook the rate / sub-frame count selects: the `(opus_int16)` / `(opus_int8)` stores are lossless,
    and `silk_decode_pitch` applied to the two indices returns exactly the encoder's `pitch_out` — same codebook, same
    `min_lag`, and the same clamp `[2·Fs, 18·Fs]` on both sides. -/
theorem pitch_enc_dec_agree (fs : Int) (nb : Nat) (lag cbimax : Int)
    (hfs : fs = 8 ∨ fs = 12 ∨ fs = 16) (hnb : nb = 2 ∨ nb = 4)
    (hl : 2 * fs ≤ lag ∧ lag ≤ 18 * fs) (hc : 0 ≤ cbimax ∧ cbimax < ((pitchEncCodebook fs nb).2 : Int)) :
    ∃ o, pitchEncTail fs nb lag cbimax = .ok o ∧ o.lagIndex = lag - 2 * fs ∧ o.contourIndex = cbimax ∧
      decodePitch o.lagIndex o.contourIndex fs nb = .ok o.pitchOut ∧ o.pitchOut.length = nb ∧
      ∀ l ∈ o.pitchOut, 2 * fs ≤ l ∧ l ≤ 18 * fs :=
  pitchEncTail_spec fs nb lag cbimax hfs hnb hl hc

/- Non-vacuity: a lag one below the top of the range with a rising contour reaches the legal maximum 18·Fs = 216
   on both sides (a clamp to the search bound 18·Fs − 1 on the encoder side would give 215 ≠ 216); a lag at the
   bottom with a falling contour is clamped to 2·Fs on both sides; an 8 kHz stage-2 case. -/
example : pitchEncTail 12 2 215 4 = .ok ⟨[216, 214], 191, 4⟩ ∧ decodePitch 191 4 12 2 = .ok [216, 214] ∧
    pitchEncTail 16 4 33 33 = .ok ⟨[32, 32, 36, 42], 1, 33⟩ ∧ decodePitch 1 33 16 4 = .ok [32, 32, 36, 42] ∧
    pitchEncTail 8 4 144 10 = .ok ⟨[144, 144, 144, 143], 128, 10⟩ ∧ decodePitch 128 10 8 4 = .ok [144, 144, 144, 143] ∧
    (pitchEncCodebook 12 2).2 = 12 := by decide +kernel

/-! ## Range theorems: no 32-bit wrap, no truncating `(opus_int16)` cast -/

/-- `silk_bwexpander_32` (bwexpander_32.c:36-51) with a chirp factor `0 ≤ chirp_Q16 ≤ 65536` — all
    callers modelled here: `silk_LPC_fit` passes a value in [13040, 65470], the stabilisation loop of
    `silk_NLSF2A` passes `65536 - (2 << i)`, i ≤ 15 — and `opus_int32` coefficients: every value of
    `bwexpTrace` (the operand of the `(opus_int32)` cast of each `silk_SMULWW`, the 32-bit product
    `silk_MUL( chirp_Q16, chirp_minus_one_Q16 )`, both steps of `silk_RSHIFT_ROUND`, each new
    `chirp_Q16`) fits 32 bits, and every output coefficient lies between its input and 0 (here:
    inside any interval `[lo, hi] ∋ 0` containing the inputs). -/
theorem bwexpander32_nowrap (ar : List Int) (chirp lo hi : Int) (h0 : 0 ≤ chirp) (h1 : chirp ≤ 65536)
    (hlo0 : -2147483648 ≤ lo) (hlo : lo ≤ 0) (hhi : 0 ≤ hi) (hhi1 : hi ≤ 2147483647)
    (hx : ∀ x ∈ ar, lo ≤ x ∧ x ≤ hi) :
    I32 (chirp - 65536) ∧ (∀ v ∈ bwexpTrace ar chirp (chirp - 65536), I32 v) ∧
    (∀ e ∈ bwexpander32 ar chirp, lo ≤ e ∧ e ≤ hi) :=
  bwexpander32_range ar chirp lo hi h0 h1 hlo0 hlo hhi hhi1 hx

example : bwexpander32 [2147483647, -2147483648, 5] 65470 = [2145320959, -2143158272, 4] ∧
    bwexpTrace [7, -7] 65534 (-2) = [6, -131068, -3, -2, 65532, -7] := by decide +kernel

/-- P1 `lpc_fit_int16` (DESIGN §7.C18).  For every `a32_QA1` of 1..16 values of magnitude at most
    `2^31 - 1` (every `opus_int32` except `silk_int32_MIN`, whose `silk_abs` would overflow):
    in `silk_LPC_fit( a_Q12, a32_QA1, 12, 17, d )` and in the stabilisation loop of `silk_NLSF2A`
    that follows it (1) no 32-bit value wraps (`nlsf2aTailTrace`: every `silk_abs`, the steps of
    `silk_RSHIFT_ROUND`, `maxabs - 32767`, its `<< 14`, `silk_MUL( maxabs, idx+1 )`, the quotient,
    `chirp_Q16`, the traces of `silk_bwexpander_32`, `silk_LSHIFT( 2, i )`), (2) no `silk_DIV32`
    divisor is 0, (3) NO `(opus_int16)` CAST TRUNCATES (`nlsf2aCasts`: the operands of the casts of
    LPC_fit.c:74,79 and of NLSF2A.c:136, all iterations), (4) hence the model's `wrap16` in `lpcFit`
    is the identity: its first component is the list of un-truncated cast operands. -/
theorem lpc_fit_int16 (a32 : List Int) (hne : a32 ≠ []) (hlen : a32.length ≤ 16)
    (ha : ∀ e ∈ a32, -2147483647 ≤ e ∧ e ≤ 2147483647) :
    (∀ v ∈ nlsf2aTailTrace a32, I32 v) ∧ (∀ v ∈ lpcFitLoopDivisors 10 a32 0, v ≠ 0) ∧
    (∀ v ∈ nlsf2aCasts a32, I16 v) ∧ (lpcFit a32 5).1 = lpcFitCasts a32 :=
  ⟨(nlsf2aTail_range a32 hne hlen ha).1, (nlsf2aTail_range a32 hne hlen ha).2.1,
   (nlsf2aTail_range a32 hne hlen ha).2.2, (lpcFit_range a32 hne hlen ha).2.2.2.1⟩

/- a filter that needs the limiter (first coefficient 100 in Q12 = 13107200 in Q17) and then fails the
   stability test, so that both kinds of cast are exercised -/
example : lpcFitCasts [13107200, -2147483647, 77, 2147483647] = [9046, -32728, 0, 16] ∧
    (nlsf2aCasts [13107200, -2147483647, 77, 2147483647]).length = 64 ∧
    lpcFitLoopDivisors 10 [13107200, -2147483647, 77, 2147483647] 0 =
      [81919, 81919, 81919, 81919, 81919, 81919, 71586, 26937, 17374] := by decide +kernel

/-- `silk_NLSF2A` for order 10 (NB/MB), EVERY input with `0 ≤ NLSF[k] ≤ 32767` (no ordering needed):
    all table reads in bounds and no 32-bit wrap in the cosine interpolation (`cosLsfTrace`), none in
    `silk_NLSF2A_find_poly`, `Ptmp`, `Qtmp`, `-Qtmp` (`nlsf2aPolyTrace`; majorant `C(10,n)·2^16`),
    `a32_QA1` fits (`|·| ≤ 4·C(10,5)·2^16 = 66060288`), and with it everything of `lpc_fit_int16`:
    the whole of `silk_NLSF2A` runs without signed overflow and without a truncating cast; in
    particular the truncation counter `tr` that the driver reports for the `nlsf2a` op (and that the
    harness measures on the real function by wrapping `silk_LPC_fit`, `silk_bwexpander_32` and
    `silk_LPC_inverse_pred_gain_c`) is 0. -/
theorem nlsf2a_nowrap_d10 (nlsf : List Int) (hd : nlsf.length = 10) (hr : ∀ e ∈ nlsf, 0 ≤ e ∧ e ≤ 32767) :
    (∀ x ∈ nlsf, ∃ c cv nx, cosLsf x = .ok c ∧ getI SilkNlsf.lsfCosTabQ12 (x / 256) = .ok cv ∧
        getI SilkNlsf.lsfCosTabQ12 (x / 256 + 1) = .ok nx ∧ ∀ v ∈ cosLsfTrace x cv nx, I32 v) ∧
    ∃ c, nlsf2aCosQA nlsf = .ok c ∧ (∀ v ∈ nlsf2aPolyTrace c, I32 v) ∧
      (∀ e ∈ nlsf2aPoly c, -66060288 ≤ e ∧ e ≤ 66060288) ∧
      (∀ v ∈ nlsf2aTailTrace (nlsf2aPoly c), I32 v) ∧ (∀ v ∈ lpcFitLoopDivisors 10 (nlsf2aPoly c) 0, v ≠ 0) ∧
      (∀ v ∈ nlsf2aCasts (nlsf2aPoly c), I16 v) ∧
      nlsf2a nlsf = .ok (nlsf2aLoop SilkNlsf.maxLpcStabilizeIterations 0 (lpcFit (nlsf2aPoly c) 5).2
        (lpcFit (nlsf2aPoly c) 5).1) ∧
      nlsf2aTr nlsf = .ok (nlsf2aLoop SilkNlsf.maxLpcStabilizeIterations 0 (lpcFit (nlsf2aPoly c) 5).2
        (lpcFit (nlsf2aPoly c) 5).1, 0) := by
  refine ⟨fun x hx => ?_, ?_⟩
  · obtain ⟨c, cv, nx, h1, h2, h3, h4, _⟩ := cosLsf_range x (hr x hx).1 (hr x hx).2
    exact ⟨c, cv, nx, h1, h2, h3, h4⟩
  · obtain ⟨c, hc, hcl, hcb⟩ := nlsf2aCosQA_range nlsf hr
    have hp := nlsf2aPoly_range c 16515072 hcb (Or.inl ⟨by omega, rfl⟩)
    have ht := nlsf2aTail_range (nlsf2aPoly c)
      (by intro h; have := hp.2.2; rw [h] at this; simp at this; omega) (by rw [hp.2.2]; omega)
      (fun e he => by have := hp.2.1 e he; omega)
    exact ⟨c, hc, hp.1, fun e he => by have := hp.2.1 e he; omega, ht.1, ht.2.1, ht.2.2,
      (nlsf2a_eq nlsf c (Or.inl hd) hc).2,
      by rw [nlsf2aTr_eq nlsf c (Or.inl hd) hc, truncCount_zero _ ht.2.2]⟩

example : nlsf2aA32 [32767, 0, 32767, 0, 32767, 0, 32767, 0, 32767, 0] =
    .ok [0, -7208960, 0, -43253760, 0, -60555264, 0, -21626880, 0, -1441792] := by decide +kernel

/-- `silk_NLSF2A` for order 16 (WB), every input with `0 ≤ NLSF[k] ≤ 32767`: cosine interpolation,
    `silk_NLSF2A_find_poly` (majorant `C(16,n)·2^16 ≤ 843448320`), `Ptmp`, `Qtmp`, `-Qtmp` fit 32
    bits; `a32_QA1` is bounded by `4·C(16,8)·2^16 = 3373793280` (33 bits) only; and IF `a32_QA1`
    fits (`|a32_QA1[k]| ≤ 2^31 - 1`), everything after it is free of wrap and truncation.
    PARTIAL: what is missing is that the hypothesis `hA` holds for ORDERED inputs — the domain the
    decoder guarantees (`nlsf_decode_ordered` gives strictly increasing NLSFs; the interpolation of
    two non-decreasing vectors is non-decreasing).  It cannot be dropped:
    `nlsf2a_d16_unordered_overflows`. -/
theorem nlsf2a_nowrap_d16_partial (nlsf : List Int) (hd : nlsf.length = 16)
    (hr : ∀ e ∈ nlsf, 0 ≤ e ∧ e ≤ 32767) :
    (∀ x ∈ nlsf, ∃ c cv nx, cosLsf x = .ok c ∧ getI SilkNlsf.lsfCosTabQ12 (x / 256) = .ok cv ∧
        getI SilkNlsf.lsfCosTabQ12 (x / 256 + 1) = .ok nx ∧ ∀ v ∈ cosLsfTrace x cv nx, I32 v) ∧
    ∃ c, nlsf2aCosQA nlsf = .ok c ∧ (∀ v ∈ nlsf2aPolyTrace c, I32 v) ∧
      (∀ e ∈ nlsf2aPoly c, -3373793280 ≤ e ∧ e ≤ 3373793280) ∧
      nlsf2a nlsf = .ok (nlsf2aLoop SilkNlsf.maxLpcStabilizeIterations 0 (lpcFit (nlsf2aPoly c) 5).2
        (lpcFit (nlsf2aPoly c) 5).1) ∧
      ((hA : ∀ e ∈ nlsf2aPoly c, -2147483647 ≤ e ∧ e ≤ 2147483647) →
        (∀ v ∈ nlsf2aTailTrace (nlsf2aPoly c), I32 v) ∧ (∀ v ∈ lpcFitLoopDivisors 10 (nlsf2aPoly c) 0, v ≠ 0) ∧
        (∀ v ∈ nlsf2aCasts (nlsf2aPoly c), I16 v) ∧ ∃ a, nlsf2aTr nlsf = .ok (a, 0)) := by
  refine ⟨fun x hx => ?_, ?_⟩
  · obtain ⟨c, cv, nx, h1, h2, h3, h4, _⟩ := cosLsf_range x (hr x hx).1 (hr x hx).2
    exact ⟨c, cv, nx, h1, h2, h3, h4⟩
  · obtain ⟨c, hc, hcl, hcb⟩ := nlsf2aCosQA_range nlsf hr
    have hp := nlsf2aPoly_range c 843448320 hcb (Or.inr ⟨by omega, rfl⟩)
    refine ⟨c, hc, hp.1, fun e he => by have := hp.2.1 e he; omega, (nlsf2a_eq nlsf c (Or.inr hd) hc).2, ?_⟩
    intro hA
    have ht := nlsf2aTail_range (nlsf2aPoly c)
      (by intro h; have := hp.2.2; rw [h] at this; simp at this; omega) (by rw [hp.2.2]; omega) hA
    exact ⟨ht.1, ht.2.1, ht.2.2, _, by rw [nlsf2aTr_eq nlsf c (Or.inr hd) hc, truncCount_zero _ ht.2.2]⟩

/- the hypothesis `hA` is satisfiable: a stabilised WB vector -/
example : nlsf2aA32 [1500, 3000, 5000, 7000, 9000, 11000, 13000, 15000, 17000, 19000, 21000, 23000, 25000,
    27000, 29000, 31000] = .ok [49636, 29459, 1136, 8598, -1332, 3676, -1893, 1594, -2058, 437,
    -1910, -168, -1538, -400, -969, -278] := by decide +kernel

/-- FINDING (not reachable from the decoder, whose NLSFs are ordered): on the in-range input
    `32767,0,32767,0,…` of order 16, `a32_QA1[7] = -Qtmp - Ptmp = -3186360320` and
    `a32_QA1[9] = Qtmp - Ptmp = -2549088256` do not fit 32 bits — signed integer overflow (undefined
    behaviour) at NLSF2A.c:125-126; UBSan on the real function reports
    "-1593180160 - 1593180160 cannot be represented in type 'int'".  On such inputs the model
    (unbounded subtraction) and the C code differ, so `nlsf2a_passes_stability` speaks about the C
    function only where `a32_QA1` fits: order 10 always, order 16 for ordered NLSFs (unproved). -/
theorem nlsf2a_d16_unordered_overflows :
    nlsf2aA32 [32767, 0, 32767, 0, 32767, 0, 32767, 0, 32767, 0, 32767, 0, 32767, 0, 32767, 0] =
      .ok [0, -17825792, 0, -311951360, 0, -1622147072, 0, -3186360320, 0, -2549088256, 0, -811073536,
           0, -89128960, 0, -2228224] ∧ ¬ I32 (-3186360320) :=
  ⟨nlsf2a_a32_overflow_witness, by decide⟩

/-- `silk_NLSF_decode` (NLSF_decode.c:64-92) up to the call of the stabiliser, for both codebooks,
    every first-stage index `< nVectors` and every residual vector in `[-10, 10]^order` — the domain
    the symbol decoder guarantees (`nlsf_decode_domain_from_decoder`): `silk_NLSF_unpack` succeeds with
    `ec_ix[]` fitting its `opus_int16`; in `silk_NLSF_residual_dequant` every `int` value
    (`resDequantTrace`: the `silk_SMULBB` product, `pred_Q10`, `indices[i] << 10`, the adjusted level,
    the `silk_SMLAWB` shift and sum) fits 32 bits and every conversion to `opus_int16`
    (`resDequantCasts`: both operands of `silk_SMULBB`, the step size inside `silk_SMLAWB`, the store
    `x_Q10[i] = out_Q10`) is lossless (`|x_Q10[i]| ≤ 1825·(order-i) ≤ 29200`); in the first-stage loop
    `res_Q10[i] << 14`, the quotient, `CB1_NLSF_Q8[i] << 7` and `NLSF_Q15_tmp` fit 32 bits and the
    `(opus_int16)` cast after `silk_LIMIT( ·, 0, 32767 )` is lossless. -/
theorem nlsf_decode_nowrap (cb : NlsfCB) (hcb : cb = cbNbMb ∨ cb = cbWb) (cb1 : Nat) (h1 : cb1 < cb.nVectors)
    (idx : List Int) (hlen : idx.length = cb.order) (hidx : ∀ i ∈ idx, -10 ≤ i ∧ i ≤ 10) :
    ∃ ec pred, nlsfUnpack cb (cb1 : Int) = .ok (ec, pred) ∧ (∀ e ∈ ec, I16 e) ∧
      (∀ v ∈ resDequantTrace cb.quantStepSizeQ16 idx pred, I32 v) ∧
      (∀ v ∈ resDequantCasts cb.quantStepSizeQ16 idx pred, I16 v) ∧
      (∀ v ∈ firstStageTraceAll (resDequant cb.quantStepSizeQ16 idx pred).1
          ((cb.cb1WghtQ9.drop (cb1 * cb.order)).take cb.order)
          ((cb.cb1NlsfQ8.drop (cb1 * cb.order)).take cb.order), I32 v) ∧
      (∀ x ∈ zip3With nlsfFirstStage (resDequant cb.quantStepSizeQ16 idx pred).1
          ((cb.cb1WghtQ9.drop (cb1 * cb.order)).take cb.order)
          ((cb.cb1NlsfQ8.drop (cb1 * cb.order)).take cb.order), 0 ≤ x ∧ x ≤ 32767) :=
  nlsfDecode_range cb hcb cb1 h1 idx hlen hidx

example : (resDequant 11796 [10, 10, 10, 10, 10, 10, 10, 10, 10, 10] [255, 255, 255, 255, 255, 255, 255, 255, 255, 255]).1 =
    [17916, 16156, 14389, 12615, 10834, 9046, 7251, 5449, 3640, 1824] := by decide +kernel

/-- The hypotheses of `nlsf_decode_nowrap` and `gains_dequant_nowrap` are what `silk_decode_indices`
    guarantees: from C03's `IndicesOk` (conclusion of `OpusProps.C03.silkSyms_decode_indices_in_range`,
    for every range-decoder state) the first-stage index is below `nVectors` of the rate's codebook,
    there are `order` residuals, each in `[-10, 10]`, every gain index is `< 64`, the interpolation
    factor is `≤ 4`. -/
theorem nlsf_decode_domain_from_decoder {rate : Opus.SilkSyms.Rate} {nb cc ps : Nat} {pl : Int}
    {ix : Opus.SilkSyms.Indices} (h : Opus.SilkSymsProofs.IndicesOk rate nb cc ps pl ix) :
    (cbOfRate rate = cbNbMb ∨ cbOfRate rate = cbWb) ∧
    ix.nlsf0 < (cbOfRate rate).nVectors ∧ ix.nlsfRes.length = (cbOfRate rate).order ∧
    (∀ r ∈ ix.nlsfRes, -10 ≤ r ∧ r ≤ 10) ∧ (∀ g ∈ ix.gains, g < 64) ∧ ix.interp ≤ 4 :=
  ⟨cbOfRate_cases rate, indicesOk_domain h⟩

example : (cbOfRate .wb).order = 16 ∧ (cbOfRate .nb).nVectors = 32 := by decide

/-- Likewise for `decode_pitch_nowrap`: the contour alphabet of the symbol decoder
    (`psDec->pitch_contour_iCDF`, C03) has exactly as many symbols as the contour codebook that
    `silk_decode_pitch` selects for the same rate and sub-frame count (`contourOk`), and a decoded
    contour index is below that number; the lag index is stored in an `opus_int16` by the decoder. -/
theorem pitch_domain_from_decoder {rate : Opus.SilkSyms.Rate} {nb cc ps : Nat} {pl : Int}
    {ix : Opus.SilkSyms.Indices} (h : Opus.SilkSymsProofs.IndicesOk rate nb cc ps pl ix) (hnb : nb = 2 ∨ nb = 4) :
    contourOk rate nb = true ∧
    (ix.signalType = 2 → ix.contourIndex < (Opus.SilkSyms.pitchContour rate nb).length) :=
  ⟨contour_domain rate nb hnb, h.contour⟩

example : contourOk .wb 4 = true ∧ pitchCodebook 16 4 = .ok (SilkNlsf.cbLagsStage3, 34) := by decide +kernel

/-- `silk_log2lin` (log2lin.c:36-57) on its whole non-saturating domain `0 ≤ inLog_Q7 < 3967`
    (outside it the function returns a constant without arithmetic): every 32-bit value
    (`log2linTrace`: `1 << (inLog_Q7 >> 7)`, `frac_Q7`, `128 - frac_Q7`, the `silk_SMULBB` product, the
    `silk_SMLAWB` shift and sum, the `silk_MUL`/`silk_MLA` product and the final sum — up to
    `2139095040 < 2^31` at 3966) fits, the macro casts are the identity (`log2lin = log2linExact`), and
    the result is positive. -/
theorem log2lin_nowrap (x : Int) (h0 : 0 ≤ x) (h1 : x < 3967) :
    (∀ v ∈ log2linTrace x, I32 v) ∧ log2lin x = log2linExact x ∧ 0 < log2lin x :=
  log2lin_range x h0 h1

example : log2linTrace 3966 = [30, 1073741824, 126, 2, 252, -1, 125, 8388608, 1048576000, 2122317824] ∧
    log2lin 3966 = 2122317824 := by decide +kernel

/-- `silk_gains_dequant` (gain_quant.c:108-128), 32-bit side (the `opus_int8` stores are
    `gain_step_nowrap`): for `opus_int8` index and previous index the `int` values of the index update
    (`ind_tmp`, `double_step_size_threshold`, `ind_tmp << 1`, the sums) fit; for the clamped index
    `0 ≤ *prev_ind ≤ 63` the operand of the `(opus_int32)` cast of `silk_SMULWB( INV_SCALE_Q16, · )`,
    its sum with `OFFSET` and the whole of `silk_log2lin` fit 32 bits, and `silk_log2lin` is entered
    strictly below its saturation point 3967. -/
theorem gains_dequant_nowrap (first : Bool) (cond ind prev p : Int) (hi : -128 ≤ ind ∧ ind ≤ 127)
    (hp : -128 ≤ prev ∧ prev ≤ 127) (hp0 : 0 ≤ p) (hp1 : p ≤ 63) :
    (∀ v ∈ gainDequantPrevTrace first cond ind prev, I32 v) ∧ (∀ v ∈ gainOfIndexTrace p, I32 v) ∧
    gainOfIndex p = log2linExact (min (SilkNlsf.gainInvScaleQ16 * p / 65536 + SilkNlsf.gainOffset) 3967) ∧
    min (SilkNlsf.gainInvScaleQ16 * p / 65536 + SilkNlsf.gainOffset) 3967 < 3967 :=
  ⟨gainDequantPrevTrace_range first cond ind prev hi hp, gainOfIndex_nowrap p hp0 hp1⟩

example : gainDequantPrevTrace false 1 40 60 = [36, 68] ++ [96] ∧
    (gainOfIndexTrace 63).take 3 = [1833, 3923, 3923] := by decide +kernel

/-- `silk_decode_pitch` (decode_pitch.c:67-75) for `Fs_kHz ∈ {8,12,16}`, `nb_subfr ∈ {2,4}`, every
    `opus_int16` lag index and a contour index inside the selected codebook: the `(opus_int16)` casts
    inside the two `silk_SMULBB` are the identity (`min_lag = 2·Fs_kHz`, `max_lag = 18·Fs_kHz`) and every
    `int` value (`pitchTrace`: `lag`, the table index `k·cbk_size + contourIndex`, `lag + Lag_CB_ptr[…]`,
    the clamped lag) has magnitude at most `2^16`. -/
theorem decode_pitch_nowrap (lagIndex contour fs : Int) (nb : Nat) (tab : List Int) (cbk : Nat)
    (hfs : fs = 8 ∨ fs = 12 ∨ fs = 16) (hnb : nb = 2 ∨ nb = 4) (hl : I16 lagIndex)
    (hcb : pitchCodebook fs nb = .ok (tab, cbk)) (hc : 0 ≤ contour ∧ contour < (cbk : Int)) :
    pitchMinLag fs = SilkNlsf.peMinLagMs * fs ∧ pitchMaxLag fs = SilkNlsf.peMaxLagMs * fs ∧
    ∀ v ∈ pitchTrace tab cbk lagIndex contour fs nb, -65536 ≤ v ∧ v ≤ 65536 :=
  decodePitch_range lagIndex contour fs nb tab cbk hfs hnb hl hcb hc

example : pitchCodebook 16 4 = .ok (SilkNlsf.cbLagsStage3, 34) ∧
    pitchTrace SilkNlsf.cbLagsStage3 34 (-32768) 33 16 2 = [32, 288, -32736, 33, -32745, 32, 67, -32739, 32] := by
  decide +kernel

/-- `silk_LPC_inverse_pred_gain_c` (LPC_inv_pred_gain.c:43-141) for EVERY `opus_int16` filter of
    order 1..24 (`SILK_MAX_ORDER_LPC`), every level the recursion reaches: (1) the wrapper's running
    `DC_resp` and every `A_Q12[k] << 12` fit 32 bits (`invGainTopTrace`); (2) per level
    (`invGainLoopTrace`) `A_QA[k] << 7`, its negation `rc_Q31` (never `-silk_int32_MIN`), the operands of
    the `(opus_int32)` casts of both `silk_SMMUL`, `rc_mult1_Q30 ∈ [536765, 2^30]` (the code's
    `silk_assert( rc_mult1_Q30 > (1<<15) )` holds), `invGain_Q30 ∈ [0, 2^30]`, `mult2Q ∈ [20, 31]`,
    inside `silk_INVERSE32_varQ` `b_headrm`, the normalised `b32_nrm ∈ [2^30, 2^31)`, `b32_inv` (fits the
    `opus_int16` operand of `silk_SMULWB`), `b32_inv << 16`, the `silk_SMULWB` cast operand,
    `(1<<29) - …`, `lshift = 0`, and the operand of the cast in every `MUL32_FRAC_Q( tmp, rc_Q31, 31 )`
    all fit 32 bits; (3) every `silk_SMULL` product and every step of `silk_RSHIFT_ROUND64`
    (`invGainLoopTrace64`) fits 64 bits; (4) the divisor of `silk_DIV32_16` lies in [16384, 32767] (never
    0).  The new `A_QA[n]` are range-checked by the C code itself before the `(opus_int32)` cast.
    Deliberate saturation / defined narrowing, modelled as such: `silk_SUB_SAT32`, and the explicit casts
    of the Newton step (`silk_SMLAWW`, `silk_LSHIFT( ·, 3 )`) inside `silk_INVERSE32_varQ`. -/
theorem inverse_pred_gain_nowrap (a : List Int) (hI : AllI16 a) (hl : a.length ≤ 24) :
    (∀ v ∈ invGainTopTrace a 0, I32 v) ∧
    ∀ k, a.length = k + 1 →
      (∀ v ∈ invGainLoopTrace k (a.map fun x => lshift32 x (SilkNlsf.invGainQA - 12)) 1073741824, I32 v) ∧
      (∀ v ∈ invGainLoopTrace64 k (a.map fun x => lshift32 x (SilkNlsf.invGainQA - 12)) 1073741824, I64 v) ∧
      (∀ v ∈ invGainLoopDivisors k (a.map fun x => lshift32 x (SilkNlsf.invGainQA - 12)) 1073741824,
        16384 ≤ v ∧ v ≤ 32767) :=
  lpcInversePredGain_range a hI hl

example : invGainTopTrace [4000, -300, 20] 0 = [4000, 16384000, 3700, -1228800, 3720, 81920] ∧
    invGainLoopDivisors 2 ([4000, -300, 20].map fun x => lshift32 x 12) 1073741824 = [32767, 32614] ∧
    (invGainLoopTrace 2 ([4000, -300, 20].map fun x => lshift32 x 12) 1073741824).length = 41 := by
  decide +kernel

/-- Analytic content of the stability test (towards "stable" beyond the codec's own verdict).  If
    `silk_LPC_inverse_pred_gain_c( A_Q12 ) ≠ 0` then (a) the DC response `Σ A_Q12[k]` is below 4096
    (1.0 in Q12), (b) the fixed-point step-down (Levinson) recursion ran through all `order` levels
    without any updated coefficient leaving 32 bits, and (c) EVERY reflection coefficient it derived —
    `lpcReflectionQ24 a` lists minus the reflection coefficients `A_QA[k]` in Q24, from the last level
    down — has magnitude at most `A_LIMIT = 16773022 = 0.99975·2^24`, i.e. `|rc_k| ≤ 0.99975 < 1`; the
    returned value `Π (1 - rc_k²)` (in the recursion's Q30 arithmetic) is at least
    `1/MAX_PREDICTION_POWER_GAIN` (Q30: 107374).  What this does NOT say: that the real-arithmetic
    reflection coefficients of the real-coefficient filter are below 1 (the recursion rounds at every
    level; closing that gap needs an error analysis of `silk_INVERSE32_varQ` and `silk_RSHIFT_ROUND64`). -/
theorem inverse_pred_gain_reflection_bounded (a : List Int) (h : lpcInversePredGain a ≠ 0) :
    lpcInversePredGain.sumI a < 4096 ∧ (lpcReflectionQ24 a).length = a.length ∧
    (∀ r ∈ lpcReflectionQ24 a, -16773022 ≤ r ∧ r ≤ 16773022) ∧ 107374 ≤ lpcInversePredGain a := by
  have h1 := lpcInversePredGain_rcs a h
  rw [alimit_eq] at h1
  refine ⟨h1.1, h1.2.1, h1.2.2, ?_⟩
  rcases lpcInversePredGain_ge a with h2 | h2
  · exact absurd h2 h
  · exact h2

example : lpcInversePredGain [4000, -300, 20] = 176564420 ∧
    lpcReflectionQ24 [4000, -300, 20] = [81920, -1148827, 15328748] := by decide +kernel

/-- The same for the output of `silk_NLSF2A`: for every input of 10 or 16 values in `[0, 32767]` the
    model's Q12 filter has all reflection coefficients of the fixed-point recursion bounded by 0.99975
    and DC response below 1.0 — strengthening `nlsf2a_passes_stability` from "the test returned
    non-zero" to the certificate the test computes.  (For order 16 the statement is about the C function
    only where `a32_QA1` fits 32 bits, see `nlsf2a_nowrap_d16_partial`.) -/
theorem nlsf2a_reflection_bounded (nlsf : List Int) (hd : nlsf.length = 10 ∨ nlsf.length = 16)
    (hr : ∀ e ∈ nlsf, 0 ≤ e ∧ e ≤ 32767) :
    ∃ a, nlsf2a nlsf = .ok a ∧ a.length = nlsf.length ∧ lpcInversePredGain.sumI a < 4096 ∧
      (lpcReflectionQ24 a).length = a.length ∧ ∀ r ∈ lpcReflectionQ24 a, -16773022 ≤ r ∧ r ≤ 16773022 := by
  obtain ⟨a, ha, hl, _, hg⟩ := nlsf2a_spec nlsf hd hr
  have h1 := lpcInversePredGain_rcs a hg
  rw [alimit_eq] at h1
  exact ⟨a, ha, hl, h1.1, h1.2.1, h1.2.2⟩

example : lpcReflectionQ24 [10411, -10758, 10164, -11137, 7494, -3318, 2083, -869, -92, 102] =
    [417792, 685515, -2921403, 386465, -4601996, 11415106, -1973817, 4817321, -16111762, 16681179] := by
  decide +kernel

/-! ## Index-safety bridge: from C18's parameter ranges to memory safety of the SILK synthesis

  `OpusModel/SilkSynthIdx.lean` models ONLY the index / extent arithmetic of the synthesis interior
  (C01: "index arithmetic inside silk_Decode … not covered by any theorem"): for each C function the
  list of array accesses `(array, [lo, hi), read/write)` in program order.  TRUSTED READING: the
  index expressions are hand-transcribed (file:line cited at every access in the model file); the
  tie does not go through that reading — harness/c18_synthidx*.c compiles the repo's own
  decode_core.c / LPC_analysis_filter.c with compiler-inserted access callbacks
  (`-fsanitize=thread` code generation + recording `__tsan_read/write` stubs, work arrays moved to
  guarded heap blocks through the `ALLOC` macro) and compares the recorded min/max index read and
  written per array with the model, including lags outside the legal range, where the model
  predicts the out-of-bounds index or the firing `celt_assert` and the recorder observes it. -/

open Opus.SilkSynthIdx in
/-- `silk_decode_core` (silk/decode_core.c:38-243) is index-safe on C18's post-conditions.  For every
    configuration `silk_decoder_set_fs` can establish (`fs_kHz ∈ {8,12,16}`, `nb_subfr ∈ {2,4}`; hence
    `LPC_order`, `ltp_mem_length = 20·fs_kHz`, `subfr_length = 5·fs_kHz`, `frame_length`), every signal
    type, quantisation offset type, interpolation flag, loss count, previous signal type and every
    pattern of gain changes: IF the pitch lags of a voiced frame lie in `[2·fs_kHz, 18·fs_kHz]` (what
    `pitch_in_range` proves of `silk_decode_pitch` for EVERY lag / contour index) and — for the branch
    "avoid abrupt transition from voiced PLC to unvoiced normal decoding", which substitutes
    `psDec->lagPrev` — `lagPrev` lies in the same range whenever that branch can be taken (`lossCnt ≠ 0`,
    previous frame voiced), THEN no `celt_assert` fires (`start_idx > 0`; `d ≥ 6`, `d` even, `d ≤ len` of
    `silk_LPC_analysis_filter`) and every read and write index of `sLTP` (`ltp_mem_length`), `sLTP_Q15`
    (`ltp_mem_length + frame_length`), `res_Q14`, `sLPC_Q14` (`subfr_length + MAX_LPC_ORDER`),
    `psDec->exc_Q14` (320), `psDec->outBuf` (480, incl. the k = 2 copy to `outBuf[ltp_mem_length …]` and the
    re-whitening window), `sLPC_Q14_buf`, `PredCoef_Q12`, `LTPCoef_Q14`, `Gains_Q16`, `pitchL`, `xq`,
    `pulses`, `A_Q12_tmp` and the offset table lies inside the array's declared / allocated size (sizes of
    struct members regenerated with `sizeof`). -/
theorem decode_core_indices_in_bounds (x : CoreIn) (h : CoreOk x) :
    (coreAccesses x).2 = false ∧ ∀ a ∈ (coreAccesses x).1, a.inBounds x.cfg :=
  coreAccesses_ok x h

open Opus.SilkSynthIdx in
/- a 20 ms WB voiced frame with NLSF interpolation, lags at both ends of the legal range: 98 accesses,
   the k = 2 re-whitening reaches outBuf[479] and sLTP_Q15[639], the last elements -/
example : (coreAccesses (voicedCoreIn 16 4 [288, 290, 32, 40] 1 0 0 100 true [true, false, true, false]
      [true, false, true, false])).1.length = 98 ∧
    extentsStr (coreAccesses (voicedCoreIn 16 4 [288, 290, 32, 40] 1 0 0 100 true [true, false, true, false]
      [true, false, true, false])).1 [.sLTP, .sLTP_Q15, .outBuf, .xq] =
      "sLTP:r=30..319,w=14..319 sLTP_Q15:r=30..601,w=30..639 outBuf:r=14..479,w=320..479 xq:r=0..159,w=0..319" := by
  decide +kernel

open Opus.SilkSynthIdx in
/-- The hypothesis on the lags is what `silk_decode_pitch` delivers: composed with the pitch decoder —
    ANY lag index (also one driven out of range by delta coding), any contour index inside the codebook —
    a voiced frame is index-safe, whatever the remaining inputs. -/
theorem decode_core_safe_after_decode_pitch (fs : Int) (nb : Nat) (lagIndex contour : Int) (lags : List Int)
    (hfs : fs = 8 ∨ fs = 12 ∨ fs = 16) (hnb : nb = 2 ∨ nb = 4) (hc0 : 0 ≤ contour)
    (hc1 : ∀ cb, pitchCodebook fs nb = .ok cb → contour < (cb.2 : Int))
    (hl : decodePitch lagIndex contour fs nb = .ok lags)
    (qoff lossCnt prevSig lagPrev : Int) (interp : Bool) (gd ad : List Bool) (hq : 0 ≤ qoff ∧ qoff ≤ 1) :
    (coreAccesses (voicedCoreIn fs nb lags qoff lossCnt prevSig lagPrev interp gd ad)).2 = false ∧
    ∀ a ∈ (coreAccesses (voicedCoreIn fs nb lags qoff lossCnt prevSig lagPrev interp gd ad)).1,
      a.inBounds (cfgOf fs nb) := by
  obtain ⟨lags', hl', hlen, hr⟩ := pitch_in_range lagIndex contour fs nb hfs hnb hc0 hc1
  rw [hl] at hl'
  cases hl'
  exact coreAccesses_ok _ (voicedCoreIn_ok fs nb lags qoff lossCnt prevSig lagPrev interp gd ad hfs hnb hq hlen hr)

open Opus.SilkSynthIdx in
/- … and the hypothesis is needed: with a lag just outside the range the model itself exhibits the violation
   (16 kHz: lag 302 → `celt_assert( start_idx > 0 )` fires, 301 is the last lag that passes; lag 1 → `sLTP_Q15[640]` is read, one past the
   end), exactly the cases the instrumented C code shows in the tie -/
example : (coreAccesses (voicedCoreIn 16 4 [302, 302, 302, 302] 0 0 0 100 false [] [])).2 = true ∧
    (coreAccesses (voicedCoreIn 16 4 [301, 301, 301, 301] 0 0 0 100 false [] [])).2 = false ∧
    extentsStr (coreAccesses (voicedCoreIn 16 4 [1, 1, 1, 1] 0 0 0 100 false [] [])).1 [.sLTP_Q15] =
      "sLTP_Q15:r=317..640,w=317..639" ∧ Arr.size (cfgOf 16 4) .sLTP_Q15 = 640 := by
  decide +kernel

open Opus.SilkSynthIdx in
/-- No read of an uninitialised element of `sLTP_Q15` in `silk_decode_core`.  `sLTP_Q15` is a fresh stack array in every
    call (`ALLOC( sLTP_Q15, ltp_mem_length + frame_length, opus_int32 )`, decode_core.c:60); the re-whitening of sub-frame 0
    (and of sub-frame 2 when the NLSFs are interpolated) writes `[sLTP_buf_idx − lag − 2, sLTP_buf_idx)` with the lag of
    THAT sub-frame, every sub-frame appends `subfr_length` elements, and sub-frame `k` reads from
    `sLTP_buf_idx − lag_k − 2` (the gain-adjustment loop :170-172 and the 5-tap prediction :180-189, which must also stay
    strictly below the element being written: `lag_k ≥ 3`).  `coreInitOk` evaluates exactly that on the index model; it
    holds for every admissible input whose lags grow by at most one sub-frame relative to the first one — for the
    transition branch after a concealed frame both voiced sub-frames use `lagPrev`. -/
theorem decode_core_no_uninitialised_ltp_read (x : CoreIn) (h : CoreOk x)
    (hsp : x.signalType = 2 → ∀ k, k < x.nbSubfr → x.pitchL.getD k 0 ≤ x.pitchL.getD 0 0 + x.cfg.subfr) :
    coreInitOk x = true :=
  coreInitOk_of_spread x h (cfgOf_num x.fsKHz x.nbSubfr h.fs h.nb) hsp

open Opus.SilkSynthIdx in
/-- … and that hypothesis is what `silk_decode_pitch` delivers: the lags of one frame are `limit( lag + contour[k] )`
    with one `lag`, the clamp is monotone and 1-Lipschitz, and no contour of the four regenerated codebooks spreads by
    more than 18 samples (`decodePitch_spread`; 3 at 8 kHz) — less than the shortest sub-frame (40).  So for ANY lag
    index and any contour index inside the codebook a voiced frame reads only initialised LTP state, whatever the
    remaining inputs. -/
theorem decode_core_initialised_after_decode_pitch (fs : Int) (nb : Nat) (lagIndex contour : Int) (lags : List Int)
    (hfs : fs = 8 ∨ fs = 12 ∨ fs = 16) (hnb : nb = 2 ∨ nb = 4) (hc0 : 0 ≤ contour)
    (hc1 : ∀ cb, pitchCodebook fs nb = .ok cb → contour < (cb.2 : Int))
    (hl : decodePitch lagIndex contour fs nb = .ok lags)
    (qoff lossCnt prevSig lagPrev : Int) (interp : Bool) (gd ad : List Bool) (hq : 0 ≤ qoff ∧ qoff ≤ 1) :
    coreInitOk (voicedCoreIn fs nb lags qoff lossCnt prevSig lagPrev interp gd ad) = true := by
  obtain ⟨lags', hl', hlen, hr⟩ := pitch_in_range lagIndex contour fs nb hfs hnb hc0 hc1
  rw [hl] at hl'
  cases hl'
  have hok := voicedCoreIn_ok fs nb lags qoff lossCnt prevSig lagPrev interp gd ad hfs hnb hq hlen hr
  apply decode_core_no_uninitialised_ltp_read _ hok
  intro _ k hk
  have hsp := decodePitch_spread lagIndex contour fs nb hfs hnb hc0 hc1 lags hl k 0 hk (by rcases hnb with rfl | rfl <;> omega)
  have hS : 40 ≤ (voicedCoreIn fs nb lags qoff lossCnt prevSig lagPrev interp gd ad).cfg.subfr := by
    have hc := cfgOf_num fs nb hfs hnb
    rcases hc.cases with ⟨_, h, _⟩ | ⟨_, h, _⟩ | ⟨_, h, _⟩ <;> (show 40 ≤ (cfgOf fs nb).subfr; omega)
  show lags.getD k 0 ≤ lags.getD 0 0 + _
  omega

open Opus.SilkSynthIdx in
/- Non-vacuity, both ways: the decoded lags of a real contour pass; lags in range that jump by more than a sub-frame
   (which no contour produces) make the model itself report the uninitialised read — sub-frame 1 would read
   `sLTP_Q15[198..]` while only `[286, 400)` has been written — the same verdict the instrumented C code gives in the tie. -/
example : decodePitch 255 33 16 4 = .ok [278, 284, 288, 288] ∧
    coreInitOk (voicedCoreIn 16 4 [278, 284, 288, 288] 0 0 0 100 true [] [true, true, true, true]) = true ∧
    coreInitOk (voicedCoreIn 16 4 [32, 200, 200, 200] 0 0 0 100 false [] []) = false ∧
    coreInitOk (voicedCoreIn 16 4 [32, 112, 192, 272] 0 0 0 100 false [] []) = true := by decide +kernel

open Opus.SilkSynthIdx in
/-- No read of an uninitialised element of `sLTP_Q14` in `silk_PLC_conceal` (a fresh stack array, PLC.c:228): PLC.c:329-331
    writes `[ltp_mem_length − lag₀ − 2, ltp_mem_length)`, sub-frame `k` reads from `sLTP_buf_idx − lag_k − 2` with the
    drifting lag (`pitchL_Q8 += 1 %`, i.e. at most 4 samples per sub-frame, against ≥ 40 appended elements), and the
    short-term synthesis reads `[ltp_mem_length − 16, …)`, copied in at PLC.c:372 just before. -/
theorem plc_conceal_no_uninitialised_ltp_read (s : DecSt) (h : ConcealOk s) : concealInitOk s = true :=
  concealInitOk_of_inv s h.cfg h.pitch

namespace SynthExample
open Opus.SilkSynthIdx
def fVoiced : FrameIn :=
  { lost := false, signalType := 2, quantOffsetType := 0, interp := true, pitchL := [288, 288, 280, 285],
    ltpCoef := List.replicate 20 1000, gains := [70000, 70000, 90000, 65536], gainDiff := [true, false, true, true],
    adjNe := [true, false, true, true], lowFirst := false }
def fLost : FrameIn := { fVoiced with lost := true }
def fUnv : FrameIn := { fVoiced with signalType := 1, pitchL := [0, 0, 0, 0] }
/-- WB voiced frame at the top of the lag range, two losses (lag drifts to the cap 288), an unvoiced frame
    (takes the transition branch with `lagPrev = 288`), a switch to NB 10 ms, a loss right after it (PLC
    re-initialises: `pitchL_Q8 = frame_length << 7`), the side-channel reset, another frame. -/
def hist : List Ev :=
  [.setFs 16 4, .frame fVoiced, .frame fLost, .frame fLost, .frame fUnv, .setFs 8 2, .frame fLost, .sideReset, .frame fUnv]
end SynthExample

open Opus.SilkSynthIdx in
/-- `silk_PLC_conceal` (silk/PLC.c:216-430) is index-safe on the state invariant.  For a configured decoder
    (`fs_kHz ∈ {8,12,16}`, `nb_subfr ∈ {2,4}`), `lossCnt ≥ 0`, `sPLC.pitchL_Q8 ∈ [2·fs_kHz, 18·fs_kHz]·256`,
    `sPLC.nb_subfr ∈ {2,4}`, `0 ≤ sPLC.subfr_length ≤ 80`, either outcome of the energy comparison and
    every `rand_seed`: `celt_assert( idx > 0 )` and the assertions of `silk_LPC_analysis_filter` do not
    fire; every access to `sLTP_Q14`, `sLTP`, `exc_buf`, `exc_Q14` (incl. the `rand_ptr[ idx ]` reads,
    `idx = (silk_RAND >> 25) & 127` — the generator is modelled exactly), `outBuf`, `sLPC_Q14_buf`,
    `sPLC.LTPCoef_Q14`, `prevLPC_Q12`, `prevGain_Q16`, the attenuation tables (index `min(1, lossCnt)`),
    `pitchL[0..3]` and `frame[]` is in bounds; the drifting lag (`pitchL_Q8 += pitchL_Q8·0.01`, capped at
    `18·fs_kHz·256`) stays legal in every sub-frame, so the new `pitchL_Q8` satisfies the invariant again
    and the lag written to `psDecCtrl->pitchL[]` (which becomes `lagPrev`) lies in `[2·fs_kHz, 18·fs_kHz]`. -/
theorem plc_conceal_indices_in_bounds (s : DecSt) (h : ConcealOk s) (lowFirst : Bool) :
    (concealAccesses s lowFirst).2.1 = false ∧ AllIn s.cfg (concealAccesses s lowFirst).1 ∧
    2 * s.fsKHz * 256 ≤ (concealAccesses s lowFirst).2.2.1 ∧ (concealAccesses s lowFirst).2.2.1 ≤ 18 * s.fsKHz * 256 ∧
    2 * s.fsKHz ≤ (concealAccesses s lowFirst).2.2.2.2 ∧ (concealAccesses s lowFirst).2.2.2.2 ≤ 18 * s.fsKHz :=
  concealAccesses_ok s h lowFirst

open Opus.SilkSynthIdx in
example : concealInitOk (step (step (step resetSt (.setFs 16 4)) (.frame SynthExample.fVoiced)) (.frame SynthExample.fLost)) = true := by
  decide +kernel

open Opus.SilkSynthIdx in
example : ConcealOk (step (step (step resetSt (.setFs 16 4)) (.frame SynthExample.fVoiced)) (.frame SynthExample.fLost)) :=
  { cfg := by decide +kernel, loss := by decide +kernel, pitch := by decide +kernel, plcNb := by decide +kernel,
    plcSubfr := by decide +kernel }

open Opus.SilkSynthIdx in
/-- Both arrays, on the decoder-state invariant (which `silk_synthesis_indices_in_bounds` shows is preserved along every
    history): a `silk_decode_frame` call — decoded or concealed, after any history of frames, losses, rate switches and
    resets — reads no uninitialised element of `sLTP_Q15` / `sLTP_Q14`, provided the lags of a decoded voiced frame are
    those of one contour (`decode_core_initialised_after_decode_pitch`: spread ≤ 18 < sub-frame length). -/
theorem decode_frame_no_uninitialised_ltp_read (s : DecSt) (f : FrameIn) (hcfg : Configured s) (hinv : Inv s)
    (hf : FrameOk s f)
    (hsp : f.lost = false → f.signalType = 2 → ∀ k, k < s.nbSubfr →
      f.pitchL.getD k 0 ≤ f.pitchL.getD 0 0 + s.cfg.subfr) :
    frameInitOk s f = true :=
  frameInitOk_ok s f hcfg hinv hf hsp

open Opus.SilkSynthIdx in
/-- One call of `silk_decode_frame` (silk/decode_frame.c:44-172: `silk_decode_core` or `silk_PLC_conceal`,
    `silk_PLC_update` incl. the `silk_PLC_Reset` on a rate change, the `outBuf` shift
    `mv_len = ltp_mem_length - frame_length`, `silk_CNG` incl. its reset, excitation buffer shift and the
    `CNG_exc_buf_Q14[ (seed >> 24) & mask ]` reads, `silk_PLC_glue_frames`, the `lagPrev` update) on a configured
    decoder whose state satisfies the invariant `Inv`, for a frame satisfying `FrameOk` (signal type ≤ 2,
    offset type ≤ 1, and — decoded voiced frame — lags in the legal range): no assertion fires, EVERY access
    of EVERY phase is inside its array, and the invariant holds for the next call.  `Inv`: `lossCnt ≥ 0`;
    `prevSignalType = VOICED ∧ lossCnt ≠ 0 → lagPrev ∈ [2·fs_kHz, 18·fs_kHz]`;
    `sPLC.pitchL_Q8 ∈ [2, 18]·sPLC.fs_kHz·256`; `sPLC.nb_subfr ∈ {2,4}`; `0 ≤ sPLC.subfr_length ≤ 80`. -/
theorem decode_frame_indices_in_bounds (s : DecSt) (f : FrameIn) (hcfg : Configured s) (hinv : Inv s)
    (hf : FrameOk s f) :
    (frameStep s f).1.aborted = false ∧ AllIn s.cfg (frameStep s f).1.all ∧
    Inv (frameStep s f).2 ∧ (frameStep s f).2.fsKHz = s.fsKHz ∧ (frameStep s f).2.nbSubfr = s.nbSubfr :=
  frameStep_ok s f hcfg hinv hf

open Opus.SilkSynthIdx in
/-- THE COMPOSED STATEMENT: the SILK synthesis is index-safe over EVERY history.  Starting from
    `silk_init_decoder` (`resetSt`), for every finite sequence of events — `silk_decoder_set_fs` with a legal
    rate / frame size (a rate change resets `lagPrev`, `prevSignalType`, `first_frame_after_reset`; the PLC and
    CNG states notice the new rate at their next call and re-initialise), the side-channel reset of
    dec_API.c:302-309, a full reset, decoded frames (any signal type, offsets, gains, LTP coefficients;
    voiced frames with lags as `silk_decode_pitch` delivers them) and lost frames, in any order and number,
    frames only on a configured decoder — every `silk_decode_frame` call of the history runs without a
    fired `celt_assert` and with every array access in bounds.  This discharges the `lagPrev` hypothesis of
    `decode_core_indices_in_bounds`: it is part of the invariant, established by `silk_PLC_conceal`. -/
theorem silk_synthesis_indices_in_bounds (evs : List Ev) (h : HistOk resetSt evs) :
    HistSafe resetSt evs ∧
    ∀ p ∈ histFrames resetSt evs, (frameStep p.1 p.2).1.aborted = false ∧ AllIn p.1.cfg (frameStep p.1 p.2).1.all :=
  ⟨hist_safe evs resetSt inv_reset h, histSafe_frames evs resetSt (hist_safe evs resetSt inv_reset h)⟩


open Opus.SilkSynthIdx SynthExample in
example : HistOk resetSt hist ∧
    (histFrames resetSt hist).map (fun p => (p.1.lossCnt, p.1.prevSignalType, p.1.lagPrev, p.1.pitchLQ8, p.1.plcFs)) =
      [(0, 0, 100, 0, 0), (0, 2, 285, 72960, 16), (1, 2, 288, 73728, 16), (2, 2, 288, 73728, 16), (0, 0, 100, 73728, 16),
       (1, 0, 100, 10445, 8)] ∧
    (histFrames resetSt hist).map (fun p => (frameStep p.1 p.2).1.all.length) = [127, 68, 67, 93, 61, 45] := by
  decide +kernel

open Opus.SilkSynthIdx in
/-- `silk_decode_parameters` (silk/decode_parameters.c:35-115) subscripts in bounds — closing the chain
    "any bytes → indices in range (C03) → parameters in range (C18) → every table read and buffer access in
    bounds (this bridge)" for the SILK frame decoder.  For EVERY index set the symbol decoder can produce
    (C03 `IndicesOk`, the conclusion of `OpusProps.C03.silkSyms_decode_indices_in_range` for every range-decoder
    state), every rate and `nb_subfr ∈ {2,4}`, every interpolation factor, reset flag and loss count: the reads of
    `GainsIndices[0..nb)`, `NLSFIndices[0..order]`, `LTPIndex[k]`, `prevNLSF_Q15`; the pointer table
    `silk_LTP_vq_ptrs_Q7[ PERIndex ]` (3 entries; `PERIndex ≤ 2`); the codebook rows
    `cbk_ptr_Q7[ LTPIndex[k]·LTP_ORDER + i ]` (`LTPIndex[k] < 8 << PERIndex` = the number of rows of that
    codebook: `ltpTables_ok`, on the regenerated tables); `silk_LTPScales_table_Q14[ LTP_scaleIndex ]` (3 entries);
    and the writes of `Gains_Q16`, `PredCoef_Q12[0..1]`, `pitchL`, `LTPCoef_Q14`, `prevNLSF_Q15` all lie inside
    their arrays.  (The table reads inside silk_gains_dequant / silk_NLSF_decode / silk_NLSF2A /
    silk_decode_pitch are `nlsf_decode_ordered`, `nlsf2a_passes_stability`, `pitch_in_range`: no `.oob`.) -/
theorem decode_parameters_indices_in_bounds {rate : Opus.SilkSyms.Rate} {nb cc ps : Nat} {pl : Int}
    {ix : Opus.SilkSyms.Indices} (h : Opus.SilkSymsProofs.IndicesOk rate nb cc ps pl ix) (hnb : nb = 2 ∨ nb = 4)
    (interp : Int) (ffar : Bool) (lossCnt : Int) :
    AllIn (cfgOf rate.kHz nb) (paramsAccesses (paramsInOf rate nb ix interp ffar lossCnt)) ∧
    SilkSynth.ltpVqPtrsOk = 1 ∧ SilkSynth.ltpVqSize0 = 8 ∧ SilkSynth.ltpVqSize1 = 16 ∧ SilkSynth.ltpVqSize2 = 32 :=
  ⟨paramsAccesses_ok _ (paramsOk_of_indicesOk h hnb interp ffar lossCnt), ltpTables_ok.1, ltpTables_ok.2.2.2.2.1,
   ltpTables_ok.2.2.2.2.2.1, ltpTables_ok.2.2.2.2.2.2⟩

open Opus.SilkSynthIdx in
/- voiced WB frame, third codebook, last row (31): reads LTP_vq_2[155..159]; one row further would be out of bounds -/
example : extentsStr (paramsAccesses (ParamsIn.mk 16 4 2 2 [31, 0, 7, 31] 2 3 false 1)) [.ltpVq2, .ltpCoef, .predCoef] =
      "LTP_vq_2:r=0..159,w=- LTPCoef_Q14:r=-,w=0..19 PredCoef_Q12:r=0..31,w=0..31" ∧
    ¬ AllIn (cfgOf 16 4) (paramsAccesses (ParamsIn.mk 16 4 2 2 [32, 0, 7, 31] 2 3 false 1)) := by
  refine ⟨by decide +kernel, ?_⟩
  intro h
  have := h ⟨.ltpVq2, 160, 165, false⟩ (by decide +kernel)
  revert this
  decide

open Opus.SilkSynthIdx in
/-- The OUTPUT STAGE of `silk_Decode` (silk/dec_API.c:311-420, silk/stereo_MS_to_LR.c, top level of
    silk/resampler.c) is index-safe for EVERY legal configuration: internal rate 8/12/16 kHz, 10 or 20 ms frames,
    1 or 2 internal and API channels, API rate 8/12/16/24/48 kHz, with or without a decoded side channel, with or
    without the stereo→mono extra resampler call, decoded or lost frame, first stereo call or not (1920 cases,
    kernel-evaluated with the regenerated `delay_matrix_dec`).  In bounds — each ROW of the frame buffer separately: `samplesOut1_tmp[n][frame_length + 2]` (decoded /
    zeroed samples at `[2, frame_length + 2)`, the two history samples, all reads `x1[n], x1[n+1], x1[n+2], x2[n+1]` of
    silk_stereo_MS_to_LR incl. the interpolation over `STEREO_INTERP_LEN_MS·fs_kHz ≤ frame_length` samples, the
    resampler input `&samplesOut1_tmp[n][1]` of `frame_length` samples), `sMid` / `sSide` / `pred_prev_Q13`,
    `samplesOut2_tmp` (`nSamplesOut = frame_length·API_rate/(fs_kHz·1000)`), the `delayBuf[48]` indices
    `[inputDelay, Fs_in_kHz)` and `[0, inputDelay)` for every (in, out) rate pair, the (de-)interleaved writes into
    the caller's `nChannelsAPI·nSamplesOut` buffer; neither `celt_assert` of silk_resampler fires.  The three
    resampling kernels enter as contracts (read `inLen` inputs, write `inLen·Fs_out/Fs_in` outputs), which the
    recorder tie observes on the repo's kernels for all 15 rate pairs. -/
theorem decode_output_indices_in_bounds (fs : Int) (nb : Nat) (nci nca api : Int) (hs stm lost sst : Bool)
    (hfs : fs = 8 ∨ fs = 12 ∨ fs = 16) (hnb : nb = 2 ∨ nb = 4) (hci : nci = 1 ∨ nci = 2) (hca : nca = 1 ∨ nca = 2)
    (hapi : api = 8000 ∨ api = 12000 ∨ api = 16000 ∨ api = 24000 ∨ api = 48000) :
    (outAccesses ⟨fs, nb, nci, nca, api, hs, stm, lost, sst⟩).aborted = false ∧
    AllIn (OutIn.cfg ⟨fs, nb, nci, nca, api, hs, stm, lost, sst⟩) (outAccesses ⟨fs, nb, nci, nca, api, hs, stm, lost, sst⟩).all ∧
    [8000, 12000, 16000, 24000, 48000].map rateId = SilkSynth.rateIds :=
  ⟨(outAccesses_ok fs nb nci nca api hs stm lost sst hfs hnb hci hca hapi).1,
   (outAccesses_ok fs nb nci nca api hs stm lost sst hfs hnb hci hca hapi).2, rateId_ok.1⟩

open Opus.SilkSynthIdx in
/- WB stereo 20 ms to 48 kHz stereo: each row of the frame buffer is used up to its last element 321 (of 322), never
   beyond; 960 samples per channel out; the storage has 2·322 elements -/
example : extentsStr (outAccesses ⟨16, 4, 2, 2, 48000, true, false, false, false⟩).all [.tmp0, .tmp1, .out2, .samplesOut, .delayBuf1] =
    "tmp0:r=0..321,w=0..321 tmp1:r=1..321,w=0..321 samplesOut2_tmp:r=0..959,w=0..959 samplesOut:r=-,w=0..1919 delayBuf1:r=0..15,w=0..15" ∧
    inputDelay 16 48000 = 7 ∧ Arr.size (OutIn.cfg ⟨16, 4, 2, 2, 48000, true, false, false, false⟩) .tmpStore = 644 := by
  decide +kernel

end OpusProps.C18
