import OpusProofs.SilkParamsNlsf
import OpusProofs.SilkParamsLpc
import OpusProofs.SilkParamsGains
import OpusProofs.SilkParamsDec
/-
  C18 — SILK side information always dequantises to stable, in-range parameters.

  Model: OpusModel/SilkParams (+ OpusModel/SilkParams/{Fix,Nlsf,Lpc,Gains}.lean), tables
  regenerated from /repo into OpusModel/Gen/SilkNlsf.lean.  Vocabulary (OpusProofs/SilkParamsSpec):
  `I16`/`AllI16` (fits opus_int16), `SpacedFrom 0 x d` (x[0] ≥ d[0], x[i] ≥ x[i-1] + d[i],
  x[L-1] + d[L] ≤ 2^15), `StrictInc`.

  Full statement that is NOT proved (kept here as required by the conventions):

    theorem lpc_fit_int16 (a32 : List Int) (h : ∀ e ∈ a32, -2^31 ≤ e ∧ e < 2^31) :
        ∀ e ∈ (lpcFitLoop 5 10 a32 0).1, I16 (rshiftRound e 5)  -- when the loop exits early
    -- i.e. the `(opus_int16)` casts of silk_LPC_fit and of the re-quantisation inside the
    -- stabilisation loop of silk_NLSF2A never truncate.  The model applies the truncation
    -- (`wrap16`), so the theorems below hold regardless; what is missing is the proof that the
    -- truncation is the identity (design priority P1).
-/
namespace OpusProps.C18
open Opus Opus.SilkParams Opus.Gen

/-- Clause "whatever index values a bitstream can carry … at least the codebook's minimum
    spacing" — table side.  For both regenerated NLSF codebooks: array sizes agree with
    `nVectors`/`order` and with the ICDF symbol counts (so decoded indices are in bounds), all
    first-stage weights are positive (no division by zero in `silk_NLSF_decode`), every
    `deltaMin` entry is ≥ 1 and they sum to at most 2^15, and every table read of
    `silk_NLSF_unpack` is in bounds for every first-stage index; the cosine table, the pitch
    contour codebooks and the gain ICDFs have the sizes the decoders index them with. -/
theorem cb_wellformed : CbWellFormed cbNbMb ∧ CbWellFormed cbWb ∧ SideTablesWellFormed :=
  ⟨cbNbMb_wellformed, cbWb_wellformed, sideTables_wellformed⟩

example : cbNbMb.deltaMinQ15 = [250, 3, 6, 3, 3, 3, 4, 3, 3, 3, 461] ∧ cbWb.order = 16 := by decide

/-- Clause "line-spectral frequencies come out strictly ordered with at least the codebook's
    minimum spacing" — the stabiliser.  For EVERY int16 input vector `x` (length L ≥ 1) and EVERY
    minimum-distance table `ds ++ [dL]` with non-negative entries, last entry ≥ 1 and sum ≤ 2^15,
    `silk_NLSF_stabilize` returns (early exit or fallback path) a vector of the same length whose
    entries fit int16 and satisfy `out[0] ≥ d[0]`, `out[i] - out[i-1] ≥ d[i]`, `out[L-1] ≤ 2^15 - d[L]`. -/
theorem stabilize_post (x ds : List Int) (dL : Int) (hx : AllI16 x) (hne : x ≠ [])
    (hlen : ds.length = x.length) (hpos : ∀ e ∈ ds, 0 ≤ e) (hlast : 1 ≤ dL)
    (hsum : sumL ds + dL ≤ 32768) :
    ∃ out, nlsfStabilize x (ds ++ [dL]) = .ok out ∧ SpacedFrom 0 out (ds ++ [dL]) ∧
      out.length = x.length ∧ AllI16 out :=
  nlsfStabilize_spec x (ds ++ [dL]) hx hne
    (by rw [← hlen]; exact DeltaOk_of_facts dL ds 0 hpos hlast (by omega))

/- a reversed vector with a clustered pair: goes through corrective moves -/
example : nlsfStabilize [30000, 200, 200, -5] ([250, 3, 6, 3] ++ [461]) = .ok [7492, 7602, 7608, 7717] := by
  decide +kernel

/-- Clause "line-spectral frequencies come out strictly ordered …" — the decoder.  For both
    codebooks, every first-stage index `cb1 < nVectors` and EVERY residual index vector of length
    `order` (any integers, not only the ±10 a bitstream can produce), `silk_NLSF_decode` performs
    no out-of-bounds read or division by zero and returns `order` values in `[0, 32767]`,
    strictly increasing, spaced by the codebook's `deltaMin`. -/
theorem nlsf_decode_ordered (cb : NlsfCB) (hcb : cb = cbNbMb ∨ cb = cbWb) (cb1 : Nat)
    (h1 : cb1 < cb.nVectors) (idx : List Int) (hlen : idx.length = cb.order) :
    ∃ out, nlsfDecode cb ((cb1 : Int) :: idx) = .ok out ∧ SpacedFrom 0 out cb.deltaMinQ15 ∧
      out.length = cb.order ∧ (∀ e ∈ out, 0 ≤ e ∧ e ≤ 32767) ∧ StrictInc out := by
  rcases hcb with h | h <;> subst h
  · exact nlsfDecode_ordered cbNbMb cbNbMb_wellformed cbNbMb_deltaOk cbNbMb_stage1 cb1 h1 idx hlen
  · exact nlsfDecode_ordered cbWb cbWb_wellformed cbWb_deltaOk cbWb_stage1 cb1 h1 idx hlen

example : nlsfDecode cbNbMb [7, 10, -10, 10, -10, 0, 0, 4, -4, 10, 10] =
    .ok [2775, 2778, 8662, 8665, 13963, 17510, 26518, 28628, 32304, 32307] := by decide +kernel

/-- Clause "the prediction filters derived from them (including interpolated ones) are stable
    with bounded gain and fit their 16-bit format".  For EVERY vector of 10 or 16 values in
    `[0, 32767]` (no ordering assumed, hence interpolated vectors are covered) `silk_NLSF2A`
    returns `d` coefficients that fit int16 and pass the codec's own stability test:
    `silk_LPC_inverse_pred_gain(a_Q12) ≠ 0`.  What the code does: the loop
    `for (i = 0; inv_gain(a) == 0 && i < 16; i++)` either stops on a passing filter, or reaches
    `i = 15` where the chirp factor `65536 - (2 << 15)` is 0, which zeroes the 32-bit filter; the
    re-quantised all-zero filter has inverse gain 2^30 and passes.  A non-zero inverse gain is
    at least `SILK_FIX_CONST(1/MAX_PREDICTION_POWER_GAIN, 30) = 107374` (bounded gain). -/
theorem nlsf2a_passes_stability (nlsf : List Int) (hd : nlsf.length = 10 ∨ nlsf.length = 16)
    (hr : ∀ e ∈ nlsf, 0 ≤ e ∧ e ≤ 32767) :
    ∃ a, nlsf2a nlsf = .ok a ∧ a.length = nlsf.length ∧ AllI16 a ∧
      lpcInversePredGain a ≠ 0 ∧ 107374 ≤ lpcInversePredGain a := by
  obtain ⟨a, ha, hl, hI, hg⟩ := nlsf2a_spec nlsf hd hr
  refine ⟨a, ha, hl, hI, hg, ?_⟩
  rcases lpcInversePredGain_ge a with h | h
  · exact absurd h hg
  · exact h

/- an unordered, clustered input that needs bandwidth expansion before it passes -/
example : nlsf2a [100, 100, 100, 100, 100, 20000, 20000, 20000, 20000, 20000] =
    .ok [10411, -10758, 10164, -11137, 7494, -3318, 2083, -869, -92, 102] := by decide +kernel

/-- Clause "… (including interpolated ones)" — composition as in `silk_decode_parameters`
    (decode_parameters.c:44-80, no packet loss).  For both codebooks, every first-stage index,
    every residual vector, every previous NLSF vector in `[0, 32767]` (e.g. the previous frame's
    stabilised NLSFs), every interpolation factor 0..4 and either value of
    `first_frame_after_reset`: decoding succeeds, the NLSFs are spaced by `deltaMin`, and both the
    interpolated filter `PredCoef_Q12[0]` and the final filter `PredCoef_Q12[1]` fit int16 and pass
    the stability test. -/
theorem decode_parameters_stable (cb : NlsfCB) (hcb : cb = cbNbMb ∨ cb = cbWb) (cb1 : Nat)
    (h1 : cb1 < cb.nVectors) (idx prev : List Int) (coef ffar : Int) (hlen : idx.length = cb.order)
    (hpl : prev.length = cb.order) (hpr : ∀ e ∈ prev, 0 ≤ e ∧ e ≤ 32767) (hc0 : 0 ≤ coef) (hc1 : coef ≤ 4) :
    ∃ a0 a1 nlsf, decodeNlsfParams cb ((cb1 : Int) :: idx) prev coef ffar = .ok (a0, a1, nlsf) ∧
      SpacedFrom 0 nlsf cb.deltaMinQ15 ∧ a0.length = cb.order ∧ a1.length = cb.order ∧
      AllI16 a0 ∧ AllI16 a1 ∧ lpcInversePredGain a0 ≠ 0 ∧ lpcInversePredGain a1 ≠ 0 := by
  rcases hcb with h | h <;> subst h
  · exact decodeNlsfParams_spec cbNbMb cb1 idx prev coef ffar (cbNbMb_stage1 cb1 (List.mem_range.mpr h1))
      (by decide) cbNbMb_deltaOk cbNbMb_wellformed.delta_pos hlen hpl hpr hc0 hc1
  · exact decodeNlsfParams_spec cbWb cb1 idx prev coef ffar (cbWb_stage1 cb1 (List.mem_range.mpr h1))
      (by decide) cbWb_deltaOk cbWb_wellformed.delta_pos hlen hpl hpr hc0 hc1

example : decodeNlsfParams cbNbMb [3, 0, 1, -2, 0, 3, 0, 0, -1, 0, 2]
    [1000, 4000, 7000, 10000, 13000, 16000, 19000, 22000, 25000, 28000] 1 0 =
    .ok ([4763, -2165, 1728, -331, -60, -574, 290, -213, 528, -129],
         [3861, -372, 466, 3089, -4097, 13, -771, 394, 1646, -498],
         [1760, 3780, 4608, 11295, 15595, 15598, 18418, 21356, 27208, 31157]) := by
  decide +kernel

/-- Clause "sub-frame gains stay inside the quantiser's range however delta indices
    accumulate".  For EVERY chain of frames (any number of frames, any number of sub-frames, each
    frame independently or conditionally coded), EVERY index value (any integers, not only the
    coded ranges 0..63 / 0..40) and every starting `LastGainIndex` in `[0, 63]`:
    all dequantised gains lie in `[gain(0), gain(63)] = [81920, 1686110208]` (Q16) and
    `LastGainIndex` is again in `[0, 63]` after the chain (hence after every prefix of it). -/
theorem gain_index_inv (frames : List (List Int × Int)) (prev : Int) (h0 : 0 ≤ prev) (h1 : prev ≤ 63) :
    (∀ gs ∈ (gainsDequantChain frames prev).1, ∀ g ∈ gs, gainMinQ16 ≤ g ∧ g ≤ gainMaxQ16) ∧
    0 ≤ (gainsDequantChain frames prev).2 ∧ (gainsDequantChain frames prev).2 ≤ 63 :=
  gainsDequantChain_spec frames prev h0 h1

example : gainsDequantChain [([63, 40, 40, 40], 0), ([40, 0, 0, 0], 1)] 0 =
    ([[1686110208, 1686110208, 1686110208, 1686110208], [1686110208, 897581056, 480247808, 253755392]], 51) := by
  decide +kernel

/-- Same clause, single step: whatever the index, previous index and coding mode, one sub-frame of
    `silk_gains_dequant` leaves `*prev_ind` in `[0, 63]`; and the range ends are attained:
    `gain(0) = 81920`, `gain(63) = 1686110208`, strictly increasing in between. -/
theorem gain_step_range (first : Bool) (cond ind prev : Int) :
    0 ≤ gainDequantPrev first cond ind prev ∧ gainDequantPrev first cond ind prev ≤ 63 ∧
    gainOfIndex 0 = gainMinQ16 ∧ gainOfIndex 63 = gainMaxQ16 ∧
    (∀ p ∈ List.range 63, gainOfIndex (p : Int) < gainOfIndex ((p : Int) + 1)) :=
  ⟨(gainDequantPrev_range first cond ind prev).1, (gainDequantPrev_range first cond ind prev).2,
   gainOfIndex_ends.1, gainOfIndex_ends.2,
   fun p hp => (gainOfIndex_table p (List.mem_range.mpr (by have := List.mem_range.mp hp; omega))).2.2⟩

example : gainDequantPrev true 0 5 40 = 24 ∧ gainDequantPrev false 1 40 60 = 63 := by decide +kernel

/-- Same clause, arithmetic safety: for indices a bitstream can carry (0..63 absolute, 0..40
    delta) and a previous index in `[0, 63]`, no store into the `opus_int8` `*prev_ind` wraps —
    the update is the plain integer formula followed by the clamp to `[0, 63]`. -/
theorem gain_step_nowrap (first : Bool) (cond ind prev : Int) (hp0 : 0 ≤ prev) (hp1 : prev ≤ 63)
    (hi0 : 0 ≤ ind) (hi1 : if first = true ∧ cond = 0 then ind ≤ 63 else ind ≤ 40) :
    gainDequantPrev first cond ind prev =
      limit (if first = true ∧ cond = 0 then max ind (prev - 16)
             else if ind - 4 > 8 + prev then prev + (2 * (ind - 4) - (8 + prev)) else prev + (ind - 4)) 0 63 :=
  gainDequantPrev_nowrap first cond ind prev hp0 hp1 hi0 hi1

example : gainDequantPrev false 1 40 0 = 63 ∧ (if false = true ∧ (1 : Int) = 0 then (40 : Int) ≤ 63 else (40 : Int) ≤ 40) := by
  decide +kernel

/-- Clause "quantising parameters on the encoder side and dequantising them gives the same
    values the decoder will reconstruct" — gains.  For EVERY input gain vector (any 32-bit
    values), every `prev_ind` in `[0, 63]` and either coding mode, running `silk_gains_dequant`
    on the indices produced by `silk_gains_quant` (same `prev_ind`, same mode) yields exactly
    the quantised gains the encoder wrote back and the same final `prev_ind`, again in `[0, 63]`. -/
theorem gains_quant_dequant (gains : List Int) (prev cond : Int) (h0 : 0 ≤ prev) (h1 : prev ≤ 63) :
    gainsDequant (gainsQuant gains prev cond).1 prev cond =
      ((gainsQuant gains prev cond).2.1, (gainsQuant gains prev cond).2.2) ∧
    (gainsQuant gains prev cond).1.length = gains.length ∧
    0 ≤ (gainsQuant gains prev cond).2.2 ∧ (gainsQuant gains prev cond).2.2 ≤ 63 :=
  gainsQuantLoop_agrees cond gains true prev h0 h1

example : gainsQuant [65536, 1000000, 30000000, 123] 10 0 =
    ([6, 13, 26, 0], [210944, 872448, 28049408, 14876672], 33) := by decide +kernel

/-- One sub-frame of the quantiser: the emitted index is in the coded range (0..63 absolute,
    0..40 delta), so it can be written with the gain ICDFs. -/
theorem gains_quant_index_in_range (first : Bool) (cond g prev : Int) (h0 : 0 ≤ prev) (h1 : prev ≤ 63) :
    0 ≤ (gainQuantStep first cond g prev).1 ∧
    (if first = true ∧ cond = 0 then (gainQuantStep first cond g prev).1 ≤ 63
     else (gainQuantStep first cond g prev).1 ≤ 40) :=
  ⟨(gainQuantStep_agrees first cond g prev h0 h1).2.2.2.2.1, (gainQuantStep_agrees first cond g prev h0 h1).2.2.2.2.2⟩

example : (gainQuantStep false 1 2000000000 3).1 = 40 := by decide +kernel

/-- Clause "quantising … gives the same values the decoder will reconstruct" — NLSF
    interpolation.  On NLSF-range vectors the encoder's `silk_interpolate`
    (process_NLSFs.c:75,97) and the decoder's inline interpolation (decode_parameters.c:63-66)
    compute the same vector, which again lies in `[0, 32767]`.  (The encoder's quantised NLSFs
    themselves are produced by a call to the modelled `silk_NLSF_decode`, NLSF_encode.c:119.) -/
theorem nlsf_interp_enc_dec_agree (k : Int) (hk0 : 0 ≤ k) (hk1 : k ≤ 4) (p c : List Int)
    (hl : p.length = c.length) (hp : ∀ e ∈ p, 0 ≤ e ∧ e ≤ 32767) (hc : ∀ e ∈ c, 0 ≤ e ∧ e ≤ 32767) :
    nlsfInterpEnc k p c = nlsfInterpDec k p c ∧ (nlsfInterpDec k p c).length = c.length ∧
    ∀ e ∈ nlsfInterpDec k p c, 0 ≤ e ∧ e ≤ 32767 :=
  ⟨nlsfInterp_enc_eq_dec k hk0 hk1 p c hp hc, nlsfInterpDec_range k hk0 hk1 p c hl hp hc⟩

example : nlsfInterpDec 3 [32767, 0, 100] [0, 32767, 101] = [8191, 24575, 100] := by decide +kernel

/-- Clause "pitch lags and contours stay inside the legal lag range for the sampling rate".
    For `Fs_kHz ∈ {8,12,16}`, `nb_subfr ∈ {2,4}`, EVERY `lagIndex` (any integer: in range, or out
    of range after delta decoding) and every contour index below the size of the selected
    codebook: `silk_decode_pitch` reads only inside the contour table and returns `nb_subfr`
    lags with `2*Fs_kHz ≤ lag ≤ 18*Fs_kHz`. -/
theorem pitch_in_range (lagIndex contour fs : Int) (nb : Nat)
    (hfs : fs = 8 ∨ fs = 12 ∨ fs = 16) (hnb : nb = 2 ∨ nb = 4) (hc0 : 0 ≤ contour)
    (hc1 : ∀ cb, pitchCodebook fs nb = .ok cb → contour < (cb.2 : Int)) :
    ∃ lags, decodePitch lagIndex contour fs nb = .ok lags ∧ lags.length = nb ∧
      ∀ l ∈ lags, 2 * fs ≤ l ∧ l ≤ 18 * fs :=
  decodePitch_spec lagIndex contour fs nb hfs hnb hc0 hc1

example : decodePitch 100 33 16 4 = .ok [123, 129, 135, 141] ∧ decodePitch (-7) 2 8 2 = .ok [16, 16] ∧
    pitchCodebook 16 4 = .ok (SilkNlsf.cbLagsStage3, 34) := by decide +kernel

end OpusProps.C18
